#!/bin/sh
# Build the framework from files on disk only (offline): fact extractor, Lean project (all property
# theorems + native driver), Go harness. Run once after a fresh restore; every ./check re-does the
# parts that depend on /repo's working tree.
set -e
cd "$(dirname "$0")"
export GOFLAGS=-mod=mod GOPROXY=off GOSUMDB=off GOTOOLCHAIN=local
mkdir -p build evidence replays lean/DnsVerif/Generated
(cd extract && go build -o ../build/verifextract .)
rm -rf build/generated.tmp && mkdir -p build/generated.tmp
./build/verifextract /repo/dnsrocks build/generated.tmp
cp build/generated.tmp/*.lean lean/DnsVerif/Generated/
rm -rf build/generated.tmp
(cd lean && lake build)
cp /repo/dnsrocks/go.sum harness/go.sum
(cd harness && go build -tags verif -ldflags=-checklinkname=0 -o ../build/verifharness .)
echo "setup ok"
