package main

// Shared generator of tinydns-style data lines and data files (used by the codec, compile, serving
// and location checks). Structured and mostly valid: names over a small label alphabet, nested
// zones, delegations with glue, every line type with optional fields independently present/absent,
// both separators, escaped bytes, wildcard owners, locations, maps and subnets.

import (
	"fmt"
	"strings"
)

var dgLabels = []string{"a", "b", "www", "x-1", "_srv", "MiXed", "xn--0", "n1", "n2", "mail"}
var dgOddLabels = []string{"a+b", "\\052", "a\\054b", "sp\\040ace"} // not wild-safe / escaped bytes
var dgLocs = []string{"", "", "aa", "bb", "\\000\\001"}

type dataOpts struct {
	v6      bool // allow IPv6 addresses
	odd     bool // odd labels, escapes
	maxZone int
	locs    bool
	maps    bool
	svcb    bool
}

type zoneInfo struct {
	name   string   // "ex.com"
	owners []string // names inside the zone that own records (text form, may start with "*.")
	deleg  []string // delegated child names
}

type dataFile struct {
	lines []string
	zones []zoneInfo
	locs  []string // location ids used ("" excluded)
	maps  []string
}

func (g *gen) label(o dataOpts) string {
	if o.odd && g.chance(1, 12) {
		return g.pick(dgOddLabels)
	}
	return g.pick(dgLabels)
}

func (g *gen) ip4() string {
	return fmt.Sprintf("%d.%d.%d.%d", 1+g.intn(223), g.intn(256), g.intn(256), g.intn(256))
}

func (g *gen) ip6() string {
	switch g.intn(4) {
	case 0:
		return fmt.Sprintf("2001:db8::%x", g.intn(65536))
	case 1:
		return fmt.Sprintf("fd00:%x:%x::%x:1", g.intn(65536), g.intn(65536), g.intn(65536))
	case 2:
		return fmt.Sprintf("2001:db8:%x:%x:%x:%x:%x:%x", g.intn(65536), g.intn(65536), g.intn(65536), g.intn(65536), g.intn(65536), g.intn(65536))
	}
	return "::1"
}

func (g *gen) ip(o dataOpts) string {
	if o.v6 && g.chance(1, 3) {
		return g.ip6()
	}
	return g.ip4()
}

func (g *gen) ttl() string {
	switch g.intn(6) {
	case 0:
		return ""
	case 1:
		return "0"
	case 2:
		return "300"
	case 3:
		return fmt.Sprint(g.intn(100000))
	case 4:
		return "4294967295"
	}
	return "60"
}

func (g *gen) loc(df *dataFile, o dataOpts) string {
	if !o.locs || len(df.locs) == 0 || g.chance(3, 5) {
		return ""
	}
	return g.pick(df.locs)
}

// join builds a line with the chosen separator, trimming trailing empty fields sometimes.
func (g *gen) join(prefix string, f []string) string {
	sep := ","
	if g.chance(1, 4) {
		usable := true
		for _, x := range f {
			if strings.Contains(x, ":") {
				usable = false
			}
		}
		if usable {
			sep = ":"
		}
	}
	// never cut: fields are positional; but drop trailing empties half of the time
	n := len(f)
	if g.bool() {
		for n > 1 && f[n-1] == "" {
			n--
		}
	}
	return prefix + strings.Join(f[:n], sep)
}

// recordLines emits 1..k record lines for owner `name` inside zone `zone`.
func (g *gen) recordLine(df *dataFile, o dataOpts, name, zone string) string {
	lo := g.loc(df, o)
	switch g.intn(11) {
	case 0, 1, 2: // +
		w := ""
		switch g.intn(5) {
		case 0:
			w = "0"
		case 1:
			w = "1"
		case 2:
			w = fmt.Sprint(1 + g.intn(1000))
		}
		return g.join("+", []string{name, g.ip(o), g.ttl(), "", lo, w})
	case 3: // =
		if strings.HasPrefix(name, "*.") {
			return g.join("+", []string{name, g.ip(o), g.ttl(), "", lo})
		}
		return g.join("=", []string{name, g.ip(o), g.ttl(), "", lo})
	case 4: // C
		return g.join("C", []string{name, g.label(o) + "." + zone, g.ttl(), "", lo})
	case 5: // '
		txt := g.pick([]string{"hello", "v=spf1\\040-all", "a\\072b", strings.Repeat("x", 130), "", "q\\042uote"})
		return g.join("'", []string{name, txt, g.ttl(), "", lo})
	case 6: // @
		// (".": the null MX of RFC 7505; "mailhub.": a fully qualified single label - neither is the
		// bare-label shorthand that expands to x.mx.<zone>)
		mx := g.pick([]string{"mx1", "mail." + zone, "MAIL." + zone, "mx.other.net", ".", "mailhub."})
		ip := ""
		if g.bool() {
			ip = g.ip(o)
		}
		return g.join("@", []string{strings.TrimPrefix(name, "*."), ip, mx, g.pick([]string{"", "10", "65535", "70000"}), g.ttl(), "", lo})
	case 7: // S
		ip := ""
		if g.bool() {
			ip = g.ip(o)
		}
		return g.join("S", []string{strings.TrimPrefix(name, "*."), ip, g.pick([]string{"s1", "srv." + zone, ".", "host."}), g.pick([]string{"", "443", "65535"}), g.pick([]string{"", "1"}), g.pick([]string{"", "5"}), g.ttl(), "", lo})
	case 8: // : generic (type 99 SPF-like TXT-shaped rdata, or CAA 257)
		if g.bool() {
			return g.join(":", []string{strings.TrimPrefix(name, "*."), "99", "\\005hello", g.ttl(), "", lo})
		}
		return g.join(":", []string{strings.TrimPrefix(name, "*."), "257", "\\000\\005issueca.example", g.ttl(), "", lo})
	case 9: // ^
		return g.join("^", []string{strings.TrimPrefix(name, "*."), g.label(o) + "." + zone, g.ttl(), "", lo})
	}
	// second address of another family
	return g.join("+", []string{name, g.ip6(), g.ttl(), "", lo, ""})
}

// genDataFile builds a whole data file.
func (g *gen) genDataFile(o dataOpts) *dataFile {
	df := &dataFile{}
	if o.locs {
		n := g.intn(3)
		for i := 0; i < n; i++ {
			l := g.pick([]string{"aa", "bb", "\\000\\001", "zz", "aA", "Aa"})
			dup := false
			for _, x := range df.locs {
				if x == l {
					dup = true
				}
			}
			if !dup {
				df.locs = append(df.locs, l)
			}
		}
	}
	nz := 1 + g.intn(o.maxZone)
	base := []string{"ex.com", "org", "z.ex.com", "deep.z.ex.com", "example.net"}
	g.shuffle(base)
	for zi := 0; zi < nz && zi < len(base); zi++ {
		z := zoneInfo{name: base[zi]}
		// SOA + NS
		if g.bool() {
			df.lines = append(df.lines, g.join(".", []string{z.name, g.pick([]string{"", g.ip4()}), g.pick([]string{"a", "ns1." + z.name, "ns.other.net"}), g.ttl(), "", ""}))
		} else {
			// split view at the apex: now and then the SOA exists for one location only while the NS
			// records are untagged (clients elsewhere see a delegation-like zone without SOA)
			soaLoc := ""
			if len(df.locs) > 0 && g.chance(1, 4) {
				soaLoc = g.pick(df.locs)
			}
			df.lines = append(df.lines, g.join("Z", []string{z.name, "ns1." + z.name, "hostmaster." + z.name, g.pick([]string{"", "2024010101"}), "", "", "", g.pick([]string{"", "300"}), g.ttl(), "", soaLoc}))
			df.lines = append(df.lines, g.join("&", []string{z.name, g.pick([]string{"", g.ip4()}), g.pick([]string{"a", "ns1." + z.name}), g.ttl(), "", ""}))
		}
		if g.chance(1, 3) {
			df.lines = append(df.lines, g.join("&", []string{z.name, g.ip(o), "b", g.ttl(), "", ""}))
		}
		// owners
		no := 1 + g.intn(6)
		for i := 0; i < no; i++ {
			depth := g.intn(3)
			name := z.name
			for d := 0; d < depth; d++ {
				name = g.label(o) + "." + name
			}
			if depth > 0 && g.chance(1, 4) {
				name = "*." + strings.SplitN(name, ".", 2)[1]
			}
			z.owners = append(z.owners, name)
			k := 1 + g.intn(3)
			for j := 0; j < k; j++ {
				df.lines = append(df.lines, g.recordLine(df, o, name, z.name))
			}
		}
		// a name whose only records carry location ids: for a client of another location (or of
		// none) the name exists without data - NODATA, not NXDOMAIN, on every key layout
		if o.locs && g.chance(1, 2) {
			name := g.pick([]string{"only", "lo.x-1", "www.only"}) + "." + z.name
			z.owners = append(z.owners, name)
			if g.bool() {
				// ... and one untagged record of one type: other types are NODATA for everybody
				df.lines = append(df.lines, g.join("S", []string{name, "", "host.", "65535", "", "5"}))
			}
			for j := 0; j < 1+g.intn(2); j++ {
				// location ids that sort before and after the ids clients are mapped to: with sorted
				// keys the closest key to (name, client's location) is then this name under ANOTHER
				// location, and the reader has to go on to the untagged records
				lo := g.pick([]string{"qq", "\\000\\001", "\\377\\376", "AA"})
				if len(df.locs) > 0 && g.chance(1, 3) {
					lo = g.pick(df.locs)
				}
				switch g.intn(3) {
				case 0:
					df.lines = append(df.lines, g.join("+", []string{name, g.ip(o), g.ttl(), "", lo}))
				case 1:
					df.lines = append(df.lines, g.join("^", []string{name, "n1." + z.name, g.ttl(), "", lo}))
				default:
					df.lines = append(df.lines, g.join("'", []string{name, "text", g.ttl(), "", lo}))
				}
			}
		}
		// delegations
		if g.chance(1, 2) {
			child := g.label(dataOpts{}) + "." + z.name
			taken := false
			for _, b := range base[:nz] {
				if strings.EqualFold(b, child) {
					taken = true
				}
			}
			if !taken {
				z.deleg = append(z.deleg, child)
				df.lines = append(df.lines, g.join("&", []string{child, g.pick([]string{"", g.ip4()}), g.pick([]string{"ns1." + child, "ns.elsewhere.org", "c", "nshost."}), g.ttl(), "", ""}))
				if g.bool() {
					df.lines = append(df.lines, g.join("&", []string{child, g.ip(o), "d", "", "", ""}))
				}
			}
		}
		df.zones = append(df.zones, z)
	}
	if o.maps && g.chance(2, 3) {
		// resolver map and ECS map with a few subnets
		df.maps = []string{"m1", "e1"}
		df.lines = append(df.lines, "M"+df.zones[0].name+",m1")
		if g.bool() {
			df.lines = append(df.lines, "8"+df.zones[0].name+",e1")
		}
		if g.bool() {
			// the wildcard map is the zone's own map or a map of its own
			wm := g.pick([]string{"m1", "m2"})
			if wm == "m2" {
				df.maps = append(df.maps, "m2")
			}
			df.lines = append(df.lines, "M*."+df.zones[0].name+","+wm)
		}
		if g.chance(1, 2) {
			// an exact map on a name inside the zone: it covers that name only, the names below it
			// fall to the wildcard map (or to none)
			df.maps = append(df.maps, "m3")
			df.lines = append(df.lines, "M"+g.pick([]string{"x-1", "www", "a", "n1"})+"."+df.zones[0].name+",m3")
		}
		nets := []string{"10.0.0.0/8", "10.1.0.0/16", "192.168.0.0/16", "0.0.0.0/0", "2001:db8::/32", "::/0", "172.16.0.0/12"}
		for _, m := range df.maps {
			for _, n := range nets {
				if g.chance(1, 2) {
					lo := "dd" // a subnet line without a location is rejected by the RocksDB codec
					if len(df.locs) > 0 {
						lo = g.pick(df.locs)
					}
					df.lines = append(df.lines, fmt.Sprintf("%%%s,%s,%s", lo, n, m))
				}
			}
		}
	}
	if g.chance(1, 5) {
		df.lines = append(df.lines, "# a comment", "", "   ")
	}
	g.shuffle(df.lines)
	return df
}

func (g *gen) shuffle(xs []string) {
	for i := len(xs) - 1; i > 0; i-- {
		j := g.intn(i + 1)
		xs[i], xs[j] = xs[j], xs[i]
	}
}

// randomLine produces a single line of a random type with independently random fields, including
// malformed ones (for the codec correspondence).
func (g *gen) randomLine(o dataOpts) string {
	df := &dataFile{locs: []string{"aa", "\\000\\001", "toolong", "\\0"}}
	zone := g.pick([]string{"ex.com", "org", ""})
	name := g.label(o)
	if zone != "" {
		name += "." + zone
	}
	if g.chance(1, 5) {
		name = "*." + name
	}
	if g.chance(1, 30) {
		name = g.pick([]string{"", ".", "..", "a..b", "*.", "*"})
	}
	o.locs = true
	switch g.intn(16) {
	case 0:
		return g.join("Z", []string{name, g.pick([]string{"ns1." + zone, "", "x"}), g.pick([]string{"hm." + zone, ""}), g.pick([]string{"", "0", "5", "4294967296"}), g.ttl(), g.ttl(), g.ttl(), g.ttl(), g.ttl(), "", g.loc(df, o)})
	case 1:
		return g.join(".", []string{name, g.pick([]string{"", g.ip(o), "bogus", "1.2.3"}), g.pick([]string{"a", "ns1." + zone, "", "X.y"}), g.ttl(), "", g.loc(df, o)})
	case 2:
		return g.join("&", []string{name, g.pick([]string{"", g.ip(o), "01.2.3.4"}), g.pick([]string{"a", "ns1." + zone, ""}), g.ttl(), "", g.loc(df, o)})
	case 3:
		return g.join("M", []string{name, g.pick([]string{"m1", "", "m", "\\001\\002", "toolong"})})
	case 4:
		return g.join("8", []string{name, g.pick([]string{"e1", "\\000\\000"})})
	case 5:
		net := g.pick([]string{"10.0.0.0/8", "10.1.2.3/16", "1.2.3.4", "", "2001:db8::/32", "::/0", "0.0.0.0/0", "::ffff:1.2.3.0/120", "1.2.3.4/33", "bogus", "10.0.0.0/08", "fe80::1%eth0/64"})
		return g.join("%", []string{g.loc(df, o), net, g.pick([]string{"m1", "e1", ""})})
	case 6:
		return g.pick([]string{"?unknown,1,2", "Xfoo", "-x,y"})
	}
	return g.recordLine(df, o, name, g.pick([]string{"ex.com", "org"}))
}
