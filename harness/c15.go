package main

import (
	"bufio"
	"errors"
	"fmt"
	"io"
	"os"
	"path/filepath"
	"sort"
	"strings"

	"github.com/facebookincubator/dns/dnsrocks/dnsdata/rdb"
)

func init() {
	props["C15"] = &prop{gen: c15gen, run: c15run, setup: c15setup, teardown: c15teardown}
}

var (
	c15dir    string
	c15db     *rdb.RDB
	c15hist   int
	c15values = [][]byte{{}, []byte("a"), []byte("ab"), []byte("b"), {0, 0, 0, 0}, {1, 0, 0, 0, 'a'}}
	c15keys   = [][]byte{[]byte("k"), []byte("kk"), []byte("l"), {0}}
)

func c15setup() {
	d, err := os.MkdirTemp("", "c15-")
	if err != nil {
		fatal("%v", err)
	}
	c15dir = d
	sub := filepath.Join(d, "shared")
	os.MkdirAll(sub, 0o755)
	db, err := rdb.NewRDB(sub)
	if err != nil {
		fatal("open rdb: %v", err)
	}
	c15db = db
}

func c15teardown() {
	if c15db != nil {
		c15db.Close()
	}
	os.RemoveAll(c15dir)
}

func c15gen(g *gen, tier string, w *bufio.Writer) {
	// exhaustive add/del histories over 2 keys x 3 values
	ks := c15keys[:2]
	vs := c15values[:3]
	var ops []string
	for _, k := range ks {
		for _, v := range vs {
			ops = append(ops, "a:"+hexTok(k)+"."+hexTok(v))
			ops = append(ops, "d:"+hexTok(k)+"."+hexTok(v))
		}
	}
	maxLen := 4
	if tier == "thorough" {
		maxLen = 5
	}
	var rec func(prefix []string, depth int)
	rec = func(prefix []string, depth int) {
		if len(prefix) > 0 {
			fmt.Fprintf(w, "hist %s\n", strings.Join(prefix, ";"))
		}
		if depth == maxLen {
			return
		}
		for _, o := range ops {
			rec(append(prefix, o), depth+1)
		}
	}
	rec(nil, 0)
	// random histories with batches
	n := 3000
	if tier == "thorough" {
		n = 60000
	}
	pair := func() string {
		k := c15keys[g.intn(len(c15keys))]
		var v []byte
		if g.chance(1, 8) {
			v = make([]byte, g.intn(300))
			for i := range v {
				v[i] = byte(g.intn(256))
			}
		} else {
			v = c15values[g.intn(len(c15values))]
		}
		return hexTok(k) + "." + hexTok(v)
	}
	for i := 0; i < n; i++ {
		l := 1 + g.intn(12)
		if g.chance(1, 20) {
			l = 20 + g.intn(380)
		}
		var h []string
		for j := 0; j < l; j++ {
			switch g.intn(10) {
			case 0, 1, 2:
				h = append(h, "a:"+pair())
			case 3, 4:
				h = append(h, "d:"+pair())
			case 5:
				h = append(h, "f:"+hexTok(c15keys[g.intn(len(c15keys))]))
			default:
				m := g.intn(8)
				if g.chance(1, 10) {
					m = g.intn(50)
				}
				var items []string
				for q := 0; q < m; q++ {
					if g.chance(2, 3) {
						items = append(items, "+"+pair())
					} else {
						items = append(items, "-"+pair())
					}
				}
				body := "-"
				if len(items) > 0 {
					body = strings.Join(items, ",")
				}
				h = append(h, "b:"+body)
			}
		}
		op := "hist"
		if i%50 == 0 {
			// dedicated database with backup/restore steps
			op = "histdb"
			h = append(h, "B")
			h = append(h, "a:"+pair(), "B", "f:"+hexTok(c15keys[0]))
		}
		fmt.Fprintf(w, "%s %s\n", op, strings.Join(h, ";"))
	}
	// wide batches: many distinct keys that already hold values (the batch reads them all in one
	// multi-get before it appends / deletes), then every key is read back
	nw := 30
	if tier == "thorough" {
		nw = 600
	}
	for i := 0; i < nw; i++ {
		nk := 16 + g.intn(48)
		key := func(k int) string { return hexTok([]byte(fmt.Sprintf("wk%02d", k))) }
		val := func() string {
			v := make([]byte, 1+g.intn(12))
			for j := range v {
				v[j] = byte('a' + g.intn(26))
			}
			return hexTok(v)
		}
		var h []string
		have := map[int][]string{} // values a key holds after the earlier batches
		for round := 0; round < 2+g.intn(2); round++ {
			var items []string
			for k := 0; k < nk; k++ {
				// a deletion names a value the key holds (deleting an absent value fails the batch)
				if round > 0 && len(have[k]) > 0 && g.chance(1, 6) {
					j := g.intn(len(have[k]))
					items = append(items, "-"+key(k)+"."+have[k][j])
					have[k] = append(have[k][:j:j], have[k][j+1:]...)
				}
			}
			for k := 0; k < nk; k++ {
				if round == 0 || g.chance(3, 4) {
					for r := 0; r < 1+g.intn(2); r++ {
						v := val()
						dup := false
						for _, x := range have[k] {
							dup = dup || x == v
						}
						if !dup {
							items = append(items, "+"+key(k)+"."+v)
							have[k] = append(have[k], v)
						}
					}
				}
			}
			g.shuffle(items)
			h = append(h, "b:"+strings.Join(items, ","))
		}
		for k := 0; k < nk; k++ {
			h = append(h, "f:"+key(k))
		}
		fmt.Fprintf(w, "hist %s\n", strings.Join(h, ";"))
	}
	// raw chunk decoding of arbitrary bytes
	for i := 0; i < 2000; i++ {
		l := g.intn(14)
		b := make([]byte, l)
		for j := range b {
			if g.bool() {
				b[j] = byte(g.intn(3))
			} else {
				b[j] = byte(g.intn(256))
			}
		}
		fmt.Fprintf(w, "chunks %s\n", hexTok(b))
	}
}

func c15err(err error) string {
	switch {
	case err == nil:
		return "ok"
	case errors.Is(err, rdb.ErrNXKey):
		return "nxkey"
	case errors.Is(err, rdb.ErrNXVal):
		return "nxval"
	case errors.Is(err, io.ErrUnexpectedEOF):
		return "eof"
	}
	return "err"
}

func c15vals(db *rdb.RDB, key []byte) string {
	var vals []string
	err := db.ForEach(key, func(v []byte) error {
		vals = append(vals, hexTok(v))
		return nil
	}, rdb.NewContext())
	if err != nil {
		return "err:" + c15err(err)
	}
	if len(vals) == 0 {
		return "_"
	}
	sort.Strings(vals)
	return strings.Join(vals, ",")
}

func c15pair(s string) ([]byte, []byte) {
	p := strings.Split(s, ".")
	return unhexTok(p[0]), unhexTok(p[1])
}

func c15run(line string) (string, string) {
	f := strings.Fields(line)
	switch f[0] {
	case "chunks":
		data := unhexTok(f[1])
		var out []string
		for {
			c, rest, err := rdb.ReadNextChunk(data)
			if errors.Is(err, io.EOF) {
				break
			}
			if err != nil {
				return "err:" + c15err(err), "-"
			}
			out = append(out, hexTok(c))
			data = rest
		}
		return "ok:" + strings.Join(out, "/"), "-"
	case "hist", "histdb":
		db := c15db
		c15hist++
		prefix := []byte(fmt.Sprintf("h%08d|", c15hist))
		dir := ""
		if f[0] == "histdb" {
			prefix = nil
			dir = filepath.Join(c15dir, fmt.Sprintf("own%d", c15hist))
			os.MkdirAll(dir, 0o755)
			var err error
			db, err = rdb.NewRDB(dir)
			if err != nil {
				return "open-error", "FAIL:open"
			}
		}
		key := func(k []byte) []byte { return append(append([]byte{}, prefix...), k...) }
		var keys [][]byte
		note := func(k []byte) {
			for _, x := range keys {
				if string(x) == string(k) {
					return
				}
			}
			keys = append(keys, k)
		}
		var res []string
		verdict := "-"
		for _, op := range strings.Split(f[1], ";") {
			p := strings.SplitN(op, ":", 2)
			switch p[0] {
			case "a":
				k, v := c15pair(p[1])
				note(k)
				res = append(res, c15err(db.Add(key(k), v)))
			case "d":
				k, v := c15pair(p[1])
				note(k)
				res = append(res, c15err(db.Del(key(k), v)))
			case "f":
				k := unhexTok(p[1])
				note(k)
				res = append(res, c15vals(db, key(k)))
				// Find must return a member of the list (or nothing when the list is empty)
				fv, ferr := db.Find(key(k), rdb.NewContext())
				cur := c15vals(db, key(k))
				if cur == "_" {
					if !errors.Is(ferr, io.EOF) {
						verdict = "FAIL:find-on-absent-key"
					}
				} else if ferr != nil || !strings.Contains(","+cur+",", ","+hexTok(fv)+",") {
					verdict = "FAIL:find-not-member"
				}
			case "b":
				b := db.CreateBatch()
				if p[1] != "-" {
					for _, it := range strings.Split(p[1], ",") {
						k, v := c15pair(it[1:])
						note(k)
						if it[0] == '+' {
							b.Add(key(k), v)
						} else {
							b.Del(key(k), v)
						}
					}
				}
				if err := db.ExecuteBatch(b); err != nil {
					res = append(res, "err")
				} else {
					res = append(res, "ok")
				}
			case "B":
				// backup, restore into another directory, continue on the restored copy
				db.Close()
				bdir := dir + "-bak"
				rdir := dir + "-restored"
				os.MkdirAll(bdir, 0o755)
				if err := rdb.Backup(dir, bdir); err != nil {
					return "backup-error:" + sanitize(err.Error()), "FAIL:backup"
				}
				if err := rdb.Restore(rdir, bdir); err != nil {
					return "restore-error:" + sanitize(err.Error()), "FAIL:restore"
				}
				os.RemoveAll(dir)
				os.RemoveAll(bdir)
				dir = rdir
				var err error
				db, err = rdb.NewRDB(dir)
				if err != nil {
					return "reopen-error", "FAIL:reopen"
				}
			default:
				res = append(res, "bad")
			}
		}
		var dump []string
		for _, k := range keys {
			dump = append(dump, hexTok(k)+"="+c15vals(db, key(k)))
		}
		sort.Strings(dump)
		if f[0] == "histdb" {
			db.Close()
			os.RemoveAll(dir)
		}
		return strings.Join(res, ";") + "#" + strings.Join(dump, ";"), verdict
	}
	return "bad-op", "-"
}
