package main

// C14 — exploration side: an in-process stress of the real handler (N query workers × partial and
// full reloads × ReportBackendStats × Stats.Get, then Close) on a real CDB and a real RocksDB.
// Built normally it finds crashes and hangs (watchdog); the main session also builds this file
// with -race and parses the race reports. Absence of a report is exploration, never the proof —
// the proof is the kernel-checked lock table (Props/C14.lean).
//
//	race <cdb|rocksdb> <seconds> <workers> [watch] [validate]
//
// `watch` additionally runs WatchDBAndReload while the data path is touched, `validate` calls
// ValidateDbKey concurrently — the two known unguarded paths (the generator never emits them).

import (
	"bufio"
	"context"
	"fmt"
	"net"
	"os"
	"path/filepath"
	"strconv"
	"strings"
	"sync"
	"sync/atomic"
	"time"

	"github.com/coredns/coredns/plugin/pkg/dnstest"
	"github.com/miekg/dns"

	"github.com/facebookincubator/dns/dnsrocks/dnsdata/cdb"
	"github.com/facebookincubator/dns/dnsrocks/dnsdata/rdb"
	"github.com/facebookincubator/dns/dnsrocks/dnsserver"
	"github.com/facebookincubator/dns/dnsrocks/metrics"
)

func init() {
	props["C14"] = &prop{gen: c14gen, run: c14run}
}

func c14gen(g *gen, tier string, w *bufio.Writer) {
	secs, workers := 10, 4
	if tier == "thorough" {
		secs, workers = 120, 8
	}
	if tier == "search" {
		// a lock theorem or the lock table no longer checks: look for a schedule that hangs or races
		// with many more lookups in flight than the iterator pool holds
		for i := 0; i < 2; i++ {
			fmt.Fprintf(w, "race rocksdb %d %d\n", 25, 48+g.intn(17))
		}
		return
	}
	for _, b := range []string{"cdb", "rocksdb"} {
		fmt.Fprintf(w, "race %s %d %d\n", b, secs, workers+g.intn(3))
	}
	// more query workers than the RocksDB iterator pool holds (NumberOfIterators = 15): lookups wait
	// for a pooled iterator while a catch-up drains the pool
	fmt.Fprintf(w, "race rocksdb %d %d\n", secs, 20+g.intn(8))
}

const c14base = "/repo/dnsrocks/testdata/data/data.in"

// fallback data when the repository's test data file is not readable
const c14fallback = `%\000\001,0.0.0.0/0,c\000
%\000\001,::/0,c\000
%\000\002,1.1.1.0/24,ec
Mexample.com,c\000
8example.com,ec
Zexample.com,a.ns.example.com,dns.example.com,1,7200,1800,604800,120,120,,
&example.com,,a.ns.example.com,172800,,
+a.ns.example.com,10.0.0.1,172800,,
+foo.example.com,1.1.1.1,180,,\000\001,1
+foo.example.com,1.1.1.2,180,,\000\002,1
+*.wild.example.com,1.2.3.4,60,,
Ccname.example.com,foo.example.com,60,,
`

type c14ResponseWriter struct{ remote net.IP }

func (w *c14ResponseWriter) LocalAddr() net.Addr {
	return &net.UDPAddr{IP: net.ParseIP("127.0.0.1"), Port: 53}
}
func (w *c14ResponseWriter) RemoteAddr() net.Addr        { return &net.UDPAddr{IP: w.remote, Port: 40212} }
func (w *c14ResponseWriter) WriteMsg(m *dns.Msg) error   { return nil }
func (w *c14ResponseWriter) Write(b []byte) (int, error) { return len(b), nil }
func (w *c14ResponseWriter) Close() error                { return nil }
func (w *c14ResponseWriter) TsigStatus() error           { return nil }
func (w *c14ResponseWriter) TsigTimersOnly(bool)         {}
func (w *c14ResponseWriter) Hijack()                     {}

// c14build writes `gens` database generations for the backend and returns their paths.
func c14build(dir, backend string, gens int) ([]string, error) {
	base, err := os.ReadFile(c14base)
	if err != nil {
		base = []byte(c14fallback)
	}
	var paths []string
	for g := 0; g < gens; g++ {
		in := filepath.Join(dir, fmt.Sprintf("data%d.in", g))
		data := string(base) + fmt.Sprintf("\n+gen.example.com,10.9.8.%d,60,,\n", g+1)
		if err := os.WriteFile(in, []byte(data), 0o644); err != nil {
			return nil, err
		}
		switch backend {
		case "cdb":
			out := filepath.Join(dir, fmt.Sprintf("data%d.cdb", g))
			if _, err := cdb.CreateCDB(in, out, &cdb.CreatorOptions{NumCPU: 1}); err != nil {
				return nil, fmt.Errorf("CreateCDB: %w", err)
			}
			paths = append(paths, out)
		case "rocksdb":
			out := filepath.Join(dir, fmt.Sprintf("rdb%d", g))
			if err := os.MkdirAll(out, 0o755); err != nil {
				return nil, err
			}
			// v2 (sorted) keys: lookups go through FindClosest and hence the iterator pool
			o := rdb.CompilationOptions{NumCPU: 1, UseV2KeySyntax: true, UseBuilder: true}
			if _, err := rdb.CompileToSpecificRDBVersion(in, out, o); err != nil {
				return nil, fmt.Errorf("CompileToSpecificRDBVersion: %w", err)
			}
			paths = append(paths, out)
		default:
			return nil, fmt.Errorf("unknown backend %q", backend)
		}
	}
	return paths, nil
}

type c14query struct {
	name   string
	qtype  uint16
	remote string
	ecs    string
}

var c14queries = []c14query{
	{"foo.example.com.", dns.TypeA, "1.1.1.1", ""},
	{"foo.example.com.", dns.TypeAAAA, "2.2.2.2", "1.1.1.0/24"},
	{"gen.example.com.", dns.TypeA, "10.0.0.1", ""},
	{"example.com.", dns.TypeSOA, "fd58:6525:66bd::1", ""},
	{"example.com.", dns.TypeNS, "3.3.3.1", "3.3.3.0/24"},
	{"nonexistent.example.com.", dns.TypeA, "4.4.4.4", "4.4.5.1/32"},
	{"cnamemap.example.com.", dns.TypeA, "5.5.5.5", ""},
	{"www.example.org.", dns.TypeA, "6.6.6.1", ""},
	{"x.wild.example.com.", dns.TypeA, "7.7.7.7", ""},
	{"outside.zone.test.", dns.TypeA, "8.8.8.8", ""},
}

func c14run(line string) (string, string) {
	f := strings.Fields(line)
	if len(f) < 4 || f[0] != "race" {
		return "bad-op", "-"
	}
	backend := f[1]
	secs, err1 := strconv.Atoi(f[2])
	workers, err2 := strconv.Atoi(f[3])
	if err1 != nil || err2 != nil || secs <= 0 || workers <= 0 {
		return "bad-args", "-"
	}
	watch, validate := false, false
	for _, x := range f[4:] {
		switch x {
		case "watch":
			watch = true
		case "validate":
			validate = true
		}
	}
	out := c14stress(backend, secs, workers, watch, validate)
	if out == "ok" {
		return out, "ok"
	}
	return out, "FAIL:" + out
}

func c14stress(backend string, secs, workers int, watch, validate bool) string {
	dir, err := os.MkdirTemp("", "c14-")
	if err != nil {
		return "setup:" + sanitize(err.Error())
	}
	hung := false
	defer func() {
		if !hung {
			os.RemoveAll(dir)
			c14cleanRdbLogs()
		}
	}()
	paths, err := c14build(dir, backend, 3)
	if err != nil {
		return "setup:" + sanitize(err.Error())
	}
	st := metrics.NewStats()
	cfg := dnsserver.DBConfig{Path: paths[0], Driver: backend, ReloadTimeout: 10 * time.Second}
	cache := dnsserver.CacheConfig{Enabled: true, LRUSize: 64, WRSTimeout: 0}
	// NewFBDNSDB (not …Basic): starts the ReloadChan consumer, as the server does
	h, err := dnsserver.NewFBDNSDB(dnsserver.HandlerConfig{}, cfg, cache, &dnsserver.DummyLogger{}, st)
	if err != nil {
		return "setup:" + sanitize(err.Error())
	}
	if err := h.Load(); err != nil {
		return "setup:" + sanitize(err.Error())
	}

	var progress, queries, reloads, failures int64
	var firstFail atomic.Value
	fail := func(s string) {
		if atomic.AddInt64(&failures, 1) == 1 {
			firstFail.Store(s)
		}
	}
	stop := make(chan struct{})
	var wg sync.WaitGroup
	spawn := func(name string, body func(i int)) {
		wg.Add(1)
		go func() {
			defer wg.Done()
			defer func() {
				if r := recover(); r != nil {
					fail("panic:" + name + ":" + sanitize(fmt.Sprint(r)))
				}
			}()
			for i := 0; ; i++ {
				select {
				case <-stop:
					return
				default:
				}
				body(i)
				atomic.AddInt64(&progress, 1)
			}
		}()
	}
	for wkr := 0; wkr < workers; wkr++ {
		wkr := wkr
		spawn("query", func(i int) {
			q := c14queries[(i+wkr)%len(c14queries)]
			req := new(dns.Msg)
			req.SetQuestion(q.name, q.qtype)
			if q.ecs != "" {
				o, err := dnsserver.MakeOPTWithECS(q.ecs)
				if err == nil {
					req.Extra = []dns.RR{o}
				}
			}
			rec := dnstest.NewRecorder(&c14ResponseWriter{remote: net.ParseIP(q.remote)})
			rcode, err := h.ServeDNSWithRCODE(context.Background(), rec, req)
			atomic.AddInt64(&queries, 1)
			if err != nil {
				return // refused / servfail paths return an error by design; only crashes count
			}
			if q.name == "gen.example.com." && rcode == dns.RcodeSuccess && rec.Msg != nil {
				// the answer must come from exactly one of the generations
				if len(rec.Msg.Answer) != 1 || !strings.HasPrefix(rec.Msg.Answer[0].(*dns.A).A.String(), "10.9.8.") {
					fail("bad-answer:" + sanitize(rec.Msg.String()))
				}
			}
		})
	}
	spawn("reload", func(i int) {
		var sig *dnsserver.ReloadSignal
		if i%3 == 2 {
			sig = dnsserver.NewFullReloadSignal(paths[(i/3+1)%len(paths)])
		} else {
			sig = dnsserver.NewPartialReloadSignal()
		}
		if err := h.Reload(*sig); err != nil {
			fail("reload:" + sanitize(err.Error()))
		}
		atomic.AddInt64(&reloads, 1)
		time.Sleep(time.Duration(1+i%7) * time.Millisecond)
	})
	spawn("backendstats", func(i int) {
		h.ReportBackendStats()
		time.Sleep(time.Millisecond)
	})
	spawn("statsget", func(i int) {
		m := st.Get()
		if m["DNS_queries"] < 0 {
			fail("negative-counter")
		}
		st.AddSample("c14.sample", int64(i))
		time.Sleep(time.Millisecond)
	})
	if validate {
		spawn("validate", func(i int) {
			_ = h.ValidateDbKey([]byte("\000o_features"))
			time.Sleep(time.Millisecond)
		})
	}
	if watch {
		go func() { _ = h.WatchDBAndReload() }()
		spawn("touch", func(i int) {
			now := time.Now()
			for _, p := range paths {
				_ = os.Chtimes(p, now, now)
			}
			time.Sleep(5 * time.Millisecond)
		})
	}

	// watchdog: no progress at all for 20 s => deadlock?
	deadline := time.Now().Add(time.Duration(secs) * time.Second)
	last, lastChange := int64(-1), time.Now()
	for time.Now().Before(deadline) {
		time.Sleep(200 * time.Millisecond)
		if p := atomic.LoadInt64(&progress); p != last {
			last, lastChange = p, time.Now()
		} else if time.Since(lastChange) > 20*time.Second {
			hung = true
			return fmt.Sprintf("deadlock?:no-progress-20s:queries=%d:reloads=%d", atomic.LoadInt64(&queries), atomic.LoadInt64(&reloads))
		}
		if atomic.LoadInt64(&failures) > 0 {
			break
		}
	}
	close(stop)
	done := make(chan struct{})
	go func() { wg.Wait(); close(done) }()
	select {
	case <-done:
	case <-time.After(20 * time.Second):
		hung = true
		return fmt.Sprintf("deadlock?:workers-did-not-stop:queries=%d:reloads=%d", atomic.LoadInt64(&queries), atomic.LoadInt64(&reloads))
	}
	closed := make(chan struct{})
	go func() {
		defer func() {
			if r := recover(); r != nil {
				fail("panic:close:" + sanitize(fmt.Sprint(r)))
			}
			close(closed)
		}()
		h.Close()
	}()
	select {
	case <-closed:
	case <-time.After(20 * time.Second):
		hung = true
		return "deadlock?:close"
	}
	if atomic.LoadInt64(&failures) > 0 {
		return firstFail.Load().(string)
	}
	if atomic.LoadInt64(&queries) == 0 || atomic.LoadInt64(&reloads) == 0 {
		return "no-coverage"
	}
	fmt.Fprintf(os.Stderr, "c14: backend=%s queries=%d reloads=%d\n", backend, atomic.LoadInt64(&queries), atomic.LoadInt64(&reloads))
	return "ok"
}

// RocksDB secondary instances leave rdb-log-<pid>* directories in the temp dir.
func c14cleanRdbLogs() {
	m, _ := filepath.Glob(filepath.Join(os.TempDir(), fmt.Sprintf("rdb-log-%d*", os.Getpid())))
	for _, p := range m {
		os.RemoveAll(p)
	}
}
