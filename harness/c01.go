package main

import (
	"bufio"
	"fmt"
	"net"
	"regexp"
	"strings"

	"github.com/facebookincubator/dns/dnsrocks/db"
	"github.com/facebookincubator/dns/dnsrocks/dnsserver"
	"github.com/facebookincubator/dns/dnsrocks/dnsserver/stats"
)

func init() {
	props["C01"] = &prop{gen: c01gen, run: serveRun}
}

var qtypesCommon = []uint16{1, 28, 2, 6, 5, 15, 16, 33, 12, 255, 43, 99, 257, 65, 4242}

func flipCase(s string, g *gen) string {
	b := []byte(s)
	for i := range b {
		if b[i] >= 'a' && b[i] <= 'z' && g.chance(1, 3) {
			b[i] -= 32
		}
	}
	return string(b)
}

// genQueries derives queries from the file's own names.
func (g *gen) genQueries(df *dataFile, n int, withClient bool) []*query {
	var names []string
	add := func(s string) { names = append(names, strings.TrimSuffix(s, ".")+".") }
	for _, z := range df.zones {
		add(z.name)
		add("nx." + z.name)
		for _, o := range z.owners {
			base := strings.TrimPrefix(o, "*.")
			add(base)
			add("x." + base)
			add("y.x." + base)
			add("a+b." + base)
			// a label that is not wild-safe anywhere in the part of the name below the closest
			// existing name (the v2 search jumps several labels at once)
			add("x.a+b." + base)
			add("x.a!b.y." + base)
			add("a+b.x." + base)
			add("x.y.a@b.z." + base)
			add("x.*." + base)
			if i := strings.Index(base, "."); i > 0 {
				add(base[i+1:])
			}
		}
		for _, d := range z.deleg {
			add(d)
			add("www." + d)
			add("a.b." + d)
		}
	}
	add("unrelated.invalid")
	add("com")
	names = append(names, ".")
	var qs []*query
	for i := 0; i < n; i++ {
		q := &query{name: g.pick(names), qclass: 1, maxAns: 1, resolver: net.ParseIP("198.51.100.7")}
		// labels written with escapes in data files use \ddd octal, DNS presentation uses \DDD decimal:
		// keep query names to plain labels
		if strings.Contains(q.name, "\\") {
			q.name = strings.ReplaceAll(strings.ReplaceAll(strings.ReplaceAll(q.name, "\\052", "star"), "\\054", "c"), "\\040", "s")
		}
		if g.chance(1, 4) {
			q.name = flipCase(q.name, g)
		}
		q.qtype = qtypesCommon[g.intn(len(qtypesCommon))]
		if g.chance(1, 2) {
			q.qtype = []uint16{1, 28, 2, 6, 255}[g.intn(5)]
		}
		if g.chance(1, 10) {
			q.qclass = []uint16{3, 255, 4}[g.intn(3)]
		}
		if g.chance(1, 3) {
			q.maxAns = 1 + g.intn(4)
		}
		if withClient {
			q.resolver = net.ParseIP(g.pick([]string{"10.1.2.3", "10.200.0.1", "192.168.5.5", "8.8.8.8", "172.16.9.9", "2001:db8::1", "2001:dead::1", "::1"}))
			if g.chance(1, 2) {
				q.opt = true
				if g.chance(2, 3) {
					e := &ecsSpec{family: 1, source: []int{0, 8, 16, 20, 24, 32}[g.intn(6)]}
					ip := net.ParseIP(g.pick([]string{"10.1.0.0", "10.0.0.0", "192.168.0.0", "9.9.9.0", "172.16.0.0"})).To4()
					e.addr = maskBytes(ip, e.source)
					if g.chance(1, 4) {
						e.family = 2
						e.source = []int{0, 32, 48, 56, 64, 128}[g.intn(6)]
						e.addr = maskBytes(net.ParseIP(g.pick([]string{"2001:db8::", "2001:db8:1::", "fd00::"})), e.source)
					}
					q.ecs = e
				}
			}
		} else if g.chance(1, 6) {
			q.opt = true
		}
		qs = append(qs, q)
	}
	return qs
}

func maskBytes(ip []byte, ones int) []byte {
	out := append([]byte{}, ip...)
	for i := range out {
		bits := ones - 8*i
		switch {
		case bits >= 8:
		case bits <= 0:
			out[i] = 0
		default:
			out[i] &= byte(0xff << (8 - bits))
		}
	}
	return out
}

func serveOpLine(df *dataFile, qs []*query) string {
	var ls, ts []string
	for _, l := range df.lines {
		ls = append(ls, hexTok([]byte(l)))
	}
	for _, q := range qs {
		ts = append(ts, q.token())
	}
	if len(ls) == 0 {
		ls = []string{"-"} // the empty data file
	}
	return fmt.Sprintf("serve %s %s", strings.Join(ls, ";"), strings.Join(ts, ";"))
}

// lines without explicit TTL / SOA timers: the documented tinydns defaults must be served
var dfltLines = []string{
	"+www.ex.com,1.2.3.4", "+www.ex.com,2001:db8::1", "=www.ex.com,1.2.3.4", "Cwww.ex.com,t.ex.com", "'www.ex.com,text",
	"@ex.com,,mx1", "@ex.com,1.2.3.4,mx1,10", "Sex.com,,s1,443", "^4.3.2.1.in-addr.arpa,www.ex.com", ":ex.com,99,\\005hello",
	"&ex.com,,a", "&ex.com,1.2.3.4,a", ".ex.com,,a", ".ex.com,1.2.3.4,a", "Zex.com,ns1.ex.com,hm.ex.com", "Zex.com,ns1.ex.com,hm.ex.com,7",
}

func c01gen(g *gen, tier string, w *bufio.Writer) {
	for _, l := range dfltLines {
		fmt.Fprintf(w, "dflt %s\n", hexTok([]byte(l)))
	}
	fmt.Fprintln(w, "wildsafe")
	n := 40
	if tier == "thorough" {
		n = 1500
	}
	for i := 0; i < n; i++ {
		withLoc := i%2 == 1
		o := dataOpts{v6: true, odd: g.chance(1, 3), maxZone: 3, locs: withLoc, maps: withLoc}
		df := g.genDataFile(o)
		fmt.Fprintln(w, serveOpLine(df, g.genQueries(df, 40, withLoc)))
	}
}

// serveRun: op `serve <lines> <queries>` on all four storage configurations.
// dfltRun: op `dflt <line>`: (type, ttl[, SOA timers]) of every record the real codec emits.
func dfltRun(f []string) (string, string) {
	c := newCodec("v1", serveSerial)
	mr, err := c.ConvertLn(unhexTok(f[1]))
	if err != nil {
		return "err", "-"
	}
	var out []string
	for _, m := range mr {
		v := m.Value
		if len(v) < 3 {
			continue
		}
		typ := int(v[0])<<8 | int(v[1])
		off := 3
		if v[2] == '>' || v[2] == '+' {
			off = 5
		}
		if len(v) < off+12 {
			continue
		}
		ttl := uint32(v[off])<<24 | uint32(v[off+1])<<16 | uint32(v[off+2])<<8 | uint32(v[off+3])
		s := fmt.Sprintf("%d:%d", typ, ttl)
		if typ == 6 && len(v) >= 20 {
			t := v[len(v)-20:]
			for i := 0; i < 5; i++ {
				s += fmt.Sprintf("/%d", uint32(t[4*i])<<24|uint32(t[4*i+1])<<16|uint32(t[4*i+2])<<8|uint32(t[4*i+3]))
			}
		}
		out = append(out, s)
	}
	return strings.Join(out, ","), "-"
}

func serveRun(line string) (string, string) { return serveRunCache(line, dnsserver.CacheConfig{}) }

func serveRunCache(line string, cache dnsserver.CacheConfig) (string, string) {
	f := strings.Fields(line)
	if f[0] == "dflt" && len(f) == 2 {
		return dfltRun(f)
	}
	if f[0] == "wildsafe" && len(f) == 1 {
		// the byte classes a wildcard may cross, read off the real dnsLabelWildsafe: all 256
		// one-octet labels, and the number of accepted two-octet labels (octets are judged alone)
		var sb strings.Builder
		n1 := 0
		for b := 0; b < 256; b++ {
			if db.WildsafeForVerif([]byte{byte(b)}) {
				sb.WriteByte('1')
				n1++
			} else {
				sb.WriteByte('0')
			}
		}
		n2 := 0
		for a := 0; a < 256; a++ {
			for b := 0; b < 256; b++ {
				if db.WildsafeForVerif([]byte{byte(a), byte(b)}) {
					n2++
				}
			}
		}
		verdict := "ok"
		if n2 != n1*n1 || !db.WildsafeForVerif(nil) {
			verdict = "FAIL:wildsafe-is-not-per-octet"
		}
		return sb.String(), verdict
	}
	if f[0] != "serve" || len(f) != 3 {
		return "bad-op", "-"
	}
	var lines []string
	for _, h := range strings.Split(f[1], ";") {
		lines = append(lines, string(unhexTok(h)))
	}
	var qs []*query
	for _, t := range strings.Split(f[2], ";") {
		qs = append(qs, parseQuery(t))
	}
	handlers, errs, dir := compileAll(lines, &stats.DummyStats{}, &dnsserver.DummyLogger{}, cache, backendNames)
	defer closeAll(handlers, dir)
	res := map[string][]string{}
	var out []string
	for _, b := range backendNames {
		if e, bad := errs[b]; bad {
			out = append(out, b+":"+e)
			continue
		}
		setSeparateBitmap(b)
		for _, q := range qs {
			res[b] = append(res[b], ask(handlers[b].h, q))
		}
		out = append(out, b+":"+strings.Join(res[b], "~"))
	}
	// C02 oracle, needs no model: the storage configurations must agree on every query (address
	// records are subject to random selection: compare everything else)
	verdict := "ok"
	for i := range qs {
		var ref string
		for _, b := range backendNames {
			if _, bad := errs[b]; bad {
				continue
			}
			r := stripAddrs(res[b][i])
			if ref == "" {
				ref = r
			} else if r != ref {
				verdict = fmt.Sprintf("FAIL:backends-differ@q%d(%s)", i, b)
			}
		}
	}
	if len(errs) != 0 && len(errs) != len(backendNames) {
		verdict = "FAIL:compile-outcome-differs"
	}
	// C10, read off the data file directly: a name without any client-subnet ('8') map must be
	// answered with scope 0, whatever subnets the file declares
	ecsMaps := ecsMapOwners(lines)
	for i, q := range qs {
		if q.ecs == nil || hasEcsMap(ecsMaps, q.name) {
			continue
		}
		for _, b := range backendNames {
			if _, bad := errs[b]; bad {
				continue
			}
			if m := ecsScopeRe.FindStringSubmatch(res[b][i]); m != nil && m[1] != "0" && verdict == "ok" {
				verdict = fmt.Sprintf("FAIL:scope-%s-for-a-name-without-client-subnet-map@q%d(%s)", m[1], i, b)
			}
		}
	}
	return strings.Join(out, "#"), verdict
}

var ecsScopeRe = regexp.MustCompile(`opt\(e\d+/\d+/(\d+)/`)

// ecsMapOwners lists the owners of the '8' lines of a data file (lower-case, without trailing
// dot; wildcard owners keep their "*." prefix).
func ecsMapOwners(lines []string) []string {
	var out []string
	for _, l := range lines {
		l = strings.TrimLeft(l, " ")
		if len(l) < 2 || l[0] != '8' {
			continue
		}
		sep := ","
		if i := strings.IndexAny(l, ",:"); i >= 0 {
			sep = l[i : i+1]
		}
		out = append(out, strings.ToLower(strings.TrimSuffix(strings.Split(l[1:], sep)[0], ".")))
	}
	return out
}

// hasEcsMap: an exact map at the name, or a wildcard map at a proper ancestor (or the root).
func hasEcsMap(owners []string, qname string) bool {
	n := strings.ToLower(strings.TrimSuffix(qname, "."))
	for _, o := range owners {
		if o == n {
			return true
		}
		if strings.HasPrefix(o, "*") {
			p := strings.TrimPrefix(strings.TrimPrefix(o, "*"), ".")
			if p == "" || strings.HasSuffix(n, "."+p) {
				return true
			}
			if strings.Contains(o, "\\") {
				return true // escaped owner: do not judge
			}
		}
		if strings.Contains(o, "\\") {
			return true
		}
	}
	return false
}

var addrRRre = regexp.MustCompile(`[0-9a-f]+/(1|28)/\d+/\d+/[0-9a-f]+`)

// stripAddrs hides which A/AAAA records were served (random selection), keeping their number.
func stripAddrs(r string) string { return addrRRre.ReplaceAllString(r, "addr") }
