package main

// Shared serving infrastructure: compile a data file to the storage configurations, load real
// FBDNSDB handlers on them, send queries through ServeDNSWithRCODE and render responses canonically.

import (
	"context"
	"fmt"
	"hash/fnv"
	"net"
	"os"
	"path/filepath"
	"sort"
	"strconv"
	"strings"
	"time"

	"github.com/facebookincubator/dns/dnsrocks/db"
	dnscdb "github.com/facebookincubator/dns/dnsrocks/dnsdata/cdb"
	"github.com/facebookincubator/dns/dnsrocks/dnsdata/rdb"
	"github.com/facebookincubator/dns/dnsrocks/dnsserver"
	"github.com/facebookincubator/dns/dnsrocks/dnsserver/stats"
	"github.com/miekg/dns"
)

var backendNames = []string{"cdb", "cdbsep", "v1", "v2"}

const serveSerial = 1700000000

type served struct {
	name string
	h    *dnsserver.FBDNSDB
	dir  string
}

// compileAll writes the data file and compiles it for every backend; err is the compile error
// class per backend ("" = ok).
func compileAll(lines []string, stat stats.Stats, logger dnsserver.Logger, cache dnsserver.CacheConfig, which []string) (map[string]*served, map[string]string, string) {
	dir, err := os.MkdirTemp("", "serve-")
	if err != nil {
		panic(err)
	}
	in := filepath.Join(dir, "data.in")
	os.WriteFile(in, []byte(strings.Join(lines, "\n")+"\n"), 0o644)
	mt := time.Unix(serveSerial, 0)
	os.Chtimes(in, mt, mt)
	out := map[string]*served{}
	errs := map[string]string{}
	for _, b := range which {
		var path, driver string
		var cerr error
		switch b {
		case "cdb", "cdbsep":
			path = filepath.Join(dir, b+".cdb")
			driver = "cdb"
			_, cerr = dnscdb.CreateCDB(in, path, &dnscdb.CreatorOptions{NumCPU: 2})
		default:
			path = filepath.Join(dir, b)
			driver = "rocksdb"
			os.MkdirAll(path, 0o755)
			_, cerr = rdb.CompileToSpecificRDBVersion(in, path, rdb.CompilationOptions{
				NumCPU: 2, UseV2KeySyntax: b == "v2", UseBuilder: false, BatchNumParallel: 2, BatchSize: 1000})
		}
		if cerr != nil {
			errs[b] = "compile-error"
			continue
		}
		h, err := dnsserver.NewFBDNSDBBasic(dnsserver.HandlerConfig{},
			dnsserver.DBConfig{Path: path, Driver: driver, ReloadTimeout: 10 * time.Second}, cache, logger, stat)
		if err != nil {
			errs[b] = "handler-error"
			continue
		}
		if err := h.Load(); err != nil {
			errs[b] = "load-error"
			continue
		}
		out[b] = &served{name: b, h: h, dir: path}
	}
	return out, errs, dir
}

func closeAll(m map[string]*served, dir string) {
	for _, s := range m {
		s.h.Close()
	}
	os.RemoveAll(dir)
	// RocksDB secondary instances leave rdb-log-* directories in the temp dir
	if ents, err := os.ReadDir(os.TempDir()); err == nil {
		for _, e := range ents {
			if strings.HasPrefix(e.Name(), "rdb-log-") {
				os.RemoveAll(filepath.Join(os.TempDir(), e.Name()))
			}
		}
	}
}

// ---- queries -----------------------------------------------------------------------------------

type ecsSpec struct {
	family, source, scope int
	addr                  []byte
}

type query struct {
	name     string // presentation form as asked (may contain upper case / escapes), fully qualified
	qtype    uint16
	qclass   uint16
	maxAns   int
	resolver net.IP
	opt      bool
	ecs      *ecsSpec
	version  int
	opcode   int
	extraOpt int // 0 none, 1 cookie, 2 nsid, 3 unknown code
}

// token: namehex.qtype.qclass.maxAns.resolverhex.opt  where opt = "-" | "o" | "e<fam>/<src>/<scope>/<addrhex>" [+ "v<ver>"] [+ "x<k>"]
func (q *query) token() string {
	o := "-"
	if q.opt {
		o = "o"
		if q.ecs != nil {
			o = fmt.Sprintf("e%d/%d/%d/%s", q.ecs.family, q.ecs.source, q.ecs.scope, hexTok(q.ecs.addr))
		}
		if q.version != 0 {
			o += fmt.Sprintf("v%d", q.version)
		}
		if q.extraOpt != 0 {
			o += fmt.Sprintf("x%d", q.extraOpt)
		}
	}
	return fmt.Sprintf("%s.%d.%d.%d.%s.%s", hexTok([]byte(q.name)), q.qtype, q.qclass, q.maxAns, hexTok(q.resolver.To16()), o)
}

func parseQuery(tok string) *query {
	p := strings.Split(tok, ".")
	q := &query{name: string(unhexTok(p[0]))}
	t, _ := strconv.Atoi(p[1])
	c, _ := strconv.Atoi(p[2])
	q.qtype, q.qclass = uint16(t), uint16(c)
	q.maxAns, _ = strconv.Atoi(p[3])
	q.resolver = net.IP(unhexTok(p[4]))
	o := p[5]
	if o != "-" {
		q.opt = true
		if i := strings.Index(o, "x"); i >= 0 {
			q.extraOpt, _ = strconv.Atoi(o[i+1:])
			o = o[:i]
		}
		if i := strings.Index(o, "v"); i >= 0 {
			q.version, _ = strconv.Atoi(o[i+1:])
			o = o[:i]
		}
		if strings.HasPrefix(o, "e") {
			f := strings.Split(o[1:], "/")
			e := &ecsSpec{}
			e.family, _ = strconv.Atoi(f[0])
			e.source, _ = strconv.Atoi(f[1])
			e.scope, _ = strconv.Atoi(f[2])
			e.addr = unhexTok(f[3])
			q.ecs = e
		}
	}
	return q
}

// wireQuery builds the message and passes it through Pack/Unpack so the handler sees exactly what
// it would see from the network; nil when the message is not wire-valid.
func (q *query) wireQuery() *dns.Msg {
	m := new(dns.Msg)
	m.Id = 4711
	m.Question = []dns.Question{{Name: q.name, Qtype: q.qtype, Qclass: q.qclass}}
	// RD and CD vary with the spelling of the name (two spellings of one name share a cache key):
	// a reply must echo the flags of the query it answers, not those of an earlier one
	h := fnv.New32a()
	h.Write([]byte(q.name))
	// (high bits: a case flip changes bit 5 of a byte, which never reaches the low bits of FNV-1a)
	m.RecursionDesired = (h.Sum32()>>17)&1 == 0
	m.CheckingDisabled = (h.Sum32()>>21)&3 == 3
	m.Opcode = q.opcode
	if q.opt {
		o := new(dns.OPT)
		o.Hdr.Name = "."
		o.Hdr.Rrtype = dns.TypeOPT
		o.SetUDPSize(4096)
		o.SetVersion(uint8(q.version))
		switch q.extraOpt {
		case 1:
			o.Option = append(o.Option, &dns.EDNS0_COOKIE{Code: dns.EDNS0COOKIE, Cookie: "0102030405060708"})
		case 2:
			o.Option = append(o.Option, &dns.EDNS0_NSID{Code: dns.EDNS0NSID, Nsid: ""})
		case 3:
			o.Option = append(o.Option, &dns.EDNS0_LOCAL{Code: 65001, Data: []byte{1, 2, 3}})
		}
		if q.ecs != nil {
			e := &dns.EDNS0_SUBNET{Code: dns.EDNS0SUBNET, Family: uint16(q.ecs.family),
				SourceNetmask: uint8(q.ecs.source), SourceScope: uint8(q.ecs.scope), Address: net.IP(q.ecs.addr)}
			o.Option = append(o.Option, e)
		}
		m.Extra = append(m.Extra, o)
	}
	b, err := m.Pack()
	if err != nil {
		return nil
	}
	r := new(dns.Msg)
	if err := r.Unpack(b); err != nil {
		return nil
	}
	return r
}

type recWriter struct {
	remote net.IP
	msgs   []*dns.Msg
	tcp    bool
}

func (w *recWriter) LocalAddr() net.Addr {
	return &net.UDPAddr{IP: net.IPv4(127, 0, 0, 1), Port: 53}
}
func (w *recWriter) RemoteAddr() net.Addr {
	if w.tcp {
		return &net.TCPAddr{IP: w.remote, Port: 40000}
	}
	return &net.UDPAddr{IP: w.remote, Port: 40000}
}
func (w *recWriter) WriteMsg(m *dns.Msg) error { w.msgs = append(w.msgs, m.Copy()); return nil }
func (w *recWriter) Write(b []byte) (int, error) {
	m := new(dns.Msg)
	if err := m.Unpack(b); err == nil {
		w.msgs = append(w.msgs, m)
	}
	return len(b), nil
}
func (w *recWriter) Close() error        { return nil }
func (w *recWriter) TsigStatus() error   { return nil }
func (w *recWriter) TsigTimersOnly(bool) {}
func (w *recWriter) Hijack()             {}

// nameWire renders a presentation-format name as lower-cased wire bytes (hex).
func nameWire(name string) string {
	buf := make([]byte, 300)
	off, err := dns.PackDomainName(name, buf, 0, nil, false)
	if err != nil {
		return "badname"
	}
	b := buf[:off]
	for i := range b {
		if b[i] >= 'A' && b[i] <= 'Z' {
			b[i] += 32
		}
	}
	return hexTok(b)
}

func rrCanon(rr dns.RR) string {
	h := rr.Header()
	buf := make([]byte, 70000)
	off, err := dns.PackRR(rr, buf, 0, nil, false)
	rdata := "packerr"
	if err == nil {
		// header: name + type(2) class(2) ttl(4) rdlength(2)
		nbuf := make([]byte, 300)
		noff, _ := dns.PackDomainName(h.Name, nbuf, 0, nil, false)
		rdata = hexTok(buf[noff+10 : off])
	}
	return fmt.Sprintf("%s/%d/%d/%d/%s", nameWire(h.Name), h.Rrtype, h.Class, h.Ttl, rdata)
}

func sectionCanon(rrs []dns.RR, skipOpt bool) string {
	var s []string
	for _, rr := range rrs {
		if skipOpt && rr.Header().Rrtype == dns.TypeOPT {
			continue
		}
		s = append(s, rrCanon(rr))
	}
	sort.Strings(s)
	return "[" + strings.Join(s, "|") + "]"
}

func optCanon(m *dns.Msg) string {
	o := m.IsEdns0()
	if o == nil {
		return "none"
	}
	parts := []string{}
	for _, op := range o.Option {
		switch e := op.(type) {
		case *dns.EDNS0_SUBNET:
			a := e.Address
			if e.Family == 1 {
				a = a.To4()
			}
			if e.Family == 0 {
				a = nil // no address bytes on the wire
			}
			parts = append(parts, fmt.Sprintf("e%d/%d/%d/%s", e.Family, e.SourceNetmask, e.SourceScope, hexTok(a)))
		default:
			parts = append(parts, fmt.Sprintf("c%d", op.Option()))
		}
	}
	sort.Strings(parts)
	return "opt(" + strings.Join(parts, ",") + ")"
}

// respCanon is the canonical rendering of what the handler did.
func respCanon(rcode int, herr error, w *recWriter, req *dns.Msg) string {
	if len(w.msgs) == 0 {
		return fmt.Sprintf("noreply(rc=%d)", rcode)
	}
	if len(w.msgs) > 1 {
		return fmt.Sprintf("multireply(%d)", len(w.msgs))
	}
	m := w.msgs[0]
	q := "q=same"
	if len(m.Question) != len(req.Question) || (len(m.Question) == 1 && (!strings.EqualFold(m.Question[0].Name, req.Question[0].Name) || m.Question[0].Qtype != req.Question[0].Qtype || m.Question[0].Qclass != req.Question[0].Qclass)) {
		q = fmt.Sprintf("q=%d", len(m.Question))
	} else if len(m.Question) == 1 && m.Question[0].Name != req.Question[0].Name {
		q = "q=other-case" // the question is echoed as the client wrote it
	}
	idok := "id=ok"
	if m.Id != req.Id || !m.Response {
		idok = "id=BAD"
	} else if len(m.Question) == len(req.Question) && len(req.Question) == 1 &&
		(m.RecursionDesired != req.RecursionDesired || m.CheckingDisabled != req.CheckingDisabled || m.Opcode != req.Opcode) {
		idok = "id=BAD-FLAGS" // RD, CD and the opcode are those of the query
	}
	aa := 0
	if m.Authoritative {
		aa = 1
	}
	return fmt.Sprintf("rc=%d,aa=%d,%s,%s,an=%s,ns=%s,ar=%s,%s", m.Rcode, aa, idok, q,
		sectionCanon(m.Answer, false), sectionCanon(m.Ns, false), sectionCanon(m.Extra, true), optCanon(m))
}

// ask sends one query to one handler. The writer presents a TCP peer: the size-dependent trimming
// of the additional section for UDP clients without EDNS (coredns Scrub / miekg Truncate - library
// code, explored over real sockets in C20) is not part of what these ops compare.
func ask(h *dnsserver.FBDNSDB, q *query) (out string) {
	req := q.wireQuery()
	if req == nil {
		return "invalid-query"
	}
	w := &recWriter{remote: q.resolver, tcp: true}
	ctx := context.Background()
	if q.maxAns > 0 {
		ctx = dnsserver.WithMaxAnswer(ctx, q.maxAns)
	}
	defer func() {
		if r := recover(); r != nil {
			out = "panic"
		}
	}()
	rc, err := h.ServeDNSWithRCODE(ctx, w, req)
	return respCanon(rc, err, w, req)
}

func ctxWithMax(maxAns int) context.Context {
	ctx := context.Background()
	if maxAns > 0 {
		ctx = dnsserver.WithMaxAnswer(ctx, maxAns)
	}
	return ctx
}

func setSeparateBitmap(b string) {
	db.SeparateBitMap = b == "cdbsep"
}
