package main

// C12 — the response cache is invisible.
//
// ops
//
//	key <lochex> <qtype> <qclass> <namehex>
//	    fmt.Sprintf with the cache-key format of ServeDNSWithRCODE on a [2]byte / uint16 / uint16 /
//	    string; I = hex of the key (model: Cache.cacheKey).
//	keyold … the same with the format used before the separator fix (model: Cache.cacheKeyOld).
//	hist <backend> <ev;ev;…>      sequential histories (only `q…` and `R` events)
//	race <backend> <ev;ev;…>      schedules with queries parked at a yield point
//	    events:  q@<loc>@<kind>@<querytoken>           one query, run to completion
//	             s<label>@<pt>@<loc>@<kind>@<querytoken> start a query, park it at yield point <pt>
//	                                                   (it completes at once if it never gets there)
//	             c<label>                              release the parked query, run it to completion
//	             R                                     full reload to the next generation, to completion
//	    <loc>  = location id (hex) the generator expects FindLocation to return (the model's key
//	             input; the harness prints the location the real code found)
//	    <kind> = p plain | w weighted | r refused | b badvers   (what the generator expects; wrong
//	             expectations show up as a hit/miss or stamp difference)
//	    I = one `<label>:<loc>:<hit|miss|nolookup>:<stamp>` per completed query, in completion order;
//	    stamp = the database generation(s) whose uncached response equals the response sent (`*` = all:
//	    generation-independent).
//	    P = FAIL if a cached response differs from the response of the cache-less twin handler fed the
//	    same history, or if a query is sent a response older than the generation it acquired.
//
// Every database generation g carries g in its rdata (10.x.g.y, gen=g, SOA serial 1000+g) and in
// every TTL (300+g). The databases are built once per run and backend; every op gets fresh handlers.

import (
	"sort"
	"bufio"
	"fmt"
	"net"
	"os"
	"strconv"
	"strings"
	"time"

	"github.com/facebookincubator/dns/dnsrocks/db"
	"github.com/facebookincubator/dns/dnsrocks/dnsdata/rdb"
	"github.com/facebookincubator/dns/dnsrocks/dnsserver"
	"github.com/facebookincubator/dns/dnsrocks/dnsserver/stats"
	"github.com/miekg/dns"
)

func init() {
	props["C12"] = &prop{gen: c12gen, run: c12run, teardown: c12teardown}
}

// The format string of the `cacheKey =` assignment in ServeDNSWithRCODE (tied to the source by the
// extracted fact Generated.dnsserver_cacheKeyFormat) and the one used before commit 34f5759.
const c12keyFormat = "%.3d/%d/%d/%s"
const c12keyFormatOld = "%.3d%.3d%.3d%s"

const c12gens = 4

var c12backends = []string{"cdb", "v1", "v2"}

var c12points = []string{"serve.start", "serve.acquired", "serve.located", "serve.zonecut", "serve.answered",
	"serve.before-cache-insert", "serve.before-write"}

func c12data(g int) []string {
	t := strconv.Itoa(300 + g)
	ip := func(a, d int) string { return fmt.Sprintf("10.%d.%d.%d", a, g, d) }
	return []string{
		fmt.Sprintf("Zex.com,ns1.ex.com,hostmaster.ex.com,%d,,,,,%s", 1000+g, t),
		"&ex.com," + ip(0, 53) + ",ns1.ex.com," + t,
		"+one.ex.com," + ip(0, 1) + "," + t,
		fmt.Sprintf("'one.ex.com,gen=%d,%s", g, t),
		"+multi.ex.com," + ip(0, 2) + "," + t,
		"+multi.ex.com," + ip(0, 3) + "," + t,
		"Calias.ex.com,one.ex.com," + t,
		"+*.wild.ex.com," + ip(0, 4) + "," + t,
		fmt.Sprintf("'txt.ex.com,gen=%d,%s", g, t),
		"+loc.ex.com," + ip(1, 1) + "," + t + ",,aa",
		"+loc.ex.com," + ip(2, 1) + "," + t + ",,bb",
		"+loc.ex.com," + ip(3, 1) + "," + t + ",,\\001\\002",
		"&child.ex.com," + ip(0, 77) + ",ns1.child.ex.com," + t,
		"@ex.com," + ip(0, 25) + ",mx1.ex.com,10," + t,
		"+5.x.ex.com," + ip(0, 5) + "," + t,
		"+05.x.ex.com," + ip(0, 6) + "," + t,
		fmt.Sprintf(":one.ex.com,100,\\004gen%d,%s", g, t),
		"Mex.com,m1",
		"M*.ex.com,m1",
		"8ex.com,e1",
		"8*.ex.com,e1",
		"%aa,10.0.0.0/8,m1",
		"%bb,192.168.0.0/16,m1",
		"%\\001\\002,172.16.0.0/12,m1",
		"%aa,10.0.0.0/8,e1",
		"%bb,192.168.0.0/16,e1",
	}
}

// ---- clients -----------------------------------------------------------------------------------

type c12client struct {
	resolver string
	opt      bool
	ecs      string // CIDR
	loc      string // expected location id, hex
}

var c12clients = []c12client{
	{"10.1.2.3", false, "", "6161"},
	{"10.200.0.1", true, "", "6161"},
	{"192.168.5.5", false, "", "6262"},
	{"172.16.9.9", true, "", "0102"},
	{"8.8.8.8", false, "", "0000"},
	{"2001:db8::1", true, "", "0000"},
	{"8.8.8.8", true, "10.1.0.0/16", "6161"},
	{"10.1.2.3", true, "192.168.0.0/16", "6262"},
	{"192.168.5.5", true, "9.9.9.0/24", "6262"},
	{"8.8.8.8", true, "9.9.9.0/24", "0000"},
}

type c12name struct {
	name  string
	types []uint16
}

var c12names = []c12name{
	{"one.ex.com.", []uint16{1, 16, 28, 100, 255, 1001}},
	{"multi.ex.com.", []uint16{1, 16}},
	{"alias.ex.com.", []uint16{1, 5}},
	{"a.wild.ex.com.", []uint16{1, 16}},
	{"txt.ex.com.", []uint16{16, 1}},
	{"loc.ex.com.", []uint16{1, 16}},
	{"www.child.ex.com.", []uint16{1, 2}},
	{"child.ex.com.", []uint16{2, 43}},
	{"ex.com.", []uint16{6, 2, 15, 1}},
	{"nx.ex.com.", []uint16{1, 16}},
	{"5.x.ex.com.", []uint16{1}},
	{"05.x.ex.com.", []uint16{1}},
	{"other.test.", []uint16{1, 16}},
	{"com.", []uint16{2}},
}

var c12classes = []uint16{1, 1, 1, 1, 100, 1000, 0, 255, 3}

func c12kind(name string, qtype uint16, version int) string {
	switch {
	case version != 0:
		return "b"
	case !strings.HasSuffix(strings.ToLower(name), "ex.com."):
		return "r"
	case strings.EqualFold(name, "multi.ex.com.") && qtype == 1:
		return "w"
	}
	return "p"
}

// locations apply below ex.com only (the maps are declared for ex.com and *.ex.com)
func c12loc(name string, cl c12client) string {
	if !strings.HasSuffix(strings.ToLower(name), "ex.com.") {
		return "0000"
	}
	return cl.loc
}

func (g *gen) c12query(name string, qtype, qclass uint16, ci int) (string, *query) {
	cl := c12clients[ci]
	q := &query{name: name, qtype: qtype, qclass: qclass, maxAns: 1, resolver: net.ParseIP(cl.resolver), opt: cl.opt}
	if cl.ecs != "" {
		ip, n, _ := net.ParseCIDR(cl.ecs)
		ones, _ := n.Mask.Size()
		q.ecs = &ecsSpec{family: 1, source: ones, addr: ip.To4()}
	}
	if g.chance(1, 3) {
		q.name = flipCase(q.name, g)
	}
	if q.opt && g.chance(1, 12) {
		q.version = 1
	}
	if q.opt && g.chance(1, 6) {
		q.extraOpt = 1 + g.intn(3)
	}
	kind := c12kind(name, qtype, q.version)
	if kind == "w" {
		q.maxAns = 8 // all candidates are returned: the answer is a set, not a random choice
	}
	return c12loc(name, cl) + "@" + kind + "@" + q.token(), q
}

func (g *gen) c12randomQuery() string {
	n := c12names[g.intn(len(c12names))]
	ev, _ := g.c12query(n.name, n.types[g.intn(len(n.types))], c12classes[g.intn(len(c12classes))], g.intn(len(c12clients)))
	return ev
}

func c12gen(g *gen, tier string, w *bufio.Writer) {
	thorough := tier == "thorough"
	// --- key rendering ---
	nums := []int{0, 1, 9, 10, 11, 99, 100, 101, 255, 256, 999, 1000, 1001, 9999, 10000, 65535}
	nkeys := 300
	if thorough {
		nkeys = 5000
	}
	for i := 0; i < nkeys; i++ {
		pickNum := func(max int) int {
			if g.bool() {
				for {
					if v := nums[g.intn(len(nums))]; v <= max {
						return v
					}
				}
			}
			return g.intn(max + 1)
		}
		loc := []byte{byte(pickNum(255)), byte(pickNum(255))}
		name := make([]byte, g.intn(12))
		for j := range name {
			switch g.intn(4) {
			case 0:
				name[j] = byte(g.intn(256))
			case 1:
				name[j] = g.pickByte([]byte("0123456789/[] %."))
			default:
				name[j] = byte('a' + g.intn(26))
			}
		}
		op := "key"
		if i%5 == 4 {
			op = "keyold"
		}
		fmt.Fprintf(w, "%s %s %d %d %s\n", op, hexTok(loc), pickNum(65535), pickNum(65535), hexTok(name))
	}
	for _, b := range c12backends {
		// --- the key collisions of the old format ---
		for _, ci := range []int{0, 4} {
			a1, _ := g.c12query("one.ex.com.", 100, 1000, ci)
			a2, _ := g.c12query("one.ex.com.", 1001, 0, ci)
			b1, _ := g.c12query("05.x.ex.com.", 1, 100, ci)
			b2, _ := g.c12query("5.x.ex.com.", 1, 1000, ci)
			for _, p := range [][2]string{{a1, a2}, {a2, a1}, {b1, b2}, {b2, b1}} {
				fmt.Fprintf(w, "hist %s q@%s;q@%s;q@%s;q@%s\n", b, p[0], p[1], p[0], p[1])
			}
		}
		// --- the race schedule: every yield point, with / without a warm entry, reload, release, fresh queries ---
		for pt := range c12points {
			for _, warm := range []bool{false, true} {
				for _, nm := range []string{"one.ex.com.", "nx.ex.com.", "www.child.ex.com.", "loc.ex.com."} {
					if !thorough && nm != "one.ex.com." && (pt+len(nm))%3 != 0 {
						continue
					}
					a, _ := g.c12query(nm, 1, 1, 0)
					b2, _ := g.c12query(nm, 1, 1, 6) // another client at the same location, with EDNS/ECS
					var evs []string
					if warm {
						evs = append(evs, "q@"+a)
					}
					evs = append(evs, fmt.Sprintf("s1@%d@%s", pt, a), "R", "c1", "q@"+b2, "q@"+a)
					fmt.Fprintf(w, "race %s %s\n", b, strings.Join(evs, ";"))
					// the same across a catch-up reload (RocksDB), for a query that has finished reading (the
					// authority and additional sections are read after serve.answered)
					// (a query still reading across a catch-up is the known finding of C05)
					if b != "cdb" && pt >= 5 {
						for i, e := range evs {
							if e == "R" {
								evs[i] = "K"
							}
						}
						fmt.Fprintf(w, "race %s %s\n", b, strings.Join(evs, ";"))
					}
				}
			}
		}
	}
	// --- random sequential histories ---
	nh := 36
	if thorough {
		nh = 1500
	}
	for i := 0; i < nh; i++ {
		b := c12backends[i%len(c12backends)]
		// a small universe so that keys repeat
		uni := make([]string, 3+g.intn(10))
		for j := range uni {
			uni[j] = g.c12randomQuery()
		}
		l := 8 + g.intn(40)
		reloads := 0
		var evs []string
		// on RocksDB a third of the histories reload by catching the served instance up with its
		// primary (same path) instead of switching to another path
		rel := "R"
		if b != "cdb" && i%3 == 1 {
			rel = "K"
		}
		for j := 0; j < l; j++ {
			if reloads < c12gens-1 && g.chance(1, 10) {
				evs = append(evs, rel)
				reloads++
				continue
			}
			if g.chance(1, 5) {
				evs = append(evs, "q@"+g.c12randomQuery())
			} else if g.chance(1, 3) {
				// the same key in another spelling: a hit must answer the query that is asked
				evs = append(evs, "q@"+g.c12respell(g.pick(uni)))
			} else {
				evs = append(evs, "q@"+g.pick(uni))
			}
		}
		fmt.Fprintf(w, "hist %s %s\n", b, strings.Join(evs, ";"))
	}
	// --- random small schedules ---
	nr := 60
	if thorough {
		nr = 3000
	}
	for i := 0; i < nr; i++ {
		b := c12backends[i%len(c12backends)]
		uni := make([]string, 1+g.intn(3))
		for j := range uni {
			uni[j] = g.c12randomQuery()
		}
		var evs []string
		var parked []int
		next := 1
		reloads := 0
		l := 4 + g.intn(10)
		for j := 0; j < l; j++ {
			switch k := g.intn(10); {
			case k < 3 && len(parked) < 3:
				evs = append(evs, fmt.Sprintf("s%d@%d@%s", next, g.intn(len(c12points)), g.pick(uni)))
				parked = append(parked, next)
				next++
			case k < 5 && len(parked) > 0:
				x := g.intn(len(parked))
				evs = append(evs, fmt.Sprintf("c%d", parked[x]))
				parked = append(parked[:x], parked[x+1:]...)
			case k < 7 && reloads < c12gens-1:
				evs = append(evs, "R")
				reloads++
			default:
				evs = append(evs, "q@"+g.pick(uni))
			}
		}
		for _, p := range parked {
			evs = append(evs, fmt.Sprintf("c%d", p))
		}
		evs = append(evs, "q@"+uni[0])
		fmt.Fprintf(w, "race %s %s\n", b, strings.Join(evs, ";"))
	}
}

// ---- the per-run world: one database and one pinned cache-less handler per backend and generation ----

type c12dbgen struct {
	h    *dnsserver.FBDNSDB
	path string
	all  map[string]*served
	dir  string
}

var c12world = map[string][]*c12dbgen{}

func c12build(backend string) ([]*c12dbgen, string) {
	if w, ok := c12world[backend]; ok {
		return w, ""
	}
	var w []*c12dbgen
	for g := 0; g < c12gens; g++ {
		hs, errs, dir := compileAll(c12data(g), &stats.DummyStats{}, &dnsserver.DummyLogger{}, dnsserver.CacheConfig{}, []string{backend})
		if e, bad := errs[backend]; bad {
			closeAll(hs, dir)
			return nil, e
		}
		w = append(w, &c12dbgen{h: hs[backend].h, path: hs[backend].dir, all: hs, dir: dir})
	}
	c12world[backend] = w
	return w, ""
}

func c12teardown() {
	for _, w := range c12world {
		for _, g := range w {
			closeAll(g.all, g.dir)
		}
	}
	c12world = map[string][]*c12dbgen{}
}

// ---- scheduler -----------------------------------------------------------------------------------

type c12flight struct {
	label    string
	q        *query
	parkAt   string
	passed   bool
	parked   chan struct{}
	release  chan struct{}
	done     chan string
	released bool
	events   []string // cache counters bumped on behalf of this query
	acquired int      // generation current when the query acquired its reader (-1 = not yet)
}

// the flight whose goroutine is running; all other goroutines of the op are blocked
var c12cur *c12flight

type c12stats struct{ stats.DummyStats }

func (s *c12stats) IncrementCounter(key string) {
	if f := c12cur; f != nil && strings.HasPrefix(key, "DNS_cache.") {
		f.events = append(f.events, strings.TrimPrefix(key, "DNS_cache."))
	}
}

func c12hook(curGen *int) func(string) {
	return func(point string) {
		f := c12cur
		if f == nil {
			return // a reload, run by the scheduler itself
		}
		if point == "serve.acquired" {
			f.acquired = *curGen
		}
		if f.parkAt != point || f.passed {
			return
		}
		f.passed = true
		rel := f.release // read before handing control back: the scheduler owns the flight afterwards
		f.parked <- struct{}{}
		<-rel
	}
}

func c12newHandler(path, backend string, cache dnsserver.CacheConfig, st stats.Stats) (*dnsserver.FBDNSDB, error) {
	driver := "rocksdb"
	if backend == "cdb" {
		driver = "cdb"
	}
	h, err := dnsserver.NewFBDNSDBBasic(dnsserver.HandlerConfig{},
		dnsserver.DBConfig{Path: path, Driver: driver, ReloadTimeout: 10 * time.Second}, cache, &dnsserver.DummyLogger{}, st)
	if err != nil {
		return nil, err
	}
	if err := h.Load(); err != nil {
		return nil, err
	}
	return h, nil
}

// c12realLoc asks the real FindLocation.
func c12realLoc(h *dnsserver.FBDNSDB, q *query) string {
	req := q.wireQuery()
	if req == nil {
		return "invalid"
	}
	rd, err := h.AcquireReader()
	if err != nil {
		return "reader-error"
	}
	defer rd.Close()
	buf := make([]byte, 255)
	off, err := dns.PackDomainName(strings.ToLower(req.Question[0].Name), buf, 0, nil, false)
	if err != nil {
		return "pack-error"
	}
	_, loc, err := rd.FindLocation(buf[:off], req, q.resolver.String())
	if err != nil || loc == nil {
		return "noloc"
	}
	return hexTok(loc.LocID[:])
}

func c12run(line string) (string, string) {
	f := strings.Fields(line)
	switch {
	case (f[0] == "key" || f[0] == "keyold") && len(f) == 5:
		lb := unhexTok(f[1])
		if len(lb) != 2 {
			return "bad-args", "-"
		}
		var loc db.Location
		copy(loc.LocID[:], lb)
		t, _ := strconv.Atoi(f[2])
		c, _ := strconv.Atoi(f[3])
		format := c12keyFormat
		if f[0] == "keyold" {
			format = c12keyFormatOld
		}
		return hexTok([]byte(fmt.Sprintf(format, loc.LocID, uint16(t), uint16(c), string(unhexTok(f[4]))))), "-"
	case (f[0] == "hist" || f[0] == "race") && len(f) == 3:
		return c12sched(f[1], strings.Split(f[2], ";"))
	}
	return "bad-op", "-"
}

func c12sched(backend string, evs []string) (string, string) {
	setSeparateBitmap(backend)
	world, e := c12build(backend)
	if e != "" {
		return "setup:" + e, "FAIL:setup"
	}
	cst := &c12stats{}
	pathC, pathU := world[0].path, world[0].path
	catchUp := false
	for _, ev := range evs {
		if ev == "K" {
			catchUp = true
		}
	}
	if catchUp {
		// catch-up reloads change the database in place: private copies of generation 0
		if backend == "cdb" {
			return "bad-op", "-"
		}
		tmp, err := os.MkdirTemp("", "c12work")
		if err != nil {
			return "setup:tmp", "FAIL:setup"
		}
		defer os.RemoveAll(tmp)
		pathC, pathU = tmp+"/C", tmp+"/U"
		c05copyDir(world[0].path, pathC)
		c05copyDir(world[0].path, pathU)
	}
	C, err := c12newHandler(pathC, backend, dnsserver.CacheConfig{Enabled: true, LRUSize: 1024, WRSTimeout: 0}, cst)
	if err != nil {
		return "setup:cached-handler", "FAIL:setup"
	}
	defer C.Close()
	U, err := c12newHandler(pathU, backend, dnsserver.CacheConfig{}, &stats.DummyStats{})
	if err != nil {
		return "setup:uncached-handler", "FAIL:setup"
	}
	defer U.Close()

	curGen := 0
	dnsserver.VerifYield = c12hook(&curGen)
	flights := map[string]*c12flight{}
	var parkedOrder []*c12flight
	defer func() {
		// release whatever is still parked so that no goroutine outlives the op
		for _, fl := range parkedOrder {
			if !fl.released {
				c12cur = fl
				fl.released = true
				close(fl.release)
				<-fl.done
			}
		}
		c12cur = nil
		dnsserver.VerifYield = nil
		// the reload of a RocksDB handler leaves log directories behind
		if ents, err := os.ReadDir(os.TempDir()); err == nil {
			for _, e := range ents {
				if strings.HasPrefix(e.Name(), "rdb-log-") {
					os.RemoveAll(os.TempDir() + "/" + e.Name())
				}
			}
		}
	}()

	var out []string
	verdict := "ok"
	fail := func(s string) {
		if verdict == "ok" {
			verdict = "FAIL:" + s
		}
	}
	// completed: render one finished query
	completed := func(fl *c12flight, resp string, sequential bool) {
		hm := "nolookup"
		for _, e := range fl.events {
			switch e {
			case "hit":
				hm = "hit"
			case "missed":
				hm = "miss"
			case "expired":
				hm = "expired"
			}
		}
		if sequential {
			// the property itself: the cache-less twin, fed the same history, answers the same
			qq := *fl.q
			if u := ask(U, &qq); u != resp {
				fail("cached-differs-from-uncached@" + strconv.Itoa(len(out)))
			}
		}
		var match []string
		for g, w := range world {
			qq := *fl.q
			if ask(w.h, &qq) == resp {
				match = append(match, strconv.Itoa(g))
			}
		}
		stamp := strings.Join(match, "+")
		switch len(match) {
		case 0:
			stamp = "?"
			fail("response-of-no-generation@" + fl.label)
		case len(world):
			stamp = "*"
		default:
			// the response must not be older than the generation the query acquired
			if fl.acquired >= 0 && match[len(match)-1] != "" {
				newest, _ := strconv.Atoi(match[len(match)-1])
				if newest < fl.acquired {
					fail(fmt.Sprintf("stale@%s(gen%d<acquired%d)", fl.label, newest, fl.acquired))
				}
			}
		}
		qq := *fl.q
		out = append(out, fmt.Sprintf("%s:%s:%s:%s", fl.label, c12realLoc(world[0].h, &qq), hm, stamp))
	}
	start := func(label string, q *query, parkAt string) {
		fl := &c12flight{label: label, q: q, parkAt: parkAt, parked: make(chan struct{}), release: make(chan struct{}),
			done: make(chan string, 1), acquired: -1}
		c12cur = fl
		go func() {
			qq := *fl.q
			fl.done <- ask(C, &qq)
		}()
		select {
		case <-fl.parked:
			c12cur = nil
			flights[label] = fl
			parkedOrder = append(parkedOrder, fl)
		case resp := <-fl.done:
			c12cur = nil
			fl.released = true
			completed(fl, resp, parkAt == "")
		case <-time.After(30 * time.Second):
			panic("c12: query neither parked nor finished")
		}
	}
	for _, ev := range evs {
		p := strings.Split(ev, "@")
		switch {
		case ev == "K":
			if curGen+1 >= len(world) {
				continue
			}
			c12cur = nil
			for _, x := range []struct {
				h    *dnsserver.FBDNSDB
				path string
			}{{C, pathC}, {U, pathU}} {
				if err := c12applyDiff(x.path, curGen, curGen+1); err != nil {
					return "applydiff-error:" + err.Error(), "FAIL:setup"
				}
				if err := x.h.Reload(dnsserver.ReloadSignal{Kind: dnsserver.PartialReload}); err != nil {
					return "reload-error", "FAIL:reload"
				}
			}
			curGen++
		case ev == "R":
			if catchUp {
				return "bad-op", "-" // a full reload would leave the private copies
			}
			if curGen+1 >= len(world) {
				continue
			}
			c12cur = nil
			if err := C.Reload(*dnsserver.NewFullReloadSignal(world[curGen+1].path)); err != nil {
				return "reload-error", "FAIL:reload"
			}
			if err := U.Reload(*dnsserver.NewFullReloadSignal(world[curGen+1].path)); err != nil {
				return "reload-error", "FAIL:reload"
			}
			curGen++
		case p[0] == "q" && len(p) == 4:
			start("q", parseQuery(p[3]), "")
		case strings.HasPrefix(p[0], "s") && len(p) == 5:
			pt, err := strconv.Atoi(p[1])
			if err != nil || pt < 0 || pt >= len(c12points) || flights[p[0][1:]] != nil {
				continue
			}
			start(p[0][1:], parseQuery(p[4]), c12points[pt])
		case strings.HasPrefix(p[0], "c") && len(p) == 1:
			fl := flights[p[0][1:]]
			if fl == nil || fl.released {
				continue
			}
			c12cur = fl
			fl.released = true
			close(fl.release)
			var resp string
			select {
			case resp = <-fl.done:
			case <-time.After(30 * time.Second):
				panic("c12: released query did not finish")
			}
			c12cur = nil
			completed(fl, resp, false)
		}
	}
	// the keys the real cache holds now (every query has finished): the model's cache must hold the
	// same byte strings - this is the tie of Cache.cacheKey to the key the code really builds
	keys := "?"
	allDone := true
	for _, fl := range parkedOrder {
		if !fl.released {
			allDone = false
		}
	}
	if allDone {
		var ks []string
		for _, k := range C.CacheKeysForVerif() {
			ks = append(ks, hexTok([]byte(k)))
		}
		sort.Strings(ks)
		keys = strings.Join(ks, "+")
	}
	return strings.Join(out, ",") + "|keys=" + keys, verdict
}

// c12applyDiff publishes generation b at a RocksDB path holding generation a (the primary's update
// the served secondary instance then catches up with).
func c12applyDiff(dir string, a, b int) error {
	la, lb := c12data(a), c12data(b)
	ina, inb := map[string]bool{}, map[string]bool{}
	for _, l := range la {
		ina[l] = true
	}
	for _, l := range lb {
		inb[l] = true
	}
	var d []string
	for _, l := range la {
		if !inb[l] {
			d = append(d, "-"+l)
		}
	}
	for _, l := range lb {
		if !ina[l] {
			d = append(d, "+"+l)
		}
	}
	f, err := os.CreateTemp("", "c12diff")
	if err != nil {
		return err
	}
	f.WriteString(strings.Join(d, "\n") + "\n")
	f.Close()
	defer os.Remove(f.Name())
	// the diff file's mtime is the SOA serial of `.` lines only; none here
	return rdb.ApplyDiff(f.Name(), dir)
}

// c12respell changes the letter case of the name of a query event (`<loc>@<kind>@<namehex>.<rest>`).
func (g *gen) c12respell(ev string) string {
	p := strings.Split(ev, "@")
	if len(p) != 3 {
		return ev
	}
	i := strings.Index(p[2], ".")
	if i < 0 {
		return ev
	}
	name := strings.ToLower(string(unhexTok(p[2][:i])))
	p[2] = hexTok([]byte(flipCase(name, g))) + p[2][i:]
	return strings.Join(p, "@")
}
