package main

import (
	"bufio"
	"bytes"
	"fmt"
	"strconv"
	"strings"

	"github.com/facebookincubator/dns/dnsrocks/dnsdata/quote"
)

func init() {
	props["C17"] = &prop{gen: c17gen, run: c17run}
}

// isPrintRanges dumps strconv.IsPrint over all runes as inclusive ranges.
func isPrintRanges() string {
	var sb strings.Builder
	start := -1
	first := true
	for r := 0; r <= 0x110000; r++ {
		p := r <= 0x10FFFF && strconv.IsPrint(rune(r))
		if p && start < 0 {
			start = r
		}
		if !p && start >= 0 {
			if !first {
				sb.WriteByte(',')
			}
			first = false
			fmt.Fprintf(&sb, "%d-%d", start, r-1)
			start = -1
		}
	}
	return sb.String()
}

var c17alphabet = []byte{0, 1, 7, 8, 9, 10, 11, 12, 13, 0x1f, ' ', '"', '\'', ',', ':', '\\', '0', '5', '7', 'a', 'x', 'u', 'U', 'n', 0x7f,
	0x80, 0xbf, 0xc0, 0xc2, 0xdf, 0xe0, 0xa0, 0xed, 0x9f, 0xef, 0xbd, 0xf0, 0x90, 0xf4, 0x8f, 0xf5, 0xff}

var c17boundary = []string{
	"\ufffd", "\ufffe", "\uffff", "\U0010ffff", "\U0010fffe", "\xed\xa0\x80", "\xed\xbf\xbf", "\u0080", "\u00a0",
	"\u00ad", "\u2028", "\u2029", "\ufeff", "\ue000", "\u07ff", "\u0800", "\U00010000", "\xf4\x90\x80\x80", "\xc0\x80",
	"\xe0\x80\x80", "\u200b", "\u0378", "\xef\xbf", "\xef",
}

func c17gen(g *gen, tier string, w *bufio.Writer) {
	fmt.Fprintf(w, "isprint %s\n", isPrintRanges())
	// exhaustive lengths 0..2
	fmt.Fprintf(w, "quote -\n")
	for a := 0; a < 256; a++ {
		fmt.Fprintf(w, "quote %s\n", hexTok([]byte{byte(a)}))
	}
	for a := 0; a < 256; a++ {
		for b := 0; b < 256; b++ {
			fmt.Fprintf(w, "quote %s\n", hexTok([]byte{byte(a), byte(b)}))
		}
	}
	if tier == "thorough" {
		// all 3-byte strings that start a multi-byte sequence
		for a := 0xc0; a < 256; a++ {
			for b := 0x70; b < 0xd0; b++ {
				for c := 0; c < 256; c++ {
					fmt.Fprintf(w, "quote %s\n", hexTok([]byte{byte(a), byte(b), byte(c)}))
				}
			}
		}
	}
	n := 20000
	if tier == "thorough" {
		n = 400000
	}
	for i := 0; i < n; i++ {
		l := 1 + g.intn(24)
		if g.chance(1, 10) {
			l = 1 + g.intn(64)
		}
		b := make([]byte, l)
		mode := g.intn(4)
		for j := range b {
			switch mode {
			case 0:
				b[j] = byte(g.intn(256))
			case 1:
				b[j] = g.pickByte(c17alphabet)
			case 2:
				// valid runes mostly
				b[j] = byte(0x20 + g.intn(0x60))
			default:
				if g.bool() {
					b[j] = g.pickByte(c17alphabet)
				} else {
					b[j] = byte(g.intn(256))
				}
			}
		}
		if i%5 == 0 {
			// boundary runes (replacement character, non-characters, surrogates encoded as UTF-8,
			// non-printable and format runes, planes' ends) next to bytes Bquote escapes
			b = b[:0]
			for k, n := 0, 1+g.intn(6); k < n; k++ {
				switch g.intn(3) {
				case 0:
					b = append(b, c17boundary[g.intn(len(c17boundary))]...)
				case 1:
					b = append(b, g.pickByte([]byte(",:\\\n\t\x00\x7f\"'|")))
				default:
					b = append(b, g.pickByte(c17alphabet))
				}
			}
		}
		if mode == 2 && g.bool() {
			// splice a valid multi-byte rune
			r := rune(g.intn(0x110000))
			b = append(b[:g.intn(len(b))], []byte(string(r))...)
		}
		fmt.Fprintf(w, "quote %s\n", hexTok(b))
		// arbitrary text through Bunquote (model/impl agreement on the decoder alone)
		if i%4 == 0 {
			fmt.Fprintf(w, "unquote %s\n", hexTok(b))
		}
	}
}

func c17run(line string) (string, string) {
	f := strings.Fields(line)
	switch f[0] {
	case "isprint":
		n := strings.Count(f[1], ",") + 1
		return fmt.Sprintf("ranges:%d", n), "-"
	case "quote":
		b := unhexTok(f[1])
		in := append([]byte{}, b...)
		q := quote.Bquote(b)
		verdict := "ok"
		if bytes.ContainsAny(q, ",:\n") {
			verdict = "FAIL:separator-in-quoted"
		}
		u, err := quote.Bunquote(append([]byte{}, q...))
		if err != nil {
			verdict = "FAIL:unquote-error"
		} else if !bytes.Equal(u, in) {
			verdict = "FAIL:roundtrip-differs"
		}
		return hexTok(q), verdict
	case "unquote":
		b := unhexTok(f[1])
		u, err := quote.Bunquote(b)
		if err != nil {
			return "err:syntax", "-"
		}
		return "ok:" + hexTok(u), "-"
	}
	return "bad-op", "-"
}
