package main

// C05 — a reload switches generations atomically and visibly.
//
// A deterministic scheduler over the real FBDNSDB: query workers (one ServeDNSWithRCODE call each),
// reload workers (one FBDNSDB.Reload call each) and publish steps (the environment replaces the
// database at a path). dnsserver.VerifYield parks the calling worker at every instrumented point;
// a schedule is a list of worker indices, each meaning "let this worker run to its next yield
// point or to completion".
//
//	sched <cdb|rdb> <worker;worker;…> <w;w;…>
//	  worker:  q:<name>/<type>/<client>   r:full:<path>   r:partial   r:full-missing   r:full-corrupt
//	           r:full-timeout:<path>   r:partial-timeout   p:<path>:<gen>
//
// Paths 0..4 initially hold generations 0..4; the server starts on path 0. Every record a query
// reads carries the generation: SOA serial 100+g, NS ns<g>, A 10.x.<g>.y, TXT gen=<g>, and the
// ECS scope 8+g (the map record of generation g names map m<g>, whose only subnet is 10.0.0.0/8+g).
// Generation 4 lacks the record of the validation key.
//
// Steps naming a finished or disabled worker are skipped; after the listed steps the remaining
// workers are drained lowest-index-enabled first. The Lean driver applies the same two rules.

import (
	"bufio"
	"context"
	"errors"
	"fmt"
	"io/fs"
	"net"
	"os"
	"path/filepath"
	"runtime"
	"sort"
	"strconv"
	"strings"
	"sync"
	"time"

	"github.com/facebookincubator/dns/dnsrocks/db"
	dnscdb "github.com/facebookincubator/dns/dnsrocks/dnsdata/cdb"
	"github.com/facebookincubator/dns/dnsrocks/dnsdata/rdb"
	"github.com/facebookincubator/dns/dnsrocks/dnsserver"
	"github.com/facebookincubator/dns/dnsrocks/dnsserver/stats"
	"github.com/miekg/dns"
)

func init() {
	props["C05"] = &prop{gen: c05gen, run: c05run, setup: c05setup, teardown: c05teardown}
}

const (
	c05NGen      = 5                // generations / switch paths 0..4
	c05BadGen    = 4                // lacks the validation record
	c05StepLimit = 10 * time.Second // 2 s is not enough for a RocksDB open on a loaded machine
)

var c05ValidationKey = []byte("\000\000\005valid\002ex\003com\000")

func c05lines(g int) []string {
	l := []string{
		fmt.Sprintf("Zex.com,ns.ex.com,hostmaster.ex.com,%d,7200,1800,604800,120,300", 100+g),
		fmt.Sprintf("&ex.com,,ns%d.ex.com,300", g),
		fmt.Sprintf("+www.ex.com,10.0.%d.1,300", g),
		fmt.Sprintf("+www.ex.com,10.2.%d.1,300,,aa", g),
		fmt.Sprintf("'www.ex.com,gen=%d,300", g),
		fmt.Sprintf("&sub.ex.com,,ns%d.sub.ex.com,300", g),
		fmt.Sprintf("Mex.com,m%d", g),
		fmt.Sprintf("8ex.com,m%d", g),
		fmt.Sprintf("M*.ex.com,m%d", g),
		fmt.Sprintf("8*.ex.com,m%d", g),
	}
	for k := 0; k < c05NGen; k++ {
		l = append(l,
			fmt.Sprintf("+ns%d.ex.com,10.3.%d.%d,300", k, g, k),
			fmt.Sprintf("+ns%d.sub.ex.com,10.1.%d.%d,300", k, g, k),
			fmt.Sprintf("%%aa,10.0.0.0/%d,m%d", 8+k, k))
	}
	if g != c05BadGen {
		l = append(l, "+valid.ex.com,10.9.9.9,300")
	}
	return l
}

// ---- master databases, built once ------------------------------------------------------------------

var c05root string

func c05master(backend string, g int) string {
	if backend == "cdb" {
		return filepath.Join(c05root, "master", fmt.Sprintf("g%d.cdb", g))
	}
	return filepath.Join(c05root, "master", fmt.Sprintf("rdb%d", g))
}

func c05work(backend string, p int) string {
	if backend == "cdb" {
		return filepath.Join(c05root, "work", fmt.Sprintf("p%d.cdb", p))
	}
	return filepath.Join(c05root, "work", fmt.Sprintf("p%d", p))
}

func c05setup() {
	var err error
	c05root, err = os.MkdirTemp("", "c05-")
	if err != nil {
		panic(err)
	}
	os.MkdirAll(filepath.Join(c05root, "master"), 0o755)
	for g := 0; g < c05NGen; g++ {
		in := filepath.Join(c05root, "master", fmt.Sprintf("g%d.in", g))
		os.WriteFile(in, []byte(strings.Join(c05lines(g), "\n")+"\n"), 0o644)
		mt := time.Unix(serveSerial, 0)
		os.Chtimes(in, mt, mt)
		if _, err := dnscdb.CreateCDB(in, c05master("cdb", g), &dnscdb.CreatorOptions{NumCPU: 2}); err != nil {
			panic(err)
		}
		os.MkdirAll(c05master("rdb", g), 0o755)
		if _, err := rdb.CompileToSpecificRDBVersion(in, c05master("rdb", g), rdb.CompilationOptions{
			NumCPU: 2, UseV2KeySyntax: false, UseBuilder: false, BatchNumParallel: 2, BatchSize: 1000}); err != nil {
			panic(err)
		}
	}
}

func c05teardown() {
	if c05root != "" {
		os.RemoveAll(c05root)
	}
	c05cleanLogs()
}

func c05cleanLogs() {
	if ents, err := os.ReadDir(os.TempDir()); err == nil {
		for _, e := range ents {
			if strings.HasPrefix(e.Name(), "rdb-log-") {
				os.RemoveAll(filepath.Join(os.TempDir(), e.Name()))
			}
		}
	}
}

func c05copyFile(src, dst string) {
	b, err := os.ReadFile(src)
	if err != nil {
		panic(err)
	}
	if err := os.WriteFile(dst, b, 0o644); err != nil {
		panic(err)
	}
}

func c05copyDir(src, dst string) {
	os.MkdirAll(dst, 0o755)
	ents, err := os.ReadDir(src)
	if err != nil {
		panic(err)
	}
	for _, e := range ents {
		if e.Name() == "LOCK" || e.IsDir() {
			continue
		}
		c05copyFile(filepath.Join(src, e.Name()), filepath.Join(dst, e.Name()))
	}
}

// ---- workers ---------------------------------------------------------------------------------------

type c05worker struct {
	idx    int
	spec   string
	kind   byte // q r p
	resume chan struct{}
	parked chan string
	point  string
	done   bool
	out    string

	// query
	q      *query
	stamps []int // distinct generations seen in the response
	acqT   int   // step at which the reader was acquired (0 = not yet)
	finT   int

	// reload
	sig      dnsserver.ReloadSignal
	timeout  bool
	target   int // path id, -1 for missing/corrupt
	effT     int
	finTR    int
	sameInst bool // target path == path of the served instance when the reload ran
	changed  bool // …and the content on disk differed from what the instance held
	instGen  int  // what the reload installed / would install
	class    string

	// publish
	pPath, pGen int
}

type c05sched struct {
	mu      sync.Mutex
	byGid   map[uint64]*c05worker
	h       *dnsserver.FBDNSDB
	backend string
}

var c05cur *c05sched

func c05gid() uint64 {
	var b [64]byte
	n := runtime.Stack(b[:], false)
	f := strings.Fields(string(b[:n]))
	if len(f) < 2 {
		return 0
	}
	id, _ := strconv.ParseUint(f[1], 10, 64)
	return id
}

func c05yield(point string) {
	s := c05cur
	if s == nil {
		return
	}
	s.mu.Lock()
	w := s.byGid[c05gid()]
	s.mu.Unlock()
	if w == nil {
		return
	}
	if point == "reload.locked" {
		// the worker holds reloadMu here: nobody else reads the timeout
		if w.timeout {
			s.h.SetReloadTimeoutForVerif(-time.Second) // already expired when the context is created
		} else {
			s.h.SetReloadTimeoutForVerif(10 * time.Second)
		}
	}
	w.parked <- point
	<-w.resume
}

func c05client(ip string) *query {
	q := &query{qclass: dns.ClassINET, resolver: net.ParseIP(ip), opt: true}
	a := net.ParseIP(ip).To4()
	q.ecs = &ecsSpec{family: 1, source: 24, scope: 0, addr: []byte{a[0], a[1], a[2], 0}}
	return q
}

func c05parseWorker(i int, spec string) *c05worker {
	w := &c05worker{idx: i, spec: spec, resume: make(chan struct{}), parked: make(chan string, 1), target: -1}
	f := strings.Split(spec, ":")
	switch f[0] {
	case "q":
		w.kind = 'q'
		p := strings.Split(f[1], "/")
		if len(p) != 3 {
			return nil
		}
		t, ok := dns.StringToType[p[1]]
		if !ok || net.ParseIP(p[2]).To4() == nil {
			return nil
		}
		w.q = c05client(p[2])
		w.q.name = dns.Fqdn(p[0])
		w.q.qtype = t
	case "r":
		w.kind = 'r'
		if len(f) < 2 {
			return nil
		}
		kind := f[1]
		if strings.HasSuffix(kind, "-timeout") {
			w.timeout = true
			kind = strings.TrimSuffix(kind, "-timeout")
		}
		switch kind {
		case "full":
			if len(f) != 3 {
				return nil
			}
			p, err := strconv.Atoi(f[2])
			if err != nil || p < 0 || p >= c05NGen {
				return nil
			}
			w.target = p
		case "partial", "full-missing", "full-corrupt":
		default:
			return nil
		}
		w.class = kind
	case "p":
		w.kind = 'p'
		if len(f) != 3 {
			return nil
		}
		var e1, e2 error
		w.pPath, e1 = strconv.Atoi(f[1])
		w.pGen, e2 = strconv.Atoi(f[2])
		if e1 != nil || e2 != nil || w.pPath < 0 || w.pPath >= c05NGen || w.pGen < 0 || w.pGen >= c05NGen {
			return nil
		}
	default:
		return nil
	}
	return w
}

func c05errClass(err error) string {
	switch {
	case err == nil:
		return "ok"
	case errors.Is(err, db.ErrValidationKeyNotFound):
		return "novalidation"
	case errors.Is(err, db.ErrReloadTimeout):
		return "timeout"
	case errors.Is(err, fs.ErrNotExist):
		return "missing"
	}
	return "openerr"
}

// stamp extraction: the generation carried by one record, -1 if none
func c05rrStamp(rr dns.RR) int {
	switch r := rr.(type) {
	case *dns.A:
		ip := r.A.To4()
		if ip != nil && ip[0] == 10 {
			return int(ip[2])
		}
	case *dns.TXT:
		if len(r.Txt) == 1 && strings.HasPrefix(r.Txt[0], "gen=") {
			if g, err := strconv.Atoi(r.Txt[0][4:]); err == nil {
				return g
			}
		}
	case *dns.NS:
		if strings.HasPrefix(r.Ns, "ns") && len(r.Ns) > 2 && r.Ns[2] >= '0' && r.Ns[2] <= '9' {
			return int(r.Ns[2] - '0')
		}
	case *dns.SOA:
		return int(r.Serial) - 100
	}
	return -1
}

func c05sectionStamp(rrs []dns.RR, seen map[int]bool) string {
	set := map[int]bool{}
	for _, rr := range rrs {
		if rr.Header().Rrtype == dns.TypeOPT {
			continue
		}
		if g := c05rrStamp(rr); g >= 0 {
			set[g] = true
			seen[g] = true
		} else {
			set[-1] = true
		}
	}
	if len(set) == 0 {
		return "-"
	}
	var gs []int
	for g := range set {
		gs = append(gs, g)
	}
	sort.Ints(gs)
	var s []string
	for _, g := range gs {
		if g < 0 {
			s = append(s, "?")
		} else {
			s = append(s, strconv.Itoa(g))
		}
	}
	return strings.Join(s, "+")
}

func (w *c05worker) observe(rc int, herr error, rw *recWriter) {
	if len(rw.msgs) != 1 {
		w.out = fmt.Sprintf("noreply(rc=%d,n=%d)", rc, len(rw.msgs))
		return
	}
	m := rw.msgs[0]
	seen := map[int]bool{}
	an := c05sectionStamp(m.Answer, seen)
	ns := c05sectionStamp(m.Ns, seen)
	ar := c05sectionStamp(m.Extra, seen)
	loc := "-"
	if o := m.IsEdns0(); o != nil {
		for _, op := range o.Option {
			if e, ok := op.(*dns.EDNS0_SUBNET); ok && e.SourceScope >= 8 && int(e.SourceScope) < 8+c05NGen {
				loc = strconv.Itoa(int(e.SourceScope) - 8)
				seen[int(e.SourceScope)-8] = true
			}
		}
	}
	for g := range seen {
		w.stamps = append(w.stamps, g)
	}
	sort.Ints(w.stamps)
	w.out = fmt.Sprintf("an=%s,ns=%s,ar=%s,loc=%s,rc=%d", an, ns, ar, loc, m.Rcode)
}

// ---- one case ----------------------------------------------------------------------------------------

type c05case struct {
	backend string
	cache   bool
	workers []*c05worker
	steps   []int
}

func c05parse(line string) *c05case {
	f := strings.Split(line, " ")
	// `cdbc` / `rdbc`: the same with the response cache enabled (sequential schedules only: a cache
	// hit has fewer yield points than the model's query, which does not matter when every worker
	// runs to completion before the next one starts)
	cache := false
	if len(f) == 4 && (f[1] == "cdbc" || f[1] == "rdbc") {
		cache = true
		f[1] = f[1][:3]
	}
	if len(f) != 4 || f[0] != "sched" || (f[1] != "cdb" && f[1] != "rdb") {
		return nil
	}
	c := &c05case{backend: f[1], cache: cache}
	if f[2] != "-" {
		for i, spec := range strings.Split(f[2], ";") {
			w := c05parseWorker(i, spec)
			if w == nil {
				return nil
			}
			c.workers = append(c.workers, w)
		}
	}
	if f[3] != "-" {
		for _, s := range strings.Split(f[3], ";") {
			n, err := strconv.Atoi(s)
			if err != nil {
				return nil
			}
			c.steps = append(c.steps, n)
		}
	}
	return c
}

// c05run: a reload with an already expired timeout races the reload goroutine inside DB.Reload
// (`select` on the expired context and the goroutine's completion: when both are ready Go picks at
// random, and a CDB open can finish before the select is reached on a loaded machine). The schedule
// asks for the timeout branch; a run in which the other branch was taken is repeated.
func c05run(line string) (impl, verdict string) {
	for try := 0; try < 5; try++ {
		var lost bool
		impl, verdict, lost = c05runOnce(line)
		if !lost {
			break
		}
	}
	return impl, verdict
}

func c05runOnce(line string) (impl, verdict string, raceLost bool) {
	c := c05parse(line)
	if c == nil {
		return "bad-op", "-", false
	}
	// fresh working copies
	work := filepath.Join(c05root, "work")
	os.RemoveAll(work)
	os.MkdirAll(work, 0o755)
	need := map[int]bool{0: true}
	for _, w := range c.workers {
		if w.kind == 'r' && w.target >= 0 {
			need[w.target] = true
		}
		if w.kind == 'p' {
			need[w.pPath] = true
		}
	}
	for p := 0; p < c05NGen; p++ {
		if !need[p] {
			continue
		}
		if c.backend == "cdb" {
			c05copyFile(c05master("cdb", p), c05work("cdb", p))
		} else {
			c05copyDir(c05master("rdb", p), c05work("rdb", p))
		}
	}
	corrupt := filepath.Join(work, "corrupt")
	if c.backend == "cdb" {
		os.MkdirAll(corrupt, 0o755) // a directory where a file is expected
	} else {
		os.MkdirAll(corrupt, 0o755)
		os.WriteFile(filepath.Join(corrupt, "CURRENT"), []byte("MANIFEST-999999\n"), 0o644)
	}
	diskGen := make([]int, c05NGen)
	for p := range diskGen {
		diskGen[p] = p
	}
	driver := "cdb"
	if c.backend == "rdb" {
		driver = "rocksdb"
	}
	h, err := dnsserver.NewFBDNSDBBasic(dnsserver.HandlerConfig{},
		dnsserver.DBConfig{Path: c05work(c.backend, 0), Driver: driver, ReloadTimeout: 10 * time.Second,
			ValidationKey: c05ValidationKey},
		dnsserver.CacheConfig{Enabled: c.cache, LRUSize: 1024}, &dnsserver.DummyLogger{}, &stats.DummyStats{})
	if err != nil {
		return "handler-error", "FAIL:setup", false
	}
	if err := h.Load(); err != nil {
		return "load-error", "FAIL:setup", false
	}
	s := &c05sched{byGid: map[uint64]*c05worker{}, h: h, backend: c.backend}
	c05cur = s
	dnsserver.VerifYield = c05yield
	defer func() {
		dnsserver.VerifYield = nil
		c05cur = nil
	}()
	pathID := func(p string) int {
		for i := 0; i < c05NGen; i++ {
			if p == c05work(c.backend, i) {
				return i
			}
		}
		return -1
	}

	// start every worker and let it run to its first yield point
	stuck := ""
	for _, w := range c.workers {
		if w.kind == 'p' {
			continue
		}
		w := w
		switch w.class {
		case "full":
			w.sig = *dnsserver.NewFullReloadSignal(c05work(c.backend, w.target))
		case "full-missing":
			w.sig = *dnsserver.NewFullReloadSignal(filepath.Join(work, "missing"))
		case "full-corrupt":
			w.sig = *dnsserver.NewFullReloadSignal(corrupt)
		case "partial":
			w.sig = *dnsserver.NewPartialReloadSignal()
		}
		go func() {
			s.mu.Lock()
			s.byGid[c05gid()] = w
			s.mu.Unlock()
			defer func() {
				if r := recover(); r != nil {
					w.out = "panic"
				}
				s.mu.Lock()
				delete(s.byGid, c05gid())
				s.mu.Unlock()
				w.parked <- "done"
			}()
			if w.kind == 'q' {
				req := w.q.wireQuery()
				rw := &recWriter{remote: w.q.resolver}
				rc, err := h.ServeDNSWithRCODE(context.Background(), rw, req)
				w.observe(rc, err, rw)
			} else {
				w.out = c05errClass(h.Reload(w.sig))
			}
		}()
		select {
		case p := <-w.parked:
			w.point = p
			w.done = p == "done"
		case <-time.After(c05StepLimit):
			stuck = fmt.Sprintf("stuck:start:%d", w.idx)
		}
	}

	busy := -1
	t := 0
	enabled := func(i int) bool {
		w := c.workers[i]
		if w.done {
			return false
		}
		if busy >= 0 && busy != i && (w.point == "serve.start" || w.point == "reload.before-lock") {
			return false
		}
		return true
	}
	instGen := 0    // content of the served instance (harness bookkeeping for the oracle only)
	instPath := 0   // path of the served instance
	noopViol := ""  // failed-reload-noop violations seen on the handler itself
	pathBefore := 0 // dbConfig.Path id when the running reload took the lock
	stepWorker := func(i int) {
		w := c.workers[i]
		t++
		if w.kind == 'p' {
			if diskGen[w.pPath] != w.pGen {
				if c.backend == "cdb" {
					tmp := c05work("cdb", w.pPath) + ".new"
					c05copyFile(c05master("cdb", w.pGen), tmp)
					os.Rename(tmp, c05work("cdb", w.pPath))
				} else {
					if err := c05applyDiff(c05work("rdb", w.pPath), diskGen[w.pPath], w.pGen); err != nil {
						w.out = "perr"
					}
				}
				diskGen[w.pPath] = w.pGen
			}
			if w.out == "" {
				w.out = "p"
			}
			w.done = true
			return
		}
		from := w.point
		if w.kind == 'r' && from == "reload.locked" {
			// the step that opens / catches up: bookkeeping for the oracle
			w.effT = t
			pathBefore = pathID(h.DBPathForVerif())
			tp := w.target
			if w.class == "partial" {
				tp = pathBefore
			}
			if tp >= 0 {
				w.target = tp
				w.instGen = diskGen[tp]
				w.sameInst = c.backend == "rdb" && tp == instPath
				w.changed = w.sameInst && diskGen[tp] != instGen
			}
		}
		w.resume <- struct{}{}
		select {
		case p := <-w.parked:
			w.point = p
			w.done = p == "done"
		case <-time.After(c05StepLimit):
			stuck = fmt.Sprintf("stuck:%d@%s", i, from)
			w.done = true
			return
		}
		if w.kind == 'q' {
			if from == "serve.start" {
				w.acqT = t
			}
			if w.done {
				w.finT = t
			}
		} else {
			if from == "reload.before-lock" {
				busy = i
			}
			if from == "reload.locked" {
				if w.timeout && w.sameInst {
					// the abandoned goroutine is still inside CatchWithPrimary on the served instance
					time.Sleep(300 * time.Millisecond)
				}
			}
			if w.done {
				busy = -1
				w.finTR = t
				if w.out == "ok" {
					instGen, instPath = w.instGen, w.target
				} else {
					if w.sameInst && (w.out == "novalidation" || w.out == "timeout") {
						instGen = w.instGen // the catch-up has happened all the same
					}
					if pathID(h.DBPathForVerif()) != pathBefore {
						noopViol = fmt.Sprintf("path-changed-by-failed-reload:%d", i)
					}
				}
			}
		}
	}
	if stuck == "" {
		for _, i := range c.steps {
			if i < 0 || i >= len(c.workers) || !enabled(i) {
				continue
			}
			stepWorker(i)
			if stuck != "" {
				break
			}
		}
	}
	for stuck == "" {
		next := -1
		for i := range c.workers {
			if enabled(i) {
				next = i
				break
			}
		}
		if next < 0 {
			break
		}
		stepWorker(next)
	}
	finalPath := pathID(h.DBPathForVerif())
	if stuck != "" {
		// cannot clean up reliably: leave the handler to the process exit
		return stuck, "FAIL:stuck", false
	}
	h.Close()
	c05cleanLogs()

	var outs []string
	for _, w := range c.workers {
		outs = append(outs, fmt.Sprintf("%c%d:%s", w.kind, w.idx, w.out))
	}
	outs = append(outs, fmt.Sprintf("path=%d", finalPath))
	impl = strings.Join(outs, ";")
	if impl == "" {
		impl = "-"
	}
	for _, w := range c.workers {
		if w.kind == 'r' && w.timeout && w.out == "ok" {
			raceLost = true
		}
	}
	return impl, c05oracle(c, noopViol), raceLost
}

// c05applyDiff brings the RocksDB primary at dir from generation a to generation b.
func c05applyDiff(dir string, a, b int) error {
	la, lb := c05lines(a), c05lines(b)
	ina, inb := map[string]bool{}, map[string]bool{}
	for _, l := range la {
		ina[l] = true
	}
	for _, l := range lb {
		inb[l] = true
	}
	var d []string
	for _, l := range la {
		if !inb[l] {
			d = append(d, "-"+l)
		}
	}
	for _, l := range lb {
		if !ina[l] {
			d = append(d, "+"+l)
		}
	}
	f, err := os.CreateTemp("", "c05diff")
	if err != nil {
		return err
	}
	f.WriteString(strings.Join(d, "\n") + "\n")
	f.Close()
	defer os.Remove(f.Name())
	return rdb.ApplyDiff(f.Name(), dir)
}

// ---- property oracle on the observed stamps ------------------------------------------------------------

func c05oracle(c *c05case, noopViol string) string {
	if noopViol != "" {
		return "FAIL:" + noopViol
	}
	// forward-moving operator? (otherwise ordering statements do not apply)
	forward := true
	type ev struct {
		t    int
		w    *c05worker
		kind byte
	}
	var reloads []*c05worker
	for _, w := range c.workers {
		if w.kind == 'r' && w.effT > 0 {
			reloads = append(reloads, w)
		}
	}
	sort.Slice(reloads, func(i, j int) bool { return reloads[i].effT < reloads[j].effT })
	served := 0
	for _, r := range reloads {
		if r.out == "ok" || (r.sameInst && (r.out == "novalidation" || r.out == "timeout")) {
			if r.instGen < served {
				forward = false
			}
			served = r.instGen
		}
	}
	// publishes lowering a generation: recomputed from the schedule order is not available here,
	// so be conservative: any publish of a generation below the path's initial one counts
	for _, w := range c.workers {
		if w.kind == 'p' && w.pGen < w.pPath {
			forward = false
		}
	}
	var qs []*c05worker
	for _, w := range c.workers {
		if w.kind == 'q' && w.acqT > 0 {
			qs = append(qs, w)
		}
	}
	// every response from one generation
	for _, q := range qs {
		if strings.Contains(q.out, "+") || strings.Contains(q.out, "?") {
			return fmt.Sprintf("FAIL:section-mixed:q%d", q.idx)
		}
		if len(q.stamps) > 1 {
			// narrow predicate of the known finding: RocksDB, a reload whose target is the path of
			// the served instance (CatchWithPrimary in place), with different content on disk, ran
			// between this query's AcquireReader and its last read
			for _, r := range reloads {
				if r.sameInst && r.changed && r.effT > q.acqT && r.effT < q.finT &&
					(r.out == "ok" || r.out == "novalidation" || r.out == "timeout") {
					return fmt.Sprintf("FAIL:mixed-generation(known:rdb-same-path-catchup):q%d", q.idx)
				}
			}
			return fmt.Sprintf("FAIL:mixed-generation:q%d", q.idx)
		}
	}
	// a failing reload that was a same-path catch-up has advanced the content (second known finding)
	for _, r := range reloads {
		if r.sameInst && r.changed && (r.out == "novalidation" || r.out == "timeout") {
			return fmt.Sprintf("FAIL:failed-reload-not-noop(known:rdb-same-path-catchup):r%d", r.idx)
		}
	}
	if !forward {
		return "ok"
	}
	// visibility: a query that starts after a successful reload has returned sees ≥ its generation
	for _, r := range reloads {
		if r.out != "ok" {
			continue
		}
		for _, q := range qs {
			if q.acqT > r.finTR {
				for _, g := range q.stamps {
					if g < r.instGen {
						return fmt.Sprintf("FAIL:visibility:q%d-after-r%d", q.idx, r.idx)
					}
				}
			}
		}
	}
	// monotone for a sequential client
	for _, a := range qs {
		for _, b := range qs {
			if a.finT > 0 && b.acqT > a.finT && len(a.stamps) > 0 && len(b.stamps) > 0 &&
				a.stamps[len(a.stamps)-1] > b.stamps[0] {
				return fmt.Sprintf("FAIL:backwards:q%d-then-q%d", a.idx, b.idx)
			}
		}
	}
	return "ok"
}

// ---- generator -----------------------------------------------------------------------------------------

// c05sim is a light replay used only to generate valid schedules and to keep the known-finding
// class out of the generated cases. It is not an oracle.
type c05sim struct {
	backend  string
	kinds    []string
	phase    []int
	done     []bool
	busy     int
	disk     []int
	path     int
	instPath int
	instGen  int
	inflight map[int]bool // queries holding the served instance
	qinst    []int        // instance serial per query
	inst     int
	rOK      []bool
	known    bool
}

func c05newSim(backend string, workers []string) *c05sim {
	s := &c05sim{backend: backend, kinds: workers, phase: make([]int, len(workers)), done: make([]bool, len(workers)),
		busy: -1, disk: []int{0, 1, 2, 3, 4}, inflight: map[int]bool{}, qinst: make([]int, len(workers)), rOK: make([]bool, len(workers))}
	return s
}

func (s *c05sim) enabled(i int) bool {
	if s.done[i] {
		return false
	}
	if s.busy >= 0 && s.busy != i && s.phase[i] == 0 && s.kinds[i][0] != 'p' {
		return false
	}
	return true
}

func (s *c05sim) step(i int) {
	k := s.kinds[i]
	switch k[0] {
	case 'p':
		f := strings.Split(k, ":")
		p, _ := strconv.Atoi(f[1])
		g, _ := strconv.Atoi(f[2])
		s.disk[p] = g
		s.done[i] = true
	case 'q':
		if s.phase[i] == 0 {
			s.qinst[i] = s.inst
			s.inflight[i] = true
		}
		s.phase[i]++
		if s.phase[i] == 7 {
			s.done[i] = true
			delete(s.inflight, i)
		}
	case 'r':
		switch s.phase[i] {
		case 0:
			s.busy = i
		case 1:
			f := strings.Split(k, ":")
			kind := f[1]
			timeout := strings.HasSuffix(kind, "-timeout")
			kind = strings.TrimSuffix(kind, "-timeout")
			tp := -1
			switch kind {
			case "full":
				tp, _ = strconv.Atoi(f[2])
			case "partial":
				tp = s.path
			}
			if tp >= 0 {
				same := s.backend == "rdb" && tp == s.instPath
				bad := s.disk[tp] == c05BadGen
				if same {
					if s.disk[tp] != s.instGen {
						for q := range s.inflight {
							if s.qinst[q] == s.inst && s.phase[q] >= 1 {
								s.known = true
							}
						}
						if bad || timeout {
							s.known = true
						}
					}
					s.instGen = s.disk[tp]
					if !bad && !timeout {
						s.rOK[i] = true
						s.path = tp
					}
				} else if !bad && !timeout {
					s.rOK[i] = true
					s.inst++
					s.instPath, s.instGen, s.path = tp, s.disk[tp], tp
				}
			}
		}
		s.phase[i]++
		if (s.rOK[i] && s.phase[i] == 5) || (!s.rOK[i] && s.phase[i] == 3) {
			s.done[i] = true
			s.busy = -1
		}
	}
}

var c05queries = []string{"q:www.ex.com/A/10.1.2.3", "q:www.ex.com/A/192.0.2.1", "q:www.ex.com/TXT/10.1.2.3",
	"q:ex.com/NS/10.1.2.3", "q:nx.ex.com/A/10.1.2.3", "q:a.sub.ex.com/A/10.1.2.3"}

// randomSchedule picks enabled workers at random until everything has finished.
func (g *gen) c05schedule(backend string, workers []string, allowKnown bool) (string, bool) {
	s := c05newSim(backend, workers)
	var steps []string
	for {
		var en []int
		for i := range workers {
			if s.enabled(i) {
				en = append(en, i)
			}
		}
		if len(en) == 0 {
			break
		}
		i := en[g.intn(len(en))]
		// queries tend to run a few steps in a row
		n := 1
		if workers[i][0] == 'q' && g.bool() {
			n = 1 + g.intn(3)
		}
		for ; n > 0 && s.enabled(i); n-- {
			s.step(i)
			steps = append(steps, strconv.Itoa(i))
		}
	}
	if s.known && !allowKnown {
		return "", false
	}
	return strings.Join(steps, ";"), true
}

// exhaustive interleavings of complete runs (CDB): every order of the workers' steps
func c05exhaustive(backend string, workers []string, emit func(steps string), limit int) int {
	n := 0
	var rec func(s *c05sim, steps []string)
	clone := func(s *c05sim) *c05sim {
		c := *s
		c.phase = append([]int(nil), s.phase...)
		c.done = append([]bool(nil), s.done...)
		c.disk = append([]int(nil), s.disk...)
		c.qinst = append([]int(nil), s.qinst...)
		c.rOK = append([]bool(nil), s.rOK...)
		c.inflight = map[int]bool{}
		for k, v := range s.inflight {
			c.inflight[k] = v
		}
		return &c
	}
	rec = func(s *c05sim, steps []string) {
		if limit > 0 && n >= limit {
			return
		}
		any := false
		for i := range workers {
			if s.enabled(i) {
				any = true
				c := clone(s)
				c.step(i)
				rec(c, append(append([]string(nil), steps...), strconv.Itoa(i)))
			}
		}
		if !any {
			if !s.known {
				emit(strings.Join(steps, ";"))
				n++
			}
		}
	}
	rec(c05newSim(backend, workers), nil)
	return n
}

func (g *gen) c05reload(backend string) string {
	switch g.intn(12) {
	case 0:
		return "r:full-missing"
	case 1:
		return "r:full-corrupt"
	case 2:
		return fmt.Sprintf("r:full-timeout:%d", g.intn(c05NGen))
	case 3:
		if backend == "cdb" {
			return "r:partial-timeout"
		}
		return "r:partial"
	case 4, 5, 6:
		return "r:partial"
	}
	return fmt.Sprintf("r:full:%d", g.intn(c05NGen))
}

func c05gen(g *gen, tier string, w *bufio.Writer) {
	if tier == "witness" {
		for _, l := range c05witnesses {
			fmt.Fprintln(w, l)
		}
		return
	}
	thorough := tier == "thorough"
	// 1. exhaustive interleavings, 1 query × 1 reload (+ a publish before), CDB
	ex := [][]string{
		{"q:www.ex.com/A/10.1.2.3", "r:full:2"},
		{"q:ex.com/NS/10.1.2.3", "p:0:1", "r:partial"},
		{"q:a.sub.ex.com/A/10.1.2.3", "r:full-missing"},
		{"q:nx.ex.com/A/10.1.2.3", "p:0:4", "r:partial"},
	}
	for _, ws := range ex {
		lim := 40
		if thorough {
			lim = 0
		}
		// a bounded random subset in the quick tier: exhaustive enumeration, keep every k-th
		var all []string
		c05exhaustive("cdb", ws, func(s string) { all = append(all, s) }, 0)
		stride := 1
		if lim > 0 && len(all) > lim {
			stride = len(all) / lim
		}
		off := g.intn(stride)
		for i := off; i < len(all); i += stride {
			fmt.Fprintf(w, "sched cdb %s %s\n", strings.Join(ws, ";"), all[i])
		}
	}
	// 2. two queries × two reloads on CDB: random complete interleavings
	n2 := 250
	nr := map[string]int{"cdb": 500, "rdb": 250}
	if thorough {
		n2 = 5000
		nr = map[string]int{"cdb": 10000, "rdb": 4000}
	}
	for i := 0; i < n2; i++ {
		ws := []string{g.pick(c05queries), g.pick(c05queries), g.c05reload("cdb"), g.c05reload("cdb")}
		if g.bool() {
			ws = append(ws, fmt.Sprintf("p:%d:%d", g.intn(2), 1+g.intn(4)))
		}
		if s, ok := g.c05schedule("cdb", ws, false); ok {
			fmt.Fprintf(w, "sched cdb %s %s\n", strings.Join(ws, ";"), s)
		}
	}
	// 2b. response cache on, sequential: queries (repeated names, so that cache hits occur), publishes
	// and reloads one after the other; every query must be answered from the generation installed by
	// the last successful reload (a catch-up reload that leaves the cache alone is visible here)
	nc := 60
	if thorough {
		nc = 1500
	}
	for i := 0; i < nc; i++ {
		b := "cdb"
		if i%2 == 1 {
			b = "rdb"
		}
		var ws []string
		qn := g.pick(c05queries)
		for k, n := 0, 4+g.intn(8); k < n; k++ {
			switch g.intn(6) {
			case 0, 1, 2:
				if g.chance(1, 3) {
					qn = g.pick(c05queries)
				}
				ws = append(ws, qn)
			case 3:
				ws = append(ws, fmt.Sprintf("p:%d:%d", g.intn(2), 1+g.intn(3)))
			default:
				r := g.c05reload(b)
				if strings.Contains(r, "timeout") {
					r = "r:partial"
				}
				ws = append(ws, r)
			}
		}
		var steps []string
		for wi := range ws {
			for k := 0; k < 14; k++ {
				steps = append(steps, strconv.Itoa(wi))
			}
		}
		sim := c05newSim(b, ws)
		ok := true
		for wi := range ws {
			for k := 0; k < 14 && sim.enabled(wi); k++ {
				sim.step(wi)
			}
			if sim.enabled(wi) || sim.known {
				ok = false
			}
		}
		if ok {
			fmt.Fprintf(w, "sched %sc %s %s\n", b, strings.Join(ws, ";"), strings.Join(steps, ";"))
		}
	}
	// 3. random schedules, up to 4 queries × 3 reloads × publishes, both backends
	for _, b := range []string{"cdb", "rdb"} {
		for i := 0; i < nr[b]; i++ {
			var ws []string
			for k, nq := 0, 1+g.intn(4); k < nq; k++ {
				ws = append(ws, g.pick(c05queries))
			}
			for k, n := 0, 1+g.intn(3); k < n; k++ {
				ws = append(ws, g.c05reload(b))
			}
			for k, n := 0, g.intn(4); k < n; k++ {
				p := g.intn(c05NGen)
				if g.chance(2, 3) {
					p = g.intn(2)
				}
				ws = append(ws, fmt.Sprintf("p:%d:%d", p, g.intn(c05NGen)))
			}
			g.shuffle(ws)
			for try := 0; try < 20; try++ {
				if s, ok := g.c05schedule(b, ws, true); ok {
					fmt.Fprintf(w, "sched %s %s %s\n", b, strings.Join(ws, ";"), s)
					break
				}
			}
		}
	}
}

// witnesses of the two known findings (not generated in the normal tiers)
var c05witnesses = []string{
	// query parked after FindLocation, content published at the served path, a partial reload catches
	// the served RocksDB instance up, the query continues: ECS scope from 0, answer from 1
	"sched rdb q:www.ex.com/A/10.1.2.3;p:0:1;r:partial 0;0;1;2;2;2;2;2;0;0;0;0;0",
	// NS from 0 (fetched with the zone cut), glue in the additional section from 1
	"sched rdb q:ex.com/NS/10.1.2.3;p:0:1;r:partial 0;0;0;0;1;2;2;2;2;2;0;0;0",
	// delegation: NS of the child from 0, glue from 1; the reload is a FULL reload naming the served path
	"sched rdb q:a.sub.ex.com/A/10.1.2.3;p:0:1;r:full:0 0;0;0;0;1;2;2;2;2;2;0;0;0",
	// partial reload fails (validation key missing in generation 4) but the server now serves 4
	"sched rdb p:0:4;r:partial;q:www.ex.com/TXT/10.1.2.3 0;1;1;1;2;2;2;2;2;2;2",
	// partial reload times out; the abandoned goroutine completes the catch-up: the server serves 1
	"sched rdb p:0:1;r:partial-timeout;q:www.ex.com/TXT/10.1.2.3 0;1;1;1;2;2;2;2;2;2;2",
	// the same two on CDB are no-ops (for comparison; they pass)
	"sched cdb p:0:4;r:partial;q:www.ex.com/TXT/10.1.2.3 0;1;1;1;2;2;2;2;2;2;2",
	"sched cdb p:0:1;r:partial-timeout;q:www.ex.com/TXT/10.1.2.3 0;1;1;1;2;2;2;2;2;2;2",
}
