package main

// C20 — transport and plugin chain do not alter answers.
//
// op: chain <whoami-domain hex|-> <refuseANY 0|1> <backend> <data lines hex;…> <query tokens;…>
//
// One line = one database + one running fbserver.Server with four listeners
// (127.0.0.1 … 127.0.0.4 ⇒ max answer 1 … 4, UDP and TCP, one free port picked by listening first).
// Query tokens:
//   q.<name hex>.<qtype>.<qclass>.<maxAns>.<u|t>.<edns buffer, 0 = no OPT>
//   z.<maxAns>.<u|t>.<qdcount>.<opcode>.<qr>          header-only packet (12 bytes) built by hand
// Output per token (joined by `~`):
//   q: net=<canon of the network reply>&bare=<canon of FBDNSDB.ServeDNS in process, same writer
//      addresses / transport / OPT / max answer>&who=<pass | canon of whoami.Handler alone>&fit=<0|1>
//   z: z=<canon | noreply>&next=<ok | FAIL…>          next: a normal query on the same listener
// The Lean driver recomputes `net` from `bare`/`who` with the chain model.

import (
	"bufio"
	"context"
	"crypto/tls"
	"encoding/binary"
	"fmt"
	"io"
	"net"
	"sort"
	"strconv"
	"strings"
	"time"

	"github.com/coredns/coredns/plugin"
	"github.com/facebookincubator/dns/dnsrocks/dnsserver"
	"github.com/facebookincubator/dns/dnsrocks/dnsserver/stats"
	"github.com/facebookincubator/dns/dnsrocks/fbserver"
	"github.com/facebookincubator/dns/dnsrocks/metrics"
	"github.com/facebookincubator/dns/dnsrocks/whoami"
	"github.com/miekg/dns"
)

func init() {
	props["C20"] = &prop{gen: c20gen, run: c20run}
}

// ---- generator ---------------------------------------------------------------------------------

func c20lines(g *gen) []string {
	ttl := g.pick([]string{"300", "60", "3600"})
	ls := []string{
		"Zex.com,ns1.ex.com,hostmaster.ex.com,2024010101,,,,300," + ttl,
		"&ex.com,192.0.2.1,ns1.ex.com," + ttl,
		"+one.ex.com," + g.ip4() + "," + ttl,
		"Calias.ex.com,one.ex.com," + ttl,
		"'txt.ex.com,hello\\040world," + ttl,
		"@ex.com,192.0.2.30,mx1.ex.com,10," + ttl,
		"&sub.ex.com,192.0.2.53,ns1.sub.ex.com," + ttl,
		"+*.wild.ex.com," + g.ip4() + "," + ttl,
		"+v6.ex.com,2001:db8::" + fmt.Sprintf("%x", 1+g.intn(60000)) + "," + ttl,
	}
	for i := 0; i < 4; i++ {
		ls = append(ls, fmt.Sprintf("+four.ex.com,192.0.2.%d,%s", 21+i, ttl))
	}
	nbig := 8 + g.intn(4)   // > 1500 bytes, < 4096
	nhuge := 24 + g.intn(6) // > 4096 bytes
	for i := 0; i < nbig; i++ {
		ls = append(ls, fmt.Sprintf("'big.ex.com,b%02d-%s,%s", i, strings.Repeat("x", 196), ttl))
	}
	for i := 0; i < nhuge; i++ {
		ls = append(ls, fmt.Sprintf("'huge.ex.com,h%02d-%s,%s", i, strings.Repeat("y", 196), ttl))
	}
	if g.bool() {
		ls = append(ls, "Zexample.net,ns1.example.net,hostmaster.example.net,7,,,,60,60", "&example.net,,ns.elsewhere.org,60", "+www.example.net,198.51.100.9,60")
	}
	g.shuffle(ls)
	return ls
}

func c20gen(g *gen, tier string, w *bufio.Writer) {
	n, nq := 40, 36
	if tier == "thorough" {
		n, nq = 400, 60
	}
	whos := []string{"", "whoami.ex.com", "WhoAmI.Ex.Com.", "one.ex.com", "who.other.org.", "big.ex.com"}
	for i := 0; i < n; i++ {
		who := whos[i%len(whos)]
		refuse := (i/len(whos))%2 == 1
		if i >= 2*len(whos) {
			who, refuse = g.pick(whos), g.bool()
		}
		// the chain does not depend on the storage; RocksDB compilation costs 1–2 s a line
		backend := "cdb"
		if g.chance(1, 7) {
			backend = g.pick([]string{"v2", "v1"})
		}
		lines := c20lines(g)
		names := []string{"ex.com.", "one.ex.com.", "four.ex.com.", "big.ex.com.", "huge.ex.com.", "alias.ex.com.",
			"sub.ex.com.", "www.sub.ex.com.", "nx.ex.com.", "txt.ex.com.", "other.org.", ".", "x.wild.ex.com.", "v6.ex.com.",
			"www.example.net.", "ONE.ex.COM."}
		if who != "" {
			d := strings.ToLower(dns.Fqdn(who))
			names = append(names, d, d, strings.ToUpper(d), flipCase(d, g), "a."+d, d[1:], d[:len(d)-2]+".", "x"+d)
		}
		bufs := []int{0, 512, 1232, 4096}
		var toks []string
		add := func(name string, qt uint16, qc uint16, ma int, proto string, buf int) {
			toks = append(toks, fmt.Sprintf("q.%s.%d.%d.%d.%s.%d", hexTok([]byte(name)), qt, qc, ma, proto, buf))
		}
		// fixed coverage: ANY, oversize over every transport variant, max answer 1…4, no-question packets
		add(g.pick(names), dns.TypeANY, 1, 1+g.intn(4), "u", c20pickInt(g, bufs))
		add("big.ex.com.", dns.TypeANY, 1, 1+g.intn(4), "t", 0)
		for _, b := range bufs {
			add(g.pick([]string{"big.ex.com.", "huge.ex.com."}), dns.TypeTXT, 1, 1+g.intn(4), "u", b)
		}
		add("huge.ex.com.", dns.TypeTXT, 1, 1+g.intn(4), "t", c20pickInt(g, bufs))
		for ma := 1; ma <= 4; ma++ {
			add("four.ex.com.", dns.TypeA, 1, ma, g.pick([]string{"u", "t"}), c20pickInt(g, bufs))
		}
		if who != "" {
			d := strings.ToLower(dns.Fqdn(who))
			add(d, dns.TypeTXT, 1, 1+g.intn(4), "u", c20pickInt(g, bufs))
			add(flipCase(d, g), dns.TypeTXT, 1, 1+g.intn(4), "t", c20pickInt(g, bufs))
			add(d, dns.TypeANY, 1, 1+g.intn(4), "u", 0)
		}
		toks = append(toks, fmt.Sprintf("z.%d.u.0.0.0", 1+g.intn(4)), fmt.Sprintf("z.%d.t.0.0.0", 1+g.intn(4)))
		// QDCOUNT = 1 but the packet ends after the header: miekg unpacks it as a message without
		// question and hands it to the handler (the serveMux guard)
		toks = append(toks, fmt.Sprintf("z.%d.%s.1.0.0", 1+g.intn(4), g.pick([]string{"u", "t"})))
		if g.chance(1, 3) {
			toks = append(toks, fmt.Sprintf("z.%d.%s.%d.%d.%d", 1+g.intn(4), g.pick([]string{"u", "t"}),
				[]int{0, 2, 0, 1}[g.intn(4)], []int{0, 4, 5, 2}[g.intn(4)], []int{0, 0, 0, 1}[g.intn(4)]))
		}
		for len(toks) < nq {
			qt := []uint16{1, 1, 28, 16, 255, 2, 6, 5, 15, 13, 4242}[g.intn(11)]
			qc := uint16(1)
			if g.chance(1, 12) {
				qc = []uint16{3, 255}[g.intn(2)]
			}
			add(g.pick(names), qt, qc, 1+g.intn(4), g.pick([]string{"u", "u", "t"}), c20pickInt(g, bufs))
		}
		g.shuffle(toks)
		var ls []string
		for _, l := range lines {
			ls = append(ls, hexTok([]byte(l)))
		}
		r := 0
		if refuse {
			r = 1
		}
		fmt.Fprintf(w, "chain %s %d %s %s %s\n", hexTok([]byte(who)), r, backend, strings.Join(ls, ";"), strings.Join(toks, ";"))
	}
}

func c20pickInt(g *gen, xs []int) int { return xs[g.intn(len(xs))] }

// ---- canonical rendering -----------------------------------------------------------------------

func c20opt(m *dns.Msg) string {
	o := m.IsEdns0()
	if o == nil {
		return "none"
	}
	var parts []string
	for _, op := range o.Option {
		parts = append(parts, fmt.Sprintf("c%d", op.Option()))
	}
	sort.Strings(parts)
	do := 0
	if o.Do() {
		do = 1
	}
	return fmt.Sprintf("%d:%d:%d:%s", o.UDPSize(), do, o.Version(), strings.Join(parts, "+"))
}

func b2i(b bool) int {
	if b {
		return 1
	}
	return 0
}

// c20canon: rcode, AA, TC, id/QR check, question echo, sections as sorted RR lists, OPT.
func c20canon(m *dns.Msg, id uint16, question []dns.Question, hide bool) string {
	q := "same"
	if len(m.Question) != len(question) || (len(question) > 0 && m.Question[0] != question[0]) || len(m.Question) > 1 {
		q = strconv.Itoa(len(m.Question))
	}
	idok := "ok"
	if m.Id != id || !m.Response {
		idok = "BAD"
	}
	an := sectionCanon(m.Answer, false)
	if hide {
		an = stripAddrs(an)
	}
	return fmt.Sprintf("rc=%d,aa=%d,tc=%d,id=%s,q=%s,an=%s,ns=%s,ar=%s,opt=%s", m.Rcode, b2i(m.Authoritative), b2i(m.Truncated),
		idok, q, an, sectionCanon(m.Ns, false), sectionCanon(m.Extra, true), c20opt(m))
}

// ---- in-process side ---------------------------------------------------------------------------

type c20Writer struct {
	local, remote net.Addr
	msgs          []*dns.Msg
}

func (w *c20Writer) LocalAddr() net.Addr       { return w.local }
func (w *c20Writer) RemoteAddr() net.Addr      { return w.remote }
func (w *c20Writer) WriteMsg(m *dns.Msg) error { w.msgs = append(w.msgs, m.Copy()); return nil }
func (w *c20Writer) Write(b []byte) (int, error) {
	m := new(dns.Msg)
	if err := m.Unpack(b); err == nil {
		w.msgs = append(w.msgs, m)
	}
	return len(b), nil
}
func (w *c20Writer) Close() error        { return nil }
func (w *c20Writer) TsigStatus() error   { return nil }
func (w *c20Writer) TsigTimersOnly(bool) {}
func (w *c20Writer) Hijack()             {}

// dns.ConnectionStater (whoami asks a TCP writer for its TLS state): plain TCP
func (w *c20Writer) ConnectionState() *tls.ConnectionState { return nil }

type c20Pass struct{ hit bool }

func (p *c20Pass) ServeDNS(ctx context.Context, w dns.ResponseWriter, r *dns.Msg) (int, error) {
	p.hit = true
	return 0, nil
}
func (p *c20Pass) Name() string { return "pass" }

var _ plugin.Handler = (*c20Pass)(nil)

type c20Metrics struct{}

func (c20Metrics) ConsumeStats(string, *metrics.Stats) error { return nil }

func c20inproc(f func(w *c20Writer, r *dns.Msg), local, remote net.Addr, wire []byte) (m *dns.Msg, status string) {
	r := new(dns.Msg)
	if err := r.Unpack(wire); err != nil {
		return nil, "invalid-query"
	}
	w := &c20Writer{local: local, remote: remote}
	defer func() {
		if e := recover(); e != nil {
			m, status = nil, "panic"
		}
	}()
	f(w, r)
	switch len(w.msgs) {
	case 0:
		return nil, "noreply"
	case 1:
		// what a client sees is the packed form
		b, err := w.msgs[0].Pack()
		if err != nil {
			return nil, "packerr"
		}
		out := new(dns.Msg)
		if err := out.Unpack(b); err != nil {
			return nil, "unpackerr"
		}
		return out, ""
	}
	return nil, "multireply"
}

// ---- server ------------------------------------------------------------------------------------

var c20ips = []string{"127.0.0.1", "127.0.0.2", "127.0.0.3", "127.0.0.4"}

// c20freePort finds a port that is free for UDP and TCP on all four loopback addresses.
func c20freePort() int {
	for try := 0; try < 50; try++ {
		pc, err := net.ListenPacket("udp", "127.0.0.1:0")
		if err != nil {
			continue
		}
		port := pc.LocalAddr().(*net.UDPAddr).Port
		closers := []io.Closer{pc}
		ok := true
		for i, ip := range c20ips {
			addr := net.JoinHostPort(ip, strconv.Itoa(port))
			if i > 0 {
				if c, err := net.ListenPacket("udp", addr); err == nil {
					closers = append(closers, c)
				} else {
					ok = false
				}
			}
			if l, err := net.Listen("tcp", addr); err == nil {
				closers = append(closers, l)
			} else {
				ok = false
			}
		}
		for _, c := range closers {
			c.Close()
		}
		if ok {
			return port
		}
	}
	panic("no free port")
}

func c20start(whoDomain string, refuse bool, driver, path string) (*fbserver.Server, int) {
	for try := 0; try < 5; try++ {
		port := c20freePort()
		conf := fbserver.NewServerConfig()
		for i, ip := range c20ips {
			conf.IPAns[ip] = i + 1
		}
		conf.Port = port
		conf.TCP = true
		conf.MaxTCPQueries = -1
		conf.WhoamiDomain = whoDomain
		conf.RefuseANY = refuse
		conf.DBConfig = dnsserver.DBConfig{Path: path, Driver: driver, ReloadTimeout: 10 * time.Second}
		srv := fbserver.NewServer(conf, &dnsserver.DummyLogger{}, &stats.DummyStats{}, c20Metrics{})
		up := make(chan struct{}, 64)
		srv.NotifyStartedFunc = func() { up <- struct{}{} }
		if err := srv.Start(); err != nil {
			srv.Shutdown()
			continue
		}
		ok := true
		for i := 0; i < 2*len(c20ips); i++ {
			select {
			case <-up:
			case <-time.After(5 * time.Second):
				ok = false
			}
		}
		if ok {
			return srv, port
		}
		srv.Shutdown()
	}
	panic("server did not start")
}

// ---- client ------------------------------------------------------------------------------------

func c20dial(proto string, addr string) (net.Conn, error) {
	network := "udp"
	if proto == "t" {
		network = "tcp"
	}
	return net.DialTimeout(network, addr, 2*time.Second)
}

// c20exchange writes raw wire bytes and reads one raw reply (nil = none within the timeout).
func c20exchange(conn net.Conn, proto string, wire []byte, timeout time.Duration) []byte {
	conn.SetDeadline(time.Now().Add(timeout))
	if proto == "t" {
		buf := make([]byte, 2+len(wire))
		binary.BigEndian.PutUint16(buf, uint16(len(wire)))
		copy(buf[2:], wire)
		if _, err := conn.Write(buf); err != nil {
			return nil
		}
		var l [2]byte
		if _, err := io.ReadFull(conn, l[:]); err != nil {
			return nil
		}
		out := make([]byte, binary.BigEndian.Uint16(l[:]))
		if _, err := io.ReadFull(conn, out); err != nil {
			return nil
		}
		return out
	}
	if _, err := conn.Write(wire); err != nil {
		return nil
	}
	out := make([]byte, 65535)
	n, err := conn.Read(out)
	if err != nil {
		return nil
	}
	return out[:n]
}

// c20extraReply waits briefly for another message on the connection.
func c20extraReply(conn net.Conn, proto string) bool {
	conn.SetDeadline(time.Now().Add(20 * time.Millisecond))
	if proto == "t" {
		var l [2]byte
		_, err := io.ReadFull(conn, l[:])
		return err == nil
	}
	buf := make([]byte, 512)
	n, err := conn.Read(buf)
	return err == nil && n > 0
}

func c20query(id uint16, name string, qt, qc uint16, buf int) []byte {
	m := new(dns.Msg)
	m.Id = id
	m.RecursionDesired = true
	m.Question = []dns.Question{{Name: name, Qtype: qt, Qclass: qc}}
	if buf > 0 {
		o := new(dns.OPT)
		o.Hdr.Name = "."
		o.Hdr.Rrtype = dns.TypeOPT
		o.SetUDPSize(uint16(buf))
		m.Extra = append(m.Extra, o)
	}
	b, err := m.Pack()
	if err != nil {
		return nil
	}
	return b
}

func c20addrCount(m *dns.Msg) int {
	n := 0
	for _, rr := range m.Answer {
		if t := rr.Header().Rrtype; t == dns.TypeA || t == dns.TypeAAAA {
			n++
		}
	}
	return n
}

func c20run(line string) (string, string) {
	f := strings.Fields(line)
	if f[0] != "chain" || len(f) != 6 {
		return "bad-op", "-"
	}
	whoDomain := string(unhexTok(f[1]))
	refuse := f[2] == "1"
	backend := f[3]
	var lines []string
	for _, h := range strings.Split(f[4], ";") {
		lines = append(lines, string(unhexTok(h)))
	}
	toks := strings.Split(f[5], ";")

	handlers, errs, dir := compileAll(lines, &stats.DummyStats{}, &dnsserver.DummyLogger{}, dnsserver.CacheConfig{}, []string{backend})
	defer closeAll(handlers, dir)
	if e, bad := errs[backend]; bad {
		return "compile:" + e, "FAIL:compile"
	}
	setSeparateBitmap(backend)
	h := handlers[backend].h
	driver := "rocksdb"
	if backend == "cdb" {
		driver = "cdb"
	}
	srv, port := c20start(whoDomain, refuse, driver, handlers[backend].dir)
	defer srv.Shutdown()

	var who *whoami.Handler
	pass := &c20Pass{}
	if whoDomain != "" {
		who, _ = whoami.NewWhoami(whoDomain)
		who.Next = pass
	}

	verdict := "ok"
	fail := func(i int, why string) {
		if verdict == "ok" {
			verdict = fmt.Sprintf("FAIL:%s@%d", why, i)
		}
	}
	var outs []string
	for i, tok := range toks {
		p := strings.Split(tok, ".")
		switch p[0] {
		case "q":
			if len(p) != 7 {
				outs = append(outs, "bad-token")
				continue
			}
			name := string(unhexTok(p[1]))
			qt, _ := strconv.Atoi(p[2])
			qc, _ := strconv.Atoi(p[3])
			ma, _ := strconv.Atoi(p[4])
			proto := p[5]
			buf, _ := strconv.Atoi(p[6])
			if ma < 1 || ma > len(c20ips) {
				outs = append(outs, "bad-token")
				continue
			}
			id := uint16(1000 + i)
			wire := c20query(id, name, uint16(qt), uint16(qc), buf)
			if wire == nil {
				outs = append(outs, "invalid-query")
				continue
			}
			req := new(dns.Msg)
			if err := req.Unpack(wire); err != nil {
				outs = append(outs, "invalid-query")
				continue
			}
			addr := net.JoinHostPort(c20ips[ma-1], strconv.Itoa(port))
			conn, err := c20dial(proto, addr)
			if err != nil {
				outs = append(outs, "dial-error")
				fail(i, "dial")
				continue
			}
			local, remote := conn.RemoteAddr(), conn.LocalAddr() // as the server sees them
			tcpLocal := &net.TCPAddr{IP: net.ParseIP(c20ips[ma-1]), Port: port}
			tcpRemote := &net.TCPAddr{IP: net.ParseIP("127.0.0.1"), Port: 40000}
			serveDB := func(n int) func(w *c20Writer, r *dns.Msg) {
				return func(w *c20Writer, r *dns.Msg) {
					h.ServeDNS(dnsserver.WithMaxAnswer(context.Background(), n), w, r)
				}
			}
			// bare database handler: same transport facts, the listener's max answer
			bare, bareStatus := c20inproc(serveDB(ma), local, remote, wire)
			// complete answer (TCP, no selection limit) for the truncation and selection oracles
			full, _ := c20inproc(serveDB(ma), tcpLocal, tcpRemote, wire)
			all, _ := c20inproc(serveDB(64), tcpLocal, tcpRemote, wire)
			// whoami handler alone
			whoS := "pass"
			var whoMsg *dns.Msg
			if who != nil {
				pass.hit = false
				var st string
				whoMsg, st = c20inproc(func(w *c20Writer, r *dns.Msg) { who.ServeDNS(context.Background(), w, r) }, local, remote, wire)
				if !pass.hit {
					whoS = st
					if whoMsg != nil {
						whoS = c20canon(whoMsg, id, req.Question, false)
					}
				}
			}
			if bareStatus == "panic" {
				// miekg does not recover handler panics: sending this would kill the process
				conn.Close()
				outs = append(outs, "net=skipped&bare=panic&who="+whoS+"&fit=1")
				fail(i, "bare-panic")
				continue
			}
			raw := c20exchange(conn, proto, wire, 2*time.Second)
			// exactly one reply per query: a second message on the same socket / connection would be
			// read by the client as the answer to its next query (looked for after every reply that
			// is not NOERROR and after every fourth query)
			extra := false
			if raw != nil && (len(raw) > 3 && raw[3]&0x0f != 0 || i%4 == 0) {
				extra = c20extraReply(conn, proto)
			}
			conn.Close()
			if extra {
				fail(i, "second-reply-to-one-query")
			}
			netS, fit := "noreply", 1
			var nm *dns.Msg
			if raw != nil {
				nm = new(dns.Msg)
				if err := nm.Unpack(raw); err != nil {
					nm = nil
					netS = "unpackerr"
				}
			}
			// random selection among more candidates than the listener may return: hide which
			hide := bare != nil && all != nil && c20addrCount(all) > c20addrCount(bare)
			if nm != nil {
				netS = c20canon(nm, id, req.Question, hide)
				limit := 65535
				if proto == "u" {
					limit = buf
					if limit < 512 {
						limit = 512
					}
				}
				if len(raw) > limit {
					fit = 0
					fail(i, "oversize")
				}
			}
			bareS := bareStatus
			if bare != nil {
				bareS = c20canon(bare, id, req.Question, hide)
			}
			outs = append(outs, fmt.Sprintf("net=%s&bare=%s&who=%s&fit=%d", netS, bareS, whoS, fit))

			// property oracle
			isAny := refuse && uint16(qt) == dns.TypeANY
			switch {
			case isAny:
				if nm == nil || nm.Rcode != dns.RcodeSuccess || len(nm.Answer) != 1 || len(nm.Ns) != 0 || len(nm.Extra) != 0 {
					fail(i, "any-shape")
				} else if hi, ok := nm.Answer[0].(*dns.HINFO); !ok || hi.Cpu != "RFC 8482" || hi.Os != "" || hi.Hdr.Ttl != 86400 ||
					hi.Hdr.Class != dns.ClassINET || hi.Hdr.Name != name {
					fail(i, "any-hinfo")
				}
			case whoS != "pass":
				if netS != whoS {
					fail(i, "whoami-differs")
				}
			default:
				if netS != bareS {
					fail(i, "net-differs-from-bare")
				}
				if nm != nil && hide && all != nil {
					seen := map[string]bool{}
					cands := map[string]bool{}
					for _, rr := range all.Answer {
						cands[rrCanon(rr)] = true
					}
					for _, rr := range nm.Answer {
						c := rrCanon(rr)
						if t := rr.Header().Rrtype; (t == dns.TypeA || t == dns.TypeAAAA) && (!cands[c] || seen[c]) {
							fail(i, "selection-not-a-subset")
						}
						seen[c] = true
					}
				}
				if nm != nil && full != nil {
					if proto == "t" && nm.Truncated {
						fail(i, "tc-over-tcp")
					}
					dropped := len(nm.Answer) < len(full.Answer) || len(nm.Ns) < len(full.Ns)
					if dropped && !nm.Truncated {
						fail(i, "dropped-without-tc")
					}
					if nm.Truncated && proto == "u" {
						// what a resolver does next: the same question over TCP must be complete
						c2, err := c20dial("t", addr)
						if err != nil {
							fail(i, "retry-dial")
						} else {
							fl, fr := c2.RemoteAddr(), c2.LocalAddr()
							exp, _ := c20inproc(serveDB(ma), fl, fr, wire)
							raw2 := c20exchange(c2, "t", wire, 2*time.Second)
							c2.Close()
							m2 := new(dns.Msg)
							if raw2 == nil || m2.Unpack(raw2) != nil || exp == nil {
								fail(i, "retry-noreply")
							} else if m2.Truncated || len(m2.Answer) != len(full.Answer) ||
								c20canon(m2, id, req.Question, hide) != c20canon(exp, id, req.Question, hide) {
								fail(i, "retry-incomplete")
							}
						}
					}
				}
			}
		case "z":
			if len(p) != 6 {
				outs = append(outs, "bad-token")
				continue
			}
			ma, _ := strconv.Atoi(p[1])
			proto := p[2]
			qd, _ := strconv.Atoi(p[3])
			opcode, _ := strconv.Atoi(p[4])
			qr, _ := strconv.Atoi(p[5])
			if ma < 1 || ma > len(c20ips) {
				outs = append(outs, "bad-token")
				continue
			}
			id := uint16(2000 + i)
			hdr := make([]byte, 12)
			binary.BigEndian.PutUint16(hdr[0:], id)
			binary.BigEndian.PutUint16(hdr[2:], uint16(qr&1)<<15|uint16(opcode&15)<<11|1<<8) // RD set
			binary.BigEndian.PutUint16(hdr[4:], uint16(qd))
			addr := net.JoinHostPort(c20ips[ma-1], strconv.Itoa(port))
			zs := "noreply"
			if conn, err := c20dial(proto, addr); err == nil {
				raw := c20exchange(conn, proto, hdr, 250*time.Millisecond)
				conn.Close()
				if raw != nil {
					m := new(dns.Msg)
					if err := m.Unpack(raw); err != nil {
						zs = "unpackerr"
					} else {
						zs = c20canon(m, id, nil, false)
						if qr == 0 && m.Rcode != dns.RcodeFormatError && m.Rcode != dns.RcodeServerFailure && m.Rcode != dns.RcodeNotImplemented {
							fail(i, "no-question-not-a-failure")
						}
					}
				}
			} else {
				zs = "dial-error"
			}
			// the server still answers a normal query on the same listener
			next := "FAIL"
			if conn, err := c20dial(proto, addr); err == nil {
				wire := c20query(id+1, "ex.com.", dns.TypeSOA, 1, 0)
				raw := c20exchange(conn, proto, wire, 2*time.Second)
				conn.Close()
				m := new(dns.Msg)
				if raw != nil && m.Unpack(raw) == nil && m.Id == id+1 && m.Rcode == dns.RcodeSuccess && len(m.Answer) == 1 {
					next = "ok"
				}
			}
			if next != "ok" {
				fail(i, "server-dead-after-no-question")
			}
			outs = append(outs, fmt.Sprintf("z=%s&next=%s", zs, next))
		default:
			outs = append(outs, "bad-token")
		}
	}
	return strings.Join(outs, "~"), verdict
}
