// Command verifharness drives the real dnsrocks code for the correspondence checks.
//
//	verifharness gen <prop> <tier> <seed> <ops-file>     write generated cases (one per line)
//	verifharness run <prop> <ops-file> <impl-file>       execute cases on the real code
//
// Each output line of `run` is `I=<canonical impl output>\tP=<property oracle verdict>`, one per
// input line. The property oracle verdict is `-`, `ok` or `FAIL:<why>`.
package main

import (
	"bufio"
	"flag"
	"fmt"
	"io"
	"log"
	"os"
	"strconv"
	"strings"
)

type prop struct {
	gen func(g *gen, tier string, w *bufio.Writer)
	run func(line string) (impl string, verdict string)
	// optional: called once before run lines / after
	setup    func()
	teardown func()
}

var props = map[string]*prop{}

func main() {
	// glog: nothing on stderr, files (if any) into the per-run temp dir, never /tmp
	flag.Set("log_dir", os.TempDir())
	flag.Set("stderrthreshold", "FATAL")
	flag.CommandLine.Parse(nil)
	log.SetOutput(io.Discard)
	if len(os.Args) < 2 {
		usage()
	}
	switch os.Args[1] {
	case "gen":
		if len(os.Args) != 6 {
			usage()
		}
		p := lookup(os.Args[2])
		seed, err := strconv.ParseUint(os.Args[4], 10, 64)
		if err != nil {
			fatal("bad seed: %v", err)
		}
		f, err := os.Create(os.Args[5])
		if err != nil {
			fatal("%v", err)
		}
		w := bufio.NewWriterSize(f, 1<<20)
		p.gen(newGen(seed), os.Args[3], w)
		w.Flush()
		f.Close()
	case "run":
		if len(os.Args) != 5 {
			usage()
		}
		p := lookup(os.Args[2])
		in, err := os.Open(os.Args[3])
		if err != nil {
			fatal("%v", err)
		}
		out, err := os.Create(os.Args[4])
		if err != nil {
			fatal("%v", err)
		}
		if p.setup != nil {
			p.setup()
		}
		sc := bufio.NewScanner(in)
		sc.Buffer(make([]byte, 1<<20), 1<<28)
		w := bufio.NewWriterSize(out, 1<<16)
		for sc.Scan() {
			line := sc.Text()
			impl, verdict := safeRun(p, line)
			fmt.Fprintf(w, "I=%s\tP=%s\n", impl, verdict)
			w.Flush()
		}
		if p.teardown != nil {
			p.teardown()
		}
		out.Close()
	default:
		usage()
	}
}

func safeRun(p *prop, line string) (impl, verdict string) {
	defer func() {
		if r := recover(); r != nil {
			impl = "panic:" + sanitize(fmt.Sprint(r))
			verdict = "FAIL:panic"
		}
	}()
	return p.run(line)
}

func sanitize(s string) string {
	s = strings.ReplaceAll(s, "\n", " ")
	s = strings.ReplaceAll(s, "\t", " ")
	return strings.ReplaceAll(s, " ", "_")
}

func lookup(name string) *prop {
	p, ok := props[strings.ToUpper(name)]
	if !ok {
		fatal("unknown property %q", name)
	}
	return p
}

func usage() {
	fmt.Fprintln(os.Stderr, "usage: verifharness gen <prop> <tier> <seed> <ops> | run <prop> <ops> <impl>")
	os.Exit(2)
}

func fatal(f string, a ...interface{}) {
	fmt.Fprintf(os.Stderr, "verifharness: "+f+"\n", a...)
	os.Exit(2)
}
