package main

// C07 — compilation is a deterministic, lossless function of the data file.
//
// op line:
//   compile <class>:<serial> <maxBucketNum> <minBucketSize> <defaultBatchSize> <cfgs> <lines> <extra>
// class  : cdb | rdb1 | rdb2            (codec configuration the records were produced with)
// cfgs   : c<numcpu> | B<numcpu> | b<batchsize>.<batchnumparallel>.<numcpu>   (comma separated)
// lines  : `;`-separated `<source line hex>=<records>`, records = k.v,k.v | ! (rejected) | _ (none)
// extra  : accumulator + feature records, k.v,k.v
//
// run: rebuilds the data file from the source lines, checks that the records in the op line are what
// the real codec emits (stale check), really compiles with every configuration (each under a
// timeout; a hang is the outcome `hang`), dumps every result completely and prints
// `all:<r>` if all configurations agree, else `<cfg>=<r>;…`.

import (
	"bufio"
	"bytes"
	"fmt"
	"hash/fnv"
	"io"
	"os"
	"path/filepath"
	"runtime"
	"sort"
	"strconv"
	"strings"
	"time"

	rocksdb "github.com/facebookincubator/dns/dnsrocks/cgo-rocksdb"
	"github.com/facebookincubator/dns/dnsrocks/dnsdata"
	dcdb "github.com/facebookincubator/dns/dnsrocks/dnsdata/cdb"
	"github.com/facebookincubator/dns/dnsrocks/dnsdata/rdb"
	gocdb "github.com/repustate/go-cdb"
)

func init() {
	props["C07"] = &prop{gen: c07gen, run: c07run, setup: c07setup, teardown: c07teardown}
}

// unexported constant `minBucketSize` of dnsdata/rdb/rdb_builder.go
const c07MinBucketSize = 30000

var (
	c07dir string
	c07seq int
)

func c07setup() {
	d, err := os.MkdirTemp("", "c07-")
	if err != nil {
		fatal("%v", err)
	}
	c07dir = d
}

func c07teardown() {
	os.RemoveAll(c07dir)
	// RocksDB read-only/secondary opens may leave log dirs in TMPDIR
	if ms, _ := filepath.Glob(filepath.Join(os.TempDir(), "rdb-log-*")); ms != nil {
		for _, m := range ms {
			os.RemoveAll(m)
		}
	}
}

// ---------------------------------------------------------------------------------------------
// codec (black box): per-line records, extra records

func c07codec(class string, serial uint32) *dnsdata.Codec {
	c := new(dnsdata.Codec)
	c.Serial = serial
	if class == "cdb" {
		return c
	}
	// = rdb.initCodec (unexported)
	c.Acc.Ranger.Enable()
	c.Acc.NoPrefixSets = true
	c.NoRnetOutput = true
	c.Features.UseV2Keys = class == "rdb2"
	return c
}

func c07pairs(rs []dnsdata.MapRecord) string {
	if len(rs) == 0 {
		return "_"
	}
	var sb strings.Builder
	for i, r := range rs {
		if i > 0 {
			sb.WriteByte(',')
		}
		sb.WriteString(hexTok(r.Key))
		sb.WriteByte('.')
		sb.WriteString(hexTok(r.Value))
	}
	return sb.String()
}

// which lines reach the codec: the statement's "line-by-line codec" sees every line except blank
// ones / comments (and, as the parser does, one-character lines).
func c07skipped(line []byte) ([]byte, bool) {
	l := bytes.TrimLeft(line, " ")
	return l, len(l) < 2 || bytes.HasPrefix(l, []byte("#"))
}

// c07convert runs the real codec sequentially over the lines.
func c07convert(class string, serial uint32, src [][]byte) (per []string, recs []dnsdata.MapRecord, extra []dnsdata.MapRecord, rejected bool) {
	c := c07codec(class, serial)
	for _, line := range src {
		if len(line) >= bufio.MaxScanTokenSize {
			// the parser reads lines with a bufio.Scanner: a line of 64 KiB or more is a read error for
			// every compiler and every worker count, whatever the codec would make of it
			per = append(per, "!")
			rejected = true
			continue
		}
		l, skip := c07skipped(line)
		if skip {
			per = append(per, "_")
			continue
		}
		out, err := c.ConvertLn(append([]byte{}, l...))
		if err != nil {
			per = append(per, "!")
			rejected = true
			continue
		}
		per = append(per, c07pairs(out))
		recs = append(recs, out...)
	}
	a, err := c.Acc.MarshalMap()
	if err != nil {
		panic(err)
	}
	f, err := c.Features.MarshalMap()
	if err != nil {
		panic(err)
	}
	extra = append(append(extra, a...), f...)
	return
}

func c07sortedToks(s string) string {
	t := strings.Split(s, ",")
	sort.Strings(t)
	return strings.Join(t, ",")
}

// ---------------------------------------------------------------------------------------------
// canonical result

type c07rec struct{ k, v []byte }

func c07canon(recs []c07rec) string {
	sort.Slice(recs, func(i, j int) bool {
		if c := bytes.Compare(recs[i].k, recs[j].k); c != 0 {
			return c < 0
		}
		return bytes.Compare(recs[i].v, recs[j].v) < 0
	})
	h := fnv.New64a()
	keys := 0
	for i, r := range recs {
		if i > 0 && bytes.Equal(recs[i-1].k, r.k) {
			io.WriteString(h, ",")
			io.WriteString(h, hexTok(r.v))
			continue
		}
		if i > 0 {
			io.WriteString(h, "\n")
		}
		keys++
		io.WriteString(h, hexTok(r.k))
		io.WriteString(h, "=")
		io.WriteString(h, hexTok(r.v))
	}
	if len(recs) > 0 {
		io.WriteString(h, "\n")
	}
	return fmt.Sprintf("ok:n=%d,k=%d,h=%d", len(recs), keys, h.Sum64())
}

func c07dumpRDB(path string) (res string) {
	opts := rocksdb.NewOptions()
	db, err := rocksdb.OpenDatabase(path, true, false, opts)
	if err != nil {
		opts.FreeOptions()
		return "openerr:" + sanitize(err.Error())
	}
	defer db.CloseDatabase()
	ro := rocksdb.NewDefaultReadOptions()
	defer ro.FreeReadOptions()
	it := db.CreateIterator(ro)
	defer it.FreeIterator()
	var recs []c07rec
	for it.SeekToFirst(); it.IsValid(); it.Next() {
		k := append([]byte{}, it.Key()...)
		data := append([]byte{}, it.Value()...)
		n := 0
		for {
			chunk, rest, err := rdb.ReadNextChunk(data)
			if err == io.EOF {
				break
			}
			if err != nil {
				return "corrupt"
			}
			recs = append(recs, c07rec{k, chunk})
			data = rest
			n++
		}
		if n == 0 {
			return "corrupt" // a stored key without values
		}
	}
	if err := it.GetError(); err != nil {
		return "itererr:" + sanitize(err.Error())
	}
	return c07canon(recs)
}

func c07dumpCDB(path string) string {
	db, err := gocdb.Open(path)
	if err != nil {
		return "openerr:" + sanitize(err.Error())
	}
	defer db.Close()
	var recs []c07rec
	err = db.ForEachKeys(func(_ uint32, k, v []byte) {
		recs = append(recs, c07rec{append([]byte{}, k...), append([]byte{}, v...)})
	})
	if err != nil {
		return "itererr:" + sanitize(err.Error())
	}
	return c07canon(recs)
}

// ---------------------------------------------------------------------------------------------
// run one configuration on the real compilers

func c07compile(class, cfg, dataPath string, timeout time.Duration) string {
	c07seq++
	out := filepath.Join(c07dir, fmt.Sprintf("out%d", c07seq))
	type result struct {
		err error
		pan interface{}
	}
	done := make(chan result, 1)
	var dump func() string
	var work func() error
	switch {
	case cfg[0] == 'c':
		cpu, err := strconv.Atoi(cfg[1:])
		if err != nil || class != "cdb" {
			return "badcfg"
		}
		work = func() error {
			_, err := dcdb.CreateCDB(dataPath, out, &dcdb.CreatorOptions{NumCPU: cpu})
			return err
		}
		dump = func() string { return c07dumpCDB(out) }
	case cfg[0] == 'B' || cfg[0] == 'b':
		if class == "cdb" {
			return "badcfg"
		}
		o := rdb.CompilationOptions{UseV2KeySyntax: class == "rdb2"}
		if cfg[0] == 'B' {
			cpu, err := strconv.Atoi(cfg[1:])
			if err != nil {
				return "badcfg"
			}
			o.UseBuilder = true
			o.NumCPU = cpu
		} else {
			f := strings.Split(cfg[1:], ".")
			if len(f) != 3 {
				return "badcfg"
			}
			size, e1 := strconv.Atoi(f[0])
			par, e2 := strconv.Atoi(f[1])
			cpu, e3 := strconv.Atoi(f[2])
			if e1 != nil || e2 != nil || e3 != nil {
				return "badcfg"
			}
			o.BatchSize, o.BatchNumParallel, o.NumCPU = size, par, cpu
		}
		if err := os.MkdirAll(out, 0o755); err != nil {
			panic(err)
		}
		work = func() error {
			_, err := rdb.CompileToRDB(dataPath, out, o)
			return err
		}
		dump = func() string { return c07dumpRDB(out) }
	default:
		return "badcfg"
	}
	go func() {
		var r result
		defer func() {
			if p := recover(); p != nil {
				r.pan = p
			}
			done <- r
		}()
		r.err = work()
	}()
	select {
	case r := <-done:
		defer os.RemoveAll(out)
		if r.pan != nil {
			return "panic:" + sanitize(fmt.Sprint(r.pan))
		}
		if r.err != nil {
			return "fail"
		}
		return dump()
	case <-time.After(timeout):
		if f := os.Getenv("C07_STACKS"); f != "" {
			buf := make([]byte, 1<<22)
			buf = buf[:runtime.Stack(buf, true)]
			os.WriteFile(fmt.Sprintf("%s.%d", f, c07seq), buf, 0o644)
		}
		// the compile goroutine is abandoned (it still holds its output directory, removed at teardown)
		return "hang"
	}
}

func c07summarize(cfgs, rs []string) string {
	if len(rs) == 0 {
		return "none"
	}
	same := true
	for _, r := range rs[1:] {
		if r != rs[0] {
			same = false
		}
	}
	if same {
		return "all:" + rs[0]
	}
	parts := make([]string, len(rs))
	for i := range rs {
		parts[i] = cfgs[i] + "=" + rs[i]
	}
	return strings.Join(parts, ";")
}

func c07run(line string) (string, string) {
	f := strings.Fields(line)
	if len(f) != 8 || f[0] != "compile" {
		return "bad-op", "FAIL:bad-op"
	}
	cs := strings.SplitN(f[1], ":", 2)
	if len(cs) != 2 {
		return "bad-op", "FAIL:bad-op"
	}
	class := cs[0]
	ser, err := strconv.ParseUint(cs[1], 10, 32)
	if err != nil {
		return "bad-op", "FAIL:bad-op"
	}
	if f[2] != strconv.Itoa(runtime.NumCPU()) || f[3] != strconv.Itoa(c07MinBucketSize) || f[4] != strconv.Itoa(rdb.DefaultBatchSize) {
		return "bad-consts", "FAIL:constants-differ-from-this-machine/code"
	}
	cfgs := strings.Split(f[5], ",")
	elems := strings.Split(f[6], ";")
	src := make([][]byte, len(elems))
	claimed := make([]string, len(elems))
	for i, e := range elems {
		p := strings.SplitN(e, "=", 2)
		if len(p) != 2 {
			return "bad-op", "FAIL:bad-op"
		}
		src[i] = unhexTok(p[0])
		claimed[i] = p[1]
	}
	// stale check: the records in the op line are what the real codec emits for these lines
	per, recs, extra, rejected := c07convert(class, uint32(ser), src)
	for i := range per {
		if per[i] != claimed[i] {
			return "stale", fmt.Sprintf("FAIL:stale-line-%d", i)
		}
	}
	// (the accumulator marshals its per-map tables from concurrent goroutines: compare as multisets)
	if c07sortedToks(c07pairs(extra)) != c07sortedToks(f[7]) {
		return "stale", "FAIL:stale-extra"
	}
	// the data file
	c07seq++
	dataPath := filepath.Join(c07dir, fmt.Sprintf("data%d", c07seq))
	var buf bytes.Buffer
	for _, l := range src {
		buf.Write(l)
		buf.WriteByte('\n')
	}
	if err := os.WriteFile(dataPath, buf.Bytes(), 0o644); err != nil {
		panic(err)
	}
	defer os.Remove(dataPath)
	mt := time.Unix(int64(ser), 0)
	if err := os.Chtimes(dataPath, mt, mt); err != nil {
		panic(err)
	}
	// property oracle (Go side): group-by-key of the codec's records, or failure
	spec := "fail"
	if !rejected {
		all := make([]c07rec, 0, len(recs)+len(extra))
		for _, r := range recs {
			all = append(all, c07rec{r.Key, r.Value})
		}
		for _, r := range extra {
			all = append(all, c07rec{r.Key, r.Value})
		}
		spec = c07canon(all)
	}
	timeout := 60*time.Second + time.Duration(len(recs)/1000)*2*time.Second
	rs := make([]string, len(cfgs))
	bad := ""
	for i, cfg := range cfgs {
		t0 := time.Now()
		rs[i] = c07compile(class, cfg, dataPath, timeout)
		if os.Getenv("C07_TIMING") != "" {
			fmt.Fprintf(os.Stderr, "%s %s %d recs: %v\n", class, cfg, len(recs), time.Since(t0))
		}
		if rs[i] != spec && bad == "" {
			bad = cfg + "=" + rs[i]
			if len(bad) > 80 {
				bad = bad[:80]
			}
		}
	}
	verdict := "ok"
	if bad != "" {
		verdict = "FAIL:" + bad + "-want-" + spec
	}
	return c07summarize(cfgs, rs), verdict
}

// ---------------------------------------------------------------------------------------------
// generator

type c07file struct {
	lines []string
}

var (
	c07zones  = []string{"z0.test", "z1.example", "sub.z0.test", "w.z1.example"}
	c07labels = []string{"a", "b", "www", "x-1", "_srv", "UPPER", "*"}
	c07locs   = []string{"", "", "aa", "ab", `\000\001`, `\000\002`}
	c07maps   = []string{"ma", `\000m`}
)

func (g *gen) c07name(nNames int) string {
	z := g.pick(c07zones)
	switch g.intn(4) {
	case 0:
		return z
	case 1:
		return g.pick(c07labels) + "." + z
	default:
		return fmt.Sprintf("h%d.%s", g.intn(nNames), z)
	}
}

func (g *gen) c07ip4() string {
	return fmt.Sprintf("10.%d.%d.%d", g.intn(4), g.intn(256), g.intn(256))
}

func (g *gen) c07ip6() string {
	return fmt.Sprintf("fd00:%x::%x", g.intn(16), g.intn(65536))
}

func (g *gen) c07recordLine(nNames int) string {
	ttl := g.pick([]string{"", "60", "3600"})
	lo := g.pick(c07locs)
	n := g.c07name(nNames)
	switch g.intn(12) {
	case 0, 1, 2, 3:
		ip := g.c07ip4()
		if g.chance(1, 3) {
			ip = g.c07ip6()
		}
		w := g.pick([]string{"", "0", "1", "100"})
		return fmt.Sprintf("+%s,%s,%s,,%s,%s", n, ip, ttl, lo, w)
	case 4:
		return fmt.Sprintf("C%s,%s,%s,,%s", n, g.c07name(nNames), ttl, lo)
	case 5:
		return fmt.Sprintf("'%s,text %d,%s,,%s", n, g.intn(50), ttl, lo)
	case 6:
		return fmt.Sprintf(":%s,%d,\\001\\002%d,%s,,%s", n, 100+g.intn(3), g.intn(10), ttl, lo)
	case 7:
		z := g.pick(c07zones)
		return fmt.Sprintf("&%s,,ns%d.%s,%s,,%s", z, g.intn(3), z, ttl, lo)
	case 8:
		return fmt.Sprintf("=%s,%s,%s,,%s", n, g.c07ip4(), ttl, lo)
	case 9:
		return fmt.Sprintf("@%s,,mx%d.%s,%d,%s,,%s", n, g.intn(2), g.pick(c07zones), 10*g.intn(3), ttl, lo)
	case 10:
		return fmt.Sprintf("M%s,%s", n, g.pick(c07maps))
	default:
		return fmt.Sprintf("8%s,%s", n, g.pick(c07maps))
	}
}

// subnet lines: distinct blocks per map (the rearranger's treatment of duplicate blocks is C03's business)
func (g *gen) c07subnets() []string {
	var out []string
	seen := map[string]bool{}
	n := g.intn(8)
	for i := 0; i < n; i++ {
		m := g.pick(c07maps)
		lo := g.pick([]string{"aa", "ab", `\000\001`, `\000\002`})
		var cidr string
		switch g.intn(4) {
		case 0:
			cidr = fmt.Sprintf("10.%d.0.0/16", g.intn(4))
		case 1:
			cidr = fmt.Sprintf("10.%d.%d.0/24", g.intn(4), g.intn(4))
		case 2:
			cidr = fmt.Sprintf("fd00:%x::/32", g.intn(4))
		default:
			cidr = fmt.Sprintf("192.168.%d.%d/32", g.intn(2), g.intn(4))
		}
		if seen[m+cidr] {
			continue
		}
		seen[m+cidr] = true
		out = append(out, fmt.Sprintf("%%%s,%s,%s", lo, cidr, m))
	}
	return out
}

func (g *gen) c07genFile(nLines, nNames int, reject int) []string {
	var lines []string
	for _, z := range c07zones {
		if g.chance(3, 4) {
			ser := g.pick([]string{"", "123"})
			lines = append(lines, fmt.Sprintf("Z%s,ns.%s,adm.%s,%s,7200,1800,604800,120,120,,", z, z, z, ser))
		}
	}
	lines = append(lines, g.c07subnets()...)
	for len(lines) < nLines {
		switch g.intn(30) {
		case 0:
			lines = append(lines, "# comment "+strconv.Itoa(g.intn(100)))
		case 1:
			lines = append(lines, "")
		case 2:
			lines = append(lines, "  "+g.c07recordLine(nNames))
		default:
			lines = append(lines, g.c07recordLine(nNames))
		}
	}
	// shuffle (Fisher-Yates) so that equal keys are spread over the file
	for i := len(lines) - 1; i > 0; i-- {
		j := g.intn(i + 1)
		lines[i], lines[j] = lines[j], lines[i]
	}
	if reject >= 0 {
		bad := g.pick([]string{"?unknown.prefix,1.2.3.4", `+bad.loc.z0.test,1.2.3.4,,,\9z`, "%aa,not-a-cidr,ma",
			// a line the codec accepts but the line reader cannot take in (70 KB of text)
			":big.z0.test,16," + strings.Repeat(`\141`, 17500)})
		if reject >= 3 {
			bad = ":big.z0.test,16," + strings.Repeat(`\141`, 17500)
		}
		pos := []int{0, len(lines) / 2, len(lines)}[reject%3]
		lines = append(lines[:pos], append([]string{bad}, lines[pos:]...)...)
	}
	return lines
}

func c07emit(w *bufio.Writer, class string, serial uint32, cfgs []string, lines []string) {
	src := make([][]byte, len(lines))
	for i, l := range lines {
		src[i] = []byte(l)
	}
	per, _, extra, _ := c07convert(class, serial, src)
	fmt.Fprintf(w, "compile %s:%d %d %d %d %s ", class, serial, runtime.NumCPU(), c07MinBucketSize, rdb.DefaultBatchSize, strings.Join(cfgs, ","))
	for i := range lines {
		if i > 0 {
			w.WriteByte(';')
		}
		w.WriteString(hexTok(src[i]))
		w.WriteByte('=')
		w.WriteString(per[i])
	}
	w.WriteByte(' ')
	w.WriteString(c07pairs(extra))
	w.WriteByte('\n')
}

// configurations for a file whose compilation yields nRecords records (an estimate is enough: it
// only keeps tiny batch sizes away from big inputs)
func c07cfgs(class string, nRecords int, big bool, rejected bool, idx int, tier string) []string {
	if class == "cdb" {
		if big {
			return []string{"c1", "c8"}
		}
		return []string{"c1", "c2", "c8", "c0"}
	}
	if big {
		if tier == "thorough" {
			return []string{"B1", "B8", "B0", "B2", "b1000.4.8", "b0.1.1", "b7.4.2", "b30000.2.0", "b999.1.8", "b1000.0.4"}
		}
		return []string{"B1", "B8", "B0", "b1000.4.8", "b0.1.1", "b500.4.2", "b30000.0.2"}
	}
	// every builder run allocates room for 2*10^7 entries (seconds of page faults): one or two per file
	cfgs := []string{[]string{"B1", "B8", "B2", "B0"}[idx%4]}
	if idx%3 == 0 {
		cfgs = append(cfgs, []string{"B8", "B1"}[idx%2])
	}
	// every batch allocates 2 x DefaultBatchSize slots: BatchSize 1 / 7 only on small inputs
	if nRecords <= 400 {
		cfgs = append(cfgs, "b1.1.1", "b1.4.8", "b1.1.8")
	}
	if nRecords <= 3000 {
		cfgs = append(cfgs, "b7.1.1", "b7.4.8", "b7.4.1")
	}
	cfgs = append(cfgs, "b1000.1.1", "b1000.4.8", "b1000.1.8", "b0.1.1", "b0.4.8")
	// BatchNumParallel = 0 (unlimited; blocked for ever before the repair as soon as a batch was full)
	cfgs = append(cfgs, []string{"b1000.0.8", "b0.0.2", "b1000.0.1"}[idx%3])
	if nRecords <= 3000 {
		cfgs = append(cfgs, "b7.0.2")
	}
	return cfgs
}

func c07gen(g *gen, tier string, w *bufio.Writer) {
	nSmall, bigLines := 6, 36000
	if tier == "thorough" {
		nSmall, bigLines = 60, 75000
	}
	serial := uint32(1700000000)
	classes := []string{"cdb", "rdb1", "rdb2"}
	count := func(class string, lines []string) int {
		src := make([][]byte, len(lines))
		for i, l := range lines {
			src[i] = []byte(l)
		}
		_, recs, extra, _ := c07convert(class, serial, src)
		return len(recs) + len(extra)
	}
	for i := 0; i < nSmall; i++ {
		var n int
		switch i % 5 {
		case 0:
			n = g.intn(6) // tiny, possibly empty
		case 1, 2:
			n = 10 + g.intn(60)
		case 3:
			n = 100 + g.intn(400)
		default:
			n = 1000 + g.intn(1500) // crosses BatchSize 1000
		}
		reject := -1
		if i%3 == 2 {
			reject = g.intn(3)
			if i%6 == 5 {
				reject += 3 // the over-long line
			}
		}
		lines := g.c07genFile(n, 1+g.intn(40), reject)
		for _, class := range classes {
			c07emit(w, class, serial+uint32(i), c07cfgs(class, count(class, lines), false, reject >= 0, i, tier), lines)
		}
	}
	// one file large enough for the builder to split buckets; few names => many values per key,
	// runs of equal keys across the 30000 boundary
	lines := g.c07genFile(bigLines, 300, -1)
	for _, class := range classes {
		c07emit(w, class, serial+1000, c07cfgs(class, count(class, lines), true, false, 0, tier), lines)
	}
}
