package main

import (
	"bufio"
	"fmt"
	"strings"

	"github.com/facebookincubator/dns/dnsrocks/dnsdata"
)

func init() {
	props["C09"] = &prop{gen: c09gen, run: c09run}
}

func newCodec(kind string, serial uint32) *dnsdata.Codec {
	c := new(dnsdata.Codec)
	c.Serial = serial
	if kind != "cdb" {
		// as rdb_compiler.go:initCodec
		c.Acc.Ranger.Enable()
		c.Acc.NoPrefixSets = true
		c.NoRnetOutput = true
		c.Features.UseV2Keys = kind == "v2"
	}
	return c
}

func c09gen(g *gen, tier string, w *bufio.Writer) {
	n := 6000
	if tier == "thorough" {
		n = 150000
	}
	o := dataOpts{v6: true, odd: true, locs: true, maps: true}
	for i := 0; i < n; i++ {
		kind := g.pick([]string{"cdb", "v1", "v2"})
		fmt.Fprintf(w, "conv %s %d %s\n", kind, 1700000000+g.intn(5), hexTok([]byte(g.randomLine(o))))
	}
}

func kvList(mr []dnsdata.MapRecord) string {
	if len(mr) == 0 {
		return "_"
	}
	var p []string
	for _, m := range mr {
		p = append(p, hexTok(m.Key)+"."+hexTok(m.Value))
	}
	return strings.Join(p, ",")
}

func c09run(line string) (string, string) {
	f := strings.Fields(line)
	switch f[0] {
	case "conv":
		var serial uint32
		fmt.Sscan(f[2], &serial)
		c := newCodec(f[1], serial)
		mr, err := c.ConvertLn(unhexTok(f[3]))
		if err != nil {
			return "err", "-"
		}
		return "ok:" + kvList(mr), "-"
	}
	return "bad-op", "-"
}
