package main

import (
	"bufio"
	"bytes"
	"fmt"
	"net"
	"sort"
	"strconv"
	"strings"

	"github.com/facebookincubator/dns/dnsrocks/dnsdata"
)

func init() {
	props["C09"] = &prop{gen: c09gen, run: c09run}
}

func newCodec(kind string, serial uint32) *dnsdata.Codec {
	c := new(dnsdata.Codec)
	c.Serial = serial
	if kind != "cdb" {
		// as rdb_compiler.go:initCodec
		c.Acc.Ranger.Enable()
		c.Acc.NoPrefixSets = true
		c.NoRnetOutput = true
		c.Features.UseV2Keys = kind == "v2"
	}
	return c
}

// ---------------------------------------------------------------------------------------------
// generator

var c09labels = []string{"a", "b", "www", "x-1", "_srv", "MiXed", "xn--0", "n1", "mail", "ns", "mx", "srv"}

// escaped and raw odd labels: escaped separators, escaped star / dot / upper case, control bytes,
// quote, backslash, invalid and valid UTF-8 (raw and octal), an escape that does not unquote
var c09odd = []string{"a+b", "\\052", "a\\054b", "a\\072b", "sp\\040ace", "\\101b",
	"q\\042", "b\\\\s", "t\\011", "\\000", "a\\056b", "x\\177", "\"", "a b", "a\\qb", "\\x41", "*"}

// labels with bytes >= 0x80 (valid / invalid UTF-8, raw and escaped): only for names that are not
// lower-cased into a key (Go's bytes.ToLower is rune based; the codec model's is ASCII only)
var c09hi = []string{"\\377", "\\303\\251", "\xc3\xa9", "\xe9", "\\342\\202\\254", "\xf0\x9f\x98\x80", "\\u00e9", "\\U0001f600", "\xc3", "a\xe2\x82"}

var c09hiOK bool

// name that is only ever written with putdom (never lower-cased into a key): high bytes allowed
func (g *gen) c09nameHi() string {
	c09hiOK = true
	defer func() { c09hiOK = false }()
	return g.c09name()
}

func (g *gen) c09label() string {
	if c09hiOK && g.chance(1, 8) {
		return g.pick(c09hi)
	}
	if g.chance(1, 6) {
		return g.pick(c09odd)
	}
	return g.pick(c09labels)
}

// plain name: 0..4 labels, sometimes empty labels / trailing dot / root / a literal `*` label
// behind an empty one (formerly C09-empty-label-before-star)
func (g *gen) c09name() string {
	switch g.intn(24) {
	case 0:
		return ""
	case 1:
		return "."
	case 2:
		return g.pick([]string{"..", "a..b", "a.b.", "a.b..", "a...b.c"})
	case 3:
		return g.pick([]string{".*.a.b", "..*.a", ".*", ".*.", ".*.*.a", ".\\052.a.b", ".a.b", ".*..b", "*.a.b", "*"})
	}
	n := 1 + g.intn(4)
	var ls []string
	for i := 0; i < n; i++ {
		ls = append(ls, g.c09label())
	}
	return strings.Join(ls, ".")
}

// owner name of a type that understands wildcards
func (g *gen) c09wname() string {
	n := g.c09name()
	switch g.intn(8) {
	case 0:
		return "*." + n
	case 1:
		return g.pick([]string{"*.", "*", "*..", "\\052.a.b", "*.*.a", "\\052\\056a.b"})
	}
	return n
}

// server name (ns / mx / srv): empty (also on a root owner), a prefix without a dot, fully
// qualified names of one label (`c.`), of no label (`.`, `..`), of several (formerly
// C09-server-name-expansion: names that print with fewer than two labels)
func (g *gen) c09server(owner string) string {
	switch g.intn(7) {
	case 0:
		return ""
	case 1:
		return g.c09label() + "." + g.c09label() + "." + g.pick([]string{"", "net", "ex.com."})
	case 2:
		return g.pick([]string{".", "a.b", "a..b", "a.b.", "NS1.Ex.Com", "x.y.z.w", "..", ".a", "..a.", ".*.a"})
	case 3:
		return g.c09label() + g.pick([]string{".", "..", "."})
	}
	return g.c09label()
}

func (g *gen) c09num(max uint64) string {
	switch g.intn(9) {
	case 0:
		return ""
	case 1:
		return "0"
	case 2:
		return fmt.Sprint(max)
	case 3:
		return fmt.Sprint(max + 1)
	case 4:
		return g.pick([]string{"007", "12x", "+5", "-1", " 1", "1e3"})
	case 5:
		return fmt.Sprint(g.u64() % (max + 1))
	}
	return fmt.Sprint(g.intn(100000) % int(max+1))
}

func (g *gen) c09loc() string {
	switch g.intn(8) {
	case 0:
		return "aa"
	case 1:
		return "\\000\\001"
	case 2:
		return "\\000\\000"
	case 3:
		return g.pick([]string{"a", "abc", "\\054\\072", "\\377\\376", "Zz", "\\0", "a\\qb"})
	}
	return ""
}

func (g *gen) c09lmap() string {
	return g.pick([]string{"m1", "e1", "", "m", "\\001\\002", "toolong", "\\000\\000", "\\054\\072", "\\377a"})
}

func (g *gen) c09ip6() string {
	h := func() string { return fmt.Sprintf("%x", g.intn(65536)) }
	switch g.intn(14) {
	case 0:
		return "::"
	case 1:
		return "::1"
	case 2:
		return "1::"
	case 3:
		return "2001:db8::" + h()
	case 4:
		return "2001:DB8:0:0:1:0:0:" + h()
	case 5:
		return "2001:0db8:0000:0000:0000:0000:0000:0001"
	case 6:
		return h() + ":0:0:" + h() + ":0:0:0:" + h()
	case 7:
		return "1:0:0:2:0:0:3:4"
	case 8:
		return "0:0:1:0:0:0:1:0"
	case 9:
		return "1:2:3:4:5:6:7::"
	case 10:
		return "::2:3:4:5:6:7:8"
	case 11:
		return "64:ff9b::" + g.ip4()
	case 12:
		return "1:0:1:0:1:0:1:0"
	}
	var gs []string
	for i := 0; i < 8; i++ {
		if g.chance(1, 3) {
			gs = append(gs, "0")
		} else {
			gs = append(gs, h())
		}
	}
	return strings.Join(gs, ":")
}

func (g *gen) c09ip() string {
	switch g.intn(10) {
	case 0:
		return ""
	case 1:
		return g.pick([]string{"bogus", "1.2.3", "01.2.3.4", "1.2.3.4.5", "256.1.1.1", "fe80::1%eth0", "1:2:3", ":::"})
	case 2:
		return "::ffff:" + g.ip4()
	case 3:
		return g.pick([]string{"::ffff:102:304", "0.0.0.0", "255.255.255.255", "0:0:0:0:0:ffff:a00:1"})
	case 4, 5, 6:
		return g.c09ip6()
	}
	return g.ip4()
}

// c09join: both separators on input, trailing empty fields dropped half of the time
func (g *gen) c09join(prefix string, f []string) string {
	sep := ","
	if g.chance(1, 3) {
		ok := true
		for _, x := range f {
			if strings.ContainsAny(x, ":,") {
				ok = false
			}
		}
		if ok {
			sep = ":"
		}
	}
	n := len(f)
	if g.bool() {
		for n > 1 && f[n-1] == "" {
			n--
		}
	}
	return prefix + strings.Join(f[:n], sep)
}

var c09txts = []string{"hello", "v=spf1\\040-all", "a\\072b\\054c", "", "q\\042uote", "\\000\\377\\200", "caf\xc3\xa9", "tab\\011nl\\012", "back\\\\slash", "a b \"c\"", "\\342\\202\\254", "\xff\xfe", "\\u20ac", "\\U0001f600"}

var c09params = []string{"", "alpn=h2", "alpn=\"h2|h3\"", "port=443", "ipv4hint=1.2.3.4", "ipv4hint=1.2.3.4|5.6.7.8", "ipv6hint=2001:db8::1",
	"ipv6hint=2001:db8::1|::1", "mandatory=alpn;alpn=h2", "alpn=h3;no-default-alpn", "port=8443;alpn=h2;ipv4hint=10.0.0.1", "ech=AAEC", "port=0", "bogus=1", "alpn="}

// c09line: one line of type `t` (every class, the formerly excluded ones included: explicit
// serial 0 under any default serial, wildcard owners and `*.` targets on B/H, `M*.`, short server
// names, empty labels in front of `*`)
func (g *gen) c09line(t byte, serial uint32) string {
	unused := g.pick([]string{"", "", "x"})
	switch t {
	case 'Z':
		ser := g.c09num(4294967295)
		return g.c09join("Z", []string{g.c09name(), g.c09nameHi(), g.c09nameHi(), ser, g.c09num(4294967295), g.c09num(4294967295), g.c09num(4294967295), g.c09num(4294967295), g.c09num(4294967295), unused, g.c09loc()})
	case '.', '&':
		o := g.c09name()
		return g.c09join(string(t), []string{o, g.c09ip(), g.c09server(o), g.c09num(4294967295), unused, g.c09loc()})
	case '+':
		return g.c09join("+", []string{g.c09wname(), g.c09ip(), g.c09num(4294967295), unused, g.c09loc(), g.c09num(4294967295)})
	case '=':
		return g.c09join("=", []string{g.c09wname(), g.c09ip(), g.c09num(4294967295), unused, g.c09loc()})
	case '@':
		o := g.c09name()
		return g.c09join("@", []string{o, g.c09ip(), g.c09server(o), g.c09num(4294967295), g.c09num(4294967295), unused, g.c09loc()})
	case 'S':
		o := g.c09name()
		return g.c09join("S", []string{o, g.c09ip(), g.c09server(o), g.c09num(65535), g.c09num(65535), g.c09num(65535), g.c09num(4294967295), unused, g.c09loc()})
	case 'C':
		return g.c09join("C", []string{g.c09wname(), g.c09nameHi(), g.c09num(4294967295), unused, g.c09loc()})
	case '^':
		return g.c09join("^", []string{g.c09name(), g.c09nameHi(), g.c09num(4294967295), unused, g.c09loc()})
	case '\'':
		return g.c09join("'", []string{g.c09wname(), g.pick(c09txts), g.c09num(4294967295), unused, g.c09loc()})
	case ':':
		return g.c09join(":", []string{g.c09name(), g.pick([]string{"99", "257", "0", "65535", "65536", "70000", "", "16"}), g.pick(c09txts), g.c09num(4294967295), unused, g.c09loc()})
	case 'M', '8':
		n := g.c09name()
		if g.chance(1, 4) {
			n = "*." + n // with n = "" or ".": the catch-all map `M*.` (formerly C09-root-wildcard-map)
		}
		return g.c09join(string(t), []string{n, g.c09lmap()})
	case '%':
		net := g.pick([]string{"10.0.0.0/8", "10.1.2.3/16", "1.2.3.4", "", "2001:db8::/32", "::/0", "0.0.0.0/0", "::ffff:1.2.3.0/120", "1.2.3.4/33", "bogus", "10.0.0.0/08",
			"fe80::1%eth0/64", "::ffff:1.2.3.4/100", "::ffff:0:0/96", "::ffff:0:0/90", "2001:db8::1", "1.2.3.4/32", "1.2.3.4/0", "::1/128", "1:0:0:2::/64", "255.255.255.255/31", "ffff::/3"})
		return g.c09join("%", []string{g.pick([]string{"aa", "\\000\\001", "", "abc", "\\377\\000"}), net, g.c09lmap()})
	case '!':
		f := []string{g.c09lmap(), g.c09ip()}
		if g.chance(2, 3) {
			f = append(f, g.pick([]string{"", "0", "8", "24", "32", "64", "128", "159", "160", "200", "255", "256", "x"}), g.pick([]string{"aa", "\\000\\001", "\\000\\000", "", "abc"}))
		}
		return g.c09join("!", f)
	case 'B', 'H':
		tgt := g.c09nameHi()
		switch g.intn(12) {
		case 0, 1:
			tgt = "*." + tgt // the parser drops one `*.` of a target
		case 2:
			tgt = "*.*." + tgt // formerly C09-svcb-target-star
		case 3:
			tgt = g.pick([]string{"*.", "*", "*.*", "\\052.\\052.c", "*..*.c", ".*.c", "*.*.*.c"})
		}
		owner := g.c09wname() // wildcard owners: formerly C09-svcb-wildcard-owner
		return g.c09join(string(t), []string{owner, tgt, g.c09num(4294967295), g.c09loc(), g.c09num(65535), g.pick(c09params)})
	}
	return "?"
}

const c09types = "Z.&+=@SC^':M8%!BH"

// data files for `prep`: the shared generator's files (valid zones, maps, subnets), extra subnet
// lines, SOA lines with every optional field (explicit serial 0 included), and what the line filter
// of the parser deals with: comments, empty and one-character lines, lines behind blanks (formerly
// C09-preprocess-short-line)
func (g *gen) c09file(serial uint32) []string {
	df := g.genDataFile(dataOpts{v6: true, odd: true, locs: true, maps: true, maxZone: 3})
	lines := append([]string{}, df.lines...)
	for i := g.intn(4); i > 0; i-- {
		lines = append(lines, g.c09line('Z', serial))
	}
	for i := g.intn(4); i > 0; i-- {
		switch g.intn(6) {
		case 0:
			lines = append(lines, g.pick([]string{"Z", "%", "+", "#", "!", ".", "&", "M", "B", "x", " ", "  ", ""}))
		case 1:
			lines = append(lines, g.pick([]string{" ", "  ", "   "})+g.pick([]string{"Z", "%", "+", "#", "# c", "#%aa,10.0.0.0/8,m1", "!"}))
		case 2:
			lines = append(lines, g.pick([]string{"# comment", "#", "##", "#Za.b,c.d,e.f"}))
		case 3:
			lines = append(lines, g.pick([]string{" ", "  "})+g.c09line('Z', serial))
		case 4:
			t := "+=C^'&@"[g.intn(7)]
			lines = append(lines, g.pick([]string{" ", "   "})+g.c09line(t, serial))
		case 5:
			lines = append(lines, g.pick([]string{"Z,", "Z.", "+,", "%,", "%a", "M,", "Zx"}))
		}
	}
	for i := g.intn(6); i > 0; i-- {
		lo := g.pick([]string{"aa", "bb", "\\000\\001", "\\377\\376"})
		blank := g.pick([]string{"", "", "", " ", "  "}) // a subnet line behind blanks is accumulated like any other
		net := g.pick([]string{"10.0.0.0/8", "10.1.2.3/16", "1.2.3.4", "", "2001:db8::/32", "::/0", "0.0.0.0/0", "::ffff:1.2.3.0/120", "10.128.0.0/9", "10.0.0.0/7",
			"2001:db8:1::/48", "2001:db8::1", "255.255.255.255", "ffff:ffff:ffff:ffff:ffff:ffff:ffff:ffff", "128.0.0.0/1", "8000::/1", "0.0.0.0/1", "::/1", "192.168.1.0/24"})
		lines = append(lines, blank+fmt.Sprintf("%%%s,%s,%s", lo, net, g.pick([]string{"m1", "e1", "\\000\\000", "m"})))
	}
	var out []string
	seen := map[string]bool{}
	for _, l := range lines {
		t := strings.TrimLeft(l, " ")
		if strings.HasPrefix(t, "%") && len(t) > 1 {
			// one location per (range, map): the order of equal range points after sort.Slice is unspecified
			f := append(strings.Split(t[1:], ","), "", "")
			k := c09netKey(f[1]) + "|" + f[2]
			if seen[k] {
				continue
			}
			seen[k] = true
		}
		out = append(out, l)
	}
	g.shuffle(out)
	return out
}

func c09netKey(s string) string {
	if _, n, err := net.ParseCIDR(s); err == nil {
		return n.String()
	}
	if ip := net.ParseIP(s); ip != nil {
		if ip.To4() != nil {
			return ip.String() + "/32"
		}
		return ip.String() + "/128"
	}
	if s == "" {
		return "0.0.0.0/0"
	}
	return s
}

func c09gen(g *gen, tier string, w *bufio.Writer) {
	nconv, nnorm, nprep := 3000, 6000, 250
	if tier == "thorough" {
		nconv, nnorm, nprep = 100000, 150000, 5000
	}
	fmt.Fprintf(w, "isprint %s\n", isPrintRanges())
	o := dataOpts{v6: true, odd: true, locs: true, maps: true}
	for i := 0; i < nconv; i++ {
		kind := g.pick([]string{"cdb", "v1", "v2"})
		fmt.Fprintf(w, "conv %s %d %s\n", kind, 1700000000+g.intn(5), hexTok([]byte(g.randomLine(o))))
	}
	serials := []uint32{1700000000, 0, 1, 4294967295}
	for i := 0; i < nnorm; i++ {
		kind := g.pick([]string{"cdb", "v1", "v2"})
		serial := serials[g.intn(len(serials))]
		t := c09types[g.intn(len(c09types))]
		fmt.Fprintf(w, "norm %s %d %s\n", kind, serial, hexTok([]byte(g.c09line(t, serial))))
	}
	for i := 0; i < nprep; i++ {
		kind := g.pick([]string{"v1", "v2"})
		serial := serials[g.intn(len(serials))]
		var toks []string
		file := g.c09file(serial)
		if i%25 == 3 {
			// a big location map: more range points than one chunk of the text scanner (100)
			n := 55 + g.intn(200)
			base := g.intn(200)
			for k := 0; k < n; k++ {
				file = append(file, fmt.Sprintf("%%%s,10.%d.%d.0/24,big", g.pick([]string{"aa", "bb", "cc", "\\000\\001"}), base+k/128, (2*k)%256))
			}
			g.shuffle(file)
		}
		if i%6 == 1 {
			// lines whose last field is significant and ends in white space (optional tail omitted):
			// the compiler trims leading blanks only, so must the preprocessor
			for k, n := 0, 1+g.intn(3); k < n; k++ {
				ws := g.pick([]string{" ", "  ", "\t", " \t", "\v", "\f", "\u00a0", "\u3000"})
				if g.bool() {
					file = append(file, "'ws"+strconv.Itoa(k)+".ex.com,text "+strconv.Itoa(k)+ws)
				} else {
					file = append(file, "Cws"+strconv.Itoa(k)+".ex.com,target.ex.com"+ws)
				}
			}
			g.shuffle(file)
		}
		for _, l := range file {
			toks = append(toks, hexTok([]byte(l)))
		}
		fmt.Fprintf(w, "prep %s %d %s\n", kind, serial, strings.Join(toks, ";"))
	}
}

// ---------------------------------------------------------------------------------------------
// runner

func kvList(mr []dnsdata.MapRecord) string {
	if len(mr) == 0 {
		return "_"
	}
	var p []string
	for _, m := range mr {
		p = append(p, hexTok(m.Key)+"."+hexTok(m.Value))
	}
	return strings.Join(p, ",")
}

func sortedKVs(mr []dnsdata.MapRecord) string {
	if len(mr) == 0 {
		return "_"
	}
	var p []string
	for _, m := range mr {
		p = append(p, hexTok(m.Key)+"."+hexTok(m.Value))
	}
	sort.Strings(p)
	return strings.Join(p, ",")
}

func c09compile(kind string, serial uint32, text []byte) (string, error) {
	c := newCodec(kind, serial)
	mr, err := dnsdata.Parse(bytes.NewReader(text), c, 1)
	if err != nil {
		return "", err
	}
	return sortedKVs(mr), nil
}

func c09run(line string) (string, string) {
	f := strings.Fields(line)
	switch f[0] {
	case "isprint":
		n := strings.Count(f[1], ",") + 1
		return fmt.Sprintf("ranges:%d", n), "-"
	case "conv":
		var serial uint32
		fmt.Sscan(f[2], &serial)
		c := newCodec(f[1], serial)
		mr, err := c.ConvertLn(unhexTok(f[3]))
		if err != nil {
			return "err", "-"
		}
		return "ok:" + kvList(mr), "-"
	case "norm":
		// DecodeLn, MarshalText; DecodeLn + MarshalMap of the marshalled text; MarshalText again
		var serial uint32
		fmt.Sscan(f[2], &serial)
		c := newCodec(f[1], serial)
		r, err := c.DecodeLn(unhexTok(f[3]))
		if err != nil {
			return "err", "-"
		}
		kv1, err := r.MarshalMap()
		if err != nil {
			return "err-map", "-"
		}
		t1, err := r.MarshalText()
		if err != nil {
			return "err-text", "FAIL:marshaltext-error"
		}
		t1 = append([]byte{}, t1...)
		c2 := newCodec(f[1], serial)
		r2, err := c2.DecodeLn(append([]byte{}, t1...))
		if err != nil {
			return "text=" + hexTok(t1) + ";reparse-err", "FAIL:reparse-error"
		}
		kv2, err := r2.MarshalMap()
		if err != nil {
			return "text=" + hexTok(t1) + ";remap-err", "FAIL:remap-error"
		}
		t2, err := r2.MarshalText()
		if err != nil {
			return "text=" + hexTok(t1) + ";retext-err", "FAIL:retext-error"
		}
		verdict := "ok"
		if kvList(kv1) != kvList(kv2) {
			verdict = "FAIL:kvs-differ:" + kvList(kv1)
		} else if !bytes.Equal(t1, t2) {
			verdict = "FAIL:text-not-idempotent"
		}
		return "text=" + hexTok(t1) + ";kvs=" + kvList(kv2) + ";again=" + hexTok(t2), verdict
	case "prep":
		var serial uint32
		fmt.Sscan(f[2], &serial)
		var lines [][]byte
		if len(f) > 3 {
			for _, t := range strings.Split(f[3], ";") {
				lines = append(lines, unhexTok(t))
			}
		}
		orig := append(bytes.Join(lines, []byte("\n")), '\n')
		var out bytes.Buffer
		c := newCodec(f[1], serial)
		perr := c.Preprocess(bytes.NewReader(orig), &out)
		dumpOrig, oerr := c09compile(f[1], serial, orig)
		if perr != nil {
			if oerr == nil {
				return "prep-err", "FAIL:preprocess-rejects-compilable-file"
			}
			return "prep-err", "-"
		}
		pre := append([]byte{}, out.Bytes()...)
		var plain, points []string
		for _, l := range bytes.Split(bytes.TrimSuffix(pre, []byte("\n")), []byte("\n")) {
			if len(pre) == 0 {
				break
			}
			if bytes.HasPrefix(l, []byte("!")) {
				points = append(points, hexTok(l))
			} else {
				plain = append(plain, hexTok(l))
			}
		}
		sort.Strings(points)
		dumpPre, err := c09compile(f[1], serial, pre)
		res := "lines=" + strings.Join(append(plain, points...), ";")
		if err != nil {
			if oerr != nil {
				return res + ";db=err", "-"
			}
			return res + ";db=err", "FAIL:preprocessed-does-not-compile"
		}
		if oerr != nil {
			return res + ";db=" + dumpPre, "FAIL:original-does-not-compile"
		}
		verdict := "ok"
		if dumpOrig != dumpPre {
			verdict = "FAIL:db-differs"
		}
		return res + ";db=" + dumpPre, verdict
	}
	return "bad-op", "-"
}
