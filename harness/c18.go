package main

// C18 — SVCB/HTTPS parameters compile to conformant, faithful wire data.
//
// op line:  svcb <seg;seg;…> <decl|-> <acc|rej|->
//   segs   the `;`-separated segments of the parameter text, each a hex token (`-` = empty)
//   decl   hex of the same declaration in RFC 9460 presentation format (what miekg/dns parses),
//          `-` when the generator has no independent declaration (malformed stream, odd bytes)
//   expect acc = must be accepted, rej = must be rejected (invalid `mandatory`, alpn id of length 0
//          or > 255), - = no expectation
// impl:     ok:<wire hex>:<text hex|panic>   or   err:<class>
//
// Property oracle on the real code (second independent implementation: miekg/dns):
//   accepted ⇒ an HTTPS RR built from priority + target + the produced bytes unpacks with
//   miekg/dns, its keys are strictly increasing, re-packing gives the same bytes, and — when a
//   declaration is given — miekg's own encoding of that declaration is byte-identical;
//   ToText parsed again by FromText gives the same wire bytes.

import (
	"bufio"
	"bytes"
	"encoding/base64"
	"encoding/binary"
	"errors"
	"fmt"
	"net"
	"strconv"
	"strings"

	"github.com/facebookincubator/dns/dnsrocks/dnsdata/svcb"
	"github.com/miekg/dns"
)

func init() {
	props["C18"] = &prop{gen: c18gen, run: c18run}
}

// ---------------------------------------------------------------- run

func c18errClass(err error) string {
	var ne *strconv.NumError
	if errors.As(err, &ne) {
		return "port"
	}
	var ce base64.CorruptInputError
	if errors.As(err, &ce) {
		return "ech"
	}
	m := err.Error()
	switch {
	case m == "mandatory itself cannot be mandatory":
		return "mand-self"
	case m == "the value for no-default-alpn should be empty":
		return "nda-nonempty"
	case strings.HasPrefix(m, "error parsing SVCB/HTTPS parameter: "):
		return "parse"
	case strings.HasPrefix(m, "unknown SVCB/HTTPS parameter: "):
		return "unknown-key"
	case strings.HasPrefix(m, "value for ") && strings.HasSuffix(m, " cannot be empty"):
		return "empty-value"
	case strings.HasSuffix(m, " is not a valid mandatory value"):
		return "mand-invalid"
	case strings.HasSuffix(m, " in mandatory values has appeared more than once"):
		return "mand-dup"
	case strings.HasSuffix(m, " is not a valid IPv4 address"):
		return "ip4-parse"
	case strings.HasSuffix(m, " is a valid address but cannot be converted to 4-byte form"):
		return "ip4-not4"
	case strings.HasSuffix(m, " is not a valid IPv6 address"):
		return "ip6-nocolon"
	case strings.HasSuffix(m, " is not a parsable IPv6 address"):
		return "ip6-parse"
	case strings.HasPrefix(m, "alpn-id ") && strings.HasSuffix(m, " must be 1 to 255 octets long"):
		return "alpn-len"
	case strings.HasSuffix(m, ": keys have to be unique"):
		return "dup-key"
	case strings.HasSuffix(m, " is mandatory but missing in parameter list"):
		return "mand-missing"
	}
	return "other:" + sanitize(m)
}

func c18text(tok string) []byte {
	parts := strings.Split(tok, ";")
	segs := make([][]byte, len(parts))
	for i, p := range parts {
		segs[i] = unhexTok(p)
	}
	return bytes.Join(segs, []byte(";"))
}

// httpsRR wraps params wire bytes into a full HTTPS RR in wire form: owner ".", priority 1, target ".".
func c18rr(params []byte) []byte {
	var b bytes.Buffer
	b.WriteByte(0) // owner .
	binary.Write(&b, binary.BigEndian, uint16(dns.TypeHTTPS))
	binary.Write(&b, binary.BigEndian, uint16(dns.ClassINET))
	binary.Write(&b, binary.BigEndian, uint32(0))
	binary.Write(&b, binary.BigEndian, uint16(2+1+len(params)))
	binary.Write(&b, binary.BigEndian, uint16(1)) // priority
	b.WriteByte(0)                                // target .
	b.Write(params)
	return b.Bytes()
}

func c18toText(l *svcb.ParamList) (txt []byte, panicked bool) {
	defer func() {
		if r := recover(); r != nil {
			panicked = true
		}
	}()
	var tb bytes.Buffer
	l.ToText(&tb)
	return tb.Bytes(), false
}

func c18oracle(wire, txt []byte, panicked bool, decl string) string {
	if len(wire)+3 > 65535 {
		return "FAIL:rdata-too-long"
	}
	full := c18rr(wire)
	rr, off, err := dns.UnpackRR(full, 0)
	if err != nil {
		return "FAIL:miekg-unpack:" + sanitize(err.Error())
	}
	if off != len(full) {
		return "FAIL:miekg-unpack-short"
	}
	h, ok := rr.(*dns.HTTPS)
	if !ok {
		return "FAIL:miekg-not-https"
	}
	last := -1
	for _, kv := range h.Value {
		if int(kv.Key()) <= last {
			return "FAIL:keys-not-increasing"
		}
		last = int(kv.Key())
	}
	buf := make([]byte, 70000)
	n, err := dns.PackRR(rr, buf, 0, nil, false)
	if err != nil {
		return "FAIL:miekg-repack:" + sanitize(err.Error())
	}
	if !bytes.Equal(buf[:n], full) {
		return "FAIL:miekg-repack-differs"
	}
	if decl != "-" {
		d := string(unhexTok(decl))
		want, err := dns.NewRR(". 0 IN HTTPS 1 . " + d)
		if err != nil || want == nil {
			return "FAIL:harness-decl-unparsable"
		}
		m, err := dns.PackRR(want, buf, 0, nil, false)
		if err != nil {
			return "FAIL:harness-decl-unpackable:" + sanitize(err.Error())
		}
		if !bytes.Equal(buf[:m], full) {
			return "FAIL:wire-differs-from-declaration"
		}
	}
	if panicked {
		return "FAIL:totext-panic"
	}
	var l2 svcb.ParamList
	if err := l2.FromText(txt); err != nil {
		return "FAIL:printed-text-rejected-" + c18errClass(err)
	}
	var w2 bytes.Buffer
	if err := l2.ToWire(&w2); err != nil {
		return "FAIL:towire2"
	}
	if !bytes.Equal(w2.Bytes(), wire) {
		return "FAIL:printed-text-other-wire"
	}
	return "ok"
}

func c18run(line string) (string, string) {
	f := strings.Fields(line)
	if len(f) != 4 || f[0] != "svcb" {
		return "bad-op", "-"
	}
	text := c18text(f[1])
	decl, expect := f[2], f[3]
	var l svcb.ParamList
	if err := l.FromText(append([]byte{}, text...)); err != nil {
		verdict := "-"
		switch expect {
		case "acc":
			verdict = "FAIL:rejected-valid-declaration"
		case "rej":
			verdict = "ok"
		}
		return "err:" + c18errClass(err), verdict
	}
	var wb bytes.Buffer
	if err := l.ToWire(&wb); err != nil {
		return "err:towire", "FAIL:towire"
	}
	wire := append([]byte{}, wb.Bytes()...)
	txt, panicked := c18toText(&l)
	impl := "ok:" + hexTok(wire) + ":"
	if panicked {
		impl += "panic"
	} else {
		impl += hexTok(txt)
	}
	if expect == "rej" {
		return impl, "FAIL:accepted-but-must-reject"
	}
	return impl, c18oracle(wire, txt, panicked, decl)
}

// ---------------------------------------------------------------- gen

var c18keys = []string{"mandatory", "alpn", "no-default-alpn", "port", "ipv4hint", "echconfig", "ipv6hint"}

// miekg/dns v1.1.50 presentation names
var c18rfcKeys = []string{"mandatory", "alpn", "no-default-alpn", "port", "ipv4hint", "ech", "ipv6hint"}

var c18alpnIDs = []string{"h2", "h3", "http/1.1", "x", "h2c", "dot", "a-b.c_d", strings.Repeat("y", 255), strings.Repeat("z", 254)}

// address text as written in the data file; the declaration uses Go's canonical form
var c18v4 = []string{"1.2.3.4", "0.0.0.0", "255.255.255.255", "10.0.0.1", "192.0.2.53", "::ffff:1.2.3.4", "::ffff:c000:235", "0:0:0:0:0:ffff:0a00:0001"}
var c18v6 = []string{"::", "::1", "2001:db8::1", "1:2:3:4:5:6:7:8", "2001:DB8:0:0:0:0:0:1", "1::", "::2:3", "1:0:0:2::3",
	"64:ff9b::1.2.3.4", "fe80::1", "0:0:1::", "1:0:0:0:1:0:0:1", "2001:0db8:0000:0000:0000:0000:0000:0001",
	"ffff:ffff:ffff:ffff:ffff:ffff:ffff:ffff", "0:0:0:0:0:0:1.2.3.4", "a:b:c:d:e:f:1.2.3.4", "1:2::3:4"}

type c18p struct {
	key  int
	text string // value text, TinyDNS-like (values joined by |)
	decl string // value in RFC presentation form (values joined by ,); "" for no-default-alpn
}

func c18wrap(g *gen, s string, mode int) string {
	switch mode {
	case 1:
		return `"` + s + `"`
	case 2:
		if g.chance(1, 3) {
			return `"` + s + `"`
		}
	}
	return s
}

func c18value(g *gen, key int, present []int) c18p {
	p := c18p{key: key}
	switch key {
	case 0:
		// valid: non-empty subset of the other present keys, any order
		var others []int
		for _, k := range present {
			if k != 0 {
				others = append(others, k)
			}
		}
		c18shuffle(g, others)
		n := 1 + g.intn(len(others))
		var t, d []string
		for _, k := range others[:n] {
			t = append(t, c18keys[k])
			d = append(d, c18rfcKeys[k])
		}
		p.text, p.decl = strings.Join(t, "|"), strings.Join(d, ",")
	case 1:
		n := 1 + g.intn(3)
		if g.chance(1, 10) {
			n = 1 + g.intn(8)
		}
		var ids []string
		for i := 0; i < n; i++ {
			ids = append(ids, g.pick(c18alpnIDs))
		}
		p.text, p.decl = strings.Join(ids, "|"), strings.Join(ids, ",")
	case 2:
	case 3:
		ports := []string{"0", "1", "53", "443", "8443", "65535", "00443", "65534"}
		s := g.pick(ports)
		if g.chance(1, 4) {
			s = strconv.Itoa(g.intn(65536))
		}
		v, _ := strconv.Atoi(s)
		p.text, p.decl = s, strconv.Itoa(v)
	case 4, 6:
		pool := c18v4
		if key == 6 {
			pool = c18v6
		}
		n := 1 + g.intn(3)
		if g.chance(1, 10) {
			n = 1 + g.intn(6)
		}
		var t, d []string
		for i := 0; i < n; i++ {
			a := g.pick(pool)
			if key == 6 && g.chance(1, 3) {
				// random groups, some zero
				gs := make([]string, 8)
				for j := range gs {
					if g.chance(1, 2) {
						gs[j] = "0"
					} else {
						gs[j] = strconv.FormatInt(int64(g.intn(65536)), 16)
					}
				}
				a = strings.Join(gs, ":")
				if net.ParseIP(a).To4() != nil {
					a = "2001:db8::2"
				}
				if g.bool() {
					a = net.ParseIP(a).String() // compressed form
				}
				if g.chance(1, 4) {
					a = strings.ToUpper(a)
				}
			}
			t = append(t, a)
			d = append(d, net.ParseIP(a).String())
		}
		p.text, p.decl = strings.Join(t, "|"), strings.Join(d, ",")
	case 5:
		n := 1 + g.intn(12)
		if g.chance(1, 8) {
			n = 1 + g.intn(70)
		}
		b := make([]byte, n)
		for i := range b {
			b[i] = byte(g.intn(256))
		}
		s := base64.StdEncoding.EncodeToString(b)
		p.text, p.decl = s, s
	}
	return p
}

func c18shuffle(g *gen, xs []int) {
	for i := len(xs) - 1; i > 0; i-- {
		j := g.intn(i + 1)
		xs[i], xs[j] = xs[j], xs[i]
	}
}

// c18emit writes one valid case from an ordered key list.
func c18emit(g *gen, w *bufio.Writer, order []int, quoteMode int) {
	var segs, decls []string
	byKey := map[int]c18p{}
	for _, k := range order {
		byKey[k] = c18value(g, k, order)
	}
	for _, k := range order {
		p := byKey[k]
		v := c18wrap(g, p.text, quoteMode)
		segs = append(segs, hexTok([]byte(c18keys[k]+"="+v)))
	}
	if g.chance(1, 5) {
		segs = append(segs, "-") // trailing `;`
		if g.chance(1, 3) {
			segs = append(segs, "-")
		}
	}
	// empty segments anywhere (leading `;`, `a;;b`, runs of `;`): skipped by FromText since
	// /repo e9b4da5 (before, everything after the first one was dropped)
	if g.chance(1, 4) {
		segs = c18sprinkle(g, segs)
	}
	// the declaration in RFC presentation form, in key order (presentation order is free)
	for k := 0; k < 7; k++ {
		p, ok := byKey[k]
		if !ok {
			continue
		}
		if k == 2 {
			decls = append(decls, c18rfcKeys[k])
		} else {
			decls = append(decls, c18rfcKeys[k]+"="+p.decl)
		}
	}
	if len(segs) == 0 {
		segs = []string{"-"}
	}
	fmt.Fprintf(w, "svcb %s %s acc\n", strings.Join(segs, ";"), hexTok([]byte(strings.Join(decls, " "))))
}

// c18sprinkle inserts 1..3 empty segments at random positions.
func c18sprinkle(g *gen, segs []string) []string {
	for r := 1 + g.intn(3); r > 0; r-- {
		pos := g.intn(len(segs) + 1)
		segs = append(segs[:pos], append([]string{"-"}, segs[pos:]...)...)
	}
	return segs
}

// c18sprinkleText is c18sprinkle on a `;`-joined text.
func c18sprinkleText(g *gen, text string) string {
	parts := strings.Split(text, ";")
	for r := 1 + g.intn(3); r > 0; r-- {
		pos := g.intn(len(parts) + 1)
		parts = append(parts[:pos], append([]string{""}, parts[pos:]...)...)
	}
	return strings.Join(parts, ";")
}

func c18perms(xs []int, f func([]int)) {
	var rec func(int)
	rec = func(i int) {
		if i == len(xs) {
			f(append([]int{}, xs...))
			return
		}
		for j := i; j < len(xs); j++ {
			xs[i], xs[j] = xs[j], xs[i]
			rec(i + 1)
			xs[i], xs[j] = xs[j], xs[i]
		}
	}
	rec(0)
}

// c18defect reports whether the text falls into the one recorded defect class of the real code
// that is still open (C18-ipv6hint-mapped: an IPv4-mapped address in ipv6hint is printed as a
// dotted quad, which does not parse again; pinned by svcb_test.go); the generator does not emit
// such cases. Empty segments and alpn ids of length 0 / > 255 were excluded here too until
// /repo e9b4da5 and 368102c; they are now part of the regular tiers.
func c18defect(text []byte) bool {
	for _, s := range bytes.Split(text, []byte(";")) {
		kv := bytes.SplitN(s, []byte("="), 2)
		if len(kv) != 2 || string(kv[0]) != "ipv6hint" {
			continue
		}
		for _, a := range bytes.Split(bytes.Trim(kv[1], `"`), []byte("|")) {
			if ip := net.ParseIP(string(a)); ip != nil && ip.To4() != nil {
				return true
			}
		}
	}
	return false
}

func c18emitRaw(w *bufio.Writer, text string, expect string) {
	if c18defect([]byte(text)) {
		return
	}
	parts := strings.Split(text, ";")
	toks := make([]string, len(parts))
	for i, p := range parts {
		toks[i] = hexTok([]byte(p))
	}
	fmt.Fprintf(w, "svcb %s - %s\n", strings.Join(toks, ";"), expect)
}

var c18badValues = map[int][]string{
	0: {"mandatory", "alpn|alpn", "foo", "alpn|foo", "mandatory|foo", "foo|mandatory", "", "|", "alpn|", "ALPN", "key1", "alpn|port|alpn", "alpn,port"},
	1: {"", "|", "h2|", "|h2", "h2||h3", "||", `"`, `""`, `h2|"`, `"|h2`, strings.Repeat("a", 256), "h2|" + strings.Repeat("b", 300), strings.Repeat("c", 255) + "|" + strings.Repeat("d", 256), strings.Repeat("e", 512)},
	2: {"x", "1", `"x"`},
	3: {"65536", "-1", "+1", "", " 80", "80 ", "0x50", "1e3", "99999999999999999999999", "4_4", "٣"},
	4: {"1.2.3", "1.2.3.4.5", "256.1.1.1", "01.2.3.4", "1.2.3.04", "1..2.3", ".1.2.3", "1.2.3.", "::1", "2001:db8::1", "1.2.3.4|", "|1.2.3.4", "1.2.3.4,5.6.7.8", "1.2.3.4 ", "a.b.c.d", "1.2.3.4%eth0", "::ffff:1.2.3.4.5", "0x1.2.3.4"},
	5: {"A", "AA", "AAA", "A===", "AA=A", "AAAA=", "AAAA====", "AA==AAAA", "AAA=AAAA", "@@@@", "AA-_", "AAAA AAAA", "=AAA", "AA="},
	6: {"1.2.3.4", ":::", "1::2::3", "12345::", "1:2:3:4:5:6:7", "1:2:3:4:5:6:7:8:9", "1:2:3:4:5:6:7:8::", "::1:2:3:4:5:6:7:8", "fe80::1%eth0", "fe80::1%", ":", ":1", "1:", "1::g", "::1.2.3", "1:2:3:4:5:6:7:1.2.3.4", "1.2.3.4::", "::1|", "|::1", "::1,::2", "1:2:3:4:5:6:1.2.3.4:7", "::256.1.1.1", "::01.2.3.4", "1::2:3:4:5:6:7:8", "10000::1", "::1 "},
}

func c18gen(g *gen, tier string, w *bufio.Writer) {
	thorough := tier == "thorough"
	// --- hand-picked edges
	for _, t := range []string{"", "alpn=h2", `alpn="h2"`, `alpn=""h2""`, "no-default-alpn=", `no-default-alpn=""`, "port=0", "port=65535",
		"alpn=h2;", "alpn=h2;;", "alpn=h2;;;", `echconfig=""`, "echconfig=AAAA", "echconfig=AA==", "echconfig=AAA=",
		"alpn=a=b", `alpn=a"b`, `alpn=a"|"b`, "alpn=h2;no-default-alpn=", "mandatory=alpn;alpn=h2", "alpn=h2;mandatory=alpn",
		"mandatory=port|alpn;alpn=h2;port=1", "ipv4hint=1.2.3.4", "ipv6hint=::1", "ipv6hint=64:ff9b::1.2.3.4",
		";", ";;", ";alpn=h2", ";;alpn=h2;;", "alpn=h2;;port=443", ";port=1", "mandatory=port;;;port=1", ";alpn=h2;;mandatory=alpn;",
		"alpn=" + strings.Repeat("a", 255), "alpn=x|" + strings.Repeat("a", 255) + "|y"} {
		c18emitRaw(w, t, "acc")
	}
	for _, t := range []string{";mandatory=mandatory", "alpn=h2;;mandatory=mandatory", ";;mandatory=port", "alpn=h2;;mandatory=port|alpn", "port=1;;port=2",
		"alpn=h2||h3", "alpn=|h2", "alpn=h2|", `alpn=""`, "alpn=|", "alpn=" + strings.Repeat("a", 256), "alpn=h2|" + strings.Repeat("a", 256) + "|h3",
		"alpn=" + strings.Repeat("a", 511), "alpn=" + strings.Repeat("a", 512), ";alpn=h2||h3", "port=1;;alpn=" + strings.Repeat("a", 256)} {
		c18emitRaw(w, t, "rej")
	}
	// --- every order
	all := []int{0, 1, 2, 3, 4, 5, 6}
	if thorough {
		for r := 0; r < 2; r++ {
			c18perms(append([]int{}, all...), func(o []int) { c18emit(g, w, o, 2) })
		}
	} else {
		// all orders of every 3-subset and of one 5-subset, 200 random orders of all seven
		for a := 0; a < 7; a++ {
			for b := a + 1; b < 7; b++ {
				for c := b + 1; c < 7; c++ {
					c18perms([]int{a, b, c}, func(o []int) { c18emit(g, w, o, 2) })
				}
			}
		}
		c18perms([]int{0, 1, 3, 4, 6}, func(o []int) { c18emit(g, w, o, 2) })
		for i := 0; i < 200; i++ {
			o := append([]int{}, all...)
			c18shuffle(g, o)
			c18emit(g, w, o, 2)
		}
	}
	// --- random subsets, random order
	n := 3000
	if thorough {
		n = 60000
	}
	for i := 0; i < n; i++ {
		var o []int
		for k := 0; k < 7; k++ {
			if g.chance(1, 2) {
				o = append(o, k)
			}
		}
		if len(o) == 1 && o[0] == 0 {
			o = append(o, 1+g.intn(6))
		}
		c18shuffle(g, o)
		c18emit(g, w, o, g.intn(3))
	}
	// --- invalid `mandatory` lists: must be rejected
	for i := 0; i < n/4; i++ {
		var o []int
		for k := 1; k < 7; k++ {
			if g.chance(1, 2) {
				o = append(o, k)
			}
		}
		var segs []string
		for _, k := range o {
			p := c18value(g, k, o)
			segs = append(segs, c18keys[k]+"="+p.text)
		}
		var m string
		switch g.intn(4) {
		case 0: // names a missing key
			var missing []int
			for k := 1; k < 7; k++ {
				found := false
				for _, x := range o {
					found = found || x == k
				}
				if !found {
					missing = append(missing, k)
				}
			}
			if len(missing) == 0 {
				continue
			}
			names := []string{c18keys[missing[g.intn(len(missing))]]}
			for _, k := range o {
				if g.bool() {
					names = append(names, c18keys[k])
				}
			}
			ix := make([]int, len(names))
			for j := range ix {
				ix[j] = j
			}
			c18shuffle(g, ix)
			var nn []string
			for _, j := range ix {
				nn = append(nn, names[j])
			}
			m = strings.Join(nn, "|")
		case 1: // repeats a key
			if len(o) == 0 {
				continue
			}
			k := c18keys[o[g.intn(len(o))]]
			names := []string{k, k}
			for _, x := range o {
				if g.chance(1, 3) {
					names = append(names, c18keys[x])
				}
			}
			m = strings.Join(names, "|")
		case 2: // names itself
			names := []string{"mandatory"}
			for _, x := range o {
				if g.chance(1, 3) {
					names = append(names, c18keys[x])
				}
			}
			if g.bool() && len(names) > 1 {
				names[0], names[len(names)-1] = names[len(names)-1], names[0]
			}
			m = strings.Join(names, "|")
		default: // two mandatory parameters
			if len(o) == 0 {
				continue
			}
			m = c18keys[o[0]]
			segs = append(segs, "mandatory="+m)
		}
		pos := g.intn(len(segs) + 1)
		segs = append(segs[:pos], append([]string{"mandatory=" + m}, segs[pos:]...)...)
		t := strings.Join(segs, ";")
		if g.chance(1, 3) {
			t = c18sprinkleText(g, t) // also behind / between empty segments
		}
		c18emitRaw(w, t, "rej")
	}
	// --- alpn ids of length 0 or > 255 inside otherwise valid lists: must be rejected
	// (accepted with a malformed value until /repo 368102c)
	for i := 0; i < n/4; i++ {
		o := []int{1}
		for k := 2; k < 7; k++ {
			if g.chance(1, 3) {
				o = append(o, k)
			}
		}
		c18shuffle(g, o)
		var segs []string
		for _, k := range o {
			p := c18value(g, k, o)
			if k == 1 {
				ids := strings.Split(p.text, "|")
				bad := ""
				switch g.intn(4) {
				case 0:
					bad = strings.Repeat("q", 256)
				case 1:
					bad = strings.Repeat("r", 257+g.intn(600))
				}
				pos := g.intn(len(ids) + 1)
				ids = append(ids[:pos], append([]string{bad}, ids[pos:]...)...)
				p.text = strings.Join(ids, "|")
			}
			segs = append(segs, c18keys[k]+"="+c18wrap(g, p.text, 2))
		}
		t := strings.Join(segs, ";")
		if g.chance(1, 4) {
			t = c18sprinkleText(g, t)
		}
		c18emitRaw(w, t, "rej")
	}
	// --- malformed stream
	for k, bad := range [][]string{c18badValues[0], c18badValues[1], c18badValues[2], c18badValues[3], c18badValues[4], c18badValues[5], c18badValues[6]} {
		for _, v := range bad {
			c18emitRaw(w, c18keys[k]+"="+v, "-")
			c18emitRaw(w, c18keys[k]+`="`+v+`"`, "-")
			if k == 1 {
				c18emitRaw(w, "port=1;;"+c18keys[k]+"="+v+";", "rej")
				continue
			}
			c18emitRaw(w, "alpn=h2;"+c18keys[k]+"="+v+";port=1", "-")
			c18emitRaw(w, ";;"+c18keys[k]+"="+v+";port=1", "-")
		}
	}
	for _, t := range []string{"alpn", "=", "=h2", "alpn=h2;alpn=h3", "port=1;port=1", "foo=bar", "ALPN=h2", "ech=AAAA", "alpn =h2", " alpn=h2", "key7=x",
		"no-default-alpn", "alpn=h2;no-default-alpn", "alpn=h2;foo", "alpn=h2;port=;", "port=1;alpn=h2;port=2", "alpn=h2 port=1", "alpn=h2,port=1",
		"port=65536", "alpn=h2;port=65536", "port=65536;alpn", "alpn=h2;port=1;mandatory=ipv4hint;port=2"} {
		c18emitRaw(w, t, "-")
	}
	// mutations of valid texts: delete / replace / insert one byte
	alphabet := []byte(`;=|"".:,%- aA0159fgz/+` + "\r\n\x00\xff")
	m := n
	for i := 0; i < m; i++ {
		var o []int
		for k := 0; k < 7; k++ {
			if g.chance(2, 5) {
				o = append(o, k)
			}
		}
		if len(o) == 0 || (len(o) == 1 && o[0] == 0) {
			continue
		}
		c18shuffle(g, o)
		var segs []string
		for _, k := range o {
			p := c18value(g, k, o)
			segs = append(segs, c18keys[k]+"="+c18wrap(g, p.text, 2))
		}
		t := []byte(strings.Join(segs, ";"))
		if g.chance(1, 5) {
			t = []byte(c18sprinkleText(g, string(t)))
		}
		for r := 1 + g.intn(2); r > 0 && len(t) > 0; r-- {
			pos := g.intn(len(t))
			switch g.intn(3) {
			case 0:
				t = append(t[:pos], t[pos+1:]...)
			case 1:
				t[pos] = g.pickByte(alphabet)
			default:
				t = append(t[:pos], append([]byte{g.pickByte(alphabet)}, t[pos:]...)...)
			}
		}
		if bytes.ContainsAny(t, " \t") && false {
			continue
		}
		c18emitRaw(w, string(t), "-")
	}
}
