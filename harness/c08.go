package main

// C08 — applying a diff gives the database of the new data file.
//
// op lines:
//
//	chain <class>:<serial> <extra> <dict> <A> [<diff> <B>]*
//	mtime <class>:<tA>:<tD>:<tB> <extra> <dictA> <dictD> <dictB> <A> <diff> <B>
//
// class : rdb1 | rdb2 (key layout); serial = mtime given to every data file and diff file
// extra : the feature record (k.v)
// dict  : `;`-separated `<data line hex>=<records>`, records = k.v,k.v | _ (none) | ! (rejected): the
//
//	output of the real Codec.ConvertLn for every line the codec is asked about (black box)
//
// A, B  : `;`-separated raw lines of PREPROCESSED data files (hex; `-` = empty line; `_` = no lines);
//
//	B = `!` : the diff is expected not to apply
//
// diff  : `;`-separated raw lines of the diff file
//
// run (chain): writes A, really compiles it (batch compiler), then for every step writes the diff
// file, calls the real rdb.ApplyDiff(diffpath, dbpath), dumps the database completely and compares
// it with a fresh real compile of B (verdict P) — for failing diffs: an error must be returned and
// the raw dump must be byte-for-byte the dump before.
// output: `c=<r>;<step>;…`, r = ok:n=<records>,k=<keys>,h=<fnv64 of canonical dump>,
// step = r | err:<parse|convert|batch|other>:<same|changed>.
// run (mtime): one step with different mtimes for A, the diff file and B;
// output `c=<r>;<step>;fresh=<r of compiling B>;eq=<0|1>`.

import (
	"bufio"
	"bytes"
	"fmt"
	"hash/fnv"
	"io"
	"os"
	"path/filepath"
	"sort"
	"strconv"
	"strings"
	"time"

	rocksdb "github.com/facebookincubator/dns/dnsrocks/cgo-rocksdb"
	"github.com/facebookincubator/dns/dnsrocks/dnsdata"
	"github.com/facebookincubator/dns/dnsrocks/dnsdata/rdb"
)

func init() {
	props["C08"] = &prop{gen: c08gen, run: c08run, setup: c08setup, teardown: c08teardown}
}

var (
	c08dir string
	c08seq int
)

func c08setup() {
	d, err := os.MkdirTemp("", "c08-")
	if err != nil {
		fatal("%v", err)
	}
	c08dir = d
}

func c08teardown() {
	os.RemoveAll(c08dir)
	if ms, _ := filepath.Glob(filepath.Join(os.TempDir(), "rdb-log-*")); ms != nil {
		for _, m := range ms {
			os.RemoveAll(m)
		}
	}
}

// ---------------------------------------------------------------------------------------------
// codec (black box)

// = rdb.initCodec (unexported) + the key layout
func c08codec(class string, serial uint32) *dnsdata.Codec {
	class = strings.TrimSuffix(class, "b")
	c := new(dnsdata.Codec)
	c.Serial = serial
	c.Acc.Ranger.Enable()
	c.Acc.NoPrefixSets = true
	c.NoRnetOutput = true
	c.Features.UseV2Keys = class == "rdb2"
	return c
}

func c08pairs(rs []dnsdata.MapRecord) string {
	if len(rs) == 0 {
		return "_"
	}
	var sb strings.Builder
	for i, r := range rs {
		if i > 0 {
			sb.WriteByte(',')
		}
		sb.WriteString(hexTok(r.Key))
		sb.WriteByte('.')
		sb.WriteString(hexTok(r.Value))
	}
	return sb.String()
}

// c08convert = what ConvertLn says about one line. The empty line is out of ConvertLn's domain
// (`text[:1]`); neither the compiler nor ApplyDiff hand it one (lines / payloads shorter than 2 bytes
// are skipped), so it never gets into a dictionary.
func c08convert(c *dnsdata.Codec, line []byte) (res string) {
	if len(line) == 0 || len(line) >= bufio.MaxScanTokenSize-1 {
		// (a line of 64 KiB cannot be read by the line scanner of the compiler or of ApplyDiff: it
		// is malformed for both, whatever the codec would make of it)
		return "!"
	}
	defer func() {
		if recover() != nil {
			res = "!panic"
		}
	}()
	out, err := c.ConvertLn(append([]byte{}, line...))
	if err != nil {
		return "!"
	}
	return c08pairs(out)
}

// parser.go parse(): which lines of a data file reach the codec
func c08codecLine(line []byte) ([]byte, bool) {
	l := bytes.TrimLeft(line, " ")
	return l, !(len(l) < 2 || bytes.HasPrefix(l, []byte("#")))
}

// applydiff.go: the payload ConvertLn sees for a diff line (ok=false: skipped or bad op): the rest of
// the line after the operation byte goes through the compiler's filter
func c08payload(line []byte) ([]byte, bool) {
	if len(line) < 1 || line[0] == '#' {
		return nil, false
	}
	if line[0] != '+' && line[0] != '-' {
		return nil, false
	}
	return c08codecLine(line[1:])
}

type c08dict struct {
	keys []string
	seen map[string]bool
}

func (d *c08dict) add(line []byte) {
	if d.seen == nil {
		d.seen = map[string]bool{}
	}
	if !d.seen[string(line)] {
		d.seen[string(line)] = true
		d.keys = append(d.keys, string(line))
	}
}

func (d *c08dict) addFile(lines []string) {
	for _, l := range lines {
		if cl, ok := c08codecLine([]byte(l)); ok {
			d.add(cl)
		}
	}
}

func (d *c08dict) addDiff(lines []string) {
	for _, l := range lines {
		if p, ok := c08payload([]byte(l)); ok {
			d.add(p)
		}
	}
}

func (d *c08dict) render(class string, serial uint32) string {
	if len(d.keys) == 0 {
		return "_"
	}
	c := c08codec(class, serial)
	var sb strings.Builder
	for i, k := range d.keys {
		if i > 0 {
			sb.WriteByte(';')
		}
		sb.WriteString(hexTok([]byte(k)))
		sb.WriteByte('=')
		sb.WriteString(c08convert(c, []byte(k)))
	}
	return sb.String()
}

func c08extra(class string, serial uint32) string {
	c := c08codec(class, serial)
	f, err := c.Features.MarshalMap()
	if err != nil {
		panic(err)
	}
	return c08pairs(f)
}

func c08linesTok(lines []string) string {
	if len(lines) == 0 {
		return "_"
	}
	t := make([]string, len(lines))
	for i, l := range lines {
		t[i] = hexTok([]byte(l))
	}
	return strings.Join(t, ";")
}

func c08parseLines(tok string) []string {
	if tok == "_" {
		return nil
	}
	parts := strings.Split(tok, ";")
	out := make([]string, len(parts))
	for i, p := range parts {
		out[i] = string(unhexTok(p))
	}
	return out
}

// ---------------------------------------------------------------------------------------------
// dumping

type c08rec struct{ k, v []byte }

func c08canon(recs []c08rec) string {
	sort.Slice(recs, func(i, j int) bool {
		if c := bytes.Compare(recs[i].k, recs[j].k); c != 0 {
			return c < 0
		}
		return bytes.Compare(recs[i].v, recs[j].v) < 0
	})
	h := fnv.New64a()
	keys := 0
	for i, r := range recs {
		if i > 0 && bytes.Equal(recs[i-1].k, r.k) {
			io.WriteString(h, ",")
			io.WriteString(h, hexTok(r.v))
			continue
		}
		if i > 0 {
			io.WriteString(h, "\n")
		}
		keys++
		io.WriteString(h, hexTok(r.k))
		io.WriteString(h, "=")
		io.WriteString(h, hexTok(r.v))
	}
	if len(recs) > 0 {
		io.WriteString(h, "\n")
	}
	return fmt.Sprintf("ok:n=%d,k=%d,h=%d", len(recs), keys, h.Sum64())
}

// c08dump: raw = every key with its stored bytes in iterator order (byte-for-byte comparison),
// canon = digest of the decoded records, sorted = decoded records as sorted text (full comparison)
type c08dumped struct {
	raw    string
	canon  string
	sorted string
}

func c08dump(path string) c08dumped {
	opts := rocksdb.NewOptions()
	db, err := rocksdb.OpenDatabase(path, true, false, opts)
	if err != nil {
		opts.FreeOptions()
		return c08dumped{canon: "openerr:" + sanitize(err.Error())}
	}
	defer db.CloseDatabase()
	ro := rocksdb.NewDefaultReadOptions()
	defer ro.FreeReadOptions()
	it := db.CreateIterator(ro)
	defer it.FreeIterator()
	var recs []c08rec
	var raw strings.Builder
	for it.SeekToFirst(); it.IsValid(); it.Next() {
		k := append([]byte{}, it.Key()...)
		data := append([]byte{}, it.Value()...)
		raw.WriteString(hexTok(k))
		raw.WriteByte('=')
		raw.WriteString(hexTok(data))
		raw.WriteByte('\n')
		n := 0
		for {
			chunk, rest, err := rdb.ReadNextChunk(data)
			if err == io.EOF {
				break
			}
			if err != nil {
				return c08dumped{raw: raw.String(), canon: "corrupt"}
			}
			recs = append(recs, c08rec{k, chunk})
			data = rest
			n++
		}
		if n == 0 {
			return c08dumped{raw: raw.String(), canon: "corrupt"} // a stored key without values
		}
	}
	if err := it.GetError(); err != nil {
		return c08dumped{canon: "itererr:" + sanitize(err.Error())}
	}
	canon := c08canon(recs) // sorts recs
	var sb strings.Builder
	for _, r := range recs {
		sb.WriteString(hexTok(r.k))
		sb.WriteByte('=')
		sb.WriteString(hexTok(r.v))
		sb.WriteByte('\n')
	}
	return c08dumped{raw: raw.String(), canon: canon, sorted: sb.String()}
}

// ---------------------------------------------------------------------------------------------
// the real code

func c08writeFile(name string, lines []string, serial uint32) string {
	c08seq++
	p := filepath.Join(c08dir, fmt.Sprintf("%s%d", name, c08seq))
	var buf bytes.Buffer
	for _, l := range lines {
		buf.WriteString(l)
		buf.WriteByte('\n')
	}
	if err := os.WriteFile(p, buf.Bytes(), 0o644); err != nil {
		panic(err)
	}
	mt := time.Unix(int64(serial), 0)
	if err := os.Chtimes(p, mt, mt); err != nil {
		panic(err)
	}
	return p
}

// c08compile really compiles a data file into a fresh directory (batch compiler; never
// BatchNumParallel 0: known hang C07-batch-hang)
func c08compile(class string, lines []string, serial uint32) (dir string, err error) {
	dataPath := c08writeFile("data", lines, serial)
	defer os.Remove(dataPath)
	c08seq++
	dir = filepath.Join(c08dir, fmt.Sprintf("db%d", c08seq))
	if err := os.MkdirAll(dir, 0o755); err != nil {
		panic(err)
	}
	o := rdb.CompilationOptions{UseV2KeySyntax: strings.HasPrefix(class, "rdb2"), BatchNumParallel: 2, NumCPU: 2}
	if strings.HasSuffix(class, "b") {
		// the SST-file builder (slow to set up: it reserves room for 2*10^7 entries)
		o = rdb.CompilationOptions{UseV2KeySyntax: strings.HasPrefix(class, "rdb2"), UseBuilder: true, NumCPU: 2}
	}
	t0 := time.Now()
	_, err = rdb.CompileToSpecificRDBVersion(dataPath, dir, o)
	c08timing("compile", t0)
	return dir, err
}

func c08timing(what string, t0 time.Time) {
	if os.Getenv("C08_TIMING") != "" {
		fmt.Fprintf(os.Stderr, "%s %v\n", what, time.Since(t0))
	}
}

func c08errClass(err error) string {
	s := err.Error()
	switch {
	case strings.HasPrefix(s, "parse error for input line"):
		return "parse"
	case strings.HasPrefix(s, "conversion error for line"):
		return "convert"
	case strings.HasPrefix(s, "database update failed"):
		return "batch"
	case strings.Contains(s, "token too long"):
		return "convert" // the over-long line is a malformed line (the dictionary marks it rejected)
	}
	return "other"
}

// c08apply runs the real rdb.ApplyDiff and reports the step result and the dump afterwards
func c08apply(dir string, diff []string, serial uint32, before c08dumped) (string, c08dumped) {
	diffPath := c08writeFile("diff", diff, serial)
	defer os.Remove(diffPath)
	t0 := time.Now()
	err := rdb.ApplyDiff(diffPath, dir)
	c08timing("applydiff", t0)
	t0 = time.Now()
	after := c08dump(dir)
	c08timing("dump", t0)
	if err != nil {
		same := "same"
		if after.raw != before.raw {
			same = "changed"
		}
		return "err:" + c08errClass(err) + ":" + same, after
	}
	return after.canon, after
}

func c08classSerials(tok string, n int) (string, []uint32, bool) {
	p := strings.Split(tok, ":")
	if len(p) != n+1 || (p[0] != "rdb1" && p[0] != "rdb2" && p[0] != "rdb1b" && p[0] != "rdb2b") {
		return "", nil, false
	}
	ser := make([]uint32, n)
	for i := 0; i < n; i++ {
		v, err := strconv.ParseUint(p[i+1], 10, 32)
		if err != nil {
			return "", nil, false
		}
		ser[i] = uint32(v)
	}
	return p[0], ser, true
}

// stale check: the dictionary in the op line is what the real codec says
func c08checkDict(class string, serial uint32, tok string) string {
	if tok == "_" {
		return ""
	}
	c := c08codec(class, serial)
	for i, e := range strings.Split(tok, ";") {
		p := strings.SplitN(e, "=", 2)
		if len(p) != 2 {
			return "bad-dict"
		}
		if got := c08convert(c, unhexTok(p[0])); got != p[1] {
			return fmt.Sprintf("stale-dict-%d", i)
		}
	}
	// a preprocessed file has no `%` line: nothing accumulated
	acc, err := c.Acc.MarshalMap()
	if err != nil || len(acc) != 0 {
		return "accumulator-not-empty"
	}
	return ""
}

func c08run(line string) (string, string) {
	f := strings.Fields(line)
	if len(f) == 0 {
		return "bad-op", "FAIL:bad-op"
	}
	switch f[0] {
	case "chain":
		return c08runChain(f)
	case "mtime":
		return c08runMtime(f)
	}
	return "bad-op", "FAIL:bad-op"
}

func c08runChain(f []string) (string, string) {
	if len(f) < 5 || (len(f)-5)%2 != 0 {
		return "bad-op", "FAIL:bad-op"
	}
	class, sers, ok := c08classSerials(f[1], 1)
	if !ok {
		return "bad-op", "FAIL:bad-op"
	}
	serial := sers[0]
	if f[2] != c08extra(class, serial) {
		return "stale", "FAIL:stale-extra"
	}
	if why := c08checkDict(class, serial, f[3]); why != "" {
		return "stale", "FAIL:" + why
	}
	a := c08parseLines(f[4])
	dir, err := c08compile(class, a, serial)
	defer os.RemoveAll(dir)
	if err != nil {
		return "c=fail", "FAIL:compile-A-failed"
	}
	cur := c08dump(dir)
	outs := []string{"c=" + cur.canon}
	verdict := ""
	fail := func(step int, why string) {
		if verdict == "" {
			verdict = fmt.Sprintf("FAIL:step%d-%s", step, why)
		}
	}
	for i := 5; i+1 < len(f); i += 2 {
		step := (i - 5) / 2
		diff := c08parseLines(f[i])
		res, after := c08apply(dir, diff, serial, cur)
		outs = append(outs, res)
		if f[i+1] == "!" {
			// must fail as a whole and leave the database exactly as it was
			if !strings.HasPrefix(res, "err:") {
				fail(step, "diff-applied-but-failure-expected")
			} else if after.raw != cur.raw {
				fail(step, "failed-diff-changed-the-database")
			}
		} else {
			if strings.HasPrefix(res, "err:") {
				fail(step, "diff-rejected:"+res)
				if after.raw != cur.raw {
					fail(step, "failed-diff-changed-the-database")
				}
			} else {
				// impl vs impl: a fresh real compile of B
				fdir, err := c08compile(strings.TrimSuffix(class, "b"), c08parseLines(f[i+1]), serial)
				if err != nil {
					fail(step, "compile-B-failed")
				} else {
					fresh := c08dump(fdir)
					if fresh.sorted != after.sorted || fresh.canon != after.canon {
						fail(step, "differs-from-fresh-compile:"+after.canon+"-want-"+fresh.canon)
					}
				}
				os.RemoveAll(fdir)
			}
		}
		cur = after
	}
	if verdict == "" {
		verdict = "ok"
	}
	return strings.Join(outs, ";"), verdict
}

func c08runMtime(f []string) (string, string) {
	if len(f) != 9 {
		return "bad-op", "FAIL:bad-op"
	}
	class, sers, ok := c08classSerials(f[1], 3)
	if !ok {
		return "bad-op", "FAIL:bad-op"
	}
	tA, tD, tB := sers[0], sers[1], sers[2]
	if f[2] != c08extra(class, tA) {
		return "stale", "FAIL:stale-extra"
	}
	for i, t := range []uint32{tA, tD, tB} {
		if why := c08checkDict(class, t, f[3+i]); why != "" {
			return "stale", "FAIL:" + why
		}
	}
	dir, err := c08compile(class, c08parseLines(f[6]), tA)
	defer os.RemoveAll(dir)
	if err != nil {
		return "c=fail", "FAIL:compile-A-failed"
	}
	cur := c08dump(dir)
	res, after := c08apply(dir, c08parseLines(f[7]), tD, cur)
	fdir, err := c08compile(class, c08parseLines(f[8]), tB)
	defer os.RemoveAll(fdir)
	if err != nil {
		return "c=fail", "FAIL:compile-B-failed"
	}
	fresh := c08dump(fdir)
	eq := "0"
	if fresh.sorted == after.sorted {
		eq = "1"
	}
	// the statement has no mtime precondition: the patched database must equal the fresh compile
	verdict := "ok"
	if eq != "1" || strings.HasPrefix(res, "err:") {
		verdict = "FAIL:equal-mtimes-but-differs"
		if !(tA == tD && tD == tB) {
			verdict = "FAIL:differs-from-fresh-compile(mtimes-differ)"
		}
	}
	if strings.HasPrefix(res, "err:") && after.raw != cur.raw {
		verdict = "FAIL:failed-diff-changed-the-database"
	}
	return fmt.Sprintf("c=%s;%s;fresh=%s;eq=%s", cur.canon, res, fresh.canon, eq), verdict
}

// ---------------------------------------------------------------------------------------------
// generator

// c08preprocess runs the real preprocessor (cmd/dnsrocks-preproc settings) over raw lines
func c08preprocess(raw []string, serial uint32) []string {
	c := new(dnsdata.Codec)
	c.Acc.Ranger.Enable()
	c.Acc.NoPrefixSets = true
	c.NoRnetOutput = true
	c.Serial = serial
	var out bytes.Buffer
	if err := c.Preprocess(strings.NewReader(strings.Join(raw, "\n")+"\n"), &out); err != nil {
		panic("preprocess: " + err.Error())
	}
	s := strings.TrimSuffix(out.String(), "\n")
	if s == "" {
		return nil
	}
	return strings.Split(s, "\n")
}

// c08oddLine: lines the compiler filters (parser.go: leading blanks trimmed, lines shorter than 2
// bytes skipped). Preprocess copies them as they are, so they occur in preprocessed files and in
// diffs between them; ApplyDiff must filter the payloads the same way. (`%`, `Z` are not used here:
// Preprocess interprets them by the first byte, a blank in front would smuggle them past it.)
func (g *gen) c08oddLine(line string) string {
	if g.chance(1, 3) || line == "" || strings.HasPrefix(line, "%") || strings.HasPrefix(line, "Z") {
		return g.pick([]string{"C", "+", "-", "x", " ", "=", "&", "  ", "   ", " C", "  +"})
	}
	return g.pick([]string{" ", "  ", "     "}) + line
}

var c08nets = []string{"10.0.0.0/8", "10.1.0.0/16", "10.1.2.0/24", "192.168.0.0/16", "192.168.7.0/24", "0.0.0.0/0", "2001:db8::/32", "2001:db8:1::/48", "::/0", "172.16.0.0/12", "10.200.0.0/13"}

func (g *gen) c08netLine() string {
	return fmt.Sprintf("%%%s,%s,%s", g.pick([]string{"aa", "bb", "dd", `\000\001`}), g.pick(c08nets), g.pick([]string{"m1", "e1"}))
}

func (g *gen) c08newLine(df *dataFile, o dataOpts) string {
	z := df.zones[g.intn(len(df.zones))]
	switch g.intn(10) {
	case 0:
		return g.c08netLine()
	case 1:
		return g.join(".", []string{g.label(o) + "." + z.name, g.pick([]string{"", g.ip4()}), g.pick([]string{"a", "ns1." + z.name}), g.ttl(), "", ""})
	case 2:
		return g.join("Z", []string{g.label(o) + "." + z.name, "ns1." + z.name, "hostmaster." + z.name, g.pick([]string{"", "2024010101", "7"}), "", "", "", "", g.ttl(), "", ""})
	}
	name := z.name
	if len(z.owners) > 0 && g.chance(2, 3) {
		name = g.pick(z.owners) // another value under an existing key
	} else if g.bool() {
		name = g.label(o) + "." + z.name
	}
	line := g.recordLine(df, o, name, z.name)
	if g.chance(1, 6) {
		return g.c08oddLine(line) // leading blanks / a one-byte line
	}
	return line
}

// c08edit: random edits of a raw data file
func (g *gen) c08edit(df *dataFile, o dataOpts, raw []string) []string {
	out := append([]string{}, raw...)
	n := 1 + g.intn(6)
	if len(raw) > 80 && g.bool() {
		n = 10 + g.intn(30)
	}
	for i := 0; i < n; i++ {
		switch g.intn(7) {
		case 0, 1: // add
			out = append(out, g.c08newLine(df, o))
		case 2: // remove
			if len(out) > 0 {
				j := g.intn(len(out))
				out = append(out[:j], out[j+1:]...)
			}
		case 3: // change
			if len(out) > 0 {
				out[g.intn(len(out))] = g.c08newLine(df, o)
			}
		case 4: // duplicate a line (the same record twice under one key)
			if len(out) > 0 {
				out = append(out, out[g.intn(len(out))])
			}
		case 5: // subnets change: range points move
			var idx []int
			for j, l := range out {
				if strings.HasPrefix(l, "%") {
					idx = append(idx, j)
				}
			}
			if len(idx) > 0 && g.bool() {
				j := idx[g.intn(len(idx))]
				if g.bool() {
					out = append(out[:j], out[j+1:]...)
				} else {
					out[j] = g.c08netLine()
				}
			} else {
				out = append(out, g.c08netLine())
			}
		case 6: // remove one copy of a duplicated line, if there is one
			seen := map[string]int{}
			for j, l := range out {
				if _, ok := seen[l]; ok {
					out = append(out[:j], out[j+1:]...)
					break
				}
				seen[l] = j
			}
		}
	}
	g.shuffle(out)
	return out
}

// c08rawOK: the rearranger rejects some subnet combinations (C05's business); only files the real
// preprocessor accepts are used
func c08rawOK(raw []string, serial uint32) (ok bool) {
	defer func() {
		if recover() != nil {
			ok = false
		}
	}()
	c08preprocess(raw, serial)
	return true
}

// c08diff: the line diff as multiset difference, in random order, sometimes with comments and
// empty lines
func (g *gen) c08diff(a, b []string) []string {
	cnt := map[string]int{}
	for _, l := range a {
		cnt[l]--
	}
	for _, l := range b {
		cnt[l]++
	}
	keys := make([]string, 0, len(cnt))
	for k := range cnt {
		keys = append(keys, k)
	}
	sort.Strings(keys)
	var out []string
	for _, k := range keys {
		for i := 0; i < cnt[k]; i++ {
			out = append(out, "+"+k)
		}
		for i := 0; i < -cnt[k]; i++ {
			out = append(out, "-"+k)
		}
	}
	if g.chance(1, 4) {
		out = append(out, "# comment "+strconv.Itoa(g.intn(100)))
	}
	if g.chance(1, 6) {
		out = append(out, "")
	}
	// noise: payloads the compiler would not read either (bare operation, shorter than 2 bytes after
	// trimming, comments) are skipped, whatever the codec would say about them
	if g.chance(1, 3) {
		for i, n := 0, 1+g.intn(2); i < n; i++ {
			out = append(out, g.pick([]string{"+", "-", "+ ", "-   ", "+C", "-C", "- x", "+  %", "+  #note", "-#note", "+ #", "-#"}))
		}
	}
	// a redundant pair: the same line added and removed (A ⊎ plus = B ⊎ minus still holds)
	if len(a) > 0 && g.chance(1, 6) {
		l := g.pick(a)
		out = append(out, "+"+l, "-"+l)
	}
	g.shuffle(out)
	return out
}

// c08failing: a diff that cannot be applied: a valid diff cur->b plus one offending line
func (g *gen) c08failing(cur, b []string) []string {
	out := g.c08diff(cur, b)
	has := map[string]int{}
	for _, l := range cur {
		has[l]++
	}
	var bad string
	switch g.intn(9) {
	case 0, 1: // a value that is absent under a present key / an absent key
		bad = "-+absent.ex.com,10.9.9.9,60"
		if len(cur) > 0 && g.bool() {
			for _, l := range cur {
				if strings.HasPrefix(l, "+") && len(l) > 2 {
					// same owner (a present key), an address no generated line has
					owner := l[1:]
					if j := strings.IndexAny(owner, ",:"); j >= 0 {
						owner = owner[:j]
					}
					bad = "-+" + owner + ",10.250.250.250,60"
					break
				}
			}
		}
	case 2: // one removal too many of a present line (one that reaches the codec)
		var real []string
		for _, l := range cur {
			if _, ok := c08codecLine([]byte(l)); ok {
				real = append(real, l)
			}
		}
		if len(real) > 0 {
			l := g.pick(real)
			n := has[l]
			for _, d := range out {
				if d == "-"+l {
					n--
				}
				if d == "+"+l {
					n++
				}
			}
			for i := 0; i <= n; i++ {
				out = append(out, "-"+l)
			}
			g.shuffle(out)
			return out
		}
		bad = "-+absent.ex.com,10.9.9.9,60"
	case 3: // unknown record type
		bad = g.pick([]string{"+?unknown.prefix,1.2.3.4", "-Xfoo", "+$x"})
	case 4: // bad operation
		bad = g.pick([]string{"*+a.ex.com,1.2.3.4", " +a.ex.com,1.2.3.4", "a", "=a.ex.com,1.2.3.4", "!m1,10.0.0.0,8,aa"})
	case 5: // the codec rejects the line
		bad = g.pick([]string{`++bad.loc.ex.com,1.2.3.4,,,\9z`, "-%aa,not-a-cidr,m1", `-'t.ex.com,x,60,,toolongloc`})
	case 6: // a rejected line behind leading blanks: trimmed, then still rejected
		bad = g.pick([]string{"+  ?unknown.prefix,1.2.3.4", "-   Xfoo", "+ $x", `-  't.ex.com,x,60,,toolongloc`})
	case 7: // a line the scanner cannot read (70 KB), after lines that apply
		bad = "+:big.ex.com,16," + strings.Repeat(`\141`, 17500)
	default: // removing a range point that is not there
		bad = "-!m1,10.77.0.0,16,aa"
	}
	pos := g.intn(len(out) + 1)
	out = append(out[:pos], append([]string{bad}, out[pos:]...)...)
	return out
}

func (g *gen) c08rawFile(o dataOpts, serial uint32, bulk int) (*dataFile, []string) {
	for {
		df := g.genDataFile(o)
		raw := append([]string{}, df.lines...)
		for i, n := 0, g.intn(3); i < n && len(raw) > 0; i++ {
			raw = append(raw, g.c08oddLine(g.pick(raw)))
		}
		// bulk: many lines over few owners (many values under one key, equal lines)
		for i := 0; i < bulk; i++ {
			raw = append(raw, g.c08newLine(df, o))
		}
		// a few subnets more, so that `!` lines are there to move
		for i, n := 0, g.intn(4); i < n; i++ {
			raw = append(raw, g.c08netLine())
		}
		if c08rawOK(raw, serial) {
			return df, raw
		}
	}
}

func c08emitChain(w *bufio.Writer, class string, serial uint32, a []string, steps [][2][]string, failing []bool) {
	var d c08dict
	d.addFile(a)
	for i, s := range steps {
		d.addDiff(s[0])
		if !failing[i] {
			d.addFile(s[1])
		}
	}
	fmt.Fprintf(w, "chain %s:%d %s %s %s", class, serial, c08extra(class, serial), d.render(class, serial), c08linesTok(a))
	for i, s := range steps {
		b := "!"
		if !failing[i] {
			b = c08linesTok(s[1])
		}
		fmt.Fprintf(w, " %s %s", c08linesTok(s[0]), b)
	}
	w.WriteByte('\n')
}

func c08emitMtime(w *bufio.Writer, class string, tA, tD, tB uint32, a, diff, b []string) {
	var d c08dict
	d.addFile(a)
	d.addDiff(diff)
	d.addFile(b)
	fmt.Fprintf(w, "mtime %s:%d:%d:%d %s %s %s %s %s %s %s\n", class, tA, tD, tB, c08extra(class, tA),
		d.render(class, tA), d.render(class, tD), d.render(class, tB), c08linesTok(a), c08linesTok(diff), c08linesTok(b))
}

func c08gen(g *gen, tier string, w *bufio.Writer) {
	if tier == "witness" {
		c08witness(w)
		return
	}
	if tier == "fixed-line-filter" {
		c08fixedLineFilter(w)
		return
	}
	nChains, nMtime := 28, 8
	if tier == "thorough" {
		nChains, nMtime = 220, 30
	}
	classes := []string{"rdb1", "rdb2"}
	o := dataOpts{v6: true, odd: true, maxZone: 3, locs: true, maps: true}
	for i := 0; i < nChains; i++ {
		serial := uint32(1700000000 + g.intn(1000000))
		if i%5 == 4 {
			o.maxZone = 5
		} else {
			o.maxZone = 2
		}
		bulk := 0
		if i%4 == 3 {
			bulk = 60 + g.intn(200)
		}
		df, raw := g.c08rawFile(o, serial, bulk)
		if i%7 == 0 {
			raw = nil // from the empty file
		}
		a := c08preprocess(raw, serial)
		nSteps := 1 + g.intn(5)
		var steps [][2][]string
		var failing []bool
		cur, curRaw := a, raw
		for s := 0; s < nSteps; s++ {
			// sometimes a failing diff first: it must leave the database alone, the chain goes on
			if g.chance(1, 3) {
				var nraw []string
				for {
					nraw = g.c08edit(df, o, curRaw)
					if c08rawOK(nraw, serial) {
						break
					}
				}
				steps = append(steps, [2][]string{g.c08failing(cur, c08preprocess(nraw, serial)), nil})
				failing = append(failing, true)
			}
			var nraw []string
			for {
				nraw = g.c08edit(df, o, curRaw)
				if s == nSteps-1 && g.chance(1, 8) {
					nraw = nil // down to the empty file
				}
				if s == 0 && i%6 == 1 {
					// a long diff: several times the 4096-byte buffer the diff is scanned with
					for k, n := 0, 300+g.intn(200); k < n; k++ {
						nraw = append(nraw, g.c08newLine(df, o))
					}
				}
				if c08rawOK(nraw, serial) {
					break
				}
			}
			b := c08preprocess(nraw, serial)
			steps = append(steps, [2][]string{g.c08diff(cur, b), b})
			failing = append(failing, false)
			cur, curRaw = b, nraw
		}
		for _, class := range classes {
			if i%14 == 5 && len(a) > 0 {
				class += "b" // the database the diff is applied to comes from the builder
			}
			c08emitChain(w, class, serial, a, steps, failing)
		}
	}
	// `.` lines (and nothing else) take the SOA serial from the mtime of the file being processed
	for i := 0; i < nMtime; i++ {
		tA := uint32(1700000000 + g.intn(1000))
		tD, tB := tA, tA
		switch i % 4 {
		case 1:
			tB = tA + 1000 + uint32(g.intn(1000))
			tD = tB
		case 2:
			tD = tA + 5000 + uint32(g.intn(1000))
			tB = tD
		case 3:
			tD = tA + 2000
			tB = tA + 3000
		}
		dot := "." + g.pick([]string{"dot.test", "ex.com"}) + "," + g.pick([]string{"", "10.0.0.1"}) + ",a,300"
		if i%4 != 0 {
			// `.` lines with differing mtimes are the known finding C08-dot-serial-mtime (witness tier);
			// a preprocessed `Z` line carries its serial explicitly and must be immune to mtimes
			dot = "Z" + g.pick([]string{"dot.test", "ex.com"}) + ",a.ns.dot.test,hostmaster.dot.test," +
				strconv.Itoa(1+g.intn(100000)) + ",16384,2048,1048576,2560,2560"
		}
		keep := "+www.dot.test,10.1.1.1,60"
		var a, b []string
		switch i % 4 {
		case 0, 1: // the `.` line stays, something else changes
			a = []string{dot, keep}
			b = []string{dot, "+www.dot.test,10.1.1.2,60"}
		case 2: // the `.` line is removed
			a = []string{dot, keep}
			b = []string{keep}
		default: // a `.` line is added
			a = []string{keep}
			b = []string{keep, dot}
		}
		diff := g.c08diff(a, b)
		for _, class := range classes {
			c08emitMtime(w, class, tA, tD, tB, a, diff, b)
		}
	}
}

// c08witness: the input class kept out of the regular generator because the real code violates the
// statement on it (known finding C08-dot-serial-mtime)
func c08witness(w *bufio.Writer) {
	for _, class := range []string{"rdb1", "rdb2"} {
		// `.` lines take the SOA serial from the mtime of the file being processed
		dot, keep := ".dot.test,10.0.0.1,a,300", "+www.dot.test,10.1.1.1,60"
		c08emitMtime(w, class, 1700000000, 1700001000, 1700001000, []string{dot, keep},
			[]string{"-" + keep, "++www.dot.test,10.1.1.2,60"}, []string{dot, "+www.dot.test,10.1.1.2,60"})
		c08emitMtime(w, class, 1700000000, 1700005000, 1700005000, []string{dot, keep}, []string{"-" + dot}, []string{keep})
		c08emitMtime(w, class, 1700000000, 1700002000, 1700003000, []string{keep}, []string{"+" + dot}, []string{keep, dot})
	}
}

// c08fixedLineFilter (tier `fixed-line-filter`, corpus/C08/fixed-line-filter.ops): the former
// witnesses of C08-line-filter (repaired: ApplyDiff filters payloads the way the compiler filters
// data lines); they must pass now
func c08fixedLineFilter(w *bufio.Writer) {
	serial := uint32(1700000000)
	for _, class := range []string{"rdb1", "rdb2"} {
		// a preprocessed file may keep a line with leading spaces (the compiler trims it)
		a := []string{"+a.ex.com,10.0.0.1,60", "  +b.ex.com,10.0.0.2,60"}
		b := []string{"+a.ex.com,10.0.0.1,60"}
		c08emitChain(w, class, serial, a, [][2][]string{{{"-  +b.ex.com,10.0.0.2,60"}, b}}, []bool{false})
		// a one-byte line is skipped by the compiler
		a = []string{"+a.ex.com,10.0.0.1,60", "+"}
		c08emitChain(w, class, serial, a, [][2][]string{{{"-+"}, b}}, []bool{false})
		b2 := []string{"+a.ex.com,10.0.0.1,60", "C"}
		c08emitChain(w, class, serial, b, [][2][]string{{{"+C"}, b2}}, []bool{false})
		// both directions in one chain, with bare operations and comment payloads as noise; the trimmed
		// line and the untrimmed one are the same record twice
		b3 := []string{"+a.ex.com,10.0.0.1,60", "   +a.ex.com,10.0.0.1,60", "x"}
		c08emitChain(w, class, serial, b, [][2][]string{
			{{"+   +a.ex.com,10.0.0.1,60", "+x", "+", "-", "+  #c", "- "}, b3},
			{{"-+a.ex.com,10.0.0.1,60", "-x"}, []string{"   +a.ex.com,10.0.0.1,60"}},
			{{"-  ?rejected,after,trimming"}, nil},
		}, []bool{false, false, true})
	}
}
