package main

import (
	"bufio"
	"errors"
	"fmt"
	"net"
	"runtime"
	"strconv"
	"strings"
	"sync"
	"time"

	"github.com/facebookincubator/dns/dnsrocks/db"
	"github.com/facebookincubator/dns/dnsrocks/dnsserver"
	"github.com/facebookincubator/dns/dnsrocks/dnsserver/stats"
)

func init() {
	props["C06"] = &prop{gen: c06gen, run: c06run}
}

// ---- instrumented fake DBI ---------------------------------------------------------------------

type c06bstate struct{ closes, badUses int }

type c06script struct {
	kind    string        // new | same | fail
	block   chan struct{} // non-nil: Reload blocks until closed
	started chan struct{} // closed when the fake's Reload has picked this script up
	done    chan struct{} // closed when the fake's Reload has returned
}

type c06world struct {
	mu       sync.Mutex
	backends []*c06bstate
	next     *c06script
	valOk    bool
}

type c06dbi struct {
	id int
	w  *c06world
}

type c06ctx struct{}

func (c06ctx) Reset() {}

func (d *c06dbi) touch() {
	d.w.mu.Lock()
	b := d.w.backends[d.id]
	if b.closes > 0 {
		b.badUses++
	}
	d.w.mu.Unlock()
}

func (d *c06dbi) NewContext() db.Context { d.touch(); return c06ctx{} }
func (d *c06dbi) FreeContext(db.Context) { d.touch() }
func (d *c06dbi) Find(key []byte, c db.Context) ([]byte, error) {
	d.touch()
	return nil, errors.New("not found")
}
func (d *c06dbi) ForEach(key []byte, f func(value []byte) error, c db.Context) error {
	d.touch()
	if string(key) == "vk" {
		d.w.mu.Lock()
		ok := d.w.valOk
		d.w.mu.Unlock()
		if ok {
			return f([]byte("x"))
		}
		return nil
	}
	return f([]byte("data"))
}
func (d *c06dbi) FindMap(domain, mtype []byte, c db.Context) ([]byte, error) {
	d.touch()
	return nil, nil
}
func (d *c06dbi) GetLocationByMap(ipnet *net.IPNet, mapID []byte, c db.Context) ([]byte, uint8, error) {
	d.touch()
	return nil, 0, nil
}
func (d *c06dbi) Close() error {
	d.w.mu.Lock()
	d.w.backends[d.id].closes++
	d.w.mu.Unlock()
	return nil
}
func (d *c06dbi) GetStats() map[string]int64            { return nil }
func (d *c06dbi) ClosestKeyFinder() db.ClosestKeyFinder { return nil }

// Reload mirrors the real drivers: a switch to another path opens a new backend without touching
// the receiver; a catch-up (same path) works on the receiver for its whole duration.
func (d *c06dbi) Reload(path string) (db.DBI, error) {
	d.w.mu.Lock()
	sc := d.w.next
	d.w.mu.Unlock()
	close(sc.started)
	defer close(sc.done)
	if sc.kind == "same" && sc.block == nil {
		d.touch()
	}
	if sc.block != nil {
		<-sc.block
		if sc.kind == "same" {
			d.touch() // CatchWithPrimary was running on this backend until now
		}
	}
	switch sc.kind {
	case "new":
		d.w.mu.Lock()
		nb := &c06dbi{id: len(d.w.backends), w: d.w}
		d.w.backends = append(d.w.backends, &c06bstate{})
		d.w.mu.Unlock()
		return nb, nil
	case "same":
		return d, nil
	}
	return nil, errors.New("open error")
}

// ---- op sequences --------------------------------------------------------------------------------

var c06ops = []string{"acq", "use0", "use1", "rel0", "rel1", "newok", "sameok", "openerr", "valfailnew", "valfailsame",
	"todone", "topnew", "topsame", "topfail", "late", "down", "newokM", "sameokM", "valfailnewM"}

// The `…M` reloads attempt an AcquireReader from another goroutine while FBDNSDB.Reload is between
// db.Reload's return and the swap of the served pointer (yield point "reload.returned"). Reload
// holds reloadMu for its whole duration, so the acquisition must wait until the reload is over: the
// model treats `newokM` as `newok; acq`. An acquisition that gets through earlier holds a database
// the reload has already released.

func c06gen(g *gen, tier string, w *bufio.Writer) {
	depth := 3
	if tier == "thorough" {
		depth = 4
	}
	var rec func(prefix []string, d int)
	rec = func(prefix []string, d int) {
		if len(prefix) > 0 {
			fmt.Fprintf(w, "life %s\n", strings.Join(prefix, ";"))
		}
		if d == depth {
			return
		}
		for _, o := range c06ops {
			rec(append(prefix, o), d+1)
		}
	}
	rec(nil, 0)
	n := 3000
	if tier == "thorough" {
		n = 40000
	}
	for i := 0; i < n; i++ {
		l := 4 + g.intn(12)
		if g.chance(1, 10) {
			l = 20 + g.intn(40)
		}
		var ops []string
		for j := 0; j < l; j++ {
			switch g.intn(12) {
			case 0, 1, 2:
				ops = append(ops, "acq")
			case 3, 4:
				ops = append(ops, "use"+strconv.Itoa(g.intn(3)))
			case 5, 6:
				ops = append(ops, "rel"+strconv.Itoa(g.intn(3)))
			default:
				ops = append(ops, c06ops[5+g.intn(len(c06ops)-5)])
			}
		}
		fmt.Fprintf(w, "life %s\n", strings.Join(ops, ";"))
	}
}

var c06baseGoroutines = -1

// c06quiesce waits until every goroutine started by DB.Reload has finished, except the `blocked`
// ones parked inside the fake's Reload (a reload goroutine still runs unref/Close after the fake's
// Reload has returned).
func c06quiesce(blocked int) {
	deadline := time.Now().Add(3 * time.Second)
	for runtime.NumGoroutine() > c06baseGoroutines+blocked && time.Now().Before(deadline) {
		time.Sleep(20 * time.Microsecond)
	}
}

func c06run(line string) (string, string) {
	f := strings.Fields(line)
	if f[0] != "life" {
		return "bad-op", "-"
	}
	if c06baseGoroutines < 0 {
		c06baseGoroutines = runtime.NumGoroutine()
	}
	c06quiesce(0)
	world := &c06world{backends: []*c06bstate{{}}, valOk: true}
	h, err := dnsserver.NewFBDNSDBBasic(dnsserver.HandlerConfig{},
		dnsserver.DBConfig{Path: "p0", Driver: "fake", ValidationKey: []byte("vk"), ReloadTimeout: 10 * time.Second},
		dnsserver.CacheConfig{}, &dnsserver.DummyLogger{}, &stats.DummyStats{})
	if err != nil {
		return "init-error", "FAIL:init"
	}
	h.SetDBForVerif(db.NewDBForVerif(&c06dbi{id: 0, w: world}))
	var readers []db.Reader
	var pending []*c06script
	down := false
	gen := 0
	reload := func(kind string, valOk bool, timeout time.Duration, block bool, midOpt ...bool) *c06script {
		mid := len(midOpt) > 0 && midOpt[0]
		sc := &c06script{kind: kind, done: make(chan struct{}), started: make(chan struct{})}
		if block {
			sc.block = make(chan struct{})
		}
		world.mu.Lock()
		world.next = sc
		world.valOk = valOk
		world.mu.Unlock()
		h.SetReloadTimeoutForVerif(timeout)
		sig := dnsserver.ReloadSignal{Kind: dnsserver.PartialReload}
		if kind != "same" {
			gen++
			sig = *dnsserver.NewFullReloadSignal(fmt.Sprintf("p%d", gen))
		}
		var midCh chan db.Reader
		if mid {
			midCh = make(chan db.Reader, 1)
			fired := false
			dnsserver.VerifYield = func(point string) {
				if point != "reload.returned" || fired {
					return
				}
				fired = true
				got := make(chan struct{})
				go func() {
					r, err := h.AcquireReader()
					close(got)
					if err != nil {
						r = nil
					}
					midCh <- r
				}()
				select {
				case <-got: // the acquisition did not wait for the reload
				case <-time.After(3 * time.Millisecond):
				}
			}
		}
		_ = h.Reload(sig)
		if mid {
			dnsserver.VerifYield = nil
			select {
			case r := <-midCh:
				if r != nil {
					readers = append(readers, r)
				}
			case <-time.After(5 * time.Second):
			}
		}
		<-sc.started
		if !block {
			<-sc.done
			c06quiesce(len(pending))
		}
		return sc
	}
	waitSettled := func(sc *c06script, expectCloseOf int) {
		<-sc.done
		c06quiesce(len(pending))
		deadline := time.Now().Add(2 * time.Second)
		for time.Now().Before(deadline) {
			world.mu.Lock()
			ok := expectCloseOf < 0 || (expectCloseOf < len(world.backends) && world.backends[expectCloseOf].closes > 0)
			world.mu.Unlock()
			if ok {
				return
			}
			time.Sleep(50 * time.Microsecond)
		}
	}
	for _, op := range strings.Split(f[1], ";") {
		switch {
		case op == "acq":
			if down {
				continue
			}
			r, err := h.AcquireReader()
			if err == nil {
				readers = append(readers, r)
			}
		case strings.HasPrefix(op, "use"):
			i, _ := strconv.Atoi(op[3:])
			if i < len(readers) {
				_ = readers[i].ForEach([]byte("data"), func([]byte) error { return nil })
			}
		case strings.HasPrefix(op, "rel"):
			i, _ := strconv.Atoi(op[3:])
			if i < len(readers) {
				readers[i].Close()
				readers = append(readers[:i], readers[i+1:]...)
			}
		case down:
			// no reloads after shutdown (the reload channel is closed)
			if op == "late" && len(pending) > 0 {
				sc := pending[0]
				pending = pending[1:]
				world.mu.Lock()
				nb := len(world.backends)
				world.mu.Unlock()
				close(sc.block)
				if sc.kind == "new" {
					waitSettled(sc, nb)
				} else {
					waitSettled(sc, -1)
				}
			}
		case op == "newok":
			reload("new", true, 10*time.Second, false)
		case op == "newokM":
			reload("new", true, 10*time.Second, false, true)
		case op == "sameokM":
			reload("same", true, 10*time.Second, false, true)
		case op == "valfailnewM":
			reload("new", false, 10*time.Second, false, true)
		case op == "sameok":
			reload("same", true, 10*time.Second, false)
		case op == "openerr":
			reload("fail", true, 10*time.Second, false)
		case op == "valfailnew":
			reload("new", false, 10*time.Second, false)
		case op == "valfailsame":
			reload("same", false, 10*time.Second, false)
		case op == "todone":
			world.mu.Lock()
			nb := len(world.backends)
			world.mu.Unlock()
			// the fake's Reload is held until FBDNSDB.Reload has returned its timeout error, then let
			// go at once (a 1 ns timeout racing an immediate completion is decided by the scheduler)
			sc := reload("new", true, 200*time.Microsecond, true)
			close(sc.block)
			waitSettled(sc, nb)
		case op == "topnew", op == "topsame", op == "topfail":
			sc := reload(op[3:], true, 200*time.Microsecond, true)
			pending = append(pending, sc)
		case op == "late":
			if len(pending) > 0 {
				sc := pending[0]
				pending = pending[1:]
				world.mu.Lock()
				nb := len(world.backends)
				world.mu.Unlock()
				close(sc.block)
				if sc.kind == "new" {
					waitSettled(sc, nb)
				} else {
					waitSettled(sc, -1)
				}
			}
		case op == "down":
			h.Close()
			down = true
		}
	}
	// summary first (compared with the model), then liveness probes: the served backend and every
	// backend held by a live reader must still be usable
	world.mu.Lock()
	var summary []string
	for _, b := range world.backends {
		summary = append(summary, fmt.Sprintf("%d/%d", b.closes, b.badUses))
	}
	badBefore := 0
	for _, b := range world.backends {
		badBefore += b.badUses
	}
	world.mu.Unlock()
	probe := "ok"
	for _, r := range readers {
		_ = r.ForEach([]byte("data"), func([]byte) error { return nil })
	}
	if !down {
		if r, err := h.AcquireReader(); err == nil {
			_ = r.ForEach([]byte("data"), func([]byte) error { return nil })
			r.Close()
		}
	}
	world.mu.Lock()
	badAfter := 0
	for _, b := range world.backends {
		badAfter += b.badUses
	}
	if badAfter != badBefore {
		probe = "FAIL:served-or-held-backend-closed"
	}
	defer func() {
		world.mu.Unlock()
		// unblock leftover goroutines so they do not accumulate
		for _, sc := range pending {
			close(sc.block)
		}
		c06quiesce(0)
	}()
	verdict := probe
	bs := summary
	for i, b := range world.backends {
		if b.badUses > 0 && probe == "ok" {
			verdict = fmt.Sprintf("FAIL:backend-%d-used-after-close", i)
		}
		if b.closes > 1 {
			verdict = fmt.Sprintf("FAIL:backend-%d-closed-twice", i)
		}
		if down && len(readers) == 0 && len(pending) == 0 && b.closes == 0 {
			verdict = fmt.Sprintf("FAIL:backend-%d-leaked", i)
		}
	}
	return fmt.Sprintf("readers=%d backends=[%s]", len(readers), strings.Join(bs, ", ")), verdict
}
