package main

import (
	"encoding/hex"
)

// gen is the single PRNG (splitmix64) every random choice derives from.
type gen struct{ s uint64 }

func newGen(seed uint64) *gen { return &gen{s: seed*0x9E3779B97F4A7C15 + 0x1234567} }

func (g *gen) u64() uint64 {
	g.s += 0x9E3779B97F4A7C15
	z := g.s
	z = (z ^ (z >> 30)) * 0xBF58476D1CE4E5B9
	z = (z ^ (z >> 27)) * 0x94D049BB133111EB
	return z ^ (z >> 31)
}

func (g *gen) intn(n int) int {
	if n <= 0 {
		return 0
	}
	return int(g.u64() % uint64(n))
}

func (g *gen) bool() bool { return g.u64()&1 == 1 }

func (g *gen) chance(num, den int) bool { return g.intn(den) < num }

func (g *gen) pick(xs []string) string { return xs[g.intn(len(xs))] }

func (g *gen) pickByte(xs []byte) byte { return xs[g.intn(len(xs))] }

// hexTok renders bytes as a protocol token ("-" for empty).
func hexTok(b []byte) string {
	if len(b) == 0 {
		return "-"
	}
	return hex.EncodeToString(b)
}

func unhexTok(s string) []byte {
	if s == "-" {
		return []byte{}
	}
	b, err := hex.DecodeString(s)
	if err != nil {
		panic("bad hex token " + s)
	}
	return b
}
