package main

// Generators for the properties decided through the `serve` / `servecs` / `loc` / `frame` ops
// (C02, C03, C04, C10, C13). They share the handler plumbing of serve.go and c01.go.

import (
	"bufio"
	"bytes"
	"fmt"
	"net"
	"strings"

	"github.com/facebookincubator/dns/dnsrocks/db"
	"github.com/facebookincubator/dns/dnsrocks/dnsserver"
	"github.com/facebookincubator/dns/dnsrocks/dnsserver/stats"
	"github.com/miekg/dns"
)

func init() {
	props["C02"] = &prop{gen: c02gen, run: serveGroupRun}
	props["C03"] = &prop{gen: c03gen, run: serveGroupRun}
	props["C04"] = &prop{gen: c04gen, run: serveGroupRun}
	props["C10"] = &prop{gen: c10gen, run: serveGroupRun}
	props["C13"] = &prop{gen: c13gen, run: serveGroupRun}
}

func serveGroupRun(line string) (string, string) {
	f := strings.Fields(line)
	switch f[0] {
	case "serve":
		return serveRun(line)
	case "servecs":
		return serveRun("serve" + line[len("servecs"):])
	case "servecsc":
		// the same with the response cache enabled: what a client gets back in its OPT record must
		// not depend on who asked before
		return serveRunCache("serve"+line[len("servecsc"):], dnsserver.CacheConfig{Enabled: true, LRUSize: 1024})
	case "loc", "locq":
		return locRun(f)
	case "frame":
		return frameRun(f)
	case "ctx":
		return ctxRun(f) // c02ctx.go: the per-request context cache against a real RocksDB
	}
	return "bad-op", "-"
}

// ---- C02: adversarial key neighbourhoods ----------------------------------------------------------

func c02gen(g *gen, tier string, w *bufio.Writer) {
	n := 30
	if tier == "thorough" {
		n = 800
	}
	for i := 0; i < n; i++ {
		o := dataOpts{v6: true, odd: g.chance(1, 3), maxZone: 3, locs: true, maps: false}
		df := g.genDataFile(o)
		if len(df.locs) == 0 {
			df.locs = []string{"aa"}
		}
		z := df.zones[0].name
		// siblings whose labels are byte-prefixes of each other, the same name in several locations,
		// deep names
		for _, l := range []string{"a", "ab", "a-b", "a0", "b"} {
			if g.bool() {
				df.lines = append(df.lines, g.join("+", []string{l + "." + z, g.ip4(), "60", "", g.pick(append(df.locs, "", ""))}))
				df.zones[0].owners = append(df.zones[0].owners, l+"."+z)
			}
		}
		deep := "l1.l2.l3.l4.l5.l6." + z
		df.lines = append(df.lines, g.join("'", []string{deep, "deep", "60", "", ""}))
		df.zones[0].owners = append(df.zones[0].owners, deep, "l4.l5.l6."+z)
		// maps in every shape: exact only, wildcard only (also at the queried name), both, root wildcard
		mapShapes := [][]string{{"M" + z + ",m1"}, {"M*." + z + ",m1"}, {"M" + z + ",m1", "M*." + z + ",m2"}, {"M*.,m1"}, {"M*." + deep + ",m1"}, {}}
		for _, l := range mapShapes[g.intn(len(mapShapes))] {
			df.lines = append(df.lines, l)
		}
		lo := g.pick(df.locs)
		df.lines = append(df.lines, "%"+lo+",10.0.0.0/8,m1", "%"+lo+",0.0.0.0/0,m2", "%"+g.pick(df.locs)+",::/0,m1")
		g.shuffle(df.lines)
		qs := g.genQueries(df, 40, false)
		for _, q := range qs {
			q.resolver = net.ParseIP(g.pick([]string{"10.1.2.3", "8.8.8.8", "2001:db8::1"}))
		}
		fmt.Fprintln(w, serveOpLine(df, qs))
	}
	// the per-request context cache (c02ctx.go), after the serve cases so that their stream is unchanged
	nc := 40
	if tier == "thorough" {
		nc = 1000
	}
	ctxGen(g, nc, w)
}

// ---- C10: EDNS / client subnet -------------------------------------------------------------------

func c10gen(g *gen, tier string, w *bufio.Writer) {
	n := 30
	if tier == "thorough" {
		n = 800
	}
	for i := 0; i < n; i++ {
		o := dataOpts{v6: true, maxZone: 2, locs: true, maps: true}
		df := g.genDataFile(o)
		if i%5 == 4 && len(df.locs) > 0 {
			// classic subnet lines without a map id: they land in the default map, which is also the
			// map consulted for a name that has no map at all (scope 0 and resolver fallback apply)
			for k, n := 0, 1+g.intn(3); k < n; k++ {
				df.lines = append(df.lines, "%"+g.pick(df.locs)+","+g.pick([]string{"10.0.0.0/8", "10.1.0.0/16", "192.168.0.0/15", "9.9.9.0/24", "2001:db8::/32"}))
			}
			g.shuffle(df.lines)
		}
		if i%3 == 1 && len(df.zones) > 0 {
			// a client-subnet map WITHOUT a default route, on the zone apex and on every name below it:
			// a client subnet that no declared subnet covers (source prefix length 0 in particular)
			// must get the family's default scope 24 / 48, not 0 (seed C10d)
			var kept []string
			for _, l := range df.lines {
				if !strings.HasPrefix(l, "8") {
					kept = append(kept, l)
				}
			}
			// no draw from g here: the random stream of every later case stays what it was
			lo := "dd"
			if len(df.locs) > 0 {
				lo = df.locs[0]
			}
			z := df.zones[0].name
			df.lines = append([]string{"8" + z + ",e9", "%" + lo + ",10.0.0.0/8,e9"}, kept...)
			df.lines = append(df.lines, "8*."+z+",e9", "%"+lo+",2001:db8::/32,e9")
		}
		qs := g.genQueries(df, 40, true)
		for _, q := range qs {
			if g.chance(1, 8) {
				q.opt = true
				q.extraOpt = 1 + g.intn(3)
			}
			if q.ecs != nil && g.chance(1, 6) {
				q.ecs.scope = []int{0, 0, 17, 24}[g.intn(4)]
			}
			if q.ecs != nil && q.ecs.family == 1 && g.chance(1, 8) {
				// the same IPv4 subnet written as a family-2 option with an IPv4-mapped address: both
				// drivers treat it as an IPv4 client; the scope stays on the 128-bit scale of the option
				q.ecs.family = 2
				q.ecs.addr = append(append(make([]byte, 10), 0xff, 0xff), q.ecs.addr...)
				q.ecs.source += 96
			}
		}
		fmt.Fprintln(w, "servecs"+serveOpLine(df, qs)[len("serve"):])
		// cache on: the same question from clients with different OPT / client-subnet options
		var qc []*query
		for _, q := range qs[:12] {
			for k, n := 0, 2+g.intn(2); k < n; k++ {
				v := *q
				v.opt, v.ecs, v.extraOpt = false, nil, 0
				switch g.intn(4) {
				case 0:
				case 1:
					v.opt = true
				default:
					v.opt = true
					e := &ecsSpec{family: 1, source: []int{8, 16, 24, 32}[g.intn(4)]}
					e.addr = maskBytes(net.ParseIP(g.pick([]string{"10.1.0.0", "10.77.3.0", "192.168.0.0", "9.9.9.0"})).To4(), e.source)
					v.ecs = e
				}
				qc = append(qc, &v)
			}
		}
		fmt.Fprintln(w, "servecsc"+serveOpLine(df, qc)[len("serve"):])
	}
}

// ---- C13: any wire-valid query against special databases -------------------------------------------

func c13gen(g *gen, tier string, w *bufio.Writer) {
	n := 30
	if tier == "thorough" {
		n = 600
	}
	special := [][]string{
		{}, // empty database
		{".,,a.root-servers.net", "+a.root-servers.net,198.41.0.4"}, // root zone
		{"&,,a.root-servers.net"},                                   // root delegation
		{"&com,,a.gtld-servers.net", "Zex.com,ns1.ex.com,hm.ex.com", "&ex.com,1.2.3.4,ns1.ex.com", "+*.ex.com,5.6.7.8"},
	}
	for i := 0; i < n; i++ {
		var df *dataFile
		if i < 2*len(special) {
			df = &dataFile{lines: special[i%len(special)]}
			df.zones = []zoneInfo{{name: "ex.com", owners: []string{"www.ex.com"}}}
		} else {
			df = g.genDataFile(dataOpts{v6: true, odd: true, maxZone: 3, locs: g.bool(), maps: g.bool()})
		}
		qs := g.genQueries(df, 30, true)
		for k := 0; k < 10; k++ {
			q := &query{qclass: 1, maxAns: 1, resolver: net.ParseIP("198.51.100.7")}
			switch g.intn(5) {
			case 0:
				q.name = "."
			case 1:
				q.name = strings.Repeat("a.", 60+g.intn(60))
			case 2:
				q.name = strings.Repeat("x", 63) + "." + strings.Repeat("y", 63) + ".ex.com."
				if g.bool() {
					// the longest names: 253, 254 and 255 bytes on the wire (3 x 63-byte labels + one more)
					last := []int{59, 60, 61}[g.intn(3)]
					q.name = strings.Repeat("x", 63) + "." + strings.Repeat("y", 63) + "." + strings.Repeat("z", 63) + "." +
						strings.Repeat("w", last) + "."
					if g.bool() { // ... and below a served zone: 63+63+63+(last-7) + ex.com
						q.name = strings.Repeat("x", 63) + "." + strings.Repeat("y", 63) + "." + strings.Repeat("z", 63) + "." +
							strings.Repeat("w", last-7) + ".ex.com."
					}
				}
			case 3:
				q.name = "com."
			default:
				q.name = g.pick(dgLabels) + ".ex.com."
			}
			q.qtype = []uint16{1, 2, 6, 43, 255, 41, 250, 251, 252, 65535, 0}[g.intn(11)]
			q.qclass = []uint16{1, 3, 254, 255, 0, 65535}[g.intn(6)]
			if g.bool() {
				q.opt = true
				q.version = []int{0, 0, 1, 255}[g.intn(4)]
				q.extraOpt = g.intn(4)
				if g.bool() {
					q.ecs = &ecsSpec{family: []int{1, 2, 0}[g.intn(3)]}
					switch q.ecs.family {
					case 1:
						q.ecs.source = g.intn(33)
						q.ecs.addr = maskBytes(net.ParseIP(g.ip4()).To4(), q.ecs.source)
					case 2:
						q.ecs.source = g.intn(129)
						q.ecs.addr = maskBytes(net.ParseIP(g.ip6()), q.ecs.source)
					}
				}
			}
			qs = append(qs, q)
		}
		fmt.Fprintln(w, "servecs"+serveOpLine(df, qs)[len("serve"):])
	}
}

// ---- C04: edits of foreign locations never change a client's answers --------------------------------

func c04gen(g *gen, tier string, w *bufio.Writer) {
	n := 30
	if tier == "thorough" {
		n = 800
	}
	for i := 0; i < n; i++ {
		o := dataOpts{v6: true, maxZone: 3, locs: true, maps: false} // one map per owner (see WellFormed)
		df := g.genDataFile(o)
		// the client's location L and a foreign location F
		L, F := "aa", "ff"
		// make sure the client maps to L: resolver map with one subnet for L
		df.lines = append(df.lines, "M"+df.zones[0].name+",mL", "M*."+df.zones[0].name+",mL", "%"+L+",10.0.0.0/8,mL")
		if i%3 == 0 {
			// the client's own location also has records at a zone apex (its own SOA, or its own NS),
			// next to the untagged ones: the client must see both kinds together
			z0 := df.zones[g.intn(len(df.zones))].name
			taggedSOA := false // two SOAs of one owner in one view: which one is served is undefined
			for _, l := range df.lines {
				if (strings.HasPrefix(l, "Z"+z0+",") || strings.HasPrefix(l, "Z"+z0+":")) && strings.HasSuffix(l, L) {
					taggedSOA = true
				}
			}
			if g.bool() && !taggedSOA {
				df.lines = append(df.lines, "Z"+z0+",nsl."+z0+",hm."+z0+",,,,,,60,,"+L)
			} else {
				df.lines = append(df.lines, "&"+z0+","+g.ip4()+",nsl."+z0+",60,,"+L)
			}
		}
		edited := append([]string{}, df.lines...)
		ne := 1 + g.intn(5)
		for e := 0; e < ne; e++ {
			z := df.zones[g.intn(len(df.zones))]
			name := z.name
			if len(z.owners) > 0 && g.bool() {
				name = z.owners[g.intn(len(z.owners))]
			}
			base := strings.TrimPrefix(name, "*.")
			switch g.intn(7) {
			case 0:
				edited = append(edited, "+"+name+","+g.ip4()+",60,,"+F)
			case 1:
				edited = append(edited, "&"+base+","+g.ip4()+",nsf."+base+",60,,"+F)
			case 2:
				edited = append(edited, "Z"+base+",nsf."+base+",hm."+base+",,,,,,60,,"+F)
			case 3:
				edited = append(edited, "+*."+base+","+g.ip4()+",60,,"+F)
			case 4:
				edited = append(edited, "C"+"x."+base+",target."+z.name+",60,,"+F)
			case 5:
				edited = append(edited, "'"+base+",foreign,60,,"+F, "+x."+base+","+g.ip4()+",60,,"+F)
			default:
				// an unrelated map and its subnets
				edited = append(edited, "Munrelated.invalid,mU", "%"+F+",10.0.0.0/8,mU", "%"+F+",192.168.0.0/16,mL")
			}
		}
		g.shuffle(edited)
		qs := g.genQueries(df, 40, false)
		for _, q := range qs {
			q.resolver = net.ParseIP("10.9.8.7") // located at L through mL
		}
		var la, lb, ts []string
		for _, l := range df.lines {
			la = append(la, hexTok([]byte(l)))
		}
		for _, l := range edited {
			lb = append(lb, hexTok([]byte(l)))
		}
		for _, q := range qs {
			ts = append(ts, q.token())
		}
		fmt.Fprintf(w, "frame %s %s %s\n", strings.Join(la, ";"), strings.Join(lb, ";"), strings.Join(ts, ";"))
	}
}

func frameRun(f []string) (string, string) {
	if len(f) != 4 {
		return "bad-op", "-"
	}
	a, va := serveRun("serve " + f[1] + " " + f[3])
	b, vb := serveRun("serve " + f[2] + " " + f[3])
	verdict := "ok"
	if strings.Contains(a, "compile-error") || strings.Contains(b, "compile-error") {
		// a file the compilers reject is not an edit to judge (shrinking produces such files)
		return "A{" + a + "}B{" + b + "}", "-"
	}
	if stripAddrs(a) != stripAddrs(b) {
		verdict = "FAIL:foreign-edit-changed-a-response"
	}
	if strings.HasPrefix(va, "FAIL") {
		verdict = va
	} else if strings.HasPrefix(vb, "FAIL") {
		verdict = vb
	}
	return "A{" + a + "}B{" + b + "}", verdict
}

// ---- C03: subnet sets -> location -------------------------------------------------------------------

type c03net struct {
	cidr string
	loc  string
}

func c03gen(g *gen, tier string, w *bufio.Writer) {
	n := 60
	if tier == "thorough" {
		n = 3000
	}
	locs := []string{"aa", "bb", "cc", "dd", "ee"}
	for i := 0; i < n; i++ {
		var nets []c03net
		seen := map[string]bool{}
		add := func(c string) {
			_, ipn, err := net.ParseCIDR(c)
			if err != nil {
				return
			}
			key := ipn.String()
			if seen[key] {
				return // W1: no two declarations of the same (network, length)
			}
			ones, bits := ipn.Mask.Size()
			ip16 := ipn.IP.To16()
			// (W2 - 0.0.0.0/n and ::/n with n > 0 taken for default routes - was a defect of
			// Rearranger.AddLocation and is repaired: such blocks are generated like any other)
			_ = ip16
			// (W3 - an IPv6 block other than ::/0 containing ::ffff:0:0/96 unbalanced the rearranger's
			// location stack - was a defect and is repaired: such blocks are generated like any other)
			_, _ = bits, ones
			seen[key] = true
			nets = append(nets, c03net{c, g.pick(locs)})
		}
		k := g.intn(14)
		if g.chance(1, 10) {
			k = 20 + g.intn(60)
		}
		for j := 0; j < k; j++ {
			switch g.intn(9) {
			case 0:
				add("0.0.0.0/0")
			case 1:
				add("::/0")
			case 2: // nested chain
				base := g.ip4()
				for _, l := range []int{8, 12, 16, 20, 24, 28, 32} {
					if g.bool() {
						add(fmt.Sprintf("%s/%d", base, l))
					}
				}
			case 3: // adjacent blocks
				a := g.intn(200)
				add(fmt.Sprintf("10.%d.0.0/16", a))
				add(fmt.Sprintf("10.%d.0.0/16", a+1))
			case 4: // edges of the address space
				add(g.pick([]string{"255.255.255.0/24", "255.255.255.255/32", "0.0.0.0/32", "ffff:ffff:ffff:ffff::/64", "ffff:ffff:ffff:ffff:ffff:ffff:ffff:ffff/128", "::1/128", "::2/127"}))
			case 5:
				add(fmt.Sprintf("2001:db8:%x::/%d", g.intn(65536), []int{32, 40, 48, 56, 64}[g.intn(5)]))
			case 6: // touching ::ffff:0:0/96 from both sides
				add(g.pick([]string{"::fffe:0:0/96", "::1:0:0:0/80", "0.0.0.0/1", "128.0.0.0/1", "::fffe:ffff:ffff/128", "0.0.0.0/8", "0.0.0.0/31",
					"::/96", "::/120", "::/128", "0.0.0.0/1", "::/1", "8000::/1", "::/8", "::/64", "::/80", "::8000:0:0/81", "::c000:0:0/82",
					"::fffe:0:0/95", "::/79", "255.0.0.0/8", "128.0.0.0/1", "255.255.255.255/32", "255.255.0.0/16"}))
				if g.bool() {
					// an IPv6 block ending exactly where the IPv4 range ends, next to an IPv4 block that
					// ends there too (and no IPv4 default route)
					add(g.pick([]string{"::/80", "::8000:0:0/81", "::c000:0:0/82", "::fffe:0:0/95"}))
					add(g.pick([]string{"255.0.0.0/8", "128.0.0.0/1", "255.255.255.255/32"}))
				}
			default:
				add(fmt.Sprintf("%s/%d", g.ip4(), 1+g.intn(32)))
			}
		}
		var lines []string
		lines = append(lines, "Mex.com,m1", "8ex.com,m1", "Zex.com,ns1.ex.com,hm.ex.com", "&ex.com,1.2.3.4,ns1.ex.com")
		for _, nn := range nets {
			lines = append(lines, "%"+nn.loc+","+nn.cidr+",m1")
		}
		if g.chance(1, 4) {
			lines = append(lines, "%zz,10.0.0.0/8,other", "%zz,::/0,other", "Mother.example,other")
		}
		g.shuffle(lines)
		// clients: breakpoints of every declared block (start, end, start-1, end+1) x prefix lengths
		var cl []string
		addClient := func(ip net.IP, ecsLen int) {
			if ip == nil {
				return
			}
			if ecsLen < 0 {
				cl = append(cl, "r"+hexTok(ip.To16()))
				return
			}
			fam := 2
			a := ip.To16()
			if ip.To4() != nil {
				fam = 1
				a = ip.To4()
				if ecsLen > 32 {
					return // not a valid IPv4 source prefix length
				}
			}
			if g.chance(1, 5) {
				// a client that did not clear the host bits of its address
				cl = append(cl, fmt.Sprintf("e%d/%d/%s", fam, ecsLen, hexTok(a)))
				return
			}
			cl = append(cl, fmt.Sprintf("e%d/%d/%s", fam, ecsLen, hexTok(maskBytes(a, ecsLen))))
		}
		for _, nn := range nets {
			_, ipn, _ := net.ParseCIDR(nn.cidr)
			ones, bits := ipn.Mask.Size()
			first := append(net.IP{}, ipn.IP...)
			last := append(net.IP{}, ipn.IP...)
			for b := range last {
				last[b] |= ^ipn.Mask[b]
			}
			for _, ip := range []net.IP{first, last, ipAdd(first, -1), ipAdd(last, 1)} {
				if g.chance(1, 2) {
					addClient(ip, -1)
				}
				for _, d := range []int{-1, 0, 1, bits - ones} {
					l := ones + d
					if l >= 0 && l <= bits && g.chance(1, 3) {
						addClient(ip, l)
					}
				}
			}
		}
		for j := 0; j < 6; j++ {
			addClient(net.ParseIP(g.ip(dataOpts{v6: true})), -1)
			addClient(net.ParseIP(g.ip4()), g.intn(33))
			addClient(net.ParseIP(g.ip6()), g.intn(129))
		}
		if len(cl) > 120 {
			g.shuffle(cl)
			cl = cl[:120]
		}
		var ls []string
		for _, l := range lines {
			ls = append(ls, hexTok([]byte(l)))
		}
		fmt.Fprintf(w, "loc %s %s\n", strings.Join(ls, ";"), strings.Join(cl, ";"))
		if i%3 == 0 {
			// which map covers a name: exact maps cover their own name only, wildcard maps everything
			// below theirs, the closest one wins. Each map sends every client to a location of its own.
			cand := []struct{ owner, id, lo string }{
				{"ex.com", "m1", ""}, {"*.ex.com", "m2", "bb"}, {"svc.ex.com", "m3", "cc"}, {"*.svc.ex.com", "m4", "dd"},
				{"www.svc.ex.com", "m5", "ee"}, {"*.com", "m6", "ff"}, {"*.www.svc.ex.com", "m7", "gg"}, {"sv.ex.com", "m8", "hh"},
			}
			nl := []string{"Zex.com,ns1.ex.com,hm.ex.com", "&ex.com,1.2.3.4,ns1.ex.com"}
			for ci, c := range cand {
				if ci == 0 && !g.chance(3, 4) || ci > 0 && !g.chance(1, 2) {
					continue
				}
				nl = append(nl, "M"+c.owner+","+c.id)
				if g.chance(1, 3) {
					nl = append(nl, "8"+c.owner+","+c.id)
				}
				if ci == 0 {
					for _, nn := range nets {
						nl = append(nl, "%"+nn.loc+","+nn.cidr+",m1")
					}
				} else {
					nl = append(nl, "%"+c.lo+",0.0.0.0/0,"+c.id, "%"+c.lo+",::/0,"+c.id)
				}
			}
			g.shuffle(nl)
			var nls []string
			for _, l := range nl {
				nls = append(nls, hexTok([]byte(l)))
			}
			ccl := cl
			if len(ccl) > 12 {
				ccl = ccl[:12]
			}
			for _, q := range []string{"ex.com", "svc.ex.com", "www.svc.ex.com", "a.www.svc.ex.com", "b.a.www.svc.ex.com", "x.svc.ex.com",
				"other.ex.com", "x.other.ex.com", "sv.ex.com", "svcs.ex.com", "com", "example.com", "ex.org"} {
				if !g.chance(2, 3) {
					continue
				}
				var wire []byte
				for _, lab := range strings.Split(q, ".") {
					wire = append(wire, byte(len(lab)))
					wire = append(wire, lab...)
				}
				wire = append(wire, 0)
				fmt.Fprintf(w, "locq %s %s %s\n", strings.Join(nls, ";"), strings.Join(ccl, ";"), hexTok(wire))
			}
		}
	}
}

func ipAdd(ip net.IP, d int) net.IP {
	out := append(net.IP{}, ip...)
	for i := len(out) - 1; i >= 0; i-- {
		v := int(out[i]) + d
		if v >= 0 && v <= 255 {
			out[i] = byte(v)
			return out
		}
		if d > 0 {
			out[i] = 0
		} else {
			out[i] = 255
		}
	}
	return nil // wrapped around the address space
}

// locRun: op `loc <lines> <clients>`: Reader.FindLocation for qname ex.com on every backend.
func locRun(f []string) (string, string) {
	if !(f[0] == "loc" && len(f) == 3 || f[0] == "locq" && len(f) == 4) {
		return "bad-op", "-"
	}
	var lines []string
	for _, h := range strings.Split(f[1], ";") {
		lines = append(lines, string(unhexTok(h)))
	}
	handlers, errs, dir := compileAll(lines, &stats.DummyStats{}, &dnsserver.DummyLogger{}, dnsserver.CacheConfig{}, backendNames)
	defer closeAll(handlers, dir)
	qname := []byte("\x02ex\x03com\x00")
	qtext := "ex.com."
	if f[0] == "locq" {
		// `locq <lines> <clients> <qname>`: the same for another query name (packed, lower case)
		qname = unhexTok(f[3])
		qtext = ""
		for i := 0; i < len(qname) && qname[i] != 0; i += 1 + int(qname[i]) {
			if i+1+int(qname[i]) > len(qname) {
				return "bad-op", "-"
			}
			qtext += string(qname[i+1:i+1+int(qname[i])]) + "."
		}
		if qtext == "" {
			qtext = "."
		}
	}
	res := map[string][]string{}
	var out []string
	for _, b := range backendNames {
		if e, bad := errs[b]; bad {
			out = append(out, b+":"+e)
			continue
		}
		setSeparateBitmap(b)
		rd, err := handlers[b].h.AcquireReader()
		if err != nil {
			out = append(out, b+":reader-error")
			continue
		}
		for _, c := range strings.Split(f[2], ";") {
			m := new(dns.Msg)
			m.SetQuestion(qtext, dns.TypeA)
			ip := "198.51.100.7"
			if c[0] == 'r' {
				ip = net.IP(unhexTok(c[1:])).String()
			} else {
				p := strings.Split(c[1:], "/")
				var fam, src int
				fmt.Sscan(p[0], &fam)
				fmt.Sscan(p[1], &src)
				o := new(dns.OPT)
				o.Hdr.Name, o.Hdr.Rrtype = ".", dns.TypeOPT
				addr := unhexTok(p[2])
				if bytes.Equal(maskBytes(addr, src), addr) {
					o.Option = append(o.Option, &dns.EDNS0_SUBNET{Code: dns.EDNS0SUBNET, Family: uint16(fam), SourceNetmask: uint8(src), Address: net.IP(addr)})
				} else {
					// host bits set: miekg clears them when packing a typed option, so send the option
					// raw, as a network client could (all address bytes present)
					raw := append([]byte{0, byte(fam), byte(src), 0}, addr...)
					o.Option = append(o.Option, &dns.EDNS0_LOCAL{Code: dns.EDNS0SUBNET, Data: raw})
				}
				m.Extra = append(m.Extra, o)
				if bts, err := m.Pack(); err == nil {
					m2 := new(dns.Msg)
					if m2.Unpack(bts) == nil {
						m = m2
					}
				}
			}
			r := func() (s string) {
				defer func() {
					if recover() != nil {
						s = "panic"
					}
				}()
				ecs, loc, err := rd.FindLocation(qname, m, ip)
				if err != nil {
					return "err"
				}
				sc := "-"
				if ecs != nil {
					sc = fmt.Sprint(ecs.SourceScope)
				}
				if loc == nil {
					return "nil/" + sc
				}
				return fmt.Sprintf("%s/%s", hexTok(loc.LocID[:]), sc)
			}()
			res[b] = append(res[b], r)
		}
		rd.Close()
		out = append(out, b+":"+strings.Join(res[b], "~"))
	}
	verdict := "ok"
	for i := range strings.Split(f[2], ";") {
		ref := ""
		for _, b := range backendNames {
			if _, bad := errs[b]; bad {
				continue
			}
			if ref == "" {
				ref = res[b][i]
			} else if res[b][i] != ref {
				verdict = fmt.Sprintf("FAIL:backends-differ@c%d(%s)", i, b)
			}
		}
	}
	_ = db.SeparateBitMap
	return strings.Join(out, "#"), verdict
}
