package main

import (
	"bufio"
	"fmt"
	"math"
	"sort"
	"strconv"
	"strings"

	"github.com/facebookincubator/dns/dnsrocks/db"
	"github.com/miekg/dns"
)

// C11 — weighted address selection (db.Wrs).
//
//	wrs     <max> <w:draw:fam;...>   fam = 4 | 6 | x ; any weight and any 32-bit draw, 0 and 2^32-1
//	                                 included ; property oracle on. The draw of a weight-0 candidate is
//	                                 not fed to the code: Add must not consume a random number for it.
//	wrsedge <max> <w:draw:fam;...>   synonym of wrs (older corpora)
//	wrsstat <w,w,...>                chi-square test of proportionality with the process PRNG
//
// Output of wrs/wrsedge: 4=<sorted candidate indices|_>/6=<...>/w=<0|1>/e=<#Add errors>, or
// `near-tie` when two float keys the code compares are within 1e-12 relative.
func init() {
	props["C11"] = &prop{gen: c11gen, run: c11run}
}

const c11maxU32 = 4294967295

var c11weights = []uint32{0, 1, 2, 1000, c11maxU32}

// c11src is a scripted rand.Source64: first the scripted 32-bit draws (as seen through
// rand.Rand.Uint32 = uint32(Int63() >> 31)), then a splitmix stream (consumed by Shuffle).
type c11src struct {
	draws []uint32
	pos   int
	over  int
	s     uint64
}

func (s *c11src) next() uint64 {
	s.s += 0x9E3779B97F4A7C15
	z := s.s
	z = (z ^ (z >> 30)) * 0xBF58476D1CE4E5B9
	z = (z ^ (z >> 27)) * 0x94D049BB133111EB
	return z ^ (z >> 31)
}

func (s *c11src) Int63() int64 {
	if s.pos < len(s.draws) {
		d := s.draws[s.pos]
		s.pos++
		return int64(d) << 31
	}
	s.over++
	return int64(s.next() >> 1)
}
func (s *c11src) Uint64() uint64 { return uint64(s.Int63())<<1 | (s.next() & 1) }
func (s *c11src) Seed(int64)     {}

type c11cand struct {
	w    uint32
	draw uint32
	fam  byte // '4', '6', 'x'
}

func c11parse(s string) []c11cand {
	if s == "-" {
		return nil
	}
	var out []c11cand
	for _, it := range strings.Split(s, ";") {
		f := strings.Split(it, ":")
		if len(f) != 3 || len(f[2]) != 1 {
			panic("bad candidate " + it)
		}
		w, err1 := strconv.ParseUint(f[0], 10, 32)
		d, err2 := strconv.ParseUint(f[1], 10, 32)
		if err1 != nil || err2 != nil {
			panic("bad candidate " + it)
		}
		out = append(out, c11cand{uint32(w), uint32(d), f[2][0]})
	}
	return out
}

// c11key is the expression of Wrs.Add.
func c11key(c c11cand) float64 {
	return math.Pow(float64(c.draw)*float64(1.0/math.MaxUint32), 1.0/float64(c.w))
}

// c11special: keys that are exact whatever the pow implementation (Pow(0, y) = 0, Pow(1, y) = 1).
func c11special(c c11cand) bool { return c.draw == 0 || c.draw == c11maxU32 }

// c11minRel mirrors Driver.C11.minRel.
func c11minRel(cs []c11cand) float64 {
	r := 1.0
	for i := range cs {
		for j := i + 1; j < len(cs); j++ {
			c, d := cs[i], cs[j]
			if c.fam != d.fam || c.fam == 'x' {
				continue
			}
			if c.w == 0 || d.w == 0 {
				continue // a weight-0 candidate has no key
			}
			if c11special(c) && c11special(d) {
				continue
			}
			if c.w == d.w && c.draw == d.draw {
				continue
			}
			kc, kd := c11key(c), c11key(d)
			m := math.Max(kc, kd)
			if x := math.Abs(kc-kd) / m; x < r {
				r = x
			}
		}
	}
	return r
}

func c11idx(xs []int) string {
	if len(xs) == 0 {
		return "_"
	}
	sort.Ints(xs)
	s := make([]string, len(xs))
	for i, x := range xs {
		s[i] = strconv.Itoa(x)
	}
	return strings.Join(s, ",")
}

func c11addr(i int, fam byte) []byte {
	if fam == '6' {
		return []byte{0x20, 0x01, 0x0d, 0xb8, 0, 0, 0, 0, 0, 0, 0, 0, 0, 0x11, byte(i >> 8), byte(i)}
	}
	return []byte{10, 11, byte(i >> 8), byte(i)}
}

const c11name = "x.example.org."

func c11wrs(max int, cs []c11cand) (string, string) {
	var draws []uint32
	for _, c := range cs {
		if c.fam != 'x' && c.w != 0 {
			draws = append(draws, c.draw)
		}
	}
	src := &c11src{draws: draws, s: uint64(len(cs))*1000003 + uint64(max+7)}
	restore := db.SetRandSourceForVerif(src)
	defer restore()

	w := db.Wrs{MaxAnswers: max}
	errs := 0
	bad := ""
	for i, c := range cs {
		// row layout does not matter to Wrs: data[rec.Offset:] is the address
		prefix := make([]byte, i%5)
		for j := range prefix {
			prefix[j] = byte(0xa0 + j)
		}
		var qt uint16
		switch c.fam {
		case '4':
			qt = dns.TypeA
		case '6':
			qt = dns.TypeAAAA
		default:
			qt = dns.TypeTXT
		}
		data := append(prefix, c11addr(i, c.fam)...)
		rec := db.ResourceRecord{Weight: c.w, Qtype: qt, TTL: uint32(100 + i), Offset: len(prefix)}
		if err := w.Add(rec, data); err != nil {
			errs++
			if c.fam != 'x' {
				bad = "FAIL:add-error-on-address-type"
			}
		} else if c.fam == 'x' {
			bad = "FAIL:add-accepted-unsupported-type"
		}
	}
	if src.pos != len(draws) || src.over != 0 {
		bad = fmt.Sprintf("FAIL:draws-consumed-%d+%d-of-%d", src.pos, src.over, len(draws))
	}
	weightedBefore := w.WeightedAnswer()
	rr4, err4 := w.ARecord(c11name, dns.ClassINET)
	rr6, err6 := w.AAAARecord(c11name, dns.ClassINET)
	if err4 != nil || err6 != nil {
		return "record-error", "FAIL:record-error"
	}
	var s4, s6 []int
	for _, rr := range rr4 {
		a, ok := rr.(*dns.A)
		if !ok || len(a.A) != 4 {
			return "bad-rr", "FAIL:not-an-A-record"
		}
		i := int(a.A[2])<<8 | int(a.A[3])
		h := rr.Header()
		if i >= len(cs) || a.A[0] != 10 || a.A[1] != 11 || h.Ttl != uint32(100+i) || h.Name != c11name ||
			h.Class != dns.ClassINET || h.Rrtype != dns.TypeA {
			bad = "FAIL:A-record-not-a-candidate"
		}
		s4 = append(s4, i)
	}
	for _, rr := range rr6 {
		a, ok := rr.(*dns.AAAA)
		if !ok || len(a.AAAA) != 16 {
			return "bad-rr", "FAIL:not-an-AAAA-record"
		}
		i := int(a.AAAA[14])<<8 | int(a.AAAA[15])
		h := rr.Header()
		if i >= len(cs) || a.AAAA[0] != 0x20 || a.AAAA[13] != 0x11 || h.Ttl != uint32(100+i) || h.Name != c11name ||
			h.Class != dns.ClassINET || h.Rrtype != dns.TypeAAAA {
			bad = "FAIL:AAAA-record-not-a-candidate"
		}
		s6 = append(s6, i)
	}
	wflag := 0
	if w.WeightedAnswer() {
		wflag = 1
	}
	if w.WeightedAnswer() != weightedBefore {
		bad = "FAIL:weighted-flag-changed-by-record"
	}
	out := fmt.Sprintf("4=%s/6=%s/w=%d/e=%d", c11idx(s4), c11idx(s6), wflag, errs)
	if c11minRel(cs) <= 1e-12 {
		out = "near-tie"
	}
	if bad != "" {
		return out, bad
	}
	if out == "near-tie" {
		return out, "-"
	}
	// property oracle (full strength: every weight, every draw)
	m := max
	if m < 0 {
		m = 0
	}
	many := false
	for _, fam := range []byte{'4', '6'} {
		sel := s4
		if fam == '6' {
			sel = s6
		}
		n, npos := 0, 0
		for _, c := range cs {
			if c.fam == fam {
				n++
				if c.w > 0 {
					npos++
				}
			}
		}
		want := npos
		if m < want {
			want = m
		}
		seen := map[int]bool{}
		for _, i := range sel {
			if seen[i] {
				return out, "FAIL:duplicate-address"
			}
			seen[i] = true
			if cs[i].fam != fam {
				return out, "FAIL:wrong-family"
			}
			if cs[i].w == 0 {
				return out, "FAIL:weight0-served"
			}
		}
		if len(sel) != want {
			return out, fmt.Sprintf("FAIL:count-%c-want-%d-got-%d", fam, want, len(sel))
		}
		if n > 1 {
			many = true
		}
	}
	if many != (wflag == 1) {
		return out, "FAIL:weighted-flag"
	}
	return out, "ok"
}

// chi-square critical values at alpha = 1e-6 for df = 1..12
var c11crit = []float64{0, 23.93, 27.63, 30.66, 33.38, 35.89, 38.26, 40.52, 42.70, 44.81, 46.86, 48.87, 50.83}

const c11statN = 200000

// c11stat: max = 1, N selections with the package's own generator (no hook): TEST, not proof.
func c11stat(ws []uint32) (string, string) {
	counts := make([]int, len(ws))
	var total float64
	npos := 0
	for _, w := range ws {
		total += float64(w)
		if w > 0 {
			npos++
		}
	}
	if npos < 2 || npos-1 >= len(c11crit) {
		return "bad-op", "FAIL:wrsstat-needs-2..13-positive-weights"
	}
	empty := 0
	for n := 0; n < c11statN; n++ {
		w := db.Wrs{MaxAnswers: 1}
		for i, wt := range ws {
			if err := w.Add(db.ResourceRecord{Weight: wt, Qtype: dns.TypeA, TTL: 1, Offset: 0}, c11addr(i, '4')); err != nil {
				return "FAIL", "FAIL:add-error"
			}
		}
		rrs, err := w.ARecord(c11name, dns.ClassINET)
		if err != nil || len(rrs) > 1 {
			return "FAIL", "FAIL:record"
		}
		if len(rrs) == 0 {
			empty++ // never: there is a positive weight
			continue
		}
		a := rrs[0].(*dns.A).A
		counts[int(a[2])<<8|int(a[3])]++
	}
	chi2 := 0.0
	served := c11statN - empty
	for i, w := range ws {
		if w == 0 {
			if counts[i] != 0 {
				return "FAIL", fmt.Sprintf("FAIL:weight0-served-%d-times", counts[i])
			}
			continue
		}
		e := float64(served) * float64(w) / total
		d := float64(counts[i]) - e
		chi2 += d * d / e
	}
	df := npos - 1
	detail := fmt.Sprintf("chi2=%.3f/df=%d/crit=%.2f/n=%d/empty=%d", chi2, df, c11crit[df], c11statN, empty)
	if chi2 > c11crit[df] || empty > 0 {
		return "FAIL", "FAIL:" + detail
	}
	return "ok", "ok:" + detail
}

func c11run(line string) (string, string) {
	f := strings.Fields(line)
	switch f[0] {
	case "wrs", "wrsedge":
		if len(f) != 3 {
			return "bad-op", "-"
		}
		max, err := strconv.Atoi(f[1])
		if err != nil {
			return "bad-op", "-"
		}
		return c11wrs(max, c11parse(f[2]))
	case "wrsstat":
		if len(f) != 2 {
			return "bad-op", "-"
		}
		var ws []uint32
		for _, s := range strings.Split(f[1], ",") {
			w, err := strconv.ParseUint(s, 10, 32)
			if err != nil {
				return "bad-op", "-"
			}
			ws = append(ws, uint32(w))
		}
		return c11stat(ws)
	}
	return "bad-op", "-"
}

func c11line(w *bufio.Writer, op string, max int, cs []c11cand) {
	parts := make([]string, len(cs))
	for i, c := range cs {
		parts[i] = fmt.Sprintf("%d:%d:%c", c.w, c.draw, c.fam)
	}
	body := "-"
	if len(parts) > 0 {
		body = strings.Join(parts, ";")
	}
	fmt.Fprintf(w, "%s %d %s\n", op, max, body)
}

func c11gen(g *gen, tier string, w *bufio.Writer) {
	// 1. exhaustive small: replacement logic incl. exact ties (same weight and draw)
	exW := []uint32{0, 1, 2}
	exD := []uint32{0, 1000, 1 << 31, 4000000000, c11maxU32}
	maxSize := 3
	if tier == "thorough" {
		maxSize = 4
	}
	for size := 1; size <= maxSize; size++ {
		for _, max := range []int{1, 2, 3} {
			if max > size {
				continue
			}
			n := 1
			for i := 0; i < size; i++ {
				n *= len(exW) * len(exD)
			}
			for code := 0; code < n; code++ {
				cs := make([]c11cand, size)
				c := code
				for i := range cs {
					cs[i] = c11cand{exW[c%len(exW)], exD[(c/len(exW))%len(exD)], '4'}
					c /= len(exW) * len(exD)
				}
				if max == 2 && size == 3 {
					for i := range cs {
						cs[i].fam = '6'
					}
				}
				c11line(w, "wrs", max, cs)
			}
		}
	}
	// 1b. exhaustive pairs over every weight class x the extreme draws and their neighbours
	edge := []uint32{0, 1, c11maxU32 - 1, c11maxU32}
	for _, max := range []int{1, 2} {
		for code := 0; code < 400; code++ {
			a, b := code%20, code/20
			cs := []c11cand{{c11weights[a%5], edge[a/5], '4'}, {c11weights[b%5], edge[b/5], '4'}}
			if max == 1 && code < 20 {
				c11line(w, "wrs", max, cs[:1])
			}
			c11line(w, "wrs", max, cs)
		}
	}
	// 2. random candidate sets
	n := 6000
	if tier == "thorough" {
		n = 150000
	}
	randDraw := func() uint32 {
		switch g.intn(10) {
		case 0:
			return uint32(1 + g.intn(1000)) // tiny u
		case 1:
			return uint32(c11maxU32 - 1 - uint32(g.intn(1000))) // u close to 1
		case 2:
			return []uint32{1 << 31, 1 << 16, 3000000000, 12345}[g.intn(4)] // repeated draws: exact ties
		case 3:
			return []uint32{0, c11maxU32}[g.intn(2)] // the extreme draws: keys 0 and 1
		}
		return uint32(g.u64())
	}
	for i := 0; i < n; i++ {
		size := 1 + g.intn(12)
		max := 1 + g.intn(8)
		if g.chance(1, 40) {
			max = g.intn(2) - 1 // 0 or -1: nothing is ever served
		}
		if g.chance(1, 3) {
			max = 1
		}
		mode := g.intn(4) // 0: all A, 1: all AAAA, 2: mixed, 3: mixed + unsupported
		wmode := g.intn(4)
		cs := make([]c11cand, size)
		for j := range cs {
			var c c11cand
			switch wmode {
			case 0:
				c.w = c11weights[g.intn(len(c11weights))]
			case 1:
				c.w = []uint32{0, 1}[g.intn(2)]
			case 2:
				c.w = uint32(1 + g.intn(5))
			default:
				c.w = []uint32{0, 0, 0, 1000}[g.intn(4)] // mostly weight 0
			}
			c.draw = randDraw()
			switch mode {
			case 0:
				c.fam = '4'
			case 1:
				c.fam = '6'
			case 2:
				c.fam = "46"[g.intn(2)]
			default:
				c.fam = "4466x"[g.intn(5)]
			}
			cs[j] = c
		}
		c11line(w, "wrs", max, cs)
	}
	// 3. mostly extreme draws: u = 0 (key 0) and u = 2^32-1 (key 1) on every weight class incl. 0 and 2^32-1
	ne := n / 6
	for i := 0; i < ne; i++ {
		size := 1 + g.intn(6)
		max := 1 + g.intn(4)
		cs := make([]c11cand, size)
		for j := range cs {
			c := c11cand{w: c11weights[g.intn(len(c11weights))], fam: '4'}
			if g.chance(2, 3) {
				c.draw = edge[g.intn(len(edge))]
			} else {
				c.draw = randDraw()
			}
			if g.chance(1, 4) {
				c.fam = '6'
			}
			cs[j] = c
		}
		c11line(w, "wrs", max, cs)
	}
	// 4. statistical test of proportionality (labelled test)
	// (the largest weights crowd the keys u^(1/w) just below 1: the selection must still tell them apart)
	stats := []string{"1,1", "1,2,3,4", "0,7,0,3", "1000,500,250,250", "4294967295,4294967295",
		"1000000000,2000000000,1000000000", "16777216,16777216,33554432"}
	if tier == "thorough" {
		stats = append(stats, "4294967295,4294967295,2147483647", "2,1,1,1,1,1,1", "1,1000", "1,1,1,1,1,1,1,1,1,1,1,1",
			"1,1", "1,2,3,4", "0,7,0,3", "1000,500,250,250")
	}
	for _, s := range stats {
		fmt.Fprintf(w, "wrsstat %s\n", s)
	}
}
