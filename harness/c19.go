package main

import (
	"bufio"
	"fmt"
	"runtime"
	"sort"
	"strconv"
	"strings"
	"sync"
	"time"

	"github.com/facebookincubator/dns/dnsrocks/metrics"
)

func init() {
	props["C19"] = &prop{gen: c19gen, run: c19run}
}

const c19margin = 150 // ms: planned distance of every event and expiry from every cleaner tick

func c19farFromTicks(t int) bool {
	r := t % 1000
	return r >= c19margin && r <= 1000-c19margin
}

// c19case generates one window scenario: lifetime and a list of add/query events (planned ms
// offsets from the creation of the window), all kept away from tick instants.
func c19case(g *gen, id int) string {
	life := 1150 + g.intn(1400)
	for !c19farFromTicks(life) { // so that adds far from ticks expire far from ticks... checked below anyway
		life = 1150 + g.intn(1400)
	}
	type ev struct {
		t   int
		add bool
		v   int
	}
	var evs []ev
	n := 1 + g.intn(7)
	val := id*100 + 1
	for i := 0; i < n; i++ {
		for try := 0; try < 50; try++ {
			t := g.intn(3300)
			dupT := false
			for _, e := range evs {
				if e.t == t {
					dupT = true // two adds at the same planned instant have no defined order
				}
			}
			if !dupT && c19farFromTicks(t) && c19farFromTicks(t+life) {
				evs = append(evs, ev{t, true, val})
				val++
				break
			}
		}
	}
	for i := 0; i < 1+g.intn(4); i++ {
		for try := 0; try < 50; try++ {
			t := 200 + g.intn(4000)
			if c19farFromTicks(t) {
				ok := true
				for _, e := range evs {
					if abs(e.t-t) < 60 {
						ok = false
					}
				}
				if ok {
					evs = append(evs, ev{t, false, 0})
					break
				}
			}
		}
	}
	sort.SliceStable(evs, func(i, j int) bool { return evs[i].t < evs[j].t })
	var parts []string
	for _, e := range evs {
		if e.add {
			parts = append(parts, fmt.Sprintf("a%d=%d", e.t, e.v))
		} else {
			parts = append(parts, fmt.Sprintf("q%d", e.t))
		}
	}
	return fmt.Sprintf("L%d:%s", life, strings.Join(parts, ","))
}

func abs(x int) int {
	if x < 0 {
		return -x
	}
	return x
}

func c19gen(g *gen, tier string, w *bufio.Writer) {
	lines, per := 1, 80
	if tier == "thorough" {
		lines, per = 6, 300
	}
	// the history that exposes a cleaner which mishandles an expired first sample
	fmt.Fprintf(w, "win L1500:a50=5,a850=7,a870=9,q1200,q2200,q2600,q3200\n")
	for l := 0; l < lines; l++ {
		var cases []string
		for i := 0; i < per; i++ {
			cases = append(cases, c19case(g, l*per+i+1))
		}
		fmt.Fprintf(w, "win %s\n", strings.Join(cases, ";"))
	}
	// fresh counters incremented by several goroutines at once
	fmt.Fprintf(w, "cconc %d %d %d\n", 1500, 4+g.intn(6), 3+g.intn(4))
	// adders running concurrently with the cleaner: no sample may be lost, duplicated or invented
	fmt.Fprintf(w, "wconc 1500 3700 %d\n", 1+g.intn(3))
	if tier == "thorough" {
		fmt.Fprintf(w, "wconc 1100 5200 4\nwconc 2500 6100 1\n")
	}
	// Stats.Get: min / max / avg of the samples of a window
	n := 400
	if tier == "thorough" {
		n = 5000
	}
	for i := 0; i < n; i++ {
		k := 1 + g.intn(9)
		var vs []string
		for j := 0; j < k; j++ {
			var v int64
			switch g.intn(5) {
			case 0:
				v = int64(g.intn(5))
			case 1:
				v = -int64(g.intn(1000))
			case 2:
				v = int64(g.u64() >> 20)
			default:
				v = int64(g.intn(100000))
			}
			vs = append(vs, strconv.FormatInt(v, 10))
		}
		fmt.Fprintf(w, "get %s\n", strings.Join(vs, ","))
	}
	fmt.Fprintf(w, "get -\n")
	for i := 0; i < n/8; i++ {
		var groups []string
		for k, ng := 0, 2+g.intn(3); k < ng; k++ {
			var vs []string
			for j, nv := 0, 1+g.intn(5); j < nv; j++ {
				vs = append(vs, strconv.FormatInt(int64(g.intn(100000))-int64(g.intn(3))*40000, 10))
			}
			groups = append(groups, strings.Join(vs, ","))
		}
		fmt.Fprintf(w, "getn %s\n", strings.Join(groups, "|"))
	}
	// counters and the query log around real query streams (every response class; repeated queries
	// so that cache hits occur)
	files := 12
	if tier == "thorough" {
		files = 300
	}
	for i := 0; i < files; i++ {
		withLoc := i%2 == 1
		df := g.genDataFile(dataOpts{v6: true, maxZone: 3, locs: withLoc, maps: withLoc})
		qs := g.genQueries(df, 30, withLoc)
		for k := 0; k < 10; k++ {
			qs = append(qs, qs[g.intn(len(qs))]) // repeats: cache hits
		}
		for _, q := range qs {
			if g.chance(1, 12) {
				q.opt = true
				q.version = 1
			}
		}
		fmt.Fprintln(w, "servestats"+serveOpLine(df, qs)[len("serve"):])
	}
}

func c19runWindow(c string) string {
	p := strings.SplitN(c, ":", 2)
	life, _ := strconv.Atoi(p[0][1:])
	win, err := metrics.NewSlidingWindowForVerif(time.Duration(life) * time.Millisecond)
	if err != nil {
		return "error"
	}
	t0 := time.Now()
	defer win.Stop()
	var out []string
	for _, e := range strings.Split(p[1], ",") {
		var t int
		if e[0] == 'a' {
			kv := strings.Split(e[1:], "=")
			t, _ = strconv.Atoi(kv[0])
			v, _ := strconv.ParseInt(kv[1], 10, 64)
			time.Sleep(time.Until(t0.Add(time.Duration(t) * time.Millisecond)))
			win.Add(v)
		} else {
			t, _ = strconv.Atoi(e[1:])
			time.Sleep(time.Until(t0.Add(time.Duration(t) * time.Millisecond)))
			s := win.Samples()
			var vs []string
			for _, x := range s {
				vs = append(vs, strconv.FormatInt(x, 10))
			}
			out = append(out, fmt.Sprintf("q%d=[%s]", t, strings.Join(vs, " ")))
		}
		if d := time.Since(t0) - time.Duration(t)*time.Millisecond; d > 50*time.Millisecond {
			return "skip" // the machine was too busy to keep the planned schedule
		}
	}
	return strings.Join(out, ",")
}

func c19run(line string) (string, string) {
	f := strings.Fields(line)
	switch f[0] {
	case "servestats":
		return serveStatsRun(f)
	case "win":
		cases := strings.Split(f[1], ";")
		res := make([]string, len(cases))
		var wg sync.WaitGroup
		for i, c := range cases {
			wg.Add(1)
			go func(i int, c string) {
				defer wg.Done()
				res[i] = c19runWindow(c)
			}(i, c)
		}
		wg.Wait()
		return strings.Join(res, ";"), "-"
	case "wconc":
		return c19runConcurrent(f[1:])
	case "cconc":
		// counters equal the sum of their increments regardless of concurrency: `keys` fresh counters,
		// each incremented `adds` times by each of `gor` goroutines released together
		keys, _ := strconv.Atoi(f[1])
		gor, _ := strconv.Atoi(f[2])
		adds, _ := strconv.Atoi(f[3])
		st := metrics.NewStats()
		short := 0
		for k := 0; k < keys; k++ {
			key := fmt.Sprintf("c%d", k)
			start := make(chan struct{})
			var wg sync.WaitGroup
			for gi := 0; gi < gor; gi++ {
				wg.Add(1)
				go func(gi int) {
					defer wg.Done()
					<-start
					for a := 0; a < adds; a++ {
						if (gi+a)%3 == 0 {
							st.IncrementCounterBy(key, 1)
						} else {
							st.IncrementCounter(key)
						}
					}
				}(gi)
			}
			close(start)
			wg.Wait()
		}
		got := st.Get()
		for k := 0; k < keys; k++ {
			if got[fmt.Sprintf("c%d", k)] != int64(gor*adds) {
				short++
			}
		}
		if short > 0 {
			return fmt.Sprintf("wrong=%d", 1), fmt.Sprintf("FAIL:%d-of-%d-counters-differ-from-the-sum-of-their-increments", short, keys)
		}
		return "wrong=0", "ok"
	case "getn":
		// several sampled metrics in one Stats: every metric's min/max/avg is computed from its own
		// samples, whatever else is exported at the same time (repeated: map iteration order varies)
		st := metrics.NewStats()
		groups := strings.Split(f[1], "|")
		for gi, grp := range groups {
			for _, s := range strings.Split(grp, ",") {
				v, _ := strconv.ParseInt(s, 10, 64)
				st.AddSample(fmt.Sprintf("m%d", gi), v)
			}
		}
		first := ""
		for rep := 0; rep < 12; rep++ {
			got := st.Get()
			var parts []string
			for gi := range groups {
				k := fmt.Sprintf("m%d", gi)
				parts = append(parts, fmt.Sprintf("%d,%d,%d", got[k+".min"], got[k+".max"], got[k+".avg"]))
			}
			cur := strings.Join(parts, "|")
			if rep == 0 {
				first = cur
			} else if cur != first {
				return first + "!=" + cur, "FAIL:export-differs-between-two-Get-calls"
			}
		}
		return first, "-"
	case "get":
		st := metrics.NewStats()
		if f[1] != "-" {
			for _, s := range strings.Split(f[1], ",") {
				v, _ := strconv.ParseInt(s, 10, 64)
				st.AddSample("m", v)
			}
		} else {
			// an existing but empty window cannot be produced through the public API without waiting
			// for expiry; the empty case is the absence of keys
			got := st.Get()
			if len(got) != 0 {
				return "unexpected-keys", "-"
			}
			return "none", "-"
		}
		got := st.Get()
		return fmt.Sprintf("%d,%d,%d", got["m.min"], got["m.max"], got["m.avg"]), "-"
	}
	return "bad-op", "-"
}

// c19runConcurrent: `adders` goroutines add distinct values as fast as they can for runMs while the
// cleaner ticks; then Samples() is taken. Every value whose Add was called less than one lifetime
// before Samples() returned cannot have expired at any tick so far and must be reported; nothing
// may be reported twice or without having been added. No assumption on machine speed: older
// values may or may not have been cleaned and are not judged.
func c19runConcurrent(a []string) (string, string) {
	lifeMs, _ := strconv.Atoi(a[0])
	runMs, _ := strconv.Atoi(a[1])
	adders, _ := strconv.Atoi(a[2])
	lifetime := time.Duration(lifeMs) * time.Millisecond
	w, err := metrics.NewSlidingWindowForVerif(lifetime)
	if err != nil {
		return "init-error", "FAIL:init"
	}
	defer w.Stop()
	const stride = int64(1) << 32
	addedAt := make([][]time.Time, adders)
	stopAt := time.Now().Add(time.Duration(runMs) * time.Millisecond)
	var wg sync.WaitGroup
	for k := 0; k < adders; k++ {
		wg.Add(1)
		go func(k int) {
			defer wg.Done()
			at := make([]time.Time, 0, 1<<20)
			for i := 0; ; i++ {
				now := time.Now()
				if !now.Before(stopAt) || len(at) >= 1<<22 {
					break
				}
				at = append(at, now)
				w.Add(int64(k)*stride + int64(len(at)-1))
				if i%64 == 0 {
					runtime.Gosched()
				}
			}
			addedAt[k] = at
		}(k)
	}
	wg.Wait()
	got := w.Samples()
	after := time.Now()
	seen := make([]map[int64]bool, adders)
	for k := range seen {
		seen[k] = map[int64]bool{}
	}
	lost, dup, phantom := 0, 0, 0
	for _, v := range got {
		k, i := int(v/stride), v%stride
		if v < 0 || k >= adders || i >= int64(len(addedAt[k])) {
			phantom++
			continue
		}
		if seen[k][i] {
			dup++
		}
		seen[k][i] = true
	}
	for k := range addedAt {
		for i, t := range addedAt[k] {
			if t.Add(lifetime).After(after) && !seen[k][int64(i)] {
				lost++
			}
		}
	}
	verdict := "ok"
	if lost+dup+phantom > 0 {
		verdict = fmt.Sprintf("FAIL:window-concurrent lost=%d dup=%d phantom=%d of %d reported", lost, dup, phantom, len(got))
	}
	b := func(n int) int {
		if n > 0 {
			return 1
		}
		return 0
	}
	return fmt.Sprintf("lost=%d,dup=%d,phantom=%d", b(lost), b(dup), b(phantom)), verdict
}
