package main

// C19, second half: counters and the query log. Op `servestats <lines> <queries>`: the queries are
// served by a real handler (CDB backend, cache on) wired to recording Stats and Logger
// implementations; per query the response, the counters incremented and the logger calls.

import (
	"fmt"
	"sort"
	"strings"
	"sync"

	"github.com/coredns/coredns/request"
	"github.com/facebookincubator/dns/dnsrocks/dnsserver"
	"github.com/miekg/dns"
)

type recStats struct {
	mu   sync.Mutex
	incs []string
}

func (s *recStats) add(k string) { s.mu.Lock(); s.incs = append(s.incs, k); s.mu.Unlock() }

func (s *recStats) ResetCounterTo(key string, value int64) {}
func (s *recStats) ResetCounter(key string)                {}
func (s *recStats) IncrementCounterBy(key string, value int64) {
	s.add(fmt.Sprintf("%s+%d", key, value))
}
func (s *recStats) IncrementCounter(key string)       { s.add(key) }
func (s *recStats) AddSample(key string, value int64) {}

type recLogger struct {
	mu     sync.Mutex
	logged []*dns.Msg
	failed int
}

func (l *recLogger) Log(state request.Request, r *dns.Msg, ecs *dns.EDNS0_SUBNET) {
	l.mu.Lock()
	l.logged = append(l.logged, r.Copy())
	l.mu.Unlock()
}
func (l *recLogger) LogFailed(state request.Request, r *dns.Msg, ecs *dns.EDNS0_SUBNET) {
	l.mu.Lock()
	l.failed++
	l.mu.Unlock()
}

// canonCounter maps the per-type counter to its numeric form so the model needs no name table.
func canonCounter(k string) string {
	if strings.HasPrefix(k, dnsserver.TypeToStatsPrefix+".") {
		name := k[len(dnsserver.TypeToStatsPrefix)+1:]
		if t, ok := dns.StringToType[name]; ok {
			return fmt.Sprintf("T%d", t)
		}
		if strings.HasPrefix(name, "TYPE") {
			return "T" + name[4:]
		}
	}
	return k
}

func serveStatsRun(f []string) (string, string) {
	if len(f) != 3 {
		return "bad-op", "-"
	}
	var lines []string
	for _, h := range strings.Split(f[1], ";") {
		lines = append(lines, string(unhexTok(h)))
	}
	st := &recStats{}
	lg := &recLogger{}
	handlers, errs, dir := compileAll(lines, st, lg, dnsserver.CacheConfig{Enabled: true, LRUSize: 4096}, []string{"cdb"})
	defer closeAll(handlers, dir)
	if _, bad := errs["cdb"]; bad {
		return "cdb:compile-error", "-"
	}
	setSeparateBitmap("cdb")
	verdict := "ok"
	var out []string
	for _, t := range strings.Split(f[2], ";") {
		q := parseQuery(t)
		st.incs = nil
		lg.logged = nil
		lg.failed = 0
		req := q.wireQuery()
		if req == nil {
			out = append(out, "invalid-query")
			continue
		}
		w := &recWriter{remote: q.resolver, tcp: true}
		res := func() (s string) {
			defer func() {
				if recover() != nil {
					s = "panic"
				}
			}()
			rc, err := handlers["cdb"].h.ServeDNSWithRCODE(ctxWithMax(q.maxAns), w, req)
			return respCanon(rc, err, w, req)
		}()
		var cs []string
		for _, k := range st.incs {
			cs = append(cs, canonCounter(k))
		}
		sort.Strings(cs)
		logmatch := 1
		if len(lg.logged) == 1 && len(w.msgs) == 1 {
			// the logged message must be the message really sent
			a, _ := lg.logged[0].Pack()
			b, _ := w.msgs[0].Pack()
			if string(a) != string(b) {
				logmatch = 0
				verdict = "FAIL:logged-message-differs-from-sent"
			}
		}
		if len(w.msgs) == 1 && strings.HasPrefix(res, "rc=") && !strings.HasPrefix(res, "rc=2,") && len(lg.logged) != 1 {
			verdict = fmt.Sprintf("FAIL:composed-reply-logged-%d-times", len(lg.logged))
		}
		// the statement, read off the increments directly: the query counter and the counter of the
		// query's type exactly once each; outcome counters as the response sent dictates
		count := func(name string) int {
			n := 0
			for _, c := range cs {
				if c == name {
					n++
				}
			}
			return n
		}
		ntype, own := 0, fmt.Sprintf("T%d", q.qtype)
		for _, c := range cs {
			if len(c) > 1 && c[0] == 'T' && c[1] >= '0' && c[1] <= '9' {
				ntype++
			}
		}
		if res != "panic" {
			if n := count("DNS_queries"); n != 1 {
				verdict = fmt.Sprintf("FAIL:query-counter-incremented-%d-times", n)
			}
			if ntype != 1 || count(own) != 1 {
				verdict = fmt.Sprintf("FAIL:type-counter-%s-incremented-%d-times(%d type counters)", own, count(own), ntype)
			}
			for rc, name := range map[string]string{"rc=3,": "DNS_queries_nxdomain", "rc=5,": "DNS_queries_refused", "rc=16,": "DNS_queries_badvers"} {
				want := 0
				if strings.HasPrefix(res, rc) {
					want = 1
				}
				if n := count(name); n != want {
					verdict = fmt.Sprintf("FAIL:%s-incremented-%d-times-for-%s", name, n, res[:5])
				}
			}
		}
		out = append(out, fmt.Sprintf("%s@%s@log=%d,failed=%d,match=%d", res, strings.Join(cs, ","), len(lg.logged), lg.failed, logmatch))
	}
	return "cdb:" + strings.Join(out, "~"), verdict
}
