package main

// C02, the per-request context cache of the RocksDB reader (dnsdata/rdb/rdb.go: Context.cache,
// RDB.get, RDB.FindClosest, Context.update).
//
// op `ctx <v1|v2> <hex lines joined by ;> <lookups joined by ;>`
//   lookup `g<keyhex>` : exact lookup (RDB.ForEach -> RDB.get)
//   lookup `c<keyhex>` : closest-key lookup (RDB.FindClosest)
//   lookup `G<keyhex>` : exact lookup by a caller that reuses its key buffer: after the call every
//                        byte of the buffer is inverted (sortedDataReader.ForEachResourceRecord
//                        overwrites the location bytes of its key between its two lookups)
// The data file is compiled to a real RocksDB (v1 or v2 keys). All lookups are issued through ONE
// rdb.Context (what one request does), then each of them once more through a FRESH context of its
// own (uncached). Output `c=<r>~<r>…#u=<r>~<r>…`:
//   exact   : `g:<data>`
//   closest : `c:<found key hex>:<data>`, `c:!` when the iterator is not valid (nil, nil)
//   <data>  : `nil` (no bytes) | `<n>.<sum of the FNV-64a of the n values, hex>` | `bad` (not a multi-value)
// Property verdict: FAIL when a cached result differs from the uncached one.

import (
	"bufio"
	"bytes"
	"fmt"
	"hash/fnv"
	"io"
	"os"
	"path/filepath"
	"strings"
	"time"

	"github.com/facebookincubator/dns/dnsrocks/dnsdata/rdb"
)

func ctxData(data []byte) string {
	if len(data) == 0 {
		return "nil"
	}
	var sum uint64
	n := 0
	for {
		chunk, rest, err := rdb.ReadNextChunk(data)
		if err == io.EOF {
			break
		}
		if err != nil {
			return "bad"
		}
		h := fnv.New64a()
		h.Write(chunk)
		sum += h.Sum64()
		n++
		data = rest
	}
	return fmt.Sprintf("%d.%016x", n, sum)
}

func ctxLookup(db *rdb.RDB, ctx *rdb.Context, l string) string {
	if len(l) < 1 {
		return "bad-lookup"
	}
	key := unhexTok(l[1:])
	switch l[0] {
	case 'g', 'G':
		if l[0] == 'G' {
			defer func() {
				for i := range key {
					key[i] ^= 0xff
				}
			}()
		}
		// re-assemble what get returned from the values ForEach hands out
		var data []byte
		err := db.ForEach(key, func(v []byte) error {
			var n [4]byte
			n[0], n[1], n[2], n[3] = byte(len(v)), byte(len(v)>>8), byte(len(v)>>16), byte(len(v)>>24)
			data = append(append(data, n[:]...), v...)
			return nil
		}, ctx)
		if err != nil {
			return "g:err"
		}
		return "g:" + ctxData(data)
	case 'c':
		k, v, err := db.FindClosest(key, ctx)
		if err != nil {
			return "c:err"
		}
		if k == nil && v == nil {
			return "c:!"
		}
		return "c:" + hexTok(k) + ":" + ctxData(v)
	}
	return "bad-lookup"
}

func ctxRun(f []string) (string, string) {
	if len(f) != 4 || (f[1] != "v1" && f[1] != "v2") {
		return "bad-op", "-"
	}
	var lines []string
	for _, h := range strings.Split(f[2], ";") {
		lines = append(lines, string(unhexTok(h)))
	}
	lookups := strings.Split(f[3], ";")
	dir, err := os.MkdirTemp("", "ctx-")
	if err != nil {
		panic(err)
	}
	defer func() {
		os.RemoveAll(dir)
		if ms, _ := filepath.Glob(filepath.Join(os.TempDir(), "rdb-log-*")); ms != nil {
			for _, m := range ms {
				os.RemoveAll(m)
			}
		}
	}()
	in := filepath.Join(dir, "data.in")
	os.WriteFile(in, []byte(strings.Join(lines, "\n")+"\n"), 0o644)
	mt := time.Unix(serveSerial, 0)
	os.Chtimes(in, mt, mt)
	path := filepath.Join(dir, "db")
	os.MkdirAll(path, 0o755)
	if _, err := rdb.CompileToSpecificRDBVersion(in, path, rdb.CompilationOptions{
		NumCPU: 2, UseV2KeySyntax: f[1] == "v2", UseBuilder: false, BatchNumParallel: 2, BatchSize: 1000}); err != nil {
		return "compile-error", "-"
	}
	db, err := rdb.NewReader(path)
	if err != nil {
		return "open-error", "FAIL:open"
	}
	defer db.Close()
	var cached, fresh []string
	one := rdb.NewContext()
	for _, l := range lookups {
		cached = append(cached, ctxLookup(db, one, l))
	}
	one.Reset()
	for _, l := range lookups {
		fresh = append(fresh, ctxLookup(db, rdb.NewContext(), l))
	}
	verdict := "ok"
	for i := range lookups {
		if cached[i] != fresh[i] {
			verdict = fmt.Sprintf("FAIL:cached-differs@%d(%s):cached=%s,uncached=%s", i, lookups[i], cached[i], fresh[i])
			break
		}
	}
	return "c=" + strings.Join(cached, "~") + "#u=" + strings.Join(fresh, "~"), verdict
}

// ctxAvoidKnownDefects: when true the generator stays inside the class for which the cache is proved
// transparent (Props/C02.lean cache_transparent_partial): no closest-key lookup of a key after an
// exact lookup of the same key unless the key exists, and no caller that reuses its key buffer.
// false = the full class; the two defects of the cache then show up as FAIL verdicts (impl = model).
const ctxAvoidKnownDefects = false

// ctxGen writes n `ctx` cases: random data files; lookup keys = keys of the compiled database,
// their neighbours (last byte +-1, truncated, extended) and absent keys; 2-8 lookups over a small
// pool of keys, so that the same key is looked up more than once and in both ways.
func ctxGen(g *gen, n int, w *bufio.Writer) {
	for i := 0; i < n; i++ {
		df := g.genDataFile(dataOpts{v6: true, odd: g.chance(1, 4), maxZone: 3, locs: g.bool(), maps: g.bool()})
		if g.chance(1, 10) {
			df.lines = nil // an empty database: only the features key
		}
		class := "v1"
		if g.chance(2, 3) {
			class = "v2"
		}
		var src [][]byte
		for _, l := range df.lines {
			src = append(src, []byte(l))
		}
		cclass := "rdb"
		if class == "v2" {
			cclass = "rdb2"
		}
		_, recs, extra, _ := c07convert(cclass, serveSerial, src)
		var present [][]byte
		for _, r := range append(recs, extra...) {
			present = append(present, r.Key)
		}
		pickKey := func() []byte {
			var k []byte
			if len(present) > 0 && !g.chance(1, 8) {
				k = append([]byte{}, present[g.intn(len(present))]...)
			} else {
				// an absent key: random bytes, or something below / above every key
				switch g.intn(4) {
				case 0:
					k = []byte{0}
				case 1:
					k = []byte{0xff, 0xff, 0xff}
				default:
					for j, m := 0, 1+g.intn(12); j < m; j++ {
						k = append(k, byte(g.intn(256)))
					}
				}
				return k
			}
			switch g.intn(7) {
			case 0, 1:
				// the key itself
			case 2:
				k[len(k)-1]++
			case 3:
				k[len(k)-1]--
			case 4:
				k = k[:len(k)-1-g.intn(len(k))]
				if len(k) == 0 {
					k = []byte{0}
				}
			case 5:
				k = append(k, []byte{0, 0xff, byte(g.intn(256))}[g.intn(3)])
			default:
				// the same owner with another location / map suffix
				if len(k) >= 2 {
					k[len(k)-2], k[len(k)-1] = byte(g.intn(256)), byte(g.intn(256))
				}
			}
			return k
		}
		var pool [][]byte
		for j, m := 0, 1+g.intn(4); j < m; j++ {
			pool = append(pool, pickKey())
		}
		isPresent := func(k []byte) bool {
			for _, p := range present {
				if bytes.Equal(p, k) {
					return true
				}
			}
			return false
		}
		poisoned := map[string]bool{}
		var ls []string
		for j, m := 0, 2+g.intn(7); j < m; j++ {
			k := pool[g.intn(len(pool))]
			if bytes.Equal(k, nil) {
				k = []byte{0}
			}
			kind := string("gc"[g.intn(2)])
			if kind == "g" && g.chance(1, 5) {
				kind = "G"
			}
			if ctxAvoidKnownDefects {
				if kind == "G" {
					kind = "g"
				}
				if kind == "g" && !isPresent(k) {
					poisoned[string(k)] = true
				}
				if kind == "c" && poisoned[string(k)] {
					kind = "g"
				}
			}
			ls = append(ls, kind+hexTok(k))
		}
		var hl []string
		for _, l := range df.lines {
			hl = append(hl, hexTok([]byte(l)))
		}
		if len(hl) == 0 {
			hl = []string{hexTok([]byte("#"))}
		}
		fmt.Fprintf(w, "ctx %s %s %s\n", class, strings.Join(hl, ";"), strings.Join(ls, ";"))
	}
}
