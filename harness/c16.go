package main

import (
	"bufio"
	"bytes"
	"errors"
	"fmt"
	"io"
	"os"
	"path/filepath"
	"strings"

	"github.com/dgryski/go-spooky"
	cdb "github.com/repustate/go-cdb"
)

func init() {
	props["C16"] = &prop{gen: c16gen, run: c16run, setup: c16setup, teardown: c16teardown}
}

var c16dir string

func c16setup() {
	d, err := os.MkdirTemp("", "c16-")
	if err != nil {
		fatal("%v", err)
	}
	c16dir = d
}

func c16teardown() { os.RemoveAll(c16dir) }

func fnv64(b []byte) uint64 {
	h := uint64(14695981039346656037)
	for _, x := range b {
		h = (h ^ uint64(x)) * 1099511628211
	}
	return h
}

// c16collisions finds keys colliding in the full 32-bit hash, and keys sharing bucket 0.
func c16collisions() (full [][2][]byte, bucket0 [][]byte) {
	seen := map[uint32][]byte{}
	for i := 0; i < 300000; i++ {
		k := []byte(fmt.Sprintf("c%x", i))
		h := spooky.Hash32(k)
		if o, ok := seen[h]; ok && len(full) < 8 {
			full = append(full, [2][]byte{o, k})
		}
		seen[h] = k
		if h%256 == 0 && len(bucket0) < 600 {
			bucket0 = append(bucket0, k)
		}
	}
	return
}

func c16case(w *bufio.Writer, ents [][2][]byte, queries [][]byte) {
	var es []string
	for _, e := range ents {
		es = append(es, fmt.Sprintf("%s.%s.%d", hexTok(e[0]), hexTok(e[1]), spooky.Hash32(e[0])))
	}
	var qs []string
	for _, q := range queries {
		qs = append(qs, fmt.Sprintf("%s.%d", hexTok(q), spooky.Hash32(q)))
	}
	a, b := "-", "-"
	if len(es) > 0 {
		a = strings.Join(es, ";")
	}
	if len(qs) > 0 {
		b = strings.Join(qs, ";")
	}
	fmt.Fprintf(w, "cdb %s %s\n", a, b)
}

func c16gen(g *gen, tier string, w *bufio.Writer) {
	full, bucket0 := c16collisions()
	small := [][]byte{{}, []byte("a"), []byte("b"), []byte("ab"), {0}, {0, 0}, []byte("key")}
	randBytes := func(n int) []byte {
		b := make([]byte, n)
		for i := range b {
			b[i] = byte(g.intn(256))
		}
		return b
	}
	// empty database, singletons
	c16case(w, nil, [][]byte{{}, []byte("a")})
	for _, k := range small {
		c16case(w, [][2][]byte{{k, {}}}, small)
		c16case(w, [][2][]byte{{k, []byte("v")}, {k, []byte("w")}, {k, []byte("v")}}, small)
	}
	// full-hash collisions: both keys, repeated, interleaved
	for _, p := range full {
		c16case(w, [][2][]byte{{p[0], []byte("x")}, {p[1], []byte("y")}, {p[0], []byte("z")}, {p[1], {}}},
			[][]byte{p[0], p[1], []byte("absent")})
	}
	// one bucket only: tables chain and wrap around
	for _, n := range []int{1, 2, 3, 5, 8, 17, 64, 300, 600} {
		if n > len(bucket0) {
			n = len(bucket0)
		}
		var ents [][2][]byte
		for i := 0; i < n; i++ {
			ents = append(ents, [2][]byte{bucket0[i], []byte(fmt.Sprintf("v%d", i))})
			if i%3 == 0 {
				ents = append(ents, [2][]byte{bucket0[i/2], []byte(fmt.Sprintf("dup%d", i))})
			}
		}
		qs := append([][]byte{}, bucket0[:n]...)
		if n+5 <= len(bucket0) {
			qs = append(qs, bucket0[n:n+5]...) // absent keys of the same bucket
		}
		c16case(w, ents, qs)
	}
	// record sizes around I/O buffer boundaries (bufio 4096): first record header at 2048
	for _, sz := range []int{2036, 2037, 2038, 2039, 2040, 2041, 2044, 2045, 2046, 2047, 2048, 4080, 4090, 4096, 6130, 8190} {
		k := []byte("k")
		c16case(w, [][2][]byte{{k, bytes.Repeat([]byte{'x'}, sz)}, {[]byte("next"), []byte("v")}, {[]byte("third"), bytes.Repeat([]byte{'y'}, 5000)}, {[]byte("z"), {}}},
			[][]byte{k, []byte("next"), []byte("third"), []byte("z"), []byte("no")})
	}
	// random multisets
	n := 300
	if tier == "thorough" {
		n = 6000
	}
	for i := 0; i < n; i++ {
		sz := g.intn(40)
		switch {
		case g.chance(1, 10):
			sz = 100 + g.intn(900)
		case g.chance(1, 60):
			sz = 3000 + g.intn(3000)
		}
		nk := 1 + g.intn(sz+1)
		var pool [][]byte
		for j := 0; j < nk; j++ {
			switch g.intn(4) {
			case 0:
				pool = append(pool, small[g.intn(len(small))])
			case 1:
				pool = append(pool, bucket0[g.intn(len(bucket0))])
			default:
				pool = append(pool, randBytes(g.intn(12)))
			}
		}
		var ents [][2][]byte
		for j := 0; j < sz; j++ {
			v := randBytes(g.intn(20))
			if g.chance(1, 40) {
				v = randBytes(g.intn(5000))
			}
			ents = append(ents, [2][]byte{pool[g.intn(len(pool))], v})
		}
		qs := pool
		if len(qs) > 40 {
			qs = qs[:40]
		}
		qs = append(append([][]byte{}, qs...), randBytes(3), []byte("absent"), bucket0[g.intn(len(bucket0))])
		c16case(w, ents, qs)
	}
	// large databases: tens of thousands of pairs
	big := []int{20000}
	if tier == "thorough" {
		big = []int{20000, 50000, 65000}
	}
	for _, sz := range big {
		var ents [][2][]byte
		for j := 0; j < sz; j++ {
			k := []byte(fmt.Sprintf("n%d", g.intn(sz/2)))
			ents = append(ents, [2][]byte{k, []byte(fmt.Sprintf("%d", j))})
		}
		var qs [][]byte
		for j := 0; j < 60; j++ {
			qs = append(qs, []byte(fmt.Sprintf("n%d", g.intn(sz))))
		}
		c16case(w, ents, qs)
	}
}

func c16run(line string) (string, string) {
	f := strings.Fields(line)
	if f[0] != "cdb" {
		return "bad-op", "-"
	}
	path := filepath.Join(c16dir, "t.cdb")
	defer os.Remove(path)
	wr, err := cdb.NewWriter(path)
	if err != nil {
		return "create-error", "FAIL:create"
	}
	type ent struct{ k, v []byte }
	var ents []ent
	if f[1] != "-" {
		for _, e := range strings.Split(f[1], ";") {
			p := strings.Split(e, ".")
			k, v := unhexTok(p[0]), unhexTok(p[1])
			ents = append(ents, ent{k, v})
			if err := wr.Put(k, v); err != nil {
				return "put-error", "FAIL:put"
			}
		}
	}
	if err := wr.Close(); err != nil {
		return "close-error", "FAIL:close"
	}
	file, err := os.ReadFile(path)
	if err != nil {
		return "read-error", "FAIL:read"
	}
	db, err := cdb.Open(path)
	if err != nil {
		return "open-error", "FAIL:open"
	}
	defer db.Close()
	verdict := "ok"
	var finds []string
	if f[2] != "-" {
		for _, q := range strings.Split(f[2], ";") {
			key := unhexTok(strings.Split(q, ".")[0])
			ctx := cdb.NewContext()
			db.FindStart(ctx)
			var vals []string
			var got [][]byte
			for {
				v, err := db.FindNext(key, ctx)
				if errors.Is(err, io.EOF) {
					break
				}
				if err != nil {
					vals = append(vals, "err")
					break
				}
				vals = append(vals, hexTok(v))
				got = append(got, append([]byte{}, v...))
				if len(vals) > len(ents)+1 {
					vals = append(vals, "runaway")
					break
				}
			}
			// property oracle: exactly the values written under this key, in insertion order
			var want [][]byte
			for _, e := range ents {
				if bytes.Equal(e.k, key) {
					want = append(want, e.v)
				}
			}
			if len(want) != len(got) {
				verdict = "FAIL:lookup-count"
			} else {
				for i := range want {
					if !bytes.Equal(want[i], got[i]) {
						verdict = "FAIL:lookup-value-or-order"
					}
				}
			}
			if len(vals) == 0 {
				finds = append(finds, "_")
			} else {
				finds = append(finds, strings.Join(vals, "/"))
			}
		}
	}
	// Dump then Make must reproduce the file
	var dumped bytes.Buffer
	dumpS := "err"
	if err := cdb.Dump(&dumped, bytes.NewReader(file)); err == nil {
		dumpS = fmt.Sprintf("%d:%d", dumped.Len(), fnv64(dumped.Bytes()))
		p2 := filepath.Join(c16dir, "t2.cdb")
		out, _ := os.Create(p2)
		merr := cdb.Make(out, bytes.NewReader(dumped.Bytes()))
		out.Close()
		remade, _ := os.ReadFile(p2)
		os.Remove(p2)
		if merr != nil {
			if verdict == "ok" {
				verdict = "FAIL:make-error"
			}
		} else if !bytes.Equal(remade, file) {
			if verdict == "ok" {
				verdict = "FAIL:dump-make-differs"
			}
		}
	} else if verdict == "ok" {
		verdict = "FAIL:dump-error"
	}
	return fmt.Sprintf("len=%d,fnv=%d;%s;dump=%s", len(file), fnv64(file), strings.Join(finds, ","), dumpS), verdict
}
