import Driver.Run
import Driver.C09

def main : IO Unit :=
  Driver.runMain [Driver.C09.handle]
