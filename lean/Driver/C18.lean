import Driver.Common
import DnsVerif.Model.Svcb
import DnsVerif.Spec.Svcb

namespace Driver.C18
open DnsVerif DnsVerif.Svcb Driver

def errName : Err → String
  | .parse => "parse"
  | .unknownKey => "unknown-key"
  | .emptyValue => "empty-value"
  | .mandInvalid => "mand-invalid"
  | .mandSelf => "mand-self"
  | .mandDup => "mand-dup"
  | .ndaNonEmpty => "nda-nonempty"
  | .port => "port"
  | .ip4Parse => "ip4-parse"
  | .ip4Not4 => "ip4-not4"
  | .ech => "ech"
  | .ip6NoColon => "ip6-nocolon"
  | .ip6Parse => "ip6-parse"
  | .alpnLen => "alpn-len"
  | .dupKey => "dup-key"
  | .mandMissing => "mand-missing"
  | .panic => "panic"

/-- `seg;seg;…` (hex tokens, `-` = empty segment) → the parameter text -/
def textOfSegs (tok : String) : Option Bytes :=
  let rec go : List String → Option (List Bytes)
    | [] => some []
    | s :: rest => match Bytes.ofHex s, go rest with
      | some b, some bs => some (b :: bs)
      | _, _ => none
  (go (tok.splitOn ";")).map (intercalate [0x3b])

def modelOut (t : Bytes) : String :=
  match fromText t with
  | .error e => "err:" ++ errName e
  | .ok ps =>
    let w := toWire ps
    match toText ps with
    | .ok s => s!"ok:{Bytes.hex w}:{Bytes.hex s}"
    | .error _ => s!"ok:{Bytes.hex w}:panic"

/-- Spec oracle, evaluated on the *implementation's* output:
 * accepted ⇒ the text is a valid declaration (`Spec.declared`) and the RFC 9460 reader
   `decodeRFC` recovers exactly that declaration from the implementation's wire bytes
   (this includes strictly increasing keys and the per-key value formats);
 * the printed text, parsed again (model parser), gives the same wire bytes;
 * expectation `rej` (generator: invalid `mandatory`, alpn id of length 0 or > 255) ⇒ rejected;
   `acc` ⇒ accepted. -/
def specOut (t : Bytes) (expect : String) (impl : Option String) : String :=
  match impl with
  | none => "-"
  | some o =>
    match o.splitOn ":" with
    | ["ok", wh, th] =>
      if expect = "rej" then "FAIL:accepted-but-must-reject"
      else match Bytes.ofHex wh with
        | none => "FAIL:unparsable-impl-wire"
        | some w =>
          match Spec.Svcb.declared t with
          | none => "FAIL:accepted-invalid-declaration"
          | some d =>
            match decodeRFC w with
            | none => "FAIL:wire-malformed-per-rfc9460"
            | some d' =>
              if d' ≠ d then "FAIL:decoded-differs-from-declared"
              else if th = "panic" then "FAIL:totext-panic"
              else match Bytes.ofHex th with
                | none => "FAIL:unparsable-impl-text"
                | some txt =>
                  match fromText txt with
                  | .error e => "FAIL:printed-text-rejected-" ++ errName e
                  | .ok ps => if toWire ps = w then "ok" else "FAIL:printed-text-other-wire"
    | ["err", _] =>
      if expect = "acc" then "FAIL:rejected-valid-declaration"
      else if expect = "rej" then "ok"
      else "-"
    | _ => "-"

def handle (st : St) (op : String) (args : List String) (impl : Option String) :
    Option (St × Out) :=
  match op, args with
  | "svcb", [segs, _decl, expect] =>
    match textOfSegs segs with
    | none => none
    | some t => some (st, { model := modelOut t, spec := specOut t expect impl })
  | _, _ => none

end Driver.C18
