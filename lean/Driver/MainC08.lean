import Driver.Run
import Driver.C08

def main : IO Unit :=
  Driver.runMain [Driver.C08.handle]
