import Driver.Run
import Driver.C18

def main : IO Unit :=
  Driver.runMain [Driver.C18.handle]
