import Driver.Run
import Driver.C15

def main : IO Unit :=
  Driver.runMain [Driver.C15.handle]
