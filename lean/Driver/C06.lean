import Driver.Common
import DnsVerif.Model.Life

namespace Driver.C06
open DnsVerif.Life Driver

def parseOp (s : String) : Option Op :=
  match s with
  | "acq" => some .acquire
  | "newok" => some .reloadNewOk
  | "sameok" => some .reloadSameOk
  | "openerr" => some .reloadOpenError
  | "valfailnew" => some .reloadValFailNew
  | "valfailsame" => some .reloadValFailSame
  | "todone" => some .reloadTimeoutDoneNew
  | "topnew" => some (.reloadTimeoutPending .new)
  | "topsame" => some (.reloadTimeoutPending .same)
  | "topfail" => some (.reloadTimeoutPending .fail)
  | "late" => some .lateComplete
  | "down" => some .shutdown
  | _ =>
    if s.startsWith "use" then (s.drop 3).toString.toNat?.map Op.use
    else if s.startsWith "rel" then (s.drop 3).toString.toNat?.map Op.release
    else none

/-- the property statement evaluated on a final state -/
def specVerdict (s : DnsVerif.Life.St) : String :=
  let bad : List String := s.backends.zipIdx.filterMap fun (b, i) =>
    if b.badUses > 0 then some s!"FAIL:backend-{i}-used-after-close"
    else if b.closes > 1 then some s!"FAIL:backend-{i}-closed-twice"
    else if s.down ∧ s.readers.isEmpty ∧ s.pending.isEmpty ∧ b.closes = 0 then some s!"FAIL:backend-{i}-leaked"
    else none
  -- a backend stays open while it is the served one or a reader still holds it
  let isOpen (b : Nat) : Bool := (s.backends[b]?.map (·.isOpen)).getD false
  let live : List String :=
    (if ¬ s.down ∧ ¬ isOpen (wrapperDbi s s.served) then ["FAIL:served-backend-closed"] else [])
    ++ (s.readers.filterMap fun w => if isOpen (wrapperDbi s w) then none else some "FAIL:reader-holds-closed-backend")
  (bad ++ live).getLast?.getD "ok"

def handle (st : Driver.St) (op : String) (args : List String) (_impl : Option String) :
    Option (Driver.St × Out) :=
  match op, args with
  | "life", [h] =>
    -- `…M`: a reload with an acquisition attempted while it runs; the acquisition waits for the
    -- reload (reloadMu), i.e. it happens right after it
    let expand (t : String) : List String :=
      if t.endsWith "M" then [(t.dropEnd 1).toString, "acq"] else [t]
    let ops := ((h.splitOn ";").flatMap expand).filterMap parseOp
    let s := run ops
    let bs := s.backends.map fun b => s!"{b.closes}/{b.badUses}"
    some (st, { model := s!"readers={s.readers.length} backends=[{", ".intercalate bs}]", spec := specVerdict s })
  | _, _ => none

end Driver.C06
