import Driver.Run
import Driver.C17

def main : IO Unit :=
  Driver.runMain [Driver.C17.handle]
