import Driver.Common
import DnsVerif.Model.Chain

/-!
Driver for C20. One op line = one server configuration + database + a list of query tokens; the
implementation output carries, per token, the canonical network reply (`net=`), the canonical
reply of the bare database handler called in process (`bare=`) and of the whoami handler alone
(`who=`, `pass` when it hands the query on).

Model side: `chain cfg who q db` is *computed* with `db` := "reply `bare` when asked with this
listener's max-answer value, a poison reply otherwise" and `who` := "reply the echoed whoami
answer"; the rendering of that outcome must equal the network reply (I = M). So M checks the
composition (which handler answers, with which max-answer value, SERVFAIL/FORMERR/HINFO literals),
not the database.
Spec side (S): the instance of the C20 theorems on plain strings, independent of the parser:
transparent ⇒ `net = bare`; ANY-refused ⇒ `net` = the RFC 8482 literal; whoami hit ⇒ `net = who`.
-/

namespace Driver.C20
open DnsVerif DnsVerif.Chain Driver

/-! ### rendering -/

def hexByte (n : Nat) : String := String.ofList [Bytes.hexDigit (n / 16), Bytes.hexDigit (n % 16)]

def strHex (s : String) : String := String.join (s.toUTF8.toList.map fun b => hexByte b.toNat)

/-- presentation name → labels as byte lists (handles `\DDD` and `\c`) -/
def labelsOf (n : List Char) : List (List Nat) :=
  let rec go (cs : List Char) (cur : List Nat) (acc : List (List Nat)) (fuel : Nat) : List (List Nat) :=
    match fuel with
    | 0 => acc.reverse
    | fuel + 1 =>
      match cs with
      | [] => (if cur.isEmpty then acc else cur.reverse :: acc).reverse
      | '.' :: rest => go rest [] (cur.reverse :: acc) fuel
      | '\\' :: a :: b :: c :: rest =>
        if a.isDigit ∧ b.isDigit ∧ c.isDigit then
          go rest (((a.toNat - 48) * 100 + (b.toNat - 48) * 10 + (c.toNat - 48)) :: cur) acc fuel
        else go (b :: c :: rest) (a.toNat :: cur) acc fuel
      | '\\' :: a :: rest => go rest (a.toNat :: cur) acc fuel
      | ch :: rest => go rest (ch.toNat :: cur) acc fuel
  if n = ['.'] then [] else go n [] [] (n.length + 1)

def lowerByte (b : Nat) : Nat := if 65 ≤ b ∧ b ≤ 90 then b + 32 else b

/-- lower-cased wire form, hex (as the harness' `nameWire`) -/
def nameWireHex (n : List Char) : String :=
  String.join ((labelsOf n).map fun l => hexByte l.length ++ String.join (l.map fun b => hexByte (lowerByte b)))
    ++ "00"

def charString (s : String) : String := hexByte s.utf8ByteSize ++ strHex s

def renderRR (rr : RR) : String :=
  match rr.rdata with
  | .raw _ => String.ofList rr.name          -- parsed from the implementation output: opaque token
  | .hinfo cpu os =>
    s!"{nameWireHex rr.name}/{rr.rtype}/{rr.cls}/{rr.ttl}/{charString cpu}{charString os}"

def renderSection (rrs : List RR) : String := "[" ++ "|".intercalate (rrs.map renderRR) ++ "]"

def b2s (b : Bool) : String := if b then "1" else "0"

def renderResponse (id : Nat) (question : List Question) (r : Response) : String :=
  let idok := if r.id = id ∧ r.response then "ok" else "BAD"
  let q := if r.question = question ∧ r.question.length ≤ 1 then "same" else toString r.question.length
  s!"rc={r.rcode},aa={b2s r.aa},tc={b2s r.tc},id={idok},q={q},an={renderSection r.answer}" ++
  s!",ns={renderSection r.ns},ar={renderSection r.extra},opt={r.opt.getD "none"}"

def renderOutcome (id : Nat) (question : List Question) : Outcome → String
  | .reply r => renderResponse id question r
  | .noReply => "noreply"
  | .panic => "panic"

/-! ### parsing the echoed canonical replies -/

def opaqueRR (s : String) : RR := { name := s.toList, rtype := 0, cls := 0, ttl := 0, rdata := .raw "" }

def parseSection (s : String) : Option (List RR) :=
  if s.startsWith "[" ∧ s.endsWith "]" then
    let inner := String.ofList ((s.toList.drop 1).dropLast)
    if inner = "" then some [] else some ((inner.splitOn "|").map opaqueRR)
  else none

def field (pfx s : String) : Option String :=
  if s.startsWith pfx then some (String.ofList (s.toList.drop pfx.length)) else none

def parseResponse (q : Query) (s : String) : Option Response :=
  match s.splitOn "," with
  | [rc, aa, tc, idf, qf, an, ns, ar, opt] => do
    let rc ← (← field "rc=" rc).toNat?
    let aa ← field "aa=" aa
    let tc ← field "tc=" tc
    let idf ← field "id=" idf
    let qf ← field "q=" qf
    let an ← parseSection (← field "an=" an)
    let ns ← parseSection (← field "ns=" ns)
    let ar ← parseSection (← field "ar=" ar)
    let opt ← field "opt=" opt
    let question ← if qf = "same" then some q.questions
      else (qf.toNat?).map fun n => List.replicate n ⟨['?'], 0, 0⟩
    some { id := if idf = "ok" then q.id else q.id + 1, response := true, opcode := q.opcode,
           rd := q.rd, cd := q.cd, rcode := rc, aa := aa = "1", tc := tc = "1",
           question := question, answer := an, ns := ns, extra := ar,
           opt := if opt = "none" then none else some opt }
  | _ => none

def poison (rc : Nat) : Outcome :=
  .reply { id := 0, response := false, opcode := 0, rd := false, cd := false, rcode := rc }

def parseOutcome (q : Query) (s : String) : Outcome :=
  if s = "noreply" then .noReply
  else if s = "panic" then .panic
  else match parseResponse q s with
    | some r => .reply r
    | none => poison 997

/-- `k=v&k=v…` → lookup -/
def kv (s : String) (k : String) : Option String :=
  (s.splitOn "&").findSome? fun f => field (k ++ "=") f

def nameOfHex (h : String) : Option (List Char) :=
  (Bytes.ofHex h).map fun b => b.map fun x => Char.ofNat x.toNat

/-! ### one token -/

def anyLiteral (name : List Char) : String :=
  s!"rc=0,aa=0,tc=0,id=ok,q=same,an=[{nameWireHex name}/13/1/86400/085246432038343832" ++ "00],ns=[],ar=[],opt=none"

def runQ (cfgBase : Cfg) (i : Nat) (p : List String) (out : String) : String × String :=
  match p with
  | [nameH, qt, qc, ma, proto, buf] =>
    match nameOfHex nameH, qt.toNat?, qc.toNat?, ma.toNat?, buf.toNat? with
    | some name, some qt, some qc, some ma, some buf =>
      let q : Query :=
        { id := 1000 + i, rd := true, questions := [⟨name, qt, qc⟩],
          proto := if proto = "t" then .tcp else .udp,
          ednsSize := if buf > 0 then some buf else none }
      let cfg : Cfg := { cfgBase with maxAns := ma }
      let bare := (kv out "bare").getD "?"
      let whoF := (kv out "who").getD "?"
      let net := (kv out "net").getD "?"
      let db : MaxAns → Query → Outcome := fun m _ => if m = ma then parseOutcome q bare else poison 999
      let who : Query → Outcome := fun _ => if whoF = "pass" then poison 998 else parseOutcome q whoF
      let o := chain cfg who q db
      -- the whoami handler alone: installed ∧ name matches
      let hit := whoamiHit cfg q
      let whoM := if hit then (if whoF = "pass" then "MATCH" else whoF) else "pass"
      let model := s!"net={renderOutcome q.id q.questions o}&bare={bare}&who={whoM}&fit=1"
      let spec :=
        if anyRefused cfg q then (if net = anyLiteral name then "ok" else "FAIL:any-refused")
        else if hit then (if net = whoF ∧ whoF ≠ "pass" then "ok" else "FAIL:whoami")
        else (if net = bare then "ok" else "FAIL:not-transparent")
      (model, spec)
    | _, _, _, _, _ => ("bad-token", "-")
  | _ => ("bad-token", "-")

def runZ (cfgBase : Cfg) (i : Nat) (p : List String) (out : String) : String × String :=
  match p with
  | [ma, _proto, qd, opcode, qr] =>
    match ma.toNat?, qd.toNat?, opcode.toNat?, qr.toNat? with
    | some ma, some qd, some opcode, some qr =>
      let cfg : Cfg := { cfgBase with maxAns := ma }
      let h : Hdr := { id := 2000 + i, qr := qr = 1, opcode := opcode, rd := true, qdcount := qd }
      -- a header-only packet: miekg's `Msg.unpack` stops at the end of the packet and returns just
      -- the header whatever the counts say, so an accepted one is a message without question
      let u : Query := { id := h.id, opcode := h.opcode, rd := h.rd, questions := [] }
      let o := listener cfg (fun _ => poison 998) h (some u) (fun _ _ => poison 999)
      let model := s!"z={renderOutcome h.id [] o}&next=ok"
      let z := (kv out "z").getD "?"
      let failure := z.startsWith "rc=1," ∨ z.startsWith "rc=2," ∨ z.startsWith "rc=4,"
      let spec :=
        if (kv out "next") ≠ some "ok" then "FAIL:server-dead"
        else if qr = 0 ∧ ¬ failure then "FAIL:no-failure-reply"
        else "ok"
      (model, spec)
    | _, _, _, _ => ("bad-token", "-")
  | _ => ("bad-token", "-")

def runTokens (cfg : Cfg) (toks outs : List String) : List (String × String) :=
  let rec go (i : Nat) : List String → List String → List (String × String)
    | [], _ => []
    | t :: ts, os =>
      let o := os.headD "?"
      let r := match t.splitOn "." with
        | "q" :: p => runQ cfg i p o
        | "z" :: p => runZ cfg i p o
        | _ => ("bad-token", "-")
      r :: go (i + 1) ts os.tail
  go 0 toks outs

def handle (st : St) (op : String) (args : List String) (impl : Option String) :
    Option (St × Out) :=
  match op, args with
  | "chain", [whoH, refuse, _backend, _lines, toks] =>
    match nameOfHex whoH with
    | none => none
    | some whoD =>
      let cfg : Cfg := { whoamiDomain := whoD, refuseANY := refuse = "1" }
      let toks := toks.splitOn ";"
      let outs := match impl with
        | some s => s.splitOn "~"
        | none => []
      let rs := runTokens cfg toks outs
      let bad := rs.zipIdx.filterMap fun ((_, s), i) => if s.startsWith "FAIL" then some s!"{s}@{i}" else none
      some (st, { model := "~".intercalate (rs.map (·.1)),
                  spec := match bad with
                    | [] => "ok"
                    | b :: _ => b })
  | _, _ => none

end Driver.C20
