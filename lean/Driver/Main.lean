import Driver.Run
import Driver.C17
import Driver.C15
import Driver.C16
import Driver.C06
import Driver.C19
import Driver.C09
import Driver.Serve
import Driver.C02ctx
import Driver.C11
import Driver.C18
import Driver.C07
import Driver.C20
import Driver.C05
import Driver.C12
import Driver.C08
import Driver.C14

def main : IO Unit :=
  Driver.runMain [Driver.C17.handle, Driver.C15.handle, Driver.C16.handle, Driver.C06.handle, Driver.C19.handle, Driver.C09.handle, Driver.Serve.handle, Driver.C02ctx.handle, Driver.C11.handle, Driver.C14.handle, Driver.C18.handle, Driver.C07.handle, Driver.C20.handle, Driver.C05.handle, Driver.C12.handle, Driver.C08.handle]
