import Driver.Common
import Driver.C17
import Driver.C15
import Driver.C16
import Driver.C06
import Driver.C19
import Driver.C09
import Driver.Serve
import Driver.C11
import Driver.C18
import Driver.C07
import Driver.C20
import Driver.C05
import Driver.C12
import Driver.C08
import Driver.C14

open Driver

def dispatch (st : St) (op : String) (args : List String) (impl : Option String) :
    St × Out :=
  let hs : List (St → String → List String → Option String → Option (St × Out)) :=
    [Driver.C17.handle, Driver.C15.handle, Driver.C16.handle, Driver.C06.handle, Driver.C19.handle, Driver.C09.handle, Driver.Serve.handle, Driver.C11.handle, Driver.C14.handle, Driver.C18.handle, Driver.C07.handle, Driver.C20.handle, Driver.C05.handle, Driver.C12.handle, Driver.C08.handle]
  let rec go : List (St → String → List String → Option String → Option (St × Out)) → St × Out
    | [] => (st, { model := "bad-op", spec := "-" })
    | h :: t => match h st op args impl with
      | some r => r
      | none => go t
  go hs

def processLine (st : St) (line : String) : St × String :=
  let line := line.trimAscii.toString
  let (cmd, impl) := match line.splitOn " | " with
    | [c] => (c, none)
    | c :: rest => (c, some (" | ".intercalate rest))
    | [] => ("", none)
  match splitTokens cmd with
  | [] => (st, "M=empty\tS=-")
  | op :: args =>
    let (st', o) := dispatch st op args impl
    (st', s!"M={o.model}\tS={o.spec}")

partial def loop (hin hout : IO.FS.Stream) (st : St) : IO Unit := do
  let line ← hin.getLine
  if line.isEmpty then return ()
  let (st', out) := processLine st line
  hout.putStrLn out
  loop hin hout st'

def main : IO Unit := do
  let hin ← IO.getStdin
  let hout ← IO.getStdout
  loop hin hout {}
