import Driver.Common
import DnsVerif.Model.MultiStore
import DnsVerif.Spec.MultiMap

namespace Driver.C15
open DnsVerif DnsVerif.Rdb DnsVerif.Spec Driver

def errName : Err → String
  | .unexpectedEOF => "eof"
  | .nxVal => "nxval"
  | .nxKey => "nxkey"
  | .internal => "internal"
  | .fuel => "fuel"

/-- sort hex strings (canonical multiset rendering) -/
def sortStrs (xs : List String) : List String := (xs.toArray.qsort (· < ·)).toList

def renderVals (vs : List Bytes) : String :=
  if vs.isEmpty then "_" else ",".intercalate (sortStrs (vs.map Bytes.hex))

def parsePair (s : String) : Option (Bytes × Bytes) :=
  match s.splitOn "." with
  | [k, v] => match Bytes.ofHex k, Bytes.ofHex v with
    | some a, some b => some (a, b)
    | _, _ => none
  | _ => none

structure HSt where
  kv : KV := []
  mm : MultiMap := MultiMap.empty
  keys : List Bytes := []

def noteKey (ks : List Bytes) (k : Bytes) : List Bytes := if ks.contains k then ks else ks ++ [k]

/-- one history op -> (state, model output, spec output) -/
def stepOp (st : HSt) (op : String) : HSt × String × String :=
  match op.splitOn ":" with
  | ["a", p] =>
    match parsePair p with
    | some (k, v) =>
      ({ kv := add st.kv k v, mm := st.mm.add k v, keys := noteKey st.keys k }, "ok", "ok")
    | none => (st, "bad", "bad")
  | ["d", p] =>
    match parsePair p with
    | some (k, v) =>
      let (kv', mo) := match del st.kv k v with
        | .ok s => (s, "ok")
        | .error e => (st.kv, errName e)
      let (mm', so) := match st.mm.del k v with
        | .ok m => (m, "ok")
        | .error .noKey => (st.mm, "nxkey")
        | .error .noValue => (st.mm, "nxval")
      ({ kv := kv', mm := mm', keys := noteKey st.keys k }, mo, so)
    | none => (st, "bad", "bad")
  | ["b", body] =>
    let items := if body = "-" then [] else body.splitOn ","
    let adds := items.filterMap fun it => if it.startsWith "+" then parsePair (it.drop 1).toString else none
    let dels := items.filterMap fun it => if it.startsWith "-" then parsePair (it.drop 1).toString else none
    let keys := (adds ++ dels).foldl (fun ks p => noteKey ks p.1) st.keys
    let (kv', mo) := match executeBatch st.kv adds dels with
      | .ok s => (s, "ok")
      | .error _ => (st.kv, "err")
    let (mm', so) := match st.mm.batch adds dels with
      | some m => (m, "ok")
      | none => (st.mm, "err")
    ({ kv := kv', mm := mm', keys := keys }, mo, so)
  | ["f", k] =>
    match Bytes.ofHex k with
    | some k =>
      let mo := match forEach st.kv k with
        | .ok vs => renderVals vs
        | .error e => "err:" ++ errName e
      ({ st with keys := noteKey st.keys k }, mo, renderVals (st.mm.get k))
    | none => (st, "bad", "bad")
  | _ => (st, "bad", "bad")

def runHist (ops : List String) : String × String :=
  let (st, mo, so) := ops.foldl (fun (acc : HSt × List String × List String) op =>
    let (st, mo, so) := acc
    let (st', m, s) := stepOp st op
    (st', m :: mo, s :: so)) ({}, [], [])
  let dumpM := st.keys.map fun k => Bytes.hex k ++ "=" ++ (match forEach st.kv k with
    | .ok vs => renderVals vs
    | .error e => "err:" ++ errName e)
  let dumpS := st.keys.map fun k => Bytes.hex k ++ "=" ++ renderVals (st.mm.get k)
  (";".intercalate mo.reverse ++ "#" ++ ";".intercalate (sortStrs dumpM),
   ";".intercalate so.reverse ++ "#" ++ ";".intercalate (sortStrs dumpS))

def handle (st : St) (op : String) (args : List String) (_impl : Option String) :
    Option (St × Out) :=
  match op, args with
  | "hist", [h] =>
    let (m, s) := runHist (h.splitOn ";")
    some (st, { model := m, spec := "=" ++ s })
  | "histdb", [h] =>
    -- `B` = backup + restore into another directory: the identity on the map
    let (m, s) := runHist ((h.splitOn ";").filter (· ≠ "B"))
    some (st, { model := m, spec := "=" ++ s })
  | "chunks", [d] =>
    -- decode arbitrary (possibly malformed) stored bytes
    match Bytes.ofHex d with
    | some b => some (st, { model := match decode b with
        | .ok vs => "ok:" ++ "/".intercalate (vs.map Bytes.hex)
        | .error e => "err:" ++ errName e })
    | none => none
  | "delvalue", [d, v] =>
    match Bytes.ofHex d, Bytes.ofHex v with
    | some b, some v => some (st, { model := match delValue b v with
        | .ok r => "ok:" ++ Bytes.hex r
        | .error e => "err:" ++ errName e })
    | _, _ => none
  | _, _ => none

end Driver.C15
