import Driver.Common
import DnsVerif.Model.Quote

namespace Driver.C17
open DnsVerif DnsVerif.Quote Driver

def errName : Err → String
  | .syntax => "syntax"
  | .fuel => "fuel"

/-- Spec oracle (the property statement, evaluated on the *implementation's* quoted output):
the quoted form has no separator byte and model-unquoting it gives the input back. -/
def specQuote (input : Bytes) (implOut : Option String) : String :=
  match implOut with
  | none => "-"
  | some o =>
    match Bytes.ofHex o with
    | none => "FAIL:unparsable-impl-output"
    | some q =>
      if q.contains 0x2c then "FAIL:comma-in-quoted"
      else if q.contains 0x3a then "FAIL:colon-in-quoted"
      else if q.contains 0x0a then "FAIL:newline-in-quoted"
      else match bunquote q with
        | .ok b => if b = input then "ok" else "FAIL:unquote-differs"
        | .error _ => "FAIL:unquote-error"

def handle (st : St) (op : String) (args : List String) (impl : Option String) :
    Option (St × Out) :=
  match op, args with
  | "isprint", [ranges] =>
    let rs := (ranges.splitOn ",").filterMap fun r =>
      match r.splitOn "-" with
      | [a, b] => match a.toNat?, b.toNat? with
        | some x, some y => some (x, y)
        | _, _ => none
      | _ => none
    some ({ st with isPrint := rs.toArray }, { model := s!"ranges:{rs.length}" })
  | "quote", [h] =>
    match Bytes.ofHex h with
    | none => none
    | some b =>
      some (st, { model := Bytes.hex (bquote st.isPrintFn b), spec := specQuote b impl })
  | "unquote", [h] =>
    match Bytes.ofHex h with
    | none => none
    | some b =>
      some (st, { model := errStr Bytes.hex errName (bunquote b) })
  | "roundtrip", [h] =>
    -- unquote(quote b) through the model only; spec: equals b
    match Bytes.ofHex h with
    | none => none
    | some b =>
      let r := bunquote (bquote st.isPrintFn b)
      some (st, { model := errStr Bytes.hex errName r, spec := "=" ++ "ok:" ++ Bytes.hex b })
  | _, _ => none

end Driver.C17
