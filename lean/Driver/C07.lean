import Driver.Common
import DnsVerif.Model.Compile
import DnsVerif.Spec.Compile

/-!
C07 driver.

`compile <class> <maxBucketNum> <minBucketSize> <defaultBatchSize> <cfgs> <lines> <extra>`

* `class`  : `cdb` | `rdb1` | `rdb2` (which codec produced the records; informational)
* `cfgs`   : `,`-separated: `c<numcpu>` (CDB), `B<numcpu>` (builder), `b<size>.<par>.<numcpu>` (batches)
* `lines`  : `;`-separated `<source hex>=<records>`; records = `k.v,k.v…` | `!` (rejected) | `_` (none)
* `extra`  : `k.v,k.v…` | `_`  (accumulator + feature records)

Output (model and impl): `all:<r>` when every configuration gives the same result `r`, otherwise
`<cfg>=<r>;…`. `r` = `ok:n=<records>,k=<keys>,h=<fnv64 of the canonical dump>` | `fail` | `hang`.
-/
namespace Driver.C07
open DnsVerif DnsVerif.Rdb DnsVerif.Compile Driver

def fnvStep (h : UInt64) (x : UInt8) : UInt64 := (h ^^^ x.toUInt64) * 1099511628211

def fnvStr (h : UInt64) (s : String) : UInt64 := s.toUTF8.foldl fnvStep h

def recLe (p q : Bytes × Bytes) : Bool :=
  if bytesLt p.1 q.1 then true else if bytesLt q.1 p.1 then false else bytesLe p.2 q.2

def keyLe (p q : Bytes × Bytes) : Bool := bytesLe p.1 q.1

/-- canonical result of a multimap given as its record list: records sorted by (key, value);
dump text = one line `<key hex>=<value hex>,<value hex>…\n` per key -/
def canon (recs : Pairs) : String :=
  let sorted := recs.mergeSort recLe
  let step := fun (acc : UInt64 × Nat × Option Bytes) (p : Bytes × Bytes) =>
    let (h, keys, prev) := acc
    match prev with
    | some k =>
      if k = p.1 then (fnvStr (fnvStr h ",") (Bytes.hex p.2), keys, prev)
      else (fnvStr (fnvStr (fnvStr (fnvStr h "\n") (Bytes.hex p.1)) "=") (Bytes.hex p.2), keys + 1, some p.1)
    | none => (fnvStr (fnvStr (fnvStr h (Bytes.hex p.1)) "=") (Bytes.hex p.2), keys + 1, some p.1)
  let (h, keys, prev) := sorted.foldl step (14695981039346656037, 0, none)
  let h := if prev.isSome then fnvStr h "\n" else h
  s!"ok:n={recs.length},k={keys},h={h}"

/-- records of a RocksDB-model result (chunk lists decoded) -/
def kvRecords (db : KV) : Option Pairs :=
  db.foldr (fun kv acc =>
    match acc, decode kv.2 with
    | some r, .ok vs => some (vs.map (fun v => (kv.1, v)) ++ r)
    | _, _ => none) (some [])

def renderKV : Outcome KV → String
  | .ok db => match kvRecords db with
    | some r => canon r
    | none => "corrupt"
  | .fail => "fail"
  | .hang => "hang"

def parsePair (s : String) : Option (Bytes × Bytes) :=
  match s.splitOn "." with
  | [k, v] => match Bytes.ofHex k, Bytes.ofHex v with
    | some a, some b => some (a, b)
    | _, _ => none
  | _ => none

def parsePairs (s : String) : Option Pairs :=
  if s = "_" then some [] else (s.splitOn ",").mapM parsePair

/-- one `lines` element → `ConvertLn` result; outer `none` = malformed token -/
def parseLine (s : String) : Option LineOut :=
  match s.splitOn "=" with
  | [_, r] => if r = "!" then some none else (parsePairs r).map some
  | _ => none

structure Input where
  lines : List LineOut
  extra : Pairs
  maxBucketNum : Nat
  minBucketSize : Nat
  defaultBatchSize : Nat

/-- the stream a consumer sees; the model is free to choose any worker interleaving: file order for
one worker, reversed line order otherwise -/
def streamFor (inp : Input) (numcpu : Nat) : Pairs :=
  let per := inp.lines.filterMap id
  let order := if numcpu = 1 then per else per.reverse
  order.flatten ++ inp.extra

/-- above this many records the (quadratic, association-list) batch model is not run -/
def batchModelLimit : Nat := 6000

def runCfg (inp : Input) (cfg : String) : Option String :=
  if cfg.startsWith "c" then
    match (cfg.drop 1).toString.toNat? with
    | some cpu =>
      some (match compileCdb inp.lines (streamFor inp cpu) with
        | .ok recs => canon recs
        | .fail => "fail"
        | .hang => "hang")
    | none => some "badcfg"
  else if cfg.startsWith "B" then
    match (cfg.drop 1).toString.toNat? with
    | some cpu =>
      let sorted := (streamFor inp cpu).mergeSort keyLe
      some (renderKV (compileBuilder inp.lines sorted inp.minBucketSize inp.maxBucketNum))
    | none => some "badcfg"
  else if cfg.startsWith "b" then
    match ((cfg.drop 1).toString.splitOn ".").map String.toNat? with
    | [some size, some par, some cpu] =>
      let stream := streamFor inp cpu
      let size := effBatchSize size inp.defaultBatchSize
      if stream.length > batchModelLimit then none
      else
        let bs := batches size stream
        -- goroutines race for the mutex: model picks reverse dispatch order when par > 1
        let order := if par > 1 then bs.reverse else bs
        some (renderKV (compileBatchesFull inp.lines size par stream order stream.length))
    | _ => some "badcfg"
  else some "badcfg"

def summarize (rs : List (String × String)) : String :=
  match rs with
  | [] => "none"
  | (_, r) :: rest =>
    if rest.all (·.2 = r) then "all:" ++ r
    else ";".intercalate (rs.map fun (c, r) => c ++ "=" ++ r)

def specResult (inp : Input) : String :=
  match Spec.acceptedLines inp.lines with
  | none => "fail"
  | some per => canon (per.flatten ++ inp.extra)

def handle (st : St) (op : String) (args : List String) (_impl : Option String) :
    Option (St × Out) :=
  match op, args with
  | "compile", [_cls, ncpu, minb, defb, cfgs, lines, extra] =>
    match ncpu.toNat?, minb.toNat?, defb.toNat?, (lines.splitOn ";").mapM parseLine, parsePairs extra with
    | some ncpu, some minb, some defb, some ls, some ex =>
      let inp : Input := { lines := ls, extra := ex, maxBucketNum := ncpu, minBucketSize := minb,
                           defaultBatchSize := defb }
      let rs := (cfgs.splitOn ",").filterMap fun c => (runCfg inp c).map fun r => (c, r)
      some (st, { model := summarize rs, spec := "=all:" ++ specResult inp })
    | _, _, _, _, _ => some (st, { model := "bad-args", spec := "-" })
  | _, _ => none

end Driver.C07
