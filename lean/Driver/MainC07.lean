import Driver.Run
import Driver.C07

def main : IO Unit :=
  Driver.runMain [Driver.C07.handle]
