import Driver.Common
import DnsVerif.Model.Codec

namespace Driver.C09
open DnsVerif DnsVerif.Codec Driver

def cfgOf (kind : String) (serial : Nat) : Cfg :=
  { serial := serial, useV2Keys := kind = "v2", noRnetOutput := kind ≠ "cdb", ranger := kind ≠ "cdb" }

def renderKVs (kvs : List KV) : String :=
  if kvs.isEmpty then "_" else ",".intercalate (kvs.map fun (k, v) => Bytes.hex k ++ "." ++ Bytes.hex v)

/-- SVCB lines are not generated yet by this op: parameter lists are rejected here -/
def noSvcb : SvcbFn := fun _ => none

def handle (st : St) (op : String) (args : List String) (_impl : Option String) :
    Option (St × Out) :=
  match op, args with
  | "conv", [kind, serial, h] =>
    match Bytes.ofHex h, serial.toNat? with
    | some line, some ser =>
      let out := match convertLine (cfgOf kind ser) noSvcb line with
        | .ok lo => "ok:" ++ renderKVs lo.kvs
        | .error _ => "err"
      some (st, { model := out })
    | _, _ => none
  | _, _ => none

end Driver.C09
