import Driver.Run
import Driver.C14

def main : IO Unit :=
  Driver.runMain [Driver.C14.handle]
