import Driver.Run
import Driver.C06

def main : IO Unit :=
  Driver.runMain [Driver.C06.handle]
