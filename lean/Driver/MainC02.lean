import Driver.Run
import Driver.Serve
import Driver.C02ctx

def main : IO Unit :=
  Driver.runMain [Driver.Serve.handle, Driver.C02ctx.handle]
