import Driver.Run
import Driver.C20

def main : IO Unit :=
  Driver.runMain [Driver.C20.handle]
