/-
Driver for C05: replays a scheduler line of `harness/c05.go` through `Model/Reload.lean`.

  sched <cdb|rdb> <worker;…> <w;w;…>

Paths 0..4 hold generations 0..4 initially, the server starts on path 0; generation 4 lacks the
validation key. A scheduled worker advances by one yield-point segment:

* query   : `serve.start→acquired` = `qstart`; `→located`, `→zonecut`, `→answered`,
            `→before-cache-insert` = one `qread` each (reads 0..3); `→before-write` nothing;
            `→return` = `qfinish`.
            Observables (validated on RocksDB by moving a catch-up through every boundary): the
            ECS scope comes from read 0 (FindLocation); answer and authority records come from read 1
            — IsAuthoritative already fetched the keys of the qname / zone cut and the per-request
            context (`rdb.Context.cache`) serves FindAnswer / FindSOA / GetNs from there — and
            the additional section (a new key) from read 3.
* reload  : `before-lock→locked` takes `reloadMu` (no `serve.start` / `before-lock` worker is
            enabled until it returns); `locked→returned` is the model's atomic `reload` step;
            an error returns at the next step, a success needs three more (`swapped`, `purged`, return).
* publish : one step.

Steps naming a finished or disabled worker are skipped; afterwards the remaining workers are
drained lowest-index-enabled first.
-/
import Driver.Common
import DnsVerif.Model.Reload

namespace Driver.C05
open DnsVerif.Reload Driver

inductive WKind where
  | query (name typ client : String)
  | reload (k : Option Kind) (cls : String) (timeout : Bool)   -- `none`: resolved when it runs
  | publish (p g : Nat)

structure Worker where
  kind : WKind
  phase : Nat := 0
  done : Bool := false
  qid : Nat := 0
  ok : Bool := false
  out : String := ""

def badGen : Nat := 4

def parseWorker (s : String) : Option Worker :=
  match s.splitOn ":" with
  | ["q", spec] =>
    match spec.splitOn "/" with
    | [n, t, c] => some { kind := .query n t c }
    | _ => none
  | ["r", "partial"] => some { kind := .reload (some .part) "partial" false }
  | ["r", "partial-timeout"] => some { kind := .reload (some .part) "partial" true }
  | ["r", "full-missing"] => some { kind := .reload (some (.full 99)) "missing" false }
  | ["r", "full-corrupt"] => some { kind := .reload (some (.full 98)) "corrupt" false }
  | ["r", "full", p] => p.toNat?.map fun p => { kind := .reload (some (.full p)) "full" false }
  | ["r", "full-timeout", p] => p.toNat?.map fun p => { kind := .reload (some (.full p)) "full" true }
  | ["p", p, g] =>
    match p.toNat?, g.toNat? with
    | some p, some g => some { kind := .publish p g }
    | _, _ => none
  | _ => none

structure Sim where
  s : Srv
  ws : Array Worker
  busy : Option Nat := none
  /-- a failing reload changed the served content -/
  lateEffects : Nat := 0

def Sim.enabled (m : Sim) (i : Nat) : Bool :=
  match m.ws[i]? with
  | none => false
  | some w =>
    if w.done then false
    else match m.busy, w.kind with
      | some j, .query .. => !(j != i && w.phase == 0)
      | some j, .reload .. => !(j != i && w.phase == 0)
      | _, _ => true

def outcomeOf (s : Srv) (k : Kind) (cls : String) (timeout : Bool) : Outcome × String :=
  if timeout then (.timeout, "timeout")
  else if cls == "missing" then (.missingPath, "missing")
  else if cls == "corrupt" then (.openError, "openerr")
  else match s.disk (target s k) with
    | some d => if d == badGen then (.validationKeyMissing, "novalidation") else (.ok, "ok")
    | none => (.missingPath, "missing")

def Sim.stepWorker (m : Sim) (i : Nat) : Sim :=
  match m.ws[i]? with
  | none => m
  | some w =>
    match w.kind with
    | .publish p g =>
      { m with s := step m.s (.publish p g), ws := m.ws.set! i { w with done := true, out := "p" } }
    | .query .. =>
      let (s', w') :=
        match w.phase with
        | 0 => (step m.s .qstart, { w with qid := m.s.nq })
        | 1 | 2 | 3 | 4 => (step m.s (.qread w.qid), w)
        | 5 => (m.s, w)
        | _ => (step m.s (.qfinish w.qid), { w with done := true })
      { m with s := s', ws := m.ws.set! i { w' with phase := w.phase + 1 } }
    | .reload k cls timeout =>
      match w.phase with
      | 0 => { m with busy := some i, ws := m.ws.set! i { w with phase := 1 } }
      | 1 =>
        let k := k.getD .part
        let (o, c) := outcomeOf m.s k cls timeout
        let ok := succeeds m.s k o
        let late := lateEffect m.s k o && (m.s.disk (target m.s k) != some (servedGen m.s))
        { m with s := step m.s (.reload k o),
                 lateEffects := m.lateEffects + (if late then 1 else 0),
                 ws := m.ws.set! i { w with phase := 2, ok := ok, out := c } }
      | ph =>
        let fin := if w.ok then ph ≥ 4 else true
        { m with busy := if fin then none else m.busy,
                 ws := m.ws.set! i { w with phase := ph + 1, done := fin } }

def Sim.drain (m : Sim) : Nat → Sim
  | 0 => m
  | fuel + 1 =>
    match (List.range m.ws.size).find? m.enabled with
    | none => m
    | some i => (m.stepWorker i).drain fuel

def showGen (l : List Nat) (i : Nat) : String :=
  match l[i]? with
  | some g => toString g
  | none => "?"

/-- what the response of a finished query shows, and the distinct generations in it -/
def observe (s : Srv) (w : Worker) : String × List Nat :=
  match w.kind with
  | .query n t c =>
    let r := (s.queries w.qid).reads
    let r0 := r[0]?.getD 99
    let r1 := r[1]?.getD 99
    let r3 := r[3]?.getD 99
    let located := c.startsWith "10."
    let loc := if located then toString r0 else "-"
    let locs := if located then [r0] else []
    let sh (an ns ar : Option Nat) (rc : Nat) : String × List Nat :=
      let f : Option Nat → String := fun x => match x with | some g => toString g | none => "-"
      (s!"an={f an},ns={f ns},ar={f ar},loc={loc},rc={rc}",
        (locs ++ an.toList ++ ns.toList ++ ar.toList).eraseDups)
    if n == "www.ex.com" && (t == "A" || t == "TXT") then sh (some r1) none none 0
    else if n == "ex.com" && t == "NS" then sh (some r1) none (some r3) 0
    else if n == "nx.ex.com" && t == "A" then sh none (some r1) none 3
    else if n == "a.sub.ex.com" && t == "A" then sh none (some r1) (some r3) 0
    else ("unsupported-query", [])
  | _ => (w.out, [])

def handle (st : Driver.St) (op : String) (args : List String) (_impl : Option String) :
    Option (Driver.St × Out) :=
  match op, args with
  | "sched", [b, wsS, stepsS] =>
    let backend? : Option Backend :=
      -- `cdbc` / `rdbc`: response cache on (sequential schedules); the cache is invisible (C12), so
      -- the model is the same
      if b == "cdb" || b == "cdbc" then some .cdb else if b == "rdb" || b == "rdbc" then some .rdb else none
    match backend? with
    | none => some (st, { model := "bad-op" })
    | some backend =>
      let specs := if wsS == "-" then [] else wsS.splitOn ";"
      let ws := specs.map parseWorker
      if ws.any Option.isNone then some (st, { model := "bad-op" })
      else
        let ws : Array Worker := (ws.filterMap id).toArray
        let steps := if stepsS == "-" then [] else stepsS.splitOn ";"
        if steps.any (fun x => x.toNat?.isNone) then some (st, { model := "bad-op" })
        else
          let s0 := init backend (fun p => if p < 5 then some p else none) 0 0
          let m0 : Sim := { s := s0, ws := ws }
          let m1 := (steps.filterMap String.toNat?).foldl
            (fun m i => if m.enabled i then m.stepWorker i else m) m0
          let m := m1.drain (ws.size * 8 + 8)
          let obs := m.ws.toList.map (observe m.s)
          let outs := (m.ws.toList.zip obs).zipIdx.map fun ((w, o), i) =>
            let c := match w.kind with | .query .. => "q" | .reload .. => "r" | .publish .. => "p"
            s!"{c}{i}:{o.1}"
          let model := ";".intercalate (outs ++ [s!"path={m.s.path}"])
          let mixed := obs.any fun o => o.2.length > 1
          let spec :=
            if mixed then "FAIL:mixed-generation"
            else if m.lateEffects > 0 then "FAIL:failed-reload-not-noop"
            else "ok"
          some (st, { model := model, spec := spec })
  | _, _ => none

end Driver.C05
