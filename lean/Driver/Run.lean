import Driver.Common

/-! Generic line loop shared by the all-in-one driver (`dnsdrv`) and the per-property drivers
(`drv_Cxx`): a property's check depends only on the driver modules of that property, so a model
that no longer builds breaks the checks that use it and no others. -/

namespace Driver

abbrev Handler := St → String → List String → Option String → Option (St × Out)

def dispatchWith (hs : List Handler) (st : St) (op : String) (args : List String) (impl : Option String) :
    St × Out :=
  let rec go : List Handler → St × Out
    | [] => (st, { model := "bad-op", spec := "-" })
    | h :: t => match h st op args impl with
      | some r => r
      | none => go t
  go hs

def processLineWith (hs : List Handler) (st : St) (line : String) : St × String :=
  let line := line.trimAscii.toString
  let (cmd, impl) := match line.splitOn " | " with
    | [c] => (c, none)
    | c :: rest => (c, some (" | ".intercalate rest))
    | [] => ("", none)
  match splitTokens cmd with
  | [] => (st, "M=empty\tS=-")
  | op :: args =>
    let (st', o) := dispatchWith hs st op args impl
    (st', s!"M={o.model}\tS={o.spec}")

partial def loopWith (hs : List Handler) (hin hout : IO.FS.Stream) (st : St) : IO Unit := do
  let line ← hin.getLine
  if line.isEmpty then return ()
  let (st', out) := processLineWith hs st line
  hout.putStrLn out
  loopWith hs hin hout st'

def runMain (hs : List Handler) : IO Unit := do
  let hin ← IO.getStdin
  let hout ← IO.getStdout
  loopWith hs hin hout {}

end Driver
