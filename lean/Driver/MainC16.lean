import Driver.Run
import Driver.C16

def main : IO Unit :=
  Driver.runMain [Driver.C16.handle]
