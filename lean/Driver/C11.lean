import Driver.Common
import DnsVerif.Model.Wrs

/-
C11 driver. Ops:

  wrs     <max> <w:draw:fam;...>    fam = 4 | 6 | x (unsupported type); any weight, any 32-bit draw
                                    (0 and 2^32-1 included); the draw of a weight-0 candidate is
                                    not consumed by the code (no key is computed for it)
  wrsedge <max> <w:draw:fam;...>    synonym of `wrs` (older corpora)
  wrsstat <w,w,...>                 statistical test on the implementation only; model says `ok`

Output of wrs/wrsedge: `4=<sorted candidate indices|_>/6=<...>/w=<0|1>/e=<#Add errors>` or
`near-tie` when two float keys that the code compares are closer than the tolerance (then the
C `pow` used here and Go's `math.Pow` may order them differently).
-/

namespace Driver.C11
open DnsVerif DnsVerif.Wrs Driver

structure C where
  weight : Nat
  draw : Nat
  fam : Nat      -- 4, 6 or 0 (unsupported)
deriving Repr

def parseCand (s : String) : Option C :=
  match s.splitOn ":" with
  | [w, d, f] =>
    match w.toNat?, d.toNat? with
    | some w, some d =>
      if f = "4" then some ⟨w, d, 4⟩ else if f = "6" then some ⟨w, d, 6⟩
      else if f = "x" then some ⟨w, d, 0⟩ else none
    | _, _ => none
  | _ => none

def parseCands (s : String) : Option (List C) :=
  if s = "-" then some [] else (s.splitOn ";").mapM parseCand

def parseInt (s : String) : Option Int :=
  if s.startsWith "-" then (s.drop 1).toString.toNat?.map (fun n => - (n : Int)) else s.toNat?.map Int.ofNat

def maxU32 : Nat := 4294967295

/-- `math.Pow(float64(u)*float64(1.0/math.MaxUint32), 1.0/float64(weight))` -/
def keyOf (c : C) : Float :=
  Float.pow (Float.ofNat c.draw * (1.0 / Float.ofNat maxU32)) (1.0 / Float.ofNat c.weight)

/-- keys that are exact on both sides whatever the `pow` implementation: `pow(0, y) = 0` and
`pow(1, y) = 1` (`fl(4294967295 · fl(1/4294967295)) = 1.0`) -/
def special (c : C) : Bool := c.draw == 0 || c.draw == maxU32

/-- smallest relative distance between two keys the code may compare and whose order could depend
on the last bit of `pow` (a weight-0 candidate has no key) -/
def minRel (cs : List C) : Float :=
  let rec outer : List C → Float → Float
    | [], acc => acc
    | c :: rest, acc =>
      let acc' := rest.foldl (fun a d =>
        if c.fam ≠ d.fam || c.fam == 0 then a
        else if c.weight == 0 || d.weight == 0 then a
        else if special c && special d then a
        else if c.weight == d.weight && c.draw == d.draw then a
        else
          let kc := keyOf c
          let kd := keyOf d
          let m := if kc < kd then kd else kc
          let r := (kc - kd).abs / m
          if r < a then r else a) acc
      outer rest acc'
  outer cs 1.0

def famQtype (f : Nat) : Nat := if f = 4 then typeA else if f = 6 then typeAAAA else 16

def sortNats (xs : List Nat) : List Nat := (xs.toArray.qsort (· < ·)).toList

def renderIdx (xs : List Nat) : String :=
  if xs.isEmpty then "_" else ",".intercalate ((sortNats xs).map toString)

def runModel (max : Int) (cs : List C) : String :=
  -- the callers' loop, counting errors
  let (st, errs, _) := cs.foldl (fun (acc : State Float Nat × Nat × Nat) c =>
    let (st, errs, i) := acc
    match st.add (famQtype c.fam) c.weight ⟨keyOf c, i⟩ with
    | .ok st' => (st', errs, i + 1)
    | .error _ => (st, errs + 1, i + 1)) (({ maxAnswers := max } : State Float Nat), 0, 0)
  let a := st.aRecord.map (·.val)
  let b := st.aaaaRecord.map (·.val)
  s!"4={renderIdx a}/6={renderIdx b}/w={if st.weightedAnswer then 1 else 0}/e={errs}"

/-! Spec oracle: the property statement evaluated on the implementation's output, without the
model: per family the served set is duplicate-free, consists of positive-weight candidates of that
family, and has exactly `min(max, #positive)` elements; the weighted flag says "more than one
candidate in some family". -/

def parseIdx (s : String) : Option (List Nat) :=
  if s = "_" then some [] else (s.splitOn ",").mapM String.toNat?

def strictlyIncreasing : List Nat → Bool
  | a :: b :: rest => a < b && strictlyIncreasing (b :: rest)
  | _ => true

def specFam (max : Int) (cs : List C) (fam : Nat) (sel : List Nat) : Option String :=
  let arr := cs.toArray
  let npos := (cs.filter (fun c => c.fam == fam && c.weight > 0)).length
  let want := min max.toNat npos
  if !strictlyIncreasing sel then some s!"dup-or-unsorted-{fam}"
  else if sel.any (fun i => match arr[i]? with
      | some c => c.fam != fam
      | none => true) then some s!"not-a-candidate-{fam}"
  else if sel.any (fun i => match arr[i]? with
      | some c => c.weight == 0
      | none => true) then some s!"weight0-served-{fam}"
  else if sel.length > max.toNat then some s!"more-than-max-{fam}"
  else if sel.length ≠ want then some s!"count-{fam}-want-{want}-got-{sel.length}"
  else none

def specWrs (max : Int) (cs : List C) (impl : Option String) : String :=
  match impl with
  | none => "-"
  | some "near-tie" => "-"
  | some o =>
    match o.splitOn "/" with
    | [f4, f6, w, e] =>
      match (f4.dropPrefix? "4=").bind (fun s => parseIdx s.toString),
            (f6.dropPrefix? "6=").bind (fun s => parseIdx s.toString) with
      | some s4, some s6 =>
        match specFam max cs 4 s4 with
        | some why => "FAIL:" ++ why
        | none =>
          match specFam max cs 6 s6 with
          | some why => "FAIL:" ++ why
          | none =>
            let n4 := (cs.filter (·.fam == 4)).length
            let n6 := (cs.filter (·.fam == 6)).length
            let nx := (cs.filter (·.fam == 0)).length
            let wantW := if n4 > 1 || n6 > 1 then "w=1" else "w=0"
            if w ≠ wantW then "FAIL:weighted-flag"
            else if e ≠ s!"e={nx}" then "FAIL:error-count"
            else "ok"
      | _, _ => "FAIL:unparsable-impl-output"
    | _ => "FAIL:unparsable-impl-output"

def handle (st : St) (op : String) (args : List String) (impl : Option String) :
    Option (St × Out) :=
  match op, args with
  | "wrs", [m, items] | "wrsedge", [m, items] =>
    match parseInt m, parseCands items with
    | some max, some cs =>
      let r := minRel cs
      let near := r ≤ 0.5e-12 || (impl == some "near-tie" && r ≤ 2e-12)
      let model := if near then "near-tie" else runModel max cs
      let spec := specWrs max cs impl
      some (st, { model := model, spec := spec })
    | _, _ => none
  | "wrsstat", [_] => some (st, { model := "ok" })
  | _, _ => none

end Driver.C11
