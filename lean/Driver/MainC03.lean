import Driver.Run
import Driver.Serve

def main : IO Unit :=
  Driver.runMain [Driver.Serve.handle]
