import Driver.Run
import Driver.C12

def main : IO Unit :=
  Driver.runMain [Driver.C12.handle]
