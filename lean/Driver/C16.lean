import Driver.Common
import DnsVerif.Model.Cdb

namespace Driver.C16
open DnsVerif DnsVerif.Cdb Driver

def fnv64 (b : Bytes) : UInt64 :=
  b.foldl (fun h x => (h ^^^ x.toUInt64) * 1099511628211) 14695981039346656037

def parseEntry (s : String) : Option Entry :=
  match s.splitOn "." with
  | [k, v, h] => match Bytes.ofHex k, Bytes.ofHex v, h.toNat? with
    | some k, some v, some h => some { key := k, val := v, h := h }
    | _, _, _ => none
  | _ => none

def parseQuery (s : String) : Option (Bytes × Nat) :=
  match s.splitOn "." with
  | [k, h] => match Bytes.ofHex k, h.toNat? with
    | some k, some h => some (k, h)
    | _, _ => none
  | _ => none

def renderFind : Res (List Bytes) → String
  | .ok vs => if vs.isEmpty then "_" else "/".intercalate (vs.map Bytes.hex)
  | .eof => "_"
  | .panic => "panic"

/-- structured-layer answer: values of the records found by probing the key's bucket table -/
def structuredFind (es : List Entry) (key : Bytes) (hash : Nat) : String :=
  let (ps, _) := positions headerSize es
  let tbl := buildTable (bucketSlots es ps (hash % 256))
  let found := probeAll tbl hash
  let vals := found.filterMap fun pos =>
    match (es.zip ps).find? (fun ep => ep.2 = pos) with
    | some (e, _) => if e.key = key then some e.val else none
    | none => none
  if vals.isEmpty then "_" else "/".intercalate (vals.map Bytes.hex)

def handle (st : St) (op : String) (args : List String) (_impl : Option String) :
    Option (St × Out) :=
  match op, args with
  | "cdb", [ents, qs] =>
    let es := if ents = "-" then [] else (ents.splitOn ";").filterMap parseEntry
    let queries := if qs = "-" then [] else (qs.splitOn ";").filterMap parseQuery
    let file := writeFile es
    let farr := file.toArray
    let finds := queries.map fun (k, h) => renderFind (findAll farr k h)
    let sfinds := queries.map fun (k, h) => structuredFind es k h
    -- spec: the values written under the key, in insertion order
    let spec := queries.map fun (k, _) =>
      let vs := (es.filter (·.key = k)).map (·.val)
      if vs.isEmpty then "_" else "/".intercalate (vs.map Bytes.hex)
    let dumpS := match dump file with
      | some d => s!"{d.length}:{fnv64 d}"
      | none => "err"
    let model := s!"len={file.length},fnv={fnv64 file};" ++ ",".intercalate finds ++ ";dump=" ++ dumpS
    let agree := if finds = sfinds then "" else "STRUCTURED-DIFFERS:" ++ ",".intercalate sfinds
    some (st, { model := model ++ agree,
                spec := "=" ++ s!"len={file.length},fnv={fnv64 file};" ++ ",".intercalate spec
                        ++ ";dump=" ++ dumpS })
  | _, _ => none

end Driver.C16
