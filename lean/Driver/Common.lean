/-
Line-protocol plumbing shared by all property drivers. Core Lean only.

Input line :  `<op> <arg>...`            or   `<op> <arg>... | <impl output>`
Output line:  `M=<canonical model output>\tS=<spec verdict>`
  spec verdict: `-` (no spec oracle for this op), `ok`, `FAIL:<why>`, or `=<expected canonical output>`.
-/
import DnsVerif.Model.Bytes

namespace Driver
open DnsVerif

structure St where
  /-- Go's `strconv.IsPrint` as sorted inclusive ranges (sent by the harness, C17). -/
  isPrint : Array (Nat × Nat) := #[]

structure Out where
  model : String
  spec : String := "-"

def St.isPrintFn (st : St) (r : Nat) : Bool :=
  -- binary search over sorted disjoint inclusive ranges
  let rec go (lo hi fuel : Nat) : Bool :=
    match fuel with
    | 0 => false
    | fuel + 1 =>
      if lo ≥ hi then false
      else
        let mid := (lo + hi) / 2
        let (a, b) := st.isPrint[mid]!
        if r < a then go lo mid fuel
        else if r > b then go (mid + 1) hi fuel
        else true
  go 0 st.isPrint.size 64

def splitTokens (s : String) : List String :=
  (s.splitOn " ").filter (· ≠ "")

def parseNatList (s : String) : List Nat :=
  if s = "-" then [] else (s.splitOn ",").filterMap String.toNat?

def errStr {ε α} (f : α → String) (g : ε → String) : Except ε α → String
  | .ok a => "ok:" ++ f a
  | .error e => "err:" ++ g e

end Driver
