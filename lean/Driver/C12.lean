import Driver.Common
import DnsVerif.Model.Cache

/-!
Driver for C12. Ops (see `harness/c12.go`):

* `key <loc> <qtype> <qclass> <name>` / `keyold …` — the rendered cache key (hex);
* `hist <backend> <events>` / `race <backend> <events>` — the events are replayed on the protocol
  machine `Cache.step`, instantiated with the free response `resp g q = (g, key q)`; the output is
  one `<label>:<loc>:<hit|miss|nolookup>:<stamp>` per completed query.

Spec oracle on the machine's trace: every query is sent its *own* response (the key stored in the
response is the query's key), never one older than the generation it acquired, and an uninterrupted
query gets the response of the generation current when it runs.
-/

namespace Driver.C12
open DnsVerif DnsVerif.Cache Driver

structure QD where
  key : Bytes
  kind : Kind
  loc : String
deriving DecidableEq

abbrev Rsp := Nat × Bytes

def params : Params QD Rsp :=
  { keyOf := (·.key), kindOf := (·.kind), resp := fun g q => (g, q.key), wrs := false }

def parseKind : String → Option Kind
  | "p" => some .plain
  | "w" => some .weighted
  | "r" => some .refused
  | "b" => some .badvers
  | _ => none

/-- `<lochex>`, `<kind>`, `<namehex>.<qtype>.<qclass>.…` -/
def parseQD (loc kind tok : String) : Option QD := do
  let l ← Bytes.ofHex loc
  let k ← parseKind kind
  match tok.splitOn "." with
  | n :: t :: c :: _ =>
    let name ← Bytes.ofHex n
    let qt ← t.toNat?
    let qc ← c.toNat?
    some { key := cacheKey l qt qc (lower name), kind := k, loc := loc }
  | _ => none

/-- does a query of this kind get to yield point `pt` at all (if it does not hit)? -/
def reaches (k : Kind) (pt : Nat) : Bool :=
  match k with
  | .badvers => pt ≤ 1       -- returns right after `serve.acquired`
  | .refused => pt ≤ 3       -- returns after `serve.zonecut`
  | _ => true

/-- machine steps performed before the query parks at yield point `pt` -/
def prefixSteps (i pt : Nat) : List (Step QD) :=
  (if pt ≥ 1 then [Step.acquire i] else []) ++ (if pt ≥ 3 then [.lookup i] else []) ++
  (if pt ≥ 5 then [.compute i] else []) ++ (if pt ≥ 6 then [.insert i] else [])

def restSteps (i : Nat) : List (Step QD) := [.acquire i, .lookup i, .compute i, .insert i, .send i]

structure Sim where
  st : Cache.St QD Rsp := {}
  parked : List (String × Nat) := []      -- label ↦ flight index, every label that ever parked
  live : List String := []                -- labels still parked
  out : List String := []
  bad : Option String := none

def render (label : String) (q : QD) (o : Sent Rsp) : String :=
  let hm := if o.hit then "hit" else if q.kind = .badvers then "nolookup" else "miss"
  let stamp := if q.kind = .refused ∨ q.kind = .badvers then "*" else toString o.label
  s!"{label}:{q.loc}:{hm}:{stamp}"

/-- the Spec statement on one completed query -/
def check (label : String) (q : QD) (o : Sent Rsp) (uninterrupted : Bool) (gen : Nat) : Option String :=
  if o.rsp.2 ≠ q.key then some s!"FAIL:foreign-response@{label}"
  else if o.rsp.1 ≠ o.label then some s!"FAIL:label@{label}"
  else if o.label < o.acq then some s!"FAIL:stale@{label}"
  else if uninterrupted ∧ o.label ≠ gen then some s!"FAIL:not-current@{label}"
  else none

def complete (sim : Sim) (label : String) (i : Nat) (q : QD) (uninterrupted : Bool) : Sim :=
  match sentOf sim.st i with
  | some o =>
    { sim with out := sim.out ++ [render label q o],
               bad := sim.bad <|> check label q o uninterrupted sim.st.gen }
  | none => { sim with out := sim.out ++ [s!"{label}:unfinished"] }

def event (sim : Sim) (ev : String) : Sim :=
  let p := ev.splitOn "@"
  match p with
  | ["K"] =>
    -- catch-up reload of the served RocksDB instance: a completed reload like any other
    if sim.st.gen + 1 ≥ 4 then sim else { sim with st := step params sim.st .reload }
  | ["R"] =>
    -- the harness has `gens` databases: further reloads are ignored there, too
    if sim.st.gen + 1 ≥ 4 then sim else { sim with st := step params sim.st .reload }
  | ["q", loc, kind, tok] =>
    match parseQD loc kind tok with
    | none => sim
    | some q =>
      let i := sim.st.flights.length
      let st := runFrom params sim.st (Step.start q :: restSteps i)
      complete { sim with st := st } "q" i q true
  | [s, pt, loc, kind, tok] =>
    if ¬ s.startsWith "s" then sim else
    let label := (s.drop 1).toString
    match pt.toNat?, parseQD loc kind tok with
    | some pt, some q =>
      if pt ≥ 7 ∨ (sim.parked.any (·.1 == label)) then sim else
      let i := sim.st.flights.length
      if ¬ reaches q.kind pt then
        complete { sim with st := runFrom params sim.st (Step.start q :: restSteps i) } label i q false
      else
        let st := runFrom params sim.st (Step.start q :: prefixSteps i pt)
        let isHit := match st.flights[i]? with
          | some { phase := .hit _ _, .. } => true
          | _ => false
        if isHit then
          complete { sim with st := runFrom params st (restSteps i) } label i q false
        else { sim with st := st, parked := sim.parked ++ [(label, i)], live := sim.live ++ [label] }
    | _, _ => sim
  | [c] =>
    if ¬ c.startsWith "c" then sim else
    let label := (c.drop 1).toString
    if ¬ sim.live.contains label then sim else
    match sim.parked.find? (·.1 == label) with
    | some (_, i) =>
      match sim.st.flights[i]? with
      | some f =>
        let sim1 := { sim with st := runFrom params sim.st (restSteps i), live := sim.live.erase label }
        complete sim1 label i f.q false
      | none => sim
    | none => sim
  | _ => sim

def hexOut (b : Bytes) : String := Bytes.hex b

def handle (st : Driver.St) (op : String) (args : List String) (_impl : Option String) :
    Option (Driver.St × Out) :=
  match op, args with
  | "key", [l, t, c, n] =>
    match Bytes.ofHex l, t.toNat?, c.toNat?, Bytes.ofHex n with
    | some l, some t, some c, some n => some (st, { model := hexOut (cacheKey l t c n) })
    | _, _, _, _ => some (st, { model := "bad-args" })
  | "keyold", [l, t, c, n] =>
    match Bytes.ofHex l, t.toNat?, c.toNat?, Bytes.ofHex n with
    | some l, some t, some c, some n => some (st, { model := hexOut (cacheKeyOld l t c n) })
    | _, _, _, _ => some (st, { model := "bad-args" })
  | "hist", [_, evs] | "race", [_, evs] =>
    let sim := (evs.splitOn ";").foldl event {}
    -- the keys the cache holds when every query has finished, as the model renders them
    let keys := if sim.live.isEmpty then
        "+".intercalate ((sim.st.cache.map fun e => hexOut e.1).toArray.qsort (· < ·)).toList
      else "?"
    some (st, { model := ",".intercalate sim.out ++ "|keys=" ++ keys, spec := sim.bad.getD "ok" })
  | _, _ => none

end Driver.C12
