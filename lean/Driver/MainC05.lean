import Driver.Run
import Driver.C05

def main : IO Unit :=
  Driver.runMain [Driver.C05.handle]
