import Driver.Common
import DnsVerif.Model.ApplyDiff
import DnsVerif.Spec.ApplyDiff

/-!
C08 driver.

`chain <class> <extra> <dict> <A> [<diff> <B>]*`

* `class` : `rdb1` | `rdb2` (informational: which codec produced the records)
* `extra` : `k.v,…` | `_`           the feature record
* `dict`  : `;`-separated `<line hex>=<records>`; records = `k.v,k.v…` | `_` (none) | `!` (rejected):
            what the real `Codec.ConvertLn` returns for every data line that occurs (black box)
* `A`     : `;`-separated raw lines of the data file (hex, `-` = empty line), `_` = no line
* `diff`  : `;`-separated raw lines of the diff file, `_` = no line
* `B`     : the data file the diff leads to, or `!` when the diff is expected not to apply

`mtime <class> <extra> <dictA> <dictD> <dictB> <A> <diff> <B>`: the same single step where the data
file A, the diff file and the data file B have different mtimes (the codec's default serial), hence
three black boxes.

Output (model and impl): `c=<r>;<step>;…`, `r` = `ok:n=<records>,k=<keys>,h=<fnv64 of the canonical
dump>`, step = `r` | `err:<parse|convert|batch>:same` (`same`: the database did not change).
`mtime`: `c=<r>;<step>;fresh=<r of compiling B>;eq=<0|1>`.
-/
namespace Driver.C08
open DnsVerif DnsVerif.Rdb DnsVerif.ApplyDiff Driver

def fnvStep (h : UInt64) (x : UInt8) : UInt64 := (h ^^^ x.toUInt64) * 1099511628211

def fnvStr (h : UInt64) (s : String) : UInt64 := s.toUTF8.foldl fnvStep h

def recLe (p q : Bytes × Bytes) : Bool :=
  if bytesLt p.1 q.1 then true else if bytesLt q.1 p.1 then false else bytesLe p.2 q.2

/-- canonical result of a multimap given as its record list: records sorted by (key, value);
dump text = one line `<key hex>=<value hex>,<value hex>…\n` per key (same as C07) -/
def canon (recs : Pairs) : String :=
  let sorted := recs.mergeSort recLe
  let step := fun (acc : UInt64 × Nat × Option Bytes) (p : Bytes × Bytes) =>
    let (h, keys, prev) := acc
    match prev with
    | some k =>
      if k = p.1 then (fnvStr (fnvStr h ",") (Bytes.hex p.2), keys, prev)
      else (fnvStr (fnvStr (fnvStr (fnvStr h "\n") (Bytes.hex p.1)) "=") (Bytes.hex p.2), keys + 1, some p.1)
    | none => (fnvStr (fnvStr (fnvStr h (Bytes.hex p.1)) "=") (Bytes.hex p.2), keys + 1, some p.1)
  let (h, keys, prev) := sorted.foldl step (14695981039346656037, 0, none)
  let h := if prev.isSome then fnvStr h "\n" else h
  s!"ok:n={recs.length},k={keys},h={h}"

/-- records of a RocksDB-model state (chunk lists decoded) -/
def kvRecords (db : KV) : Option Pairs :=
  db.foldr (fun kv acc =>
    match acc, decode kv.2 with
    | some r, .ok vs => some (vs.map (fun v => (kv.1, v)) ++ r)
    | _, _ => none) (some [])

def renderKV (db : KV) : String :=
  match kvRecords db with
  | some r => canon r
  | none => "corrupt"

def parsePair (s : String) : Option (Bytes × Bytes) :=
  match s.splitOn "." with
  | [k, v] => match Bytes.ofHex k, Bytes.ofHex v with
    | some a, some b => some (a, b)
    | _, _ => none
  | _ => none

def parsePairs (s : String) : Option Pairs :=
  if s = "_" then some [] else (s.splitOn ",").mapM parsePair

abbrev Dict := List (Bytes × Option Pairs)

def parseDictEntry (s : String) : Option (Bytes × Option Pairs) :=
  match s.splitOn "=" with
  | [l, r] =>
    match Bytes.ofHex l with
    | none => none
    | some line => if r = "!" then some (line, none) else (parsePairs r).map fun p => (line, some p)
  | _ => none

def parseDict (s : String) : Option Dict :=
  if s = "_" then some [] else (s.splitOn ";").mapM parseDictEntry

def parseLines (s : String) : Option (List Bytes) :=
  if s = "_" then some [] else (s.splitOn ";").mapM Bytes.ofHex

def Dict.conv (d : Dict) : Conv := fun l =>
  match d.find? (·.1 = l) with
  | some (_, r) => r
  | none => none

def Dict.has (d : Dict) (l : Bytes) : Bool := d.any (·.1 = l)

def errName : DErr → String
  | .parse => "parse"
  | .convert => "convert"
  | .batch _ => "batch"

/-- every line the codec is asked about is in the dictionary -/
def covered (d : Dict) (file : List Bytes) (diffs : List (List Bytes)) : Bool :=
  (codecLines file).all d.has &&
  diffs.all fun diff => (plusOf diff).all d.has && (minusOf diff).all d.has

/-- the model: compile A, apply the diffs one after the other (a failing diff leaves the state) -/
def runModel (d : Dict) (extra : Pairs) (a : List Bytes) (diffs : List (List Bytes)) : String :=
  match compileFile d.conv extra a with
  | none => "c=fail"
  | some s0 =>
    let (_, outs) := diffs.foldl (fun (acc : KV × List String) diff =>
      let (s, outs) := acc
      match applyDiff d.conv s diff with
      | .ok s' => (s', outs ++ [renderKV s'])
      | .error e => (s, outs ++ [s!"err:{errName e}:same"])) (s0, [])
    ";".intercalate (("c=" ++ renderKV s0) :: outs)

/-- spec: the records of a file -/
def fileRecs (d : Dict) (extra : Pairs) (file : List Bytes) : Option Pairs :=
  (convertAll d.conv (codecLines file)).map fun per => per.flatten ++ extra

/-- spec: why a diff does not apply (`none` = it applies) -/
def specFailure (d : Dict) (db : Pairs) (diff : List Bytes) : Option String :=
  match diff.find? (malformed d.conv) with
  | some l => some (if classify l = .bad then "parse" else "convert")
  | none =>
    let plus := ((plusOf diff).filterMap d.conv).flatten
    let minus := ((minusOf diff).filterMap d.conv).flatten
    match Spec.diffResult db plus minus with
    | some _ => none
    | none => some "batch"

/-- spec oracle: after each applicable diff the database is the one of the target file -/
def runSpec (d : Dict) (extra : Pairs) (a : List Bytes) (steps : List (List Bytes × Option (List Bytes))) :
    String :=
  match fileRecs d extra a with
  | none => "=c=fail"
  | some r0 =>
    let (_, outs, bad) := steps.foldl (fun (acc : Pairs × List String × Option String) st =>
      let (cur, outs, bad) := acc
      match st.2 with
      | some b =>
        match fileRecs d extra b with
        | some rb => (rb, outs ++ [canon rb], bad)
        | none => (cur, outs, bad <|> some "target-file-rejected")
      | none =>
        match specFailure d cur st.1 with
        | some why => (cur, outs ++ [s!"err:{why}:same"], bad)
        | none => (cur, outs, bad <|> some "diff-applies-but-failure-expected")) (r0, [], none)
    match bad with
    | some why => "FAIL:" ++ why
    | none => "=" ++ ";".intercalate (("c=" ++ canon r0) :: outs)

def parseSteps : List String → Option (List (List Bytes × Option (List Bytes)))
  | [] => some []
  | diff :: b :: rest =>
    match parseLines diff, (if b = "!" then some none else (parseLines b).map some), parseSteps rest with
    | some dl, some bl, some r => some ((dl, bl) :: r)
    | _, _, _ => none
  | _ => none

def handle (st : St) (op : String) (args : List String) (_impl : Option String) :
    Option (St × Out) :=
  match op, args with
  | "chain", _cls :: extra :: dict :: a :: rest =>
    match parsePairs extra, parseDict dict, parseLines a, parseSteps rest with
    | some ex, some d, some al, some steps =>
      if !covered d al (steps.map (·.1)) then some (st, { model := "nodict", spec := "-" })
      else
        some (st, { model := runModel d ex al (steps.map (·.1)), spec := runSpec d ex al steps })
    | _, _, _, _ => some (st, { model := "bad-args", spec := "-" })
  | "mtime", [_cls, extra, dictA, dictD, dictB, a, diff, b] =>
    match parsePairs extra, parseDict dictA, parseDict dictD, parseDict dictB, parseLines a,
        parseLines diff, parseLines b with
    | some ex, some dA, some dD, some dB, some al, some dl, some bl =>
      match compileFile dA.conv ex al, compileFile dB.conv ex bl with
      | some s0, some sb =>
        let fresh := renderKV sb
        let (step, after) := match applyDiff dD.conv s0 dl with
          | .ok s' => (renderKV s', renderKV s')
          | .error e => (s!"err:{errName e}:same", renderKV s0)
        let eq := if after = fresh then "1" else "0"
        some (st, { model := s!"c={renderKV s0};{step};fresh={fresh};eq={eq}", spec := "-" })
      | _, _ => some (st, { model := "c=fail", spec := "-" })
    | _, _, _, _, _, _, _ => some (st, { model := "bad-args", spec := "-" })
  | _, _ => none

end Driver.C08
