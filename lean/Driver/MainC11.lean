import Driver.Run
import Driver.C11

def main : IO Unit :=
  Driver.runMain [Driver.C11.handle]
