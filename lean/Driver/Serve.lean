import Driver.Common
import DnsVerif.Model.Serve
import DnsVerif.Spec.Answer
import DnsVerif.Model.Stats
import DnsVerif.Model.Pipeline

/-! Driver for the `serve` op: compile the data file with the model codec for each storage
configuration, answer every query with the model handler, render canonically. Address groups are
compared relationally with the implementation's output (weighted random selection). -/

namespace Driver.Serve
open DnsVerif DnsVerif.Codec DnsVerif.Rearr DnsVerif.Loc DnsVerif.Serve DnsVerif.Pipeline Driver

/-! `serial`, `cfgFor`, `featuresKV`, `compile`, `decodeKV`, `zoneOf`, `noSvcb` are in
`DnsVerif/Model/Pipeline.lean` (namespace `DnsVerif.Pipeline`, opened above); `Proofs/Pipeline.lean`
proves that the store `compile` builds represents the records `zoneOf` declares. -/

def backends : List (String × Backend) :=
  [("cdb", .cdb false), ("cdbsep", .cdb true), ("v1", .rdbV1), ("v2", .rdbV2)]

/-! ### query tokens -/

structure QTok where
  nameText : Bytes          -- presentation form as asked
  qtype : Nat
  qclass : Nat
  maxAns : Nat
  resolver : List UInt8
  opt : Bool
  ecs : Option Ecs
  version : Nat
  extraOpt : Nat

/-- pack a plain presentation-format name (no escapes): labels split on '.' -/
def packText (t : Bytes) : Bytes :=
  if t = [0x2e] then [0] else Name.putdom t

def parseOptField (o : String) : Bool × Option Ecs × Nat × Nat :=
  if o = "-" then (false, none, 0, 0)
  else
    let (o1, x) := match o.splitOn "x" with
      | [a, b] => (a, b.toNat?.getD 0)
      | _ => (o, 0)
    let (o2, ver) := match o1.splitOn "v" with
      | [a, b] => (a, b.toNat?.getD 0)
      | _ => (o1, 0)
    let ecs : Option Ecs :=
      if o2.startsWith "e" then
        match (o2.drop 1).toString.splitOn "/" with
        | [f, s, sc, a] =>
          match f.toNat?, s.toNat?, sc.toNat?, Bytes.ofHex a with
          | some f, some s, some sc, some a => some { family := f, sourceMask := s, scope := sc, addr := a }
          | _, _, _, _ => none
        | _ => none
      else none
    (true, ecs, ver, x)

def parseQ (tok : String) : Option QTok :=
  match tok.splitOn "." with
  | [n, t, c, m, r, o] =>
    match Bytes.ofHex n, t.toNat?, c.toNat?, m.toNat?, Bytes.ofHex r with
    | some n, some t, some c, some m, some r =>
      let (opt, ecs, ver, x) := parseOptField o
      some { nameText := n, qtype := t, qclass := c, maxAns := m, resolver := r, opt := opt, ecs := ecs,
             version := ver, extraOpt := x }
    | _, _, _, _, _ => none
  | _ => none

/-! ### rendering -/

def sortStrs (xs : List String) : List String := (xs.toArray.qsort (· < ·)).toList

def renderRR (name : Bytes) (t cls ttl : Nat) (rdata : Bytes) : String :=
  s!"{Bytes.hex (Name.toLower name)}/{t}/{cls}/{ttl}/{Bytes.hex rdata}"

/-- an address RR as the implementation printed it, parsed back: (name, type, class, ttl, rdata) -/
def parseImplRR (s : String) : Option (String × Nat × Nat × Nat × String) :=
  match s.splitOn "/" with
  | [n, t, c, ttl, rd] =>
    match t.toNat?, c.toNat?, ttl.toNat? with
    | some t, some c, some ttl => some (n, t, c, ttl, rd)
    | _, _, _ => none
  | _ => none

/-- Relational check of one address group against the implementation's section: the served records
of this (owner, type) must be distinct candidates of positive weight, exactly
`min(max, #positive)` of them. If it holds, the implementation's choice is echoed (so the rendered
sections coincide); otherwise the full candidate list is rendered, which makes the mismatch visible. -/
def renderGroup (g : AddrGroup) (implSection : List String) (mult : Nat := 1) : List String :=
  let nameHex := Bytes.hex (Name.toLower g.name)
  let positives := g.cands.filter (·.weight > 0)
  let expectCount := min g.max positives.length
  let mine := implSection.filter fun s =>
    match parseImplRR s with
    | some (n, t, c, _, _) => n = nameHex ∧ t = g.type ∧ c = g.cls
    | none => false
  let candStrs := positives.map fun c => renderRR g.name g.type g.cls c.ttl c.addr
  -- drawn without repetition: a sub-multiset of the positive-weight candidates
  -- (a group emitted `mult` times - the same target reached twice - is drawn `mult` times)
  let okMembers := mine.all fun s => mine.count s ≤ mult * candStrs.count s
  if okMembers ∧ mine.length = mult * expectCount then mine
  else (g.cands.map fun c => renderRR g.name g.type g.cls c.ttl c.addr ++ s!"(w={c.weight},max={g.max})")

def renderSection (rrs : List Serve.RR) (groups : List AddrGroup) (implSection : List String) : String :=
  let a := rrs.map fun r => renderRR r.name r.type r.cls r.ttl r.rdata
  -- groups are identified up to the letter case of their owner (the rendering lower-cases it)
  let canon (g : AddrGroup) : AddrGroup := { g with name := Name.toLower g.name }
  let cgroups := groups.map canon
  let b := cgroups.eraseDups.flatMap fun g => renderGroup g implSection (cgroups.count g)
  "[" ++ "|".intercalate (sortStrs (a ++ b)) ++ "]"

/-- split `[a|b|c]` -/
def splitSection (s : String) : List String :=
  let inner := ((s.drop 1).toString.dropEnd 1).toString
  if inner = "" then [] else inner.splitOn "|"

/-- fields of an implementation result `rc=..,aa=..,id=..,q=..,an=[..],ns=[..],ar=[..],opt` -/
def implSections (r : String) : List String × List String × List String :=
  let get (tag : String) : List String :=
    match r.splitOn (tag ++ "=[") with
    | [_, rest] => match rest.splitOn "]" with
      | body :: _ => if body = "" then [] else body.splitOn "|"
      | [] => []
    | _ => []
  (get "an", get "ns", get "ar")

def renderOpt (q : QTok) (scope : Option Nat) (refusedLike : Bool) : String :=
  if ¬ q.opt then "none"
  else
    -- BADVERS replies carry the bare OPT built by coredns' edns.Version; every other reply the
    -- handler's own OPT with the client-subnet option only
    let extra : List String := []
    let ecs : List String :=
      if refusedLike then []
      else match q.ecs, scope with
        | some e, some sc => [s!"e{e.family}/{e.sourceMask}/{sc}/{Bytes.hex e.addr}"]
        | _, _ => []
    "opt(" ++ ",".intercalate (sortStrs (extra ++ ecs)) ++ ")"

/-- one query against one compiled store -/
def answerOne (b : Backend) (store : Store) (q : QTok) (implResult : String) : String :=
  let qnameOut := packText q.nameText
  let qname := Name.toLower qnameOut
  if q.opt ∧ q.version ≠ 0 then
    -- BADVERS: coredns `edns.Version` builds the reply (question section zeroed)
    s!"rc=16,aa=0,id=ok,q=same,an=[],ns=[],ar=[]," ++ renderOpt q none true
  else
  match findLocationTop b store qname q.ecs q.resolver with
  | .err | .panic => "noreply(rc=2)"
  | .ok (scope, loc) =>
    let v : View := { backend := b, store := store, loc := loc.locID }
    match serve v { qname := qname, qnameOut := qnameOut, qtype := q.qtype, qclass := q.qclass,
                    maxAns := if q.maxAns = 0 then 1 else q.maxAns } with
    | .panic => "panic"
    | .noReply => "noreply(rc=2)"
    | .failedReply => "rc=2,aa=0,id=ok,q=same,an=[],ns=[],ar=[],none"
    | .reply r =>
      let (ian, ins, iar) := implSections implResult
      let _ := ins
      let aa := if r.aa then 1 else 0
      s!"rc={r.rcode},aa={aa},id=ok,q=same,an={renderSection r.answer r.answerAddrs ian},"
        ++ s!"ns={renderSection r.ns [] []},ar={renderSection [] r.extra iar},"
        ++ renderOpt q scope false


/-! ### the Spec oracle: records, maps and subnets of the data file, independent of key layout -/

/-- `SoaHasNs` of the well-formedness predicate (DESIGN section 6, `Proofs/ServeRefine.lean`): the
owner of an SOA also owns an NS visible wherever the SOA is. Files without it are outside the
statement's "well-formed data files" and get no Spec verdict (implementation = model and the
pairwise agreement of the storage configurations are still checked). -/
def soaHasNs (z : Spec.Zone) : Bool :=
  z.recs.all fun r => r.type ≠ 6 ∨ r.wild ∨
    z.recs.any fun r' => r'.owner = r.owner ∧ ¬ r'.wild ∧ r'.type = 2 ∧ (r'.loc = [0, 0] ∨ r'.loc = r.loc)

/-- `LocIdsOK` of the location pipeline theorems (`Props/C03.lean`): no subnet and no client-subnet
map carries the default map id `\0\0` (a classic `%lo,prefix` line without map id lands there, and
lookups for a name without map run on that id). Such files get no Spec verdict; implementation =
model and the pairwise agreement of the storage configurations are still checked. -/
def locIdsOK (z : Spec.Zone) : Bool :=
  z.subnets.all (fun s => s.mapID ≠ [0, 0]) && z.maps.all (fun m => ¬ m.ecs ∨ m.mapID ≠ [0, 0])

def renderSpecRR (r : Spec.OutRR) : String :=
  s!"{Bytes.hex (Name.pack r.owner)}/{r.type}/{r.cls}/{r.ttl}/{Bytes.hex r.rdata}"

def specGroupToModel (g : Spec.OutAddrs) : AddrGroup :=
  { name := Name.pack g.owner, type := g.type, cls := g.cls,
    cands := g.cands.map fun (ttl, w, a) => ⟨ttl, w, a⟩, max := g.max }

/-- what the Spec says the reply to `q` must be, rendered like an implementation result (address
groups echo the implementation's choice when it is admissible) -/
def specOne (z : Spec.Zone) (q : QTok) (implResult : String) : String :=
  let qnameOut := packText q.nameText
  let qname := Name.toLower qnameOut
  match Name.unpack qname with
  | none => "spec-badname"
  | some labels =>
    if q.opt ∧ q.version ≠ 0 then s!"rc=16"
    -- `EcsRegular` (Props/C03): a family-2 option carrying an IPv4-mapped address is treated as an
    -- IPv4 client by both drivers while the Spec takes the declared family: no Spec verdict
    else if (q.ecs.any fun e => e.family = 2 ∧ (to16 e.addr).take 12 = Net.v4Prefix) then "spec-skip"
    else
      let client : Spec.Client :=
        { resolver := ipToNat q.resolver,
          ecs := q.ecs.map fun e => (e.family, e.sourceMask, e.scope, ipToNat (to16 e.addr)) }
      let lr := Spec.locate z labels client
      let a := Spec.answer z labels q.qtype q.qclass (if q.maxAns = 0 then 1 else q.maxAns) lr.loc
      let (ian, _, iar) := implSections implResult
      let sec (rrs : List Spec.OutRR) (gs : List Spec.OutAddrs) (impl : List String) : String :=
        "[" ++ "|".intercalate (sortStrs (rrs.map renderSpecRR ++ gs.flatMap fun g => renderGroup (specGroupToModel g) impl)) ++ "]"
      let aa := if a.aa then 1 else 0
      let opt :=
        if ¬ q.opt then "none"
        else match q.ecs, lr.scope with
          | some e, some sc => s!"opt(e{e.family}/{e.sourceMask}/{sc}/{Bytes.hex e.addr})"
          | _, _ => "opt()"
      s!"rc={a.rcode},aa={aa},id=ok,q=same,an={sec a.answer a.answerAddrs ian},ns={sec a.authority [] []},"
        ++ s!"ar={sec [] a.additional iar},{opt}"

/-- drop repeated entries of the additional section of an implementation result -/
def dedupAr (r : String) : String :=
  match r.splitOn ",ar=[" with
  | [a, b] =>
    match b.splitOn "]" with
    | body :: rest => a ++ ",ar=[" ++ "|".intercalate ((body.splitOn "|").eraseDups) ++ "]" ++ "]".intercalate rest
    | [] => r
  | _ => r

/-- the `serve`/`servecs` op: model output and Spec verdict -/
def serveOp (withOpt : Bool) (ls qs : String) (impl : Option String) : String × String :=
    let dropOpt (r : String) : String :=
      if withOpt then r else
      match r.splitOn ",ar=" with
      | [a, b] => a ++ ",ar=" ++ ((b.splitOn "]").headD "") ++ "]"
      | _ => r
    let lines := (ls.splitOn ";").filterMap Bytes.ofHex
    let queries := (qs.splitOn ";").filterMap parseQ
    let implParts := (impl.getD "").splitOn "#"
    let outs := backends.map fun (name, b) =>
      let implB : List String :=
        match implParts.find? (·.startsWith (name ++ ":")) with
        | some p => ((p.drop (name.length + 1)).toString).splitOn "~"
        | none => []
      match compile b noSvcb lines with
      | none => name ++ ":compile-error"
      | some store =>
        name ++ ":" ++ "~".intercalate (queries.zipIdx.map fun (q, i) => answerOne b store q (implB.getD i ""))
    -- Spec oracle on the implementation's own output: first query/backend where they differ.
    -- Extra EDNS options in the reply (cookie, NSID echo) are outside the statement and ignored.
    let stripExtra (r : String) : String := r.replace "c10," "" |>.replace "c3," "" |>.replace "(c10)" "()" |>.replace "(c3)" "()"
    let verdict : String :=
      match impl, zoneOf lines with
      | none, _ => "-"
      | some _, none => "-"
      | some _, some z =>
        if ¬ soaHasNs z ∨ ¬ locIdsOK z then "-" else
        let bad := backends.findSome? fun (name, _) =>
          match implParts.find? (·.startsWith (name ++ ":")) with
          | none => none
          | some p =>
            let rs := ((p.drop (name.length + 1)).toString).splitOn "~"
            if rs = ["compile-error"] then none
            else (queries.zipIdx.zip rs).findSome? fun ((q, i), r0) =>
              -- sections are compared as RR sets (the property's observation point): a repeated
              -- additional record (two MX targets differing only in case) is the same set
              let r := dedupAr r0
              let want := specOne z q r
              if want = "spec-skip" then none
              else if want = "rc=16" then (if r.startsWith "rc=16," then none else some s!"FAIL:{name}-q{i}-badvers")
              else if dropOpt (stripExtra r) = dropOpt want then none
              else some s!"FAIL:{name}-q{i}:want={want}"
        bad.getD "ok"
    ("#".intercalate outs, verdict)

/-- the labels of a packed name -/
def wireLabels : Nat → Bytes → List Bytes
  | 0, _ => []
  | _, [] => []
  | fuel + 1, n :: rest =>
    if n = 0 then [] else (rest.take n.toNat) :: wireLabels fuel (rest.drop n.toNat)

/-- the `loc` / `locq` ops (C03): `FindLocation` for a name (`ex.com` unless given) on every
storage configuration -/
def locOp (ls cs : String) (impl : Option String)
    (qname : Bytes := [2, 0x65, 0x78, 3, 0x63, 0x6f, 0x6d, 0]) : Out :=
  let lines := (ls.splitOn ";").filterMap Bytes.ofHex
  let clients : List (List UInt8 × Option Ecs) := (cs.splitOn ";").filterMap fun c =>
    if c.startsWith "r" then (Bytes.ofHex (c.drop 1).toString).map fun ip => (ip, none)
    else if c.startsWith "e" then
      match (c.drop 1).toString.splitOn "/" with
      | [f, s, a] =>
        match f.toNat?, s.toNat?, Bytes.ofHex a with
        | some f, some s, some a =>
          some (Net.v4Prefix ++ [198, 51, 100, 7], some { family := f, sourceMask := s, scope := 0, addr := a })
        | _, _, _ => none
      | _ => none
    else none
  let outs := backends.map fun (name, b) =>
    match compile b noSvcb lines with
    | none => name ++ ":compile-error"
    | some store =>
      name ++ ":" ++ "~".intercalate (clients.map fun (ip, ecs) =>
        match findLocationTop b store qname ecs ip with
        | .ok (scope, loc) => Bytes.hex loc.locID ++ "/" ++ (match scope with | some sc => toString sc | none => "-")
        | _ => "err")
  let verdict : String :=
    match impl, zoneOf lines with
    | some i, some z =>
      let implParts := i.splitOn "#"
      let bad := backends.findSome? fun (name, _) =>
        match implParts.find? (·.startsWith (name ++ ":")) with
        | none => none
        | some p =>
          let rs := ((p.drop (name.length + 1)).toString).splitOn "~"
          if rs = ["compile-error"] then none
          else (clients.zipIdx.zip rs).findSome? fun (((ip, ecs), k), r) =>
            let client : Spec.Client :=
              { resolver := ipToNat ip, ecs := ecs.map fun e => (e.family, e.sourceMask, e.scope, ipToNat (to16 e.addr)) }
            let lr := Spec.locate z (wireLabels qname.length qname) client
            let want := Bytes.hex lr.loc ++ "/" ++ (match lr.scope with | some sc => toString sc | none => "-")
            if r = want then none else some s!"FAIL:{name}-c{k}:want={want},got={r}"
      bad.getD "ok"
    | _, _ => "-"
  { model := "#".intercalate outs, spec := verdict }


/-! ### C19 (second half): counters and the query log around the query path, cache enabled -/

structure CacheEnt where
  key : String
  body : String        -- rendered response without the OPT field

def sortedJoin (xs : List String) : String := ",".intercalate (sortStrs xs)

/-- `servestats`: queries served in sequence by one handler (CDB, cache on, WRSTimeout 0) -/
def serveStatsOp (ls qs : String) (impl : Option String) : String :=
  let lines := (ls.splitOn ";").filterMap Bytes.ofHex
  let queries := (qs.splitOn ";").filterMap parseQ
  let b : Backend := .cdb false
  match compile b noSvcb lines with
  | none => "cdb:compile-error"
  | some store =>
    let implRs : List String :=
      match impl with
      | some i => ((i.drop 4).toString).splitOn "~"
      | none => []
    let fx (q : QTok) (cls : Stats.LocClass) (p : Stats.Path) : String :=
      let e := Stats.effects q.qtype false true cls p
      sortedJoin (e.counters.map Stats.Counter.name) ++ s!"@log={e.logCalls},failed={e.logFailedCalls},match=1"
    let step (acc : List (CacheEnt × Nat × Bool × Bool) × List String) (qi : QTok × Nat) :
        List (CacheEnt × Nat × Bool × Bool) × List String :=
      let (cache, outs) := acc
      let (q, i) := qi
      let implR := ((implRs.getD i "").splitOn "@").headD ""
      let qnameOut := packText q.nameText
      let qname := Name.toLower qnameOut
      if q.opt ∧ q.version ≠ 0 then
        let r := s!"rc=16,aa=0,id=ok,q=same,an=[],ns=[],ar=[]," ++ renderOpt q none true
        (cache, outs ++ [r ++ "@" ++ fx q .empty .badvers])
      else
      match findLocationTop b store qname q.ecs q.resolver with
      | .err | .panic => (cache, outs ++ ["noreply(rc=2)@" ++ fx q .empty .locationError])
      | .ok (scope, loc) =>
        let cls := Stats.locClass loc.mask loc.locID
        let key := s!"{Bytes.hex loc.locID}/{q.qtype}/{q.qclass}/{Bytes.hex qname}"
        match cache.find? (·.1.key = key) with
        | some (e, rcode, aa, ae) =>
          -- cache hit: the stored response with the current request's OPT
          (cache, outs ++ [e.body ++ "," ++ renderOpt q scope false ++ "@" ++ fx q cls (.cacheHit rcode aa ae)])
        | none =>
          let v : View := { backend := b, store := store, loc := loc.locID }
          match serve v { qname := qname, qnameOut := qnameOut, qtype := q.qtype, qclass := q.qclass,
                          maxAns := if q.maxAns = 0 then 1 else q.maxAns } with
          | .panic => (cache, outs ++ ["panic@@"])
          | .noReply => (cache, outs ++ ["noreply(rc=2)@" ++ fx q cls .noReply])
          | .failedReply =>
            (cache, outs ++ ["rc=2,aa=0,id=ok,q=same,an=[],ns=[],ar=[],none@" ++ fx q cls .handleFailed])
          | .reply r =>
            let (ian, _, iar) := implSections implR
            let aa := if r.aa then 1 else 0
            let body := s!"rc={r.rcode},aa={aa},id=ok,q=same,an={renderSection r.answer r.answerAddrs ian},"
              ++ s!"ns={renderSection r.ns [] []},ar={renderSection [] r.extra iar}"
            let answerEmpty : Bool := r.answer.isEmpty ∧ ¬ (r.answerAddrs.any fun g => g.cands.any fun c => c.weight > 0)
            let weighted : Bool := (r.answerAddrs.any fun g => g.cands.length > 1) ∨
              (r.extra.any fun g => g.cands.length > 1)
            let cache' := if r.rcode ≠ 5 ∧ ¬ weighted then cache ++ [({ key := key, body := body }, r.rcode, r.aa, answerEmpty)] else cache
            (cache', outs ++ [body ++ "," ++ renderOpt q scope false ++ "@" ++ fx q cls (.reply r.rcode r.aa answerEmpty)])
    let (_, outs) := queries.zipIdx.foldl step ([], [])
    "cdb:" ++ "~".intercalate outs


/-- `dflt <line>`: (type, ttl[, SOA serial and timers]) of every record of a line without explicit TTL;
the Spec side uses the documented literals, the model side the extracted constants -/
def dfltOp (line : Bytes) : Out :=
  let cfg : Cfg := { serial := serial, noRnetOutput := true, ranger := true }
  match convertLine cfg noSvcb line with
  | .error _ => { model := "err" }
  | .ok lo =>
    let pfx := line.headD 0
    let render (useSpec : Bool) : String :=
      ",".intercalate (lo.kvs.filterMap fun (_, v) =>
        match extractRR v false, extractRR v true with
        | .row r, _ | _, .row r =>
          let ttl := if useSpec then Spec.defaultTTL pfx r.qtype else r.ttl
          let base := s!"{r.qtype}:{ttl}"
          if r.qtype = 6 ∧ v.length ≥ 20 then
            let t := v.drop (v.length - 20)
            let word (i : Nat) : Nat := (rd32 (t.drop (4 * i))).getD 0
            let explicitSerial := word 0
            let timers := if useSpec then Spec.defaultSoaTimers else [word 1, word 2, word 3, word 4]
            some (base ++ s!"/{explicitSerial}" ++ "".intercalate (timers.map fun x => s!"/{x}"))
          else some base
        | _, _ => none)
    { model := render false, spec := "=" ++ render true }

def handle (st : St) (op : String) (args : List String) (impl : Option String) :
    Option (St × Out) :=
  match op, args with
  | "serve", [ls, qs] =>
    let (m, v) := serveOp false ls qs impl
    some (st, { model := m, spec := v })
  | "servecsc", [ls, qs] =>
    -- response cache on in the implementation; the cache is invisible (C12), same model
    let (m, v) := serveOp true ls qs impl
    some (st, { model := m, spec := v })
  | "servecs", [ls, qs] =>
    let (m, v) := serveOp true ls qs impl
    some (st, { model := m, spec := v })
  | "frame", [la, lb, qs] =>
    -- C04: the same queries against a file and its edit (records of foreign locations only)
    let (ia, ib) : Option String × Option String :=
      match impl with
      | some i =>
        match i.splitOn "}B{" with
        | [a, b] => (some ((a.drop 2).toString), some ((b.dropEnd 1).toString))
        | _ => (none, none)
      | none => (none, none)
    let (ma, va) := serveOp false la qs ia
    let (mb, vb) := serveOp false lb qs ib
    let v := if va.startsWith "FAIL" then va else if vb.startsWith "FAIL" then vb else if impl.isSome then "ok" else "-"
    some (st, { model := "A{" ++ ma ++ "}B{" ++ mb ++ "}", spec := v })
  | "loc", [ls, cs] =>
    some (st, locOp ls cs impl)
  | "locq", [ls, cs, q] =>
    (Bytes.ofHex q).map fun qn => (st, locOp ls cs impl qn)
  | "dflt", [l] =>
    (Bytes.ofHex l).map fun b => (st, dfltOp b)
  | "wildsafe", [] =>
    -- the model's byte classes, one digit per octet value
    some (st, { model := String.ofList ((List.range 256).map fun n =>
      if Name.wildsafeByte n.toUInt8 then '1' else '0') })
  | "servestats", [ls, qs] =>
    some (st, { model := serveStatsOp ls qs impl })
  | _, _ => none

end Driver.Serve
