import Driver.Common

/-!
C14 driver. The `race` op is exploration (a stress run of the real code, also built with -race):
there is nothing to compute on the model side — the decision for C14 is made by the kernel-checked
theorems of `DnsVerif.Props.C14` over the extracted lock table. The model output is the constant
`ok` (= no crash, no hang), so any other implementation outcome is a correspondence failure.
-/
namespace Driver.C14
open Driver

def handle (st : St) (op : String) (args : List String) (_impl : Option String) :
    Option (St × Out) :=
  match op, args with
  | "race", _backend :: _secs :: _workers :: _ => some (st, { model := "ok", spec := "=ok" })
  | _, _ => none

end Driver.C14
