import Driver.Common
import DnsVerif.Model.Pipeline
import DnsVerif.Model.CtxCache

/-! Driver for the `ctx` op (C02, the per-request context cache of the RocksDB reader):
`ctx <v1|v2> <hex lines ;> <lookups ;>`, lookups `g<keyhex>` (exact) / `c<keyhex>` (closest) / `G<keyhex>` (exact, the caller then
inverts every byte of its key buffer).
Model output `c=<cached results>#u=<uncached results>`: the CACHED results are those of the cache
model (`CtxCache.runCachedR`, the code after the repair of FindClosest/get), so implementation = model also where the cache misbehaves; the Spec
verdict is FAIL when the model's cached results differ from the uncached ones. Core only. -/

namespace Driver.C02ctx
open DnsVerif DnsVerif.Loc DnsVerif.Pipeline DnsVerif.CtxCache Driver

def fnv64a (b : Bytes) : UInt64 :=
  b.foldl (fun h x => (h ^^^ x.toUInt64) * 1099511628211) 14695981039346656037

def hex16 (x : UInt64) : String :=
  String.ofList ((List.range 16).map fun i => Bytes.hexDigit ((x >>> (UInt64.ofNat (4 * (15 - i)))).toNat % 16))

/-- `nil` | `<n>.<sum of the FNV-64a of the n values>` -/
def renderData (vals : List Bytes) : String :=
  if vals.isEmpty then "nil"
  else toString vals.length ++ "." ++ hex16 (vals.foldl (fun a v => a + fnv64a v) 0)

def renderResult : Result → String
  | .data d => "g:" ++ renderData d
  | .found k d => "c:" ++ Bytes.hex k ++ ":" ++ renderData d
  | .invalid => "c:!"

def parseLookup (t : String) : Option Lookup :=
  match t.toList with
  | 'g' :: r => (Bytes.ofHex (String.ofList r)).map Lookup.exact
  | 'c' :: r => (Bytes.ofHex (String.ofList r)).map Lookup.closest
  | 'G' :: r => (Bytes.ofHex (String.ofList r)).map fun k => Lookup.exactReused k (k.map (· ^^^ 0xff))
  | _ => none

def ctxOp (cls ls lk : String) : Out :=
  let b : Backend := if cls = "v2" then .rdbV2 else .rdbV1
  let lines := (ls.splitOn ";").filterMap Bytes.ofHex
  match compile b noSvcb lines with
  | none => { model := "compile-error" }
  | some store =>
    match (lk.splitOn ";").mapM parseLookup with
    | none => { model := "bad-lookup" }
    | some lookups =>
      let cached := (runCachedR store lookups).map renderResult
      let fresh := (runUncached store lookups).map renderResult
      let verdict :=
        match (cached.zip fresh).zipIdx.find? (fun (p, _) => p.1 ≠ p.2) with
        | some (p, i) => s!"FAIL:cache-not-transparent@{i}:cached={p.1},uncached={p.2}"
        | none => "ok"
      { model := "c=" ++ "~".intercalate cached ++ "#u=" ++ "~".intercalate fresh, spec := verdict }

def handle (st : St) (op : String) (args : List String) (_impl : Option String) : Option (St × Out) :=
  match op, args with
  | "ctx", [cls, ls, lk] => if cls = "v1" ∨ cls = "v2" then some (st, ctxOp cls ls lk) else none
  | _, _ => none

end Driver.C02ctx
