import Driver.Common
import DnsVerif.Model.Window
import DnsVerif.Spec.Stats

namespace Driver.C19
open DnsVerif.Window DnsVerif.Spec.Stats Driver

inductive PEv where
  | add (t : Nat) (v : Int)
  | query (t : Nat)

def parseEv (s : String) : Option PEv :=
  if s.startsWith "a" then
    match (s.drop 1).toString.splitOn "=" with
    | [t, v] => match t.toNat?, v.toInt? with
      | some t, some v => some (.add t v)
      | _, _ => none
    | _ => none
  else if s.startsWith "q" then (s.drop 1).toString.toNat?.map PEv.query
  else none

/-- the history seen by a query at planned time `q` (ms): all adds at or before `q`, interleaved with
the cleaner ticks at 1000, 2000, … ≤ q -/
def historyAt (evs : List PEv) (q : Nat) : List Ev :=
  let adds := evs.filterMap fun
    | .add t v => if t ≤ q then some (Ev.add v t) else none
    | .query _ => none
  let ticks := (List.range (q / 1000)).map fun k => Ev.tick ((k + 1) * 1000)
  -- merge by time (adds are already in time order; planned times never coincide with ticks)
  let all := adds ++ ticks
  (all.toArray.qsort (fun a b => a.time < b.time)).toList

def renderInts (l : List Int) : String := "[" ++ " ".intercalate (l.map toString) ++ "]"

def runCase (c : String) : String × List (Nat × Nat × List PEv) :=
  match c.splitOn ":" with
  | [l, body] =>
    let life := (l.drop 1).toString.toNat?.getD 0
    let evs := (body.splitOn ",").filterMap parseEv
    let qs := evs.filterMap fun | .query t => some t | _ => none
    let outs := qs.map fun q => s!"q{q}=" ++ renderInts (samples (run life (historyAt evs q)))
    (",".intercalate outs, qs.map fun q => (life, q, evs))
  | _ => ("bad", [])

/-- the property statement on the implementation's answer to one query: every sample still alive at
`q` is reported, nothing that was never added (no spurious zero), nothing that had expired before the
last tick at or before `q` -/
def specQuery (life q : Nat) (evs : List PEv) (reported : List Int) : Option String :=
  let added := evs.filterMap fun | .add t v => if t ≤ q then some (t, v) else none | _ => none
  let lastTick := (q / 1000) * 1000
  let mustHave := added.filter fun (t, _) => q < t + life
  let mustNot := added.filter fun (t, _) => t + life < lastTick
  if let some (_, v) := mustHave.find? (fun (_, v) => !reported.contains v) then some s!"FAIL:live-sample-{v}-missing@{q}"
  else if let some v := reported.find? (fun v => !(added.map (·.2)).contains v) then some s!"FAIL:never-added-value-{v}@{q}"
  else if let some (_, v) := mustNot.find? (fun (_, v) => reported.contains v) then some s!"FAIL:expired-sample-{v}-reported@{q}"
  else none

def parseReported (s : String) : List (Nat × List Int) :=
  -- "q1200=[5 7],q2200=[]"
  (s.splitOn ",").filterMap fun item =>
    match item.splitOn "=" with
    | [q, l] =>
      let inner := ((l.drop 1).toString.dropEnd 1).toString
      let vals := if inner = "" then [] else (inner.splitOn " ").filterMap String.toInt?
      (q.drop 1).toString.toNat?.map fun qn => (qn, vals)
    | _ => none

def handle (st : St) (op : String) (args : List String) (impl : Option String) :
    Option (St × Out) :=
  match op, args with
  | "win", [cs] =>
    let cases := cs.splitOn ";"
    let implCases := (impl.getD "").splitOn ";"
    let results : List (String × Option String) := cases.zipIdx.map fun (c, i) =>
      let im := implCases.getD i ""
      if im = "skip" then ("skip", none)
      else
        let (m, qs) := runCase c
        let rep := parseReported im
        let verdict := qs.findSome? fun (life, q, evs) =>
          match rep.find? (·.1 = q) with
          | some (_, vals) => specQuery life q evs vals
          | none => some s!"FAIL:no-answer@{q}"
        (m, verdict)
    let model := ";".intercalate (results.map (·.1))
    let spec := match results.findSome? (·.2) with
      | some f => f
      | none => if impl.isSome then "ok" else "-"
    some (st, { model := model, spec := spec })
  | "wconc", [_, _, _] =>
    -- any interleaving of whole operations is a timed history of the sequential model
    -- (`window_ops_atomic`), in which no live sample is lost, duplicated or invented (`window_spec`)
    some (st, { model := "lost=0,dup=0,phantom=0" })
  | "cconc", [_, _, _] =>
    -- `counter_sum`: a counter is the sum of its increments in every interleaving
    some (st, { model := "wrong=0" })
  | "getn", [gs] =>
    -- several metrics in one Stats: each export is that of its own samples
    let one (vs : String) : String :=
      let e := exportOf ((vs.splitOn ",").filterMap String.toInt?)
      s!"{e.min},{e.max},{e.avg}"
    some (st, { model := "|".intercalate ((gs.splitOn "|").map one) })
  | "get", [vs] =>
    if vs = "-" then some (st, { model := "none" })
    else
      let l := (vs.splitOn ",").filterMap String.toInt?
      let e := exportOf l
      some (st, { model := s!"{e.min},{e.max},{e.avg}" })
  | _, _ => none

end Driver.C19
