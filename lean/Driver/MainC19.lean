import Driver.Run
import Driver.C19
import Driver.Serve

def main : IO Unit :=
  Driver.runMain [Driver.C19.handle, Driver.Serve.handle]
