import DnsVerif.Props.C01
#print axioms DnsVerif.Props.C01.facts_match_spec
#print axioms DnsVerif.Props.C01.default_ttl_addr
#print axioms DnsVerif.Props.C01.default_ttl_ns
#print axioms DnsVerif.Props.C01.default_ttl_soa
#print axioms DnsVerif.Props.C01.default_ttl_dot
#print axioms DnsVerif.Props.C01.default_ttl_dot_noaddr
#print axioms DnsVerif.Props.C01.name_expansion_ns
#print axioms DnsVerif.Props.C01.name_expansion_mx
#print axioms DnsVerif.Props.C01.name_expansion_srv
#print axioms DnsVerif.Props.C01.name_expansion_dotted
#print axioms DnsVerif.Props.C01.extractRR_putrrhead
