import DnsVerif.Props.C18
#print axioms DnsVerif.Props.C18.keys_strictly_increasing
#print axioms DnsVerif.Props.C18.keys_strictly_increasing_wire
#print axioms DnsVerif.Props.C18.accepted_is_valid_declaration
#print axioms DnsVerif.Props.C18.decode_recovers_declared
#print axioms DnsVerif.Props.C18.mandatory_rejects
#print axioms DnsVerif.Props.C18.text_wire_idempotent_full_fails
#print axioms DnsVerif.Props.C18.text_wire_idempotent_partial
