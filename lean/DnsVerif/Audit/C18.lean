import DnsVerif.Props.C18
#print axioms DnsVerif.Props.C18.keys_strictly_increasing
#print axioms DnsVerif.Props.C18.keys_strictly_increasing_wire
#print axioms DnsVerif.Props.C18.decode_recovers_declared_partial
#print axioms DnsVerif.Props.C18.decode_recovers_declared_fails_dropped
#print axioms DnsVerif.Props.C18.decode_recovers_declared_fails_alpn
#print axioms DnsVerif.Props.C18.alpn_empty_id_wire_malformed
#print axioms DnsVerif.Props.C18.alpn_long_id_malformed_and_totext_panics
#print axioms DnsVerif.Props.C18.mandatory_rejects_partial
#print axioms DnsVerif.Props.C18.mandatory_rejects_full_fails
#print axioms DnsVerif.Props.C18.text_wire_idempotent_full_fails
