import DnsVerif.Props.C17
#print axioms DnsVerif.Props.C17.bunquote_bquote
#print axioms DnsVerif.Props.C17.bquote_no_comma_colon
#print axioms DnsVerif.Props.C17.bquote_no_newline
#print axioms DnsVerif.Props.C17.bquote_injective
