import DnsVerif.Props.C05
#print axioms DnsVerif.Props.C05.visibility
#print axioms DnsVerif.Props.C05.reload_installs
#print axioms DnsVerif.Props.C05.visibility_exact
#print axioms DnsVerif.Props.C05.partial_follows_last_switch
#print axioms DnsVerif.Props.C05.partial_targets_served
#print axioms DnsVerif.Props.C05.failed_reload_is_noop_partial
#print axioms DnsVerif.Props.C05.missing_path_is_noop
#print axioms DnsVerif.Props.C05.failed_reload_is_noop_new_instance
#print axioms DnsVerif.Props.C05.failed_reload_catchup_counterexample
#print axioms DnsVerif.Props.C05.generations_monotone
#print axioms DnsVerif.Props.C05.generations_monotone_by_qstart
#print axioms DnsVerif.Props.C05.single_generation_new_instance
#print axioms DnsVerif.Props.C05.single_generation_cdb
#print axioms DnsVerif.Props.C05.single_generation_catchup_counterexample
#print axioms DnsVerif.Props.C05.single_generation_partial
#print axioms DnsVerif.Props.C05.reload_and_acquire_exclude_each_other
