import DnsVerif.Props.C19
#print axioms DnsVerif.Props.C19.window_spec
#print axioms DnsVerif.Props.C19.window_only_added
#print axioms DnsVerif.Props.C19.window_keeps_live
#print axioms DnsVerif.Props.C19.export_spec
#print axioms DnsVerif.Props.C19.export_empty
#print axioms DnsVerif.Props.C19.query_and_type_counted_once
#print axioms DnsVerif.Props.C19.write_counters_truthful
#print axioms DnsVerif.Props.C19.outcome_counted_at_most_once
#print axioms DnsVerif.Props.C19.logged_once_iff_composed
#print axioms DnsVerif.Props.C19.cache_counter_follows_path
#print axioms DnsVerif.Props.C19.counter_sum
#print axioms DnsVerif.Props.C19.fixed_names_injective
#print axioms DnsVerif.Props.C19.window_ops_atomic
