import DnsVerif.Props.C19
#print axioms DnsVerif.Props.C19.window_spec
#print axioms DnsVerif.Props.C19.window_only_added
#print axioms DnsVerif.Props.C19.window_keeps_live
#print axioms DnsVerif.Props.C19.export_spec
#print axioms DnsVerif.Props.C19.export_empty
