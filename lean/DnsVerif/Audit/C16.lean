import DnsVerif.Props.C16
#print axioms DnsVerif.Props.C16.probe_find_all
#print axioms DnsVerif.Props.C16.buildTable_has_free
#print axioms DnsVerif.Props.C16.makeParse_dumpText
#print axioms DnsVerif.Props.C16.writeFile_size
#print axioms DnsVerif.Props.C16.find_written
#print axioms DnsVerif.Props.C16.find_written_hashfn
#print axioms DnsVerif.Props.C16.find_absent
#print axioms DnsVerif.Props.C16.find_in_order
#print axioms DnsVerif.Props.C16.find_no_leak
#print axioms DnsVerif.Props.C16.findNext_iterates
#print axioms DnsVerif.Props.C16.find_first
