import DnsVerif.Props.C16
#print axioms DnsVerif.Props.C16.probe_find_all
#print axioms DnsVerif.Props.C16.buildTable_has_free
#print axioms DnsVerif.Props.C16.makeParse_dumpText
