import DnsVerif.Props.C20
#print axioms DnsVerif.Props.C20.chain_transparent
#print axioms DnsVerif.Props.C20.chain_transparent_plain
#print axioms DnsVerif.Props.C20.any_refused
#print axioms DnsVerif.Props.C20.any_refused_content
#print axioms DnsVerif.Props.C20.any_refused_independent
#print axioms DnsVerif.Props.C20.no_question_failure
#print axioms DnsVerif.Props.C20.chain_no_panic
#print axioms DnsVerif.Props.C20.listener_no_question
#print axioms DnsVerif.Props.C20.listener_accepts
#print axioms DnsVerif.Props.C20.listener_header_only
#print axioms DnsVerif.Props.C20.whoamiMatch_iff
#print axioms DnsVerif.Props.C20.whoami_on_match
#print axioms DnsVerif.Props.C20.whoami_only_on_match
#print axioms DnsVerif.Props.C20.oversize_truncated
#print axioms DnsVerif.Props.C20.tcp_complete
#print axioms DnsVerif.Props.C20.any_hinfo_matches
