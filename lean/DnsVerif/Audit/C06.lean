import DnsVerif.Props.C06
#print axioms DnsVerif.Props.C06.life_all
#print axioms DnsVerif.Props.C06.quiescent_closed_once
#print axioms DnsVerif.Props.C06.acquire_atomic
#print axioms DnsVerif.Props.C06.reload_exclusive
