import DnsVerif.Props.C06
#print axioms DnsVerif.Props.C06.life_all
#print axioms DnsVerif.Props.C06.quiescent_closed_once
