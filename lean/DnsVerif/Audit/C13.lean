import DnsVerif.Props.C13
#print axioms DnsVerif.Props.C13.serve_v1_never_panics
#print axioms DnsVerif.Props.C13.v2KeysOk_of_canonical
#print axioms DnsVerif.Props.C13.serve_v2_never_panics_partial
#print axioms DnsVerif.Props.C13.findGo_never_panics
#print axioms DnsVerif.Props.C13.serve_v2_can_panic_on_malformed_store
#print axioms DnsVerif.Props.C13.serve_v2_can_panic_on_overlong_label
#print axioms DnsVerif.Props.C13.reply_shape
#print axioms DnsVerif.Props.C13.v2KeysOk_of_V2Canonical
#print axioms DnsVerif.Props.C13.v2Canonical_of_canonical
#print axioms DnsVerif.Props.C13.serve_v2_never_panics
#print axioms DnsVerif.Props.C13.serve_v2_reply_or_none
#print axioms DnsVerif.Props.C13.serve_v2_outcome_is_v1
