import DnsVerif.Props.C11
#print axioms DnsVerif.Props.C11.wrs_topk
#print axioms DnsVerif.Props.C11.wrs_tie_newcomer_loses
#print axioms DnsVerif.Props.C11.wrs_single_first_max
#print axioms DnsVerif.Props.C11.wrs_sound
#print axioms DnsVerif.Props.C11.wrs_sound_mem
#print axioms DnsVerif.Props.C11.wrs_bounded
#print axioms DnsVerif.Props.C11.fam_count
#print axioms DnsVerif.Props.C11.wrs_count
#print axioms DnsVerif.Props.C11.weight0_never_served
#print axioms DnsVerif.Props.C11.answer_spec
#print axioms DnsVerif.Props.C11.zero_weight_only
#print axioms DnsVerif.Props.C11.zero_weight_name_exists
#print axioms DnsVerif.Props.C11.weighted_flag
#print axioms DnsVerif.Props.C11.additional_max_one
#print axioms DnsVerif.Props.C11.count_full
#print axioms DnsVerif.Props.C11.es_single_winner
