import DnsVerif.Props.C08
#print axioms DnsVerif.Props.C08.compile_represents
#print axioms DnsVerif.Props.C08.compileFile_represents
#print axioms DnsVerif.Props.C08.applyRecs_eq_compile
#print axioms DnsVerif.Props.C08.applyDiff_eq_applyRecs
#print axioms DnsVerif.Props.C08.applyDiff_eq_compile
#print axioms DnsVerif.Props.C08.applyDiff_eq_fresh_compile
#print axioms DnsVerif.Props.C08.diff_wellformed
#print axioms DnsVerif.Props.C08.applyDiff_chain
#print axioms DnsVerif.Props.C08.applyDiff_all_or_nothing_malformed
#print axioms DnsVerif.Props.C08.applyDiff_all_or_nothing
#print axioms DnsVerif.Props.C08.applyDiff_absent_record_fails
#print axioms DnsVerif.Props.C08.applyDiff_order_irrelevant
#print axioms DnsVerif.Props.C08.applyDiff_order_irrelevant_error
#print axioms DnsVerif.Props.C08.applyDiff_eq_compile_rawLines
#print axioms DnsVerif.Props.C08.diff_wellformed_rawLines
#print axioms DnsVerif.Props.C08.applyDiff_eq_compile_rawLines_of_files
