import DnsVerif.Props.C15
#print axioms DnsVerif.Props.C15.decode_encode
#print axioms DnsVerif.Props.C15.delValue_encode
#print axioms DnsVerif.Props.C15.R_empty
#print axioms DnsVerif.Props.C15.forEach_refines
#print axioms DnsVerif.Props.C15.add_refines
#print axioms DnsVerif.Props.C15.del_refines
#print axioms DnsVerif.Props.C15.batch_refines
#print axioms DnsVerif.Props.C15.history_refines
