import DnsVerif.Props.C09

#print axioms DnsVerif.Props.C09.convertLine_factors
#print axioms DnsVerif.Props.C09.fields_resplit
#print axioms DnsVerif.Props.C09.quoted_field_has_no_separator
#print axioms DnsVerif.Props.C09.parse_marshal
#print axioms DnsVerif.Props.C09.compile_marshal_parse
#print axioms DnsVerif.Props.C09.marshal_idempotent
#print axioms DnsVerif.Props.C09.text_normal_form_partial
#print axioms DnsVerif.Props.C09.text_normal_form_full_false
#print axioms DnsVerif.Props.C09.parse_marshal_norm
#print axioms DnsVerif.Props.C09.compile_marshal_parse_norm
#print axioms DnsVerif.Props.C09.marshal_idempotent_norm
#print axioms DnsVerif.Props.C09.parse_yields_struct
#print axioms DnsVerif.Props.C09.name_writers_normalise
#print axioms DnsVerif.Props.C09.text_normal_form
#print axioms DnsVerif.Props.C09.text_normal_form_dns
#print axioms DnsVerif.Props.C09.asciiPrint_printsAscii
#print axioms DnsVerif.Props.C09.ok_of_toOption
#print axioms DnsVerif.Props.C09.rangepoint_text_roundtrip
#print axioms DnsVerif.Props.C09.accumulator_line_compiles
#print axioms DnsVerif.Props.C09.sameMultiset_self
#print axioms DnsVerif.Props.C09.preprocess_preserves_of_rewrite
#print axioms DnsVerif.Props.C09.preprocess_preserves_compile
#print axioms DnsVerif.Props.C09.preprocess_preserves_compile_norm
#print axioms DnsVerif.Props.C09.preprocess_preserves_compile_full_false
