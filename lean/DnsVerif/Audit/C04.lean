import DnsVerif.Props.C04
#print axioms DnsVerif.Props.C04.spec_frame
#print axioms DnsVerif.Props.C04.spec_foreign_edit_invariant
#print axioms DnsVerif.Props.C04.serve_v1_frame
#print axioms DnsVerif.Props.C04.st1_st2_agree
#print axioms DnsVerif.Props.C04.serve_v2_frame
#print axioms DnsVerif.Props.C04.vs1_vs2_agree
#print axioms DnsVerif.Props.C04.v2A_v2B_agree
#print axioms DnsVerif.Props.C04.v2A_v2B_same
