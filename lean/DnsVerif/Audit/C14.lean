import DnsVerif.Props.C14
#print axioms DnsVerif.Props.C14.lockset_no_race
#print axioms DnsVerif.Props.C14.table_guarded_except_known
#print axioms DnsVerif.Props.C14.no_race_except_known
#print axioms DnsVerif.Props.C14.known_unguarded_are_real
#print axioms DnsVerif.Props.C14.known_unguarded_race
#print axioms DnsVerif.Props.C14.table_guarded
#print axioms DnsVerif.Props.C14.table_no_race
#print axioms DnsVerif.Props.C14.table_covers_fields
#print axioms DnsVerif.Props.C14.lock_order_acyclic
#print axioms DnsVerif.Props.C14.threeParty_iff
#print axioms DnsVerif.Props.C14.no_three_party_wait
