import DnsVerif.Props.C12
#print axioms DnsVerif.Props.C12.model_key_format
#print axioms DnsVerif.Props.C12.cacheKey_injective
#print axioms DnsVerif.Props.C12.cacheKey_old_format_collides
#print axioms DnsVerif.Props.C12.cache_entry_current
#print axioms DnsVerif.Props.C12.no_stale_after_reload
#print axioms DnsVerif.Props.C12.cache_invisible_seq
#print axioms DnsVerif.Props.C12.keyDetermines_of_components
#print axioms DnsVerif.Props.C12.old_protocol_stale
#print axioms DnsVerif.Props.C12.cache_key_format_matches
#print axioms DnsVerif.Props.C12.serve_depends_on_key
#print axioms DnsVerif.Props.C12.serve_depends_on_key_exact
#print axioms DnsVerif.Props.C12.weighted_depends_on_key
#print axioms DnsVerif.Props.C12.keyDetermines_serve
#print axioms DnsVerif.Props.C12.no_stale_after_reload_serve
#print axioms DnsVerif.Props.C12.cache_invisible_seq_serve
