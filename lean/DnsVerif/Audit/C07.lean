import DnsVerif.Props.C07

#print axioms DnsVerif.Props.C07.parse_order_irrelevant
#print axioms DnsVerif.Props.C07.arrival_eq_spec
#print axioms DnsVerif.Props.C07.createBuckets_partition
#print axioms DnsVerif.Props.C07.createBuckets_no_split
#print axioms DnsVerif.Props.C07.builder_eq_spec
#print axioms DnsVerif.Props.C07.batches_eq_spec
#print axioms DnsVerif.Props.C07.cdb_eq_spec
#print axioms DnsVerif.Props.C07.compile_error_iff
#print axioms DnsVerif.Props.C07.compile_config_independent
