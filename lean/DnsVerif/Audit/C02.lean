import DnsVerif.Props.C02
#print axioms DnsVerif.Props.C02.O1_ancestor_below
#print axioms DnsVerif.Props.C02.O2_same_name
#print axioms DnsVerif.Props.C02.O3_sandwich
#print axioms DnsVerif.Props.C02.O4_commonPrefix
#print axioms DnsVerif.Props.C02.O4_lengthWithoutLastLabel
#print axioms DnsVerif.Props.C02.findMapSorted_eq_findMapV1
#print axioms DnsVerif.Props.C02.findMapSorted_spec
#print axioms DnsVerif.Props.C02.skip_lemma
#print axioms DnsVerif.Props.C02.seek_delivers_skip_hypothesis
#print axioms DnsVerif.Props.C02.findGo_single_step
#print axioms DnsVerif.Props.C02.findGo_pre_stop
#print axioms DnsVerif.Props.C02.isAuthoritativeV2_agrees_V1
#print axioms DnsVerif.Props.C02.isAuthoritativeV2_eq_V1_partial
#print axioms DnsVerif.Props.C02.isAuthoritativeV2_eq_V1_literal_false
#print axioms DnsVerif.Props.C02.marker_order_facts
#print axioms DnsVerif.Props.C02.featuresKey_above
