/-
C19 — Exported statistics tell the truth (sampled metrics part).

Property theorems only; helper lemmas go to `Proofs/Window.lean`.
-/
import DnsVerif.Proofs.Window
import DnsVerif.Props.C19b
import DnsVerif.Generated.Facts

namespace DnsVerif.Props.C19
open DnsVerif.Window DnsVerif.Spec.Stats

/-- For every timed history of `Add`s and cleaner ticks with a monotone clock, the window holds
exactly the samples that had not expired at the last tick, in order: a sample is reported until it
expires and not after, and nothing else is ever reported. -/
theorem window_spec (life : Nat) (evs : List Ev) (h : Monotone evs) :
    samples (run life evs) = expected life evs := by
  rw [run_eq_filter life evs h, samples_filter_addsOf]
  rfl

/-- no value that was never added ever appears (in particular no spurious zero) -/
theorem window_only_added (life : Nat) (evs : List Ev) :
    ∀ v ∈ samples (run life evs), ∃ t, Ev.add v t ∈ evs := by
  intro v hv
  obtain ⟨s, hs, rfl⟩ := List.mem_map.mp hv
  obtain ⟨t, ht, _⟩ := mem_addsOf ((run_sublist life evs).subset hs)
  exact ⟨t, ht⟩

/-- a sample that has not expired at the time of the latest tick is still reported -/
theorem window_keeps_live (life : Nat) (evs : List Ev) (h : Monotone evs) (v : Int) (t : Nat)
    (hm : Ev.add v t ∈ evs) (hl : lastTick evs ≤ t + life) : v ∈ samples (run life evs) := by
  rw [window_spec life evs h]
  unfold expected
  rw [List.mem_filterMap]
  exact ⟨.add v t, hm, by simp [hl]⟩

/-! ### the window operations are atomic

`window_spec` is about histories of *whole* operations. It speaks about the code only if each of
`cleaner`'s tick, `Add` and `Samples` is one critical section of the window's mutex: the trace of
lock operations and accesses to `samples` in each body is re-extracted from `metrics/swindow.go`
on every run. -/

/-- a body is one critical section: exactly one exclusive acquisition, no shared one, and every
access to the protected field happens while it is held -/
def oneSection (tr : List String) : Bool :=
  let rec go (tr : List String) (held deferred : Bool) (acqs : Nat) : Bool :=
    match tr with
    | [] => acqs == 1 && (held == deferred)     -- released at the end iff the unlock was deferred
    | "Lock" :: r => !held && go r true deferred (acqs + 1)
    | "deferUnlock" :: r => held && !deferred && go r held true acqs
    | "Unlock" :: r => held && !deferred && go r false deferred acqs
    | "R" :: r => held && go r held deferred acqs
    | "W" :: r => held && go r held deferred acqs
    | _ => false                                   -- RLock/RUnlock or anything unknown
  go tr false false 0

theorem window_ops_atomic :
    oneSection Generated.swindow_cleaner_trace = true ∧ oneSection Generated.swindow_Add_trace = true ∧
    oneSection Generated.swindow_Samples_trace = true := by decide

/-- the split cleaner (scan on a snapshot under the shared lock, swap under the exclusive lock) is
not one critical section -/
example : oneSection ["RLock", "R", "RUnlock", "R", "R", "Lock", "W", "Unlock"] = false := by decide

/-- min, max and average are those of the samples: min and max are attained and bound every
sample, the average is the truncated quotient of the sum and lies between them -/
theorem export_spec (l : List Int) (h : l ≠ []) :
    (exportOf l).min ∈ l ∧ (exportOf l).max ∈ l ∧
    (∀ x ∈ l, (exportOf l).min ≤ x ∧ x ≤ (exportOf l).max) ∧
    (exportOf l).avg = Int.tdiv l.sum l.length ∧
    (exportOf l).min ≤ (exportOf l).avg ∧ (exportOf l).avg ≤ (exportOf l).max := by
  have hp := sortInts_perm l
  have hsorted := sortInts_sorted l
  cases hs : sortInts l with
  | nil => rw [hs] at hp; exact absurd hp.symm.eq_nil h
  | cons x xs =>
    rw [hs] at hp hsorted
    rw [exportOf_of_sort hs]
    have hmin : ∀ y ∈ x :: xs, x ≤ y := by
      intro y hy
      rcases List.mem_cons.mp hy with rfl | hy
      · exact Int.le_refl _
      · exact (List.pairwise_cons.mp hsorted).1 y hy
    have hmax := le_getLast_of_sorted (x :: xs) (by simp) hsorted
    have hlen : (0 : Int) < ((x :: xs).length : Int) := by simp only [List.length_cons]; omega
    refine ⟨hp.mem_iff.mp (by simp), hp.mem_iff.mp (List.getLast_mem _), ?_, ?_, ?_, ?_⟩
    · intro y hy
      have hy' := hp.mem_iff.mpr hy
      exact ⟨hmin y hy', hmax y hy'⟩
    · show Int.tdiv (x :: xs).sum (x :: xs).length = Int.tdiv l.sum l.length
      rw [perm_sum_int hp, hp.length_eq]
    · exact Int.le_tdiv_of_mul_le hlen (mul_length_le_sum _ _ hmin)
    · exact tdiv_le_of_le_mul_pos hlen (sum_le_mul_length _ _ hmax)

theorem export_empty : exportOf [] = { min := 0, max := 0, avg := 0 } := by
  rfl

/-- non-vacuity: the history that exposed the original cleaner defect (lifetime 1.5 s; 5 @0, 7 and 9
@0.9 s, tick @2.0 s): 7 and 9 live until 2.4 s and must still be reported -/
example : samples (run 1500 [.add 5 0, .add 7 900, .add 9 900, .tick 1000, .tick 2000]) = [7, 9] := by
  decide

end DnsVerif.Props.C19
