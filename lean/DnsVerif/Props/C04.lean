/-
C04 — A client sees its own location's records plus untagged ones, nothing else.

* Spec level: `Spec.answer` for location `l` is a function of the records visible to `l` only
  (`spec_frame`, `spec_foreign_edit_invariant`).
* Model level, v1 key layouts (CDB, RocksDB v1 keys): every response of `Serve.serve` for a client
  at location `l` is unchanged when keys tagged with any other location are added, changed or
  deleted (`serve_v1_frame`) — full strength, arbitrary stores.
* v2 key layout: the same frame property (`serve_v2_frame`), for stores with canonical keys and
  well-formed *visible* rows, through `serve v2 = serve v1` (C02). Before the repair of the v2
  `IsAuthoritative` (zone cut when no NS is on the path) it was false; the former witness is kept
  as an example of the theorem.

Property theorems only; lemmas are in `Proofs/ServeSafety.lean`, `Proofs/ServeV2.lean`.
-/
import DnsVerif.Proofs.ServeSafety
import DnsVerif.Proofs.ServeV2

namespace DnsVerif.Props.C04
open DnsVerif DnsVerif.Name DnsVerif.Loc DnsVerif.Serve DnsVerif.ServeSafety

/-! ### 1. the specification looks at visible records only -/

/-- Dropping every record that is not visible to `l` does not change the answer for `l`. -/
theorem spec_frame (z : Spec.Zone) (q : List Bytes) (qtype qclass maxAns : Nat) (l : Bytes) :
    Spec.answer { z with recs := z.recs.filter (Spec.visible l) } q qtype qclass maxAns l =
      Spec.answer z q qtype qclass maxAns l :=
  spec_frame' z q qtype qclass maxAns l

/-- Two zones with the same records visible to `l` (whatever their foreign-location records, maps
and subnets are) give location `l` the same answers. -/
theorem spec_foreign_edit_invariant (z₁ z₂ : Spec.Zone) (q : List Bytes) (qtype qclass maxAns : Nat)
    (l : Bytes) (h : z₁.recs.filter (Spec.visible l) = z₂.recs.filter (Spec.visible l)) :
    Spec.answer z₁ q qtype qclass maxAns l = Spec.answer z₂ q qtype qclass maxAns l := by
  rw [← spec_frame z₁, ← spec_frame z₂, h]
  rfl

/-! non-vacuity: a zone `b.` with an untagged, an `xx` and a `yy` address at `a.b.`; location `xx`
is answered from two of them, and removing or changing the `yy` record changes nothing -/

def recNS : Spec.Rec := ⟨[[98]], false, [0,0], 2, 60, 0, [1,110,0]⟩
def recSOA : Spec.Rec := ⟨[[98]], false, [0,0], 6, 60, 0, [1,110,0,1,104,0]⟩
def recA (loc : Bytes) (x : UInt8) : Spec.Rec := ⟨[[97],[98]], false, loc, 1, 30, 1, [10,0,0,x]⟩
def zone1 : Spec.Zone := ⟨[recNS, recSOA, recA [0,0] 1, recA [120,120] 2, recA [121,121] 3], [], []⟩
def zone2 : Spec.Zone := ⟨[recNS, recSOA, recA [0,0] 1, recA [120,120] 2, recA [122,122] 9, recA [121,121] 7], [], []⟩

example : (Spec.answer zone1 [[97],[98]] 1 1 1 [120,120]).answerAddrs =
    [⟨[[97],[98]], 1, 1, [(30, 1, [10,0,0,1]), (30, 1, [10,0,0,2])], 1⟩] := by decide +kernel
example : Spec.answer zone1 [[97],[98]] 1 1 1 [120,120] = Spec.answer zone2 [[97],[98]] 1 1 1 [120,120] :=
  spec_foreign_edit_invariant zone1 zone2 _ _ _ _ _ (by decide)
/-- the hypothesis matters: location `yy` does see the difference -/
example : (Spec.answer zone1 [[97],[98]] 1 1 1 [121,121]).answerAddrs ≠
    (Spec.answer zone2 [[97],[98]] 1 1 1 [121,121]).answerAddrs := by decide +kernel

/-! ### 2. the v1 key layouts -/

/-- the two stores hold the same values under every key that carries location `l` or no location
(the first two bytes of a v1 resource-record key are the location tag) -/
def AgreeOn (l : Bytes) (s₁ s₂ : Store) : Prop :=
  ∀ k : Bytes, (k.take 2 = l ∨ k.take 2 = [0, 0]) → s₁.get k = s₂.get k

/-- v1 layouts: records tagged with any other location can be added, changed or deleted without
changing any response to a client at location `l`. Arbitrary stores, every query. -/
theorem serve_v1_frame (b : Backend) (s₁ s₂ : Store) (l : Bytes) (q : Query)
    (hb : b ≠ .rdbV2) (hl : l.length = 2) (h : AgreeOn l s₁ s₂) :
    serve ⟨b, s₁, l⟩ q = serve ⟨b, s₂, l⟩ q :=
  serve_frame hl h hb q

/-! non-vacuity: the store of `Props/C13` (addresses at `a.b.` for no location, `xx`, `yy`) and the
same store with the `yy` key replaced and a `zz` key added -/

def nsRow : Bytes := [0,2,0x3d, 0,0,0,60, 0,0,0,0,0,0,0,0, 1,110,0]
def soaRow : Bytes := [0,6,0x3d, 0,0,0,60, 0,0,0,0,0,0,0,0, 1,110,0,1,104,0, 0,0,0,1, 0,0,0,2, 0,0,0,3,
  0,0,0,4, 0,0,0,5]
def aRow (x : UInt8) : Bytes := [0,1,0x3d, 0,0,0,30, 0,0,0,0,0,0,0,0, 0,0,0,1, 10,0,0,x]
def st1 : Store :=
  [([0,0,1,98,0], [nsRow, soaRow]), ([0,0,1,97,1,98,0], [aRow 1]),
   ([120,120,1,97,1,98,0], [aRow 2]), ([121,121,1,97,1,98,0], [aRow 3])]
def st2 : Store :=
  [([122,122,1,98,0], [nsRow]), ([0,0,1,98,0], [nsRow, soaRow]), ([0,0,1,97,1,98,0], [aRow 1]),
   ([120,120,1,97,1,98,0], [aRow 2]), ([121,121,1,97,1,98,0], [aRow 7, aRow 8])]
def qA : Query := { qname := [1,97,1,98,0], qnameOut := [1,97,1,98,0], qtype := 1, qclass := 1, maxAns := 1 }

theorem st1_st2_agree : AgreeOn [120,120] st1 st2 := by
  intro k hk
  have h1 : ¬ ([121,121,1,97,1,98,0] = k) := by intro h; subst h; revert hk; decide
  have h2 : ¬ ([122,122,1,98,0] = k) := by intro h; subst h; revert hk; decide
  simp only [st1, st2, get_cons, if_neg h1, if_neg h2]

example : serve ⟨.rdbV1, st1, [120,120]⟩ qA = serve ⟨.rdbV1, st2, [120,120]⟩ qA :=
  serve_v1_frame _ _ _ _ _ (by decide) rfl st1_st2_agree
/-- and the reply is a real one (two candidates: the `xx` and the untagged address) -/
example : serve ⟨.rdbV1, st1, [120,120]⟩ qA = .reply
    { rcode := 0, aa := true, answer := [],
      answerAddrs := [⟨[1,97,1,98,0], 1, 1, [⟨30, 1, [10,0,0,2]⟩, ⟨30, 1, [10,0,0,1]⟩], 1⟩],
      ns := [], extra := [] } := by decide +kernel
/-- the hypothesis matters: location `yy` is answered differently by the two stores -/
example : serve ⟨.rdbV1, st1, [121,121]⟩ qA ≠ serve ⟨.rdbV1, st2, [121,121]⟩ qA := by decide +kernel

/-! ### 3. the v2 key layout -/

/-- two v2 stores hold the same entries under every resource-record key whose location (its last
two bytes) is `l` or none, and the same entries under every key that is not a resource-record key:
they differ only in resource records of other locations -/
def AgreeOnV2 (l : Bytes) (s₁ s₂ : Store) : Prop :=
  ∀ k : Bytes, (k.take 2 ≠ Generated.dnsdata_ResourceRecordsKeyMarker ∨
      k.drop (k.length - 2) = l ∨ k.drop (k.length - 2) = [0, 0]) →
    s₁.get k = s₂.get k ∧ (s₁.any (·.1 = k) = s₂.any (·.1 = k))

/-- **v2 layout: records tagged with any other location can be added, changed or deleted without
changing any response to a client at location `l`.**

Why this is harder than v1: with v1 keys every lookup is an exact `get` on `l ++ name` or
`[0,0] ++ name`, so foreign keys are never touched. With v2 keys the location is the key's *suffix*
and the search is `SeekForPrev`: keys of other locations are neighbours in key order of the keys
looked for, and they ARE returned by the seek. They decide whether the second, untagged lookup is
made and from which key the next search level is computed; with a foreign key below the search key
the walk visits levels it would otherwise jump over. The proof goes through the v1 layout: on
canonical keys the v2 handler equals the v1 handler over the derived v1 store
(`Props.C02.serve_v2_eq_v1`, which rests on the literal equality of the two `IsAuthoritative`s),
and the v1 handler has the frame property (`serve_v1_frame`).

Before the commit "fix: v2 IsAuthoritative reports the root…" the statement was FALSE: for a zone
with an SOA but no NS, the v2 `IsAuthoritative` reported the last level visited as zone cut, a
foreign key made the walk visit one more level, and `FindSOA` then looked for the SOA elsewhere
(stores `v2A` / `v2B` below: a client at `xx` asking `b.a. A` got the SOA in the authority section
from `v2A` and an empty authority section from `v2B`; confirmed on the real code at the time).

Hypotheses: canonical keys in both stores (`V2Canonical`: every key under the marker is
`marker ++ pack reversed-owner ++ 2-byte location` with labels of 1…255 bytes, or the features key);
the rows *visible to `l`* parse without panic and have NS / MX targets that lower-case to wire names
(`StoreRowsOKAt`, see `Props.C02.serve_v2_eq_v1`) — nothing is asked of the foreign rows, they may
be malformed; the request name is `pack q` with labels of 1…63 bytes, at most 255 octets, and the
name as asked lower-cases to it. All decidable. -/
theorem serve_v2_frame (s₁ s₂ : Store) (l : Bytes) (rq : Query) (q : List Bytes)
    (hl : l.length = 2) (hc1 : ServeV2.V2Canonical s₁) (hc2 : ServeV2.V2Canonical s₂)
    (h : AgreeOnV2 l s₁ s₂) (hr1 : ServeV2.StoreRowsOKAt s₁ l) (hr2 : ServeV2.StoreRowsOKAt s₂ l)
    (hq : RevOrder.NameOK64 q) (hlen : (pack q).length ≤ 255) (hqn : rq.qname = pack q)
    (hqo : toLower rq.qnameOut = rq.qname) :
    serve ⟨.rdbV2, s₁, l⟩ rq = serve ⟨.rdbV2, s₂, l⟩ rq := by
  refine ServeV2.serve_v2_frame' s₁ s₂ hl hc1 hc2 (fun a loc _ hloc => ?_) hr1 hr2 q hq (by omega) rq hqn hqo
  have hll : loc.length = 2 := by rcases hloc with e | e <;> rw [e] <;> first | exact hl | rfl
  have hsuf : (RevOrder.Key a loc).drop ((RevOrder.Key a loc).length - 2) = loc := by
    have e : RevOrder.Key a loc = (RevOrder.marker ++ pack a) ++ loc := by simp [RevOrder.Key, RevOrder.K]
    rw [e, List.length_append, hll, Nat.add_sub_cancel]
    exact List.drop_left
  exact (h _ (Or.inr (by rw [hsuf]; exact hloc))).1

/-! non-vacuity: the v2 counterparts of `st1` / `st2` (the `yy` key replaced, a `zz` NS added) -/

def vs1 : Store :=
  [(RevOrder.Key [[98]] [0,0], [nsRow, soaRow]), (RevOrder.Key [[98],[97]] [0,0], [aRow 1]),
   (RevOrder.Key [[98],[97]] [120,120], [aRow 2]), (RevOrder.Key [[98],[97]] [121,121], [aRow 3]),
   (Generated.dnsdata_FeaturesKey, [[2,0,0,0]])]
def vs2 : Store :=
  [(RevOrder.Key [[98]] [122,122], [nsRow]), (RevOrder.Key [[98]] [0,0], [nsRow, soaRow]),
   (RevOrder.Key [[98],[97]] [0,0], [aRow 1]), (RevOrder.Key [[98],[97]] [120,120], [aRow 2]),
   (RevOrder.Key [[98],[97]] [121,121], [aRow 7, [1]]), (Generated.dnsdata_FeaturesKey, [[2,0,0,0]])]

theorem vs1_vs2_agree : AgreeOnV2 [120,120] vs1 vs2 := by
  intro k hk
  have h1 : ¬ (RevOrder.Key [[98],[97]] [121,121] = k) := by intro h; subst h; revert hk; decide
  have h2 : ¬ (RevOrder.Key [[98]] [122,122] = k) := by intro h; subst h; revert hk; decide
  constructor
  · simp only [vs1, vs2, get_cons, if_neg h1, if_neg h2]
  · simp [vs1, vs2, h1, h2]

example : serve ⟨.rdbV2, vs1, [120,120]⟩ qA = serve ⟨.rdbV2, vs2, [120,120]⟩ qA :=
  serve_v2_frame vs1 vs2 [120,120] qA [[97],[98]] rfl (by decide +kernel) (by decide +kernel) vs1_vs2_agree
    (by decide +kernel) (by decide +kernel) (by decide) (by decide) rfl rfl
/-- and the reply is a real one (the `xx` and the untagged address) -/
example : serve ⟨.rdbV2, vs1, [120,120]⟩ qA = .reply
    { rcode := 0, aa := true, answer := [],
      answerAddrs := [⟨[1,97,1,98,0], 1, 1, [⟨30, 1, [10,0,0,2]⟩, ⟨30, 1, [10,0,0,1]⟩], 1⟩],
      ns := [], extra := [] } := by decide +kernel
/-- the hypothesis matters: location `yy` is answered differently by the two stores -/
example : serve ⟨.rdbV2, vs1, [121,121]⟩ qA ≠ serve ⟨.rdbV2, vs2, [121,121]⟩ qA := by decide +kernel

/-! The former counterexample (found by random search over compiled databases, confirmed on the
real code before the fix): data file A is `Zb.a,m.b.a,h.b.a,1,2,3,4,5,60,,xx` (an SOA for `b.a.`
visible to location `xx`, no NS anywhere), data file B is A plus `+a,10.0.0.48,30,,yy` (an address
for `a.` visible to location `yy` only). The stores below are exactly what the compiler produces
for them with v2 keys. They now fall under `serve_v2_frame`. -/

def soaXX : Bytes := [0,6,62,120,120, 0,0,0,60, 0,0,0,0,0,0,0,0, 1,109,1,98,1,97,0, 1,104,1,98,1,97,0,
  0,0,0,1, 0,0,0,2, 0,0,0,3, 0,0,0,4, 0,0,0,5]
def aYY : Bytes := [0,1,62,121,121, 0,0,0,30, 0,0,0,0,0,0,0,0, 0,0,0,1, 10,0,0,48]
def v2A : Store :=
  [([0,111,1,97,1,98,0,120,120], [soaXX]), (Generated.dnsdata_FeaturesKey, [[2,0,0,0]])]
def v2B : Store :=
  [([0,111,1,97,1,98,0,120,120], [soaXX]), ([0,111,1,97,0,121,121], [aYY]),
   (Generated.dnsdata_FeaturesKey, [[2,0,0,0]])]
def qBA : Query := { qname := [1,98,1,97,0], qnameOut := [1,98,1,97,0], qtype := 1, qclass := 1, maxAns := 1 }

theorem v2A_v2B_agree : AgreeOnV2 [120,120] v2A v2B := by
  intro k hk
  have h2 : ¬ ([0,111,1,97,0,121,121] = k) := by intro h; subst h; revert hk; decide
  constructor
  · simp only [v2A, v2B, get_cons, if_neg h2]
  · simp [v2A, v2B, h2]

theorem v2A_v2B_same : serve ⟨.rdbV2, v2A, [120,120]⟩ qBA = serve ⟨.rdbV2, v2B, [120,120]⟩ qBA :=
  serve_v2_frame v2A v2B [120,120] qBA [[98],[97]] rfl (by decide +kernel) (by decide +kernel) v2A_v2B_agree
    (by decide +kernel) (by decide +kernel) (by decide) (by decide) rfl rfl

/-- both now answer NODATA with an empty authority section (the zone cut is the root, where there
is no SOA), as the v1 layout always did -/
example : serve ⟨.rdbV2, v2A, [120,120]⟩ qBA = .reply
    { rcode := 0, aa := true, answer := [], answerAddrs := [], ns := [], extra := [] } := by decide +kernel

/-- The same statement for stores that only satisfy `V2KeysOk` (the hypothesis of C13: a key under
the marker *starts* with a wire name, anything may follow) and arbitrary rows. NOT proved and not
refuted (no counterexample in the random search after the fix). What `serve_v2_frame` lacks for
it: keys that are not canonical (bytes between the name and the location, labels of the stored
name that the seek order does not separate), and visible rows that panic / targets with labels
over 64 bytes — for those the detour through the v1 layout is not available. -/
def serve_v2_frame_full : Prop :=
  ∀ (s₁ s₂ : Store) (l : Bytes) (q : Query) (ls : List Bytes),
    l.length = 2 → V2KeysOk s₁ → V2KeysOk s₂ → AgreeOnV2 l s₁ s₂ →
    Name.unpack q.qname = some ls → (∀ lab ∈ ls, lab.length < 64) →
    serve ⟨.rdbV2, s₁, l⟩ q = serve ⟨.rdbV2, s₂, l⟩ q

end DnsVerif.Props.C04
