/-
C13 — Any query gets a well-formed reply or none; the server never panics.

`Serve.serve` is the model of `ServeDNSWithRCODE` after the location step; outcome `.panic` is a Go
run-time panic of the handler goroutine. Property theorems only; the lemmas are in
`Proofs/ServeSafety.lean`.

* v1 key layouts (CDB, RocksDB with v1 keys): no panic for EVERY store content, every location and
  every wire-valid query name — full strength.
* v2 key layout: no panic under `V2KeysOk` (a decidable predicate on the keys of the store that
  carry the resource-record marker); without it the handler can panic, witness below.
* every reply has rcode 0, 3 or 5 and the sections fit the rcode / AA bit — every backend, every
  store, no hypothesis.
* v2, canonical stores (`V2Canonical`, the store predicate of C02's `serve_v2_eq_v1Of`; every compiled
  v2 database): `serve_v2_never_panics` / `serve_v2_reply_or_none` with no hypothesis on rows,
  location or `qnameOut`; `serve_v2_outcome_is_v1` re-derives it through `serve_v2_eq_v1Of` and
  `serve_v1_never_panics`.
-/
import DnsVerif.Proofs.ServeSafety
import DnsVerif.Props.C02

namespace DnsVerif.Props.C13
open DnsVerif DnsVerif.Name DnsVerif.Loc DnsVerif.Serve DnsVerif.ServeSafety

/-! ### 1. v1 layouts: never a panic -/

/-- For every store (arbitrary content, not only compiled databases), every client location, both
v1 backends and every query whose name is a well-formed packed name (what miekg's unpacking
delivers), the handler does not panic. -/
theorem serve_v1_never_panics (b : Backend) (s : Store) (l : Bytes) (q : Query) (ls : List Bytes)
    (hb : b ≠ .rdbV2) (hq : Name.unpack q.qname = some ls) :
    serve ⟨b, s, l⟩ q ≠ .panic := by
  have hv2 : View.v2 ⟨b, s, l⟩ = false := by simp [View.v2, hb]
  apply serve_no_panic_of _ _ Wf (fun _ h => h) (fun _ _ h hn => (h.parent hn).2) _ (Wf.of_unpack hq)
  · intro control h
    rw [hv2] at h
    cases h
  · intro z hz
    unfold isAuthoritative
    rw [hv2]
    exact isAuthoritativeV1_good _ _ _ _ _ hz

/-! non-vacuity: a zone `b.` (NS, SOA) with an address record at `a.b.` for no location, for
location `xx` and for location `yy`; real replies come out (NOERROR with addresses, NXDOMAIN with
the SOA, REFUSED). -/

def nsRow : Bytes := [0,2,0x3d, 0,0,0,60, 0,0,0,0,0,0,0,0, 1,110,0]
def soaRow : Bytes := [0,6,0x3d, 0,0,0,60, 0,0,0,0,0,0,0,0, 1,110,0,1,104,0, 0,0,0,1, 0,0,0,2, 0,0,0,3,
  0,0,0,4, 0,0,0,5]
def aRow (x : UInt8) : Bytes := [0,1,0x3d, 0,0,0,30, 0,0,0,0,0,0,0,0, 0,0,0,1, 10,0,0,x]

def exV1 : Store :=
  [([0,0,1,98,0], [nsRow, soaRow]), ([0,0,1,97,1,98,0], [aRow 1]),
   ([120,120,1,97,1,98,0], [aRow 2]), ([121,121,1,97,1,98,0], [aRow 3])]

def mkQ (name : Bytes) (qtype : Nat) : Query :=
  { qname := name, qnameOut := name, qtype := qtype, qclass := 1, maxAns := 1 }

def qA : Query := mkQ [1,97,1,98,0] 1        -- a.b. A
def qNx : Query := mkQ [1,99,1,98,0] 1       -- c.b. A
def qRef : Query := mkQ [1,99,0] 1           -- c. A

def replyA : Response :=
  { rcode := 0, aa := true, answer := [],
    answerAddrs := [⟨[1,97,1,98,0], 1, 1, [⟨30, 1, [10,0,0,2]⟩, ⟨30, 1, [10,0,0,1]⟩], 1⟩],
    ns := [], extra := [] }
def replyNx : Response :=
  { rcode := 3, aa := true, answer := [], answerAddrs := [],
    ns := [⟨[1,98,0], 6, 1, 60, soaRow.drop 15⟩], extra := [] }
def replyRefused : Response :=
  { rcode := 5, aa := false, answer := [], answerAddrs := [], ns := [], extra := [] }

example : Name.unpack qA.qname = some [[97], [98]] := by decide
example : serve ⟨.rdbV1, exV1, [120,120]⟩ qA = .reply replyA := by decide +kernel
example : serve ⟨.cdb true, exV1, [120,120]⟩ qNx = .reply replyNx := by decide +kernel
example : serve ⟨.cdb false, exV1, [0,0]⟩ qRef = .reply replyRefused := by decide +kernel
example : serve ⟨.rdbV1, exV1, [120,120]⟩ qA ≠ .panic :=
  serve_v1_never_panics _ _ _ _ [[97], [98]] (by decide) (by decide)

/-! ### 2. v2 layout: never a panic when the resource-record keys are well formed -/

/-- `V2KeysOk s` (defined in `Proofs/ServeSafety.lean`, decidable): every key `k` of `s` that starts
with the resource-record marker `[0,111]` satisfies one of

* the bytes between the marker and the last two bytes of `k` start with a well-formed wire name,
  `(Name.unpack ((k.drop 2).take (k.length - 4))).isSome`, or
* the byte after the marker is 64 or more (the key sorts above every search key of a name whose
  labels are shorter than 64 bytes, so the search never lands on it). The features key
  `"\x00o_features"`, present in every compiled v2 database, is of this kind: it carries the
  marker but is not a resource-record key.

It is implied by the canonical format `marker ++ pack labels ++ loc₂`: -/
theorem v2KeysOk_of_canonical (s : Store)
    (h : ∀ e ∈ s, e.1.take 2 = Generated.dnsdata_ResourceRecordsKeyMarker →
      ∃ (ls : List Bytes) (loc : Bytes), (∀ l ∈ ls, l ≠ [] ∧ l.length < 256) ∧ loc.length = 2 ∧
        e.1 = Generated.dnsdata_ResourceRecordsKeyMarker ++ Name.pack ls ++ loc) : V2KeysOk s :=
  V2KeysOk_of_canonical s h

/-- v2 key layout: for every store whose marker-carrying keys are as above, every location and
every query name that is a well-formed packed name with labels shorter than 64 bytes (RFC 1035
§2.3.4, enforced by miekg's unpacking), the handler does not panic. `_partial`: neither
hypothesis can be dropped, see `serve_v2_can_panic_on_malformed_store` and
`serve_v2_can_panic_on_overlong_label`. -/
theorem serve_v2_never_panics_partial (s : Store) (l : Bytes) (q : Query) (ls : List Bytes)
    (hs : V2KeysOk s) (hq : Name.unpack q.qname = some ls) (h63 : ∀ lab ∈ ls, lab.length < 64) :
    serve ⟨.rdbV2, s, l⟩ q ≠ .panic := by
  apply serve_no_panic_of _ _ Wf63 (fun _ h => h.wf) (fun _ _ h hn => h.parent hn) _
    (Wf63.of_unpack hq h63)
  · intro control _
    exact findAnswerV2_no_panic _ hs _ _ _ _ (Wf63.of_unpack hq h63)
  · intro z hz
    have hv2 : View.v2 ⟨.rdbV2, s, l⟩ = true := by simp [View.v2]
    unfold isAuthoritative
    rw [hv2]
    exact isAuthoritativeV2_good _ hs z hz

/-- the pieces, for any client of the closest-key search: `findGo` started inside the name
(`1 ≤ qLength ≤ |rev| + 1`) on such a store ends with `.ok` — never `.panic`, never `.err` —
whatever the three callbacks do. -/
theorem findGo_never_panics {σ : Type} (v : View) (q : Bytes) (ls : List Bytes)
    (pre : Nat → σ → Option σ) (onRows : List Bytes → σ → σ) (post : σ → σ × Bool)
    (hs : V2KeysOk v.store) (hq : Name.unpack q = some ls) (h63 : ∀ lab ∈ ls, lab.length < 64)
    (fuel qLength : Nat) (st : σ) (h1 : 1 ≤ qLength) (h2 : qLength ≤ (Name.pack ls.reverse).length + 1) :
    Name.reverseWire q = some (Name.pack ls.reverse) ∧
    ∃ st', findGo v (Name.pack ls.reverse) pre onRows post fuel qLength st = .ok st' := by
  have hrev : Name.reverseWire q = some (Name.pack ls.reverse) := by
    unfold Name.reverseWire; rw [hq]; rfl
  refine ⟨hrev, ?_⟩
  obtain ⟨st', h, _⟩ := findGo_ok v _ pre onRows post (fun _ => True) hs (reverseWire_exact hrev)
    (headOk_pack _ (fun l hl => h63 l (List.mem_reverse.mp hl)))
    (fun _ _ _ _ _ => trivial) (fun _ _ _ => trivial) (fun _ _ => trivial) fuel qLength st h1 h2
    (Or.inl trivial)
  exact ⟨st', h⟩

/-- the same zone in the v2 layout -/
def exV2 : Store :=
  [([0,111,1,98,0,0,0], [nsRow, soaRow]), ([0,111,1,98,1,97,0,0,0], [aRow 1]),
   ([0,111,1,98,1,97,0,120,120], [aRow 2]), ([0,111,1,98,1,97,0,121,121], [aRow 3]),
   (Generated.dnsdata_FeaturesKey, [[2,0,0,0]])]

example : V2KeysOk exV2 := by unfold V2KeysOk; decide
example : serve ⟨.rdbV2, exV2, [120,120]⟩ qA = .reply replyA := by decide +kernel
example : serve ⟨.rdbV2, exV2, [120,120]⟩ qNx = .reply replyNx := by decide +kernel
example : serve ⟨.rdbV2, exV2, [0,0]⟩ qRef = .reply replyRefused := by decide +kernel
example : serve ⟨.rdbV2, exV2, [120,120]⟩ qA ≠ .panic :=
  serve_v2_never_panics_partial _ _ _ [[97], [98]] (by unfold V2KeysOk; decide) (by decide) (by decide)

/-- Why the hypothesis is there: a store holding the bare marker `[0,111]` as a key (no name, no
location — nothing the compiler produces) and a delegation `a.b.` (NS only). A DS query for
`a.b.` is answered from the parent side; the search for `b.` lands on the malformed key and slices
`k[2 : len(k)-2]` out of range. -/
def badV2 : Store := [([0,111,1,98,1,97,0,0,0], [nsRow]), ([0,111], [])]

theorem serve_v2_can_panic_on_malformed_store :
    Name.unpack [1,97,1,98,0] = some [[97], [98]] ∧
    serve ⟨.rdbV2, badV2, [0,0]⟩ (mkQ [1,97,1,98,0] 43) = .panic := by
  decide +kernel

example : ¬ V2KeysOk badV2 := by unfold V2KeysOk; decide

/-- Why labels must be shorter than 64 bytes: the features key `"\x00o_features"` carries the
resource-record marker, and its byte after the marker is `'_'` = 95. A name whose top-level label
is 95 bytes long and begins with `featur` makes the search land on the features key and compare
label bytes beyond its end (`findCommonLongestPrefix` indexes out of range). Such a name cannot
arrive from the wire (labels are at most 63 bytes), so this is not reachable in the server; it
shows that the 63-byte limit is what keeps the features key out of the search. -/
def longLabel : Bytes := [102,101,97,116,117,114,122] ++ List.replicate 88 97
def qLong : Bytes := [1,97] ++ [95] ++ longLabel ++ [0]
def featStore : Store :=
  [(Generated.dnsdata_FeaturesKey, [[2,0,0,0]]),
   ([0,111] ++ [95] ++ longLabel ++ [1,97,0] ++ [0,0], [nsRow])]

theorem serve_v2_can_panic_on_overlong_label :
    V2KeysOk featStore ∧ (Name.unpack qLong).isSome = true ∧
    serve ⟨.rdbV2, featStore, [0,0]⟩ (mkQ qLong 43) = .panic := by
  refine ⟨by unfold V2KeysOk; decide, by decide +kernel, by decide +kernel⟩

/-! ### 3. shape of replies -/

/-- Whenever the handler replies: the rcode is NOERROR, NXDOMAIN or REFUSED; REFUSED is bare and
not authoritative; NXDOMAIN is authoritative with an empty answer section; a non-authoritative
reply has an empty answer section. Every backend, every store, every query. -/
theorem reply_shape (v : View) (q : Query) (r : Response) (h : serve v q = .reply r) :
    (r.rcode = 0 ∨ r.rcode = 3 ∨ r.rcode = 5) ∧
    (r.rcode = 5 → r.aa = false ∧ r.answer = [] ∧ r.answerAddrs = [] ∧ r.ns = [] ∧ r.extra = []) ∧
    (r.rcode = 3 → r.aa = true ∧ r.answer = []) ∧
    (r.aa = false → r.answer = [] ∧ r.answerAddrs = []) :=
  reply_shape' v q r h

/-! non-vacuity: the three rcodes occur (examples above: `replyA` rcode 0, `replyNx` rcode 3,
`replyRefused` rcode 5), and a non-authoritative NOERROR reply (a referral) occurs: -/

def exDeleg : Store := [([0,0,1,98,0], [nsRow])]
def replyReferral : Response :=
  { rcode := 0, aa := false, answer := [], answerAddrs := [],
    ns := [⟨[1,98,0], 2, 1, 60, [1,110,0]⟩], extra := [] }
example : serve ⟨.rdbV1, exDeleg, [0,0]⟩ qA = .reply replyReferral := by decide +kernel
example : replyReferral.answer = [] ∧ replyReferral.answerAddrs = [] :=
  (reply_shape _ _ _ (by decide +kernel : serve ⟨.rdbV1, exDeleg, [0,0]⟩ qA = .reply replyReferral)).2.2.2 rfl

/-! ### 4. v2 layout, canonical stores

`ServeV2.V2Canonical s` (decidable, `Proofs/ServeV2.lean`) is the store predicate of C02's
`serve_v2_eq_v1Of`: every key under the resource-record marker either decodes as
`marker ++ pack owner ++ loc₂` (`decodeKey`: labels of 1…255 bytes, a 2-byte location) or has a byte
`≥ 64` after the marker (the features key). Every compiled v2 database is of this form. -/

/-- a canonical v2 store satisfies the key hypothesis of `serve_v2_never_panics_partial` -/
theorem v2KeysOk_of_V2Canonical (s : Store) (h : ServeV2.V2Canonical s) : V2KeysOk s := by
  intro e he hm
  rcases h e he hm with hd | hj
  · left
    unfold ServeV2.decodeKey at hd
    cases hu : unpack ((e.1.drop 2).take (e.1.length - 4)) with
    | none => rw [hu] at hd; cases hd
    | some a => rfl
  · exact Or.inr hj

/-- **v2 layout, canonical store: never a panic.** For every canonical v2 store — ANY rows under the
keys, malformed ones included (a row that makes `ExtractRRFromRow` panic is recovered inside
`ForEach` and does not reach the handler) —, every client location (any bytes) and every query whose
name is a well-formed packed name with labels shorter than 64 bytes, the handler does not panic.
No hypothesis on the rows (`RowsOKAt`, `TargetsOKAt` of C02 are not needed for this), none on the
location, none on `qnameOut`. What remains is forced: the store shape
(`serve_v2_can_panic_on_malformed_store`, a non-canonical store) and the 63-byte label limit
(`serve_v2_can_panic_on_overlong_label`, on a canonical store). -/
theorem serve_v2_never_panics (s : Store) (hc : ServeV2.V2Canonical s) (l : Bytes) (q : Query)
    (ls : List Bytes) (hq : Name.unpack q.qname = some ls) (h63 : ∀ lab ∈ ls, lab.length < 64) :
    serve ⟨.rdbV2, s, l⟩ q ≠ .panic :=
  serve_v2_never_panics_partial s l q ls (v2KeysOk_of_V2Canonical s hc) hq h63

/-- The same conclusion obtained a second way, through C02: on a canonical store whose rows visible
to the client are well formed (`StoreRowsOKAt`, decidable), for a 2-byte location and a request whose
lower-cased name is `pack q` (labels of 1…63 bytes, ≤ 255 octets), the v2 handler's outcome IS the
outcome of the v1 handler on the re-keyed store `v1Of s` (`serve_v2_eq_v1Of`), and that one never
panics (`serve_v1_never_panics`, no hypothesis on the store). The extra hypotheses here are those
of the equality, not of panic-freedom — `serve_v2_never_panics` does without them. -/
theorem serve_v2_outcome_is_v1 (s : Store) (hc : ServeV2.V2Canonical s) {l : Bytes} (hl : l.length = 2)
    (hr : ServeV2.StoreRowsOKAt s l) (q : List Bytes) (hq : RevOrder.NameOK64 q)
    (hlen : (pack q).length ≤ 255) (rq : Query) (hqn : rq.qname = pack q)
    (hqo : toLower rq.qnameOut = rq.qname) :
    serve ⟨.rdbV2, s, l⟩ rq = serve ⟨.rdbV1, ServeV2.v1Of s, l⟩ rq ∧
      serve ⟨.rdbV2, s, l⟩ rq ≠ .panic := by
  have he := C02.serve_v2_eq_v1Of s hc hl hr q hq hlen rq hqn hqo
  refine ⟨he, ?_⟩
  rw [he]
  have hu : Name.unpack rq.qname = some q := by
    rw [hqn]
    unfold Name.unpack
    exact RevOrder.unpack_pack q _ hq.ok
      (by have := RevOrder.length_le_flat_length q; rw [RevOrder.pack_length]; omega)
  exact serve_v1_never_panics .rdbV1 _ l rq q (by decide) hu

/-- the canonical key format `marker ++ pack labels ++ loc₂` (labels of 1…255 bytes), as in
`v2KeysOk_of_canonical`, is `V2Canonical` -/
theorem v2Canonical_of_canonical (s : Store)
    (h : ∀ e ∈ s, e.1.take 2 = Generated.dnsdata_ResourceRecordsKeyMarker →
      ∃ (ls : List Bytes) (loc : Bytes), (∀ l ∈ ls, l ≠ [] ∧ l.length < 256) ∧ loc.length = 2 ∧
        e.1 = Generated.dnsdata_ResourceRecordsKeyMarker ++ Name.pack ls ++ loc) :
    ServeV2.V2Canonical s := by
  intro e he hm
  obtain ⟨ls, loc, hls, hloc, hk⟩ := h e he hm
  left
  have hn : RevOrder.NameOK ls := fun l hl => ⟨List.length_pos_iff.mpr (hls l hl).1, (hls l hl).2⟩
  have : e.1 = RevOrder.Key ls loc := hk
  rw [this, ServeV2.decodeKey_key hn hloc]
  rfl

/-- **v2, canonical store: a well-formed reply or none.** The outcome is a reply of the shape of
`reply_shape` (which holds for every backend and store, v2 included), a bare SERVFAIL
(`failedReply`) or no reply — never a panic. -/
theorem serve_v2_reply_or_none (s : Store) (hc : ServeV2.V2Canonical s) (l : Bytes) (q : Query)
    (ls : List Bytes) (hq : Name.unpack q.qname = some ls) (h63 : ∀ lab ∈ ls, lab.length < 64) :
    (∃ r, serve ⟨.rdbV2, s, l⟩ q = .reply r ∧
      (r.rcode = 0 ∨ r.rcode = 3 ∨ r.rcode = 5) ∧
      (r.rcode = 5 → r.aa = false ∧ r.answer = [] ∧ r.answerAddrs = [] ∧ r.ns = [] ∧ r.extra = []) ∧
      (r.rcode = 3 → r.aa = true ∧ r.answer = []) ∧
      (r.aa = false → r.answer = [] ∧ r.answerAddrs = [])) ∨
    serve ⟨.rdbV2, s, l⟩ q = .failedReply ∨ serve ⟨.rdbV2, s, l⟩ q = .noReply := by
  have hp := serve_v2_never_panics s hc l q ls hq h63
  cases h : serve ⟨.rdbV2, s, l⟩ q with
  | reply r => exact Or.inl ⟨r, rfl, reply_shape _ _ r h⟩
  | failedReply => exact Or.inr (Or.inl rfl)
  | noReply => exact Or.inr (Or.inr rfl)
  | panic => exact absurd h hp

example : ServeV2.V2Canonical exV2 := by decide +kernel
example : serve ⟨.rdbV2, exV2, [120,120]⟩ qA ≠ .panic :=
  serve_v2_never_panics _ (by decide +kernel) _ _ [[97], [98]] (by decide) (by decide)
-- a canonical store with a malformed row (`[1]`) under a visible key: still no panic
example : ServeV2.V2Canonical C02.sB ∧ ¬ ServeV2.StoreRowsOKAt C02.sB [121,121] := by decide +kernel
example : serve ⟨.rdbV2, C02.sB, [121,121]⟩ C02.qB ≠ .panic :=
  serve_v2_never_panics _ (by decide +kernel) _ _ [[98], [97]] (by decide) (by decide)
example : serve ⟨.rdbV2, C02.sB, [120,120]⟩ C02.qMX = serve ⟨.rdbV1, ServeV2.v1Of C02.sB, [120,120]⟩ C02.qMX ∧
    serve ⟨.rdbV2, C02.sB, [120,120]⟩ C02.qMX ≠ .panic :=
  serve_v2_outcome_is_v1 C02.sB (by decide +kernel) rfl (by decide +kernel) [[97]] (by decide) (by decide)
    C02.qMX rfl rfl
-- the two negative witnesses: the first store is not canonical, the second is
example : ¬ ServeV2.V2Canonical badV2 := by decide +kernel
example : ServeV2.V2Canonical featStore := by decide +kernel

end DnsVerif.Props.C13
