import DnsVerif.Proofs.Locks
import DnsVerif.Generated.LockFacts

/-!
C14 — Serving and reloading concurrently is free of data races.

`Generated.LockFacts.rows` is re-extracted from the current Go source on every run (one row per
read/write of a shared field with the locks syntactically held there); the theorems below are
`decide`d over the WHOLE table by the kernel, so they are re-checked whenever the table changes,
and lifted to "no race in any execution" by the generic `Locks.lockset_no_race`.
-/
namespace DnsVerif.Props.C14
open DnsVerif.Locks DnsVerif.Generated.LockFacts

def ofRow (r : Row) : Access := { field := r.field, write := r.write, locks := r.locks, init := r.init }

/-! ### Generic theorem (any threads, any program, any schedule) -/

theorem lockset_no_race {a b : Access} (h : compatible a b = true) : ¬ Race a b :=
  Locks.lockset_no_race h

/-- non-vacuity: two readers under a shared lock ARE co-enabled (the semantics is not degenerate),
and a lockless reader does race with a writer holding one exclusive lock. -/
example : CoEnabled ⟨"f", false, [("mu", false)], false⟩ ⟨"f", false, [("mu", false)], false⟩ :=
  ⟨[⟨1, "mu", false⟩, ⟨0, "mu", false⟩], 0, 1,
    .step (.step .init (.acquire (t := 0) (l := "mu") (e := false) (by intro h hh; cases hh)))
      (.acquire (t := 1) (l := "mu") (e := false) (by
        intro h hh hl
        rcases List.mem_singleton.1 hh with rfl
        exact ⟨rfl, rfl⟩)),
    by decide, by simp [Holds], by simp [Holds]⟩

example : Race ⟨"f", false, [], false⟩ ⟨"f", true, [("mu", true)], false⟩ :=
  ⟨⟨rfl, .inr rfl, rfl, rfl⟩, coenabled_of_unlocked rfl (.inr ⟨_, rfl⟩)⟩

/-! ### The extracted table -/

/-- The full-strength statement: every pair of rows of one field passes the lockset criterion. -/
def table_guarded_full : Prop :=
  ∀ r₁ ∈ rows, ∀ r₂ ∈ rows, r₁.field = r₂.field → compatible (ofRow r₁) (ofRow r₂) = true

/-- Known unguarded accesses (suspected genuine defects, DESIGN.md §7 row 17), as (field, function).
The list must stay SMALL; `known_unguarded_are_real` forces every entry to name a row that really
is in an incompatible pair, so an entry has to be deleted as soon as the code is fixed. -/
def exceptions : List (String × String) := [
  -- (empty since the four unguarded accesses found by this table were fixed in /repo:
  --  IteratorPool.enabled in get(), FBDNSDB.dbConfig.Path in the two fsnotify watchers,
  --  FBDNSDB.dnsdb in ValidateDbKey — see known_findings.json, status fixed)
]

def excepted (r : Row) : Bool := exceptions.contains (r.field, r.fn)

def guardedExceptB : Bool :=
  rows.all fun r₁ => rows.all fun r₂ =>
    r₁.field != r₂.field || excepted r₁ || excepted r₂ || compatible (ofRow r₁) (ofRow r₂)

theorem guardedExceptB_true : guardedExceptB = true := by decide +kernel

/-- **Table theorem (partial, excluding the known unguarded accesses).** -/
theorem table_guarded_except_known :
    ∀ r₁ ∈ rows, ∀ r₂ ∈ rows, r₁.field = r₂.field → excepted r₁ = false → excepted r₂ = false →
      compatible (ofRow r₁) (ofRow r₂) = true := by
  intro r₁ h₁ r₂ h₂ hf e₁ e₂
  have h := List.all_eq_true.1 (List.all_eq_true.1 guardedExceptB_true r₁ h₁) r₂ h₂
  simp only [Bool.or_eq_true, bne_iff_ne, ne_eq] at h
  rcases h with ((h | h) | h) | h
  · exact absurd hf h
  · rw [e₁] at h; cases h
  · rw [e₂] at h; cases h
  · exact h

/-- Lifted: outside the known exceptions no two rows of the table race, in any execution with any
number of threads (queries × reloads × statistics × shutdown are just particular programs). -/
theorem no_race_except_known :
    ∀ r₁ ∈ rows, ∀ r₂ ∈ rows, excepted r₁ = false → excepted r₂ = false →
      ¬ Race (ofRow r₁) (ofRow r₂) := by
  intro r₁ h₁ r₂ h₂ e₁ e₂ hr
  exact Locks.lockset_no_race (table_guarded_except_known r₁ h₁ r₂ h₂ hr.1.1 e₁ e₂) hr

/-- Every exception is real: it names a row of the table that is in an incompatible pair (so the
list cannot over-approximate; fixing the code makes this theorem fail until the entry is removed). -/
theorem known_unguarded_are_real :
    ∀ e ∈ exceptions, ∃ r₁ ∈ rows, ∃ r₂ ∈ rows,
      r₁.field = e.1 ∧ r₁.fn = e.2 ∧ r₂.field = e.1 ∧ compatible (ofRow r₁) (ofRow r₂) = false := by
  decide +kernel

/-- … and in the model each of them IS a race (lockless reader against a writer holding one lock). -/
theorem known_unguarded_race :
    ∀ e ∈ exceptions, ∃ r₁ ∈ rows, ∃ r₂ ∈ rows,
      r₁.field = e.1 ∧ r₁.fn = e.2 ∧ Race (ofRow r₁) (ofRow r₂) := by
  have h : ∀ e ∈ exceptions, ∃ r₁ ∈ rows, ∃ r₂ ∈ rows,
      r₁.field = e.1 ∧ r₁.fn = e.2 ∧ r₁.field = r₂.field ∧ r₁.locks = [] ∧ r₂.locks.length ≤ 1 ∧
      r₂.write = true ∧ r₁.init = false ∧ r₂.init = false := by decide +kernel
  intro e he
  obtain ⟨r₁, m₁, r₂, m₂, f₁, f₂, ff, l₁, l₂, w, i₁, i₂⟩ := h e he
  refine ⟨r₁, m₁, r₂, m₂, f₁, f₂, ⟨ff, .inr w, i₁, i₂⟩, coenabled_of_unlocked l₁ ?_⟩
  show (r₂.locks = [] ∨ ∃ p, r₂.locks = [p])
  match hl : r₂.locks, l₂ with
  | [], _ => exact .inl rfl
  | [p], _ => exact .inr ⟨p, rfl⟩

/-- **Full-strength table theorem**: every two accesses to the same shared field are guarded by a
common lock in compatible modes (or happen during initialisation) — no exception. -/
theorem table_guarded : table_guarded_full := by
  intro r₁ h₁ r₂ h₂ hf
  exact table_guarded_except_known r₁ h₁ r₂ h₂ hf (by simp [excepted, exceptions]) (by simp [excepted, exceptions])

/-- no two rows of the extracted table race, in any execution with any number of threads -/
theorem table_no_race : ∀ r₁ ∈ rows, ∀ r₂ ∈ rows, ¬ Race (ofRow r₁) (ofRow r₂) := by
  intro r₁ h₁ r₂ h₂
  exact no_race_except_known r₁ h₁ r₂ h₂ (by simp [excepted, exceptions]) (by simp [excepted, exceptions])

/-- The table is not vacuous: every configured shared field has rows, and some pair of rows is
protected by a genuinely common lock (not merely by init / read-read). -/
theorem table_covers_fields : ∀ f ∈ sharedFields, ∃ r ∈ rows, r.field = f := by decide +kernel

example : ∃ r₁ ∈ rows, ∃ r₂ ∈ rows, r₁.field = r₂.field ∧ r₁.write = true ∧ r₂.write = false ∧
    r₁.init = false ∧ r₂.init = false ∧ r₁.fn ≠ r₂.fn ∧ compatible (ofRow r₁) (ofRow r₂) = true := by
  decide +kernel

/-! ### Lock order -/

theorem lockOrder_ranked : rankedB lockOrder = true := by decide +kernel

/-- No closed walk along "B acquired while A held" edges ⇒ no lock-order deadlock among these
mutexes (a wait-for cycle of threads holding `lᵢ` and requesting `lᵢ₊₁` is such a walk). -/
theorem lock_order_acyclic : ∀ l, ¬ Walk lockOrder l l := acyclic_of_ranked lockOrder_ranked

example : lockOrder ≠ [] := by decide
example : Walk lockOrder "FBDNSDB.reloadMu" "IteratorPool.l" :=
  .cons (b := "DB.l") (by decide) (.edge (by decide))

/-! ### A reader-writer lock and a channel: the three-party wait

`sync.RWMutex` prefers writers: once a `Lock()` is pending, later `RLock()` calls queue behind it.
So a goroutine `G` that holds `L` (in either mode) while it waits to RECEIVE on channel `c`, a writer
`W` waiting for `L`, and a goroutine `P` that must take `L` SHARED before it SENDS on `c` wait for
each other for ever (G for P's send, P for W, W for G) - no lock-order edge shows it, the race
detector is silent. The iterator pool is built so that it cannot happen: `put()` sends without the
lock. The condition below is what that rests on, checked against the channel operations extracted
from the current source (`Generated.LockFacts.chanOps`: field, function, send|recv, locks held). It
is a syntactic condition on the table, not a proof of deadlock freedom of the Go runtime. -/

abbrev ChanOp := String × String × String × List (String × Bool) × String

/-- the pattern: a receive on `c` under lock `L` (any mode) and a send on `c` under `L` held shared -/
def ThreeParty (ops : List ChanOp) : Prop :=
  ∃ r ∈ ops, ∃ s ∈ ops, r.2.2.1 = "recv" ∧ s.2.2.1 = "send" ∧ r.1 = s.1 ∧
    ∃ l, (∃ m, (l, m) ∈ r.2.2.2.1) ∧ (l, false) ∈ s.2.2.2.1

def threePartyB (ops : List ChanOp) : Bool :=
  ops.any fun r => ops.any fun s => r.2.2.1 == "recv" && s.2.2.1 == "send" && r.1 == s.1 &&
    r.2.2.2.1.any fun lm => s.2.2.2.1.contains (lm.1, false)

theorem threeParty_iff (ops : List ChanOp) : ThreeParty ops ↔ threePartyB ops = true := by
  unfold ThreeParty threePartyB
  simp only [List.any_eq_true, Bool.and_eq_true, beq_iff_eq, List.contains_eq_mem, decide_eq_true_eq]
  constructor
  · rintro ⟨r, hr, s, hs, h1, h2, h3, l, ⟨m, hm⟩, hl⟩
    exact ⟨r, hr, s, hs, ⟨⟨⟨h1, h2⟩, h3⟩, (l, m), hm, hl⟩⟩
  · rintro ⟨r, hr, s, hs, ⟨⟨⟨h1, h2⟩, h3⟩, lm, hm, hl⟩⟩
    exact ⟨r, hr, s, hs, h1, h2, h3, lm.1, ⟨lm.2, hm⟩, hl⟩

/-- no channel of the table is received from under a lock that one of its senders takes shared -/
theorem no_three_party_wait : ¬ ThreeParty chanOps := by
  rw [threeParty_iff]; decide +kernel

/-- not vacuous: the table has a receive under a lock and a send, on one channel -/
example : ∃ r ∈ chanOps, ∃ s ∈ chanOps, r.2.2.1 = "recv" ∧ s.2.2.1 = "send" ∧ r.1 = s.1 ∧ r.2.2.2.1 ≠ [] := by
  decide +kernel

/-- the table of a pool whose `put()` sends under `RLock` (a seeded change) has the pattern -/
example : ThreeParty
    [("IteratorPool.iterators", "IteratorPool.get", "recv", [("IteratorPool.l", false)], ""),
     ("IteratorPool.iterators", "IteratorPool.put", "send", [("IteratorPool.l", false)], ""),
     ("IteratorPool.iterators", "IteratorPool.disable", "recv", [], ""),
     ("IteratorPool.iterators", "IteratorPool.enable", "send", [("IteratorPool.l", true)], "")] := by
  rw [threeParty_iff]; decide +kernel

end DnsVerif.Props.C14
