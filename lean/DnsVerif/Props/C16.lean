/-
C16 — A written CDB file returns every value, in order, and nothing else.

Property theorems only; helper lemmas go to `Proofs/Cdb.lean` (hash-table core, text format) and
`Proofs/CdbFile.lean` (byte layout of the written file, the reader's loop on the file bytes) and
`Proofs/CdbDump.lean` (`Dump`'s loop over the record area of the written file).
-/
import DnsVerif.Proofs.Cdb
import DnsVerif.Proofs.CdbFile
import DnsVerif.Proofs.CdbDump

namespace DnsVerif.Props.C16
open DnsVerif DnsVerif.Cdb

/-- **Hash-table core, for every hash function and every collision pattern.**
Build one bucket's table from any sequence of slots `(hash, record position)` (positions are
non-zero: the first record starts at offset 2048) by the writer's linear probing, then run the
reader's probe loop for a hash `kh`: it returns exactly the positions of the slots written with that
hash, in insertion order — nothing is lost behind a collision chain or a wrap-around, nothing is
returned twice, and the loop stops. -/
theorem probe_find_all (slots : List Slot) (hpos : ∀ s ∈ slots, s.2 ≠ 0) (kh : Nat) :
    probeAll (buildTable slots) kh = (slots.filter (fun s => s.1 = kh)).map (·.2) :=
  (tblInv_buildTable slots hpos).reads kh

/-- the table always keeps a free slot, so probing terminates at an empty slot, never by
exhausting the table -/
theorem buildTable_has_free (slots : List Slot) (hpos : ∀ s ∈ slots, s.2 ≠ 0) (h : slots ≠ []) :
    (buildTable slots).length = 2 * slots.length ∧
    ((buildTable slots).filter (fun s => s.2 = 0)).length = slots.length := by
  have hinv := tblInv_buildTable slots hpos
  have _ := h  -- not needed: for `slots = []` both sides are 0
  have := hinv.free
  exact ⟨hinv.len, by omega⟩

/-- Dump → Make text round trip: parsing the dumped text gives back exactly the pairs, in order
(keys and data may contain any bytes, including `\n`, `+`, `,`, `:`, `-`, `>`). -/
theorem makeParse_dumpText (es : List (Bytes × Bytes))
    (hsz : ∀ e ∈ es, e.1.length < u32 ∧ e.2.length < u32) :
    makeParse ((dumpText es).length + 1) (dumpText es) = some es :=
  makeParse_dumpText_fuel es _ hsz (Nat.lt_succ_of_lt (length_le_dumpText es))

/-- non-vacuity / sanity: three colliding slots in a table that wraps around -/
example : probeAll (buildTable [(0x300, 2048), (0x300, 2060), (0x500, 2072), (0x300, 2084)]) 0x300
    = [2048, 2060, 2084] := by decide

/-! ## Byte level, end to end: `writeFile` then `findAll` / `findNext` on the file bytes -/

/-- the file as the reader sees it: the mmapped byte array -/
abbrev fileOf (b : Bytes) : File := b.toArray

/-- **Size condition of the format** (decidable, closed form): all offsets are 32-bit
little-endian, so the whole file — 2048 header bytes, `8 + klen + dlen` bytes per record, two 8-byte
slots per record — must stay below 2^32 bytes. `go-cdb-mods/writer.go` does NOT check this. -/
def FitsU32 (es : List Entry) : Prop := fileSize es < u32

instance (es : List Entry) : Decidable (FitsU32 es) := by unfold FitsU32; infer_instance

/-- the size of the written file is exactly `fileSize` (no hypothesis) -/
theorem writeFile_size (es : List Entry) : (fileOf (writeFile es)).size = fileSize es := by
  rw [fileOf, List.size_toArray, writeFile_length_eq]

/-- **A written CDB file returns every value, in order, and nothing else.**
Write any sequence of entries `(key, data, hash of the key)` and close; look `key` up with its hash:
the reader, working on the bytes of the file, returns exactly the data of the entries written under
`key`, in insertion order.

The hash values are arbitrary 32-bit numbers attached to the entries: the only link required
between them is that the entries written under the looked-up key carry the hash the reader uses
(`hkey`), so the statement holds for every hash function, including one that maps all keys to
one value. -/
theorem find_written (es : List Entry) (key : Bytes) (hash : Nat)
    (hsz : FitsU32 es) (hh : ∀ e ∈ es, e.h < u32) (hk : key.length < u32)
    (hkey : ∀ e ∈ es, e.key = key → e.h = hash) :
    findAll (fileOf (writeFile es)) key hash = .ok ((es.filter (·.key = key)).map (·.val)) :=
  find_written_core es key hash (by rw [writeFile_length_eq]; exact hsz) hh hk hkey

/-- the same for a database built with any hash function `H` on (key, data) pairs -/
theorem find_written_hashfn (H : Bytes → Nat) (hH : ∀ k, H k < u32) (kvs : List (Bytes × Bytes))
    (key : Bytes) (hk : key.length < u32)
    (hsz : FitsU32 (kvs.map fun kv => ⟨kv.1, kv.2, H kv.1⟩)) :
    findAll (fileOf (writeFile (kvs.map fun kv => ⟨kv.1, kv.2, H kv.1⟩))) key (H key)
      = .ok ((kvs.filter (·.1 = key)).map (·.2)) := by
  rw [find_written _ key (H key) hsz
    (fun e he => by obtain ⟨kv, _, rfl⟩ := List.mem_map.mp he; exact hH _) hk
    (fun e he hek => by obtain ⟨kv, _, rfl⟩ := List.mem_map.mp he; exact congrArg H hek)]
  rw [List.filter_map, List.map_map]
  rfl

/-- (a) **nothing else**: a key that was never written is not found, whatever hash the reader is
given — also one that collides with written keys in hash, table and slot -/
theorem find_absent (es : List Entry) (key : Bytes) (hash : Nat)
    (hsz : FitsU32 es) (hh : ∀ e ∈ es, e.h < u32) (hk : key.length < u32)
    (habs : ∀ e ∈ es, e.key ≠ key) :
    findAll (fileOf (writeFile es)) key hash = .ok [] := by
  rw [find_written es key hash hsz hh hk (fun e he hek => absurd hek (habs e he))]
  have : es.filter (·.key = key) = [] := by
    rw [List.filter_eq_nil_iff]
    intro e he
    simpa using habs e he
  rw [this]; rfl

/-- (b) **insertion order**: the values come back as a subsequence of the data in the order
written -/
theorem find_in_order (es : List Entry) (key : Bytes) (hash : Nat)
    (hsz : FitsU32 es) (hh : ∀ e ∈ es, e.h < u32) (hk : key.length < u32)
    (hkey : ∀ e ∈ es, e.key = key → e.h = hash) :
    ∃ vs, findAll (fileOf (writeFile es)) key hash = .ok vs ∧ vs.Sublist (es.map (·.val)) :=
  ⟨_, find_written es key hash hsz hh hk hkey, List.filter_sublist.map _⟩

/-- (c) **colliding keys do not leak**: even when every entry carries the same hash `h0` (all keys
share one table and one probe chain), every value returned for `key` was written under `key`: the
reader compares the stored key bytes -/
theorem find_no_leak (es : List Entry) (key : Bytes) (h0 : Nat)
    (hsz : FitsU32 es) (hh0 : h0 < u32) (hk : key.length < u32) (hcoll : ∀ e ∈ es, e.h = h0) :
    ∃ vs, findAll (fileOf (writeFile es)) key h0 = .ok vs ∧
      (∀ v ∈ vs, ∃ e ∈ es, e.key = key ∧ e.val = v) ∧
      (∀ e ∈ es, e.key = key → e.val ∈ vs) := by
  refine ⟨_, find_written es key h0 hsz (fun e he => by rw [hcoll e he]; exact hh0) hk
    (fun e he _ => hcoll e he), ?_, ?_⟩
  · intro v hv
    obtain ⟨e, he, rfl⟩ := List.mem_map.mp hv
    obtain ⟨hmem, hkey⟩ := List.mem_filter.mp he
    exact ⟨e, hmem, by simpa using hkey, rfl⟩
  · intro e he hek
    exact List.mem_map.mpr ⟨e, List.mem_filter.mpr ⟨he, by simpa using hek⟩, rfl⟩

/-- (d) **the iterator**: `FindStart` then successive `FindNext` calls return the values one by one
and then EOF (`Iter … c vs`: from context `c`, `findNext` yields the elements of `vs` in turn, each
call handing its context to the next, and `.eof` after the last). No call panics, and the
iteration stops by EOF, not by running out of the fuel of `findAll`. -/
theorem findNext_iterates (es : List Entry) (key : Bytes) (hash : Nat)
    (hsz : FitsU32 es) (hh : ∀ e ∈ es, e.h < u32) (hk : key.length < u32)
    (hkey : ∀ e ∈ es, e.key = key → e.h = hash) :
    Iter (fileOf (writeFile es)) key hash {} ((es.filter (·.key = key)).map (·.val)) :=
  iter_written_core es key hash (by rw [writeFile_length_eq]; exact hsz) hh hk hkey

/-- `Find` (the first `FindNext`): the first value written under the key, or EOF if there is none -/
theorem find_first (es : List Entry) (key : Bytes) (hash : Nat)
    (hsz : FitsU32 es) (hh : ∀ e ∈ es, e.h < u32) (hk : key.length < u32)
    (hkey : ∀ e ∈ es, e.key = key → e.h = hash) :
    match (es.filter (·.key = key)).map (·.val) with
    | [] => findNext (fileOf (writeFile es)) key hash {} = .eof
    | v :: _ => ∃ c, findNext (fileOf (writeFile es)) key hash {} = .ok (v, c) := by
  have h := findNext_iterates es key hash hsz hh hk hkey
  generalize (es.filter (·.key = key)).map (·.val) = vs at h
  cases h with
  | eof hc => exact hc
  | next hc _ => exact ⟨_, hc⟩

/-! ### non-vacuity: a concrete file with a collision chain that wraps around

Four entries, all in table 0 (8 slots): three with hash `0x700` (start slot 7: they land in slots
7, 0, 1 — wrap-around), among them key `[2]` between the two values of key `[1]`; one with hash
`0x800` (start slot 0, occupied: it lands in slot 2). -/

def es4 : List Entry :=
  [⟨[1], [10], 0x700⟩, ⟨[2], [20, 21], 0x700⟩, ⟨[1], [], 0x700⟩, ⟨[3], [30], 0x800⟩]

example : buildTable (bucketSlots es4 (positions headerSize es4).1 0)
    = [(0x700, 2058), (0x700, 2069), (0x800, 2078), (0, 0), (0, 0), (0, 0), (0, 0), (0x700, 2048)] := by
  decide +kernel

/-- the hypotheses of `find_written` are satisfiable on it, and the theorem gives the answer -/
example : findAll (fileOf (writeFile es4)) [1] 0x700 = .ok [[10], []] :=
  find_written es4 [1] 0x700 (by decide) (by decide) (by decide) (by decide)

example : findAll (fileOf (writeFile es4)) [3] 0x800 = .ok [[30]] :=
  find_written es4 [3] 0x800 (by decide) (by decide) (by decide) (by decide)

/-- an absent key with a colliding hash -/
example : findAll (fileOf (writeFile es4)) [4] 0x700 = .ok [] :=
  find_absent es4 [4] 0x700 (by decide) (by decide) (by decide) (by decide)

/-- independent of the theorems: the kernel evaluates the model's writer and reader on the file
bytes (slow: the kernel walks the 2152-byte list on every access) -/
example : (match findAll (fileOf (writeFile es4)) [1] 0x700 with
    | .ok vs => vs == [[10], []]
    | _ => false) = true := by decide +kernel

/-! ## Dump and Make: `cdbdump` of a written file, and rebuilding the file from the dump -/

/-- a file that fits the format has keys and data below 2^32 bytes (so the extra size hypotheses of
the text format are implied by `FitsU32`) -/
theorem fits_lengths (es : List Entry) (hsz : FitsU32 es) :
    ∀ e ∈ es, e.key.length < u32 ∧ e.val.length < u32 :=
  lengths_lt_of_fileSize es hsz

/-- **The dump of a written file lists exactly the records, in insertion order.**
`Dump` reads the end of the record area from the first header word (the position of table 0 — for
the empty database 2048, the end of the header: the dump is then the single empty line), walks the
records from offset 2048 and prints `+klen,dlen:key->data\n` for each, then `\n`.  Keys and data
may be empty, repeated, and contain any bytes; the hashes play no role. -/
theorem dump_written (es : List Entry) (hsz : FitsU32 es) :
    dump (writeFile es) = some (dumpText (es.map fun e => (e.key, e.val))) :=
  dump_written_core es (by rw [writeFile_length_eq]; exact hsz)

/-- `cdbdump | parse`: the (key, data) pairs `Make` reads back from the dump of a file -/
def dumpPairs (file : Bytes) : Option (List (Bytes × Bytes)) :=
  match dump file with
  | some txt => makeParse (txt.length + 1) txt
  | none => none

/-- Dump → Make: dump the file, parse the text, hash every key with `H`, write and close -/
def dumpMake (H : Bytes → Nat) (file : Bytes) : Option Bytes :=
  match dumpPairs file with
  | some pairs => some (writeFile (pairs.map fun kv => ⟨kv.1, kv.2, H kv.1⟩))
  | none => none

/-- parsing the dump of a written file gives back the (key, data) pairs in insertion order -/
theorem dumpPairs_written (es : List Entry) (hsz : FitsU32 es) :
    dumpPairs (writeFile es) = some (es.map fun e => (e.key, e.val)) := by
  unfold dumpPairs
  rw [dump_written es hsz]
  exact makeParse_dumpText _ (fun p hp => by
    obtain ⟨e, he, rfl⟩ := List.mem_map.mp hp
    exact fits_lengths es hsz e he)

/-- **Dump → Make reproduces the file byte for byte**, for a database whose entries carry the
hashes of their keys under any hash function `H` (no condition on `H`: not even 32-bit range). -/
theorem dump_make_roundtrip (H : Bytes → Nat) (es : List Entry) (hsz : FitsU32 es)
    (hcons : ∀ e ∈ es, e.h = H e.key) :
    dumpMake H (writeFile es) = some (writeFile es) := by
  unfold dumpMake
  rw [dumpPairs_written es hsz]
  simp only
  rw [List.map_map]
  have : es.map ((fun kv : Bytes × Bytes => (⟨kv.1, kv.2, H kv.1⟩ : Entry)) ∘
      fun e => (e.key, e.val)) = es := by
    rw [List.map_congr_left (g := id) (fun e he => by
      show (⟨e.key, e.val, H e.key⟩ : Entry) = e
      rw [← hcons e he])]
    exact List.map_id _
  rw [this]

/-- the same for a database made from (key, data) pairs with the hash function `H` -/
theorem dump_make_roundtrip_hashfn (H : Bytes → Nat) (kvs : List (Bytes × Bytes))
    (hsz : FitsU32 (kvs.map fun kv => ⟨kv.1, kv.2, H kv.1⟩)) :
    dumpMake H (writeFile (kvs.map fun kv => ⟨kv.1, kv.2, H kv.1⟩))
      = some (writeFile (kvs.map fun kv => ⟨kv.1, kv.2, H kv.1⟩)) :=
  dump_make_roundtrip H _ hsz (fun e he => by obtain ⟨kv, _, rfl⟩ := List.mem_map.mp he; rfl)

/-- **The dump lists everything the reader can find, and nothing else**: the pairs parsed from the
dump of the written file answer every lookup — for every key, `findAll` on the file returns exactly
the data the dump lists under that key, in the dump's order (with multiplicity). -/
theorem dump_lists_everything (es : List Entry) (hsz : FitsU32 es) (hh : ∀ e ∈ es, e.h < u32) :
    ∃ pairs, dumpPairs (writeFile es) = some pairs ∧
      ∀ (key : Bytes) (hash : Nat), key.length < u32 → (∀ e ∈ es, e.key = key → e.h = hash) →
        findAll (fileOf (writeFile es)) key hash
          = .ok ((pairs.filter (·.1 = key)).map (·.2)) := by
  refine ⟨_, dumpPairs_written es hsz, ?_⟩
  intro key hash hk hkey
  rw [find_written es key hash hsz hh hk hkey, List.filter_map, List.map_map]
  rfl

/-- membership form, for a hash function `H`: a pair is in the dump iff looking its key up in the
file returns its data.  (`→`: every dumped pair is found — its key is necessarily shorter than 2^32;
`←`: every value found for a key is dumped under that key.) -/
theorem dump_mem_iff_find (H : Bytes → Nat) (hH : ∀ k, H k < u32) (kvs : List (Bytes × Bytes))
    (hsz : FitsU32 (kvs.map fun kv => ⟨kv.1, kv.2, H kv.1⟩)) :
    ∃ pairs, dumpPairs (writeFile (kvs.map fun kv => ⟨kv.1, kv.2, H kv.1⟩)) = some pairs ∧
      (∀ kv ∈ pairs, ∃ vs, findAll (fileOf (writeFile (kvs.map fun kv => ⟨kv.1, kv.2, H kv.1⟩)))
          kv.1 (H kv.1) = .ok vs ∧ kv.2 ∈ vs) ∧
      (∀ (k : Bytes), k.length < u32 → ∀ vs,
        findAll (fileOf (writeFile (kvs.map fun kv => ⟨kv.1, kv.2, H kv.1⟩))) k (H k) = .ok vs →
        ∀ v ∈ vs, (k, v) ∈ pairs) := by
  have hp := dumpPairs_written _ hsz
  rw [List.map_map] at hp
  have hid : kvs.map ((fun e : Entry => (e.key, e.val)) ∘
      fun kv : Bytes × Bytes => (⟨kv.1, kv.2, H kv.1⟩ : Entry)) = kvs :=
    (List.map_congr_left (g := id) (fun kv _ => rfl)).trans (List.map_id _)
  rw [hid] at hp
  refine ⟨kvs, hp, ?_, ?_⟩
  · intro kv hkv
    have hk : kv.1.length < u32 :=
      (fits_lengths _ hsz ⟨kv.1, kv.2, H kv.1⟩ (List.mem_map.mpr ⟨kv, hkv, rfl⟩)).1
    refine ⟨_, find_written_hashfn H hH kvs kv.1 hk hsz, ?_⟩
    exact List.mem_map.mpr ⟨kv, List.mem_filter.mpr ⟨hkv, by simp⟩, rfl⟩
  · intro k hk vs hvs v hv
    rw [find_written_hashfn H hH kvs k hk hsz] at hvs
    injection hvs with hvs
    subst hvs
    obtain ⟨kv, hkv, rfl⟩ := List.mem_map.mp hv
    obtain ⟨hmem, hkey⟩ := List.mem_filter.mp hkv
    have : kv.1 = k := by simpa using hkey
    subst this
    exact hmem

/-- **`FitsU32` is needed for the dump**: one record whose end falls exactly on offset 2^32 (a key
of 2^32 − 2056 bytes, empty data). The writer's 32-bit position wraps to 0, the header says the
record area ends at 0, and `Dump` prints no record at all: the dump is the single empty line,
although the file holds a record. -/
theorem dump_overflow_loses_record (e : Entry) (hk : e.key.length = u32 - 2056) (hv : e.val = []) :
    ¬ FitsU32 [e] ∧ dump (writeFile [e]) = some [0x0a] ∧
      dump (writeFile [e]) ≠ some (dumpText ([e].map fun e => (e.key, e.val))) := by
  have hv0 : e.val.length = 0 := by rw [hv]; rfl
  have hd : dump (writeFile [e]) = some [0x0a] :=
    dump_of_finOf_le [e] (by rw [finOf_wrap hk hv0]; decide)
  refine ⟨?_, hd, ?_⟩
  · unfold FitsU32
    rw [fileSize_single, hk, hv0]
    decide
  · rw [hd, List.map_cons]
    intro h
    exact dumpText_ne_nl _ _ (Option.some.inj h).symm

/-- such an entry exists (not evaluated: 4 GiB) -/
theorem dump_overflow_witness : ∃ e : Entry, e.key.length = u32 - 2056 ∧ e.val = [] :=
  ⟨⟨List.replicate (u32 - 2056) 0, [], 0⟩, List.length_replicate, rfl⟩

/-! ### non-vacuity: the kernel evaluates the model's writer and `Dump` on small files -/

/-- the empty database: 256 empty tables at 2048, the dump is the empty line -/
example : dump (writeFile []) = some [0x0a] := by decide +kernel

/-- `es4` (repeated key, empty data, all in one wrapping table): `+1,1:\x01->\x0a\n` … -/
example : dump (writeFile es4) = some
    [0x2b, 0x31, 0x2c, 0x31, 0x3a, 1, 0x2d, 0x3e, 10, 0x0a,
     0x2b, 0x31, 0x2c, 0x32, 0x3a, 2, 0x2d, 0x3e, 20, 21, 0x0a,
     0x2b, 0x31, 0x2c, 0x30, 0x3a, 1, 0x2d, 0x3e, 0x0a,
     0x2b, 0x31, 0x2c, 0x31, 0x3a, 3, 0x2d, 0x3e, 30, 0x0a, 0x0a] := by decide +kernel

/-- zero-length key and data, twice; and a key/data made of the format's own delimiters -/
example : dumpPairs (writeFile [⟨[], [], 5⟩, ⟨[], [], 5⟩, ⟨[0x0a, 0x2b], [0x2d, 0x3e, 0x0a], 9⟩])
    = some [([], []), ([], []), ([0x0a, 0x2b], [0x2d, 0x3e, 0x0a])] := by decide +kernel

/-- the hypotheses of the theorems are satisfiable on `es4` (all hashes given by one function) -/
example : dumpMake (fun k => if k = [3] then 0x800 else 0x700) (writeFile es4)
    = some (writeFile es4) :=
  dump_make_roundtrip _ es4 (by decide) (by decide)

/-- independent of the theorems: the kernel runs Dump → Make on a two-record file and compares
the 2104 bytes -/
example : dumpMake (fun _ => 0x700) (writeFile [⟨[1], [2], 0x700⟩, ⟨[], [], 0x700⟩])
    = some (writeFile [⟨[1], [2], 0x700⟩, ⟨[], [], 0x700⟩]) := by decide +kernel

end DnsVerif.Props.C16
