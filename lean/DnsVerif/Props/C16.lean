/-
C16 — A written CDB file returns every value, in order, and nothing else.

Property theorems only; helper lemmas go to `Proofs/Cdb.lean`.
-/
import DnsVerif.Proofs.Cdb

namespace DnsVerif.Props.C16
open DnsVerif DnsVerif.Cdb

/-- **Hash-table core, for every hash function and every collision pattern.**
Build one bucket's table from any sequence of slots `(hash, record position)` (positions are
non-zero: the first record starts at offset 2048) by the writer's linear probing, then run the
reader's probe loop for a hash `kh`: it returns exactly the positions of the slots written with that
hash, in insertion order — nothing is lost behind a collision chain or a wrap-around, nothing is
returned twice, and the loop stops. -/
theorem probe_find_all (slots : List Slot) (hpos : ∀ s ∈ slots, s.2 ≠ 0) (kh : Nat) :
    probeAll (buildTable slots) kh = (slots.filter (fun s => s.1 = kh)).map (·.2) :=
  (tblInv_buildTable slots hpos).reads kh

/-- the table always keeps a free slot, so probing terminates at an empty slot, never by
exhausting the table -/
theorem buildTable_has_free (slots : List Slot) (hpos : ∀ s ∈ slots, s.2 ≠ 0) (h : slots ≠ []) :
    (buildTable slots).length = 2 * slots.length ∧
    ((buildTable slots).filter (fun s => s.2 = 0)).length = slots.length := by
  have hinv := tblInv_buildTable slots hpos
  have _ := h  -- not needed: for `slots = []` both sides are 0
  have := hinv.free
  exact ⟨hinv.len, by omega⟩

/-- Dump → Make text round trip: parsing the dumped text gives back exactly the pairs, in order
(keys and data may contain any bytes, including `\n`, `+`, `,`, `:`, `-`, `>`). -/
theorem makeParse_dumpText (es : List (Bytes × Bytes))
    (hsz : ∀ e ∈ es, e.1.length < u32 ∧ e.2.length < u32) :
    makeParse ((dumpText es).length + 1) (dumpText es) = some es :=
  makeParse_dumpText_fuel es _ hsz (Nat.lt_succ_of_lt (length_le_dumpText es))

/-- non-vacuity / sanity: three colliding slots in a table that wraps around -/
example : probeAll (buildTable [(0x300, 2048), (0x300, 2060), (0x500, 2072), (0x300, 2084)]) 0x300
    = [2048, 2060, 2084] := by decide

end DnsVerif.Props.C16
