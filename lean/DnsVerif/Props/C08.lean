/-
C08 — applying a diff gives the database of the new data file.

Property theorems only; helper lemmas are in `Proofs/ApplyDiff.lean`. The line codec
(`Codec.ConvertLn` for one serial and one key layout) is a black box `conv`; both key layouts are
covered because nothing is assumed about it. "Equal as a map from key to multiset of values":
`Represents s m` — the store `s` holds, chunk-encoded (C15's `R`), value lists that are key by key a
permutation of `m`'s; two stores are equal in that sense when they represent the same `m`.
The unboundedly many files, diffs, diff orders and histories are all universally quantified.

Hypotheses the proofs force (all explicit below):
* `SmallConv` — every value the codec emits is shorter than 2^32 bytes (uint32 chunk length prefix);
* ONE codec for compiling A, for the diff and for compiling B: the serial of `.` lines (and of `Z`
  lines without a serial) is the codec's default serial = mtime of the file being read, so the three
  mtimes must agree (or no such line may occur);
* the diff is a *multiset* difference of the lines of the two files: `A ⊎ plus = B ⊎ minus`, on the
  RAW lines (`applyDiff_eq_compile_rawLines`) or on the lines that reach the codec (`codecLines`:
  leading blanks trimmed, lines shorter than 2 bytes and `#` lines dropped — `ApplyDiff` filters the
  payload of a diff line exactly like the compiler filters a data line, so the first implies the
  second);
* no diff line is malformed (bad operation byte, or a payload reaching the codec that it rejects);
  true of every diff whose payloads are lines of the two files (`diff_wellformed`,
  `applyDiff_eq_compile_rawLines_of_files`).
  A record emitted by two different lines (or twice by a duplicated line) is stored twice and the
  removal of one of the lines removes one copy: with multisets of lines this is exactly right, a
  *set* difference of lines would be wrong.
-/
import DnsVerif.Proofs.ApplyDiff

namespace DnsVerif.Props.C08
open DnsVerif DnsVerif.Rdb DnsVerif.Spec DnsVerif.ApplyDiff DnsVerif.Props.C15

/-- every value the codec emits fits the uint32 length prefix -/
def SmallConv (conv : Conv) : Prop := ∀ l rs, conv l = some rs → SmallRecs rs

theorem smallConv_single (l0 : Bytes) (rs0 : Pairs) (h0 : SmallRecs rs0) :
    SmallConv (fun l => if l = l0 then some rs0 else none) := by
  intro l rs h
  dsimp only at h
  split at h
  · cases h; exact h0
  · cases h

theorem smallRecs_recsOf {conv : Conv} (h : SmallConv conv) (ls : List Bytes) :
    SmallRecs (recsOf conv ls) := by
  intro p hp
  obtain ⟨rs, hrs, hprs⟩ := List.mem_flatten.1 hp
  obtain ⟨l, _, hl⟩ := List.mem_filterMap.1 hrs
  exact h l rs hl p hprs

/-! ### compiling -/

/-- the compiled database holds exactly the records of the lines (and the feature record) -/
theorem compile_represents (perLine : List Pairs) (extra : Pairs)
    (hs : SmallRecs (perLine.flatten ++ extra)) :
    R (compileLines perLine extra) (fileMap perLine extra) :=
  compileRecs_refines _ hs

theorem compileFile_represents (conv : Conv) (extra : Pairs) (file : List Bytes) (s : KV)
    (hc : SmallConv conv) (he : SmallRecs extra) (h : compileFile conv extra file = some s) :
    Represents s (fileMap ((codecLines file).filterMap conv) extra) := by
  unfold compileFile at h
  cases hca : convertAll conv (codecLines file) with
  | none => rw [hca] at h; cases h
  | some per =>
    rw [hca] at h
    simp only [Option.map_some, Option.some.injEq] at h
    obtain ⟨e, _⟩ := convertAll_eq hca
    subst h e
    exact Represents.of_R (compile_represents _ extra ((smallRecs_recsOf hc _).append he))

example : compileFile (fun l => if l = [43, 97] then some [([1], [2])] else none) [([0], [9])]
    [[32, 43, 97], [35, 1], []] = some (compileLines [[([1], [2])]] [([0], [9])]) := by decide

/-! ### the diff applied to the compiled database is the database of the new file -/

/-- Record level. `A`, `B`: the record lists of the lines of the two files; `plus`, `minus`: those of
the `+` and `-` lines of the diff in any order, with `A ⊎ plus = B ⊎ minus` as multisets of lines.
From every store holding A's database (in particular `compileLines A extra`, and also the result of
earlier diffs) the single batch succeeds and the store then holds B's database. -/
theorem applyRecs_eq_compile (A B plus minus : List Pairs) (extra : Pairs) (s : KV)
    (hs : Represents s (fileMap A extra))
    (hplus : SmallRecs plus.flatten)
    (hdiff : (A ++ plus).Perm (B ++ minus)) :
    ∃ s', applyRecs s plus minus = .ok s' ∧ Represents s' (fileMap B extra) := by
  obtain ⟨m0, hR, he⟩ := hs
  apply executeBatch_perm s m0 hR plus.flatten minus.flatten hplus (fileMap B extra)
  intro k
  have h1 : (A.flatten ++ plus.flatten).Perm (B.flatten ++ minus.flatten) := by
    have := hdiff.flatten
    rwa [List.flatten_append, List.flatten_append] at this
  have h2 := valuesAt_perm (perm_with_extra (e := extra) h1) k
  have hek : (m0.get k).Perm (valuesAt (A.flatten ++ extra) k) := he k
  show (m0.get k ++ valuesAt plus.flatten k).Perm
    (valuesAt (B.flatten ++ extra) k ++ valuesAt minus.flatten k)
  simp only [valuesAt_append] at h2 hek ⊢
  exact (hek.append_right _).trans h2

/-- a diff without malformed line is the batch of its records -/
theorem applyDiff_eq_applyRecs (conv : Conv) (s : KV) (diff : List Bytes)
    (hwf : ∀ l ∈ diff, malformed conv l = false) :
    applyDiff conv s diff =
      match applyRecs s ((plusOf diff).filterMap conv) ((minusOf diff).filterMap conv) with
      | .ok s' => .ok s'
      | .error e => .error (.batch e) := by
  unfold applyDiff applyRecs
  rw [scanDiff_ok conv diff [] [] hwf]
  simp only [List.nil_append, recsOf]
  cases executeBatch s ((plusOf diff).filterMap conv).flatten
    ((minusOf diff).filterMap conv).flatten <;> rfl

/-- Line level, the property. `fa`, `fb`: the lines of the preprocessed files A and B that reach the
codec; `diff`: the lines of the diff file in any order, none malformed, with
`fa ⊎ (+ lines) = fb ⊎ (- lines)` as multisets. Then `ApplyDiff` on any store holding A's database
succeeds and the store holds B's database. -/
theorem applyDiff_eq_compile (conv : Conv) (extra : Pairs) (fa fb diff : List Bytes) (s : KV)
    (hc : SmallConv conv)
    (hs : Represents s (fileMap (fa.filterMap conv) extra))
    (hwf : ∀ l ∈ diff, malformed conv l = false)
    (hdiff : (fa ++ plusOf diff).Perm (fb ++ minusOf diff)) :
    ∃ s', applyDiff conv s diff = .ok s' ∧ Represents s' (fileMap (fb.filterMap conv) extra) := by
  have hrec : (fa.filterMap conv ++ (plusOf diff).filterMap conv).Perm
      (fb.filterMap conv ++ (minusOf diff).filterMap conv) := by
    have := hdiff.filterMap conv
    rwa [List.filterMap_append, List.filterMap_append] at this
  obtain ⟨s', h1, h2⟩ := applyRecs_eq_compile _ _ _ _ extra s hs (smallRecs_recsOf hc _) hrec
  refine ⟨s', ?_, h2⟩
  rw [applyDiff_eq_applyRecs conv s diff hwf, h1]

/-- With the two real compilations: the database after the diff and the fresh compilation of B are
equal as maps from key to multiset of values. -/
theorem applyDiff_eq_fresh_compile (conv : Conv) (extra : Pairs) (fileA fileB diff : List Bytes)
    (sa sb : KV) (hc : SmallConv conv) (he : SmallRecs extra)
    (hA : compileFile conv extra fileA = some sa) (hB : compileFile conv extra fileB = some sb)
    (hwf : ∀ l ∈ diff, malformed conv l = false)
    (hdiff : (codecLines fileA ++ plusOf diff).Perm (codecLines fileB ++ minusOf diff)) :
    ∃ s' m, applyDiff conv sa diff = .ok s' ∧ Represents s' m ∧ Represents sb m := by
  obtain ⟨s', h1, h2⟩ := applyDiff_eq_compile conv extra _ _ diff sa hc
    (compileFile_represents conv extra fileA sa hc he hA) hwf hdiff
  exact ⟨s', _, h1, h2, compileFile_represents conv extra fileB sb hc he hB⟩

/-- a diff made of lines of the two files is never malformed -/
theorem diff_wellformed (conv : Conv) (fa fb diff : List Bytes)
    (hA : ∀ l ∈ fa, (conv l).isSome) (hB : ∀ l ∈ fb, (conv l).isSome)
    (hop : ∀ l ∈ diff, classify l ≠ .bad)
    (hplus : ∀ p ∈ plusOf diff, p ∈ fb) (hminus : ∀ p ∈ minusOf diff, p ∈ fa) :
    ∀ l ∈ diff, malformed conv l = false := by
  intro l hl
  unfold malformed
  cases hc : classify l with
  | skip => rfl
  | bad => exact absurd hc (hop l hl)
  | plus p =>
    have : p ∈ plusOf diff := List.mem_filterMap.2 ⟨l, hl, by simp [hc]⟩
    have := hB p (hplus p this)
    simp only []
    cases hcp : conv p with
    | none => rw [hcp] at this; cases this
    | some _ => rfl
  | minus p =>
    have : p ∈ minusOf diff := List.mem_filterMap.2 ⟨l, hl, by simp [hc]⟩
    have := hA p (hminus p this)
    simp only []
    cases hcp : conv p with
    | none => rw [hcp] at this; cases this
    | some _ => rfl

/-- non-vacuity: two lines emit the SAME record; the file has both, the diff removes one of them and
adds a value under the same key, lines in "wrong" order (`-` after `+`, a comment in between) -/
example :
    let conv : Conv := fun l =>
      if l = [43, 97] then some [([1], [2])]            -- "+a"
      else if l = [43, 98] then some [([1], [2])]       -- "+b": the same record
      else if l = [43, 99] then some [([1], [3]), ([4], [5])]
      else none
    ∃ s', applyDiff conv (compileLines [[([1], [2])], [([1], [2])]] [([0], [9])])
        [[43, 43, 99], [35], [45, 43, 97]] = .ok s' ∧
      Represents s' (fileMap [[([1], [2])], [([1], [3]), ([4], [5])]] [([0], [9])]) := by
  intro conv
  have hc : SmallConv conv := by
    intro l rs h p hp
    simp only [conv] at h
    split at h
    · cases h; simp at hp; subst hp; decide
    · split at h
      · cases h; simp at hp; subst hp; decide
      · split at h
        · cases h; simp at hp; rcases hp with rfl | rfl <;> decide
        · cases h
  have := applyDiff_eq_compile conv [([0], [9])] [[43, 97], [43, 98]] [[43, 98], [43, 99]]
    [[43, 43, 99], [35], [45, 43, 97]] (compileLines [[([1], [2])], [([1], [2])]] [([0], [9])]) hc
    (Represents.of_R (compile_represents _ _ (by decide))) (by decide) (by decide)
  exact this

/-! ### histories -/

/-- a chain of files and diffs: every diff is well-formed and is a multiset difference from the
previous file to the next -/
def ChainOk (conv : Conv) : List Bytes → List (List Bytes × List Bytes) → Prop
  | _, [] => True
  | cur, (diff, nxt) :: rest =>
    (∀ l ∈ diff, malformed conv l = false) ∧
    (cur ++ plusOf diff).Perm (nxt ++ minusOf diff) ∧
    ChainOk conv nxt rest

def lastFile : List Bytes → List (List Bytes × List Bytes) → List Bytes
  | cur, [] => cur
  | _, (_, nxt) :: rest => lastFile nxt rest

/-- any number of successive diffs: the store ends up holding the database of the last file -/
theorem applyDiff_chain (conv : Conv) (extra : Pairs) (hc : SmallConv conv)
    (steps : List (List Bytes × List Bytes)) (f0 : List Bytes) (s : KV)
    (hs : Represents s (fileMap (f0.filterMap conv) extra))
    (hch : ChainOk conv f0 steps) :
    ∃ s', applyChain conv s (steps.map (·.1)) = .ok s' ∧
      Represents s' (fileMap ((lastFile f0 steps).filterMap conv) extra) := by
  induction steps generalizing f0 s with
  | nil => exact ⟨s, rfl, hs⟩
  | cons st rest ih =>
    obtain ⟨diff, nxt⟩ := st
    obtain ⟨hwf, hdiff, hrest⟩ := hch
    obtain ⟨s1, h1, hs1⟩ := applyDiff_eq_compile conv extra f0 nxt diff s hc hs hwf hdiff
    obtain ⟨s', h2, hs'⟩ := ih nxt s1 hs1 hrest
    refine ⟨s', ?_, hs'⟩
    unfold applyChain at h2 ⊢
    rw [List.map_cons, List.foldlM_cons, h1]
    exact h2

example : ChainOk (fun l => if l = [43, 97] then some [([1], [2])] else none) []
    [([[43, 43, 97]], [[43, 97]]), ([[43, 43, 97], [45, 43, 97], [45, 43, 97]], [])] := by
  refine ⟨by decide, by decide, by decide, by decide, trivial⟩

/-! ### all or nothing

`applyDiff` returns either a new store or an error; with an error the database is the old `s`
(the model writes only in the last step of `executeBatch`, after the whole batch was integrated in
memory; the correspondence check compares complete raw dumps before and after). -/

/-- a malformed line (bad operation byte, or a payload that reaches the codec — at least 2 bytes
after trimming, not a comment — and is rejected by it) anywhere in the diff: the call fails before
the batch is executed. A bare `+` / `-`, a shorter payload or a `#` payload is skipped instead. -/
theorem applyDiff_all_or_nothing_malformed (conv : Conv) (s : KV) (diff : List Bytes)
    (h : ∃ l ∈ diff, malformed conv l = true) :
    applyDiff conv s diff = .error .parse ∨ applyDiff conv s diff = .error .convert := by
  unfold applyDiff
  rcases scanDiff_error conv diff [] [] h with e | e <;> rw [e]
  · exact Or.inl rfl
  · exact Or.inr rfl

/-- some record is deleted more often than it is present (stored values plus the diff's own
additions, counted with multiplicity): the whole diff fails -/
theorem applyDiff_all_or_nothing (conv : Conv) (s : KV) (m : MultiMap) (diff : List Bytes)
    (hc : SmallConv conv) (hs : Represents s m)
    (hx : ∃ k v, List.count v (m.get k ++ valuesAt (recsOf conv (plusOf diff)) k) <
      List.count v (valuesAt (recsOf conv (minusOf diff)) k)) :
    ∃ e, applyDiff conv s diff = .error e := by
  by_cases hm : ∃ l ∈ diff, malformed conv l = true
  · rcases applyDiff_all_or_nothing_malformed conv s diff hm with e | e
    · exact ⟨_, e⟩
    · exact ⟨_, e⟩
  · have hwf : ∀ l ∈ diff, malformed conv l = false := by
      intro l hl
      cases h : malformed conv l with
      | false => rfl
      | true => exact absurd ⟨l, hl, h⟩ hm
    obtain ⟨m0, hR, he⟩ := hs
    have hx0 : ∃ k v, List.count v (m0.get k ++ valuesAt (recsOf conv (plusOf diff)) k) <
        List.count v (valuesAt (recsOf conv (minusOf diff)) k) := by
      obtain ⟨k, v, hlt⟩ := hx
      refine ⟨k, v, ?_⟩
      have := (he k).count_eq v
      rw [List.count_append] at hlt ⊢
      omega
    obtain ⟨e, he'⟩ := executeBatch_error_of s m0 hR _ _ (smallRecs_recsOf hc _) hx0
    refine ⟨.batch e, ?_⟩
    unfold applyDiff
    rw [scanDiff_ok conv diff [] [] hwf]
    simp only [List.nil_append]
    rw [he']

/-- in particular: a `-` line one of whose records is absent — its value is not under the key, or
the key does not exist (`m.get k = []`) — and is not added by the diff itself -/
theorem applyDiff_absent_record_fails (conv : Conv) (s : KV) (m : MultiMap) (diff : List Bytes)
    (hc : SmallConv conv) (hs : Represents s m) (k v : Bytes)
    (hdel : (k, v) ∈ recsOf conv (minusOf diff))
    (habs : v ∉ m.get k) (hnew : (k, v) ∉ recsOf conv (plusOf diff)) :
    ∃ e, applyDiff conv s diff = .error e := by
  apply applyDiff_all_or_nothing conv s m diff hc hs
  refine ⟨k, v, ?_⟩
  have h0 : List.count v (m.get k ++ valuesAt (recsOf conv (plusOf diff)) k) = 0 := by
    rw [List.count_eq_zero]
    intro hmem
    rcases List.mem_append.1 hmem with h | h
    · exact habs h
    · exact hnew (mem_valuesAt.1 h)
  have h1 : 0 < List.count v (valuesAt (recsOf conv (minusOf diff)) k) :=
    List.count_pos_iff.2 (mem_valuesAt.2 hdel)
  omega

example : ∃ e, applyDiff (fun l => if l = [43, 97] then some [([1], [2])] else none)
    (compileLines [] [([0], [9])]) [[45, 43, 97]] = .error e :=
  applyDiff_absent_record_fails _ _ (fileMap [] [([0], [9])]) _
    (smallConv_single _ _ (by decide))
    (Represents.of_R (compile_represents _ _ (by decide))) [1] [2] (by decide) (by decide) (by decide)

example : applyDiff (fun l => if l = [43, 97] then some [([1], [2])] else none)
    (compileLines [] [([0], [9])]) [[43, 43, 97], [42, 43, 97]] = .error .parse := by rfl

/-- not malformed (skipped like the compiler skips such data lines): a bare `+` / `-`, a payload of
fewer than 2 bytes after trimming, a comment payload — even when the codec would reject them -/
example : ∀ conv : Conv, ∀ l ∈ [[43], [45], [45, 32], [43, 32, 32, 67], [43, 32, 35, 120, 120], [45, 35, 120]],
    malformed conv l = false := by
  intro conv l hl
  simp only [List.mem_cons, List.not_mem_nil, or_false] at hl
  rcases hl with rfl | rfl | rfl | rfl | rfl | rfl <;> rfl

/-- … whereas a payload of 2 bytes or more that the codec rejects is an error, also with leading blanks -/
example : applyDiff (fun l => if l = [43, 97] then some [([1], [2])] else none)
    (compileLines [] [([0], [9])]) [[43], [43, 32, 32, 88, 88]] = .error .convert := by rfl

/-! ### the order of the diff lines is irrelevant -/

/-- any permutation of the diff lines: if one order applies, so does the other and the two results
are equal as maps from key to multiset of values -/
theorem applyDiff_order_irrelevant (conv : Conv) (s : KV) (m : MultiMap) (diff diff' : List Bytes)
    (hc : SmallConv conv) (hs : Represents s m) (hp : diff.Perm diff') {s1 : KV}
    (h1 : applyDiff conv s diff = .ok s1) :
    ∃ s2 m1, applyDiff conv s diff' = .ok s2 ∧ Represents s1 m1 ∧ Represents s2 m1 := by
  have hwf : ∀ l ∈ diff, malformed conv l = false := by
    intro l hl
    cases h : malformed conv l with
    | false => rfl
    | true =>
      rcases applyDiff_all_or_nothing_malformed conv s diff ⟨l, hl, h⟩ with e | e <;>
        rw [e] at h1 <;> cases h1
  have hwf' : ∀ l ∈ diff', malformed conv l = false := fun l hl => hwf l (hp.mem_iff.2 hl)
  obtain ⟨m0, hR, _⟩ := hs
  unfold applyDiff at h1 ⊢
  rw [scanDiff_ok conv diff [] [] hwf] at h1
  rw [scanDiff_ok conv diff' [] [] hwf']
  simp only [List.nil_append] at h1 ⊢
  cases he : executeBatch s (recsOf conv (plusOf diff)) (recsOf conv (minusOf diff)) with
  | error e => rw [he] at h1; cases h1
  | ok s1' =>
    rw [he] at h1
    cases h1
    have pp : (recsOf conv (plusOf diff)).Perm (recsOf conv (plusOf diff')) :=
      recsOf_perm conv (hp.filterMap _)
    have pm : (recsOf conv (minusOf diff)).Perm (recsOf conv (minusOf diff')) :=
      recsOf_perm conv (hp.filterMap _)
    obtain ⟨s2, m1, h2, hR1, hrep⟩ :=
      executeBatch_congr s m0 hR (smallRecs_recsOf hc _) pp pm he
    refine ⟨s2, m1, ?_, Represents.of_R hR1, hrep⟩
    rw [h2]

/-- … and if one order fails, every order fails -/
theorem applyDiff_order_irrelevant_error (conv : Conv) (s : KV) (m : MultiMap)
    (diff diff' : List Bytes) (hc : SmallConv conv) (hs : Represents s m) (hp : diff.Perm diff')
    {e : DErr} (h1 : applyDiff conv s diff = .error e) :
    ∃ e', applyDiff conv s diff' = .error e' := by
  cases h2 : applyDiff conv s diff' with
  | error e' => exact ⟨e', rfl⟩
  | ok s2 =>
    obtain ⟨s1, _, h, _, _⟩ := applyDiff_order_irrelevant conv s m diff' diff hc hs hp.symm h2
    rw [h1] at h; cases h

/-! ### the statement on RAW file lines

The compiler trims leading blanks and skips comments and lines shorter than 2 bytes; a preprocessed
file may contain such lines (`Preprocess` copies them). `ApplyDiff` filters the payload of every diff
line the same way, so a diff computed on the raw lines of the two files works. -/

/-- The property on raw lines. `fileA`, `fileB`: ALL lines of the two preprocessed files, as they
are; `diff`: the lines of the diff file in any order, none malformed, with
`fileA ⊎ (payloads of + lines) = fileB ⊎ (payloads of - lines)` as multisets of raw lines. The
database after the diff and the fresh compilation of B are equal as maps from key to multiset of
values. -/
theorem applyDiff_eq_compile_rawLines (conv : Conv) (extra : Pairs) (fileA fileB diff : List Bytes)
    (sa sb : KV) (hc : SmallConv conv) (he : SmallRecs extra)
    (hA : compileFile conv extra fileA = some sa) (hB : compileFile conv extra fileB = some sb)
    (hwf : ∀ l ∈ diff, malformed conv l = false)
    (hdiff : (fileA ++ rawPlusOf diff).Perm (fileB ++ rawMinusOf diff)) :
    ∃ s' m, applyDiff conv sa diff = .ok s' ∧ Represents s' m ∧ Represents sb m := by
  apply applyDiff_eq_fresh_compile conv extra fileA fileB diff sa sb hc he hA hB hwf
  have := codecLines_perm hdiff
  rwa [codecLines_append, codecLines_append, ← plusOf_eq_codecLines, ← minusOf_eq_codecLines] at this

/-- a diff whose payloads are raw lines of the two files (every `+` payload a line of B, every `-`
payload a line of A) and whose other lines are comments or empty is never malformed -/
theorem diff_wellformed_rawLines (conv : Conv) (extra : Pairs) (fileA fileB diff : List Bytes)
    (sa sb : KV)
    (hA : compileFile conv extra fileA = some sa) (hB : compileFile conv extra fileB = some sb)
    (hop : ∀ l ∈ diff, classify l ≠ .bad)
    (hplus : ∀ p ∈ rawPlusOf diff, p ∈ fileB) (hminus : ∀ p ∈ rawMinusOf diff, p ∈ fileA) :
    ∀ l ∈ diff, malformed conv l = false := by
  have acc : ∀ (file : List Bytes) (s : KV), compileFile conv extra file = some s →
      ∀ l ∈ codecLines file, (conv l).isSome := by
    intro file s h
    unfold compileFile at h
    cases hca : convertAll conv (codecLines file) with
    | none => rw [hca] at h; cases h
    | some per => exact (convertAll_eq hca).2
  have sub : ∀ (raw file : List Bytes), (∀ p ∈ raw, p ∈ file) →
      ∀ p ∈ codecLines raw, p ∈ codecLines file := by
    intro raw file h p hp
    obtain ⟨l, hl, e, hs⟩ := mem_codecLines.1 hp
    exact mem_codecLines.2 ⟨l, h l hl, e, hs⟩
  apply diff_wellformed conv (codecLines fileA) (codecLines fileB) diff (acc fileA sa hA)
    (acc fileB sb hB) hop
  · rw [plusOf_eq_codecLines]; exact sub _ _ hplus
  · rw [minusOf_eq_codecLines]; exact sub _ _ hminus

/-- the raw-line statement for such diffs, without mentioning the codec's verdicts -/
theorem applyDiff_eq_compile_rawLines_of_files (conv : Conv) (extra : Pairs)
    (fileA fileB diff : List Bytes) (sa sb : KV) (hc : SmallConv conv) (he : SmallRecs extra)
    (hA : compileFile conv extra fileA = some sa) (hB : compileFile conv extra fileB = some sb)
    (hop : ∀ l ∈ diff, classify l ≠ .bad)
    (hplus : ∀ p ∈ rawPlusOf diff, p ∈ fileB) (hminus : ∀ p ∈ rawMinusOf diff, p ∈ fileA)
    (hdiff : (fileA ++ rawPlusOf diff).Perm (fileB ++ rawMinusOf diff)) :
    ∃ s' m, applyDiff conv sa diff = .ok s' ∧ Represents s' m ∧ Represents sb m :=
  applyDiff_eq_compile_rawLines conv extra fileA fileB diff sa sb hc he hA hB
    (diff_wellformed_rawLines conv extra fileA fileB diff sa sb hA hB hop hplus hminus) hdiff

/-- non-vacuity, the former counterexamples: the file `" +a"`, `"C"`, `"+a"` (the first compiled like
`"+a"`, the second skipped by the compiler); the diff removes `" +a"` and `"C"`, adds the one-byte
line `"D"`, an empty line (a bare `+`) and the comment line `" #x"`. It applies; the result is the
database of the file `"+a"`, `"D"`, `""`, `" #x"`. -/
example :
    let conv : Conv := fun l => if l = [43, 97] then some [([1], [2])] else none
    ∃ s' m, applyDiff conv (compileLines [[([1], [2])], [([1], [2])]] [([0], [9])])
        [[45, 32, 43, 97], [45, 67], [43, 68], [43], [43, 32, 35, 120]] = .ok s' ∧
      Represents s' m ∧ Represents (compileLines [[([1], [2])]] [([0], [9])]) m := by
  intro conv
  exact applyDiff_eq_compile_rawLines_of_files conv [([0], [9])] [[32, 43, 97], [67], [43, 97]]
    [[43, 97], [68], [], [32, 35, 120]]
    [[45, 32, 43, 97], [45, 67], [43, 68], [43], [43, 32, 35, 120]] _ _
    (smallConv_single _ _ (by decide)) (by decide) (by decide) (by decide) (by decide) (by decide)
    (by decide) (by decide)

/-- the hypothesis "no malformed line" cannot be dropped from `applyDiff_eq_compile_rawLines`: a line
the codec rejects, added and removed by the same diff, keeps the multiset equation and fails -/
example :
    let conv : Conv := fun l => if l = [43, 97] then some [([1], [2])] else none
    ([] ++ rawPlusOf [[43, 88, 88], [45, 88, 88]]).Perm ([] ++ rawMinusOf [[43, 88, 88], [45, 88, 88]]) ∧
    applyDiff conv (compileLines [] []) [[43, 88, 88], [45, 88, 88]] = .error .convert := by
  intro conv
  exact ⟨by decide, by rfl⟩

/-- ONE codec is a real hypothesis: the file compiled with one default serial and the diff read with
another (different mtimes) — the `-` line of a `.` line no longer matches what is stored -/
example :
    let convA : Conv := fun l => if l = [46, 97] then some [([1], [0, 1])] else none  -- serial 1
    let convD : Conv := fun l => if l = [46, 97] then some [([1], [0, 2])] else none  -- serial 2
    compileFile convA [] [[46, 97]] = some (compileLines [[([1], [0, 1])]] []) ∧
    ∃ e, applyDiff convD (compileLines [[([1], [0, 1])]] []) [[45, 46, 97]] = .error e := by
  intro convA convD
  refine ⟨by decide, ?_⟩
  exact applyDiff_absent_record_fails convD _ (fileMap [[([1], [0, 1])]] []) _
    (smallConv_single _ _ (by decide))
    (Represents.of_R (compile_represents _ _ (by decide))) [1] [0, 2]
    (by decide) (by decide) (by decide)

end DnsVerif.Props.C08
