/-
C15 — RocksDB multi-value store behaves like a map of lists.

Property theorems only; helper lemmas are in `Proofs/MultiStore.lean`.
`R s m` is the refinement relation between the byte-level store (`Rdb.KV`, values are length-prefixed
chunk sequences) and the specification map of lists (`Spec.MultiMap`).
-/
import DnsVerif.Proofs.MultiStore

namespace DnsVerif.Props.C15
open DnsVerif DnsVerif.Rdb DnsVerif.Spec

/-- The stored bytes of every key are exactly the canonical encoding of the spec's list; absent
keys are exactly the keys whose list is empty; every value is shorter than 2^32 bytes (the
length prefix is a uint32; RocksDB itself caps values far below that). -/
def R (s : KV) (m : MultiMap) : Prop :=
  ∀ k, (m.get k = [] → s.get k = none) ∧
       (m.get k ≠ [] → s.get k = some (encode (m.get k))) ∧
       Small (m.get k)

theorem R.getD {s : KV} {m : MultiMap} (h : R s m) (k : Bytes) :
    (s.get k).getD [] = encode (m.get k) := by
  obtain ⟨h1, h2, _⟩ := h k
  by_cases he : m.get k = []
  · rw [h1 he, he]; rfl
  · rw [h2 he]; rfl

/-- codec round trip: reading back what `appendValues` wrote yields exactly the values, in order -/
theorem decode_encode (vs : List Bytes) (h : Small vs) : decode (encode vs) = .ok vs :=
  decode_encode' vs h

/-- `delValue` removes exactly the first chunk equal to the value, `ErrNXVal` iff absent -/
theorem delValue_encode (vs : List Bytes) (v : Bytes) (h : Small vs) :
    delValue (encode vs) v = if v ∈ vs then .ok (encode (vs.erase v)) else .error .nxVal :=
  delValue_encode' vs v h

theorem R_empty : R [] MultiMap.empty := by
  intro k
  refine ⟨fun _ => rfl, fun h => absurd rfl h, Small.nil⟩

/-- reading a key yields precisely the values present -/
theorem forEach_refines (s : KV) (m : MultiMap) (h : R s m) (k : Bytes) :
    forEach s k = .ok (m.get k) := by
  obtain ⟨h1, h2, h3⟩ := h k
  unfold forEach
  by_cases he : m.get k = []
  · rw [h1 he, he]; rfl
  · rw [h2 he]; exact decode_encode' _ h3

/-- Add appends one value to the key's list -/
theorem add_refines (s : KV) (m : MultiMap) (h : R s m) (k v : Bytes) (hv : v.length < 4294967296) :
    R (add s k v) (m.add k v) := by
  intro k'
  obtain ⟨h1, h2, h3⟩ := h k
  have hcur : (s.get k).getD [] = encode (m.get k) := by
    by_cases he : m.get k = []
    · rw [h1 he, he]; rfl
    · rw [h2 he]; rfl
  unfold add MultiMap.add MultiMap.set
  simp only [KV.get_put]
  by_cases hk : k' = k
  · simp only [hk, if_true]
    rw [hcur, appendValues_encode]
    refine ⟨fun h => by simp at h, fun _ => rfl, Small.append h3 (Small.single hv)⟩
  · simp only [hk, if_false]
    exact h k'

/-- Del removes exactly one equal value (and the key with its last value); it fails with the
matching error and without effect when the key or the value is absent -/
theorem del_refines (s : KV) (m : MultiMap) (h : R s m) (k v : Bytes) :
    match del s k v, m.del k v with
    | .ok s', .ok m' => R s' m'
    | .error .nxKey, .error .noKey => True
    | .error .nxVal, .error .noValue => True
    | _, _ => False := by
  obtain ⟨h1, h2, h3⟩ := h k
  unfold del MultiMap.del
  by_cases he : m.get k = []
  · rw [h1 he]; simp [he]
  · rw [h2 he]
    simp only [delValue_encode' _ v h3, he, if_false]
    by_cases hm : v ∈ m.get k
    · simp only [hm, if_true]
      have key : ∀ s', (s'.get k = if m.get k |>.erase v |>.isEmpty then none else some (encode ((m.get k).erase v))) →
          (∀ k', k' ≠ k → s'.get k' = s.get k') → R s' (m.set k ((m.get k).erase v)) := by
        intro s' hk hk' k'
        unfold MultiMap.set
        by_cases hkk : k' = k
        · subst hkk
          simp only [if_true]
          rw [hk]
          refine ⟨fun h => by simp [h], fun h => by simp [h], Small.erase h3 v⟩
        · simp only [hkk, if_false]
          rw [hk' k' hkk]
          exact h k'
      by_cases hemp : (encode ((m.get k).erase v)).isEmpty
      · rw [if_pos hemp]
        have : (m.get k).erase v = [] := by
          simpa [encode_eq_nil_iff] using hemp
        apply key
        · simp [KV.get_delete, this]
        · intro k' hk'; simp [KV.get_delete, hk']
      · rw [if_neg hemp]
        have : (m.get k).erase v ≠ [] := by
          intro h; apply hemp; simp [h, encode_nil]
        apply key
        · simp [KV.get_put, this]
        · intro k' hk'; simp [KV.get_put, hk']
    · simp [hm]

/-- A batch is "all additions, then all deletions" in one step, whatever the order and
duplication of keys inside it; a failing batch returns an error and (the caller keeping `s`)
changes nothing. -/
theorem batch_refines (s : KV) (m : MultiMap) (h : R s m) (adds dels : Pairs)
    (ha : ∀ p ∈ adds, p.2.length < 4294967296) :
    match executeBatch s adds dels, m.batch adds dels with
    | .ok s', some m' => R s' m'
    | .error _, none => True
    | _, _ => False := by
  by_cases hemp : adds.isEmpty ∧ dels.isEmpty
  · have h1 : adds = [] := by simpa using hemp.1
    have h2 : dels = [] := by simpa using hemp.2
    subst h1 h2
    have e1 : executeBatch s [] [] = .ok s := by simp [executeBatch]
    have e2 : m.batch [] [] = some m := rfl
    rw [e1, e2]; exact h
  · rw [executeBatch_eq s adds dels hemp]
    have hsa := sortPairs_sorted adds
    have hsd := sortPairs_sorted dels
    obtain ⟨_, hkeys⟩ := affectedKeys_spec _ _ hsa hsd
    -- the map after the additions
    let m1 := adds.foldl (fun acc p => acc.add p.1 p.2) m
    have hm1 : ∀ k, m1.get k = m.get k ++ (adds.filter (·.1 = k)).map (·.2) :=
      MultiMap.get_foldl_add m adds
    have hsmall : ∀ k, Small (m1.get k) := by
      intro k
      rw [hm1]
      refine Small.append (h k).2.2 ?_
      intro v hv
      obtain ⟨p, hp, rfl⟩ := List.mem_map.1 hv
      exact ha p (List.mem_filter.1 hp).1
    -- the per-key computation of the model is the per-key computation on lists
    have hper : ∀ k, perKey ((s.get k).getD []) (adds.filter (·.1 = k)) (dels.filter (·.1 = k)) =
        match delsKey (m1.get k) ((dels.filter (·.1 = k)).map (·.2)) with
        | some r => .ok (encode r)
        | none => .error .nxVal := by
      intro k
      rw [h.getD k, perKey_encode _ _ _ (by rw [← hm1]; exact hsmall k), ← hm1]
      rfl
    have hspec := MultiMap.foldlM_del m1 dels
    have hbatch : m.batch adds dels = dels.foldlM (fun (acc : MultiMap) p =>
        let cur := acc.get p.1
        if p.2 ∈ cur then some (acc.set p.1 (cur.erase p.2)) else none) m1 := rfl
    rw [hbatch]
    split at hspec
    · rename_i m' heq
      rw [heq]
      have hall : ∀ k ∈ affectedKeys (sortPairs adds) (sortPairs dels),
          perKey ((s.get k).getD []) (adds.filter (·.1 = k)) (dels.filter (·.1 = k)) =
            .ok ((fun k => encode (m'.get k)) k) := by
        intro k _
        rw [hper k, hspec k]
      rw [seqKeys_ok hall]
      show R _ m'
      intro k
      rw [get_writeBack]
      have hsm : Small (m'.get k) := fun x hx => hsmall k x (delsKey_subset (hspec k) x hx)
      by_cases hk : k ∈ affectedKeys (sortPairs adds) (sortPairs dels)
      · rw [if_pos hk]
        refine ⟨fun he => by simp [he, encode_nil], fun he => ?_, hsm⟩
        rw [if_neg]
        simpa [encode_eq_nil_iff] using he
      · rw [if_neg hk]
        have hna : adds.filter (·.1 = k) = [] := by
          rw [List.filter_eq_nil_iff]
          intro p hp hpk
          exact hk ((hkeys k).2 (Or.inl ⟨p, mem_sortPairs.2 hp, by simpa using hpk⟩))
        have hnd : dels.filter (·.1 = k) = [] := by
          rw [List.filter_eq_nil_iff]
          intro p hp hpk
          exact hk ((hkeys k).2 (Or.inr ⟨p, mem_sortPairs.2 hp, by simpa using hpk⟩))
        have := hspec k
        rw [hm1, hna, hnd] at this
        simp only [List.map_nil, List.append_nil, delsKey_nil, Option.some.injEq] at this
        rw [← this]
        exact h k
    · rename_i heq
      rw [heq]
      obtain ⟨k, hk⟩ := hspec
      have hin : k ∈ affectedKeys (sortPairs adds) (sortPairs dels) := by
        apply (hkeys k).2
        right
        cases hf : dels.filter (·.1 = k) with
        | nil => rw [hf] at hk; simp [delsKey_nil] at hk
        | cons p ps =>
          have hp : p ∈ dels.filter (·.1 = k) := by rw [hf]; simp
          have := List.mem_filter.1 hp
          exact ⟨p, mem_sortPairs.2 this.1, by simpa using this.2⟩
      have herr : perKey ((s.get k).getD []) (adds.filter (·.1 = k)) (dels.filter (·.1 = k)) =
          .error .nxVal := by
        rw [hper k, hk]
      obtain ⟨e, he⟩ := seqKeys_error (h := fun k => perKey ((s.get k).getD [])
        (adds.filter (·.1 = k)) (dels.filter (·.1 = k))) hin herr
      rw [he]
      trivial

/-- every reachable state: any history of Add / Del / batch keeps model and spec related -/
inductive Op where
  | add (k v : Bytes)
  | del (k v : Bytes)
  | batch (adds dels : Pairs)

def Op.small : Op → Prop
  | .add _ v => v.length < 4294967296
  | .del _ _ => True
  | .batch adds _ => ∀ p ∈ adds, p.2.length < 4294967296

def stepModel (s : KV) : Op → KV
  | .add k v => add s k v
  | .del k v => match del s k v with | .ok s' => s' | .error _ => s
  | .batch a d => match executeBatch s a d with | .ok s' => s' | .error _ => s

def stepSpec (m : MultiMap) : Op → MultiMap
  | .add k v => m.add k v
  | .del k v => match m.del k v with | .ok m' => m' | .error _ => m
  | .batch a d => match m.batch a d with | some m' => m' | none => m

theorem step_refines (s : KV) (m : MultiMap) (h : R s m) (o : Op) (ho : o.small) :
    R (stepModel s o) (stepSpec m o) := by
  cases o with
  | add k v => exact add_refines s m h k v ho
  | del k v =>
    have := del_refines s m h k v
    show R (match del s k v with | .ok s' => s' | .error _ => s)
      (match m.del k v with | .ok m' => m' | .error _ => m)
    cases hd : del s k v with
    | ok s' =>
      cases hm : m.del k v with
      | ok m' => rw [hd, hm] at this; exact this
      | error e => rw [hd, hm] at this; exact this.elim
    | error e =>
      cases hm : m.del k v with
      | ok m' => rw [hd, hm] at this; cases e <;> exact this.elim
      | error e' => exact h
  | batch a d =>
    have := batch_refines s m h a d ho
    show R (match executeBatch s a d with | .ok s' => s' | .error _ => s)
      (match m.batch a d with | some m' => m' | none => m)
    cases hd : executeBatch s a d with
    | ok s' =>
      cases hm : m.batch a d with
      | some m' => rw [hd, hm] at this; exact this
      | none => rw [hd, hm] at this; exact this.elim
    | error e =>
      cases hm : m.batch a d with
      | some m' => rw [hd, hm] at this; exact this.elim
      | none => exact h

theorem history_refines_from (ops : List Op) (h : ∀ o ∈ ops, o.small) (s : KV) (m : MultiMap)
    (hR : R s m) : R (ops.foldl stepModel s) (ops.foldl stepSpec m) := by
  induction ops generalizing s m with
  | nil => exact hR
  | cons o ops ih =>
    simp only [List.foldl_cons]
    exact ih (fun o' ho' => h o' (by simp [ho'])) _ _ (step_refines s m hR o (h o (by simp)))

theorem history_refines (ops : List Op) (h : ∀ o ∈ ops, o.small) :
    R (ops.foldl stepModel []) (ops.foldl stepSpec MultiMap.empty) :=
  history_refines_from ops h [] MultiMap.empty R_empty

/-- non-vacuity: a concrete non-trivial related pair -/
example : R (add (add [] [1] [2, 3]) [1] []) ((MultiMap.empty.add [1] [2, 3]).add [1] []) :=
  add_refines _ _ (add_refines _ _ R_empty _ _ (by decide)) _ _ (by decide)

end DnsVerif.Props.C15
