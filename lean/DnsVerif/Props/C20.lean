/-
C20 — Transport and plugin chain do not alter answers.

`chain cfg who q db` is what a listener's handler (`serveMux` → `maxAnswer` → [`any`] → [`whoami`]
→ database handler) does with an unpacked query `q`; `db : MaxAns → Query → Outcome` (the database
handler) and `who : Query → Outcome` (the content of the whoami answer) are arbitrary functions,
so every statement holds for every database, including ones whose handler does not reply or
panics. `listener` adds miekg's accept filter in front (library behaviour, transcribed).
Property theorems only; helper lemmas are in `Proofs/Chain.lean`.
-/
import DnsVerif.Proofs.Chain
import DnsVerif.Generated.Facts

namespace DnsVerif.Props.C20
open DnsVerif.Chain

/-! ### transparency -/

/-- At least one question, not an ANY query under refusal, name not the whoami domain ⇒ the
listener's answer is exactly the bare database handler's answer under the listener's max-answer
value — for every database handler. -/
theorem chain_transparent (cfg : Cfg) (who : Query → Outcome) (q : Query)
    (db : MaxAns → Query → Outcome)
    (hq : q.questions ≠ []) (hany : anyRefused cfg q = false) (hwho : whoamiHit cfg q = false) :
    chain cfg who q db = db cfg.maxAns q := by
  rw [chain_eq_flat]
  unfold chainFlat
  cases hqs : q.questions with
  | nil => exact absurd hqs hq
  | cons q0 rest =>
    have h1 : ¬ (cfg.refuseANY = true ∧ q0.qtype = typeANY) := by
      intro h
      have : anyRefused cfg q = true := (anyRefused_iff cfg q).2 ⟨q0, rest, hqs, h.1, h.2⟩
      rw [hany] at this; cases this
    have h2 : ¬ (cfg.whoamiDomain ≠ [] ∧ whoamiMatch cfg.domain q0.name = true) := by
      intro h
      have : whoamiHit cfg q = true := (whoamiHit_iff cfg q).2 ⟨q0, rest, hqs, h.1, h.2⟩
      rw [hwho] at this; cases this
    simp only [if_neg h1, if_neg h2]

/-- with neither front handler configured every query with a question is passed through -/
theorem chain_transparent_plain (maxAns : Nat) (who : Query → Outcome) (q : Query)
    (db : MaxAns → Query → Outcome) (hq : q.questions ≠ []) :
    chain { maxAns := maxAns } who q db = db maxAns q := by
  apply chain_transparent _ _ _ _ hq
  · simp [anyRefused]
  · simp [whoamiHit]

/-- the value the database handler sees is the listener's, never the default -/
example : chain { maxAns := 3 } (fun _ => .noReply)
    { questions := [⟨"four.ex.com.".toList, 1, 1⟩] }
    (fun m q => .reply { setReply q with rcode := m }) =
    .reply { id := 0, response := true, opcode := 0, rd := false, cd := false, rcode := 3,
             question := [⟨"four.ex.com.".toList, 1, 1⟩] } := by decide

/-! ### ANY refusal (RFC 8482) -/

/-- Refusal enabled and QTYPE = ANY ⇒ the reply is `SetReply` + exactly one HINFO record. -/
theorem any_refused (cfg : Cfg) (who : Query → Outcome) (q : Query) (db : MaxAns → Query → Outcome)
    (h : anyRefused cfg q = true) :
    ∃ q0, q.questions.head? = some q0 ∧
      chain cfg who q db = .reply { setReply q with answer := [hinfoRR q0.name] } := by
  obtain ⟨q0, rest, hqs, hr, ht⟩ := (anyRefused_iff cfg q).1 h
  refine ⟨q0, by simp [hqs], ?_⟩
  rw [chain_eq_flat]
  unfold chainFlat
  simp only [hqs, hr, ht, and_self, if_true, hinfoReply]

/-- … whose content is: NOERROR, one answer record HINFO "RFC 8482" "" IN TTL 86400 owned by the
query name, empty authority and additional sections, no OPT, AA and TC clear. -/
theorem any_refused_content (cfg : Cfg) (who : Query → Outcome) (q : Query)
    (db : MaxAns → Query → Outcome) (h : anyRefused cfg q = true) :
    ∃ q0 r, q.questions.head? = some q0 ∧ chain cfg who q db = .reply r ∧
      r.rcode = 0 ∧ r.aa = false ∧ r.tc = false ∧ r.id = q.id ∧ r.response = true ∧
      r.answer = [{ name := q0.name, rtype := 13, cls := 1, ttl := 86400,
                    rdata := .hinfo "RFC 8482" "" }] ∧
      r.ns = [] ∧ r.extra = [] ∧ r.opt = none ∧ r.question = [q0] := by
  obtain ⟨q0, hq0, hc⟩ := any_refused cfg who q db h
  refine ⟨q0, _, hq0, hc, rfl, rfl, rfl, rfl, rfl, rfl, rfl, rfl, rfl, ?_⟩
  cases hqs : q.questions with
  | nil => rw [hqs] at hq0; cases hq0
  | cons a rest =>
    rw [hqs] at hq0
    simp only [List.head?_cons, Option.some.injEq] at hq0
    simp [setReply, hqs, hq0]

/-- nothing from the database (nor from whoami): the reply is the same for all databases -/
theorem any_refused_independent (cfg : Cfg) (q : Query) (h : anyRefused cfg q = true) :
    ∀ who₁ who₂ db₁ db₂, chain cfg who₁ q db₁ = chain cfg who₂ q db₂ := by
  intro who₁ who₂ db₁ db₂
  obtain ⟨q0, hq0, h1⟩ := any_refused cfg who₁ q db₁ h
  obtain ⟨q0', hq0', h2⟩ := any_refused cfg who₂ q db₂ h
  rw [hq0] at hq0'
  cases hq0'
  rw [h1, h2]

example :
    chain { refuseANY := true, whoamiDomain := "ex.com".toList } (fun _ => .panic)
      { id := 7, rd := true, questions := [⟨"Ex.COM.".toList, 255, 1⟩] } (fun _ _ => .panic) =
    .reply { id := 7, response := true, opcode := 0, rd := true, cd := false, rcode := 0,
             question := [⟨"Ex.COM.".toList, 255, 1⟩],
             answer := [⟨"Ex.COM.".toList, 13, 1, 86400, .hinfo "RFC 8482" ""⟩] } := by decide

/-- refusal off: ANY goes to the database like any other type -/
example : chain {} (fun _ => .noReply) { questions := [⟨"ex.com.".toList, 255, 1⟩] } (fun _ _ => .panic)
    = .panic := by decide

/-! ### no question -/

/-- A message without a question that reaches the handler is answered by `dns.HandleFailed`:
SERVFAIL, independent of database and whoami; no handler below the guard runs. -/
theorem no_question_failure (cfg : Cfg) (who : Query → Outcome) (q : Query)
    (db : MaxAns → Query → Outcome) (h : q.questions = []) :
    chain cfg who q db = .reply { setReply q with rcode := rcodeServerFailure } ∧
    (∀ who' db', chain cfg who' q db' = chain cfg who q db) := by
  have key : ∀ who' db', chain cfg who' q db' =
      .reply { setReply q with rcode := rcodeServerFailure } := by
    intro who' db'
    rw [chain_eq_flat]
    unfold chainFlat
    simp only [h, handleFailed]
  exact ⟨key who db, fun who' db' => by rw [key who' db', key who db]⟩

/-- The chain itself never panics: the `r.Question[0]` index expressions of `anyHandler` and
`whoami.Handler` are only reached behind the guard. -/
theorem chain_no_panic (cfg : Cfg) (who : Query → Outcome) (q : Query)
    (db : MaxAns → Query → Outcome)
    (hdb : ∀ m, db m q ≠ .panic) (hwho : who q ≠ .panic) :
    chain cfg who q db ≠ .panic := by
  rw [chain_eq_flat]
  unfold chainFlat
  cases hqs : q.questions with
  | nil => simp [handleFailed]
  | cons q0 rest =>
    simp only
    split
    · intro h; cases h
    · split
      · exact hwho
      · exact hdb _

/-- without the guard the first index expression would panic (the guard is load-bearing) -/
example : anyHandler (dbHandler fun _ _ => .noReply) {} { questions := [] } = .panic := by decide

/-- Over the network (miekg's default accept filter in front): a query packet with QDCOUNT ≠ 1
never reaches the handler; the reply is the header echoed with FORMERR, whatever the database. -/
theorem listener_no_question (cfg : Cfg) (who : Query → Outcome) (h : Hdr) (u : Option Query)
    (db : MaxAns → Query → Outcome)
    (hqr : h.qr = false) (hop : h.opcode = opcodeQuery ∨ h.opcode = opcodeNotify)
    (hqd : h.qdcount ≠ 1) :
    listener cfg who h u db = .reply (rejectReply h rcodeFormatError) := by
  unfold listener serveDNS msgAccept
  have h2 : ¬ (h.opcode ≠ opcodeQuery ∧ h.opcode ≠ opcodeNotify) := by
    intro ⟨a, b⟩; cases hop with
    | inl x => exact a x
    | inr x => exact b x
  simp [hqr, h2, hqd]

/-- an accepted packet is handed to the chain unchanged -/
theorem listener_accepts (cfg : Cfg) (who : Query → Outcome) (h : Hdr) (q : Query)
    (db : MaxAns → Query → Outcome) (ha : msgAccept h = .accept) :
    listener cfg who h (some q) db = chain cfg who q db := by
  unfold listener serveDNS
  rw [ha]

example : listener { refuseANY := true, whoamiDomain := "w.ex.com".toList } (fun _ => .panic)
    { id := 9, qdcount := 0, rd := true } none (fun _ _ => .panic) =
    .reply { id := 9, response := true, opcode := 0, rd := true, cd := false, rcode := 1 } := by
  decide

/-- The guard is reachable from the network: a packet whose header says QDCOUNT = 1 but that ends
after the header passes the accept filter, unpacks as a message without question (miekg returns
"just the header") and is answered SERVFAIL by the guard. -/
theorem listener_header_only (cfg : Cfg) (who : Query → Outcome) (h : Hdr) (q : Query)
    (db : MaxAns → Query → Outcome) (ha : msgAccept h = .accept) (hq : q.questions = []) :
    listener cfg who h (some q) db = .reply { setReply q with rcode := rcodeServerFailure } := by
  rw [listener_accepts cfg who h q db ha]
  exact (no_question_failure cfg who q db hq).1

example : listener { refuseANY := true, whoamiDomain := "w.ex.com".toList } (fun _ => .panic)
    { id := 9, qdcount := 1, rd := true } (some { id := 9, rd := true }) (fun _ _ => .panic) =
    .reply { id := 9, response := true, opcode := 0, rd := true, cd := false, rcode := 2 } := by
  decide

/-! ### whoami -/

/-- the match rule: same byte length and equal after lower-casing the query name -/
theorem whoamiMatch_iff (domain name : Name) :
    whoamiMatch domain name = true ↔
      name.length = domain.length ∧ toLower name = domain := by
  unfold whoamiMatch
  simp

/-- The whoami answer is given exactly on a match (and not under ANY refusal) … -/
theorem whoami_on_match (cfg : Cfg) (who : Query → Outcome) (q : Query)
    (db : MaxAns → Query → Outcome)
    (hany : anyRefused cfg q = false) (hwho : whoamiHit cfg q = true) :
    chain cfg who q db = who q := by
  obtain ⟨q0, rest, hqs, hd, hm⟩ := (whoamiHit_iff cfg q).1 hwho
  rw [chain_eq_flat]
  unfold chainFlat
  have h1 : ¬ (cfg.refuseANY = true ∧ q0.qtype = typeANY) := by
    intro h
    have : anyRefused cfg q = true := (anyRefused_iff cfg q).2 ⟨q0, rest, hqs, h.1, h.2⟩
    rw [hany] at this; cases this
  simp only [hqs, if_neg h1, hd, hm, ne_eq, not_false_eq_true, and_self, if_true]

/-- … and on no other query: without a match the reply does not depend on the whoami handler. -/
theorem whoami_only_on_match (cfg : Cfg) (q : Query) (db : MaxAns → Query → Outcome)
    (hwho : whoamiHit cfg q = false) :
    ∀ who₁ who₂, chain cfg who₁ q db = chain cfg who₂ q db := by
  intro who₁ who₂
  rw [chain_eq_flat, chain_eq_flat]
  unfold chainFlat
  cases hqs : q.questions with
  | nil => rfl
  | cons q0 rest =>
    have h2 : ¬ (cfg.whoamiDomain ≠ [] ∧ whoamiMatch cfg.domain q0.name = true) := by
      intro h
      have : whoamiHit cfg q = true := (whoamiHit_iff cfg q).2 ⟨q0, rest, hqs, h.1, h.2⟩
      rw [hwho] at this; cases this
    simp only [if_neg h2]

/-- configuration `WhoAmI.Ex.Com` (no trailing dot, mixed case): hit for any spelling of the
name, miss for a longer or a shorter one -/
example :
    let cfg : Cfg := { whoamiDomain := "WhoAmI.Ex.Com".toList }
    cfg.domain = "whoami.ex.com.".toList ∧
    whoamiHit cfg { questions := [⟨"WHOAMI.ex.com.".toList, 16, 1⟩] } = true ∧
    whoamiHit cfg { questions := [⟨"a.whoami.ex.com.".toList, 16, 1⟩] } = false ∧
    whoamiHit cfg { questions := [⟨"whoami.ex.co.".toList, 16, 1⟩] } = false ∧
    whoamiHit {} { questions := [⟨".".toList, 16, 1⟩] } = false := by decide

/-! ### truncation (abstract rule) -/

/-- For a database handler that scrubs a complete reply `r` before writing: on a transparent
query the listener's reply fits the client's size limit (512 without EDNS over UDP, the advertised
size otherwise, 65535 over TCP); it is `r` itself when `r` fits, and otherwise the cut reply, with
TC set whenever answer or authority records were dropped. -/
theorem oversize_truncated (T : TruncRule) (cfg : Cfg) (who : Query → Outcome) (q : Query)
    (core : MaxAns → Query → Outcome) (r : Response)
    (hq : q.questions ≠ []) (hany : anyRefused cfg q = false) (hwho : whoamiHit cfg q = false)
    (hr : core cfg.maxAns q = .reply r) :
    ∃ r', chain cfg who q (scrubbedDb T core) = .reply r' ∧
      T.size r' ≤ sizeLimit q ∧
      (fits T r (sizeLimit q) = true → r' = r) ∧
      (r'.answer ≠ r.answer ∨ r'.ns ≠ r.ns → r'.tc = true) := by
  rw [chain_transparent cfg who q _ hq hany hwho]
  unfold scrubbedDb
  rw [hr]
  simp only [scrubOutcome, scrub]
  by_cases hf : fits T r (sizeLimit q) = true
  · refine ⟨r, by rw [if_pos hf], ?_, fun _ => rfl, ?_⟩
    · simpa [fits] using hf
    · intro h; cases h with
      | inl h => exact absurd rfl h
      | inr h => exact absurd rfl h
  · refine ⟨T.cut (sizeLimit q) r, by rw [if_neg hf], T.cut_fits _ _, fun h => absurd h hf,
      T.cut_tc _ _⟩

/-- over TCP a reply of at most 65535 bytes is complete -/
theorem tcp_complete (T : TruncRule) (cfg : Cfg) (who : Query → Outcome) (q : Query)
    (core : MaxAns → Query → Outcome) (r : Response)
    (hq : q.questions ≠ []) (hany : anyRefused cfg q = false) (hwho : whoamiHit cfg q = false)
    (hr : core cfg.maxAns q = .reply r) (htcp : q.proto = .tcp) (hsz : T.size r ≤ maxMsgSize) :
    chain cfg who q (scrubbedDb T core) = .reply r := by
  obtain ⟨r', hc, _, hfit, _⟩ := oversize_truncated T cfg who q core r hq hany hwho hr
  have : fits T r (sizeLimit q) = true := by
    simp [fits, sizeLimit, htcp, hsz]
  rw [hc, hfit this]

/-- the size limits -/
example : sizeLimit { proto := .udp } = 512 ∧ sizeLimit { proto := .udp, ednsSize := some 100 } = 512 ∧
    sizeLimit { proto := .udp, ednsSize := some 1232 } = 1232 ∧
    sizeLimit { proto := .tcp, ednsSize := some 1232 } = 65535 := by decide

/-- non-vacuity of the rule: a toy `TruncRule` (size = number of answer records) cuts a 3-record
reply for a limit of … 512 records is never reached, so use the rule on a limit-2 instance -/
example :
    let T : TruncRule :=
      { size := fun r => r.answer.length
        cut := fun n r => { r with answer := r.answer.take n, tc := true }
        cut_fits := fun n r => by simp [List.length_take]; omega
        cut_tc := fun _ _ _ => rfl }
    let r : Response := { setReply {} with answer := [hinfoRR ['a'], hinfoRR ['b'], hinfoRR ['c']] }
    fits T r 2 = false ∧ (T.cut 2 r).tc = true ∧ T.size (T.cut 2 r) = 2 := by
  refine ⟨by decide, rfl, by decide⟩


/-- the fields of the synthesized HINFO answer (literals or package constants), re-extracted from
`fbserver/any.go` on every run, are the ones the model uses. A field is `none` when the record is
no longer built by one composite literal with constant fields; the tie is then the behavioural one
alone: the reply to every ANY query over real sockets is compared field by field on every run. -/
theorem any_hinfo_matches :
    (Generated.fbserver_any_hinfo_cpu.all (· == Chain.hinfoCpu)) = true ∧
    (Generated.fbserver_any_hinfo_os.all (· == Chain.hinfoOs)) = true ∧
    (Generated.fbserver_any_hinfo_ttl.all (· == toString Chain.hinfoTtl)) = true := by decide +kernel

end DnsVerif.Props.C20
