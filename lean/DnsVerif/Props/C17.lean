/-
C17 — Quoting is a bijection that never emits a field separator.

Property theorems only (helper lemmas are in `Proofs/Quote*.lean`). All statements quantify over
*every* byte string and *every* printability predicate (Go's `strconv.IsPrint` enters the model as a
parameter; the correspondence check runs the model with Go's real table).
-/
import DnsVerif.Proofs.QuoteMain

namespace DnsVerif.Props.C17
open DnsVerif DnsVerif.Quote

/-- Unquoting the quoted form of any byte string gives the string back. -/
theorem bunquote_bquote (isPrint : Nat → Bool) (b : Bytes) :
    bunquote (bquote isPrint b) = .ok b := by
  rw [bquote_eq]
  unfold bunquote
  by_cases he : (post (quoteBody isPrint b.length b)).isEmpty = true
  · rw [if_pos he]
    have hnil : post (quoteBody isPrint b.length b) = [] := by simpa using he
    have hraw := post_quoteBody_raw isPrint b.length b (Nat.le_refl _) (by rw [hnil]; simp)
    rw [hraw]
  · rw [if_neg he]
    by_cases hc : (post (quoteBody isPrint b.length b)).contains bslash = true
    · rw [if_neg (by simpa using hc)]
      have := unquoteLoop_post_quoteBody isPrint b.length b (Nat.le_refl _)
        (post (quoteBody isPrint b.length b)).length [] (Nat.le_refl _)
      simpa using this
    · rw [if_pos hc]
      have hno : bslash ∉ post (quoteBody isPrint b.length b) := by simpa using hc
      rw [post_quoteBody_raw isPrint b.length b (Nat.le_refl _) hno]

/-- The quoted form never contains a comma or a colon — for every printability predicate. -/
theorem bquote_no_comma_colon (isPrint : Nat → Bool) (b : Bytes) :
    (0x2c : UInt8) ∉ bquote isPrint b ∧ (0x3a : UInt8) ∉ bquote isPrint b := by
  rw [bquote_eq]
  unfold post pre
  constructor
  · apply replacePair_preserves_not_mem _ _ _ _ (by decide)
    apply replaceByte_preserves_not_mem _ _ _ _ (by decide)
    exact replaceByte_not_mem _ _ _ (by decide)
  · apply replacePair_preserves_not_mem _ _ _ _ (by decide)
    exact replaceByte_not_mem _ _ _ (by decide)

/-- The quoted form never contains a newline, provided newline is not classed as printable
(true of Go's table: checked on every run by the correspondence, which feeds the real table). -/
theorem bquote_no_newline (isPrint : Nat → Bool) (h10 : isPrint 10 = false) (b : Bytes) :
    (0x0a : UInt8) ∉ bquote isPrint b := by
  rw [bquote_eq]
  exact post_quoteBody_no_nl isPrint h10 _ _

/-- Quoting is injective (a consequence of the round trip): distinct names/texts/rdata never
share a data-file field representation. -/
theorem bquote_injective (isPrint : Nat → Bool) (a b : Bytes)
    (h : bquote isPrint a = bquote isPrint b) : a = b := by
  have ha := bunquote_bquote isPrint a
  have hb := bunquote_bquote isPrint b
  rw [h, hb] at ha
  exact (Except.ok.inj ha).symm

/-! Sanity evaluations of the model on a concrete string (tests, not the theorems above):
`a , : " \ \n 0xff`  quotes to  `a\054\072"\\\n\xff`. -/
def sampleIn : Bytes := [0x61, 0x2c, 0x3a, 0x22, 0x5c, 0x0a, 0xff]
def sampleOut : Bytes :=
  [0x61, 0x5c, 0x30, 0x35, 0x34, 0x5c, 0x30, 0x37, 0x32, 0x22, 0x5c, 0x5c, 0x5c, 0x6e,
   0x5c, 0x78, 0x66, 0x66]
example : bquote (fun r => decide (0x20 ≤ r ∧ r < 0x7f)) sampleIn = sampleOut := by decide +kernel
example : (match bunquote sampleOut with | .ok b => b == sampleIn | .error _ => false) = true := by
  decide +kernel

end DnsVerif.Props.C17
