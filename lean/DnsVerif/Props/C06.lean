/-
C06 — No database backend is used after close, closed twice, or leaked.

Property theorems only; helper lemmas go to `Proofs/Life.lean`. The statements are about every
state reachable by *any* sequence of operations (any length, any number of readers and of
timed-out reload goroutines) — `run ops = ops.foldl step {}`.
-/
import DnsVerif.Proofs.Life
import DnsVerif.Generated.Facts

namespace DnsVerif.Props.C06
open DnsVerif.Life

/-- never closed twice, never touched after close -/
def Safe (s : St) : Prop := ∀ b ∈ s.backends, b.closes ≤ 1 ∧ b.badUses = 0

def backendOpen (s : St) (b : Nat) : Prop := ∃ x, s.backends[b]? = some x ∧ x.closes = 0

/-- a backend stays open while it is the served one or any reader still holds it -/
def Live (s : St) : Prop :=
  (s.down = false → backendOpen s (wrapperDbi s s.served)) ∧
  ∀ w ∈ s.readers, backendOpen s (wrapperDbi s w)

/-- a backend that is no longer served (replaced, rejected, timed out, or the server is shut down),
is held by no reader and is not in use by a still-running reload goroutine has been closed
(exactly once, by `Safe`) — in particular nothing is leaked -/
def Prompt (s : St) : Prop :=
  ∀ b x, s.backends[b]? = some x →
    (s.down = true ∨ b ≠ wrapperDbi s s.served) →
    (∀ w ∈ s.readers, wrapperDbi s w ≠ b) →
    (∀ p ∈ s.pending, p.on ≠ b) →
    x.closes = 1

theorem life_all (ops : List Op) : Safe (run ops) ∧ Live (run ops) ∧ Prompt (run ops) := by
  have h := inv_run ops
  exact ⟨h.safe_mem, ⟨h.live_served, fun w hw => h.live_reader hw⟩, h.prompt⟩

/-- at quiescence after shutdown every backend ever opened has been closed exactly once -/
theorem quiescent_closed_once (ops : List Op)
    (hd : (run ops).down = true) (hr : (run ops).readers = []) (hp : (run ops).pending = []) :
    ∀ b ∈ (run ops).backends, b.closes = 1 ∧ b.badUses = 0 := by
  obtain ⟨hsafe, _, hprompt⟩ := life_all ops
  intro b hb
  obtain ⟨i, hi⟩ := List.mem_iff_getElem?.1 hb
  refine ⟨hprompt i b hi (Or.inl hd) ?_ ?_, (hsafe b hb).2⟩
  · intro w hw; rw [hr] at hw; cases hw
  · intro p hp'; rw [hp] at hp'; cases hp'

/-- non-vacuity: a history with readers across a switch, a rejected reload, a timed-out catch-up
finishing after shutdown; it reaches quiescence with three backends, all closed once -/
example :
    let s := run [.acquire, .reloadNewOk, .reloadValFailNew, .reloadTimeoutPending .same,
                  .use 0, .release 0, .shutdown, .lateComplete]
    s.down = true ∧ s.readers = [] ∧ s.pending = [] ∧ s.backends.length = 3 ∧
    s.backends.all (fun b => b.closes = 1 ∧ b.badUses = 0) = true := by
  decide


/-! ### the acquisition is atomic with respect to reloads

The model's `acquire` reads the served database and takes its reference in one step. The code does
so only if the pointer read and `db.NewReader` (the reference count increment) both lie inside one
shared section of `reloadMu`, which `Reload` and `Close` hold exclusively: the trace of
`acquireReaderGen` is re-extracted from `dnsserver/db.go` on every run. -/

/-- one shared section: `RLock`, its deferred `RUnlock`, and everything else while it is held -/
def sharedSection : List String → Bool
  | "RLock" :: "deferRUnlock" :: rest =>
    rest.all (fun e => e == "R" || e == "call:NewReader") && rest.contains "R" && rest.contains "call:NewReader"
  | _ => false

theorem acquire_atomic : sharedSection Generated.dnsserver_acquireReaderGen_trace = true := by decide

/-- reading the pointer under the lock and taking the reference after releasing it is rejected -/
example : sharedSection ["RLock", "R", "RUnlock", "call:NewReader"] = false := by decide


/-- one exclusive section from the first access to the last: `Lock`, its deferred `Unlock`, then the
read of the served database, `db.Reload` on it, the pointer swap and the cache purge -/
def exclusiveSection : List String → Bool
  | "Lock" :: "deferUnlock" :: rest =>
    rest.all (fun e => e == "R" || e == "W" || e == "call:Reload" || e == "call:Purge")
      && rest.contains "call:Reload" && rest.contains "W"
  | _ => false

/-- `FBDNSDB.Reload` holds `reloadMu` exclusively from before it reads the served database until
after the swap and the purge (the model's reload operations are single steps for this reason) -/
theorem reload_exclusive : exclusiveSection Generated.dnsserver_Reload_trace = true := by decide

/-- a reload that takes the lock for the swap only is rejected -/
example : exclusiveSection ["R", "call:Reload", "Lock", "deferUnlock", "W", "call:Purge"] = false := by decide

end DnsVerif.Props.C06
