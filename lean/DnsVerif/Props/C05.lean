/-
C05 — A reload switches generations atomically and visibly.

Property theorems only; helper lemmas are in `Proofs/Reload.lean`, the model in `Model/Reload.lean`.
Every statement is about `run s steps = steps.foldl step s`, i.e. EVERY interleaving of query steps
(`qstart`, `qread i`, `qfinish i` of any number of queries), reload steps of every kind and outcome,
and `publish` steps of the environment. `Start b disk p g` is the server after `Load()`.

`forward` = the operator only moves forward (no publish lowers a generation, no successful reload
installs a generation below the served one). Without it "generations never go backwards" is false
for trivial reasons (switching back to an older database).

Two parts of the property statement are FALSE for the code as it is and are kept as `def … : Prop`
with a proved negation and a proved `_partial` version:
* `single_generation_full` — a same-path RocksDB reload is `CatchWithPrimary` on the instance that
  in-flight readers hold; a query whose reads straddle it mixes two generations;
* `failed_reload_is_noop_full` — when that catch-up is followed by a validation-key failure or the
  reload times out, `Reload` returns an error but the served content has already advanced.
-/
import DnsVerif.Proofs.Reload
import DnsVerif.Generated.LockFacts

namespace DnsVerif.Props.C05
open DnsVerif.Reload

abbrev Start (b : Backend) (disk : Nat → Option Nat) (p g : Nat) : Srv := init b disk p g

/-! ### tie to the source: why `qstart` and `reload` are atomic with respect to each other -/

open DnsVerif.Generated.LockFacts in
/-- Checked by the kernel against the lock table extracted from the CURRENT source: outside the
initialisation functions every write of `h.dnsdb` / `h.dbConfig.Path` happens under `reloadMu` held
exclusively and every read under `reloadMu` (in whichever function or helper the access lives: the
rows of a helper list the lock every one of its callers holds); `FBDNSDB.Reload` itself holds it
exclusively at each of its accesses; the pointer and the path are written, and the path read, under
the exclusive lock somewhere, and the pointer is read under the shared lock somewhere (the query
path: `acquireReaderGen`, where the reader pins its instance - that its pointer read, `NewReader` and
the generation read form ONE shared section is C06's `acquire_atomic`, on the lock trace);
`ServeDNSWithRCODE` itself touches neither field. Hence no `qstart` can fall between the first and the
last of a reload's accesses: one model step each. -/
theorem reload_and_acquire_exclude_each_other :
    ((rows.filter fun r => !r.init ∧ r.write ∧
        (r.field = "FBDNSDB.dnsdb" ∨ r.field = "FBDNSDB.dbConfig.Path")).all
      fun r => r.locks.contains ("FBDNSDB.reloadMu", true)) = true ∧
    ((rows.filter fun r => !r.init ∧ !r.write ∧
        (r.field = "FBDNSDB.dnsdb" ∨ r.field = "FBDNSDB.dbConfig.Path")).all
      fun r => r.locks.contains ("FBDNSDB.reloadMu", true) ∨ r.locks.contains ("FBDNSDB.reloadMu", false)) = true ∧
    ((rows.filter fun r => r.fn = "FBDNSDB.Reload" ∧
        (r.field = "FBDNSDB.dnsdb" ∨ r.field = "FBDNSDB.dbConfig.Path")).all
      fun r => r.locks.contains ("FBDNSDB.reloadMu", true)) = true ∧
    (rows.any fun r => !r.init ∧ r.field = "FBDNSDB.dnsdb" ∧ r.write) = true ∧
    (rows.any fun r => !r.init ∧ r.field = "FBDNSDB.dbConfig.Path" ∧ r.write) = true ∧
    (rows.any fun r => !r.init ∧ r.field = "FBDNSDB.dbConfig.Path" ∧ !r.write ∧
        r.locks.contains ("FBDNSDB.reloadMu", true)) = true ∧
    (rows.any fun r => !r.init ∧ !r.write ∧ r.field = "FBDNSDB.dnsdb" ∧
        r.locks.contains ("FBDNSDB.reloadMu", false)) = true ∧
    ((rows.filter fun r => r.fn = "FBDNSDB.ServeDNSWithRCODE").all
      fun r => r.field ≠ "FBDNSDB.dnsdb" ∧ r.field ≠ "FBDNSDB.dbConfig.Path") = true := by
  decide +kernel

/-! ### visibility -/

/-- A query whose `qstart` follows a reload step reads only generations ≥ the one that is served
when the reload has returned (for a successful reload: the generation it installed). -/
theorem visibility (b : Backend) (disk : Nat → Option Nat) (p g : Nat)
    (pre post : List Step) (k : Kind) (o : Outcome)
    (hf : forward (Start b disk p g) (pre ++ .reload k o :: post) = true) :
    let s2 := run (Start b disk p g) (pre ++ [.reload k o])
    ∀ i, s2.nq ≤ i → i < (run s2 post).nq →
      ∀ r ∈ ((run s2 post).queries i).reads, servedGen s2 ≤ r := by
  intro s2 i hn hi r hr
  have hsplit : pre ++ .reload k o :: post = (pre ++ [.reload k o]) ++ post := by simp
  rw [hsplit, forward_append, Bool.and_eq_true] at hf
  have h0 : Inv0 s2 := inv0_run (inv0_init b disk p g) _
  have h1 : Inv1 s2 := inv1_run (inv0_init b disk p g) (inv1_init b disk p g) _ hf.1
  have hs := startGen_ge_of_started_after h0 h1 post hf.2 (servedGen s2) s2.nq (Nat.le_refl _)
    (fun j hj hj' => absurd hj' (by omega)) i hn hi
  have h1' : Inv1 (run s2 post) := inv1_run h0 h1 post hf.2
  exact Nat.le_trans hs (h1'.q_lo i hi r hr)

/-- a successful reload installs what is on disk at its target path at that moment -/
theorem reload_installs (s : Srv) (k : Kind) (d : Nat) (hd : s.disk (target s k) = some d) :
    servedGen (step s (.reload k .ok)) = d := by
  show servedGen (reload s k .ok) = d
  rcases reload_cases s k .ok with e | ⟨d', hd', _, ho, e⟩ | ⟨d', hd', _, _, e⟩ | ⟨d', hd', _, _, e⟩
  · -- `reload … ok` on an existing path is a catch-up or a switch, both install `d`
    cases hc : isCatchup s k with
    | true =>
      rw [reload_catch_eq hd hc]
      show (setAt s.insts s.served _ s.served).gen = d
      rw [setAt_same]
    | false =>
      rw [reload_switch_eq hd hc]
      show (setAt s.insts s.ninst _ s.ninst).gen = d
      rw [setAt_same]
  · rcases ho with ho | ho <;> cases ho
  · rw [e]; rw [hd] at hd'; cases hd'
    show (setAt s.insts s.served _ s.served).gen = d
    rw [setAt_same]
  · rw [e]; rw [hd] at hd'; cases hd'
    show (setAt s.insts s.ninst _ s.ninst).gen = d
    rw [setAt_same]

/-- …exactly that generation if nothing is published or reloaded afterwards (no hypothesis on the
operator needed). -/
theorem visibility_exact (s : Srv) (k : Kind) (o : Outcome) (post : List Step)
    (hq : quiet post = true) :
    let s2 := step s (.reload k o)
    ∀ i, s2.nq ≤ i → i < (run s2 post).nq →
      ∀ r ∈ ((run s2 post).queries i).reads, r = servedGen s2 := by
  intro s2
  exact quiet_exact s2 post hq s2.nq (fun j hj hj' => absurd hj' (by omega))

/-- non-vacuity: two queries around a switch and a catch-up; the later one reads 3 only, the
hypotheses hold, and the reload did install 3 -/
example :
    let s0 := Start .rdb (fun p => if p = 2 then some 3 else none) 1 1
    let pre : List Step := [.qstart, .qread 0]
    let post : List Step := [.qstart, .qread 1, .qread 0, .qread 1]
    forward s0 (pre ++ .reload (.full 2) .ok :: post) = true ∧
    (run s0 (pre ++ .reload (.full 2) .ok :: post)).nq = 2 ∧
    servedGen (run s0 (pre ++ [.reload (.full 2) .ok])) = 3 ∧
    ((run s0 (pre ++ .reload (.full 2) .ok :: post)).queries 1).reads = [3, 3] ∧
    ((run s0 (pre ++ .reload (.full 2) .ok :: post)).queries 0).reads = [1, 1] := by
  decide

/-! ### the path of a partial reload -/

/-- `h.dbConfig.Path` — the path a partial reload uses — is the path of the last full reload that
succeeded, or the initial path if there was none. -/
theorem partial_follows_last_switch (s : Srv) (steps : List Step) :
    target (run s steps) .part = lastSwitch s s.path steps :=
  path_eq_lastSwitch s steps

/-- …and it is the path of the instance that is actually served. -/
theorem partial_targets_served (b : Backend) (disk : Nat → Option Nat) (p g : Nat)
    (steps : List Step) :
    let s := run (Start b disk p g) steps
    target s .part = (s.insts s.served).path :=
  (inv0_run (inv0_init b disk p g) steps).served_path.symm

example :
    let s0 := Start .cdb (fun p => if p = 2 ∨ p = 3 then some p else none) 1 1
    let steps : List Step := [.reload (.full 2) .ok, .reload (.full 9) .ok,
      .reload (.full 3) .timeout, .reload (.full 3) .validationKeyMissing, .reload .part .ok]
    lastSwitch s0 s0.path steps = 2 ∧ (run s0 steps).path = 2 ∧ (run s0 steps).served = 2 := by
  decide

/-! ### failing reloads -/

/-- the statement as in the property text: a reload that returns an error changes nothing -/
def failed_reload_is_noop_full : Prop :=
  ∀ (b : Backend) (disk : Nat → Option Nat) (p g : Nat) (steps : List Step) (k : Kind) (o : Outcome),
    o ≠ .ok →
    let s := run (Start b disk p g) steps
    let s' := step s (.reload k o)
    s'.served = s.served ∧ s'.path = s.path ∧ ∀ i, (s'.insts i).gen = (s.insts i).gen

/-- A failing reload (missing path, open error, missing validation key, timeout) leaves the whole
state — served handle, path, every instance's content, the disk, every query — unchanged, unless
it is a same-path RocksDB catch-up that fails *after* `CatchWithPrimary` (`lateEffect`). -/
theorem failed_reload_is_noop_partial (s : Srv) (k : Kind) (o : Outcome) (ho : o ≠ .ok)
    (hl : lateEffect s k o = false) : step s (.reload k o) = s := by
  show reload s k o = s
  rcases reload_cases s k o with e | ⟨d, _, hc, ho', _⟩ | ⟨d, _, _, ho', _⟩ | ⟨d, _, _, ho', _⟩
  · exact e
  · exfalso
    simp only [lateEffect, hc, Bool.true_and, Bool.or_eq_false_iff, decide_eq_false_iff_not] at hl
    rcases ho' with h | h
    · exact hl.1 h
    · exact hl.2 h
  · exact absurd ho' ho
  · exact absurd ho' ho

/-- a reload of a path that does not exist fails whatever else is the case -/
theorem missing_path_is_noop (s : Srv) (k : Kind) (o : Outcome)
    (hd : s.disk (target s k) = none) : step s (.reload k o) = s :=
  reload_none hd

/-- on CDB, and for every reload that names another path, every failure is a no-op -/
theorem failed_reload_is_noop_new_instance (s : Srv) (k : Kind) (o : Outcome) (ho : o ≠ .ok)
    (hc : isCatchup s k = false) : step s (.reload k o) = s :=
  failed_reload_is_noop_partial s k o ho (by simp [lateEffect, hc])

/-- The full statement is false: RocksDB, new content published at the served path, partial reload
whose validation key is missing — `Reload` returns an error, the served instance now holds 2. -/
theorem failed_reload_catchup_counterexample : ¬ failed_reload_is_noop_full := by
  intro h
  have := (h .rdb (fun _ => none) 1 1 [.publish 1 2] .part .validationKeyMissing (by decide)).2.2 0
  exact absurd this (by decide)

example : lateEffect (run (Start .rdb (fun _ => none) 1 1) [.publish 1 2]) .part .validationKeyMissing
    = true := by decide

example : lateEffect (run (Start .cdb (fun _ => none) 1 1) [.publish 1 2]) .part .validationKeyMissing
    = false ∧ lateEffect (run (Start .rdb (fun _ => some 2) 1 1) []) (.full 2) .timeout = false := by
  decide

/-! ### generations never go backwards -/

/-- One client, one query after the other: everything a query read is ≤ everything read by a query
that started after the first one had finished. -/
theorem generations_monotone (b : Backend) (disk : Nat → Option Nat) (p g : Nat)
    (pre post : List Step) (hf : forward (Start b disk p g) (pre ++ post) = true) :
    let s1 := run (Start b disk p g) pre
    let s2 := run s1 post
    ∀ i j, i < s1.nq → (s1.queries i).done = true → s1.nq ≤ j → j < s2.nq →
      ∀ ri ∈ (s2.queries i).reads, ∀ rj ∈ (s2.queries j).reads, ri ≤ rj := by
  intro s1 s2 i j hi hd hn hj ri hri rj hrj
  rw [forward_append, Bool.and_eq_true] at hf
  have h0 : Inv0 s1 := inv0_run (inv0_init b disk p g) _
  have h1 : Inv1 s1 := inv1_run (inv0_init b disk p g) (inv1_init b disk p g) _ hf.1
  have h1' : Inv1 s2 := inv1_run h0 h1 post hf.2
  have hfro : (s2.queries i).reads = (s1.queries i).reads := done_run s1 post i hi hd
  rw [hfro] at hri
  have a1 : ri ≤ servedGen s1 :=
    Nat.le_trans (h1.q_hi i hi ri hri) (h1.gen_le_served _ (h0.q_inst i hi))
  have a2 := startGen_ge_of_started_after h0 h1 post hf.2 (servedGen s1) s1.nq (Nat.le_refl _)
    (fun j hj hj' => absurd hj' (by omega)) j hn hj
  exact Nat.le_trans a1 (Nat.le_trans a2 (h1'.q_lo j hj rj hrj))

/-- Queries ordered by their start, possibly overlapping: everything the earlier one read is ≤
everything the later one read, provided they are pinned to different instances or the instance was
never caught up in place (always the case on CDB). -/
theorem generations_monotone_by_qstart (b : Backend) (disk : Nat → Option Nat) (p g : Nat)
    (steps : List Step) (hf : forward (Start b disk p g) steps = true) :
    let s := run (Start b disk p g) steps
    ∀ i j, i < j → j < s.nq →
      ((s.queries i).inst ≠ (s.queries j).inst ∨ (s.insts (s.queries i).inst).catchups = 0) →
      ∀ ri ∈ (s.queries i).reads, ∀ rj ∈ (s.queries j).reads, ri ≤ rj := by
  intro s i j hij hj hc ri hri rj hrj
  have h0 : Inv0 s := inv0_run (inv0_init b disk p g) _
  have h1 : Inv1 s := inv1_run (inv0_init b disk p g) (inv1_init b disk p g) _ hf
  have hi : i < s.nq := Nat.lt_trans hij hj
  have hsorted := h0.q_sorted i j hij hj
  by_cases e : (s.queries i).inst = (s.queries j).inst
  · have hz : (s.insts (s.queries i).inst).catchups = 0 := by
      rcases hc with hc | hc
      · exact absurd e hc
      · exact hc
    have e1 := h0.q_frozen i hi hz ri hri
    have e2 := h0.q_frozen j hj (by rw [← e]; exact hz) rj hrj
    rw [e1, e2, e]; exact Nat.le_refl _
  · have hlt : (s.queries i).inst < (s.queries j).inst := by omega
    exact Nat.le_trans (h1.q_hi i hi ri hri)
      (Nat.le_trans (h1.q_below j hj _ hlt) (h1.q_lo j hj rj hrj))

/-- without that proviso the by-start ordering fails under a catch-up: query 0 starts first but
reads after the catch-up (2), query 1 starts second and reads before it (1) -/
example :
    let s := run (Start .rdb (fun _ => none) 1 1)
      [.qstart, .qstart, .qread 1, .publish 1 2, .reload .part .ok, .qread 0]
    (s.queries 0).reads = [2] ∧ (s.queries 1).reads = [1] := by decide

example :
    let s0 := Start .cdb (fun p => if p = 2 then some 2 else none) 1 1
    let steps : List Step := [.qstart, .qread 0, .reload (.full 2) .ok, .qstart, .qread 1, .qread 0,
      .qfinish 0, .publish 2 3, .reload .part .ok, .qstart, .qread 2, .qread 1]
    forward s0 steps = true ∧
    (List.range 3).map (fun i => ((run s0 steps).queries i).reads) = [[1, 1], [2, 2], [3]] := by
  decide

/-! ### every response from one generation -/

/-- A query whose pinned instance is never caught up in place reads one generation only, in every
schedule. -/
theorem single_generation_new_instance (b : Backend) (disk : Nat → Option Nat) (p g : Nat)
    (steps : List Step) :
    let s := run (Start b disk p g) steps
    ∀ i, i < s.nq → (s.insts (s.queries i).inst).catchups = 0 →
      ∀ x ∈ (s.queries i).reads, ∀ y ∈ (s.queries i).reads, x = y := by
  intro s i hi hc x hx y hy
  have h0 : Inv0 s := inv0_run (inv0_init b disk p g) _
  rw [h0.q_frozen i hi hc x hx, h0.q_frozen i hi hc y hy]

/-- On CDB no instance is ever caught up in place (`cdbdriver.Reload` always opens the file
again), so every response is computed from one generation. -/
theorem single_generation_cdb (disk : Nat → Option Nat) (p g : Nat) (steps : List Step) :
    let s := run (Start .cdb disk p g) steps
    ∀ i, i < s.nq → ∀ x ∈ (s.queries i).reads, ∀ y ∈ (s.queries i).reads, x = y := by
  intro s i hi
  have h0 : Inv0 s := inv0_run (inv0_init .cdb disk p g) _
  exact single_generation_new_instance .cdb disk p g steps i hi (h0.cdb_frozen (backend_run _ steps) _)

/-- the statement as in the property text -/
def single_generation_full : Prop :=
  ∀ (b : Backend) (disk : Nat → Option Nat) (p g : Nat) (steps : List Step),
    let s := run (Start b disk p g) steps
    ∀ i, i < s.nq → ∀ x ∈ (s.queries i).reads, ∀ y ∈ (s.queries i).reads, x = y

/-- the schedule: a query has done one read, new content is published at the served path, a
partial reload catches the served RocksDB instance up, the query does its next read -/
def catchupWitness : List Step :=
  [.qstart, .qread 0, .publish 1 2, .reload .part .ok, .qread 0]

theorem single_generation_catchup_counterexample : ¬ single_generation_full := by
  intro h
  have := h .rdb (fun _ => none) 1 1 catchupWitness 0 (by decide) 1 (by decide) 2 (by decide)
  exact absurd this (by decide)

/-- Every response is computed from one generation in every schedule in which each same-path
RocksDB catch-up finds no unfinished query on the served instance. -/
theorem single_generation_partial (b : Backend) (disk : Nat → Option Nat) (p g : Nat)
    (steps : List Step) (hq : quiescentCatchups (Start b disk p g) steps = true) :
    let s := run (Start b disk p g) steps
    ∀ i, i < s.nq → ∀ x ∈ (s.queries i).reads, ∀ y ∈ (s.queries i).reads, x = y := by
  intro s i hi
  exact (invq_run (inv0_init b disk p g) (invq_init b disk p g) steps hq).one i hi

/-- non-vacuity: the witness violates the hypothesis; a schedule with a catch-up between two
queries and a switch under an in-flight query satisfies it -/
example :
    quiescentCatchups (Start .rdb (fun _ => none) 1 1) catchupWitness = false ∧
    quiescentCatchups (Start .rdb (fun p => if p = 2 then some 5 else none) 1 1)
      [.qstart, .qread 0, .qfinish 0, .publish 1 2, .reload .part .ok, .qstart, .qread 1,
       .reload (.full 2) .ok, .qread 1] = true ∧
    ((run (Start .rdb (fun p => if p = 2 then some 5 else none) 1 1)
      [.qstart, .qread 0, .qfinish 0, .publish 1 2, .reload .part .ok, .qstart, .qread 1,
       .reload (.full 2) .ok, .qread 1]).queries 1).reads = [2, 2] := by
  decide

end DnsVerif.Props.C05
