/-
C19 (second half) — counters and the query log tell the truth.
Theorems about `Model/Stats.lean` (the side effects of one handled query), for every path.
-/
import DnsVerif.Model.Stats

namespace DnsVerif.Props.C19
open DnsVerif.Stats

/-- every handled query increments the query counter and its type counter exactly once -/
theorem query_and_type_counted_once (qtype : Nat) (doBit cacheOn : Bool) (loc : LocClass) (p : Path) :
    (effects qtype doBit cacheOn loc p).counters.count .queries = 1 ∧
    (effects qtype doBit cacheOn loc p).counters.count (.qtype qtype) = 1 := by
  cases p <;> cases doBit <;> cases cacheOn <;>
    simp [effects, writeCounters, List.count_cons, List.count_append] <;>
    (repeat' split) <;> simp_all

/-- the outcome counters of a written message are mutually exclusive and determined by what was
sent: NXDOMAIN ⇔ rcode 3, REFUSED ⇔ rcode 5, BADVERS ⇔ rcode 16, NODATA ⇔ NOERROR with an empty
answer section; non-authoritative ⇔ AA clear -/
theorem write_counters_truthful (rcode : Nat) (aa ae : Bool) :
    (Counter.nxdomain ∈ writeCounters rcode aa ae ↔ rcode = 3) ∧
    (Counter.refused ∈ writeCounters rcode aa ae ↔ rcode = 5) ∧
    (Counter.badvers ∈ writeCounters rcode aa ae ↔ rcode = 16) ∧
    (Counter.nodata ∈ writeCounters rcode aa ae ↔ (rcode = 0 ∧ ae = true)) ∧
    (Counter.notAuthoritative ∈ writeCounters rcode aa ae ↔ aa = false) := by
  unfold writeCounters
  cases aa <;> (repeat' split) <;> simp_all <;> omega

/-- each outcome counter is incremented at most once per query -/
theorem outcome_counted_at_most_once (qtype : Nat) (doBit cacheOn : Bool) (loc : LocClass) (p : Path)
    (c : Counter) (hc : c ∈ [Counter.nxdomain, .refused, .badvers, .nodata, .notAuthoritative, .cacheHit, .cacheMissed]) :
    (effects qtype doBit cacheOn loc p).counters.count c ≤ 1 := by
  simp only [List.mem_cons, List.not_mem_nil, or_false] at hc
  rcases hc with rfl | rfl | rfl | rfl | rfl | rfl | rfl <;>
    cases p <;> cases doBit <;> cases cacheOn <;>
    simp [effects, writeCounters, List.count_cons, List.count_append] <;>
    (repeat' split) <;> simp_all

/-- every response the handler composes and writes is handed to the logger exactly once; a bare
failure reply or no reply at all is not logged as a response -/
theorem logged_once_iff_composed (qtype : Nat) (doBit cacheOn : Bool) (loc : LocClass) (p : Path) :
    (effects qtype doBit cacheOn loc p).logCalls =
      (match p with
       | .badvers | .cacheHit _ _ _ | .reply _ _ _ => 1
       | _ => 0) := by
  cases p <;> rfl

/-- cache hit and miss counters follow the path taken and exclude each other -/
theorem cache_counter_follows_path (qtype : Nat) (doBit : Bool) (loc : LocClass) (p : Path) :
    (Counter.cacheHit ∈ (effects qtype doBit true loc p).counters ↔ ∃ r a e, p = .cacheHit r a e) ∧
    ¬ (Counter.cacheHit ∈ (effects qtype doBit true loc p).counters ∧
       Counter.cacheMissed ∈ (effects qtype doBit true loc p).counters) := by
  cases p <;> cases doBit <;>
    simp [effects, writeCounters] <;> (repeat' split) <;> simp_all

/-- counters are sums of increments: any interleaving of two batches of increments gives the same
total for every counter (addition commutes) -/
theorem counter_sum (c : Counter) (a b : List Counter) :
    (a ++ b).count c = (b ++ a).count c := by
  simp [List.count_append, Nat.add_comm]

/-- counter names are pairwise distinct for the fixed (non-type) counters, so the rendering used by
the correspondence does not conflate two counters -/
theorem fixed_names_injective :
    ([Counter.queries, .doBit, .location .ecs, .location .empty, .location .dflt,
      .location .fallbackDefault, .location .resolver, .cacheHit, .cacheMissed, .errIsAuthoritative,
      .respRefused, .respAuthoritative, .respNotAuthoritative, .notAuthoritative, .nxdomain, .refused,
      .badvers, .nodata].map Counter.name).Nodup := by decide

/-- non-vacuity: an NXDOMAIN reply on a cache miss -/
example : (effects 1 false true .empty (.reply 3 true true)).counters
    = [.queries, .qtype 1, .location .empty, .cacheMissed, .respAuthoritative, .nxdomain] := by decide

end DnsVerif.Props.C19
