/-
C03 — Client-to-location mapping is longest-prefix match over declared subnets.

Property theorems only; helper lemmas are in `Proofs/Lpm.lean` (laminarity, `Spec.lpm`),
`Proofs/LpmBytes.lean` (16-byte addresses ↔ 128-bit numbers, masks, byte order),
`Proofs/LpmMap.lean` (name → map), `Proofs/LpmCdb.lean` (CDB lookup); for the range-point table:
`Proofs/LpmTable.lean` (vocabulary), `LpmSort.lean` (sort, squash, predecessor search),
`LpmSweep.lean` (sweep invariant), `LpmRdb.lean` (abstract lookup theorem), `LpmConc.lean`,
`LpmFamWF.lean`, `LpmFamMono.lean`, `LpmInner.lean` (the concrete family of ranges, W0 and W1),
`LpmStore.lean` (byte keys, `SeekForPrev`), `LpmRearr.lean`, `LpmFinal.lean` (assembly),
`LpmCheck.lean` (verified table checker); for compiled data files (§6, §7): `Proofs/PipelineLoc.lean`, `Proofs/PipelineLocV2.lean`.
-/
import DnsVerif.Proofs.Lpm
import DnsVerif.Proofs.LpmMap
import DnsVerif.Proofs.LpmCdb
import DnsVerif.Proofs.LpmFinal
import DnsVerif.Proofs.LpmCheck
import DnsVerif.Proofs.PipelineLoc
import DnsVerif.Proofs.PipelineLocV2

namespace DnsVerif.Props.C03
open DnsVerif DnsVerif.Spec DnsVerif.Loc DnsVerif.Rearr DnsVerif.Codec DnsVerif.Lpm

/-! ### 1. CIDR blocks are laminar; what `Spec.lpm` returns -/

/-- two aligned power-of-two blocks `[n / 2^(128-o) * 2^(128-o), + 2^(128-o))` are nested or
disjoint (the block with the longer prefix is the smaller one) -/
theorem cidr_laminar (n₁ o₁ n₂ o₂ : Nat) (ho : o₁ ≤ o₂) :
    (blockStart n₁ o₁ ≤ blockStart n₂ o₂ ∧
      blockStart n₂ o₂ + blockSize o₂ ≤ blockStart n₁ o₁ + blockSize o₁) ∨
    (blockStart n₂ o₂ + blockSize o₂ ≤ blockStart n₁ o₁ ∨
      blockStart n₁ o₁ + blockSize o₁ ≤ blockStart n₂ o₂) :=
  Lpm.cidr_laminar n₁ o₁ n₂ o₂ ho

/-- `SubnetDecl.contains` is membership in the aligned block -/
theorem contains_iff_block (s : SubnetDecl) (a : Nat) :
    s.contains a = true ↔
      blockStart s.net s.ones ≤ a ∧ a < blockStart s.net s.ones + blockSize s.ones :=
  Lpm.contains_iff s a

/-- laminarity in the form the lookups use: the subnets containing one address form a chain — of two
subnets containing `a`, the longer one lies inside the shorter one -/
theorem containing_chain (s t : SubnetDecl) (a b : Nat) (ho : s.ones ≤ t.ones)
    (hs : s.contains a = true) (ht : t.contains a = true) (hb : t.contains b = true) :
    s.contains b = true := by
  unfold SubnetDecl.contains at *
  rw [decide_eq_true_iff] at *
  exact contains_mono ho hs ht hb

/-- `lpm` returns a declared subnet of the map, of the client's family, no longer than the
client's own prefix, containing the client; and no such subnet is longer -/
theorem lpm_spec {subnets : List SubnetDecl} {mapID : Bytes} {v4 : Bool} {addr ones : Nat}
    {r : SubnetDecl} (h : lpm subnets mapID v4 addr ones = some r) :
    r ∈ subnets ∧ r.mapID = mapID ∧ r.isV4 = v4 ∧ r.ones ≤ ones ∧ r.contains addr = true ∧
      ∀ t ∈ subnets, t.mapID = mapID → t.isV4 = v4 → t.ones ≤ ones → t.contains addr = true →
        t.ones ≤ r.ones := by
  obtain ⟨h1, ⟨h2, h3, h4, h5⟩, h6⟩ := lpm_some h
  exact ⟨h1, h2, h3, h4, h5, fun t ht a b c d => h6 t ht ⟨a, b, c, d⟩⟩

/-- `lpm` answers `none` exactly when no declared subnet qualifies -/
theorem lpm_none_iff {subnets : List SubnetDecl} {mapID : Bytes} {v4 : Bool} {addr ones : Nat} :
    lpm subnets mapID v4 addr ones = none ↔
      ∀ t ∈ subnets, ¬ (t.mapID = mapID ∧ t.isV4 = v4 ∧ t.ones ≤ ones ∧ t.contains addr = true) :=
  lpm_none

/-- the answer is unique: a qualifying subnet that no qualifying subnet exceeds in length is the
result, provided no other qualifying subnet covers the same block (same length ⇒ same block, by
`qual_same_block`; W1 makes such a subnet unique) -/
theorem lpm_unique {subnets : List SubnetDecl} {mapID : Bytes} {v4 : Bool} {addr ones : Nat}
    {s : SubnetDecl} (hs : s ∈ subnets)
    (hq : s.mapID = mapID ∧ s.isV4 = v4 ∧ s.ones ≤ ones ∧ s.contains addr = true)
    (hmax : ∀ t ∈ subnets, t.mapID = mapID → t.isV4 = v4 → t.ones ≤ ones → t.contains addr = true →
      t.ones ≤ s.ones)
    (hW1 : ∀ t ∈ subnets, t.mapID = s.mapID → t.ones = s.ones →
      blockStart t.net t.ones = blockStart s.net s.ones → t = s) :
    lpm subnets mapID v4 addr ones = some s := by
  apply lpm_of_max hs hq
  · intro t ht hqt; exact hmax t ht hqt.1 hqt.2.1 hqt.2.2.1 hqt.2.2.2
  · intro t ht hqt ho
    exact hW1 t ht (hqt.1.trans hq.1.symm) ho (qual_same_block hq hqt ho)

/-- non-vacuity: 10.0.0.0/8 ⊃ 10.1.0.0/16; a /24 client inside both gets the /16, a /12 client the /8 -/
example :
    let S : List SubnetDecl := [⟨[0, 7], 0xffff0a000000, 104, [1, 1]⟩, ⟨[0, 7], 0xffff0a010000, 112, [2, 2]⟩]
    (lpm S [0, 7] true 0xffff0a010200 120).map (·.loc) = some [2, 2] ∧
    (lpm S [0, 7] true 0xffff0a010000 108).map (·.loc) = some [1, 1] ∧
    lpm S [0, 7] true 0xffff0b000000 120 = none ∧ lpm S [0, 7] false 0xffff0a010200 120 = none := by
  decide

/-! ### 2. name → map: the exact-name map before the nearest enclosing wildcard map -/

/-- if an exact-name map exists, `mapFor` returns an exact-name map whatever wildcard maps exist;
with at most one map per (type, owner, wild) it is *that* map -/
theorem mapFor_exact_before_wildcard {maps : List MapDecl} {ecs : Bool} {q : List Bytes} {m : MapDecl}
    (hm : m ∈ maps) (he : m.ecs = ecs) (hw : m.wild = false) (ho : m.owner = q) :
    (∃ m' ∈ maps, m'.ecs = ecs ∧ m'.wild = false ∧ m'.owner = q ∧ mapFor maps ecs q = some m'.mapID) ∧
    (MapsUnique maps → mapFor maps ecs q = some m.mapID) :=
  ⟨mapFor_exact hm he hw ho, fun hu => mapFor_exact_unique hu hm he hw ho⟩

/-- otherwise: the wildcard map of the nearest proper ancestor that has one -/
theorem mapFor_nearest_wildcard {maps : List MapDecl} {ecs : Bool} {q : List Bytes}
    (hno : ∀ m ∈ maps, ¬ (m.ecs = ecs ∧ m.wild = false ∧ m.owner = q)) :
    mapFor maps ecs q = (properAncestors q).findSome? fun r =>
      (maps.find? fun m => m.ecs = ecs ∧ m.wild ∧ m.owner = r).map (·.mapID) :=
  mapFor_wild hno

/-- the server's label-by-label `FindMap` (CDB and RocksDB-v1 key layout) computes `Spec.mapFor`, on
every store that holds under each v1 map key `type ++ packed owner ++ '='/'*'` exactly the ids of
the declared maps with that key (`MapRepWF`; owners and query with labels of 1…255 bytes).
At most one map per (type, owner, wild) is NOT needed for this statement — on both sides the first
declared one wins — but only under `MapsUnique` is the stored order of the values irrelevant
(`MapRep_get_length_le_one`), i.e. only then do all backends satisfy the representation relation. -/
theorem findMapV1_eq_mapFor {s : Store} {maps : List MapDecl} (h : MapRepWF s maps) (ecs : Bool)
    (q : List Bytes) (hq : WFName q) :
    findMapV1 s (Name.pack q) (mtypeOf ecs) = mapFor maps ecs q :=
  findMapV1_eq_mapFor_wf h ecs q hq

/-- the representation relation is satisfiable (one entry per map), so the theorem is not vacuous -/
theorem mapRep_satisfiable {maps : List MapDecl} (hu : MapsUnique maps)
    (hwf : ∀ m ∈ maps, WFName m.owner) : MapRepWF (storeOfMaps maps) maps :=
  mapRepWF_storeOfMaps hu hwf

/-- exact `a.b` ↦ `[0,1]`, wildcard `*.b` ↦ `[0,2]`: `a.b` gets the exact map, `x.b` the wildcard,
`b` itself nothing (a wildcard does not cover its own owner) -/
example : findMapV1 exStore (Name.pack [[97], [98]]) [0, 0x38] = some [0, 1] ∧
    findMapV1 exStore (Name.pack [[120], [98]]) [0, 0x38] = some [0, 2] ∧
    findMapV1 exStore (Name.pack [[98]]) [0, 0x38] = none := by decide

/-! ### 3. CDB backend: prefix-length set + masked exact keys = longest-prefix match -/

/-- the client prefix length the lookups use: `Mask.Size()` + 96 for IPv4 clients, as a byte -/
def reqLen (c : ClientNet) : Nat := (c.maskOnes + if isIPv4 c then 96 else 0) % 256

/-- On a store holding the prefix-length sets of `prefixSetKVs` and exactly the legacy `%` keys of the
subnet list (`CdbRep`), `GetLocationByMap` of the CDB driver returns `(location, length)` of
`Spec.lpm`'s winner, `(none, 0)` when there is none — with per-family sets (`sep = true`) and with
the combined set (`sep = false`) alike.
Forced hypotheses: `SubnetsWF` (16-byte addresses, length ≤ 128, host bits cleared — all guaranteed
by the `%` line parser — and W1: no two subnets with the same (map, network, length)); the client
address is 16 bytes, a 4-byte client address is IPv4-mapped in 16-byte form, the map id is 2 bytes.
Not needed: the client address need not be masked (the lookup masks it), and the client length is
whatever `reqLen` yields (the model's byte arithmetic is part of the statement). -/
theorem getLocationCdb_eq_lpm {s : Store} {subs : List Subnet} (hrep : CdbRep s subs)
    (hwf : SubnetsWF subs) (sep : Bool) (c : ClientNet) (mapID : Bytes) (hmap : mapID.length = 2)
    (hc16 : c.ip16.length = 16) (hc4 : c.ipLen4 = true → c.ip16.take 12 = Net.v4Prefix) :
    getLocationCdb s sep c mapID =
      match lpm (subs.map declOf) mapID (isIPv4 c) (ipToNat c.ip16) (reqLen c) with
      | some w => .ok (some w.loc, w.ones)
      | none => .ok (none, 0) := by
  have hv : isIPv4 c = isV4Addr (ipToNat c.ip16) := by
    unfold isIPv4
    cases h4 : c.ipLen4 with
    | true =>
      have := (take12_v4_iff hc16).1 (hc4 h4)
      rw [this]; rfl
    | false =>
      rw [Bool.false_or]
      by_cases h : c.ip16.take 12 = Net.v4Prefix
      · rw [(take12_v4_iff hc16).1 h]; exact decide_eq_true h
      · have : isV4Addr (ipToNat c.ip16) = false := by
          rw [← Bool.not_eq_true]; exact fun hc => h ((take12_v4_iff hc16).2 hc)
        rw [this]; exact decide_eq_false h
  unfold reqLen
  rw [hv]
  refine Eq.trans ?_ (cdb_find_eq_lpm hrep hwf sep mapID hmap c.ip16 hc16 _)
  rw [← hv]
  unfold getLocationCdb
  show (match first s (if sep = true then if isIPv4 c = true then [0, 0x34] else [0, 0x36] else [0, 0x2f]) with
    | none => Res.ok (none, 0)
    | some maskLens => getLocationCdb.go s mapID (isIPv4 c)
        ((c.maskOnes + if isIPv4 c = true then 96 else 0) % 256) maskLens c.ip16) = _
  rw [prefixSet_first hrep sep (isIPv4 c)]
  have := cdb_go_spec s mapID (isIPv4 c) ((c.maskOnes + if isIPv4 c = true then 96 else 0) % 256)
    c.ip16 hc16 (lenSet subs (selOf sep (isIPv4 c))) 128 (Nat.le_refl _) (lenSet_desc _ _)
    (fun m hm => (mem_lenSet.1 hm).1)
  rw [maskIP_128 hc16] at this
  exact this

/-- no-location outcome, spelled out: `(none, 0)` iff no declared subnet of the map and family
contains the client with a length ≤ the client's -/
theorem getLocationCdb_none_iff {s : Store} {subs : List Subnet} (hrep : CdbRep s subs)
    (hwf : SubnetsWF subs) (sep : Bool) (c : ClientNet) (mapID : Bytes) (hmap : mapID.length = 2)
    (hc16 : c.ip16.length = 16) (hc4 : c.ipLen4 = true → c.ip16.take 12 = Net.v4Prefix) :
    (∀ t ∈ subs.map declOf, ¬ (t.mapID = mapID ∧ t.isV4 = isIPv4 c ∧ t.ones ≤ reqLen c ∧
        t.contains (ipToNat c.ip16) = true)) →
      getLocationCdb s sep c mapID = .ok (none, 0) := by
  intro h
  rw [getLocationCdb_eq_lpm hrep hwf sep c mapID hmap hc16 hc4, lpm_none.2 h]

/-! ### 4. RocksDB backend: the range-point table of `Rearrange()` is longest-prefix match

`SubsWF S` (`Proofs/LpmConc.lean`) is, for the subnets `S` of ONE map: every length ≤ 128, network
< 2^128 with host bits clear (W0, parser-guaranteed), W1 (no two equal (network, length)), 2-byte
locations — nothing else. History of the hypotheses (each step after a repair of `rearranger.go`):
* until 828f037 ("only ::/0 and 0.0.0.0/0 are default routes for the rearranger") also W2 (network
  `::` ⇒ length 0; network `::ffff:0:0` ⇒ length 96): `AddLocation` took every block starting at
  `::` / `::ffff:0:0` for a default route (`SubsWFOld`);
* until 277e200 ("an IPv6 range that contains the IPv4 range continues after it") and d84245a (end
  points sorted innermost first; an end point replaces its predecessor in the squash) also W3 (no
  block other than `::/0` and `0.0.0.0/0` contains `::ffff:0:0/96`, i.e. no `::/n` for 1 ≤ n ≤ 80, no
  `::8000:0:0/81` … `::fffe:0:0/95`) (`SubsWFW3`).
The former hypotheses imply the present ones (`subsWF_of_w2`, `subsWF_of_w3`). -/

/-- **sweep_invariant**: for ANY family `F` of ranges that is laminar with strictly longer prefixes
inwards at shared start points and inner-first end keys at shared end points (`RngWF`), on its
rank-sorted start/stop events — possibly with marker events `M` (`MarkWF`: pseudo start points of mask
length 0 at `afterIPv4` that belong to no range of `F`, present only when a range of `F` of positive
mask length lies across `afterIPv4`) — the stack sweep never runs out of stack, and the point emitted
for each event carries mask length and location of the innermost range open just after the event
(`IsHead`: open, and inside every open range), which for a start event of `F` is its own range. The
stack is at all times the chain of open ranges, most recently opened first (`Inv`); a marker is not
pushed (the sweep's `resumesIPv6` rule). `NoResume F`: a range of `F` of mask length 0 that starts
at `afterIPv4` finds only the default range open (so that rule does not fire for it). -/
theorem sweep_invariant {F : List Rng} (hF : RngWF F) (hN : NoResume F) {M : List GEv}
    (hM : MarkWF F M) (rest : List GEv) (t : Nat) (st : List Rng)
    (hc : Cut F M t rest) (hinv : Inv F t st) :
    ∃ hs : List Rng, hs.length = rest.length ∧
      sweep (rest.map GEv.pt) (st.map tag) = some ((rest.zip hs).map outPt) ∧
      ∀ gh ∈ rest.zip hs, IsHead F (grank gh.1) gh.2 ∧
        (gh.1.r ∈ F → gh.1.kind = .start → gh.2 = gh.1.r) :=
  sweep_ghost hF hN hM rest t st hc hinv

/-- **rearrange_lpm** (FULL theorem, table form): for the subnets of one map satisfying W0 and W1,
`Rearrange()` succeeds and the predecessor of `(a, req)` in its output, in database key order
(address, mask-length byte), carries location and length of `Spec.lpm`'s winner — `(none, 0)` when
there is none — for every address `a < 2^128` and every prefix length `req < 256` such that `a` is
masked to `req` (W4; necessary, the lookup of an unmasked address can return a subnet that does not
contain it). -/
theorem rearrange_lpm {S : List SubnetDecl} (h : SubsWF S) (hne : S ≠ []) {m : Bytes}
    (hm : ∀ s ∈ S, s.mapID = m) :
    ∃ P, rearrange (addAll S) = some P ∧ TableWF P ∧
      ∀ a req, a < 2 ^ 128 → req < 256 → a % 2 ^ (128 - req) = 0 →
        lookupRes P a req = lpmRes S m a req :=
  rearrange_table h hne hm

/-- the former hypotheses (W0–W3 with W2; W0, W1, W3) imply the present ones, so every statement of
this section also holds in its former, weaker forms -/
theorem subsWF_of_w2 {S : List SubnetDecl} (h : SubsWFOld S) : SubsWF S := h.toWF

theorem subsWF_of_w3 {S : List SubnetDecl} (h : SubsWFW3 S) : SubsWF S := h.toWF

/-- `rearrange_lpm` as it was stated before W3 was dropped -/
theorem rearrange_lpm_w3 {S : List SubnetDecl} (h : SubsWFW3 S) (hne : S ≠ []) {m : Bytes}
    (hm : ∀ s ∈ S, s.mapID = m) :
    ∃ P, rearrange (addAll S) = some P ∧ TableWF P ∧
      ∀ a req, a < 2 ^ 128 → req < 256 → a % 2 ^ (128 - req) = 0 →
        lookupRes P a req = lpmRes S m a req :=
  rearrange_lpm (subsWF_of_w3 h) hne hm

/-- `rearrange_lpm` as it was stated before W2 was dropped -/
theorem rearrange_lpm_w2 {S : List SubnetDecl} (h : SubsWFOld S) (hne : S ≠ []) {m : Bytes}
    (hm : ∀ s ∈ S, s.mapID = m) :
    ∃ P, rearrange (addAll S) = some P ∧ TableWF P ∧
      ∀ a req, a < 2 ^ 128 → req < 256 → a % 2 ^ (128 - req) = 0 →
        lookupRes P a req = lpmRes S m a req :=
  rearrange_lpm (subsWF_of_w2 h) hne hm

/-- **rangepoint_keys_distinct**: after the squash no two range points have the same database key,
so every range-point key has exactly one value -/
theorem rangepoint_keys_distinct {S : List SubnetDecl} (h : SubsWF S) (hne : S ≠ []) {P : List Point}
    (hP : rearrange (addAll S) = some P) : P.Pairwise fun u v => pkey u ≠ pkey v := by
  have hwf' : SubsWF (S.map fun s => { s with mapID := [] }) := by
    constructor
    · intro s hs; obtain ⟨t, ht, rfl⟩ := List.mem_map.1 hs; exact h.ones_le t ht
    · intro s hs; obtain ⟨t, ht, rfl⟩ := List.mem_map.1 hs; exact h.net_lt t ht
    · intro s hs; obtain ⟨t, ht, rfl⟩ := List.mem_map.1 hs; exact h.aligned t ht
    · rw [List.pairwise_map]; exact h.w1
    · intro s hs; obtain ⟨t, ht, rfl⟩ := List.mem_map.1 hs; exact h.loc_len t ht
  obtain ⟨P', hP', hwf, _⟩ := rearrange_table hwf' (m := []) (by simpa using hne)
    (by intro s hs; obtain ⟨t, _, rfl⟩ := List.mem_map.1 hs; rfl)
  have hadd : addAll (S.map fun s => { s with mapID := [] }) = addAll S := by
    unfold addAll; rw [List.foldl_map]
  rw [hadd, hP] at hP'
  cases hP'
  exact hwf.keys_distinct

/-- **rearrange_lpm** (store form): on EVERY store whose keys with prefix `marker ++ map` are exactly
the range points of the map (`RdbRep`), `GetLocationByMap` of the RocksDB driver (`SeekForPrev` on
`marker ++ map ++ ip ++ [masklen]`) returns `Spec.lpm`'s answer -/
theorem rearrange_lpm_store {S : List SubnetDecl} (h : SubsWF S) (hne : S ≠ []) {m : Bytes}
    (hm2 : m.length = 2) (hm : ∀ s ∈ S, s.mapID = m) :
    ∃ P, rearrange (addAll S) = some P ∧
      ∀ (s : Store), RdbRep s m P → ∀ (c : ClientNet), (maskedClientIP c).length = 16 →
        ipToNat (maskedClientIP c) % 2 ^ (128 - reqOf c) = 0 →
        getLocationRdb s c m = .ok (lpmRes S m (ipToNat (maskedClientIP c)) (reqOf c)) :=
  Lpm.rearrange_lpm_store h hne hm2 hm

/-- … in particular on the database `SubnetRanger.MarshalMap` writes for the subnets of one map:
the records exist (no sweep failure) and the lookup is `Spec.lpm` -/
theorem rearrange_lpm_db {subs : List Subnet} {m : Bytes} (hm2 : m.length = 2) (hne : subs ≠ [])
    (hm : ∀ x ∈ subs, x.lmap = m) (h : SubsWF (subs.map declOf)) :
    ∃ kvs, rangePointKVs subs = some kvs ∧
      ∀ (c : ClientNet), (maskedClientIP c).length = 16 →
        ipToNat (maskedClientIP c) % 2 ^ (128 - reqOf c) = 0 →
        getLocationRdb (Store.ofKVs kvs) c m =
          .ok (lpmRes (subs.map declOf) m (ipToNat (maskedClientIP c)) (reqOf c)) :=
  rearrange_lpm_single hm2 hne hm h

/-- W4 is met by the regular clients: a valid mask of the address's own size (what
`ResolverLocation` and a well-formed ECS option produce) -/
theorem client_masked (c : ClientNet) (h16 : c.ip16.length = 16) (hv : c.maskValid = true)
    (hreg : (c.maskBits = 32 ∧ isIPv4 c = true ∧ c.maskOnes ≤ 32) ∨
            (c.maskBits = 128 ∧ isIPv4 c = false ∧ c.maskOnes ≤ 128)) :
    (maskedClientIP c).length = 16 ∧ ipToNat (maskedClientIP c) % 2 ^ (128 - reqOf c) = 0 :=
  client_aligned c h16 hv hreg

/-- W0 from the parser's guarantee (16-byte network address with host bits cleared) -/
theorem w0_of_masked {ip : List UInt8} {ones : Nat} (h16 : ip.length = 16) (hle : ones ≤ 128)
    (hm : Net.maskIP ip ones = ip) : ipToNat ip % 2 ^ (128 - ones) = 0 :=
  aligned_of_masked h16 hle hm

/-- the verified table checker (kept as the oracle for tables produced by the REAL `Rearrange()`):
`checkTable` evaluates predecessor lookup and `lpm` at finitely many breakpoints; passing implies
agreement on all `2^128 × 256` masked inputs -/
theorem checkTable_sound (S : List SubnetDecl) (mapID : Bytes) (P : List Point)
    (h : checkTable S mapID P = true) :
    ∀ a req, a < 2 ^ 128 → req < 256 → a % 2 ^ (128 - req) = 0 →
      lookupRes P a req = lpmRes S mapID a req :=
  Lpm.checkTable_sound S mapID P h

/-- non-vacuity: `10.0.0.0/8 ⊃ 10.1.0.0/16`, `::/0`, `2001:db8::/32` satisfy W0, W1 … -/
def exSubnets : List Subnet :=
  [{ lo := some [1, 1], ip := natToIP 0xffff0a000000, ones := 104, lmap := [0, 7] },
   { lo := some [2, 2], ip := natToIP 0xffff0a010000, ones := 112, lmap := [0, 7] },
   { lo := some [3, 3], ip := natToIP 0, ones := 0, lmap := [0, 7] },
   { lo := some [4, 4], ip := natToIP (0x20010db8 * 2 ^ 96), ones := 32, lmap := [0, 7] }]

theorem exSubnets_wf : SubsWF (exSubnets.map declOf) := by
  constructor <;> decide

/-- … so the theorem applies to them; and the instance `10.1.2.0/24 ↦ [2,2]/112` evaluates -/
example : ∃ kvs, rangePointKVs exSubnets = some kvs ∧
    ∀ (c : ClientNet), (maskedClientIP c).length = 16 →
      ipToNat (maskedClientIP c) % 2 ^ (128 - reqOf c) = 0 →
      getLocationRdb (Store.ofKVs kvs) c [0, 7] =
        .ok (lpmRes (exSubnets.map declOf) [0, 7] (ipToNat (maskedClientIP c)) (reqOf c)) :=
  rearrange_lpm_db rfl (by decide) (by decide) exSubnets_wf

example : lpmRes (exSubnets.map declOf) [0, 7] 0xffff0a010200 120 = (some [2, 2], 112) ∧
    lpmRes (exSubnets.map declOf) [0, 7] 0xffff0b000000 104 = (none, 0) ∧
    lpmRes (exSubnets.map declOf) [0, 7] (0x20010db8 * 2 ^ 96 + 2 ^ 64) 64 = (some [4, 4], 32) ∧
    lpmRes (exSubnets.map declOf) [0, 7] (2 ^ 127) 1 = (some [3, 3], 0) := by decide

/-- non-vacuity for the blocks W2 used to exclude: `0.0.0.0/8`, `0.0.0.0/1`, `0.0.0.0/32`, `0.0.0.0/0`,
`::/96`, `::/128`, `::/0` and `10.0.0.0/8` in one map satisfy W0, W1 (and W3) but not W2 … -/
def exSubnetsW2 : List Subnet :=
  [{ lo := some [1, 1], ip := natToIP 0xffff00000000, ones := 104, lmap := [0, 7] },
   { lo := some [2, 2], ip := natToIP 0xffff00000000, ones := 97, lmap := [0, 7] },
   { lo := some [3, 3], ip := natToIP 0xffff00000000, ones := 128, lmap := [0, 7] },
   { lo := some [4, 4], ip := natToIP 0xffff00000000, ones := 96, lmap := [0, 7] },
   { lo := some [5, 5], ip := natToIP 0, ones := 96, lmap := [0, 7] },
   { lo := some [6, 6], ip := natToIP 0, ones := 128, lmap := [0, 7] },
   { lo := some [7, 7], ip := natToIP 0, ones := 0, lmap := [0, 7] },
   { lo := some [8, 8], ip := natToIP 0xffff0a000000, ones := 104, lmap := [0, 7] }]

theorem exSubnetsW2_wf : SubsWF (exSubnetsW2.map declOf) ∧
    ¬ (∀ s ∈ exSubnetsW2.map declOf, (s.net = 0 → s.ones = 0) ∧ (s.net = firstIPv4 → s.ones = 96)) := by
  refine ⟨?_, by decide⟩
  constructor <;> decide

/-- … so the theorem applies to them; instances: `0.1.2.3/32 ↦ [1,1]/104`, `9.9.9.9/32 ↦ [2,2]/97`,
`192.168.1.0/24 ↦ [4,4]/96`, `0.0.0.0/32 ↦ [3,3]/128`, `::5/128 ↦ [5,5]/96`, `::/128 ↦ [6,6]/128`,
`1::/16 ↦ [7,7]/0` -/
example : ∃ kvs, rangePointKVs exSubnetsW2 = some kvs ∧
    ∀ (c : ClientNet), (maskedClientIP c).length = 16 →
      ipToNat (maskedClientIP c) % 2 ^ (128 - reqOf c) = 0 →
      getLocationRdb (Store.ofKVs kvs) c [0, 7] =
        .ok (lpmRes (exSubnetsW2.map declOf) [0, 7] (ipToNat (maskedClientIP c)) (reqOf c)) :=
  rearrange_lpm_db rfl (by decide) (by decide) exSubnetsW2_wf.1

example : lpmRes (exSubnetsW2.map declOf) [0, 7] 0xffff00010203 128 = (some [1, 1], 104) ∧
    lpmRes (exSubnetsW2.map declOf) [0, 7] 0xffff09090909 128 = (some [2, 2], 97) ∧
    lpmRes (exSubnetsW2.map declOf) [0, 7] 0xffffc0a80100 120 = (some [4, 4], 96) ∧
    lpmRes (exSubnetsW2.map declOf) [0, 7] 0xffff00000000 128 = (some [3, 3], 128) ∧
    lpmRes (exSubnetsW2.map declOf) [0, 7] 5 128 = (some [5, 5], 96) ∧
    lpmRes (exSubnetsW2.map declOf) [0, 7] 0 128 = (some [6, 6], 128) ∧
    lpmRes (exSubnetsW2.map declOf) [0, 7] (2 ^ 112) 16 = (some [7, 7], 0) := by decide

/-! ### 5. the former well-formedness conditions W2 and W3 are no longer needed

Each of the witnesses that used to stand here (`w2_needed`, `w3_needed`, `w3_error`, `w3_needed_v6`)
has become false with the repairs of `rearranger.go`; they are replaced by positive `example`s.
W1 is still needed (`w1_needed_rdb`, §6). -/

/-- the value of a successful outcome -/
def okVal {α : Type} : Res α → Option α
  | .ok a => some a
  | _ => none

/-- `%aa,0.0.0.0/8` (network `::ffff:0:0`, length 104) -/
def w2Subnets : List Subnet :=
  [{ lo := some [97, 97], ip := Net.v4Prefix ++ [0, 0, 0, 0], ones := 104, lmap := [0, 7] }]

/-- The former W2 witness, now positive: with the subnet set `{0.0.0.0/8 → aa}` client `9.9.9.9/32`
(outside the block) gets no location, client `0.1.2.3/32` gets `aa`/104, and so says `Spec.lpm`.
Before commit "fix: only ::/0 and 0.0.0.0/0 are default routes for the rearranger" this was false:
`AddLocation` recognised the default routes by the network address alone, `0.0.0.0/8` was stored as
the IPv4 default route `[::ffff:0:0, ::1:0:0:0)` with mask length 104, and every IPv4 client with a
prefix of at least /8 — `9.9.9.9/32`, `192.168.1.0/24` — was given `(aa, 104)` on RocksDB (the
theorem `w2_needed` that stood here proved exactly that). -/
example :
    (rangePointKVs w2Subnets).map (fun kvs =>
      [okVal (getLocationRdb (Store.ofKVs kvs)
         { ip16 := Net.v4Prefix ++ [9, 9, 9, 9], ipLen4 := false, maskOnes := 32, maskBits := 32 } [0, 7]),
       okVal (getLocationRdb (Store.ofKVs kvs)
         { ip16 := Net.v4Prefix ++ [0, 1, 2, 3], ipLen4 := false, maskOnes := 32, maskBits := 32 } [0, 7]),
       okVal (getLocationRdb (Store.ofKVs kvs)
         { ip16 := Net.v4Prefix ++ [192, 168, 1, 0], ipLen4 := false, maskOnes := 24, maskBits := 32 } [0, 7])])
      = some [some (none, 0), some (some [97, 97], 104), some (none, 0)] ∧
    lpmRes (w2Subnets.map declOf) [0, 7] 0xffff09090909 128 = (none, 0) ∧
    lpmRes (w2Subnets.map declOf) [0, 7] 0xffff00010203 128 = (some [97, 97], 104) ∧
    lpmRes (w2Subnets.map declOf) [0, 7] 0xffffc0a80100 120 = (none, 0) := by
  decide +kernel

/-- `%bb,::/64` alone, and `%aa,::/1` with `%bb,8000::/1`: IPv6-family blocks that contain the IPv4
range `::ffff:0:0/96` and reach beyond it -/
def v6Subnets64 : List Subnet :=
  [{ lo := some [98, 98], ip := natToIP 0, ones := 64, lmap := [0, 7] }]

def v6SubnetsHalves : List Subnet :=
  [{ lo := some [97, 97], ip := natToIP 0, ones := 1, lmap := [0, 7] },
   { lo := some [98, 98], ip := natToIP (2 ^ 127), ones := 1, lmap := [0, 7] }]

/-- The former W3 witness `w3_needed_v6`, now positive: with `{::/64 → bb}` client `::1:0:0:5/128`
(inside the block, right after the IPv4 range) gets `bb`/64, client `1::/128` (outside) and the IPv4
client `9.9.9.9/32` get no location, as `Spec.lpm` says.
Before commit "fix: an IPv6 range that contains the IPv4 range continues after it" this was false: the
pseudo start point at `::1:0:0:0` (where the IPv6 default range resumes after the IPv4 range) was
pushed on the stack inside the `/64`, the `/64`'s end popped it instead of the `/64`, and
`::1:0:0:5/128` got no location while `1::/128` got `bb`/64. -/
example :
    (rangePointKVs v6Subnets64).map (fun kvs =>
      [okVal (getLocationRdb (Store.ofKVs kvs)
         { ip16 := natToIP (2 ^ 48 + 5), ipLen4 := false, maskOnes := 128, maskBits := 128 } [0, 7]),
       okVal (getLocationRdb (Store.ofKVs kvs)
         { ip16 := natToIP (2 ^ 112), ipLen4 := false, maskOnes := 128, maskBits := 128 } [0, 7]),
       okVal (getLocationRdb (Store.ofKVs kvs)
         { ip16 := Net.v4Prefix ++ [9, 9, 9, 9], ipLen4 := false, maskOnes := 32, maskBits := 32 } [0, 7])])
      = some [some (some [98, 98], 64), some (none, 0), some (none, 0)] ∧
    lpmRes (v6Subnets64.map declOf) [0, 7] (2 ^ 48 + 5) 128 = (some [98, 98], 64) ∧
    lpmRes (v6Subnets64.map declOf) [0, 7] (2 ^ 112) 128 = (none, 0) ∧
    lpmRes (v6Subnets64.map declOf) [0, 7] 0xffff09090909 128 = (none, 0) := by
  decide +kernel

/-- `{::/1 → aa, 8000::/1 → bb}`: `::1:0:0:5/128` and `1::/128` get `aa`/1, `8000::1/128` gets `bb`/1,
the IPv4 client `9.9.9.9/32` nothing (an IPv6-family block is no match for an IPv4 client).
Before commit "fix: an IPv6 range that contains the IPv4 range continues after it" this was false:
every client of `::/1` above the IPv4 range (`::1:0:0:5/128`, `1::/128`) got no location. -/
example :
    (rangePointKVs v6SubnetsHalves).map (fun kvs =>
      [okVal (getLocationRdb (Store.ofKVs kvs)
         { ip16 := natToIP (2 ^ 48 + 5), ipLen4 := false, maskOnes := 128, maskBits := 128 } [0, 7]),
       okVal (getLocationRdb (Store.ofKVs kvs)
         { ip16 := natToIP (2 ^ 112), ipLen4 := false, maskOnes := 128, maskBits := 128 } [0, 7]),
       okVal (getLocationRdb (Store.ofKVs kvs)
         { ip16 := natToIP (2 ^ 127 + 1), ipLen4 := false, maskOnes := 128, maskBits := 128 } [0, 7]),
       okVal (getLocationRdb (Store.ofKVs kvs)
         { ip16 := Net.v4Prefix ++ [9, 9, 9, 9], ipLen4 := false, maskOnes := 32, maskBits := 32 } [0, 7])])
      = some [some (some [97, 97], 1), some (some [97, 97], 1), some (some [98, 98], 1), some (none, 0)] ∧
    lpmRes (v6SubnetsHalves.map declOf) [0, 7] (2 ^ 48 + 5) 128 = (some [97, 97], 1) ∧
    lpmRes (v6SubnetsHalves.map declOf) [0, 7] (2 ^ 112) 128 = (some [97, 97], 1) ∧
    lpmRes (v6SubnetsHalves.map declOf) [0, 7] (2 ^ 127 + 1) 128 = (some [98, 98], 1) ∧
    lpmRes (v6SubnetsHalves.map declOf) [0, 7] 0xffff09090909 128 = (none, 0) := by
  decide +kernel

/-- `::8000:0:0/81` (= `[2^47, 2^48)`, an IPv6-family block that contains `::ffff:0:0/96` and ends
where it ends) together with `255.0.0.0/8` (ends there too), and the same with `::/80` -/
def w3Subnets : List Subnet :=
  [{ lo := some [1, 1], ip := natToIP (0x8000 * 2 ^ 32), ones := 81, lmap := [0, 7] },
   { lo := some [2, 2], ip := natToIP 0xffffff000000, ones := 104, lmap := [0, 7] }]

def w3Subnets80 : List Subnet :=
  [{ lo := some [1, 1], ip := natToIP 0, ones := 80, lmap := [0, 7] },
   { lo := some [2, 2], ip := natToIP 0xffffff000000, ones := 104, lmap := [0, 7] }]

/-- is the outcome an error return? -/
def isErr {α : Type} : Res α → Bool
  | .err => true
  | _ => false

/-- The former W3 witnesses `w3_needed` / `w3_error`, now positive: the table of
`{::8000:0:0/81 → [1,1], 255.0.0.0/8 → [2,2]}` has exactly ONE range point with key `(::1:0:0:0, 0)`;
client `::1:0:0:5/128` (just after both blocks) gets a clean "no location", `::8000:0:5/128` gets
`[1,1]`/81, `255.1.2.3/32` gets `[2,2]`/104, `9.9.9.9/32` nothing — as `Spec.lpm` says; the same for
`::/80` in the place of the `/81`.
Before commits 277e200 / d84245a this was false: at `::1:0:0:0` the sweep emitted the mask lengths
0 (end of `255.0.0.0/8`: the implicit IPv4 null range is on top), 81 (end of that null range), 0 (end of
the `/81`), 0 (the IPv6 default range resumes); the end of the `/81` was moreover sorted BEFORE the end
of the null range nested in it (longest prefix first), so the stack popped out of order; and the
squash, which compared a point with its predecessor only (`prev.MaskLen() >= this.MaskLen()`), kept
the first `(::1:0:0:0, 0)` and the last one — in RocksDB one key with two values, which
`GetLocationByMap` rejects: every IPv6 client whose predecessor is that key (`::1:0:0:5/128`) got an
ERROR. Since d84245a end points are sorted innermost first and an end point always replaces its
predecessor at the same address. -/
example :
    ([w3Subnets, w3Subnets80].map fun subs => (rangePointKVs subs).map fun kvs =>
      ((kvs.filter (·.1 = Generated.dnsdata_RangePointKeyMarker ++ [0, 7] ++ natToIP (2 ^ 48) ++ [0])).length,
       isErr (getLocationRdb (Store.ofKVs kvs)
         { ip16 := natToIP (2 ^ 48 + 5), ipLen4 := false, maskOnes := 128 } [0, 7]))) =
      [some (1, false), some (1, false)] := by
  decide +kernel

/-- … the lookups of `::1:0:0:5/128`, `::8000:0:5/128`, `255.1.2.3/32`, `9.9.9.9/32` on the first table … -/
example :
    (rangePointKVs w3Subnets).map (fun kvs =>
       [okVal (getLocationRdb (Store.ofKVs kvs)
          { ip16 := natToIP (2 ^ 48 + 5), ipLen4 := false, maskOnes := 128, maskBits := 128 } [0, 7]),
        okVal (getLocationRdb (Store.ofKVs kvs)
          { ip16 := natToIP (2 ^ 47 + 5), ipLen4 := false, maskOnes := 128, maskBits := 128 } [0, 7]),
        okVal (getLocationRdb (Store.ofKVs kvs)
          { ip16 := Net.v4Prefix ++ [255, 1, 2, 3], ipLen4 := false, maskOnes := 32, maskBits := 32 } [0, 7]),
        okVal (getLocationRdb (Store.ofKVs kvs)
          { ip16 := Net.v4Prefix ++ [9, 9, 9, 9], ipLen4 := false, maskOnes := 32, maskBits := 32 } [0, 7])]) =
      some [some (none, 0), some (some [1, 1], 81), some (some [2, 2], 104), some (none, 0)] := by
  decide +kernel

/-- … on the second … -/
example :
    (rangePointKVs w3Subnets80).map (fun kvs =>
       [okVal (getLocationRdb (Store.ofKVs kvs)
          { ip16 := natToIP (2 ^ 48 + 5), ipLen4 := false, maskOnes := 128, maskBits := 128 } [0, 7]),
        okVal (getLocationRdb (Store.ofKVs kvs)
          { ip16 := natToIP (2 ^ 47 + 5), ipLen4 := false, maskOnes := 128, maskBits := 128 } [0, 7]),
        okVal (getLocationRdb (Store.ofKVs kvs)
          { ip16 := Net.v4Prefix ++ [255, 1, 2, 3], ipLen4 := false, maskOnes := 32, maskBits := 32 } [0, 7]),
        okVal (getLocationRdb (Store.ofKVs kvs)
          { ip16 := Net.v4Prefix ++ [9, 9, 9, 9], ipLen4 := false, maskOnes := 32, maskBits := 32 } [0, 7])]) =
      some [some (none, 0), some (some [1, 1], 80), some (some [2, 2], 104), some (none, 0)] := by
  decide +kernel

/-- … and what `Spec.lpm` says -/
example :
    [lpmRes (w3Subnets.map declOf) [0, 7] (2 ^ 48 + 5) 128, lpmRes (w3Subnets.map declOf) [0, 7] (2 ^ 47 + 5) 128,
     lpmRes (w3Subnets.map declOf) [0, 7] 0xffffff010203 128, lpmRes (w3Subnets.map declOf) [0, 7] 0xffff09090909 128] =
      [(none, 0), (some [1, 1], 81), (some [2, 2], 104), (none, 0)] := by
  decide +kernel

/-- non-vacuity of the theorems for blocks W3 used to exclude: `::/1`, `::/64`, `::/80`,
`::8000:0:0/81`, `::fffe:0:0/95`, `255.0.0.0/8`, `255.255.255.255/32` and `8000::/1` in one map
satisfy W0, W1 but not W3 … -/
def exSubnetsW3 : List Subnet :=
  [{ lo := some [1, 1], ip := natToIP 0, ones := 1, lmap := [0, 7] },
   { lo := some [2, 2], ip := natToIP 0, ones := 64, lmap := [0, 7] },
   { lo := some [3, 3], ip := natToIP 0, ones := 80, lmap := [0, 7] },
   { lo := some [4, 4], ip := natToIP (0x8000 * 2 ^ 32), ones := 81, lmap := [0, 7] },
   { lo := some [5, 5], ip := natToIP (0xfffe * 2 ^ 32), ones := 95, lmap := [0, 7] },
   { lo := some [6, 6], ip := natToIP 0xffffff000000, ones := 104, lmap := [0, 7] },
   { lo := some [7, 7], ip := natToIP 0xffffffffffff, ones := 128, lmap := [0, 7] },
   { lo := some [8, 8], ip := natToIP (2 ^ 127), ones := 1, lmap := [0, 7] }]

theorem exSubnetsW3_wf : SubsWF (exSubnetsW3.map declOf) ∧
    ¬ (∀ s ∈ exSubnetsW3.map declOf, ¬ (s.net = 0 ∧ s.ones = 0) → ¬ (s.net = firstIPv4 ∧ s.ones = 96) →
      ¬ (s.net ≤ firstIPv4 ∧ afterIPv4 ≤ s.net + 2 ^ (128 - s.ones))) := by
  refine ⟨?_, by decide⟩
  constructor <;> decide

/-- … so the theorem applies to them; instances: `::1:0:0:5/128 ↦ [2,2]/64` (inside `::/64`, after the
IPv4 range), `::fffe:0:5/128 ↦ [5,5]/95`, `::8000:0:5/128 ↦ [4,4]/81`, `::5/128 ↦ [3,3]/80`, `1::/128 ↦
[1,1]/1`, `8000::1/128 ↦ [8,8]/1`, `255.1.2.3/32 ↦ [6,6]/104`, `255.255.255.255/32 ↦ [7,7]/128`,
`9.9.9.9/32 ↦` nothing -/
example : ∃ kvs, rangePointKVs exSubnetsW3 = some kvs ∧
    ∀ (c : ClientNet), (maskedClientIP c).length = 16 →
      ipToNat (maskedClientIP c) % 2 ^ (128 - reqOf c) = 0 →
      getLocationRdb (Store.ofKVs kvs) c [0, 7] =
        .ok (lpmRes (exSubnetsW3.map declOf) [0, 7] (ipToNat (maskedClientIP c)) (reqOf c)) :=
  rearrange_lpm_db rfl (by decide) (by decide) exSubnetsW3_wf.1

example : lpmRes (exSubnetsW3.map declOf) [0, 7] (2 ^ 48 + 5) 128 = (some [2, 2], 64) ∧
    lpmRes (exSubnetsW3.map declOf) [0, 7] (0xfffe * 2 ^ 32 + 5) 128 = (some [5, 5], 95) ∧
    lpmRes (exSubnetsW3.map declOf) [0, 7] (2 ^ 47 + 5) 128 = (some [4, 4], 81) ∧
    lpmRes (exSubnetsW3.map declOf) [0, 7] 5 128 = (some [3, 3], 80) ∧
    lpmRes (exSubnetsW3.map declOf) [0, 7] (2 ^ 112) 128 = (some [1, 1], 1) ∧
    lpmRes (exSubnetsW3.map declOf) [0, 7] (2 ^ 127 + 1) 128 = (some [8, 8], 1) ∧
    lpmRes (exSubnetsW3.map declOf) [0, 7] 0xffffff010203 128 = (some [6, 6], 104) ∧
    lpmRes (exSubnetsW3.map declOf) [0, 7] 0xffffffffffff 128 = (some [7, 7], 128) ∧
    lpmRes (exSubnetsW3.map declOf) [0, 7] 0xffff09090909 128 = (none, 0) := by decide

open DnsVerif.Pipeline DnsVerif.PipelineLoc DnsVerif.PipelineProofs

/-! ### 6. the pipeline: compiled data files

`Pipeline.compile b svcb lines = some store` is the store the model compiler builds from a data
file, `Pipeline.zoneOf lines = some z` the declared zone (records, maps, subnets) of the same file.
The representation hypotheses of §2–§4 hold for the compiled store and `z.maps` / `z.subnets`
(helper lemmas: `Proofs/PipelineLoc.lean`), for the v1 key layouts (CDB in both prefix-set modes,
RocksDB v1); §7 does the v2 key layout. Decidable well-formedness of the file, each clause forced (witnesses below):
* `LocIdsOK z`: no client-subnet map and no subnet carries map id `[0,0]` ("no map" to the server);
* CDB (`FileWF (.cdb _)`): `LinesOK`, no record under the location tag `\000%` (`NoPctTag`: its key
  can BE a subnet key), W1 in the weak form (`SubnetsW1`; inherited from `getLocationCdb_eq_lpm`,
  not forced: the first declared of two equal-key subnets wins on both sides);
* RocksDB (`FileWF .rdbV1`): W1 strict (`SubnetsRdbWF`; forced: `w1_needed_rdb`; an IDENTICAL
  repetition of a `%` line is excluded by the strict form although the table tolerates it). W2 and
  W3 were needed until the repairs of `rearranger.go` (§4, §5); the former conditions
  `SubnetsRdbWFOld`, `SubnetsRdbWFW3` imply the present one (`subnetsRdbWF_of_w2`,
  `subnetsRdbWF_of_w3`). -/

/-- **maps**: the compiled store represents the declared maps (`MapRepWF`, the hypothesis of
`findMapV1_eq_mapFor`) — no well-formedness needed: under each map key the ids in file order -/
theorem file_mapRep (b : Backend) (hb : (∃ sep, b = .cdb sep) ∨ b = .rdbV1) (svcb : SvcbFn)
    (lines : List Bytes) (store : Store) (z : Zone)
    (hc : compile b svcb lines = some store) (hz : zoneOf lines = some z) :
    MapRepWF store z.maps :=
  compile_mapRep b hb svcb lines store z hc hz

/-- … hence `FindMap` on the compiled store is `Spec.mapFor` on the declared maps -/
theorem file_findMap (b : Backend) (hb : (∃ sep, b = .cdb sep) ∨ b = .rdbV1) (svcb : SvcbFn)
    (lines : List Bytes) (store : Store) (z : Zone)
    (hc : compile b svcb lines = some store) (hz : zoneOf lines = some z)
    (ecs : Bool) (q : List Bytes) (hq : WFName q) :
    findMap b store (Name.pack q) (mtypeOf ecs) = .ok (mapFor z.maps ecs q) :=
  findMap_file b hb svcb lines store z hc hz ecs q hq

/-- **subnets, CDB**: the prefix-length sets and legacy `%` keys `compile (.cdb sep)` writes represent
the declared subnets (`CdbRep` + `SubnetsWF`, the hypotheses of `getLocationCdb_eq_lpm`) -/
theorem file_cdbRep (sep : Bool) (svcb : SvcbFn) (lines : List Bytes) (store : Store) (z : Zone)
    (hc : compile (.cdb sep) svcb lines = some store) (hz : zoneOf lines = some z)
    (hg : LinesOK lines) (hno : NoPctTag z) (hw1 : SubnetsW1 z.subnets) :
    ∃ subs, z.subnets = subs.map declOf ∧ SubnetsWF subs ∧ CdbRep store subs :=
  compile_cdbRep sep svcb lines store z hc hz hg hno hw1

/-- … hence `GetLocationByMap` of the CDB driver on the compiled store is `Spec.lpm` on the declared
subnets, in both prefix-set modes -/
theorem file_getLocationCdb (sep : Bool) (svcb : SvcbFn) (lines : List Bytes) (store : Store) (z : Zone)
    (hc : compile (.cdb sep) svcb lines = some store) (hz : zoneOf lines = some z)
    (hg : LinesOK lines) (hno : NoPctTag z) (hw1 : SubnetsW1 z.subnets)
    (c : ClientNet) (mapID : Bytes) (hmap : mapID.length = 2)
    (hc16 : c.ip16.length = 16) (hc4 : c.ipLen4 = true → c.ip16.take 12 = Net.v4Prefix) :
    getLocationCdb store sep c mapID =
      match lpm z.subnets mapID (isIPv4 c) (ipToNat c.ip16) (reqLen c) with
      | some w => .ok (some w.loc, w.ones)
      | none => .ok (none, 0) := by
  obtain ⟨subs, hs, hwf, hrep⟩ := file_cdbRep sep svcb lines store z hc hz hg hno hw1
  rw [hs]
  exact getLocationCdb_eq_lpm hrep hwf sep c mapID hmap hc16 hc4

/-- **subnets, RocksDB**: for every map with declared subnets `S`, the range points the accumulator
writes are those of `Rearrange()` on `S`, `S` satisfies W0, W1, and the compiled store holds under
`marker ++ map` exactly these points (`RdbRep`, the hypothesis of `rearrange_lpm_store`) -/
theorem file_rdbRep (svcb : SvcbFn) (lines : List Bytes) (store : Store) (z : Zone)
    (hc : compile .rdbV1 svcb lines = some store) (hz : zoneOf lines = some z)
    (hwf : SubnetsRdbWF z.subnets) (m : Bytes) (hm : ∃ s ∈ z.subnets, s.mapID = m) :
    SubsWF (z.subnets.filter fun s => s.mapID = m) ∧
      ∃ P, rearrange (addAll (z.subnets.filter fun s => s.mapID = m)) = some P ∧ RdbRep store m P := by
  obtain ⟨subs, hs, hok, hwf', htab, _⟩ := store_rdb_prefix svcb lines store z hc hz hwf
  obtain ⟨s, hsm, rfl⟩ := hm
  rw [hs] at hsm
  obtain ⟨x, hx, rfl⟩ := List.mem_map.1 hsm
  obtain ⟨P, hP, _, hrep⟩ := htab (declOf x).mapID ((mem_mapIds subs _).2 ⟨x, hx, rfl⟩)
  rw [hs, ← filter_declOf]
  exact ⟨subsWF_filter subs hok hwf' _, P, hP, hrep⟩

/-- … hence `GetLocationByMap` of the RocksDB driver on the compiled store is `Spec.lpm` on the
declared subnets, for every 2-byte map id (with or without subnets) and every W4 client -/
theorem file_getLocationRdb (svcb : SvcbFn) (lines : List Bytes) (store : Store) (z : Zone)
    (hc : compile .rdbV1 svcb lines = some store) (hz : zoneOf lines = some z)
    (hwf : SubnetsRdbWF z.subnets) (m : Bytes) (hm : m.length = 2) (c : ClientNet)
    (h16 : (maskedClientIP c).length = 16)
    (hal : ipToNat (maskedClientIP c) % 2 ^ (128 - reqOf c) = 0) :
    getLocationRdb store c m = .ok (lpmRes z.subnets m (ipToNat (maskedClientIP c)) (reqOf c)) :=
  getLocationRdb_file svcb lines store z hc hz hwf m hm c h16 hal

/-- the former file-level conditions (W1 strict, W2, W3; W1 strict, W3) imply the present one (W1
strict) -/
theorem subnetsRdbWF_of_w2 {S : List SubnetDecl} (h : SubnetsRdbWFOld S) : SubnetsRdbWF S := h.toWF

theorem subnetsRdbWF_of_w3 {S : List SubnetDecl} (h : SubnetsRdbWFW3 S) : SubnetsRdbWF S := h.toWF

/-- `file_getLocationRdb` as it was stated before W3 was dropped -/
theorem file_getLocationRdb_w3 (svcb : SvcbFn) (lines : List Bytes) (store : Store) (z : Zone)
    (hc : compile .rdbV1 svcb lines = some store) (hz : zoneOf lines = some z)
    (hwf : SubnetsRdbWFW3 z.subnets) (m : Bytes) (hm : m.length = 2) (c : ClientNet)
    (h16 : (maskedClientIP c).length = 16)
    (hal : ipToNat (maskedClientIP c) % 2 ^ (128 - reqOf c) = 0) :
    getLocationRdb store c m = .ok (lpmRes z.subnets m (ipToNat (maskedClientIP c)) (reqOf c)) :=
  file_getLocationRdb svcb lines store z hc hz (subnetsRdbWF_of_w3 hwf) m hm c h16 hal

/-- `file_getLocationRdb` as it was stated before W2 was dropped -/
theorem file_getLocationRdb_w2 (svcb : SvcbFn) (lines : List Bytes) (store : Store) (z : Zone)
    (hc : compile .rdbV1 svcb lines = some store) (hz : zoneOf lines = some z)
    (hwf : SubnetsRdbWFOld z.subnets) (m : Bytes) (hm : m.length = 2) (c : ClientNet)
    (h16 : (maskedClientIP c).length = 16)
    (hal : ipToNat (maskedClientIP c) % 2 ^ (128 - reqOf c) = 0) :
    getLocationRdb store c m = .ok (lpmRes z.subnets m (ipToNat (maskedClientIP c)) (reqOf c)) :=
  file_getLocationRdb svcb lines store z hc hz (subnetsRdbWF_of_w2 hwf) m hm c h16 hal

/-- **file_located_as_declared**: for every compiled data file that is well formed for its backend
(`FileWF`, `LocIdsOK`), every query name with labels of 1…255 bytes, every 16-byte resolver address
and every regular client-subnet option (or none), the model's `FindLocation` on the compiled store
succeeds and returns the scope and the location id `Spec.locate` prescribes on the declared zone —
the two things `Driver/Serve.lean` (`locOp`, `specOne`) compares. -/
theorem file_located_as_declared (b : Backend) (svcb : SvcbFn) (lines : List Bytes) (store : Store)
    (z : Zone) (hc : compile b svcb lines = some store) (hz : zoneOf lines = some z)
    (hwf : FileWF b lines z) (hids : LocIdsOK z) (q : List Bytes) (hq : WFName q)
    (ecs : Option Ecs) (he : ∀ e, ecs = some e → EcsRegular e)
    (resolver : List UInt8) (hr : resolver.length = 16) :
    ∃ loc, findLocationTop b store (Name.pack q) ecs resolver =
        .ok ((locate z q (clientOfQuery resolver ecs)).scope, loc) ∧
      loc.locID = (locate z q (clientOfQuery resolver ecs)).loc :=
  findLocationTop_file b svcb lines store z hc hz hwf hids q hq ecs he resolver hr

/-! non-vacuity: `8ex.com,cd` `Mex.com,ab` `%xy,10.0.0.0/8,cd` `%x2,10.1.0.0/16,cd`
`%zz,2001:db8::/32,cd` `%aa,0.0.0.0/0,ab` `%bb,::/0,ab` -/

def exFile : List Bytes :=
  [[56, 101, 120, 46, 99, 111, 109, 44, 99, 100],
   [77, 101, 120, 46, 99, 111, 109, 44, 97, 98],
   [37, 120, 121, 44, 49, 48, 46, 48, 46, 48, 46, 48, 47, 56, 44, 99, 100],
   [37, 120, 50, 44, 49, 48, 46, 49, 46, 48, 46, 48, 47, 49, 54, 44, 99, 100],
   [37, 122, 122, 44, 50, 48, 48, 49, 58, 100, 98, 56, 58, 58, 47, 51, 50, 44, 99, 100],
   [37, 97, 97, 44, 48, 46, 48, 46, 48, 46, 48, 47, 48, 44, 97, 98],
   [37, 98, 98, 44, 58, 58, 47, 48, 44, 97, 98]]

/-- `ex.com` -/
def exQ : List Bytes := [[101, 120], [99, 111, 109]]
/-- client subnet 10.1.2.0/24 -/
def exEcs4 : Ecs := ⟨1, 24, 0, [10, 1, 2, 0]⟩
/-- client subnet 2001:db9::/32 -/
def exEcs6 : Ecs := ⟨2, 32, 0, [0x20, 1, 0xd, 0xb9, 0, 0, 0, 0, 0, 0, 0, 0, 0, 0, 0, 0]⟩
/-- resolver 1.2.3.4 -/
def exRes : List UInt8 := Net.v4Prefix ++ [1, 2, 3, 4]

/-- the file compiles on every v1 backend and is well formed for each of them -/
example : (zoneOf exFile).map (fun z => (decide (FileWF (.cdb false) exFile z),
      decide (FileWF (.cdb true) exFile z), decide (FileWF .rdbV1 exFile z), decide (LocIdsOK z))) =
      some (true, true, true, true) ∧
    (compile (.cdb false) noSvcb exFile).isSome = true ∧ (compile (.cdb true) noSvcb exFile).isSome = true ∧
    (compile .rdbV1 noSvcb exFile).isSome = true ∧
    WFName exQ ∧ EcsRegular exEcs4 ∧ EcsRegular exEcs6 ∧ exRes.length = 16 := by decide +kernel

/-- 10.1.2.0/24 gets the /16 (`x2`, scope 16); 2001:db9::/32 matches nothing: default scope 48 and the
resolver's location (`aa` through the resolver map); no option: no scope, the resolver's location -/
example : (zoneOf exFile).map (fun z => [locate z exQ (clientOfQuery exRes (some exEcs4)),
      locate z exQ (clientOfQuery exRes (some exEcs6)), locate z exQ (clientOfQuery exRes none)]) =
    some [⟨[120, 50], some 16⟩, ⟨[97, 97], some 48⟩, ⟨[97, 97], none⟩] := by decide +kernel

example : ([Backend.cdb false, .cdb true, .rdbV1].map fun b => (compile b noSvcb exFile).map fun st =>
      [okVal (findLocationTop b st (Name.pack exQ) (some exEcs4) exRes),
       okVal (findLocationTop b st (Name.pack exQ) (some exEcs6) exRes),
       okVal (findLocationTop b st (Name.pack exQ) none exRes)]) =
    List.replicate 3 (some [some (some 16, ⟨[99, 100], 112, [120, 50]⟩),
      some (some 48, ⟨[97, 98], 96, [97, 97]⟩), some (none, ⟨[97, 98], 96, [97, 97]⟩)]) := by
  decide +kernel

/-! the well-formedness clauses are forced -/

/-- `8ex.com` (client-subnet map with the empty id `[0,0]`) and `%xy,10.0.0.0/8` (subnet of map
`[0,0]`): the specification locates 10.1.2.0/24 at `xy` with scope 8, the server treats map id `[0,0]`
as "no map" (scope 0, resolver's location) — `LocIdsOK`, first clause -/
theorem locIds_needed_map :
    let f : List Bytes := [[56, 101, 120, 46, 99, 111, 109], [37, 120, 121, 44, 49, 48, 46, 48, 46, 48, 46, 48, 47, 56]]
    (zoneOf f).map (fun z => (decide (FileWF (.cdb true) f z), decide (FileWF .rdbV1 f z), decide (LocIdsOK z),
      locate z exQ (clientOfQuery exRes (some exEcs4)))) = some (true, true, false, ⟨[120, 121], some 8⟩) ∧
    ([Backend.cdb true, .rdbV1].map fun b => (compile b noSvcb f).map fun st =>
      okVal (findLocationTop b st (Name.pack exQ) (some exEcs4) exRes)) =
      List.replicate 2 (some (some (some 0, ⟨[0, 0], 0, [0, 0]⟩))) := by decide +kernel

/-- `%xy,0.0.0.0/0` alone (a subnet of map `[0,0]`, no map at all): the lookups for a name without
map run on map id `[0,0]` and find the subnet; the specification says "no location" — `LocIdsOK`,
second clause -/
theorem locIds_needed_subnet :
    let f : List Bytes := [[37, 120, 121, 44, 48, 46, 48, 46, 48, 46, 48, 47, 48]]
    (zoneOf f).map (fun z => (decide (FileWF (.cdb true) f z), decide (FileWF .rdbV1 f z), decide (LocIdsOK z),
      locate z exQ (clientOfQuery exRes none))) = some (true, true, false, ⟨[0, 0], none⟩) ∧
    ([Backend.cdb true, .rdbV1].map fun b => (compile b noSvcb f).map fun st =>
      okVal (findLocationTop b st (Name.pack exQ) none exRes)) =
      List.replicate 2 (some (some (none, ⟨[0, 0], 96, [120, 121]⟩))) := by decide +kernel

/-- `%xy,10.0.0.0/8,cd` and `%x3,10.0.0.0/8,cd` (W1 violated): the range-point table answers with the
LAST declared location, the specification (and the CDB) with the first -/
theorem w1_needed_rdb :
    let f : List Bytes := [[56, 101, 120, 46, 99, 111, 109, 44, 99, 100],
      [37, 120, 121, 44, 49, 48, 46, 48, 46, 48, 46, 48, 47, 56, 44, 99, 100],
      [37, 120, 51, 44, 49, 48, 46, 48, 46, 48, 46, 48, 47, 56, 44, 99, 100]]
    (zoneOf f).map (fun z => (decide (SubnetsRdbWF z.subnets), decide (LocIdsOK z),
      locate z exQ (clientOfQuery exRes (some exEcs4)))) = some (false, true, ⟨[120, 121], some 8⟩) ∧
    ([Backend.cdb true, .rdbV1].map fun b => (compile b noSvcb f).map fun st =>
      okVal (findLocationTop b st (Name.pack exQ) (some exEcs4) exRes)) =
      [some (some (some 8, ⟨[99, 100], 104, [120, 121]⟩)), some (some (some 8, ⟨[99, 100], 104, [120, 51]⟩))] := by
  decide +kernel

/-- `8ex.com,\021x`, `%bb,::/0,zz` and the record `+x\000…\000,1.2.3.4,60,,\000%` (a 17-byte label,
location tag `\000%`): the record's CDB key `\000% ++ pack owner` IS the subnet key of map `\021x`,
network `::`, length 0, so an IPv6 client of `ex.com` is "located" at the first two bytes of the
record's row; everything but `NoPctTag` holds -/
theorem noPctTag_needed :
    let f : List Bytes := [[56, 101, 120, 46, 99, 111, 109, 44, 92, 48, 50, 49, 120],
      [37, 98, 98, 44, 58, 58, 47, 48, 44, 122, 122],
      [43, 120, 92, 48, 48, 48, 92, 48, 48, 48, 92, 48, 48, 48, 92, 48, 48, 48, 92, 48, 48, 48, 92, 48, 48, 48,
       92, 48, 48, 48, 92, 48, 48, 48, 92, 48, 48, 48, 92, 48, 48, 48, 92, 48, 48, 48, 92, 48, 48, 48, 92, 48,
       48, 48, 92, 48, 48, 48, 92, 48, 48, 48, 92, 48, 48, 48, 44, 49, 46, 50, 46, 51, 46, 52, 44, 54, 48, 44,
       44, 92, 48, 48, 48, 37]]
    (zoneOf f).map (fun z => (decide (LinesOK f), decide (NoPctTag z), decide (SubnetsW1 z.subnets),
      decide (LocIdsOK z), locate z exQ (clientOfQuery exRes (some exEcs6)))) =
      some (true, false, true, true, ⟨[0, 0], some 48⟩) ∧
    (compile (.cdb true) noSvcb f).map (fun st =>
      okVal (findLocationTop (.cdb true) st (Name.pack exQ) (some exEcs6) exRes)) =
      some (some (some 0, ⟨[17, 120], 0, [0, 1]⟩)) := by decide +kernel

/-- an IPv4-mapped address in a family-2 option (`::ffff:10.1.2.0/120`): the server treats the client
as IPv4 (scope 104 on the 128-bit scale), the specification as IPv6 — `EcsRegular` -/
theorem ecsRegular_needed :
    let f : List Bytes := [[56, 101, 120, 46, 99, 111, 109, 44, 99, 100],
      [37, 120, 121, 44, 49, 48, 46, 48, 46, 48, 46, 48, 47, 56, 44, 99, 100]]
    let e : Ecs := ⟨2, 120, 0, Net.v4Prefix ++ [10, 1, 2, 0]⟩
    (zoneOf f).map (fun z => (decide (FileWF (.cdb true) f z), decide (FileWF .rdbV1 f z), decide (LocIdsOK z),
      decide (EcsRegular e), locate z exQ (clientOfQuery exRes (some e)))) =
      some (true, true, true, false, ⟨[0, 0], some 48⟩) ∧
    ([Backend.cdb true, .rdbV1].map fun b => (compile b noSvcb f).map fun st =>
      okVal (findLocationTop b st (Name.pack exQ) (some e) exRes)) =
      List.replicate 2 (some (some (some 104, ⟨[99, 100], 104, [120, 121]⟩))) := by decide +kernel

open DnsVerif.PipelineLocV2

/-! ### 7. the pipeline, v2 key layout (`compile .rdbV2`)

Same statements for the third storage configuration. `FindMap` is the closest-key search
`findMapInSortedData`; through C02's `findMapSorted_eq_spec` it computes `Spec.mapFor` once the compiled
store satisfies `RepMapsV2`. `FileWFV2`: map owners with labels shorter than 256 bytes
(`MapLinesV2OK`, forced: `mapLinesV2OK_needed`), at most one map per (type, owner, wildcard flag)
(`MapsUnique`, C02's hypothesis; forced for `FindMap` itself — `mapsUnique_needed_v2` — though the two
bytes `findLocation` copies are still the first declared id), W1 on the subnets. -/

/-- the compiled v2 store represents the declared maps in the sense of C02 -/
theorem file_repMapsV2 (svcb : SvcbFn) (lines : List Bytes) (store : Store) (z : Zone)
    (hc : compile .rdbV2 svcb lines = some store) (hz : zoneOf lines = some z) (hok : MapLinesV2OK lines)
    (hu : MapsUnique z.maps) (ecs : Bool) :
    RevOrder.RepMapsV2 store (mtypeOf ecs) (mapsFn z.maps ecs) :=
  compile_repMapsV2 svcb lines store z hc hz hok hu ecs

/-- … hence `findMapInSortedData` on it is `Spec.mapFor`, for query names of at most 255 octets -/
theorem file_findMap_v2 (svcb : SvcbFn) (lines : List Bytes) (store : Store) (z : Zone)
    (hc : compile .rdbV2 svcb lines = some store) (hz : zoneOf lines = some z) (hok : MapLinesV2OK lines)
    (hu : MapsUnique z.maps) (ecs : Bool) (q : List Bytes) (hq : WFName q)
    (hlen : (Name.pack q).length ≤ 256) :
    findMap .rdbV2 store (Name.pack q) (mtypeOf ecs) = .ok (mapFor z.maps ecs q) :=
  findMap_v2_file svcb lines store z hc hz hok hu ecs q hq hlen

/-- `GetLocationByMap` on the compiled v2 store is `Spec.lpm` on the declared subnets -/
theorem file_getLocationRdb_v2 (svcb : SvcbFn) (lines : List Bytes) (store : Store) (z : Zone)
    (hc : compile .rdbV2 svcb lines = some store) (hz : zoneOf lines = some z) (hok : MapLinesV2OK lines)
    (hwf : SubnetsRdbWF z.subnets) (m : Bytes) (hm : m.length = 2) (c : ClientNet)
    (h16 : (maskedClientIP c).length = 16)
    (hal : ipToNat (maskedClientIP c) % 2 ^ (128 - reqOf c) = 0) :
    getLocationRdb store c m = .ok (lpmRes z.subnets m (ipToNat (maskedClientIP c)) (reqOf c)) :=
  getLocationRdb_v2_file svcb lines store z hc hz hok hwf m hm c h16 hal

/-- **file_located_as_declared**, v2 key layout -/
theorem file_located_as_declared_v2 (svcb : SvcbFn) (lines : List Bytes) (store : Store) (z : Zone)
    (hc : compile .rdbV2 svcb lines = some store) (hz : zoneOf lines = some z) (hwf : FileWFV2 lines z)
    (hids : LocIdsOK z) (q : List Bytes) (hq : WFName q) (hlen : (Name.pack q).length ≤ 256)
    (ecs : Option Ecs) (he : ∀ e, ecs = some e → EcsRegular e)
    (resolver : List UInt8) (hr : resolver.length = 16) :
    ∃ loc, findLocationTop .rdbV2 store (Name.pack q) ecs resolver =
        .ok ((locate z q (clientOfQuery resolver ecs)).scope, loc) ∧
      loc.locID = (locate z q (clientOfQuery resolver ecs)).loc :=
  findLocationTop_v2_file svcb lines store z hc hz hwf hids q hq hlen ecs he resolver hr

/-- non-vacuity: the example file of §6 compiles and is well formed for the v2 layout, and the three
queries evaluate as prescribed -/
example : (zoneOf exFile).map (fun z => (decide (FileWFV2 exFile z), decide (LocIdsOK z))) = some (true, true) ∧
    (compile .rdbV2 noSvcb exFile).isSome = true ∧ (Name.pack exQ).length ≤ 256 ∧
    (compile .rdbV2 noSvcb exFile).map (fun st =>
      [okVal (findLocationTop .rdbV2 st (Name.pack exQ) (some exEcs4) exRes),
       okVal (findLocationTop .rdbV2 st (Name.pack exQ) (some exEcs6) exRes),
       okVal (findLocationTop .rdbV2 st (Name.pack exQ) none exRes)]) =
    some [some (some 16, ⟨[99, 100], 112, [120, 50]⟩), some (some 48, ⟨[97, 98], 96, [97, 97]⟩),
      some (none, ⟨[97, 98], 96, [97, 97]⟩)] := by decide +kernel

/-- `8ex.com,cd` `Mex.com,ab` `%xy,0.0.0.0/8,cd` `%x2,10.1.0.0/16,cd` `%aa,0.0.0.0/0,ab`: a file with
a block that starts at `::ffff:0:0` without being the IPv4 default route — excluded by W2 formerly -/
def exFileW2 : List Bytes :=
  [[56, 101, 120, 46, 99, 111, 109, 44, 99, 100],
   [77, 101, 120, 46, 99, 111, 109, 44, 97, 98],
   [37, 120, 121, 44, 48, 46, 48, 46, 48, 46, 48, 47, 56, 44, 99, 100],
   [37, 120, 50, 44, 49, 48, 46, 49, 46, 48, 46, 48, 47, 49, 54, 44, 99, 100],
   [37, 97, 97, 44, 48, 46, 48, 46, 48, 46, 48, 47, 48, 44, 97, 98]]

/-- non-vacuity of `file_located_as_declared(_v2)` beyond W2: the file is well formed for every
backend (but not in the former sense), and client subnet 9.9.9.0/24 (outside `0.0.0.0/8`) matches
nothing — scope 24, the resolver's location `aa` —, 0.1.2.0/24 gets `xy` with scope 8, 10.1.2.0/24
gets `x2` with scope 16, on all four storage configurations and in the specification. Before the repair
of `AddLocation` the two RocksDB configurations answered `xy`, scope 8, to all three. -/
example : (zoneOf exFileW2).map (fun z => (decide (FileWF (.cdb true) exFileW2 z),
      decide (FileWF .rdbV1 exFileW2 z), decide (FileWFV2 exFileW2 z), decide (LocIdsOK z),
      decide (SubnetsRdbWFOld z.subnets))) = some (true, true, true, true, false) ∧
    (zoneOf exFileW2).map (fun z =>
      [locate z exQ (clientOfQuery exRes (some ⟨1, 24, 0, [9, 9, 9, 0]⟩)),
       locate z exQ (clientOfQuery exRes (some ⟨1, 24, 0, [0, 1, 2, 0]⟩)),
       locate z exQ (clientOfQuery exRes (some exEcs4))]) =
      some [⟨[97, 97], some 24⟩, ⟨[120, 121], some 8⟩, ⟨[120, 50], some 16⟩] := by
  decide +kernel

example : ([Backend.cdb false, .cdb true, .rdbV1, .rdbV2].map fun b => (compile b noSvcb exFileW2).map fun st =>
      [okVal (findLocationTop b st (Name.pack exQ) (some ⟨1, 24, 0, [9, 9, 9, 0]⟩) exRes),
       okVal (findLocationTop b st (Name.pack exQ) (some ⟨1, 24, 0, [0, 1, 2, 0]⟩) exRes),
       okVal (findLocationTop b st (Name.pack exQ) (some exEcs4) exRes)]) =
    List.replicate 4 (some [some (some 24, ⟨[97, 98], 96, [97, 97]⟩),
      some (some 8, ⟨[99, 100], 104, [120, 121]⟩), some (some 16, ⟨[99, 100], 112, [120, 50]⟩)]) := by
  decide +kernel

/-- `8ex.com,cd` `Mex.com,ab` `%ha,::/1,cd` `%e8,::8000:0:0/81,cd` `%ff,255.0.0.0/8,cd`: a file with
IPv6 blocks that contain the IPv4 range (one of them ending with it) next to an IPv4 block that ends
with it — excluded by W3 formerly -/
def exFileW3 : List Bytes :=
  [[56, 101, 120, 46, 99, 111, 109, 44, 99, 100],
   [77, 101, 120, 46, 99, 111, 109, 44, 97, 98],
   [37, 104, 97, 44, 58, 58, 47, 49, 44, 99, 100],
   [37, 101, 56, 44, 58, 58, 56, 48, 48, 48, 58, 48, 58, 48, 47, 56, 49, 44, 99, 100],
   [37, 102, 102, 44, 50, 53, 53, 46, 48, 46, 48, 46, 48, 47, 56, 44, 99, 100]]

/-- client subnets `::1:0:0:5/128`, `::8000:0:5/128`, 255.1.2.0/24, 9.9.9.0/24 -/
def exEcsW3 : List Ecs :=
  [⟨2, 128, 0, [0, 0, 0, 0, 0, 0, 0, 0, 0, 1, 0, 0, 0, 0, 0, 5]⟩,
   ⟨2, 128, 0, [0, 0, 0, 0, 0, 0, 0, 0, 0, 0, 0x80, 0, 0, 0, 0, 5]⟩,
   ⟨1, 24, 0, [255, 1, 2, 0]⟩, ⟨1, 24, 0, [9, 9, 9, 0]⟩]

/-- non-vacuity of `file_located_as_declared(_v2)` beyond W3: the file is well formed for every
backend (but not in the former sense); `::1:0:0:5/128` gets `ha` with scope 1, `::8000:0:5/128` gets
`e8` with scope 81, 255.1.2.0/24 gets `ff` with scope 8, 9.9.9.0/24 matches nothing (scope 24, no
location) — on all four storage configurations and in the specification. Before commits 277e200 /
d84245a the two RocksDB configurations answered `::1:0:0:5/128` with an error (two values under one
range-point key). -/
example : (zoneOf exFileW3).map (fun z => (decide (FileWF (.cdb true) exFileW3 z),
      decide (FileWF .rdbV1 exFileW3 z), decide (FileWFV2 exFileW3 z), decide (LocIdsOK z),
      decide (SubnetsRdbWFW3 z.subnets))) = some (true, true, true, true, false) ∧
    (zoneOf exFileW3).map (fun z => exEcsW3.map fun e => locate z exQ (clientOfQuery exRes (some e))) =
      some [⟨[104, 97], some 1⟩, ⟨[101, 56], some 81⟩, ⟨[102, 102], some 8⟩, ⟨[0, 0], some 24⟩] ∧
    (exEcsW3.all fun e => decide (EcsRegular e)) = true := by
  decide +kernel

example : ([Backend.cdb false, .cdb true, .rdbV1, .rdbV2].map fun b => (compile b noSvcb exFileW3).map fun st =>
      exEcsW3.map fun e => okVal (findLocationTop b st (Name.pack exQ) (some e) exRes)) =
    List.replicate 4 (some [some (some 1, ⟨[99, 100], 1, [104, 97]⟩),
      some (some 81, ⟨[99, 100], 81, [101, 56]⟩), some (some 8, ⟨[99, 100], 104, [102, 102]⟩),
      some (some 24, ⟨[97, 98], 0, [0, 0]⟩)]) := by
  decide +kernel

/-- `8ex.com,cd` and `8ex.com,ef`: the v2 store holds both ids under one key and
`findMapInSortedData` returns the raw multi-value bytes minus the first chunk header (`cd`, the header
of the second chunk, `ef`); `Spec.mapFor` (and the v1 search) the first id -/
theorem mapsUnique_needed_v2 :
    let f : List Bytes := [[56, 101, 120, 46, 99, 111, 109, 44, 99, 100], [56, 101, 120, 46, 99, 111, 109, 44, 101, 102]]
    (zoneOf f).map (fun z => (decide (MapLinesV2OK f), decide (MapsUnique z.maps), mapFor z.maps true exQ)) =
      some (true, false, some [99, 100]) ∧
    (compile .rdbV2 noSvcb f).map (fun st => okVal (findMap .rdbV2 st (Name.pack exQ) [0, 0x38])) =
      some (some (some [99, 100, 2, 0, 0, 0, 101, 102])) := by decide +kernel

/-- a map owner with a 300-byte label: the v1 key (and the specification) carries the label cut to
`300 mod 256 = 44` bytes, so the name `a…a.com` (44 × `a`) has the map; the v2 key carries the whole
label after the length byte 44, and the closest-key search finds no map -/
theorem mapLinesV2OK_needed :
    let f : List Bytes := [[56] ++ List.replicate 300 97 ++ [46, 99, 111, 109, 44, 99, 100]]
    let q : List Bytes := [List.replicate 44 97, [99, 111, 109]]
    (zoneOf f).map (fun z => (decide (MapLinesV2OK f), decide (MapsUnique z.maps), mapFor z.maps true q)) =
      some (false, true, some [99, 100]) ∧
    ([Backend.rdbV1, .rdbV2].map fun b => (compile b noSvcb f).map fun st =>
      okVal (findMap b st (Name.pack q) [0, 0x38])) = [some (some (some [99, 100])), some (some none)] := by
  decide +kernel

end DnsVerif.Props.C03
