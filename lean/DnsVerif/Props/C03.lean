/-
C03 — Client-to-location mapping is longest-prefix match over declared subnets.

Property theorems only; helper lemmas are in `Proofs/Lpm.lean` (laminarity, `Spec.lpm`),
`Proofs/LpmBytes.lean` (16-byte addresses ↔ 128-bit numbers, masks, byte order),
`Proofs/LpmMap.lean` (name → map), `Proofs/LpmCdb.lean` (CDB lookup); for the range-point table:
`Proofs/LpmTable.lean` (vocabulary), `LpmSort.lean` (sort, squash, predecessor search),
`LpmSweep.lean` (sweep invariant), `LpmRdb.lean` (abstract lookup theorem), `LpmConc.lean`,
`LpmFamWF.lean`, `LpmFamMono.lean`, `LpmInner.lean` (the concrete family of ranges and W0–W3),
`LpmStore.lean` (byte keys, `SeekForPrev`), `LpmRearr.lean`, `LpmFinal.lean` (assembly),
`LpmCheck.lean` (verified table checker).
-/
import DnsVerif.Proofs.Lpm
import DnsVerif.Proofs.LpmMap
import DnsVerif.Proofs.LpmCdb
import DnsVerif.Proofs.LpmFinal
import DnsVerif.Proofs.LpmCheck

namespace DnsVerif.Props.C03
open DnsVerif DnsVerif.Spec DnsVerif.Loc DnsVerif.Rearr DnsVerif.Codec DnsVerif.Lpm

/-! ### 1. CIDR blocks are laminar; what `Spec.lpm` returns -/

/-- two aligned power-of-two blocks `[n / 2^(128-o) * 2^(128-o), + 2^(128-o))` are nested or
disjoint (the block with the longer prefix is the smaller one) -/
theorem cidr_laminar (n₁ o₁ n₂ o₂ : Nat) (ho : o₁ ≤ o₂) :
    (blockStart n₁ o₁ ≤ blockStart n₂ o₂ ∧
      blockStart n₂ o₂ + blockSize o₂ ≤ blockStart n₁ o₁ + blockSize o₁) ∨
    (blockStart n₂ o₂ + blockSize o₂ ≤ blockStart n₁ o₁ ∨
      blockStart n₁ o₁ + blockSize o₁ ≤ blockStart n₂ o₂) :=
  Lpm.cidr_laminar n₁ o₁ n₂ o₂ ho

/-- `SubnetDecl.contains` is membership in the aligned block -/
theorem contains_iff_block (s : SubnetDecl) (a : Nat) :
    s.contains a = true ↔
      blockStart s.net s.ones ≤ a ∧ a < blockStart s.net s.ones + blockSize s.ones :=
  Lpm.contains_iff s a

/-- laminarity in the form the lookups use: the subnets containing one address form a chain — of two
subnets containing `a`, the longer one lies inside the shorter one -/
theorem containing_chain (s t : SubnetDecl) (a b : Nat) (ho : s.ones ≤ t.ones)
    (hs : s.contains a = true) (ht : t.contains a = true) (hb : t.contains b = true) :
    s.contains b = true := by
  unfold SubnetDecl.contains at *
  rw [decide_eq_true_iff] at *
  exact contains_mono ho hs ht hb

/-- `lpm` returns a declared subnet of the map, of the client's family, no longer than the
client's own prefix, containing the client; and no such subnet is longer -/
theorem lpm_spec {subnets : List SubnetDecl} {mapID : Bytes} {v4 : Bool} {addr ones : Nat}
    {r : SubnetDecl} (h : lpm subnets mapID v4 addr ones = some r) :
    r ∈ subnets ∧ r.mapID = mapID ∧ r.isV4 = v4 ∧ r.ones ≤ ones ∧ r.contains addr = true ∧
      ∀ t ∈ subnets, t.mapID = mapID → t.isV4 = v4 → t.ones ≤ ones → t.contains addr = true →
        t.ones ≤ r.ones := by
  obtain ⟨h1, ⟨h2, h3, h4, h5⟩, h6⟩ := lpm_some h
  exact ⟨h1, h2, h3, h4, h5, fun t ht a b c d => h6 t ht ⟨a, b, c, d⟩⟩

/-- `lpm` answers `none` exactly when no declared subnet qualifies -/
theorem lpm_none_iff {subnets : List SubnetDecl} {mapID : Bytes} {v4 : Bool} {addr ones : Nat} :
    lpm subnets mapID v4 addr ones = none ↔
      ∀ t ∈ subnets, ¬ (t.mapID = mapID ∧ t.isV4 = v4 ∧ t.ones ≤ ones ∧ t.contains addr = true) :=
  lpm_none

/-- the answer is unique: a qualifying subnet that no qualifying subnet exceeds in length is the
result, provided no other qualifying subnet covers the same block (same length ⇒ same block, by
`qual_same_block`; W1 makes such a subnet unique) -/
theorem lpm_unique {subnets : List SubnetDecl} {mapID : Bytes} {v4 : Bool} {addr ones : Nat}
    {s : SubnetDecl} (hs : s ∈ subnets)
    (hq : s.mapID = mapID ∧ s.isV4 = v4 ∧ s.ones ≤ ones ∧ s.contains addr = true)
    (hmax : ∀ t ∈ subnets, t.mapID = mapID → t.isV4 = v4 → t.ones ≤ ones → t.contains addr = true →
      t.ones ≤ s.ones)
    (hW1 : ∀ t ∈ subnets, t.mapID = s.mapID → t.ones = s.ones →
      blockStart t.net t.ones = blockStart s.net s.ones → t = s) :
    lpm subnets mapID v4 addr ones = some s := by
  apply lpm_of_max hs hq
  · intro t ht hqt; exact hmax t ht hqt.1 hqt.2.1 hqt.2.2.1 hqt.2.2.2
  · intro t ht hqt ho
    exact hW1 t ht (hqt.1.trans hq.1.symm) ho (qual_same_block hq hqt ho)

/-- non-vacuity: 10.0.0.0/8 ⊃ 10.1.0.0/16; a /24 client inside both gets the /16, a /12 client the /8 -/
example :
    let S : List SubnetDecl := [⟨[0, 7], 0xffff0a000000, 104, [1, 1]⟩, ⟨[0, 7], 0xffff0a010000, 112, [2, 2]⟩]
    (lpm S [0, 7] true 0xffff0a010200 120).map (·.loc) = some [2, 2] ∧
    (lpm S [0, 7] true 0xffff0a010000 108).map (·.loc) = some [1, 1] ∧
    lpm S [0, 7] true 0xffff0b000000 120 = none ∧ lpm S [0, 7] false 0xffff0a010200 120 = none := by
  decide

/-! ### 2. name → map: the exact-name map before the nearest enclosing wildcard map -/

/-- if an exact-name map exists, `mapFor` returns an exact-name map whatever wildcard maps exist;
with at most one map per (type, owner, wild) it is *that* map -/
theorem mapFor_exact_before_wildcard {maps : List MapDecl} {ecs : Bool} {q : List Bytes} {m : MapDecl}
    (hm : m ∈ maps) (he : m.ecs = ecs) (hw : m.wild = false) (ho : m.owner = q) :
    (∃ m' ∈ maps, m'.ecs = ecs ∧ m'.wild = false ∧ m'.owner = q ∧ mapFor maps ecs q = some m'.mapID) ∧
    (MapsUnique maps → mapFor maps ecs q = some m.mapID) :=
  ⟨mapFor_exact hm he hw ho, fun hu => mapFor_exact_unique hu hm he hw ho⟩

/-- otherwise: the wildcard map of the nearest proper ancestor that has one -/
theorem mapFor_nearest_wildcard {maps : List MapDecl} {ecs : Bool} {q : List Bytes}
    (hno : ∀ m ∈ maps, ¬ (m.ecs = ecs ∧ m.wild = false ∧ m.owner = q)) :
    mapFor maps ecs q = (properAncestors q).findSome? fun r =>
      (maps.find? fun m => m.ecs = ecs ∧ m.wild ∧ m.owner = r).map (·.mapID) :=
  mapFor_wild hno

/-- the server's label-by-label `FindMap` (CDB and RocksDB-v1 key layout) computes `Spec.mapFor`, on
every store that holds under each v1 map key `type ++ packed owner ++ '='/'*'` exactly the ids of
the declared maps with that key (`MapRepWF`; owners and query with labels of 1…255 bytes).
At most one map per (type, owner, wild) is NOT needed for this statement — on both sides the first
declared one wins — but only under `MapsUnique` is the stored order of the values irrelevant
(`MapRep_get_length_le_one`), i.e. only then do all backends satisfy the representation relation. -/
theorem findMapV1_eq_mapFor {s : Store} {maps : List MapDecl} (h : MapRepWF s maps) (ecs : Bool)
    (q : List Bytes) (hq : WFName q) :
    findMapV1 s (Name.pack q) (mtypeOf ecs) = mapFor maps ecs q :=
  findMapV1_eq_mapFor_wf h ecs q hq

/-- the representation relation is satisfiable (one entry per map), so the theorem is not vacuous -/
theorem mapRep_satisfiable {maps : List MapDecl} (hu : MapsUnique maps)
    (hwf : ∀ m ∈ maps, WFName m.owner) : MapRepWF (storeOfMaps maps) maps :=
  mapRepWF_storeOfMaps hu hwf

/-- exact `a.b` ↦ `[0,1]`, wildcard `*.b` ↦ `[0,2]`: `a.b` gets the exact map, `x.b` the wildcard,
`b` itself nothing (a wildcard does not cover its own owner) -/
example : findMapV1 exStore (Name.pack [[97], [98]]) [0, 0x38] = some [0, 1] ∧
    findMapV1 exStore (Name.pack [[120], [98]]) [0, 0x38] = some [0, 2] ∧
    findMapV1 exStore (Name.pack [[98]]) [0, 0x38] = none := by decide

/-! ### 3. CDB backend: prefix-length set + masked exact keys = longest-prefix match -/

/-- the client prefix length the lookups use: `Mask.Size()` + 96 for IPv4 clients, as a byte -/
def reqLen (c : ClientNet) : Nat := (c.maskOnes + if isIPv4 c then 96 else 0) % 256

/-- On a store holding the prefix-length sets of `prefixSetKVs` and exactly the legacy `%` keys of the
subnet list (`CdbRep`), `GetLocationByMap` of the CDB driver returns `(location, length)` of
`Spec.lpm`'s winner, `(none, 0)` when there is none — with per-family sets (`sep = true`) and with
the combined set (`sep = false`) alike.
Forced hypotheses: `SubnetsWF` (16-byte addresses, length ≤ 128, host bits cleared — all guaranteed
by the `%` line parser — and W1: no two subnets with the same (map, network, length)); the client
address is 16 bytes, a 4-byte client address is IPv4-mapped in 16-byte form, the map id is 2 bytes.
Not needed: the client address need not be masked (the lookup masks it), and the client length is
whatever `reqLen` yields (the model's byte arithmetic is part of the statement). -/
theorem getLocationCdb_eq_lpm {s : Store} {subs : List Subnet} (hrep : CdbRep s subs)
    (hwf : SubnetsWF subs) (sep : Bool) (c : ClientNet) (mapID : Bytes) (hmap : mapID.length = 2)
    (hc16 : c.ip16.length = 16) (hc4 : c.ipLen4 = true → c.ip16.take 12 = Net.v4Prefix) :
    getLocationCdb s sep c mapID =
      match lpm (subs.map declOf) mapID (isIPv4 c) (ipToNat c.ip16) (reqLen c) with
      | some w => .ok (some w.loc, w.ones)
      | none => .ok (none, 0) := by
  have hv : isIPv4 c = isV4Addr (ipToNat c.ip16) := by
    unfold isIPv4
    cases h4 : c.ipLen4 with
    | true =>
      have := (take12_v4_iff hc16).1 (hc4 h4)
      rw [this]; rfl
    | false =>
      rw [Bool.false_or]
      by_cases h : c.ip16.take 12 = Net.v4Prefix
      · rw [(take12_v4_iff hc16).1 h]; exact decide_eq_true h
      · have : isV4Addr (ipToNat c.ip16) = false := by
          rw [← Bool.not_eq_true]; exact fun hc => h ((take12_v4_iff hc16).2 hc)
        rw [this]; exact decide_eq_false h
  unfold reqLen
  rw [hv]
  refine Eq.trans ?_ (cdb_find_eq_lpm hrep hwf sep mapID hmap c.ip16 hc16 _)
  rw [← hv]
  unfold getLocationCdb
  show (match first s (if sep = true then if isIPv4 c = true then [0, 0x34] else [0, 0x36] else [0, 0x2f]) with
    | none => Res.ok (none, 0)
    | some maskLens => getLocationCdb.go s mapID (isIPv4 c)
        ((c.maskOnes + if isIPv4 c = true then 96 else 0) % 256) maskLens c.ip16) = _
  rw [prefixSet_first hrep sep (isIPv4 c)]
  have := cdb_go_spec s mapID (isIPv4 c) ((c.maskOnes + if isIPv4 c = true then 96 else 0) % 256)
    c.ip16 hc16 (lenSet subs (selOf sep (isIPv4 c))) 128 (Nat.le_refl _) (lenSet_desc _ _)
    (fun m hm => (mem_lenSet.1 hm).1)
  rw [maskIP_128 hc16] at this
  exact this

/-- no-location outcome, spelled out: `(none, 0)` iff no declared subnet of the map and family
contains the client with a length ≤ the client's -/
theorem getLocationCdb_none_iff {s : Store} {subs : List Subnet} (hrep : CdbRep s subs)
    (hwf : SubnetsWF subs) (sep : Bool) (c : ClientNet) (mapID : Bytes) (hmap : mapID.length = 2)
    (hc16 : c.ip16.length = 16) (hc4 : c.ipLen4 = true → c.ip16.take 12 = Net.v4Prefix) :
    (∀ t ∈ subs.map declOf, ¬ (t.mapID = mapID ∧ t.isV4 = isIPv4 c ∧ t.ones ≤ reqLen c ∧
        t.contains (ipToNat c.ip16) = true)) →
      getLocationCdb s sep c mapID = .ok (none, 0) := by
  intro h
  rw [getLocationCdb_eq_lpm hrep hwf sep c mapID hmap hc16 hc4, lpm_none.2 h]

/-! ### 4. RocksDB backend: the range-point table of `Rearrange()` is longest-prefix match

`SubsWF S` (`Proofs/LpmConc.lean`) is, for the subnets `S` of ONE map: every length ≤ 128, network
< 2^128 with host bits clear (W0, parser-guaranteed), W1 (no two equal (network, length)),
W2 (network `::` ⇒ length 0; network `::ffff:0:0` ⇒ length 96), W3 (no block other than `::/0` and
`0.0.0.0/0` contains `::ffff:0:0/96`), 2-byte locations. W2 and W3 are necessary (§5). -/

/-- **sweep_invariant**: for ANY family of ranges that is laminar with strictly longer prefixes
inwards at shared start / end points (`RngWF`), on its rank-sorted start/stop events the stack sweep
never runs out of stack, and the point emitted for each event carries mask length and location of
the innermost range open just after the event (`IsHead`: open, and inside every open range). The
stack is at all times the chain of open ranges, most recently opened first (`Inv`). -/
theorem sweep_invariant {F : List Rng} (hF : RngWF F) (rest : List GEv) (t : Nat) (st : List Rng)
    (hc : Cut F t rest) (hinv : Inv F t st) :
    ∃ hs : List Rng, hs.length = rest.length ∧
      sweep (rest.map GEv.pt) (st.map tag) = some ((rest.zip hs).map outPt) ∧
      ∀ gh ∈ rest.zip hs, IsHead F (grank gh.1) gh.2 ∧ (gh.1.kind = .start → gh.2 = gh.1.r) :=
  sweep_ghost hF rest t st hc hinv

/-- **rearrange_lpm** (FULL theorem, table form): for the subnets of one map satisfying W0–W3,
`Rearrange()` succeeds and the predecessor of `(a, req)` in its output, in database key order
(address, mask-length byte), carries location and length of `Spec.lpm`'s winner — `(none, 0)` when
there is none — for every address `a < 2^128` and every prefix length `req < 256` such that `a` is
masked to `req` (W4; necessary, the lookup of an unmasked address can return a subnet that does not
contain it). -/
theorem rearrange_lpm {S : List SubnetDecl} (h : SubsWF S) (hne : S ≠ []) {m : Bytes}
    (hm : ∀ s ∈ S, s.mapID = m) :
    ∃ P, rearrange (addAll S) = some P ∧ TableWF P ∧
      ∀ a req, a < 2 ^ 128 → req < 256 → a % 2 ^ (128 - req) = 0 →
        lookupRes P a req = lpmRes S m a req :=
  rearrange_table h hne hm

/-- **rangepoint_keys_distinct**: after the squash no two range points have the same database key,
so every range-point key has exactly one value -/
theorem rangepoint_keys_distinct {S : List SubnetDecl} (h : SubsWF S) (hne : S ≠ []) {P : List Point}
    (hP : rearrange (addAll S) = some P) : P.Pairwise fun u v => pkey u ≠ pkey v := by
  have hwf' : SubsWF (S.map fun s => { s with mapID := [] }) := by
    constructor
    · intro s hs; obtain ⟨t, ht, rfl⟩ := List.mem_map.1 hs; exact h.ones_le t ht
    · intro s hs; obtain ⟨t, ht, rfl⟩ := List.mem_map.1 hs; exact h.net_lt t ht
    · intro s hs; obtain ⟨t, ht, rfl⟩ := List.mem_map.1 hs; exact h.aligned t ht
    · rw [List.pairwise_map]; exact h.w1
    · intro s hs; obtain ⟨t, ht, rfl⟩ := List.mem_map.1 hs; exact h.w2 t ht
    · intro s hs; obtain ⟨t, ht, rfl⟩ := List.mem_map.1 hs; exact h.w3 t ht
    · intro s hs; obtain ⟨t, ht, rfl⟩ := List.mem_map.1 hs; exact h.loc_len t ht
  obtain ⟨P', hP', hwf, _⟩ := rearrange_table hwf' (m := []) (by simpa using hne)
    (by intro s hs; obtain ⟨t, _, rfl⟩ := List.mem_map.1 hs; rfl)
  have hadd : addAll (S.map fun s => { s with mapID := [] }) = addAll S := by
    unfold addAll; rw [List.foldl_map]
  rw [hadd, hP] at hP'
  cases hP'
  exact hwf.keys_distinct

/-- **rearrange_lpm** (store form): on EVERY store whose keys with prefix `marker ++ map` are exactly
the range points of the map (`RdbRep`), `GetLocationByMap` of the RocksDB driver (`SeekForPrev` on
`marker ++ map ++ ip ++ [masklen]`) returns `Spec.lpm`'s answer -/
theorem rearrange_lpm_store {S : List SubnetDecl} (h : SubsWF S) (hne : S ≠ []) {m : Bytes}
    (hm2 : m.length = 2) (hm : ∀ s ∈ S, s.mapID = m) :
    ∃ P, rearrange (addAll S) = some P ∧
      ∀ (s : Store), RdbRep s m P → ∀ (c : ClientNet), (maskedClientIP c).length = 16 →
        ipToNat (maskedClientIP c) % 2 ^ (128 - reqOf c) = 0 →
        getLocationRdb s c m = .ok (lpmRes S m (ipToNat (maskedClientIP c)) (reqOf c)) :=
  Lpm.rearrange_lpm_store h hne hm2 hm

/-- … in particular on the database `SubnetRanger.MarshalMap` writes for the subnets of one map:
the records exist (no sweep failure) and the lookup is `Spec.lpm` -/
theorem rearrange_lpm_db {subs : List Subnet} {m : Bytes} (hm2 : m.length = 2) (hne : subs ≠ [])
    (hm : ∀ x ∈ subs, x.lmap = m) (h : SubsWF (subs.map declOf)) :
    ∃ kvs, rangePointKVs subs = some kvs ∧
      ∀ (c : ClientNet), (maskedClientIP c).length = 16 →
        ipToNat (maskedClientIP c) % 2 ^ (128 - reqOf c) = 0 →
        getLocationRdb (Store.ofKVs kvs) c m =
          .ok (lpmRes (subs.map declOf) m (ipToNat (maskedClientIP c)) (reqOf c)) :=
  rearrange_lpm_single hm2 hne hm h

/-- W4 is met by the regular clients: a valid mask of the address's own size (what
`ResolverLocation` and a well-formed ECS option produce) -/
theorem client_masked (c : ClientNet) (h16 : c.ip16.length = 16) (hv : c.maskValid = true)
    (hreg : (c.maskBits = 32 ∧ isIPv4 c = true ∧ c.maskOnes ≤ 32) ∨
            (c.maskBits = 128 ∧ isIPv4 c = false ∧ c.maskOnes ≤ 128)) :
    (maskedClientIP c).length = 16 ∧ ipToNat (maskedClientIP c) % 2 ^ (128 - reqOf c) = 0 :=
  client_aligned c h16 hv hreg

/-- W0 from the parser's guarantee (16-byte network address with host bits cleared) -/
theorem w0_of_masked {ip : List UInt8} {ones : Nat} (h16 : ip.length = 16) (hle : ones ≤ 128)
    (hm : Net.maskIP ip ones = ip) : ipToNat ip % 2 ^ (128 - ones) = 0 :=
  aligned_of_masked h16 hle hm

/-- the verified table checker (kept as the oracle for tables produced by the REAL `Rearrange()`):
`checkTable` evaluates predecessor lookup and `lpm` at finitely many breakpoints; passing implies
agreement on all `2^128 × 256` masked inputs -/
theorem checkTable_sound (S : List SubnetDecl) (mapID : Bytes) (P : List Point)
    (h : checkTable S mapID P = true) :
    ∀ a req, a < 2 ^ 128 → req < 256 → a % 2 ^ (128 - req) = 0 →
      lookupRes P a req = lpmRes S mapID a req :=
  Lpm.checkTable_sound S mapID P h

/-- non-vacuity: `10.0.0.0/8 ⊃ 10.1.0.0/16`, `::/0`, `2001:db8::/32` satisfy W0–W3 … -/
def exSubnets : List Subnet :=
  [{ lo := some [1, 1], ip := natToIP 0xffff0a000000, ones := 104, lmap := [0, 7] },
   { lo := some [2, 2], ip := natToIP 0xffff0a010000, ones := 112, lmap := [0, 7] },
   { lo := some [3, 3], ip := natToIP 0, ones := 0, lmap := [0, 7] },
   { lo := some [4, 4], ip := natToIP (0x20010db8 * 2 ^ 96), ones := 32, lmap := [0, 7] }]

theorem exSubnets_wf : SubsWF (exSubnets.map declOf) := by
  constructor <;> decide

/-- … so the theorem applies to them; and the instance `10.1.2.0/24 ↦ [2,2]/112` evaluates -/
example : ∃ kvs, rangePointKVs exSubnets = some kvs ∧
    ∀ (c : ClientNet), (maskedClientIP c).length = 16 →
      ipToNat (maskedClientIP c) % 2 ^ (128 - reqOf c) = 0 →
      getLocationRdb (Store.ofKVs kvs) c [0, 7] =
        .ok (lpmRes (exSubnets.map declOf) [0, 7] (ipToNat (maskedClientIP c)) (reqOf c)) :=
  rearrange_lpm_db rfl (by decide) (by decide) exSubnets_wf

example : lpmRes (exSubnets.map declOf) [0, 7] 0xffff0a010200 120 = (some [2, 2], 112) ∧
    lpmRes (exSubnets.map declOf) [0, 7] 0xffff0b000000 104 = (none, 0) ∧
    lpmRes (exSubnets.map declOf) [0, 7] (0x20010db8 * 2 ^ 96 + 2 ^ 64) 64 = (some [4, 4], 32) ∧
    lpmRes (exSubnets.map declOf) [0, 7] (2 ^ 127) 1 = (some [3, 3], 0) := by decide

/-! ### 5. the well-formedness conditions of the range-point table are necessary -/

/-- `0.0.0.0/8` (network `::ffff:0:0`, length 104): `AddLocation` tests only the address … -/
def w2Subnets : List Subnet :=
  [{ lo := some [1, 1], ip := Net.v4Prefix ++ [0, 0, 0, 0], ones := 104, lmap := [0, 7] }]

/-- … so the subnet becomes the IPv4 default route: client `192.168.1.0/24`, which is outside
`0.0.0.0/8`, is given the location (W2 is necessary) -/
theorem w2_needed :
    (rangePointKVs w2Subnets).map (fun kvs => getLocationRdb (Store.ofKVs kvs)
      { ip16 := Net.v4Prefix ++ [192, 168, 1, 0], ipLen4 := false, maskOnes := 24, maskBits := 32 } [0, 7])
      = some (.ok (some [1, 1], 104)) ∧
    lpm (w2Subnets.map declOf) [0, 7] true 0xffffc0a80100 120 = none := by
  constructor
  · rfl
  · decide

/-- `::8000:0:0/81` (= `[2^47, 2^48)`, an IPv6-family block containing `::ffff:0:0/96`) together with
`255.0.0.0/8` (ends where the IPv4 range ends) -/
def w3Subnets : List Subnet :=
  [{ lo := some [1, 1], ip := natToIP (0x8000 * 2 ^ 32), ones := 81, lmap := [0, 7] },
   { lo := some [2, 2], ip := natToIP 0xffffff000000, ones := 104, lmap := [0, 7] }]

/-- the implicit IPv4 null range (mask length 0) ends after the enclosing /81: the stack pops out of
order and two range points with the same key `(::1:0:0:0, 0)` survive the squash (W3 is necessary) … -/
theorem w3_needed :
    ∃ kvs k, rangePointKVs w3Subnets = some kvs ∧ (kvs.filter (·.1 = k)).length = 2 :=
  ⟨_, Generated.dnsdata_RangePointKeyMarker ++ [0, 7] ++ natToIP (2 ^ 48) ++ [0], rfl, by decide +kernel⟩

/-- is the outcome an error return? -/
def isErr {α : Type} : Res α → Bool
  | .err => true
  | _ => false

/-- … which in RocksDB is one key with two values, rejected by `GetLocationByMap`: every IPv6 client
whose predecessor is that key (here `::1:0:0:5/128`) gets an error -/
theorem w3_error :
    (rangePointKVs w3Subnets).map (fun kvs => isErr (getLocationRdb (Store.ofKVs kvs)
      { ip16 := natToIP (2 ^ 48 + 5), ipLen4 := false, maskOnes := 128 } [0, 7])) = some true := by
  decide +kernel

end DnsVerif.Props.C03
