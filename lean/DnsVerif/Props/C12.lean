/-
C12 — The response cache is invisible.

Property theorems only; helper lemmas are in `Proofs/Cache.lean`, the model in `Model/Cache.lean`.

* the cache key `fmt.Sprintf("%.3d/%d/%d/%s", loc.LocID, qtype, qclass, name)` is injective
  (`cacheKey_injective`); the format used before commit 34f5759 was not (`cacheKey_old_format_collides`);
* for every interleaving of any number of queries, reloads and evictions (induction over the step
  list of the protocol machine `Cache.step`): every cache entry is labelled with the current
  generation (`cache_entry_current`), no query is ever sent a response computed from a generation
  older than the one it acquired, and what it is sent is the uncached response of that generation
  (`no_stale_after_reload`); in every sequential history the cached handler sends exactly what the
  cache-less handler sends (`cache_invisible_seq`);
* the protocol before commit e06679e (insertion without the generation test) serves a stale response
  in a concrete interleaving (`old_protocol_stale`).
-/
import DnsVerif.Proofs.Cache
import DnsVerif.Generated.Facts

namespace DnsVerif.Props.C12
open DnsVerif DnsVerif.Cache

/-! ### the key -/

/-- The format literal of the `cacheKey =` assignment in `ServeDNSWithRCODE`, re-extracted from the
source on every run, is the one the model transcribes. -/
theorem cache_key_format_matches : Generated.dnsserver_cacheKeyFormat = cacheKeyFormat := by decide

theorem model_key_format : cacheKeyFormat = "%.3d/%d/%d/%s" := rfl

/-- Full strength: for every 2-byte location id (the Go type is `[2]byte`), all query types and
classes (no bound needed) and ALL names (not only lower-case presentation-format names ending in
'.'), equal keys have equal components. -/
theorem cacheKey_injective (loc loc' : Bytes) (qtype qclass qtype' qclass' : Nat) (name name' : Bytes)
    (hl : loc.length = 2) (hl' : loc'.length = 2)
    (h : cacheKey loc qtype qclass name = cacheKey loc' qtype' qclass' name') :
    loc = loc' ∧ qtype = qtype' ∧ qclass = qclass' ∧ name = name' := by
  match loc, hl, loc', hl' with
  | [a, b], _, [a', b'], _ =>
    obtain ⟨ha, hb, ht, hc, hn⟩ := cacheKey_inj h
    exact ⟨by rw [ha, hb], ht, hc, hn⟩

/-- `"05.x."` and `"5.x."` as bytes -/
def n05x : Bytes := [48, 53, 46, 120, 46]
def n5x : Bytes := [53, 46, 120, 46]

/-- non-vacuity: location `[1 2]`, type 28, class 1, name `a.` renders as `[001 002]/28/1/a.` -/
example : cacheKey [1, 2] 28 1 [97, 46] =
    [91, 48, 48, 49, 32, 48, 48, 50, 93, 47, 50, 56, 47, 49, 47, 97, 46] := by
  decide

/-- The format before commit 34f5759, `"%.3d%.3d%.3d%s"`, is not injective: `%.3d` is a *minimum*
width, so (type 100, class 1000) and (type 1001, class 0) both render `1001000`; and a class can
swallow the first digit of the name. -/
theorem cacheKey_old_format_collides (loc name : Bytes) :
    cacheKeyOld loc 100 1000 name = cacheKeyOld loc 1001 0 name ∧
    cacheKeyOld loc 1 100 n05x = cacheKeyOld loc 1 1000 n5x := by
  have h1 : decimal3 100 ++ decimal3 1000 = decimal3 1001 ++ decimal3 0 := by decide
  have h2 : decimal3 100 ++ n05x = decimal3 1000 ++ n5x := by decide
  unfold cacheKeyOld
  constructor
  · simp only [List.append_assoc]
    rw [← List.append_assoc (decimal3 100), h1, List.append_assoc]
  · simp only [List.append_assoc]
    rw [h2]

/-- the current format keeps the colliding pairs apart -/
example : cacheKey [0, 1] 100 1000 [] ≠ cacheKey [0, 1] 1001 0 [] ∧
    cacheKey [0, 1] 1 100 n05x ≠ cacheKey [0, 1] 1 1000 n5x := by
  decide

/-! ### the protocol, all interleavings -/

variable {Q R : Type}

/-- Invariant over ALL interleavings of any number of queries, reloads and evictions: every cache
entry was computed from the current database generation. -/
theorem cache_entry_current (P : Params Q R) (hg : P.genCheck = true) (steps : List (Step Q)) :
    ∀ p ∈ (run P steps).cache, p.2.label = (run P steps).gen :=
  entriesCurrent_runFrom P hg steps {} (fun p hp => by cases hp)

/-- Whatever the interleaving: a query that has been answered (`sent o`) acquired generation `o.acq`
— i.e. it entered after `o.acq` reloads had completed — and was sent the response the cache-less
handler computes from generation `o.label ≥ o.acq` for this very query: never a response computed
from a generation that had already been replaced when the query acquired its reader.
`V` = the queries considered (e.g. 2-byte location ids); `KeyDetermines` = the uncached response is a
function of the key, which `cacheKey_injective` provides for any handler that is a function of the
key's components (`keyDetermines_of_components`). -/
theorem no_stale_after_reload (P : Params Q R) (V : Q → Prop) (hg : P.genCheck = true)
    (hdet : KeyDetermines P V) (steps : List (Step Q)) (hv : ∀ st ∈ steps, StepValid V st) :
    ∀ f ∈ (run P steps).flights, ∀ o, f.phase = .sent o →
      o.acq ≤ o.label ∧ o.label ≤ (run P steps).gen ∧ o.rsp = P.resp o.label f.q := by
  intro f hf o ho
  have hinv := inv_runFrom P V hg steps {} hv (inv_init P V)
  obtain ⟨hvf, hok⟩ := hinv.fl f hf
  rw [ho] at hok
  obtain ⟨h1, h2, h3⟩ := hok
  refine ⟨h1, h2, ?_⟩
  rcases h3 with ⟨hnb, q', hv', hnb', hk, hr⟩ | h3
  · rw [hr]; exact hdet _ q' f.q hv' hvf hnb' hnb hk
  · exact h3

/-- In any sequential history of queries, reloads and evictions the cached handler sends, query by
query, exactly what the cache-less handler would send. -/
theorem cache_invisible_seq (P : Params Q R) (V : Q → Prop) (hg : P.genCheck = true)
    (hdet : KeyDetermines P V) (h : List (Item Q)) (hv : ∀ q, Item.query q ∈ h → V q) :
    sentList (run P (seqSteps 0 h)) = (uncachedSeq P 0 h).map some := by
  have := seq_from P V hg hdet h {} [] hv (inv_init P V) rfl
  simpa [AllSent, run] using this

/-- key-relevant query data and everything else about a query (client, EDNS, letter case, …) -/
structure Query (X : Type) where
  loc : Bytes
  qtype : Nat
  qclass : Nat
  name : Bytes
  rest : X

/-- Any handler whose cache-touching responses are a function of (location id, qtype, qclass,
lower-cased name) satisfies `KeyDetermines` for the real key function — this is where
`cacheKey_injective` enters. -/
theorem keyDetermines_of_components {X : Type} (kindOf : Query X → Kind) (wrs : Bool)
    (resp : Nat → Query X → R)
    (hresp : ∀ g (q q' : Query X), kindOf q ≠ .badvers → kindOf q' ≠ .badvers →
      q.loc = q'.loc → q.qtype = q'.qtype → q.qclass = q'.qclass → q.name = q'.name →
      resp g q = resp g q') :
    KeyDetermines
      { keyOf := fun q => cacheKey q.loc q.qtype q.qclass q.name, kindOf := kindOf, resp := resp, wrs := wrs }
      (fun q => q.loc.length = 2) := by
  intro g q q' hv hv' hnb hnb' hk
  obtain ⟨h1, h2, h3, h4⟩ := cacheKey_injective _ _ _ _ _ _ _ _ hv hv' hk
  exact hresp g q q' hnb hnb' h1 h2 h3 h4

/-! ### non-vacuity and the repaired defect -/

/-- a tiny concrete instance: queries are (key, kind), the response is the generation stamp -/
def demo (genCheck : Bool) : Params (Bytes × Kind) Nat :=
  { keyOf := (·.1), kindOf := (·.2), resp := fun g _ => g, wrs := false, genCheck := genCheck }

def kA : Bytes × Kind := (cacheKey [0, 1] 1 1 [97, 46], .plain)

/-- the race: query 0 computes on generation 0, a reload runs to completion, query 0 inserts,
a fresh query 1 looks the key up -/
def raceSteps : List (Step (Bytes × Kind)) :=
  [.start kA, .acquire 0, .lookup 0, .compute 0, .reload, .insert 0, .send 0,
   .start kA, .acquire 1, .lookup 1, .compute 1, .insert 1, .send 1]

/-- The protocol before commit e06679e (no generation test in the insertion): the fresh query, which
acquired generation 1, HITS the entry computed from generation 0 and is sent the stale response. -/
theorem old_protocol_stale :
    sentOf (run (demo false) raceSteps) 1 = some { rsp := 0, label := 0, acq := 1, hit := true } := by
  decide

/-- the current protocol on the same interleaving: the insertion is dropped, the fresh query misses
and is sent generation 1 (and query 0, in flight across the reload, its own generation-0 response) -/
example :
    sentOf (run (demo true) raceSteps) 1 = some { rsp := 1, label := 1, acq := 1, hit := false } ∧
    sentOf (run (demo true) raceSteps) 0 = some { rsp := 0, label := 0, acq := 0, hit := false } ∧
    (run (demo true) raceSteps).cache.map (·.2.label) = [1] := by
  decide

/-- non-vacuity of `cache_invisible_seq`: a history with hits, a reload and an eviction -/
example :
    let h : List (Item (Bytes × Kind)) := [.query kA, .query kA, .reload, .query kA, .evict kA.1, .query kA]
    sentList (run (demo true) (seqSteps 0 h)) = [some 0, some 0, some 1, some 1] ∧
    uncachedSeq (demo true) 0 h = [0, 0, 1, 1] ∧
    (run (demo true) (seqSteps 0 h)).flights.map (fun f => match f.phase with | .sent o => o.hit | _ => false)
      = [false, true, false, false] := by
  decide

end DnsVerif.Props.C12
