/-
C12 — The response cache is invisible.

Property theorems only; helper lemmas are in `Proofs/Cache.lean`, the model in `Model/Cache.lean`.

* the cache key `fmt.Sprintf("%.3d/%d/%d/%s", loc.LocID, qtype, qclass, name)` is injective
  (`cacheKey_injective`); the format used before commit 34f5759 was not (`cacheKey_old_format_collides`);
* for every interleaving of any number of queries, reloads and evictions (induction over the step
  list of the protocol machine `Cache.step`): every cache entry is labelled with the current
  generation (`cache_entry_current`), no query is ever sent a response computed from a generation
  older than the one it acquired, and what it is sent is the uncached response of that generation
  (`no_stale_after_reload`); in every sequential history the cached handler sends exactly what the
  cache-less handler sends (`cache_invisible_seq`);
* the protocol before commit e06679e (insertion without the generation test) serves a stale response
  in a concrete interleaving (`old_protocol_stale`);
* the link to the handler model `Serve.serve` (`Model/Serve.lean`): for one database generation, one
  client location and one answer limit, two queries with the same lower-cased name, type and class
  whose spellings differ only in letter case get outcomes that are equal up to the letter case of
  owner names (`serve_depends_on_key`, exact form `serve_depends_on_key_exact`) — for EVERY query
  type. (Before commit "fix: HasRecord compares owner names case-insensitively" this failed for
  ANY (255): the additional section depended on the spelling, and the cache made that visible; the
  former witness is kept below as a positive example.) Hence `KeyDetermines` holds outright for the
  machine whose `resp` is the (owner-lower-cased) handler model (`keyDetermines_serve`), and
  `no_stale_after_reload_serve` / `cache_invisible_seq_serve` need no hypothesis about `resp` and
  none about the query type.
-/
import DnsVerif.Proofs.Cache
import DnsVerif.Proofs.ServeKey
import DnsVerif.Generated.Facts

namespace DnsVerif.Props.C12
open DnsVerif DnsVerif.Cache

/-! ### the key -/

/-- The format literal of the one `fmt.Sprintf` over a location id in package `dnsserver`,
re-extracted from the source on every run, is the one the model transcribes. The fact is `none` when
the key is no longer built by such a call (the extractor says so in the evidence); the tie is then
the behavioural one alone: the key strings held by the real cache after every `hist`/`race`
schedule are compared with the model's (`keys=` in the op output). -/
theorem cache_key_format_matches :
    (Generated.dnsserver_cacheKeyFormat.all (· == cacheKeyFormat)) = true := by decide

theorem model_key_format : cacheKeyFormat = "%.3d/%d/%d/%s" := rfl

/-- Full strength: for every 2-byte location id (the Go type is `[2]byte`), all query types and
classes (no bound needed) and ALL names (not only lower-case presentation-format names ending in
'.'), equal keys have equal components. -/
theorem cacheKey_injective (loc loc' : Bytes) (qtype qclass qtype' qclass' : Nat) (name name' : Bytes)
    (hl : loc.length = 2) (hl' : loc'.length = 2)
    (h : cacheKey loc qtype qclass name = cacheKey loc' qtype' qclass' name') :
    loc = loc' ∧ qtype = qtype' ∧ qclass = qclass' ∧ name = name' := by
  match loc, hl, loc', hl' with
  | [a, b], _, [a', b'], _ =>
    obtain ⟨ha, hb, ht, hc, hn⟩ := cacheKey_inj h
    exact ⟨by rw [ha, hb], ht, hc, hn⟩

/-- `"05.x."` and `"5.x."` as bytes -/
def n05x : Bytes := [48, 53, 46, 120, 46]
def n5x : Bytes := [53, 46, 120, 46]

/-- non-vacuity: location `[1 2]`, type 28, class 1, name `a.` renders as `[001 002]/28/1/a.` -/
example : cacheKey [1, 2] 28 1 [97, 46] =
    [91, 48, 48, 49, 32, 48, 48, 50, 93, 47, 50, 56, 47, 49, 47, 97, 46] := by
  decide

/-- The format before commit 34f5759, `"%.3d%.3d%.3d%s"`, is not injective: `%.3d` is a *minimum*
width, so (type 100, class 1000) and (type 1001, class 0) both render `1001000`; and a class can
swallow the first digit of the name. -/
theorem cacheKey_old_format_collides (loc name : Bytes) :
    cacheKeyOld loc 100 1000 name = cacheKeyOld loc 1001 0 name ∧
    cacheKeyOld loc 1 100 n05x = cacheKeyOld loc 1 1000 n5x := by
  have h1 : decimal3 100 ++ decimal3 1000 = decimal3 1001 ++ decimal3 0 := by decide
  have h2 : decimal3 100 ++ n05x = decimal3 1000 ++ n5x := by decide
  unfold cacheKeyOld
  constructor
  · simp only [List.append_assoc]
    rw [← List.append_assoc (decimal3 100), h1, List.append_assoc]
  · simp only [List.append_assoc]
    rw [h2]

/-- the current format keeps the colliding pairs apart -/
example : cacheKey [0, 1] 100 1000 [] ≠ cacheKey [0, 1] 1001 0 [] ∧
    cacheKey [0, 1] 1 100 n05x ≠ cacheKey [0, 1] 1 1000 n5x := by
  decide

/-! ### the protocol, all interleavings -/

variable {Q R : Type}

/-- Invariant over ALL interleavings of any number of queries, reloads and evictions: every cache
entry was computed from the current database generation. -/
theorem cache_entry_current (P : Params Q R) (hg : P.genCheck = true) (steps : List (Step Q)) :
    ∀ p ∈ (run P steps).cache, p.2.label = (run P steps).gen :=
  entriesCurrent_runFrom P hg steps {} (fun p hp => by cases hp)

/-- Whatever the interleaving: a query that has been answered (`sent o`) acquired generation `o.acq`
— i.e. it entered after `o.acq` reloads had completed — and was sent the response the cache-less
handler computes from generation `o.label ≥ o.acq` for this very query: never a response computed
from a generation that had already been replaced when the query acquired its reader.
`V` = the queries considered (e.g. 2-byte location ids); `KeyDetermines` = the uncached response is a
function of the key, which `cacheKey_injective` provides for any handler that is a function of the
key's components (`keyDetermines_of_components`). -/
theorem no_stale_after_reload (P : Params Q R) (V : Q → Prop) (hg : P.genCheck = true)
    (hdet : KeyDetermines P V) (steps : List (Step Q)) (hv : ∀ st ∈ steps, StepValid V st) :
    ∀ f ∈ (run P steps).flights, ∀ o, f.phase = .sent o →
      o.acq ≤ o.label ∧ o.label ≤ (run P steps).gen ∧ o.rsp = P.resp o.label f.q := by
  intro f hf o ho
  have hinv := inv_runFrom P V hg steps {} hv (inv_init P V)
  obtain ⟨hvf, hok⟩ := hinv.fl f hf
  rw [ho] at hok
  obtain ⟨h1, h2, h3⟩ := hok
  refine ⟨h1, h2, ?_⟩
  rcases h3 with ⟨hnb, q', hv', hnb', hk, hr⟩ | h3
  · rw [hr]; exact hdet _ q' f.q hv' hvf hnb' hnb hk
  · exact h3

/-- In any sequential history of queries, reloads and evictions the cached handler sends, query by
query, exactly what the cache-less handler would send. -/
theorem cache_invisible_seq (P : Params Q R) (V : Q → Prop) (hg : P.genCheck = true)
    (hdet : KeyDetermines P V) (h : List (Item Q)) (hv : ∀ q, Item.query q ∈ h → V q) :
    sentList (run P (seqSteps 0 h)) = (uncachedSeq P 0 h).map some := by
  have := seq_from P V hg hdet h {} [] hv (inv_init P V) rfl
  simpa [AllSent, run] using this

/-- key-relevant query data and everything else about a query (client, EDNS, letter case, …) -/
structure Query (X : Type) where
  loc : Bytes
  qtype : Nat
  qclass : Nat
  name : Bytes
  rest : X

/-- Any handler whose cache-touching responses are a function of (location id, qtype, qclass,
lower-cased name) satisfies `KeyDetermines` for the real key function — this is where
`cacheKey_injective` enters. -/
theorem keyDetermines_of_components {X : Type} (kindOf : Query X → Kind) (wrs : Bool)
    (resp : Nat → Query X → R)
    (hresp : ∀ g (q q' : Query X), kindOf q ≠ .badvers → kindOf q' ≠ .badvers →
      q.loc = q'.loc → q.qtype = q'.qtype → q.qclass = q'.qclass → q.name = q'.name →
      resp g q = resp g q') :
    KeyDetermines
      { keyOf := fun q => cacheKey q.loc q.qtype q.qclass q.name, kindOf := kindOf, resp := resp, wrs := wrs }
      (fun q => q.loc.length = 2) := by
  intro g q q' hv hv' hnb hnb' hk
  obtain ⟨h1, h2, h3, h4⟩ := cacheKey_injective _ _ _ _ _ _ _ _ hv hv' hk
  exact hresp g q q' hnb hnb' h1 h2 h3 h4

/-! ### the handler model behind `resp`

`ServeKey.caseEq o o'` = same kind of outcome; for replies: same rcode and AA, authority section
literally equal, answer records / answer address groups / additional address groups equal after
lower-casing their owner names. `ServeKey.normalise` lower-cases every owner name.
`ServeKey.weighted` = Go's `weighted` flag (some address family saw more than one candidate). -/

open DnsVerif.ServeKey in
/-- One database generation and one client location (`v`), one answer limit: two queries with the
same packed lower-case name, type and class whose spellings lower-case to the same bytes get
outcomes equal up to the letter case of owner names. Every query type, ANY included. -/
theorem serve_depends_on_key (v : Serve.View) (q q' : Serve.Query)
    (hn : q'.qname = q.qname) (ht : q'.qtype = q.qtype) (hc : q'.qclass = q.qclass)
    (hm : q'.maxAns = q.maxAns) (hl : Name.toLower q.qnameOut = Name.toLower q'.qnameOut) :
    caseEq (Serve.serve v q) (Serve.serve v q') :=
  caseEq_of_outRel _ _ _ hl _ _ (serve_rel v q q' hn ht hc hm hl)

open DnsVerif.ServeKey in
/-- The exact relation (`ServeKey.RespRel`): both outcomes are of the same kind; for replies rcode,
AA and the authority section are literally equal; every answer record and answer address group is
owned by the spelling asked and the two lists are otherwise identical; the additional sections have
the same length and are, position by position, literally the same group or (targets that are the
query name itself: type-65 answers) the group owned by the spelling asked, otherwise identical
(`RespRel.extraAll`, `ServeKey.ExtraRel`) — every query type. Nothing else of the spelling reaches
the response. For query types other than ANY (the first argument of `OutRel`) the additional section
is moreover literally equal as a whole, or every group in it is owned by the spelling asked
(`RespRel.extra`). -/
theorem serve_depends_on_key_exact (v : Serve.View) (q q' : Serve.Query)
    (hn : q'.qname = q.qname) (ht : q'.qtype = q.qtype) (hc : q'.qclass = q.qclass)
    (hm : q'.maxAns = q.maxAns) (hl : Name.toLower q.qnameOut = Name.toLower q'.qnameOut) :
    OutRel (q.qtype ≠ 255) q.qnameOut q'.qnameOut (Serve.serve v q) (Serve.serve v q') :=
  serve_rel v q q' hn ht hc hm hl

open DnsVerif.ServeKey in
/-- whether the response is subject to weighted selection is a function of the key as well -/
theorem weighted_depends_on_key (v : Serve.View) (q q' : Serve.Query)
    (hn : q'.qname = q.qname) (ht : q'.qtype = q.qtype) (hc : q'.qclass = q.qclass)
    (hm : q'.maxAns = q.maxAns) (hl : Name.toLower q.qnameOut = Name.toLower q'.qnameOut) :
    weighted (Serve.serve v q) = weighted (Serve.serve v q') :=
  weighted_eq_of_caseEq _ _ (serve_depends_on_key v q q' hn ht hc hm hl)

/-- what the handler model needs of a query besides the key components: the name as the client
spelled it (wire form), and whatever else a query carries -/
structure Asked (X : Type) where
  qnameOut : Bytes
  other : X

/-- the handler-model query of a machine query; `packName` = `dns.PackDomainName` of `state.Name()`
(any function: the packed lower-case name is a function of the key's name component) -/
def queryOf {X : Type} (packName : Bytes → Bytes) (maxAns : Nat) (q : Query (Asked X)) : Serve.Query :=
  { qname := packName q.name, qnameOut := q.rest.qnameOut, qtype := q.qtype, qclass := q.qclass,
    maxAns := maxAns }

/-- The protocol machine over the handler model: generation `g` is the store `store g`; the key is the
real key; the response of generation `g` to `q` is the outcome of `Serve.serve` on that store for the
client's location, owner names lower-cased. Address groups are candidate lists (weighted selection
is not resolved in `Serve.serve`), so for `Kind.weighted` queries `resp` is the candidate set, not
the selection: C12 excludes those through `insertable` (`wrs = false`: never inserted). `kindOf` and
`wrs` are arbitrary. -/
def serveParams {X : Type} (b : Loc.Backend) (store : Nat → Store) (packName : Bytes → Bytes) (maxAns : Nat)
    (kindOf : Query (Asked X) → Kind) (wrs : Bool) (genCheck : Bool := true) :
    Params (Query (Asked X)) Serve.Outcome :=
  { keyOf := fun q => cacheKey q.loc q.qtype q.qclass q.name, kindOf := kindOf,
    resp := fun g q => ServeKey.normalise (Serve.serve ⟨b, store g, q.loc⟩ (queryOf packName maxAns q)),
    wrs := wrs, genCheck := genCheck }

/-- the queries considered: 2-byte location id (the Go type is `[2]byte`) and a spelling that
lower-cases to the packed name the handler looks up (`state.QName()` vs `state.Name()`); every
query type -/
def ServeValid {X : Type} (packName : Bytes → Bytes) (q : Query (Asked X)) : Prop :=
  q.loc.length = 2 ∧ Name.toLower q.rest.qnameOut = packName q.name

/-- `KeyDetermines` holds outright for the handler model: `cacheKey_injective` +
`serve_depends_on_key`. -/
theorem keyDetermines_serve {X : Type} (b : Loc.Backend) (store : Nat → Store) (packName : Bytes → Bytes)
    (maxAns : Nat) (kindOf : Query (Asked X) → Kind) (wrs genCheck : Bool) :
    KeyDetermines (serveParams b store packName maxAns kindOf wrs genCheck) (ServeValid packName) := by
  intro g q q' hv hv' _ _ hk
  obtain ⟨h1, h2, h3, h4⟩ := cacheKey_injective _ _ _ _ _ _ _ _ hv.1 hv'.1 hk
  show ServeKey.normalise (Serve.serve ⟨b, store g, q.loc⟩ (queryOf packName maxAns q)) =
    ServeKey.normalise (Serve.serve ⟨b, store g, q'.loc⟩ (queryOf packName maxAns q'))
  rw [← h1]
  apply ServeKey.normalise_eq_of_caseEq
  apply serve_depends_on_key
  · show packName q'.name = packName q.name
    rw [h4]
  · exact h2.symm
  · exact h3.symm
  · rfl
  · show Name.toLower q.rest.qnameOut = Name.toLower q'.rest.qnameOut
    rw [hv.2, hv'.2, h4]

/-- `no_stale_after_reload` for the handler model, no hypothesis about the response function:
whatever the interleaving, an answered query was sent — up to the letter case of owner names — the
outcome the cache-less handler computes for this very query from a generation it could have read. -/
theorem no_stale_after_reload_serve {X : Type} (b : Loc.Backend) (store : Nat → Store)
    (packName : Bytes → Bytes) (maxAns : Nat) (kindOf : Query (Asked X) → Kind) (wrs : Bool)
    (steps : List (Step (Query (Asked X)))) (hv : ∀ st ∈ steps, StepValid (ServeValid packName) st) :
    ∀ f ∈ (run (serveParams b store packName maxAns kindOf wrs) steps).flights, ∀ o, f.phase = .sent o →
      o.acq ≤ o.label ∧ o.label ≤ (run (serveParams b store packName maxAns kindOf wrs) steps).gen ∧
      o.rsp = ServeKey.normalise (Serve.serve ⟨b, store o.label, f.q.loc⟩ (queryOf packName maxAns f.q)) :=
  no_stale_after_reload _ _ rfl (keyDetermines_serve b store packName maxAns kindOf wrs true) steps hv

/-- `cache_invisible_seq` for the handler model, no hypothesis about the response function. -/
theorem cache_invisible_seq_serve {X : Type} (b : Loc.Backend) (store : Nat → Store)
    (packName : Bytes → Bytes) (maxAns : Nat) (kindOf : Query (Asked X) → Kind) (wrs : Bool)
    (h : List (Item (Query (Asked X)))) (hv : ∀ q, Item.query q ∈ h → ServeValid packName q) :
    sentList (run (serveParams b store packName maxAns kindOf wrs) (seqSteps 0 h)) =
      (uncachedSeq (serveParams b store packName maxAns kindOf wrs) 0 h).map some :=
  cache_invisible_seq _ _ rfl (keyDetermines_serve b store packName maxAns kindOf wrs true) h hv

/-! non-vacuity: a zone `b.` (NS, SOA) whose name `a.b.` has an address, an MX record pointing at
`a.b.` itself and an HTTPS record; the name server `n.` has an address. v1 key layout. -/

namespace Sample
def nsRow : Bytes := [0,2,0x3d, 0,0,0,60, 0,0,0,0,0,0,0,0, 1,110,0]
def soaRow : Bytes := [0,6,0x3d, 0,0,0,60, 0,0,0,0,0,0,0,0, 1,110,0,1,104,0, 0,0,0,1, 0,0,0,2, 0,0,0,3,
  0,0,0,4, 0,0,0,5]
def aRow (x : UInt8) : Bytes := [0,1,0x3d, 0,0,0,30, 0,0,0,0,0,0,0,0, 0,0,0,1, 10,0,0,x]
def mxRow (target : Bytes) : Bytes := [0,15,0x3d, 0,0,0,60, 0,0,0,0,0,0,0,0, 0,10] ++ target
def httpsRow : Bytes := [0,65,0x3d, 0,0,0,60, 0,0,0,0,0,0,0,0, 0,1,0]

def zone : Store :=
  [([0,0,1,98,0], [nsRow, soaRow]),
   ([0,0,1,97,1,98,0], [aRow 1, mxRow [1,97,1,98,0], httpsRow]),
   ([0,0,1,110,0], [aRow 9])]

def view : Serve.View := ⟨.rdbV1, zone, [0, 0]⟩

def ab : Bytes := [1,97,1,98,0]       -- a.b.
def Ab : Bytes := [1,65,1,98,0]       -- A.b.

def ask (spelling : Bytes) (qtype : Nat) : Serve.Query :=
  { qname := ab, qnameOut := spelling, qtype := qtype, qclass := 1, maxAns := 1 }

/-- machine queries: no location, class IN, presentation name `a.b.`, packed by `putdom` -/
def mq (spelling : Bytes) (qtype : Nat) : Query (Asked Unit) :=
  { loc := [0, 0], qtype := qtype, qclass := 1, name := [97, 46, 98, 46], rest := ⟨spelling, ()⟩ }

def P : Params (Query (Asked Unit)) Serve.Outcome :=
  serveParams .rdbV1 (fun _ => zone) Name.putdom 1 (fun _ => .plain) false
end Sample

open Sample DnsVerif.ServeKey in
/-- an HTTPS query spelled `A.b.` and one spelled `a.b.`: the answer record and the additional
address group carry the spelling asked — the outcomes differ — and they are `caseEq` -/
example :
    Serve.serve view (ask Ab 65) = .reply
      { rcode := 0, aa := true, answer := [⟨Ab, 65, 1, 60, [0, 1, 0]⟩], answerAddrs := [], ns := [],
        extra := [⟨Ab, 1, 1, [⟨30, 1, [10, 0, 0, 1]⟩], 1⟩] } ∧
    Serve.serve view (ask ab 65) = .reply
      { rcode := 0, aa := true, answer := [⟨ab, 65, 1, 60, [0, 1, 0]⟩], answerAddrs := [], ns := [],
        extra := [⟨ab, 1, 1, [⟨30, 1, [10, 0, 0, 1]⟩], 1⟩] } ∧
    caseEq (Serve.serve view (ask Ab 65)) (Serve.serve view (ask ab 65)) := by
  refine ⟨by decide +kernel, by decide +kernel, serve_depends_on_key view _ _ rfl rfl rfl rfl ?_⟩
  decide

open Sample in
example : ServeValid Name.putdom (mq Ab 65) ∧ ServeValid Name.putdom (mq ab 65) ∧
    ServeValid Name.putdom (mq Ab 255) ∧ ServeValid Name.putdom (mq ab 255) := by
  unfold ServeValid; decide

open Sample DnsVerif.ServeKey in
/-- Query type ANY, the former witness. Before commit "fix: HasRecord compares owner names
case-insensitively" this was false: `HasRecord` compared owner names case-sensitively; asked
`a.b. ANY`, the handler found the address of the MX target `a.b.` already in the answer section and
added nothing; asked `A.b. ANY`, the answer's address record was owned by `A.b.`, the MX target
`a.b.` was "missing", and its address was added to the additional section
(`extra = [⟨a.b., A, IN, [10.0.0.1], 1⟩]`), so the two outcomes were not `caseEq`
(then theorem `serve_any_case_sensitive`). Now both spellings get an empty additional section and
the outcomes are `caseEq` — by the theorem. -/
example :
    caseEq (Serve.serve view (ask Ab 255)) (Serve.serve view (ask ab 255)) ∧
    Serve.serve view (ask Ab 255) = .reply
      { rcode := 0, aa := true,
        answer := [⟨Ab, 15, 1, 60, [0, 10, 1, 97, 1, 98, 0]⟩, ⟨Ab, 65, 1, 60, [0, 1, 0]⟩],
        answerAddrs := [⟨Ab, 1, 1, [⟨30, 1, [10, 0, 0, 1]⟩], 1⟩], ns := [], extra := [] } ∧
    Serve.serve view (ask ab 255) = .reply
      { rcode := 0, aa := true,
        answer := [⟨ab, 15, 1, 60, [0, 10, 1, 97, 1, 98, 0]⟩, ⟨ab, 65, 1, 60, [0, 1, 0]⟩],
        answerAddrs := [⟨ab, 1, 1, [⟨30, 1, [10, 0, 0, 1]⟩], 1⟩], ns := [], extra := [] } := by
  refine ⟨serve_depends_on_key view _ _ rfl rfl rfl rfl (by decide), by decide +kernel, by decide +kernel⟩

namespace Sample
/-- the address of `a.b.` with weight 0 (never served, so never "already present") -/
def aRow0 : Bytes := [0,1,0x3d, 0,0,0,30, 0,0,0,0,0,0,0,0, 0,0,0,0, 10,0,0,1]
def zone0 : Store :=
  [([0,0,1,98,0], [nsRow, soaRow]),
   ([0,0,1,97,1,98,0], [aRow0, mxRow [1,97,1,98,0], httpsRow])]
def view0 : Serve.View := ⟨.rdbV1, zone0, [0, 0]⟩
/-- the additional section of a reply -/
def extraOf : Serve.Outcome → Option (List Serve.AddrGroup)
  | .reply r => some r.extra
  | _ => none
def g0 (owner : Bytes) : Serve.AddrGroup := ⟨owner, 1, 1, [⟨30, 0, [10, 0, 0, 1]⟩], 1⟩
end Sample

open Sample DnsVerif.ServeKey in
/-- ANY with a non-empty additional section (the address has weight 0, so `HasRecord` never finds
it served): the MX target `a.b.` is taken from the rdata, the HTTPS target is the spelling asked.
The two additional sections are `ExtraRel` — position by position the same group or the group under
the other spelling — hence `caseEq`; they are neither literally equal nor renamed as a whole, which
is why the sharper clause `RespRel.extra` of `serve_depends_on_key_exact` is claimed for query types
other than ANY only. -/
example :
    extraOf (Serve.serve view0 (ask Ab 255)) = some [g0 ab, g0 Ab] ∧
    extraOf (Serve.serve view0 (ask ab 255)) = some [g0 ab, g0 ab] ∧
    ExtraRel Ab ab [g0 ab, g0 Ab] [g0 ab, g0 ab] ∧
    ¬ ([g0 ab, g0 ab] = [g0 ab, g0 Ab] ∨
       ([g0 ab, g0 ab] = [g0 ab, g0 Ab].map (sn ab) ∧ ∀ g ∈ [g0 ab, g0 Ab], g.name = Ab)) ∧
    caseEq (Serve.serve view0 (ask Ab 255)) (Serve.serve view0 (ask ab 255)) := by
  refine ⟨by decide +kernel, by decide +kernel, by decide +kernel, by decide +kernel,
    serve_depends_on_key view0 _ _ rfl rfl rfl rfl (by decide)⟩

open Sample in
/-- non-vacuity of `cache_invisible_seq_serve`: `A.b. HTTPS`, then `a.b. HTTPS` (a hit on the entry
the first spelling left), a reload, `a.b. HTTPS` again (a miss) -/
example :
    let h : List (Item (Query (Asked Unit))) := [.query (mq Ab 65), .query (mq ab 65), .reload, .query (mq ab 65)]
    sentList (run P (seqSteps 0 h)) = (uncachedSeq P 0 h).map some ∧
    (run P (seqSteps 0 h)).flights.map (fun f => match f.phase with | .sent o => o.hit | _ => false)
      = [false, true, false] := by
  intro h
  refine ⟨cache_invisible_seq_serve _ _ _ _ _ _ h ?_, by decide +kernel⟩
  intro q hq
  have : q = mq Ab 65 ∨ q = mq ab 65 := by
    simp only [h, List.mem_cons, Item.query.injEq, List.mem_nil_iff, or_false, reduceCtorEq, false_or] at hq
    rcases hq with hq | hq | hq
    · exact Or.inl hq
    · exact Or.inr hq
    · exact Or.inr hq
  rcases this with rfl | rfl <;> (unfold ServeValid; decide)

open Sample in
/-- … and the former witness of a visible cache, `A.b. ANY` then `a.b. ANY`: the second query hits
the entry of the first. Before commit "fix: HasRecord compares owner names case-insensitively" this
was false (then theorem `cache_visible_any`): it was sent a response with an additional address
record that the cache-less handler would not have sent for its spelling. Now what it is sent is what
the cache-less handler sends — by the theorem. -/
example :
    let h : List (Item (Query (Asked Unit))) := [.query (mq Ab 255), .query (mq ab 255)]
    sentList (run P (seqSteps 0 h)) = (uncachedSeq P 0 h).map some ∧
    (run P (seqSteps 0 h)).flights.map (fun f => match f.phase with | .sent o => o.hit | _ => false)
      = [false, true] := by
  intro h
  refine ⟨cache_invisible_seq_serve _ _ _ _ _ _ h ?_, by decide +kernel⟩
  intro q hq
  have : q = mq Ab 255 ∨ q = mq ab 255 := by
    simp only [h, List.mem_cons, Item.query.injEq, List.mem_nil_iff, or_false] at hq
    exact hq
  rcases this with rfl | rfl <;> (unfold ServeValid; decide)

/-! ### non-vacuity and the repaired defect -/

/-- a tiny concrete instance: queries are (key, kind), the response is the generation stamp -/
def demo (genCheck : Bool) : Params (Bytes × Kind) Nat :=
  { keyOf := (·.1), kindOf := (·.2), resp := fun g _ => g, wrs := false, genCheck := genCheck }

def kA : Bytes × Kind := (cacheKey [0, 1] 1 1 [97, 46], .plain)

/-- the race: query 0 computes on generation 0, a reload runs to completion, query 0 inserts,
a fresh query 1 looks the key up -/
def raceSteps : List (Step (Bytes × Kind)) :=
  [.start kA, .acquire 0, .lookup 0, .compute 0, .reload, .insert 0, .send 0,
   .start kA, .acquire 1, .lookup 1, .compute 1, .insert 1, .send 1]

/-- The protocol before commit e06679e (no generation test in the insertion): the fresh query, which
acquired generation 1, HITS the entry computed from generation 0 and is sent the stale response. -/
theorem old_protocol_stale :
    sentOf (run (demo false) raceSteps) 1 = some { rsp := 0, label := 0, acq := 1, hit := true } := by
  decide

/-- the current protocol on the same interleaving: the insertion is dropped, the fresh query misses
and is sent generation 1 (and query 0, in flight across the reload, its own generation-0 response) -/
example :
    sentOf (run (demo true) raceSteps) 1 = some { rsp := 1, label := 1, acq := 1, hit := false } ∧
    sentOf (run (demo true) raceSteps) 0 = some { rsp := 0, label := 0, acq := 0, hit := false } ∧
    (run (demo true) raceSteps).cache.map (·.2.label) = [1] := by
  decide

/-- non-vacuity of `cache_invisible_seq`: a history with hits, a reload and an eviction -/
example :
    let h : List (Item (Bytes × Kind)) := [.query kA, .query kA, .reload, .query kA, .evict kA.1, .query kA]
    sentList (run (demo true) (seqSteps 0 h)) = [some 0, some 0, some 1, some 1] ∧
    uncachedSeq (demo true) 0 h = [0, 0, 1, 1] ∧
    (run (demo true) (seqSteps 0 h)).flights.map (fun f => match f.phase with | .sent o => o.hit | _ => false)
      = [false, true, false, false] := by
  decide

end DnsVerif.Props.C12
