/-
C07 — compilation is a deterministic, lossless function of the data file.

Property theorems only; helper lemmas are in `Proofs/Compile.lean`. The line codec, the accumulator
and the feature record are inputs: `perLine` (records of each accepted line, file order) and `extra`.
"Equal as a map from key to multiset of values" is `List.Perm` of the per-key value lists.
-/
import DnsVerif.Proofs.Compile

namespace DnsVerif.Props.C07
open DnsVerif DnsVerif.Rdb DnsVerif.Spec DnsVerif.Compile

/-- every value fits the uint32 length prefix of the chunk codec -/
def SmallStream (stream : Pairs) : Prop := ∀ p ∈ stream, p.2.length < 4294967296

/-! ### parser: the order in which workers deliver lines is irrelevant -/

theorem parse_order_irrelevant (perLine order : List Pairs) (extra : Pairs)
    (h : order.Perm perLine) (k : Bytes) :
    (compileSpec order extra k).Perm (compileSpec perLine extra k) := by
  unfold compileSpec
  exact ((h.flatten.append_right extra).filter _).map _

/-- whatever arrives on the results channel holds, per key, the spec's multiset of values -/
theorem arrival_eq_spec (perLine : List Pairs) (extra stream : Pairs)
    (h : Arrival perLine extra stream) :
    stream.Perm (perLine.flatten ++ extra) := by
  obtain ⟨order, ho, rfl⟩ := h
  exact ho.flatten.append_right extra

example : Arrival [[([1], [2])], [([3], [4])]] [([0], [9])] [([3], [4]), ([1], [2]), ([0], [9])] :=
  ⟨[[([3], [4])], [([1], [2])]], List.Perm.swap _ _ _, rfl⟩

/-! ### createBuckets -/

/-- For every dataset (its key column `keys`, `n = keys.length ≥ 0`), `minBucketSize ≥ 1`,
`maxBucketNum ≥ 1`: `createBuckets` does not panic and returns at most `maxBucketNum` buckets which
start at 0, end at `n`, are contiguous and disjoint (each starts where the previous one ends), lie
inside `[0,n]`, are non-empty when `n > 0`, and whose inner boundaries never separate two equal
adjacent keys. -/
theorem createBuckets_partition (keys : List Bytes) (minBucketSize maxBucketNum : Nat)
    (h1 : 1 ≤ minBucketSize) (h2 : 1 ≤ maxBucketNum) :
    ∃ bs, createBuckets keys minBucketSize maxBucketNum = .ok bs ∧
      bs.length ≤ maxBucketNum ∧
      (∃ b rest, bs = b :: rest ∧ b.startOffset = 0) ∧
      (∃ b, bs.getLast? = some b ∧ b.endOffset = keys.length) ∧
      (∀ i b c, bs[i]? = some b → bs[i + 1]? = some c →
        b.endOffset = c.startOffset ∧ keys[c.startOffset]? ≠ keys[c.startOffset - 1]?) ∧
      (∀ b ∈ bs, b.startOffset ≤ b.endOffset ∧ b.endOffset ≤ keys.length ∧
        (0 < keys.length → b.startOffset < b.endOffset)) := by
  obtain ⟨bs, hb, hc, hl⟩ := createBuckets_chain keys minBucketSize maxBucketNum h1 h2
  refine ⟨bs, hb, hl, hc.head, hc.getLast, hc.adjacent, fun b hbm => ?_⟩
  obtain ⟨_, a, b', c⟩ := hc.bounds b hbm
  exact ⟨a, b', c⟩

/-- in a key-sorted dataset a run of equal keys is never split: records on different sides of an
inner bucket boundary have different keys -/
theorem createBuckets_no_split (keys : List Bytes)
    (hs : keys.Pairwise (fun a b => bytesLt b a = false)) (e : Nat)
    (hb : keys[e]? ≠ keys[e - 1]?) (he : 0 < e) (i j : Nat) (hi : i < e) (hj : e ≤ j)
    (hjn : j < keys.length) : keys[i]? ≠ keys[j]? := by
  have hen : e < keys.length := by omega
  rw [List.getElem?_eq_getElem hen, List.getElem?_eq_getElem (by omega : e - 1 < keys.length)] at hb
  rw [List.getElem?_eq_getElem (by omega : i < keys.length), List.getElem?_eq_getElem hjn]
  intro hij
  have hij : keys[i] = keys[j] := Option.some.inj hij
  have hp := List.pairwise_iff_getElem.1 hs
  -- keys[i] ≤ keys[e-1] ≤ keys[e] ≤ keys[j] = keys[i]
  have h1 : bytesLt keys[e - 1] keys[i] = false := by
    by_cases h : i = e - 1
    · subst h; exact bytesLt_irrefl _
    · exact hp i (e - 1) (by omega) (by omega) (by omega)
  have h2 : bytesLt keys[e] keys[e - 1] = false := hp (e - 1) e (by omega) hen (by omega)
  have h3 : bytesLt keys[j] keys[e] = false := by
    by_cases h : e = j
    · subst h; exact bytesLt_irrefl _
    · exact hp e j hen hjn (by omega)
  -- keys[e-1] ≤ keys[e] ≤ keys[j] = keys[i] ≤ keys[e-1]
  have h4 : bytesLt keys[i] keys[e] = false := by rw [hij]; exact h3
  have h5 : bytesLt keys[e] keys[e - 1] = false := h2
  have h6 : bytesLt keys[e - 1] keys[e] = false := by
    -- e-1 ≥ i (as keys) and i ≥ e
    cases hlt : bytesLt keys[e - 1] keys[e] with
    | false => rfl
    | true =>
      have := bytesLt_of_le_of_lt h1 hlt  -- keys[i] < keys[e]?  (needs ¬ keys[e-1] < keys[i])
      rw [h4] at this; exact absurd this (by decide)
  exact hb (congrArg some (bytesLt_total h5 h6))

example : createBuckets [[1], [1], [2], [2], [2], [3]] 2 3 = .ok [⟨0, 2⟩, ⟨2, 5⟩, ⟨5, 6⟩] := by rfl
example : createBuckets [[1], [1], [1], [1]] 1 3 = .ok [⟨0, 4⟩] := by rfl
/-- the hypotheses are needed: `minBucketSize = 0` can index `values[-1]`, `maxBucketNum = 0` divides by zero -/
example : createBuckets [[1], [2]] 0 5 = .error .panic := by rfl
example : createBuckets [[1], [2]] 1 0 = .error .panic := by rfl

/-! ### builder -/

/-- `sortDataset` yields *some* key-sorted permutation of what arrived (`sort.Slice` is not stable);
for every such `sorted`, every `minBucketSize ≥ 1` and `maxBucketNum ≥ 1` (`runtime.NumCPU()`), the
builder succeeds and the stored chunk list of every key decodes to a permutation of the spec's
values: nothing dropped, duplicated or altered, whatever the bucket split. (`sorted ≠ []`: the feature
record is always there; on an empty dataset the real builder fails with "bucket 0 is empty".) -/
theorem builder_eq_spec (perLine : List Pairs) (extra stream sorted : Pairs)
    (minBucketSize maxBucketNum : Nat) (h1 : 1 ≤ minBucketSize) (h2 : 1 ≤ maxBucketNum)
    (harr : stream.Perm (perLine.flatten ++ extra)) (hsmall : SmallStream stream)
    (hperm : sorted.Perm stream) (hsorted : KeySorted sorted) (hne : sorted ≠ []) :
    ∃ db, builderExecute sorted minBucketSize maxBucketNum = .ok db ∧
      ∀ k, ∃ vs, rdbGet db k = .ok vs ∧ vs.Perm (compileSpec perLine extra k) := by
  refine ⟨_, builderExecute_ok sorted hsorted hne _ _ h1 h2, fun k => ?_⟩
  refine ⟨(sorted.filter (·.1 = k)).map (·.2), ?_, ?_⟩
  · unfold rdbGet forEach
    rw [groupAdj_get sorted hsorted k]
    apply decode_encode'
    intro v hv
    obtain ⟨p, hp, rfl⟩ := List.mem_map.1 hv
    exact hsmall p (hperm.subset (List.mem_filter.1 hp).1)
  · unfold compileSpec
    exact ((hperm.trans harr).filter _).map _

/-- the empty dataset: one empty bucket, which `saveBuckets` refuses -/
example : builderExecute [] 30000 16 = .error .emptyBucket := by rfl

/-- non-vacuity: three buckets, key `[1]` straddles the nominal boundary -/
example : ∃ db, builderExecute [([1], [7]), ([1], [8]), ([2], []), ([3], [9])] 1 3 = .ok db ∧
    ∀ k, ∃ vs, rdbGet db k = .ok vs ∧
      vs.Perm (compileSpec [[([3], [9]), ([1], [7])], [([1], [8])]] [([2], [])] k) :=
  builder_eq_spec _ _ [([3], [9]), ([1], [7]), ([1], [8]), ([2], [])] _ 1 3 (by decide) (by decide)
    (List.Perm.refl _) (by intro p hp; simp at hp; rcases hp with rfl | rfl | rfl | rfl <;> decide)
    (by decide) (by simp [KeySorted, bytesLt]) (by simp)

/-! ### batches -/

/-- Any batch size, any `BatchNumParallel` (0 = unlimited), any execution order of the batches
gives the spec's multimap. Before the repair of `compileBatches` ("fix: BatchNumParallel 0 …") this
was false: with `BatchNumParallel = 0` the compiler blocked for ever as soon as one batch was full
(the unbuffered limiter was sent to before any receiver existed). -/
theorem batches_eq_spec (perLine : List Pairs) (extra stream : Pairs)
    (batchSize batchNumParallel : Nat) (order : List Pairs)
    (harr : stream.Perm (perLine.flatten ++ extra)) (hsmall : SmallStream stream)
    (hord : order.Perm (batches batchSize stream)) :
    ∃ db, compileBatches batchSize batchNumParallel stream order = .ok db ∧
      ∀ k, ∃ vs, rdbGet db k = .ok vs ∧ vs.Perm (compileSpec perLine extra k) := by
  have hflat : order.flatten.Perm stream := by
    have := hord.flatten
    rwa [batches_flatten] at this
  have hs : ∀ b ∈ order, ∀ p ∈ b, p.2.length < 4294967296 := by
    intro b hb p hp
    exact hsmall p (hflat.subset (List.mem_flatten.2 ⟨b, hb, hp⟩))
  obtain ⟨db, h1, h2⟩ := runBatches_from order hs [] MultiMap.empty Props.C15.R_empty
  refine ⟨db, ?_, fun k => ⟨_, Props.C15.forEach_refines db _ h2 k, ?_⟩⟩
  · unfold compileBatches
    unfold runBatches
    rw [h1]
  · rw [get_addAll_empty]
    unfold compileSpec
    exact ((hflat.trans harr).filter _).map _

/-- non-vacuity: the hypotheses are satisfiable by a non-trivial run (3 records, 2 batches) -/
example : ∃ db, compileBatches 2 0 [([1], [2]), ([1], [3]), ([0], [])]
      (batches 2 [([1], [2]), ([1], [3]), ([0], [])]) = .ok db ∧
    ∀ k, ∃ vs, rdbGet db k = .ok vs ∧
      vs.Perm (compileSpec [[([1], [2]), ([1], [3])]] [([0], [])] k) :=
  batches_eq_spec [[([1], [2]), ([1], [3])]] [([0], [])] _ 2 0 _ (List.Perm.refl _)
    (by intro p hp; simp at hp; rcases hp with rfl | rfl | rfl <;> decide) (List.Perm.refl _)

/-! ### CDB -/

theorem cdb_eq_spec (perLine : List Pairs) (extra stream : Pairs)
    (harr : stream.Perm (perLine.flatten ++ extra)) (k : Bytes) :
    (cdbGet stream k).Perm (compileSpec perLine extra k) := by
  unfold cdbGet compileSpec
  exact (harr.filter _).map _

/-! ### rejected lines -/

theorem acceptAll_eq_spec (lines : List LineOut) : acceptAll lines = Spec.acceptedLines lines := by
  induction lines with
  | nil => rfl
  | cons l ls ih => cases l <;> simp [acceptAll, Spec.acceptedLines, ih]

theorem acceptAll_none_iff (lines : List LineOut) : acceptAll lines = none ↔ none ∈ lines := by
  induction lines with
  | nil => simp [acceptAll]
  | cons l ls ih =>
    cases l with
    | none => simp [acceptAll]
    | some p => simp [acceptAll, ih]

/-- a rejected line makes every compiler fail (and the spec says "fails"), whatever the other
settings; without one the spec result exists -/
theorem compile_error_iff (lines : List LineOut) (extra : Pairs) :
    (Spec.compileResult lines extra = none ↔ none ∈ lines) ∧
    (none ∈ lines →
      (∀ sorted minB maxN, compileBuilder lines sorted minB maxN = .fail) ∧
      (∀ stream, compileCdb lines stream = .fail) ∧
      (∀ size par stream order arrived,
        compileBatchesFull lines size par stream order arrived = .fail)) := by
  constructor
  · unfold Spec.compileResult
    rw [← acceptAll_eq_spec, Option.map_eq_none_iff]
    exact acceptAll_none_iff lines
  · intro h
    have hn := (acceptAll_none_iff lines).2 h
    refine ⟨fun _ _ _ => ?_, fun _ => ?_, fun _ _ _ _ _ => ?_⟩
    · unfold compileBuilder; rw [hn]
    · unfold compileCdb; rw [hn]
    · unfold compileBatchesFull; rw [hn]

example : compileCdb [some [([1], [2])], none] [([1], [2])] = .fail := rfl

/-! ### configuration independence -/

/-- Corollary: for one data file (same codec output), every successful configuration — builder with
any bucket parameters and any sort, batches of any size and any `BatchNumParallel` executed in any
order, CDB — and any worker interleaving (`s1 s2 s3` are three
arbitrary arrival orders) yield the same map from key to multiset of values, namely the spec's. -/
theorem compile_config_independent (perLine : List Pairs) (extra s1 s2 s3 sorted : Pairs)
    (minB maxN size par : Nat) (order : List Pairs)
    (ha1 : Arrival perLine extra s1) (ha2 : Arrival perLine extra s2) (ha3 : Arrival perLine extra s3)
    (hsm : SmallStream (perLine.flatten ++ extra)) (hne : extra ≠ [])
    (h1 : 1 ≤ minB) (h2 : 1 ≤ maxN) (hperm : sorted.Perm s1) (hsorted : KeySorted sorted)
    (hord : order.Perm (batches size s2)) :
    ∃ db1 db2, builderExecute sorted minB maxN = .ok db1 ∧
      compileBatches size par s2 order = .ok db2 ∧
      ∀ k, ∃ v1 v2, rdbGet db1 k = .ok v1 ∧ rdbGet db2 k = .ok v2 ∧
        v1.Perm v2 ∧ v1.Perm (cdbGet s3 k) ∧ v1.Perm (compileSpec perLine extra k) := by
  have p1 := arrival_eq_spec _ _ _ ha1
  have p2 := arrival_eq_spec _ _ _ ha2
  have p3 := arrival_eq_spec _ _ _ ha3
  have sm1 : SmallStream s1 := fun p hp => hsm p (p1.subset hp)
  have sm2 : SmallStream s2 := fun p hp => hsm p (p2.subset hp)
  have hsne : sorted ≠ [] := by
    intro h
    have hl := (hperm.trans p1).length_eq
    rw [h] at hl
    simp only [List.length_nil, List.length_append] at hl
    have : 0 < extra.length := List.length_pos_iff.2 hne
    omega
  obtain ⟨db1, e1, g1⟩ := builder_eq_spec perLine extra s1 sorted minB maxN h1 h2 p1 sm1 hperm hsorted hsne
  obtain ⟨db2, e2, g2⟩ := batches_eq_spec perLine extra s2 size par order p2 sm2 hord
  refine ⟨db1, db2, e1, e2, fun k => ?_⟩
  obtain ⟨v1, r1, q1⟩ := g1 k
  obtain ⟨v2, r2, q2⟩ := g2 k
  exact ⟨v1, v2, r1, r2, q1.trans q2.symm, q1.trans (cdb_eq_spec perLine extra s3 p3 k).symm, q1⟩

end DnsVerif.Props.C07
