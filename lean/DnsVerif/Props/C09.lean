/-
C09 — Text normal form and preprocessing preserve meaning.

Property theorems only (helper lemmas: `Proofs/MarshalText.lean`; model: `Model/MarshalText.lean`).
`isPrint` is Go's `strconv.IsPrint`, a parameter as in C17: every statement holds for every such
predicate; the correspondence check feeds the real table.
-/
import DnsVerif.Proofs.MarshalText

namespace DnsVerif.Props.C09
open DnsVerif DnsVerif.Codec DnsVerif.Net DnsVerif.MarshalText

/-! ### the record-level model is the validated codec model -/

/-- `ConvertLn = MarshalMap ∘ DecodeLn`: the codec model validated against the real code factors
through this property's `parseRecord` / `recordOut`, for every line type the codec model knows. -/
theorem convertLine_factors (cfg : Cfg) (line : Bytes) (h : line.head? ≠ some 0x21) :
    convertLine cfg svcbOf line = (parseRecord cfg line).map (recordOut cfg) :=
  convertLine_eq cfg line h

example : (convertLine {} svcbOf "+a.b,1.2.3.4".toUTF8.toList).toOption.map (·.kvs)
    = some [([0, 0, 1, 0x61, 1, 0x62, 0], [0, 1, 0x3d, 0, 1, 0x51, 0x80, 0, 0, 0, 0, 0, 0, 0, 0, 0, 0, 0, 1, 1, 2, 3, 4])] := by
  decide +kernel

/-! ### (T3) a marshalled line splits into exactly the fields that were written -/

/-- Fields without a comma, the first one also without a colon, joined by `,` behind the type
character, are recovered by `fields` (padded to `NUMFIELDS`). Quoted fields qualify by C17's
`bquote_no_comma_colon`; numbers, octal location / map ids by the lemmas `decText_no_sep`,
`locText_no_sep`, `lmapText_no_sep`. -/
theorem fields_resplit (t : UInt8) (f0 f1 : Bytes) (rest : List Bytes)
    (hlen : (f0 :: f1 :: rest).length ≤ 15) (hc : ∀ f ∈ f0 :: f1 :: rest, (0x2c : UInt8) ∉ f)
    (h0 : (0x3a : UInt8) ∉ f0) :
    fields (t :: joinSep (f0 :: f1 :: rest)) =
      (f0 :: f1 :: rest) ++ List.replicate (15 - (f0 :: f1 :: rest).length) [] :=
  fields_joinSep t f0 f1 rest hlen hc h0

theorem quoted_field_has_no_separator (isPrint : Nat → Bool) (b : Bytes) :
    (0x2c : UInt8) ∉ Quote.bquote isPrint b ∧ (0x3a : UInt8) ∉ Quote.bquote isPrint b :=
  Props.C17.bquote_no_comma_colon isPrint b

example : fields "+a.b,1:2::3,60".toUTF8.toList
    = ["a.b".toUTF8.toList, "1:2::3".toUTF8.toList, "60".toUTF8.toList] ++ List.replicate 12 [] := by
  decide +kernel

/-! ### the text round trip at record level, and (T1), (T2) -/

/-- A well-formed record (`WF`: numbers in range, 2-byte locations / map ids, names whose quoted
form `putdomtext` leaves unchanged, server names with a dot, an explicit serial unless the codec's
is 0, address text that `ParseIP` reads back) marshals to a text that decodes to the same record.
Covers `Z % . & + = @ S C ^ ' : M 8 !`. -/
theorem parse_marshal (isPrint : Nat → Bool) (cfg : Cfg) (r : Record) (h : WF isPrint cfg r) :
    ∃ t, marshalText isPrint r = .ok t ∧ parseRecord cfg t = .ok r := by
  cases r with
  | soa dom ns adm ser ref ret exp min ttl lo => exact ⟨_, rfl, pm_soa isPrint cfg _ _ _ _ _ _ _ _ _ _ h⟩
  | net lo ip ones lmap => exact ⟨_, rfl, pm_net isPrint cfg _ _ _ _ h⟩
  | dot dom ip ns ttl lo => exact ⟨_, rfl, pm_dot isPrint cfg _ _ _ _ _ h⟩
  | ns dom ip ns ttl lo => exact ⟨_, rfl, pm_ns isPrint cfg _ _ _ _ _ h⟩
  | addr dom wild ip ttl lo weight => exact ⟨_, rfl, pm_addr isPrint cfg _ _ _ _ _ _ h⟩
  | paddr dom wild ip ttl lo => exact ⟨_, rfl, pm_paddr isPrint cfg _ _ _ _ _ h⟩
  | mx dom ip mx dist ttl lo => exact ⟨_, rfl, pm_mx isPrint cfg _ _ _ _ _ _ h⟩
  | srv dom ip srv port pri weight ttl lo => exact ⟨_, rfl, pm_srv isPrint cfg _ _ _ _ _ _ _ _ h⟩
  | cname dom wild cname ttl lo => exact ⟨_, rfl, pm_cname isPrint cfg _ _ _ _ _ h⟩
  | ptr dom host ttl lo => exact ⟨_, rfl, pm_ptr isPrint cfg _ _ _ _ h⟩
  | txt dom wild txt ttl lo => exact ⟨_, rfl, pm_txt isPrint cfg _ _ _ _ _ h⟩
  | aux dom rtype rdata ttl lo => exact ⟨_, rfl, pm_aux isPrint cfg _ _ _ _ _ h⟩
  | ipmap dom lmap => exact ⟨_, rfl, pm_ipmap isPrint cfg _ _ h⟩
  | csmap dom lmap => exact ⟨_, rfl, pm_csmap isPrint cfg _ _ h⟩
  | rangepoint lmap ip maskLen loc =>
    obtain ⟨hl, hip, hc, hm, hlo, hn⟩ := h
    cases loc with
    | none =>
      have h0 : maskLen = 0 := hn rfl
      subst h0
      exact ⟨_, rfl, pm_rangepoint_none isPrint cfg lmap ip 0 hl hip hc⟩
    | some l => exact ⟨_, rfl, pm_rangepoint_some isPrint cfg lmap ip maskLen l hl hip hc hm (hlo l rfl)⟩
  | svcb => exact absurd h id

/-- (T1) the re-serialised text compiles to exactly the same keys and values -/
theorem compile_marshal_parse (isPrint : Nat → Bool) (cfg : Cfg) (r : Record) (h : WF isPrint cfg r) :
    ∃ t, marshalText isPrint r = .ok t ∧
      (parseRecord cfg t).map (recordKVs cfg) = .ok (recordKVs cfg r) := by
  obtain ⟨t, ht, hp⟩ := parse_marshal isPrint cfg r h
  exact ⟨t, ht, by rw [hp]; rfl⟩

/-- (T2) serialising again gives the same text -/
theorem marshal_idempotent (isPrint : Nat → Bool) (cfg : Cfg) (r : Record) (h : WF isPrint cfg r) :
    ∃ t, marshalText isPrint r = .ok t ∧
      (parseRecord cfg t).bind (marshalText isPrint) = .ok t := by
  obtain ⟨t, ht, hp⟩ := parse_marshal isPrint cfg r h
  exact ⟨t, ht, by rw [hp]; exact ht⟩

/-! ### the full statement, its partial version and the witnesses against it -/

def asciiPrint : Nat → Bool := fun r => decide (0x20 ≤ r ∧ r < 0x7f)

/-- the property on one line as a computable check: the line does not decode, or its record
re-serialises to a text that decodes to a record with the same keys and values and the same text -/
def lineRoundTrips (isPrint : Nat → Bool) (cfg : Cfg) (line : Bytes) : Bool :=
  match parseRecord cfg line with
  | .error _ => true
  | .ok r =>
    match marshalText isPrint r with
    | .error _ => false
    | .ok t =>
      match parseRecord cfg t with
      | .error _ => false
      | .ok r2 =>
        recordKVs cfg r2 == recordKVs cfg r &&
          (match marshalText isPrint r2 with
           | .ok t2 => t2 == t
           | .error _ => false)

/-- the natural full-strength statement: every line that decodes round-trips -/
def text_normal_form_full : Prop :=
  ∀ (isPrint : Nat → Bool) (cfg : Cfg) (line : Bytes), lineRoundTrips isPrint cfg line = true

/-- what holds: lines whose record is well-formed (`WF`) -/
theorem text_normal_form_partial (isPrint : Nat → Bool) (cfg : Cfg) (line : Bytes) (r : Record)
    (hp : parseRecord cfg line = .ok r) (h : WF isPrint cfg r) :
    lineRoundTrips isPrint cfg line = true := by
  obtain ⟨t, ht, hpt⟩ := parse_marshal isPrint cfg r h
  unfold lineRoundTrips
  simp only [hp, ht, hpt, beq_self_eq_true, Bool.and_self]

def rdbCfg : Cfg := { serial := 1700000000, noRnetOutput := true, ranger := true }

def str (s : String) : Bytes := s.toUTF8.toList

/-- the code as written violates the full statement: an explicit SOA serial `0` is written as the
empty field, which is read back as "use the default serial" -/
theorem text_normal_form_full_false : ¬ text_normal_form_full := by
  intro h
  have := h asciiPrint rdbCfg (str "Za.b,ns.a.b,hm.a.b,0")
  revert this
  decide +kernel

/-! one witness per confirmed defect class (each is a line the real code accepts) -/
-- wildcard owner on SVCB / HTTPS lines (also through the escaped `\052.`): the `*.` is not written
example : lineRoundTrips asciiPrint rdbCfg (str "B*.a.b,c.d,60,,1,") = false := by decide +kernel
example : lineRoundTrips asciiPrint rdbCfg (str "H\\052.a.b,c.d,60,,1,") = false := by decide +kernel
-- SVCB target starting `*.*.`: one `*.` is dropped at every round
example : lineRoundTrips asciiPrint rdbCfg (str "Ba.b,*.*.c,60,,1,") = false := by decide +kernel
-- empty server name on a root-owner line: `ns` expands again to `ns.ns`
example : lineRoundTrips asciiPrint rdbCfg (str "&,,,") = false := by decide +kernel
example : lineRoundTrips asciiPrint rdbCfg (str "@,,,") = false := by decide +kernel
example : lineRoundTrips asciiPrint rdbCfg (str "S,,,") = false := by decide +kernel
-- fully qualified single-label server name: the trailing dot is dropped, then the name expands
example : lineRoundTrips asciiPrint rdbCfg (str "&a.b,,c.") = false := by decide +kernel
example : lineRoundTrips asciiPrint rdbCfg (str "@a.b,,c.") = false := by decide +kernel
-- catch-all map `M*.` / `8*.` is written as `M*` (the exact name `*`)
example : lineRoundTrips asciiPrint rdbCfg (str "M*.,m1") = false := by decide +kernel
example : lineRoundTrips asciiPrint rdbCfg (str "8*.,e1") = false := by decide +kernel
-- empty first label in front of `*`: dropping it turns the name into a wildcard
example : lineRoundTrips asciiPrint rdbCfg (str "+.*.a.b,1.2.3.4") = false := by decide +kernel
example : lineRoundTrips asciiPrint rdbCfg (str "M.*.a.b,m1") = false := by decide +kernel
-- and lines of the same shapes outside the classes do round-trip (non-vacuity of the check)
example : lineRoundTrips asciiPrint rdbCfg (str "Za.b,ns.a.b,hm.a.b,7") = true := by decide +kernel
example : lineRoundTrips asciiPrint rdbCfg (str "+*.a.b,::ffff:1.2.3.4,60,,\\000\\001,5") = true := by decide +kernel
example : lineRoundTrips asciiPrint rdbCfg (str "&a.b,2001:db8::1,c,0") = true := by decide +kernel
example : lineRoundTrips asciiPrint rdbCfg (str "M*.a.b,m1") = true := by decide +kernel

/-- non-vacuity of `WF`: a concrete well-formed record -/
example : WF asciiPrint rdbCfg (.addr (str "a.b") true (some (v4Prefix ++ [1, 2, 3, 4])) 60 (some [0, 1]) 5) := by
  refine ⟨?_, ?_, ⟨?_, ?_⟩, ?_, ?_, ?_⟩
  · unfold Plain; decide +kernel
  · intro h; cases h
  · decide +kernel
  · decide +kernel
  · decide
  · intro l hl; cases hl; rfl
  · decide

/-! ### (T4) the range-point line -/

/-- `!` lines: marshal then decode gives the point back (IPv4 mask lengths are written minus 96 and
read plus 96, both in `uint8` arithmetic), hence the same key and value. A point without
location is written without mask length and location and compiles to the same (mask byte 0, empty
value) record whatever mask length it carried. -/
theorem rangepoint_text_roundtrip (isPrint : Nat → Bool) (cfg : Cfg) (lmap : Bytes) (ip : IP)
    (maskLen : Nat) (loc : Option Bytes) (hl : lmap.length = 2)
    (hip : parseIP (Svcb.ipString ip) = some ip) (hc : (0x2c : UInt8) ∉ Svcb.ipString ip)
    (hm : maskLen < 256) (hlo : LocOK loc) :
    ∃ t, marshalText isPrint (.rangepoint lmap ip maskLen loc) = .ok t ∧
      parseRecord cfg t = .ok (.rangepoint lmap ip (if loc.isSome then maskLen else 0) loc) ∧
      (parseRecord cfg t).map (recordKVs cfg) = .ok [rangePointKV lmap ip maskLen loc] := by
  cases loc with
  | none =>
    have hp := pm_rangepoint_none isPrint cfg lmap ip maskLen hl hip hc
    exact ⟨_, rfl, hp, by rw [hp]; rfl⟩
  | some l =>
    have hp := pm_rangepoint_some isPrint cfg lmap ip maskLen l hl hip hc hm (hlo l rfl)
    exact ⟨_, rfl, hp, by rw [hp]; rfl⟩

example : (marshalText asciiPrint (.rangepoint [0x6d, 0x31] (v4Prefix ++ [10, 0, 0, 0]) 104 (some [0x61, 0x61]))).toOption
    = some (str "!\\155\\061,10.0.0.0,8,\\141\\141") := by decide +kernel

/-! ### (T5) preprocessing -/

theorem rangePointKV_point (m : Bytes) (p : Rearr.Point) :
    rangePointKV m (Rearr.natToIP p.ip) (p.maskLen % 256) p.loc = Rearr.pointKV m p := by
  unfold rangePointKV Rearr.pointKV
  cases p.loc with
  | none => rfl
  | some l =>
    have : UInt8.ofNat (p.maskLen % 256) = UInt8.ofNat p.maskLen := by
      apply UInt8.toNat_inj.mp
      simp
    simp only [this]

/-- the accumulator part of preprocessing, relative to the rearranger: the `!` line written for a
range point decodes and compiles to exactly the key/value `SubnetRanger.MarshalMap` emits for that
point directly (`Rearr.pointKV`, from which `Rearr.rangePointKVs` is built) -/
theorem accumulator_line_compiles (isPrint : Nat → Bool) (cfg : Cfg) (mp : Bytes × Rearr.Point)
    (hl : mp.1.length = 2) (hip : parseIP (Svcb.ipString (Rearr.natToIP mp.2.ip)) = some (Rearr.natToIP mp.2.ip))
    (hc : (0x2c : UInt8) ∉ Svcb.ipString (Rearr.natToIP mp.2.ip)) (hlo : LocOK mp.2.loc) :
    ∃ t, marshalText isPrint (pointRecord mp) = .ok t ∧
      (parseRecord cfg t).map (recordKVs cfg) = .ok [Rearr.pointKV mp.1 mp.2] := by
  obtain ⟨t, ht, _, hk⟩ := rangepoint_text_roundtrip isPrint cfg mp.1 (Rearr.natToIP mp.2.ip)
    (mp.2.maskLen % 256) mp.2.loc hl hip hc (Nat.mod_lt _ (by decide)) hlo
  exact ⟨t, ht, by rw [hk, rangePointKV_point]⟩

def sameMultiset (a b : List KV) : Bool :=
  a.all (fun x => a.count x == b.count x) && b.all (fun x => a.count x == b.count x)

/-- the property on one file as a computable check (RocksDB codec settings): preprocessing fails,
or original and preprocessed file compile to the same multiset of key/value records -/
def prepPreserves (isPrint : Nat → Bool) (cfg : Cfg) (lines : List Bytes) : Bool :=
  match preprocess isPrint cfg lines with
  | .error _ => true
  | .ok out =>
    match compileLines cfg lines, compileLines cfg out with
    | some a, some b => sameMultiset a b
    | none, none => true
    | _, _ => false

/-- the natural full-strength statement about whole files -/
def preprocess_preserves_compile_full : Prop :=
  ∀ (isPrint : Nat → Bool) (cfg : Cfg) (lines : List Bytes),
    cfg.ranger = true → cfg.noRnetOutput = true → prepPreserves isPrint cfg lines = true

/-- the code as written violates it: the preprocessor decodes and rewrites a line consisting of the
single character `Z` (→ an SOA record for the root), the parser skips lines shorter than two bytes -/
theorem preprocess_preserves_compile_full_false : ¬ preprocess_preserves_compile_full := by
  intro h
  have := h asciiPrint rdbCfg [str "Z"] rfl rfl
  revert this
  decide +kernel

-- further witnesses: explicit serial 0 (filled in with the codec's serial by the second reading);
-- a subnet line with a leading blank (copied verbatim, so it is rearranged separately from the
-- `!` lines of the other subnets of its map)
example : prepPreserves asciiPrint rdbCfg [str "Za.b,x.y,z.w,0"] = false := by decide +kernel
example : prepPreserves asciiPrint rdbCfg [str "%aa,10.0.0.0/8,m1", str " %bb,11.0.0.0/8,m1"] = false := by
  decide +kernel
-- and files outside these classes are preserved (non-vacuity of the check)
example : prepPreserves asciiPrint rdbCfg
    [str "Za.b,ns.a.b,hm.a.b", str "%aa,10.0.0.0/8,m1", str "%bb,11.0.0.0/8,m1", str "# c", str "+a.b,1.2.3.4",
     str "%aa,::/0,m1", str "Ma.b,m1"] = true := by decide +kernel

end DnsVerif.Props.C09
