/-
C09 — Text normal form and preprocessing preserve meaning.

Property theorems only (helper lemmas: `Proofs/MarshalText.lean`, `Proofs/MarshalQuote.lean`,
`Proofs/MarshalNorm.lean`; model: `Model/MarshalText.lean`).
`isPrint` is Go's `strconv.IsPrint`, a parameter as in C17: the statements about `WF` records hold for
every such predicate; the statements about names with empty labels (`*_norm`, `text_normal_form`)
need two facts about it that are true of Go's table, `.` and `*` printable (`PrintsDotStar`), and
their 63-byte-label corollaries the ASCII range printable (`PrintsAscii`). The correspondence check
feeds the real table.
-/
import DnsVerif.Proofs.MarshalNorm

namespace DnsVerif.Props.C09
open DnsVerif DnsVerif.Codec DnsVerif.Net DnsVerif.MarshalText

/-! ### the record-level model is the validated codec model -/

/-- `ConvertLn = MarshalMap ∘ DecodeLn`: the codec model validated against the real code factors
through this property's `parseRecord` / `recordOut`, for every line type the codec model knows. -/
theorem convertLine_factors (cfg : Cfg) (line : Bytes) (h : line.head? ≠ some 0x21) :
    convertLine cfg svcbOf line = (parseRecord cfg line).map (recordOut cfg) :=
  convertLine_eq cfg line h

example : (convertLine {} svcbOf "+a.b,1.2.3.4".toUTF8.toList).toOption.map (·.kvs)
    = some [([0, 0, 1, 0x61, 1, 0x62, 0], [0, 1, 0x3d, 0, 1, 0x51, 0x80, 0, 0, 0, 0, 0, 0, 0, 0, 0, 0, 0, 1, 1, 2, 3, 4])] := by
  decide +kernel

/-! ### (T3) a marshalled line splits into exactly the fields that were written -/

/-- Fields without a comma, the first one also without a colon, joined by `,` behind the type
character, are recovered by `fields` (padded to `NUMFIELDS`). Quoted fields qualify by C17's
`bquote_no_comma_colon`; numbers, octal location / map ids by the lemmas `decText_no_sep`,
`locText_no_sep`, `lmapText_no_sep`. -/
theorem fields_resplit (t : UInt8) (f0 f1 : Bytes) (rest : List Bytes)
    (hlen : (f0 :: f1 :: rest).length ≤ 15) (hc : ∀ f ∈ f0 :: f1 :: rest, (0x2c : UInt8) ∉ f)
    (h0 : (0x3a : UInt8) ∉ f0) :
    fields (t :: joinSep (f0 :: f1 :: rest)) =
      (f0 :: f1 :: rest) ++ List.replicate (15 - (f0 :: f1 :: rest).length) [] :=
  fields_joinSep t f0 f1 rest hlen hc h0

theorem quoted_field_has_no_separator (isPrint : Nat → Bool) (b : Bytes) :
    (0x2c : UInt8) ∉ Quote.bquote isPrint b ∧ (0x3a : UInt8) ∉ Quote.bquote isPrint b :=
  Props.C17.bquote_no_comma_colon isPrint b

example : fields "+a.b,1:2::3,60".toUTF8.toList
    = ["a.b".toUTF8.toList, "1:2::3".toUTF8.toList, "60".toUTF8.toList] ++ List.replicate 12 [] := by
  decide +kernel

/-! ### the text round trip at record level, and (T1), (T2) -/

/-- A well-formed record (`WF`: numbers in range, 2-byte locations / map ids, names whose quoted
form the name writers leave unchanged, address text that `ParseIP` reads back, a parameter list
whose text `FromText` reads back) marshals to a text that decodes to the same record.
Covers all 17 line types `Z % . & + = @ S C ^ ' : M 8 ! B H`.

Every restriction the seven C09 defects had forced on `WF` is gone:
* any serial, whatever the codec's default serial — before commit 4019032 this was false:
  `Za.b,ns.a.b,hm.a.b,0` (serial 0 written as an empty field, read back as the default serial);
* `B` / `H` records, wildcard owners and targets beginning with `*.` included — before commit
  3d0f541 this was false: `B*.a.b,c.d,60,,1,` (the `*.` of the owner was not written); before
  commits 93d8e78, f23a325: `Ba.b,*.*.c,60,,1,` (one `*.` of the target lost per round trip);
* server names that are fully qualified single labels (`PlainServer`: `c.`) — before commit e085238
  this was false: `&a.b,,c.` (written as `c`, expanded to `c.ns.a.b` on reading);
* the catch-all maps (`PlainMap`: `*.`) — before commit 88912b9 this was false: `M*.,m1` (written
  as `M*`, the map of the exact name `*`);
* names with a literal `*` label behind an empty one (`Plain` now holds for `.*.a.b`) — before
  commit 38cc22d this was false: `+.*.a.b,1.2.3.4` (written as `+*.a.b`, a wildcard record). -/
theorem parse_marshal (isPrint : Nat → Bool) (cfg : Cfg) (r : Record) (h : WF isPrint cfg r) :
    ∃ t, marshalText isPrint cfg r = .ok t ∧ parseRecord cfg t = .ok r :=
  parse_marshal_wf isPrint cfg r h

/-- (T1) the re-serialised text compiles to exactly the same keys and values -/
theorem compile_marshal_parse (isPrint : Nat → Bool) (cfg : Cfg) (r : Record) (h : WF isPrint cfg r) :
    ∃ t, marshalText isPrint cfg r = .ok t ∧
      (parseRecord cfg t).map (recordKVs cfg) = .ok (recordKVs cfg r) := by
  obtain ⟨t, ht, hp⟩ := parse_marshal isPrint cfg r h
  exact ⟨t, ht, by rw [hp]; rfl⟩

/-- (T2) serialising again gives the same text -/
theorem marshal_idempotent (isPrint : Nat → Bool) (cfg : Cfg) (r : Record) (h : WF isPrint cfg r) :
    ∃ t, marshalText isPrint cfg r = .ok t ∧
      (parseRecord cfg t).bind (marshalText isPrint cfg) = .ok t := by
  obtain ⟨t, ht, hp⟩ := parse_marshal isPrint cfg r h
  exact ⟨t, ht, by rw [hp]; exact ht⟩

/-! ### the full statement, its partial version and the witnesses against it -/

def asciiPrint : Nat → Bool := fun r => decide (0x20 ≤ r ∧ r < 0x7f)

/-- the property on one line as a computable check: the line does not decode, or its record
re-serialises to a text that decodes to a record with the same keys and values and the same text -/
def lineRoundTrips (isPrint : Nat → Bool) (cfg : Cfg) (line : Bytes) : Bool :=
  match parseRecord cfg line with
  | .error _ => true
  | .ok r =>
    match marshalText isPrint cfg r with
    | .error _ => false
    | .ok t =>
      match parseRecord cfg t with
      | .error _ => false
      | .ok r2 =>
        recordKVs cfg r2 == recordKVs cfg r &&
          (match marshalText isPrint cfg r2 with
           | .ok t2 => t2 == t
           | .error _ => false)

/-- the natural full-strength statement: every line that decodes round-trips -/
def text_normal_form_full : Prop :=
  ∀ (isPrint : Nat → Bool) (cfg : Cfg) (line : Bytes), lineRoundTrips isPrint cfg line = true

/-- the version for records that are already in normal form (`WF`: names without empty labels,
`Plain`), for every printability predicate; `text_normal_form` below drops the restriction on empty
labels. `WF` restricts a line only in ways that are not defects of the text codec: numbers in range,
2-byte ids (both always true of a decoded record), names without empty labels and without labels of
256 quoted bytes, and the library round trips (`net.IP`, `svcb.ParamList`) that are taken as given. -/
theorem text_normal_form_partial (isPrint : Nat → Bool) (cfg : Cfg) (line : Bytes) (r : Record)
    (hp : parseRecord cfg line = .ok r) (h : WF isPrint cfg r) :
    lineRoundTrips isPrint cfg line = true := by
  obtain ⟨t, ht, hpt⟩ := parse_marshal isPrint cfg r h
  unfold lineRoundTrips
  simp only [hp, ht, hpt, beq_self_eq_true, Bool.and_self]

def rdbCfg : Cfg := { serial := 1700000000, noRnetOutput := true, ranger := true }

def str (s : String) : Bytes := s.toUTF8.toList

/-- a label of 64 zero bytes written with octal escapes: 256 quoted bytes -/
def longLabel : Bytes := (List.replicate 64 (str "\\000")).flatten

/-- The statement without any hypothesis is still false, for a reason outside the seven repaired
defects and outside DNS: `putdomtext` cuts a *quoted* label at `byte(len)` bytes like `putdom` cuts a
raw one, so a label of more than 63 bytes whose quoted form reaches 256 bytes is written cut (here:
dropped, 256 % 256 = 0) although the key keeps it. No label of at most 63 bytes is affected (its
quoted form has at most 252 bytes: `text_normal_form_dns`), and this is the only restriction on the
names of a line that remains: `text_normal_form` holds for names with any empty labels.

Before commits 3d0f541, 93d8e78 (with f23a325), 4019032, e085238, 88912b9, 38cc22d this was false on ordinary
lines; the witness used to be `Za.b,ns.a.b,hm.a.b,0`, which now round-trips (examples below). -/
theorem text_normal_form_full_false : ¬ text_normal_form_full := by
  intro h
  have := h asciiPrint rdbCfg (str "+" ++ longLabel ++ str ".b,1.2.3.4")
  revert this
  decide +kernel

/-! one former witness per repaired defect class: each of these lines failed the check before the
commit named, and passes now -/
-- before commit 4019032 (explicit SOA serial 0 written as the empty field) this was false
example : lineRoundTrips asciiPrint rdbCfg (str "Za.b,ns.a.b,hm.a.b,0") = true := by decide +kernel
example : lineRoundTrips asciiPrint {} (str "Za.b,ns.a.b,hm.a.b,0") = true := by decide +kernel
-- before commit 3d0f541 (wildcard owner on SVCB / HTTPS lines, also through the escaped `\052.`:
-- the `*.` was not written) these were false
example : lineRoundTrips asciiPrint rdbCfg (str "B*.a.b,c.d,60,,1,") = true := by decide +kernel
example : lineRoundTrips asciiPrint rdbCfg (str "H\\052.a.b,c.d,60,,1,") = true := by decide +kernel
-- before commit 93d8e78 (SVCB target starting `*.*.`: one `*.` dropped at every round) this was
-- false; the second line (kept target `*.`, written `*`) before its follow-up f23a325
example : lineRoundTrips asciiPrint rdbCfg (str "Ba.b,*.*.c,60,,1,") = true := by decide +kernel
example : lineRoundTrips asciiPrint rdbCfg (str "H,*.*.") = true := by decide +kernel
-- before commit e085238 (empty server name on a root-owner line: `ns` expanded again to `ns.ns`;
-- fully qualified single-label server name: trailing dot dropped, then the name expanded) these were false
example : lineRoundTrips asciiPrint rdbCfg (str "&,,,") = true := by decide +kernel
example : lineRoundTrips asciiPrint rdbCfg (str "@,,,") = true := by decide +kernel
example : lineRoundTrips asciiPrint rdbCfg (str "S,,,") = true := by decide +kernel
example : lineRoundTrips asciiPrint rdbCfg (str "&a.b,,c.") = true := by decide +kernel
example : lineRoundTrips asciiPrint rdbCfg (str "@a.b,,c.") = true := by decide +kernel
-- before commit 88912b9 (catch-all map `M*.` / `8*.` written as `M*`, the exact name `*`) these were false
example : lineRoundTrips asciiPrint rdbCfg (str "M*.,m1") = true := by decide +kernel
example : lineRoundTrips asciiPrint rdbCfg (str "8*.,e1") = true := by decide +kernel
-- before commit 38cc22d (empty first label in front of `*`: dropping it turned the name into a
-- wildcard) these were false
example : lineRoundTrips asciiPrint rdbCfg (str "+.*.a.b,1.2.3.4") = true := by decide +kernel
example : lineRoundTrips asciiPrint rdbCfg (str "M.*.a.b,m1") = true := by decide +kernel
-- and lines of the same shapes outside the former classes round-trip as before
example : lineRoundTrips asciiPrint rdbCfg (str "Za.b,ns.a.b,hm.a.b,7") = true := by decide +kernel
example : lineRoundTrips asciiPrint rdbCfg (str "+*.a.b,::ffff:1.2.3.4,60,,\\000\\001,5") = true := by decide +kernel
example : lineRoundTrips asciiPrint rdbCfg (str "&a.b,2001:db8::1,c,0") = true := by decide +kernel
example : lineRoundTrips asciiPrint rdbCfg (str "M*.a.b,m1") = true := by decide +kernel

/-- the records of the former witnesses are well-formed, so `parse_marshal` speaks about them:
serial 0 under a non-zero default serial, a single-label fully qualified server, the catch-all map,
a literal `*` label behind an empty one -/
example : WF asciiPrint rdbCfg (.soa (str "a.b") (str "ns.a.b") (str "hm.a.b") 0 16384 2048 1048576 2560 2560 none) := by
  refine ⟨?_, ?_, ?_, ?_, ?_, ?_, ?_, ?_, ?_, ?_⟩
  · unfold Plain; decide +kernel
  · unfold Plain; decide +kernel
  · unfold Plain; decide +kernel
  all_goals first
    | decide
    | (intro l hl; cases hl)

example : WF asciiPrint rdbCfg (.ns (str "a.b") none (str "c.") 259200 none) := by
  refine ⟨?_, ipOK_none, ?_, ?_, ?_, ?_⟩
  · unfold Plain; decide +kernel
  · unfold PlainServer; decide +kernel
  · decide +kernel
  · decide
  · intro l hl; cases hl

example : WF asciiPrint rdbCfg (.ipmap (str "*.") (str "m1")) := by
  refine ⟨?_, by decide +kernel⟩
  unfold PlainMap; decide +kernel

example : Plain asciiPrint (str ".*.a.b") := by unfold Plain; decide +kernel

-- a wildcard `B` record whose kept target begins with `*.` (the line `B*.a.b,*.*.c,60,,1,`)
example : WF asciiPrint rdbCfg (.svcb false (str "a.b") true (str "*.c") 60 none 1 []) := by
  refine ⟨?_, ?_, ?_, ?_, ?_, ?_, ?_, [], ?_, ?_, ?_⟩
  · unfold Plain; decide +kernel
  · intro h; cases h
  · unfold Plain; decide +kernel
  · intro _; decide +kernel
  · decide
  · intro l hl; cases hl
  · decide
  · rfl
  · rfl
  · simp

/-- non-vacuity of `WF`: a concrete well-formed record -/
example : WF asciiPrint rdbCfg (.addr (str "a.b") true (some (v4Prefix ++ [1, 2, 3, 4])) 60 (some [0, 1]) 5) := by
  refine ⟨?_, ?_, ⟨?_, ?_⟩, ?_, ?_, ?_⟩
  · unfold Plain; decide +kernel
  · intro h; cases h
  · decide +kernel
  · decide +kernel
  · decide
  · intro l hl; cases hl; rfl
  · decide

/-! ### names with empty labels: the text is a normal form of the record

A decoded record keeps its names as the unquoted text of the line (`a.b.`, `.a.b`, `a..b` are three
different records that compile to the same keys and values as `a.b`). `MarshalText` writes the
normal form: `normRec r` is `r` with every name replaced by what its writer produces (`normName`:
the non-empty labels joined by dots, `.` for the root kept, one leading dot kept in front of a
literal `*` label; `normServer`: a trailing dot for a single label; `normMap`: the `*.` of a
wildcard map kept), and a range point without location loses its mask length. -/

/-- **Every record with in-range numbers and labels whose quoted form is shorter than 256 bytes —
empty labels (trailing, leading, doubled dots) allowed, all 17 line types — marshals to a text that
decodes to the record's normal form, which compiles to the same keys and values, is written as the
same text, and is its own normal form.** `Struct` holds of every decoded record
(`parse_yields_struct`); `LibOK` is the `net.IP` / `net.IPNet` / `svcb.ParamList` text round trip. -/
theorem parse_marshal_norm {isPrint : Nat → Bool} (hp : PrintsDotStar isPrint) (cfg : Cfg) (r : Record)
    (hst : Struct cfg r) (hn : NamesShort isPrint r) (hl : LibOK r) :
    ∃ t, marshalText isPrint cfg r = .ok t ∧ parseRecord cfg t = .ok (normRec r) ∧
      recordKVs cfg (normRec r) = recordKVs cfg r ∧
      marshalText isPrint cfg (normRec r) = .ok t ∧ normRec (normRec r) = normRec r := by
  obtain ⟨t, ht, hpt⟩ := parse_marshal_normRec hp cfg r hst hn hl
  refine ⟨t, ht, hpt, recordKVs_normRec cfg r, ?_, normRec_idem r⟩
  rw [marshalText_normRec hp cfg r hn, ht]

/-- (T1), empty labels allowed: the re-serialised text compiles to exactly the same keys and values -/
theorem compile_marshal_parse_norm {isPrint : Nat → Bool} (hp : PrintsDotStar isPrint) (cfg : Cfg)
    (r : Record) (hst : Struct cfg r) (hn : NamesShort isPrint r) (hl : LibOK r) :
    ∃ t, marshalText isPrint cfg r = .ok t ∧
      (parseRecord cfg t).map (recordKVs cfg) = .ok (recordKVs cfg r) := by
  obtain ⟨t, ht, hpt, hkv, _, _⟩ := parse_marshal_norm hp cfg r hst hn hl
  exact ⟨t, ht, by rw [hpt, ← hkv]; rfl⟩

/-- (T2), empty labels allowed: serialising again gives the same text -/
theorem marshal_idempotent_norm {isPrint : Nat → Bool} (hp : PrintsDotStar isPrint) (cfg : Cfg)
    (r : Record) (hst : Struct cfg r) (hn : NamesShort isPrint r) (hl : LibOK r) :
    ∃ t, marshalText isPrint cfg r = .ok t ∧
      (parseRecord cfg t).bind (marshalText isPrint cfg) = .ok t := by
  obtain ⟨t, ht, hpt, _, hmt, _⟩ := parse_marshal_norm hp cfg r hst hn hl
  exact ⟨t, ht, by rw [hpt]; exact hmt⟩

/-- the structural hypothesis of the three theorems above is no restriction on decoded records:
every record the line decoder yields, from any text, has its numbers in range, 2-byte location / map
ids and a wildcard flag consistent with its name (`cfg.serial` is a `uint32` in the Go code) -/
theorem parse_yields_struct (cfg : Cfg) (hser : cfg.serial < 2 ^ 32) (line : Bytes) (r : Record)
    (h : parseRecord cfg line = .ok r) : Struct cfg r :=
  struct_of_parse cfg hser line r h

/-- the name writers produce quoted normal forms, whatever empty labels the name has -/
theorem name_writers_normalise {isPrint : Nat → Bool} (hp : PrintsDotStar isPrint) (a : Bytes)
    (hs : ShortLabels isPrint a) :
    domText isPrint a = Quote.bquote isPrint (normName a) ∧
    serverText isPrint a = Quote.bquote isPrint (normServer a) ∧
    mapDomText isPrint a = Quote.bquote isPrint (normMap a) ∧
    Name.putdom (normName a) = Name.putdom a ∧ normName (normName a) = normName a :=
  ⟨domText_eq hp a hs, serverText_eq hp a hs, mapDomText_eq hp a hs, (sameLabels_normName a).putdom,
    normName_idem a⟩

/-- **The text normal form, without the restriction on empty labels**: every line that decodes —
whatever trailing, leading or doubled dots its names have — to a record whose labels have quoted
forms shorter than 256 bytes re-serialises to a text that decodes to a record compiling to the same
keys and values, and re-serialising that record gives the same text. The remaining hypotheses:
`.` and `*` printable (true of Go's table), the default serial a `uint32`, `NamesShort` (the one
genuine restriction: `text_normal_form_full_false`), and the library round trips `LibOK`. -/
theorem text_normal_form {isPrint : Nat → Bool} (hp : PrintsDotStar isPrint) (cfg : Cfg)
    (hser : cfg.serial < 2 ^ 32) (line : Bytes) (r : Record) (hline : parseRecord cfg line = .ok r)
    (hn : NamesShort isPrint r) (hl : LibOK r) : lineRoundTrips isPrint cfg line = true := by
  obtain ⟨t, ht, hpt, hkv, hmt, _⟩ :=
    parse_marshal_norm hp cfg r (parse_yields_struct cfg hser line r hline) hn hl
  unfold lineRoundTrips
  simp only [hline, ht, hpt, hmt, hkv, beq_self_eq_true, Bool.and_self]

/-- the same for DNS-sized labels: with the ASCII range printable (true of Go's table) a line whose
names have labels of at most 63 bytes — empty ones included — round-trips -/
theorem text_normal_form_dns {isPrint : Nat → Bool} (hpa : Quote.PrintsAscii isPrint) (cfg : Cfg)
    (hser : cfg.serial < 2 ^ 32) (line : Bytes) (r : Record) (hline : parseRecord cfg line = .ok r)
    (hn : NamesLe63 r) (hl : LibOK r) : lineRoundTrips isPrint cfg line = true :=
  text_normal_form (printsDotStar_of_ascii hpa) cfg hser line r hline (namesShort_of_le63 hpa r hn) hl

/-! the two facts about `isPrint` are needed (both hold of Go's table): with `.` not printable the
dots are written as escapes and the whole quoted name is cut as one label (eleven labels `aaaa`,
each 24 quoted bytes); with `*` not printable `putdomtext` does not see the `*.` that dropping an
empty first label creates, and the name is read back as a wildcard -/
example : lineRoundTrips (fun _ => false) rdbCfg
    (str "+" ++ (List.replicate 11 (str "aaaa.")).flatten ++ str "b,1.2.3.4") = false := by decide +kernel
example : lineRoundTrips (fun r => r != 0x2a && asciiPrint r) rdbCfg (str "+.*.a,1.2.3.4") = false := by
  decide +kernel

theorem asciiPrint_printsAscii : Quote.PrintsAscii asciiPrint := by
  intro r h1 h2
  simp only [asciiPrint, decide_eq_true_eq]
  omega

theorem ok_of_toOption {e : Except Err Record} {r : Record} (h : e.toOption = some r) : e = .ok r := by
  cases e with
  | error _ => cases h
  | ok x => cases h; rfl

/-! non-vacuity: lines with a trailing, a leading and a doubled dot, a server name that is a single
fully qualified label. Their records are not in normal form (`parse_marshal` does not apply), they
satisfy every hypothesis of `text_normal_form_dns`, decode after marshalling to the record of the
line without the empty labels, and pass the computable check. -/
example : ¬ Plain asciiPrint (str "a.b.") := by unfold Plain; decide +kernel
example : ¬ Plain asciiPrint (str ".a.b") := by unfold Plain; decide +kernel
example : ¬ Plain asciiPrint (str "a..b") := by unfold Plain; decide +kernel

example : ∃ r, parseRecord rdbCfg (str "+a.b.,1.2.3.4") = .ok r ∧ NamesLe63 r ∧ LibOK r ∧ normRec r ≠ r ∧
    parseRecord rdbCfg (str "+a.b,1.2.3.4") = .ok (normRec r) :=
  ⟨.addr (str "a.b.") false (some (v4Prefix ++ [1, 2, 3, 4])) 86400 none 1, ok_of_toOption (by decide +kernel),
    by decide +kernel, ⟨by decide +kernel, by decide +kernel⟩, by decide +kernel, ok_of_toOption (by decide +kernel)⟩

example : ∃ r, parseRecord rdbCfg (str "+.a.b,1.2.3.4") = .ok r ∧ NamesLe63 r ∧ LibOK r ∧ normRec r ≠ r ∧
    parseRecord rdbCfg (str "+a.b,1.2.3.4") = .ok (normRec r) :=
  ⟨.addr (str ".a.b") false (some (v4Prefix ++ [1, 2, 3, 4])) 86400 none 1, ok_of_toOption (by decide +kernel),
    by decide +kernel, ⟨by decide +kernel, by decide +kernel⟩, by decide +kernel, ok_of_toOption (by decide +kernel)⟩

example : ∃ r, parseRecord rdbCfg (str "&a..b,,ns.,60") = .ok r ∧ NamesLe63 r ∧ LibOK r ∧ normRec r ≠ r ∧
    parseRecord rdbCfg (str "&a.b,,ns.,60") = .ok (normRec r) :=
  ⟨.ns (str "a..b") none (str "ns.") 60 none, ok_of_toOption (by decide +kernel),
    by decide +kernel, ipOK_none, by decide +kernel, ok_of_toOption (by decide +kernel)⟩

-- a `*` label behind an empty one keeps its leading dot, a wildcard map its `*.`
example : normName (str "..*.a.") = str ".*.a" ∧ normMap (str "*..a.") = str "*.a" ∧
    normServer (str "c") = str "c." ∧ normName (str "..") = [] ∧ normName (str ".") = str "." := by
  decide +kernel

example : lineRoundTrips asciiPrint rdbCfg (str "+a.b.,1.2.3.4") = true := by decide +kernel
example : lineRoundTrips asciiPrint rdbCfg (str "+.a.b,1.2.3.4") = true := by decide +kernel
example : lineRoundTrips asciiPrint rdbCfg (str "+a..b,1.2.3.4") = true := by decide +kernel
example : lineRoundTrips asciiPrint rdbCfg (str "&a.b,,ns.,60") = true := by decide +kernel
example : lineRoundTrips asciiPrint rdbCfg (str "&a.b.,,.ns.,60") = true := by decide +kernel
example : lineRoundTrips asciiPrint rdbCfg (str "M*..a.b.,m1") = true := by decide +kernel
example : lineRoundTrips asciiPrint rdbCfg (str "B*.a.b.,*..c.,60,,1,") = true := by decide +kernel
example : lineRoundTrips asciiPrint rdbCfg (str "Za.b.,.ns.a.b,hm..a.b,0") = true := by decide +kernel

/-! ### (T4) the range-point line -/

/-- `!` lines: marshal then decode gives the point back (IPv4 mask lengths are written minus 96 and
read plus 96, both in `uint8` arithmetic), hence the same key and value. A point without
location is written without mask length and location and compiles to the same (mask byte 0, empty
value) record whatever mask length it carried. -/
theorem rangepoint_text_roundtrip (isPrint : Nat → Bool) (cfg : Cfg) (lmap : Bytes) (ip : IP)
    (maskLen : Nat) (loc : Option Bytes) (hl : lmap.length = 2)
    (hip : parseIP (Svcb.ipString ip) = some ip) (hc : (0x2c : UInt8) ∉ Svcb.ipString ip)
    (hm : maskLen < 256) (hlo : LocOK loc) :
    ∃ t, marshalText isPrint cfg (.rangepoint lmap ip maskLen loc) = .ok t ∧
      parseRecord cfg t = .ok (.rangepoint lmap ip (if loc.isSome then maskLen else 0) loc) ∧
      (parseRecord cfg t).map (recordKVs cfg) = .ok [rangePointKV lmap ip maskLen loc] := by
  cases loc with
  | none =>
    have hp := pm_rangepoint_none isPrint cfg lmap ip maskLen hl hip hc
    exact ⟨_, rfl, hp, by rw [hp]; rfl⟩
  | some l =>
    have hp := pm_rangepoint_some isPrint cfg lmap ip maskLen l hl hip hc hm (hlo l rfl)
    exact ⟨_, rfl, hp, by rw [hp]; rfl⟩

example : (marshalText asciiPrint {} (.rangepoint [0x6d, 0x31] (v4Prefix ++ [10, 0, 0, 0]) 104 (some [0x61, 0x61]))).toOption
    = some (str "!\\155\\061,10.0.0.0,8,\\141\\141") := by decide +kernel

/-! ### (T5) preprocessing -/

/-- the accumulator part of preprocessing, relative to the rearranger: the `!` line written for a
range point decodes and compiles to exactly the key/value `SubnetRanger.MarshalMap` emits for that
point directly (`Rearr.pointKV`, from which `Rearr.rangePointKVs` is built) -/
theorem accumulator_line_compiles (isPrint : Nat → Bool) (cfg : Cfg) (mp : Bytes × Rearr.Point)
    (hl : mp.1.length = 2) (hip : parseIP (Svcb.ipString (Rearr.natToIP mp.2.ip)) = some (Rearr.natToIP mp.2.ip))
    (hc : (0x2c : UInt8) ∉ Svcb.ipString (Rearr.natToIP mp.2.ip)) (hlo : LocOK mp.2.loc) :
    ∃ t, marshalText isPrint cfg (pointRecord mp) = .ok t ∧
      (parseRecord cfg t).map (recordKVs cfg) = .ok [Rearr.pointKV mp.1 mp.2] := by
  obtain ⟨t, ht, _, hk⟩ := rangepoint_text_roundtrip isPrint cfg mp.1 (Rearr.natToIP mp.2.ip)
    (mp.2.maskLen % 256) mp.2.loc hl hip hc (Nat.mod_lt _ (by decide)) hlo
  exact ⟨t, ht, by rw [hk, rangePointKV_point]⟩

def sameMultiset (a b : List KV) : Bool :=
  a.all (fun x => a.count x == b.count x) && b.all (fun x => a.count x == b.count x)

theorem sameMultiset_self (a : List KV) : sameMultiset a a = true := by
  simp [sameMultiset]

/-- the property on one file as a computable check (RocksDB codec settings): preprocessing fails,
or original and preprocessed file compile to the same multiset of key/value records -/
def prepPreserves (isPrint : Nat → Bool) (cfg : Cfg) (lines : List Bytes) : Bool :=
  match preprocess isPrint cfg lines with
  | .error _ => true
  | .ok out =>
    match compileLines cfg lines, compileLines cfg out with
    | some a, some b => sameMultiset a b
    | none, none => true
    | _, _ => false

/-- every `Z` line of the file that decodes has a well-formed record (what `parse_marshal` needs
for the normalised SOA text to decode to the same record again) -/
def SoaLinesWF (isPrint : Nat → Bool) (cfg : Cfg) (lines : List Bytes) : Prop :=
  ∀ raw ∈ lines, ∀ l r, filterLine raw = some l → l.head? = some 0x5a → parseRecord cfg l = .ok r →
    WF isPrint cfg r

/-- every range point the accumulator ends up with has a 2-byte map id and location and an address
whose text `ParseIP` reads back (properties of `getlmap` / `getloc`, the rearranger and `net.IP`
that are validated by the correspondence runs, not proved here) -/
def PointsOK (isPrint : Nat → Bool) (cfg : Cfg) (lines : List Bytes) : Prop :=
  ∀ out subs mps, preprocessLoop isPrint cfg lines [] [] = .ok (out, subs) → rangePoints subs = some mps →
    ∀ mp ∈ mps, PointOK mp

/-- what (T5) needs of the `Z` lines, in the form the proof uses it: the text the preprocessor
writes for the line passes the line filter and decodes to a record with the same keys and values
(`SoaRewriteOK`). Implied by `SoaLinesWF` and by `SoaLinesShort`. -/
def SoaLinesRewriteOK (isPrint : Nat → Bool) (cfg : Cfg) (lines : List Bytes) : Prop :=
  ∀ raw ∈ lines, ∀ l r, filterLine raw = some l → l.head? = some 0x5a → parseRecord cfg l = .ok r →
    SoaRewriteOK isPrint cfg r

/-- (T5) in its general form -/
theorem preprocess_preserves_of_rewrite (isPrint : Nat → Bool) (cfg : Cfg) (lines : List Bytes)
    (hn : cfg.noRnetOutput = true) (hz : SoaLinesRewriteOK isPrint cfg lines) (hpt : PointsOK isPrint cfg lines) :
    prepPreserves isPrint cfg lines = true := by
  unfold prepPreserves preprocess
  split
  · rfl
  · rename_i out hpre
    split at hpre
    · cases hpre
    · cases hloop : preprocessLoop isPrint cfg lines [] [] with
      | error e => rw [hloop] at hpre; cases hpre
      | ok os =>
        obtain ⟨out0, subs⟩ := os
        rw [hloop] at hpre
        simp only [] at hpre
        cases hrp : rangePoints subs with
        | none => simp only [rangePointLines, hrp] at hpre; cases hpre
        | some mps =>
          simp only [rangePointLines, hrp] at hpre
          cases hls : mps.mapM (pointLine isPrint) with
          | none => rw [hls] at hpre; cases hpre
          | some ls =>
            rw [hls] at hpre
            simp only [Except.ok.injEq] at hpre
            subst hpre
            obtain ⟨new, hout, hcmp⟩ := preprocessLoop_sim_gen isPrint cfg hn lines [] [] out0 subs hz hloop
            simp only [List.nil_append] at hout
            subst hout
            have hpts := compileLoop_points isPrint cfg mps ls
            unfold compileLines
            rw [compileLoop_append]
            cases hc : compileLoop cfg lines [] [] with
            | none =>
              rw [hc] at hcmp
              simp only [hcmp, Option.bind]
            | some ks =>
              obtain ⟨k, s⟩ := ks
              rw [hc] at hcmp
              simp only [List.nil_append] at hcmp
              obtain ⟨hs, hnew⟩ := hcmp
              subst hs
              have hk := hpts k (hpt out0 subs mps hloop hrp) hls
              have h0 : Rearr.rangePointKVs [] = some [] := rfl
              simp only [hnew, Option.bind, hk]
              rw [h0, rangePointKVs_eq, hrp]
              simp only [Option.map, List.append_nil]
              exact sameMultiset_self _

/-- (T5) **Preprocessing preserves the compiled database** (RocksDB codec settings): whenever the
preprocessor accepts a file, the original and the preprocessed file either both fail to compile or
compile to the same keys and values — in fact to the same *list*: the copied and normalised lines
compile, in order, to the records of the original lines, the subnet lines are gone, and the `!`
lines compile to exactly the range points `SubnetRanger.MarshalMap` computes from the subnets.
Lines behind blanks, one-character lines, comments, undecodable non-`%`/`Z` lines, any serial are
all covered.

Before commit 4969793 this was false: `["Z"]` (the preprocessor decoded and rewrote a line of the
single character `Z` into an SOA record for the root, the parser skips lines shorter than two
bytes) and `["%aa,10.0.0.0/8,m1", " %bb,11.0.0.0/8,m1"]` (a subnet line behind a blank was copied
instead of being accumulated). Before commit 4019032 it was false on `["Za.b,x.y,z.w,0"]` (explicit
serial 0 normalised to an empty field and filled in with the default serial on compilation). -/
theorem preprocess_preserves_compile (isPrint : Nat → Bool) (cfg : Cfg) (lines : List Bytes)
    (hn : cfg.noRnetOutput = true) (hz : SoaLinesWF isPrint cfg lines) (hpt : PointsOK isPrint cfg lines) :
    prepPreserves isPrint cfg lines = true := by
  apply preprocess_preserves_of_rewrite isPrint cfg lines hn _ hpt
  intro raw hraw l r hf hh hp
  cases l with
  | nil => cases hh
  | cons c rest =>
    simp only [List.head?_cons, Option.some.injEq] at hh
    subst hh
    exact soaRewriteOK_of_wf isPrint cfg rest r hp (hz raw hraw _ r hf rfl hp)

/-- every `Z` line of the file that decodes has names whose labels have quoted forms shorter than
256 bytes — trailing, leading and doubled dots allowed -/
def SoaLinesShort (isPrint : Nat → Bool) (cfg : Cfg) (lines : List Bytes) : Prop :=
  ∀ raw ∈ lines, ∀ l r, filterLine raw = some l → l.head? = some 0x5a → parseRecord cfg l = .ok r →
    NamesShort isPrint r

/-- (T5) **without the restriction on empty labels**: the `Z` lines may write their names with
trailing, leading or doubled dots; the preprocessor normalises them (`Za.b.,ns..a.b,hm.a.b.` becomes
`Za.b,ns.a.b,hm.a.b,<serial>,…`) and the normalised line compiles to the same keys and values. -/
theorem preprocess_preserves_compile_norm {isPrint : Nat → Bool} (hp : PrintsDotStar isPrint) (cfg : Cfg)
    (hser : cfg.serial < 2 ^ 32) (lines : List Bytes) (hn : cfg.noRnetOutput = true)
    (hz : SoaLinesShort isPrint cfg lines) (hpt : PointsOK isPrint cfg lines) :
    prepPreserves isPrint cfg lines = true := by
  apply preprocess_preserves_of_rewrite isPrint cfg lines hn _ hpt
  intro raw hraw l r hf hh hpr
  cases l with
  | nil => cases hh
  | cons c rest =>
    simp only [List.head?_cons, Option.some.injEq] at hh
    subst hh
    exact soaRewriteOK_of_short hp cfg hser rest r hpr (hz raw hraw _ r hf rfl hpr)

/-- the natural full-strength statement about whole files -/
def preprocess_preserves_compile_full : Prop :=
  ∀ (isPrint : Nat → Bool) (cfg : Cfg) (lines : List Bytes),
    cfg.ranger = true → cfg.noRnetOutput = true → prepPreserves isPrint cfg lines = true

/-- Without the hypothesis on `Z` lines the statement is still false, for the reason that keeps
`text_normal_form_full` false (a label of more than 63 bytes whose quoted form reaches 256 bytes),
not for any of the repaired defects. Before commit 4969793 the witness was the file `["Z"]`. -/
theorem preprocess_preserves_compile_full_false : ¬ preprocess_preserves_compile_full := by
  intro h
  have := h asciiPrint rdbCfg [str "Z" ++ longLabel ++ str ".b,x.y,z.w"] rfl rfl
  revert this
  decide +kernel

-- the former witnesses are preserved now: a one-character line (before commit 4969793 false); an
-- explicit serial 0 (before commit 4019032 false); a subnet line behind a blank (before commit
-- 4969793 false)
example : prepPreserves asciiPrint rdbCfg [str "Z"] = true := by decide +kernel
example : prepPreserves asciiPrint rdbCfg [str "+a.b,1.2.3.4", str "Z"] = true := by decide +kernel
example : prepPreserves asciiPrint rdbCfg [str "Za.b,x.y,z.w,0"] = true := by decide +kernel
example : prepPreserves asciiPrint rdbCfg [str "%aa,10.0.0.0/8,m1", str " %bb,11.0.0.0/8,m1"] = true := by
  decide +kernel
-- `Z` lines with empty labels are normalised and preserved
example : prepPreserves asciiPrint rdbCfg [str "Za.b.,ns..a.b,.hm.a.b.", str "+a.b.,1.2.3.4"] = true := by
  decide +kernel
-- and the files that were preserved before still are
example : prepPreserves asciiPrint rdbCfg
    [str "Za.b,ns.a.b,hm.a.b", str "%aa,10.0.0.0/8,m1", str "%bb,11.0.0.0/8,m1", str "# c", str "+a.b,1.2.3.4",
     str "%aa,::/0,m1", str "Ma.b,m1"] = true := by decide +kernel

end DnsVerif.Props.C09
