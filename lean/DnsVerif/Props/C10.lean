/-
C10 — EDNS Client Subnet is echoed faithfully with a truthful scope.

Part 1 states the property over the specification (`Spec.locate`): a scope is produced exactly when
the query carried a client subnet; it is the declared length of the winning subnet (in the client's
family), a fixed default (24 / 48) when the name has a client-subnet map but no subnet wins, and 0
when the name has no client-subnet map; whenever the client subnet yields no location the location
is the resolver's.

Part 2 states the same case analysis over the model of `db/location.go` (`EcsLocation`,
`findLocation`, `FindLocation`) for an ARBITRARY store and backend: the scope is a function of the
query name, the ECS option and the database only; family, source prefix length and address of the
echoed option are the query's.

Helper lemmas on `Spec.lpm` are in `Proofs/Lpm.lean`.
-/
import DnsVerif.Model.Location
import DnsVerif.Proofs.Lpm
import DnsVerif.Props.C03

namespace DnsVerif.Props.C10
open DnsVerif DnsVerif.Spec DnsVerif.Loc DnsVerif.Lpm

/-! ## Part 1 — the specification `Spec.locate` -/

/-- the location the resolver's own address maps to: the `resolverLoc` binding of `Spec.locate` -/
def resolverLoc (z : Zone) (q : List Bytes) (c : Client) : Bytes :=
  match mapFor z.maps false q with
  | none => [0, 0]
  | some m =>
    match lpm z.subnets m (isV4Addr c.resolver) c.resolver 128 with
    | some s => s.loc
    | none => [0, 0]

/-- `Spec.locate` with its `let`s unfolded (definitional) -/
theorem locate_eq (z : Zone) (q : List Bytes) (c : Client) :
    locate z q c =
      match c.ecs with
      | none => { loc := resolverLoc z q c, scope := none }
      | some (family, src, _, addr) =>
        match mapFor z.maps true q with
        | none => { loc := resolverLoc z q c, scope := some 0 }
        | some m =>
          match lpm z.subnets m (family = 1) addr (if family = 1 then src + 96 else src) with
          | some s =>
            if s.loc = [0, 0] then
              { loc := resolverLoc z q c, scope := some (if family = 2 then 48 else 24) }
            else { loc := s.loc, scope := some (if family = 1 then s.ones - 96 else s.ones) }
          | none => { loc := resolverLoc z q c, scope := some (if family = 2 then 48 else 24) } := rfl

/-- no client subnet in the query: no scope, resolver's location -/
theorem locate_no_ecs {z : Zone} {q : List Bytes} {c : Client} (h : c.ecs = none) :
    locate z q c = { loc := resolverLoc z q c, scope := none } := by
  rw [locate_eq, h]

/-- the name has no client-subnet map: scope 0 ("the answer does not depend on the client
subnet at all") and the resolver's location -/
theorem scope_zero_without_map {z : Zone} {q : List Bytes} {c : Client} {family src qs addr : Nat}
    (he : c.ecs = some (family, src, qs, addr)) (hm : mapFor z.maps true q = none) :
    (locate z q c).scope = some 0 ∧ (locate z q c).loc = resolverLoc z q c := by
  constructor <;> (rw [locate_eq, he]; simp only [hm])

/-- the name has a client-subnet map but no declared subnet qualifies: the default scope of the
family (48 for IPv6, 24 otherwise) and the resolver's location -/
theorem scope_default {z : Zone} {q : List Bytes} {c : Client} {family src qs addr : Nat} {m : Bytes}
    (he : c.ecs = some (family, src, qs, addr)) (hm : mapFor z.maps true q = some m)
    (hl : lpm z.subnets m (family = 1) addr (if family = 1 then src + 96 else src) = none) :
    (locate z q c).scope = some (if family = 2 then 48 else 24) ∧
      (locate z q c).loc = resolverLoc z q c := by
  constructor <;> (rw [locate_eq, he]; simp only [hm, hl])

/-- same when the winning subnet carries the "no location" tag `[0,0]` -/
theorem scope_default_untagged {z : Zone} {q : List Bytes} {c : Client} {family src qs addr : Nat}
    {m : Bytes} {s : SubnetDecl}
    (he : c.ecs = some (family, src, qs, addr)) (hm : mapFor z.maps true q = some m)
    (hl : lpm z.subnets m (family = 1) addr (if family = 1 then src + 96 else src) = some s)
    (h0 : s.loc = [0, 0]) :
    (locate z q c).scope = some (if family = 2 then 48 else 24) ∧
      (locate z q c).loc = resolverLoc z q c := by
  constructor <;> (rw [locate_eq, he]; simp only [hm, hl, if_pos h0])

/-- a subnet wins: the location is the subnet's and the scope is the DECLARED prefix length of that
subnet expressed in the client's family (minus 96 for IPv4); the winner is a declared subnet of
the name's client-subnet map, of the client's family, containing the client's address, no longer
than the client's own prefix, and no qualifying declared subnet is longer (truthful scope) -/
theorem scope_winner {z : Zone} {q : List Bytes} {c : Client} {family src qs addr : Nat}
    {m : Bytes} {s : SubnetDecl}
    (he : c.ecs = some (family, src, qs, addr)) (hm : mapFor z.maps true q = some m)
    (hl : lpm z.subnets m (family = 1) addr (if family = 1 then src + 96 else src) = some s)
    (h0 : s.loc ≠ [0, 0]) :
    (locate z q c).loc = s.loc ∧
      (locate z q c).scope = some (if family = 1 then s.ones - 96 else s.ones) ∧
      s ∈ z.subnets ∧ s.mapID = m ∧ s.isV4 = decide (family = 1) ∧ s.contains addr = true ∧
      s.ones ≤ (if family = 1 then src + 96 else src) ∧
      (∀ t ∈ z.subnets, t.mapID = m → t.isV4 = decide (family = 1) → t.contains addr = true →
        t.ones ≤ (if family = 1 then src + 96 else src) → t.ones ≤ s.ones) := by
  obtain ⟨hmem, ⟨q1, q2, q3, q4⟩, hmax⟩ := lpm_some hl
  refine ⟨?_, ?_, hmem, q1, q2, q4, q3, fun t ht t1 t2 t4 t3 => hmax t ht ⟨t1, t2, t3, t4⟩⟩
  · rw [locate_eq, he]; simp only [hm, hl, if_neg h0]
  · rw [locate_eq, he]; simp only [hm, hl, if_neg h0]

/-- a scope is produced exactly when the query carried a client subnet -/
theorem scope_some_iff (z : Zone) (q : List Bytes) (c : Client) :
    (locate z q c).scope.isSome = c.ecs.isSome := by
  rw [locate_eq]
  cases he : c.ecs with
  | none => rfl
  | some e =>
    obtain ⟨family, src, qs, addr⟩ := e
    simp only
    cases hm : mapFor z.maps true q with
    | none => rfl
    | some m =>
      simp only
      cases hl : lpm z.subnets m (family = 1) addr (if family = 1 then src + 96 else src) with
      | none => rfl
      | some s =>
        simp only
        by_cases h0 : s.loc = [0, 0]
        · rw [if_pos h0]; rfl
        · rw [if_neg h0]; rfl

/-- in every case where the client subnet yields no location (no ECS, no client-subnet map, no
qualifying subnet, winner tagged `[0,0]`) the location is the resolver's; the only other case is a
tagged winning subnet, whose location is used -/
theorem resolver_fallback (z : Zone) (q : List Bytes) (c : Client) :
    (locate z q c).loc = resolverLoc z q c ∨
      ∃ family src qs addr m s, c.ecs = some (family, src, qs, addr) ∧
        mapFor z.maps true q = some m ∧
        lpm z.subnets m (family = 1) addr (if family = 1 then src + 96 else src) = some s ∧
        s.loc ≠ [0, 0] ∧ (locate z q c).loc = s.loc := by
  cases he : c.ecs with
  | none => left; rw [locate_no_ecs he]
  | some e =>
    obtain ⟨family, src, qs, addr⟩ := e
    cases hm : mapFor z.maps true q with
    | none => exact Or.inl (scope_zero_without_map he hm).2
    | some m =>
      cases hl : lpm z.subnets m (family = 1) addr (if family = 1 then src + 96 else src) with
      | none => exact Or.inl (scope_default he hm hl).2
      | some s =>
        by_cases h0 : s.loc = [0, 0]
        · exact Or.inl (scope_default_untagged he hm hl h0).2
        · exact Or.inr ⟨family, src, qs, addr, m, s, rfl, rfl, hl, h0, (scope_winner he hm hl h0).1⟩

/-- the scope fits the address family: at most 32 for an IPv4 client subnet, at most 128 otherwise
(declared prefix lengths are on the 128-bit scale, hence the hypothesis `ones ≤ 128`; an
IPv4-family winner has `96 ≤ ones` by `SubnetDecl.isV4`) -/
theorem scope_bounds {z : Zone} {q : List Bytes} {c : Client} {family src qs addr sc : Nat}
    (hz : ∀ s ∈ z.subnets, s.ones ≤ 128)
    (he : c.ecs = some (family, src, qs, addr)) (hs : (locate z q c).scope = some sc) :
    (family = 1 → sc ≤ 32) ∧ (family ≠ 1 → sc ≤ 128) := by
  cases hm : mapFor z.maps true q with
  | none =>
    rw [(scope_zero_without_map he hm).1] at hs
    cases hs; exact ⟨fun _ => by omega, fun _ => by omega⟩
  | some m =>
    have hdef : (locate z q c).scope = some (if family = 2 then 48 else 24) →
        (family = 1 → sc ≤ 32) ∧ (family ≠ 1 → sc ≤ 128) := by
      intro h
      rw [h] at hs
      cases hs
      constructor
      · intro h1; rw [if_neg (by omega)]; omega
      · intro _; split <;> omega
    cases hl : lpm z.subnets m (family = 1) addr (if family = 1 then src + 96 else src) with
    | none => exact hdef (scope_default he hm hl).1
    | some s =>
      by_cases h0 : s.loc = [0, 0]
      · exact hdef (scope_default_untagged he hm hl h0).1
      · obtain ⟨_, h2, hmem, _, hv4, _⟩ := scope_winner he hm hl h0
        rw [h2] at hs
        cases hs
        have := hz s hmem
        constructor
        · intro h1; rw [if_pos h1]; omega
        · intro h1; rw [if_neg h1]; exact this

/-- the scope never exceeds the source prefix length the client sent when a declared subnet wins
(RFC 7871 §7.2.1 allows a longer scope, the implementation never produces one from a declared
subnet): the answer is never declared valid for a narrower network than was looked up.  For an
IPv4 client subnet the winner is on the 128-bit scale with `96 ≤ ones`, hence `ones - 96 ≤ src`. -/
theorem scope_le_source {z : Zone} {q : List Bytes} {c : Client} {family src qs addr : Nat}
    {m : Bytes} {s : SubnetDecl}
    (he : c.ecs = some (family, src, qs, addr)) (hm : mapFor z.maps true q = some m)
    (hl : lpm z.subnets m (family = 1) addr (if family = 1 then src + 96 else src) = some s)
    (h0 : s.loc ≠ [0, 0]) :
    ∃ sc, (locate z q c).scope = some sc ∧ sc ≤ src := by
  obtain ⟨_, h2, _, _, _, _, hle, _⟩ := scope_winner he hm hl h0
  refine ⟨_, h2, ?_⟩
  by_cases h1 : family = 1
  · rw [if_pos h1] at hle ⊢; omega
  · rw [if_neg h1] at hle ⊢; exact hle

/-- the scope is a function of the query name, the client-subnet option and the declared data:
the resolver's own address never influences it -/
theorem scope_independent_of_resolver (z : Zone) (q : List Bytes) (c : Client) (r : Nat) :
    (locate z q { c with resolver := r }).scope = (locate z q c).scope := by
  rw [locate_eq, locate_eq]
  cases he : c.ecs with
  | none => rfl
  | some e =>
    obtain ⟨family, src, qs, addr⟩ := e
    simp only
    cases hm : mapFor z.maps true q with
    | none => rfl
    | some m =>
      simp only
      cases hl : lpm z.subnets m (family = 1) addr (if family = 1 then src + 96 else src) with
      | none => rfl
      | some s =>
        simp only
        by_cases h0 : s.loc = [0, 0]
        · rw [if_pos h0, if_pos h0]
        · rw [if_neg h0, if_neg h0]

/-! non-vacuity: name `a` has client-subnet map `[0,1]` and resolver map `[0,2]`; subnets
10.0.0.0/8 → `[1,1]`, 11.0.0.0/8 → untagged, 2001:db8::/32 → `[3,3]` (map `[0,1]`) and
0.0.0.0/0 → `[2,2]` (map `[0,2]`) -/

private def exMaps : List MapDecl :=
  [⟨true, [[0x61]], false, [0, 1]⟩, ⟨false, [[0x61]], false, [0, 2]⟩]
private def exSubnets : List SubnetDecl :=
  [⟨[0, 1], 0xffff0a000000, 104, [1, 1]⟩, ⟨[0, 1], 0xffff0b000000, 104, [0, 0]⟩,
   ⟨[0, 2], 0xffff00000000, 96, [2, 2]⟩, ⟨[0, 1], 0x20010db8 * 2 ^ 96, 32, [3, 3]⟩]
private def exZone : Zone := ⟨[], exMaps, exSubnets⟩

/-- 10.1.2.0/24 → the /8 wins: scope 8 -/
example : locate exZone [[0x61]] ⟨0xffff01020304, some (1, 24, 0, 0xffff0a010200)⟩ = ⟨[1, 1], some 8⟩ := by
  decide
/-- 11.1.2.0/24 → untagged winner: default 24, resolver's location -/
example : locate exZone [[0x61]] ⟨0xffff01020304, some (1, 24, 0, 0xffff0b010200)⟩ = ⟨[2, 2], some 24⟩ := by
  decide
/-- 12.1.2.0/24 → nothing qualifies: default 24, resolver's location -/
example : locate exZone [[0x61]] ⟨0xffff01020304, some (1, 24, 0, 0xffff0c010200)⟩ = ⟨[2, 2], some 24⟩ := by
  decide
/-- 2001:db8::5/56 → the /32 wins: scope 32 -/
example : locate exZone [[0x61]] ⟨0xffff01020304, some (2, 56, 0, 0x20010db8 * 2 ^ 96 + 5)⟩ =
    ⟨[3, 3], some 32⟩ := by decide
/-- 2001:db9::5/56 → default 48 -/
example : locate exZone [[0x61]] ⟨0xffff01020304, some (2, 56, 0, 0x20010db9 * 2 ^ 96 + 5)⟩ =
    ⟨[2, 2], some 48⟩ := by decide
/-- name `b` has no client-subnet map: scope 0 -/
example : locate exZone [[0x62]] ⟨0xffff01020304, some (1, 24, 0, 0xffff0a010200)⟩ = ⟨[0, 0], some 0⟩ := by
  decide
/-- no ECS: no scope -/
example : locate exZone [[0x61]] ⟨0xffff01020304, none⟩ = ⟨[2, 2], none⟩ := by decide
/-- the hypotheses of `scope_winner` / `scope_bounds` are satisfiable on `exZone` -/
example : (∀ s ∈ exZone.subnets, s.ones ≤ 128) ∧
    mapFor exZone.maps true [[0x61]] = some [0, 1] ∧
    lpm exZone.subnets [0, 1] (1 = 1) 0xffff0a010200 (if 1 = 1 then 24 + 96 else 24) =
      some ⟨[0, 1], 0xffff0a000000, 104, [1, 1]⟩ := by decide

/-! ## Part 2 — the model of `db/location.go`, arbitrary store and backend -/

/-- the `net.IPNet` that `EcsLocation` builds from the option (family 2 → 128-bit mask, any other
family → 32-bit mask; `CIDRMask` yields nil when the source length exceeds the width) -/
def clientOf (e : Ecs) : ClientNet :=
  { ip16 := to16 e.addr, ipLen4 := e.addr.length = 4,
    maskOnes := if e.sourceMask ≤ (if e.family = 2 then 128 else 32) then e.sourceMask else 0,
    maskBits := if e.family = 2 then 128 else 32,
    maskValid := e.sourceMask ≤ (if e.family = 2 then 128 else 32) }

/-- `copy(location.MapID[:], mapID)`: the first two bytes of the map value, zero-filled;
`[0,0]` when the name has no map -/
def mapIdOf (m : Option Bytes) : Bytes :=
  match m with
  | some v => [v.getD 0 0, v.getD 1 0]
  | none => [0, 0]

/-- `ecsLocation` with its `let`s unfolded (definitional) -/
theorem ecsLocation_eq (b : Backend) (s : Store) (q : Bytes) (e : Ecs) :
    ecsLocation b s q e =
      match findLocation b s q [0, 0x38] (clientOf e) with
      | .err => .err
      | .panic => .panic
      | .ok loc =>
        if loc.mapID = [0, 0] then .ok (none, 0)
        else if loc.locID ≠ [0, 0] then
          .ok (some loc, if e.family = 1 then (loc.mask + 256 - 96) % 256 else loc.mask)
        else .ok (none, if e.family = 2 then 48 else 24) := rfl

/-- complete case description of `EcsLocation` through `findLocation` on the client-subnet map
type `\000 8`: no map → scope 0; map but no location → default 24/48; map and location → the
location and its stored mask length (byte arithmetic `mask - 96` for family 1); failures
propagate. The map-id test comes first. -/
theorem ecs_scope_model (b : Backend) (s : Store) (q : Bytes) (e : Ecs) :
    (∀ loc, findLocation b s q [0, 0x38] (clientOf e) = .ok loc →
      (loc.mapID = [0, 0] → ecsLocation b s q e = .ok (none, 0)) ∧
      (loc.mapID ≠ [0, 0] → loc.locID = [0, 0] →
        ecsLocation b s q e = .ok (none, if e.family = 2 then 48 else 24)) ∧
      (loc.mapID ≠ [0, 0] → loc.locID ≠ [0, 0] →
        ecsLocation b s q e =
          .ok (some loc, if e.family = 1 then (loc.mask + 256 - 96) % 256 else loc.mask))) ∧
    (findLocation b s q [0, 0x38] (clientOf e) = .err → ecsLocation b s q e = .err) ∧
    (findLocation b s q [0, 0x38] (clientOf e) = .panic → ecsLocation b s q e = .panic) := by
  refine ⟨fun loc h => ⟨fun h1 => ?_, fun h1 h2 => ?_, fun h1 h2 => ?_⟩, fun h => ?_, fun h => ?_⟩
  · rw [ecsLocation_eq, h]; simp only [if_pos h1]
  · rw [ecsLocation_eq, h]; simp only [if_neg h1, if_neg (not_not_intro h2)]
  · rw [ecsLocation_eq, h]; simp only [if_neg h1, if_pos h2]
  · rw [ecsLocation_eq, h]
  · rw [ecsLocation_eq, h]

/-- `findLocation` with its `let` unfolded (definitional) -/
theorem findLocation_eq (b : Backend) (s : Store) (q mtype : Bytes) (c : ClientNet) :
    findLocation b s q mtype c =
      match findMap b s q mtype with
      | .err => .err
      | .panic => .panic
      | .ok m =>
        match getLocation b s c (mapIdOf m) with
        | .err => .err
        | .panic => .panic
        | .ok (loc, mask) =>
          match loc with
          | some l => .ok { mapID := mapIdOf m, mask := mask % 256, locID := [l.getD 0 0, l.getD 1 0] }
          | none => .ok { mapID := mapIdOf m } := rfl

/-- `findLocation` through the two driver calls: `FindMap` gives the map id (2-byte copy), then
`GetLocationByMap` on that id gives location id (2-byte copy) and mask length (a byte); nothing
found leaves mask 0 and location `[0,0]`; failures propagate -/
theorem findLocation_model (b : Backend) (s : Store) (q mtype : Bytes) (c : ClientNet) :
    (∀ m, findMap b s q mtype = .ok m →
      (∀ l mask, getLocation b s c (mapIdOf m) = .ok (some l, mask) →
        findLocation b s q mtype c =
          .ok { mapID := mapIdOf m, mask := mask % 256, locID := [l.getD 0 0, l.getD 1 0] }) ∧
      (∀ mask, getLocation b s c (mapIdOf m) = .ok (none, mask) →
        findLocation b s q mtype c = .ok { mapID := mapIdOf m }) ∧
      (getLocation b s c (mapIdOf m) = .err → findLocation b s q mtype c = .err) ∧
      (getLocation b s c (mapIdOf m) = .panic → findLocation b s q mtype c = .panic)) ∧
    (findMap b s q mtype = .err → findLocation b s q mtype c = .err) ∧
    (findMap b s q mtype = .panic → findLocation b s q mtype c = .panic) := by
  refine ⟨fun m hm => ⟨fun l mask h => ?_, fun mask h => ?_, fun h => ?_, fun h => ?_⟩,
    fun h => ?_, fun h => ?_⟩
  · rw [findLocation_eq, hm]; simp only [h]
  · rw [findLocation_eq, hm]; simp only [h]
  · rw [findLocation_eq, hm]; simp only [h]
  · rw [findLocation_eq, hm]; simp only [h]
  · rw [findLocation_eq, h]
  · rw [findLocation_eq, h]

/-- the name has no client-subnet map and the subnet lookup does not fail: scope 0 and no ECS
location. This holds even if `GetLocationByMap` on map id `[0,0]` finds something, because
`EcsLocation` tests the map id first. -/
theorem ecs_scope_no_map (b : Backend) (s : Store) (q : Bytes) (e : Ecs)
    (hm : findMap b s q [0, 0x38] = .ok none)
    (hg : ∃ r, getLocation b s (clientOf e) [0, 0] = .ok r) :
    ecsLocation b s q e = .ok (none, 0) := by
  obtain ⟨⟨l, mask⟩, hg⟩ := hg
  have h := (findLocation_model b s q [0, 0x38] (clientOf e)).1 none hm
  cases l with
  | none => exact ((ecs_scope_model b s q e).1 _ (h.2.1 mask hg)).1 rfl
  | some l => exact ((ecs_scope_model b s q e).1 _ (h.1 l mask hg)).1 rfl

/-- a client-subnet map (id ≠ `[0,0]`) but no subnet of it matches: default scope 24 / 48 -/
theorem ecs_scope_default (b : Backend) (s : Store) (q : Bytes) (e : Ecs) (m : Option Bytes) (k : Nat)
    (hm : findMap b s q [0, 0x38] = .ok m) (hid : mapIdOf m ≠ [0, 0])
    (hg : getLocation b s (clientOf e) (mapIdOf m) = .ok (none, k)) :
    ecsLocation b s q e = .ok (none, if e.family = 2 then 48 else 24) :=
  ((ecs_scope_model b s q e).1 _
    (((findLocation_model b s q [0, 0x38] (clientOf e)).1 m hm).2.1 k hg)).2.1 hid rfl

/-- a client-subnet map and a matching subnet with a location ≠ `[0,0]`: the scope is the mask
length stored with the matching subnet, minus 96 (as a byte) for family 1 -/
theorem ecs_scope_found (b : Backend) (s : Store) (q : Bytes) (e : Ecs) (m : Option Bytes)
    (l : Bytes) (mask : Nat)
    (hm : findMap b s q [0, 0x38] = .ok m) (hid : mapIdOf m ≠ [0, 0])
    (hg : getLocation b s (clientOf e) (mapIdOf m) = .ok (some l, mask))
    (hl : [l.getD 0 0, l.getD 1 0] ≠ [0, 0]) :
    ecsLocation b s q e =
      .ok (some { mapID := mapIdOf m, mask := mask % 256, locID := [l.getD 0 0, l.getD 1 0] },
           if e.family = 1 then (mask % 256 + 256 - 96) % 256 else mask % 256) :=
  ((ecs_scope_model b s q e).1 _
    (((findLocation_model b s q [0, 0x38] (clientOf e)).1 m hm).1 l mask hg)).2.2 hid hl

/-- a matching subnet whose stored location is `[0,0]` counts as "no location": default scope -/
theorem ecs_scope_found_untagged (b : Backend) (s : Store) (q : Bytes) (e : Ecs) (m : Option Bytes)
    (l : Bytes) (mask : Nat)
    (hm : findMap b s q [0, 0x38] = .ok m) (hid : mapIdOf m ≠ [0, 0])
    (hg : getLocation b s (clientOf e) (mapIdOf m) = .ok (some l, mask))
    (hl : [l.getD 0 0, l.getD 1 0] = [0, 0]) :
    ecsLocation b s q e = .ok (none, if e.family = 2 then 48 else 24) :=
  ((ecs_scope_model b s q e).1 _
    (((findLocation_model b s q [0, 0x38] (clientOf e)).1 m hm).1 l mask hg)).2.1 hid hl

/-! ### `FindLocation` (panics recovered into an error) -/

/-- no ECS option: no scope, the resolver's location, error iff that lookup fails -/
theorem top_none (b : Backend) (s : Store) (q : Bytes) (r : List UInt8) :
    findLocationTop b s q none r =
      match resolverLocation b s q r with
      | .ok l => .ok (none, l)
      | _ => .err := by
  unfold findLocationTop
  cases resolverLocation b s q r <;> rfl

/-- ECS gave a scope but no location: that scope, the resolver's location -/
theorem top_ecs_none (b : Backend) (s : Store) (q : Bytes) (e : Ecs) (r : List UInt8) (k : Nat)
    (h : ecsLocation b s q e = .ok (none, k)) :
    findLocationTop b s q (some e) r =
      match resolverLocation b s q r with
      | .ok l => .ok (some k, l)
      | _ => .err := by
  unfold findLocationTop
  simp only [h]
  cases resolverLocation b s q r <;> rfl

/-- ECS gave a location: it is used with its scope and the resolver's address is not consulted -/
theorem top_ecs_location (b : Backend) (s : Store) (q : Bytes) (e : Ecs) (r : List UInt8) (k : Nat)
    (loc : Location) (h : ecsLocation b s q e = .ok (some loc, k)) :
    findLocationTop b s q (some e) r = .ok (some k, loc) := by
  have hl : loc.locID ≠ [0, 0] := by
    rw [ecsLocation_eq] at h
    cases hf : findLocation b s q [0, 0x38] (clientOf e) with
    | err => rw [hf] at h; cases h
    | panic => rw [hf] at h; cases h
    | ok loc' =>
      rw [hf] at h
      simp only at h
      split at h
      · cases h
      · split at h
        · cases h; assumption
        · cases h
  unfold findLocationTop
  simp only [h, hl]
  rfl

/-- the ECS lookup fails (error or recovered panic): `FindLocation` fails -/
theorem top_ecs_fail (b : Backend) (s : Store) (q : Bytes) (e : Ecs) (r : List UInt8)
    (h : ∀ x, ecsLocation b s q e ≠ .ok x) :
    findLocationTop b s q (some e) r = .err := by
  unfold findLocationTop
  cases he : ecsLocation b s q e with
  | ok x => exact absurd he (h x)
  | err => simp only [he]
  | panic => simp only [he]

/-- the scope `FindLocation` returns is exactly the one `EcsLocation` computed, present iff the
query had an ECS option -/
theorem top_scope_model (b : Backend) (s : Store) (q : Bytes) (r : List UInt8) :
    (∀ e sc l, findLocationTop b s q (some e) r = .ok (sc, l) →
      ∃ loc? k, ecsLocation b s q e = .ok (loc?, k) ∧ sc = some k) ∧
    (∀ sc l, findLocationTop b s q none r = .ok (sc, l) → sc = none) := by
  constructor
  · intro e sc l h
    cases he : ecsLocation b s q e with
    | err => rw [top_ecs_fail b s q e r (fun x hx => by rw [he] at hx; cases hx)] at h; cases h
    | panic => rw [top_ecs_fail b s q e r (fun x hx => by rw [he] at hx; cases hx)] at h; cases h
    | ok x =>
      obtain ⟨loc?, k⟩ := x
      refine ⟨loc?, k, rfl, ?_⟩
      cases loc? with
      | none =>
        rw [top_ecs_none b s q e r k he] at h
        cases hr : resolverLocation b s q r with
        | ok l' => rw [hr] at h; cases h; rfl
        | err => rw [hr] at h; cases h
        | panic => rw [hr] at h; cases h
      | some loc => rw [top_ecs_location b s q e r k loc he] at h; cases h; rfl
  · intro sc l h
    rw [top_none] at h
    cases hr : resolverLocation b s q r with
    | ok l' => rw [hr] at h; cases h; rfl
    | err => rw [hr] at h; cases h
    | panic => rw [hr] at h; cases h

/-- when the client subnet yields no location (`EcsLocation` returned `none`, or there was no ECS
option) the location is exactly the resolver's: success iff `ResolverLocation` succeeds, with that
very location; otherwise an error (a panic is recovered into an error) -/
theorem top_resolver_fallback (b : Backend) (s : Store) (q : Bytes) (r : List UInt8) :
    (∀ e k, ecsLocation b s q e = .ok (none, k) →
      (∀ sc l, findLocationTop b s q (some e) r = .ok (sc, l) ↔
        (sc = some k ∧ resolverLocation b s q r = .ok l)) ∧
      ((∀ l, resolverLocation b s q r ≠ .ok l) → findLocationTop b s q (some e) r = .err)) ∧
    ((∀ sc l, findLocationTop b s q none r = .ok (sc, l) ↔
        (sc = none ∧ resolverLocation b s q r = .ok l)) ∧
      ((∀ l, resolverLocation b s q r ≠ .ok l) → findLocationTop b s q none r = .err)) := by
  constructor
  · intro e k he
    rw [top_ecs_none b s q e r k he]
    cases hr : resolverLocation b s q r with
    | ok l' =>
      refine ⟨fun sc l => ⟨fun h => ?_, fun h => ?_⟩, fun h => absurd rfl (h l')⟩
      · cases h; exact ⟨rfl, rfl⟩
      · obtain ⟨h1, h2⟩ := h; cases h1; cases h2; rfl
    | err =>
      refine ⟨fun sc l => ⟨fun h => (by cases h), fun h => (by cases h.2)⟩, fun _ => rfl⟩
    | panic =>
      refine ⟨fun sc l => ⟨fun h => (by cases h), fun h => (by cases h.2)⟩, fun _ => rfl⟩
  · rw [top_none]
    cases hr : resolverLocation b s q r with
    | ok l' =>
      refine ⟨fun sc l => ⟨fun h => ?_, fun h => ?_⟩, fun h => absurd rfl (h l')⟩
      · cases h; exact ⟨rfl, rfl⟩
      · obtain ⟨h1, h2⟩ := h; cases h1; cases h2; rfl
    | err =>
      refine ⟨fun sc l => ⟨fun h => (by cases h), fun h => (by cases h.2)⟩, fun _ => rfl⟩
    | panic =>
      refine ⟨fun sc l => ⟨fun h => (by cases h), fun h => (by cases h.2)⟩, fun _ => rfl⟩

/-- the option the server attaches to the response: the query's option with the scope filled in
(the model has no ECS output other than the scope) -/
def echoed (e : Ecs) (scope : Nat) : Ecs := { e with scope := scope }

/-- family, source prefix length and address are echoed unchanged; only the scope is set -/
theorem ecs_fields_unchanged (e : Ecs) (k : Nat) :
    (echoed e k).family = e.family ∧ (echoed e k).sourceMask = e.sourceMask ∧
      (echoed e k).addr = e.addr ∧ (echoed e k).scope = k :=
  ⟨rfl, rfl, rfl, rfl⟩

/-- the scope is a function of backend, database, query name and ECS option only: it does not
depend on the resolver's address -/
theorem top_depends_only_on_query (b : Backend) (s : Store) (q : Bytes) (e : Ecs)
    (r₁ r₂ : List UInt8) (sc₁ sc₂ : Option Nat) (l₁ l₂ : Location)
    (h₁ : findLocationTop b s q (some e) r₁ = .ok (sc₁, l₁))
    (h₂ : findLocationTop b s q (some e) r₂ = .ok (sc₂, l₂)) : sc₁ = sc₂ := by
  obtain ⟨_, k₁, e₁, rfl⟩ := (top_scope_model b s q r₁).1 e sc₁ l₁ h₁
  obtain ⟨_, k₂, e₂, rfl⟩ := (top_scope_model b s q r₂).1 e sc₂ l₂ h₂
  rw [e₁] at e₂
  cases e₂
  rfl

/-! non-vacuity: the root name has client-subnet map `[0,1]`; IPv4 prefix-length set {104};
10.0.0.0/8 (map `[0,1]`) → location `[1,1]` -/

private def exStore : Store :=
  [([0, 0x38, 0, 0x3d], [[0, 1]]), ([0, 0x34], [[104]]),
   ([0, 0x25, 0, 1, 0, 0, 0, 0, 0, 0, 0, 0, 0, 0, 0xff, 0xff, 10, 0, 0, 0, 104], [[1, 1]])]
private def exResolver : List UInt8 := [0, 0, 0, 0, 0, 0, 0, 0, 0, 0, 0xff, 0xff, 1, 2, 3, 4]

/-- empty database: no map, scope 0 -/
example : ecsLocation (.cdb true) [] [0] ⟨1, 24, 0, [10, 1, 2, 0]⟩ = .ok (none, 0) := rfl
/-- 10.1.2.0/24: the /8 matches, scope 104 − 96 = 8 -/
example : ecsLocation (.cdb true) exStore [0] ⟨1, 24, 0, [10, 1, 2, 0]⟩ =
    .ok (some ⟨[0, 1], 104, [1, 1]⟩, 8) := rfl
/-- 11.1.2.0/24: map but no subnet, default 24 -/
example : ecsLocation (.cdb true) exStore [0] ⟨1, 24, 0, [11, 1, 2, 0]⟩ = .ok (none, 24) := rfl
/-- an IPv6 client: default 48 -/
example : ecsLocation (.cdb true) exStore [0]
    ⟨2, 56, 0, [0x20, 1, 0xd, 0xb8, 0, 0, 0, 0, 0, 0, 0, 0, 0, 0, 0, 1]⟩ = .ok (none, 48) := rfl
example : findLocationTop (.cdb true) exStore [0] (some ⟨1, 24, 0, [10, 1, 2, 0]⟩) exResolver =
    .ok (some 8, ⟨[0, 1], 104, [1, 1]⟩) := rfl
example : findLocationTop (.cdb true) exStore [0] (some ⟨1, 24, 0, [11, 1, 2, 0]⟩) exResolver =
    .ok (some 24, {}) := rfl
example : findLocationTop (.cdb true) exStore [0] none exResolver = .ok (none, {}) := rfl

/-! ### C10.3 (CDB backend) -/

open DnsVerif.Codec DnsVerif.Rearr in
theorem to16_length (a : List UInt8) : (to16 a).length = 16 := by
  unfold to16
  split
  · rename_i h; simp [Net.v4Prefix, h]
  · split
    · assumption
    · simp

theorem mapIdOf_length (m : Option Bytes) : (mapIdOf m).length = 2 := by
  cases m <;> rfl

theorem clientOf_len4 (e : Ecs) :
    (clientOf e).ipLen4 = true → (clientOf e).ip16.take 12 = Net.v4Prefix := by
  intro h
  have h4 : e.addr.length = 4 := by simpa [clientOf] using h
  show (to16 e.addr).take 12 = Net.v4Prefix
  unfold to16
  rw [if_pos h4]
  simp [Net.v4Prefix]

/-- the two-byte copy of a two-byte location is the location -/
theorem copy2 {l : Bytes} (h : l.length = 2) : [l.getD 0 0, l.getD 1 0] = l := by
  match l, h with
  | [a, b], _ => rfl

open DnsVerif.Codec DnsVerif.Rearr in
/-- **scope_truthful_cdb**: on the CDB backend (either prefix-set mode), for a name whose
client-subnet map is `m` (id ≠ `[0,0]`), `EcsLocation` is determined by `Spec.lpm` on the declared
subnets: with a winner `w` whose location is not `[0,0]` the location is `w.loc` and the echoed
scope is `w.ones` expressed as the model's byte arithmetic; otherwise the default 24/48 and no
location. Hypotheses: the store represents the subnet list (`CdbRep`), the list is well formed
(`SubnetsWF`, incl. W1) with 2-byte locations. -/
theorem scope_truthful_cdb {s : Store} {subs : List Subnet} (hrep : CdbRep s subs)
    (hwf : SubnetsWF subs) (hloc : ∀ x ∈ subs, (declOf x).loc.length = 2)
    (sep : Bool) (q : Bytes) (e : Ecs) (m : Option Bytes)
    (hm : findMap (.cdb sep) s q [0, 0x38] = .ok m) (hid : mapIdOf m ≠ [0, 0]) :
    ecsLocation (.cdb sep) s q e =
      match lpm (subs.map declOf) (mapIdOf m) (isIPv4 (clientOf e)) (ipToNat (to16 e.addr))
          (C03.reqLen (clientOf e)) with
      | some w =>
        if w.loc ≠ [0, 0] then
          .ok (some { mapID := mapIdOf m, mask := w.ones % 256, locID := w.loc },
               if e.family = 1 then (w.ones % 256 + 256 - 96) % 256 else w.ones % 256)
        else .ok (none, if e.family = 2 then 48 else 24)
      | none => .ok (none, if e.family = 2 then 48 else 24) := by
  have hg := C03.getLocationCdb_eq_lpm hrep hwf sep (clientOf e) (mapIdOf m) (mapIdOf_length m)
    (to16_length e.addr) (clientOf_len4 e)
  have hg' : getLocation (.cdb sep) s (clientOf e) (mapIdOf m) =
      getLocationCdb s sep (clientOf e) (mapIdOf m) := rfl
  have hip : (clientOf e).ip16 = to16 e.addr := rfl
  rw [hip] at hg
  cases hl : lpm (subs.map declOf) (mapIdOf m) (isIPv4 (clientOf e)) (ipToNat (to16 e.addr))
      (C03.reqLen (clientOf e)) with
  | none =>
    rw [hl] at hg
    exact ecs_scope_default (.cdb sep) s q e m 0 hm hid (hg'.trans hg)
  | some w =>
    rw [hl] at hg
    obtain ⟨hwm, _⟩ := lpm_some hl
    obtain ⟨x, hx, rfl⟩ := List.mem_map.1 hwm
    have h2 := copy2 (hloc x hx)
    by_cases hz : (declOf x).loc = [0, 0]
    · simp only [hz, ne_eq, not_true_eq_false, if_false]
      exact ecs_scope_found_untagged (.cdb sep) s q e m _ _ hm hid (hg'.trans hg) (h2.trans hz)
    · simp only [ne_eq, hz, not_false_eq_true, if_true]
      have := ecs_scope_found (.cdb sep) s q e m _ _ hm hid (hg'.trans hg) (by rw [h2]; exact hz)
      rw [h2] at this
      exact this

open DnsVerif.Codec DnsVerif.Rearr in
/-- … and in the regular cases the byte arithmetic is the declared length of the winning subnet
expressed in the client's family: an IPv4 option (family 1, 4-byte address) is matched only by
IPv4-family subnets (`96 ≤ ones ≤ 128`), scope `ones − 96 ≤ 32`; for family ≠ 1 the scope is
`ones ≤ 128` -/
theorem scope_truthful_cdb_value {subs : List Subnet} (hwf : SubnetsWF subs) {mapID : Bytes} {e : Ecs}
    {w : SubnetDecl}
    (hl : lpm (subs.map declOf) mapID (isIPv4 (clientOf e)) (ipToNat (to16 e.addr))
      (C03.reqLen (clientOf e)) = some w) :
    (e.family = 1 → e.addr.length = 4 →
      (w.ones % 256 + 256 - 96) % 256 = w.ones - 96 ∧ w.ones - 96 ≤ 32 ∧ 96 ≤ w.ones) ∧
    (w.ones % 256 = w.ones ∧ w.ones ≤ 128) := by
  obtain ⟨hwm, hq, _⟩ := lpm_some hl
  obtain ⟨x, hx, rfl⟩ := List.mem_map.1 hwm
  have hle : (declOf x).ones ≤ 128 := hwf.ones_le x hx
  refine ⟨fun _ h4 => ?_, by omega, hle⟩
  have hv4 : isIPv4 (clientOf e) = true := by
    unfold isIPv4 clientOf
    simp [h4]
  have hfam : (declOf x).isV4 = true := by rw [hq.2.1, hv4]
  unfold SubnetDecl.isV4 at hfam
  rw [Bool.and_eq_true, decide_eq_true_iff] at hfam
  have := hfam.2
  omega

open DnsVerif.Codec DnsVerif.Rearr in
/-- **scope_truthful_rdb**: the same on the RocksDB backends (v1 or v2 key layout — only `FindMap`
differs), from `C03.rearrange_lpm_store`: `S` are the declared subnets of the name's client-subnet
map (W0, W1), the store holds the range points `Rearrange()` produced for it (`RdbRep`), the client
address is masked to its prefix length (W4). -/
theorem scope_truthful_rdb {S : List SubnetDecl} (hwf : SubsWF S) (hne : S ≠ [])
    (b : Backend) (hb : b = .rdbV1 ∨ b = .rdbV2) (s : Store) (q : Bytes) (e : Ecs) (m : Option Bytes)
    (hm : findMap b s q [0, 0x38] = .ok m) (hid : mapIdOf m ≠ [0, 0])
    (hS : ∀ x ∈ S, x.mapID = mapIdOf m)
    (hrep : ∀ P, rearrange (addAll S) = some P → RdbRep s (mapIdOf m) P)
    (h16 : (maskedClientIP (clientOf e)).length = 16)
    (hal : ipToNat (maskedClientIP (clientOf e)) % 2 ^ (128 - reqOf (clientOf e)) = 0) :
    ecsLocation b s q e =
      match lpm S (mapIdOf m) (isV4Addr (ipToNat (maskedClientIP (clientOf e))))
          (ipToNat (maskedClientIP (clientOf e))) (reqOf (clientOf e)) with
      | some w =>
        if w.loc ≠ [0, 0] then
          .ok (some { mapID := mapIdOf m, mask := w.ones % 256, locID := w.loc },
               if e.family = 1 then (w.ones % 256 + 256 - 96) % 256 else w.ones % 256)
        else .ok (none, if e.family = 2 then 48 else 24)
      | none => .ok (none, if e.family = 2 then 48 else 24) := by
  obtain ⟨P, hP, hlk⟩ := C03.rearrange_lpm_store hwf hne (mapIdOf_length m) hS
  have hg := hlk s (hrep P hP) (clientOf e) h16 hal
  have hg' : getLocation b s (clientOf e) (mapIdOf m) = getLocationRdb s (clientOf e) (mapIdOf m) := by
    rcases hb with rfl | rfl <;> rfl
  unfold lpmRes at hg
  cases hl : lpm S (mapIdOf m) (isV4Addr (ipToNat (maskedClientIP (clientOf e))))
      (ipToNat (maskedClientIP (clientOf e))) (reqOf (clientOf e)) with
  | none =>
    rw [hl] at hg
    exact ecs_scope_default b s q e m 0 hm hid (hg'.trans hg)
  | some w =>
    rw [hl] at hg
    obtain ⟨hwm, _⟩ := lpm_some hl
    have h2 := copy2 (hwf.loc_len w hwm)
    by_cases hz : w.loc = [0, 0]
    · simp only [hz, ne_eq, not_true_eq_false, if_false]
      exact ecs_scope_found_untagged b s q e m _ _ hm hid (hg'.trans hg) (h2.trans hz)
    · simp only [ne_eq, hz, not_false_eq_true, if_true]
      have := ecs_scope_found b s q e m _ _ hm hid (hg'.trans hg) (by rw [h2]; exact hz)
      rw [h2] at this
      exact this

end DnsVerif.Props.C10
