/-
C18 — SVCB/HTTPS parameters compile to conformant, faithful wire data.

Property theorems only; helper lemmas are in `Proofs/Svcb.lean`, the model of the Go code in
`Model/Svcb.lean`, the statement side (`declared`, `valid`) in `Spec/Svcb.lean`, and the
independent RFC 9460 reader `decodeRFC` at the end of `Model/Svcb.lean`.

The model transcribes /repo after the repairs e9b4da5 (`FromText` skips empty `;` segments) and
368102c (`alpnMarshaller` rejects ids of length 0 or > 255). Statements 1–3 hold at full strength.
Statement 4 (text → wire → text → wire) is still violated by one input class, an IPv4-mapped address
in `ipv6hint` (finding C18-ipv6hint-mapped, pinned by the package's own test vector): it is kept as
`def …_full : Prop` with a proved negation from the witness and a proved `…_partial` for every
accepted text without such an address.
-/
import DnsVerif.Proofs.Svcb

namespace DnsVerif.Props.C18
open DnsVerif DnsVerif.Svcb DnsVerif.Spec.Svcb

/-- `;port=1` -/
def wDropped : Bytes := [0x3b, 0x70, 0x6f, 0x72, 0x74, 0x3d, 0x31]
/-- `alpn=h2||h3` -/
def wAlpnEmpty : Bytes := [0x61, 0x6c, 0x70, 0x6e, 0x3d, 0x68, 0x32, 0x7c, 0x7c, 0x68, 0x33]
/-- `ipv6hint=::ffff:1.2.3.4` -/
def wMapped : Bytes := [0x69, 0x70, 0x76, 0x36, 0x68, 0x69, 0x6e, 0x74, 0x3d, 0x3a, 0x3a, 0x66, 0x66, 0x66, 0x66, 0x3a, 0x31, 0x2e, 0x32, 0x2e, 0x33, 0x2e, 0x34]
/-- `;mandatory=mandatory` -/
def wMandDropped : Bytes := [0x3b, 0x6d, 0x61, 0x6e, 0x64, 0x61, 0x74, 0x6f, 0x72, 0x79, 0x3d, 0x6d, 0x61, 0x6e, 0x64, 0x61, 0x74, 0x6f, 0x72, 0x79]
/-- `port=443;;alpn="h2|h3";mandatory=port|alpn;ipv6hint=2001:db8::1;` -/
def sample : Bytes := [0x70, 0x6f, 0x72, 0x74, 0x3d, 0x34, 0x34, 0x33, 0x3b, 0x3b, 0x61, 0x6c, 0x70, 0x6e, 0x3d, 0x22, 0x68, 0x32, 0x7c, 0x68, 0x33, 0x22, 0x3b, 0x6d, 0x61, 0x6e, 0x64, 0x61, 0x74, 0x6f, 0x72, 0x79, 0x3d, 0x70, 0x6f, 0x72, 0x74, 0x7c, 0x61, 0x6c, 0x70, 0x6e, 0x3b, 0x69, 0x70, 0x76, 0x36, 0x68, 0x69, 0x6e, 0x74, 0x3d, 0x32, 0x30, 0x30, 0x31, 0x3a, 0x64, 0x62, 0x38, 0x3a, 0x3a, 0x31, 0x3b]
/-- `mandatory=mandatory` -/
def wSegMand : Bytes := [0x6d, 0x61, 0x6e, 0x64, 0x61, 0x74, 0x6f, 0x72, 0x79, 0x3d, 0x6d, 0x61, 0x6e, 0x64, 0x61, 0x74, 0x6f, 0x72, 0x79]
/-- `alpn=aaaaaaaaaaaaaaa…` -/
def wLong : Bytes := [0x61, 0x6c, 0x70, 0x6e, 0x3d, 0x61, 0x61, 0x61, 0x61, 0x61, 0x61, 0x61, 0x61, 0x61, 0x61, 0x61, 0x61, 0x61, 0x61, 0x61, 0x61, 0x61, 0x61, 0x61, 0x61, 0x61, 0x61, 0x61, 0x61, 0x61, 0x61, 0x61, 0x61, 0x61, 0x61, 0x61, 0x61, 0x61, 0x61, 0x61, 0x61, 0x61, 0x61, 0x61, 0x61, 0x61, 0x61, 0x61, 0x61, 0x61, 0x61, 0x61, 0x61, 0x61, 0x61, 0x61, 0x61, 0x61, 0x61, 0x61, 0x61, 0x61, 0x61, 0x61, 0x61, 0x61, 0x61, 0x61, 0x61, 0x61, 0x61, 0x61, 0x61, 0x61, 0x61, 0x61, 0x61, 0x61, 0x61, 0x61, 0x61, 0x61, 0x61, 0x61, 0x61, 0x61, 0x61, 0x61, 0x61, 0x61, 0x61, 0x61, 0x61, 0x61, 0x61, 0x61, 0x61, 0x61, 0x61, 0x61, 0x61, 0x61, 0x61, 0x61, 0x61, 0x61, 0x61, 0x61, 0x61, 0x61, 0x61, 0x61, 0x61, 0x61, 0x61, 0x61, 0x61, 0x61, 0x61, 0x61, 0x61, 0x61, 0x61, 0x61, 0x61, 0x61, 0x61, 0x61, 0x61, 0x61, 0x61, 0x61, 0x61, 0x61, 0x61, 0x61, 0x61, 0x61, 0x61, 0x61, 0x61, 0x61, 0x61, 0x61, 0x61, 0x61, 0x61, 0x61, 0x61, 0x61, 0x61, 0x61, 0x61, 0x61, 0x61, 0x61, 0x61, 0x61, 0x61, 0x61, 0x61, 0x61, 0x61, 0x61, 0x61, 0x61, 0x61, 0x61, 0x61, 0x61, 0x61, 0x61, 0x61, 0x61, 0x61, 0x61, 0x61, 0x61, 0x61, 0x61, 0x61, 0x61, 0x61, 0x61, 0x61, 0x61, 0x61, 0x61, 0x61, 0x61, 0x61, 0x61, 0x61, 0x61, 0x61, 0x61, 0x61, 0x61, 0x61, 0x61, 0x61, 0x61, 0x61, 0x61, 0x61, 0x61, 0x61, 0x61, 0x61, 0x61, 0x61, 0x61, 0x61, 0x61, 0x61, 0x61, 0x61, 0x61, 0x61, 0x61, 0x61, 0x61, 0x61, 0x61, 0x61, 0x61, 0x61, 0x61, 0x61, 0x61, 0x61, 0x61, 0x61, 0x61, 0x61, 0x61, 0x61, 0x61, 0x61, 0x61, 0x61, 0x61, 0x61, 0x61, 0x61, 0x61, 0x61, 0x61, 0x61, 0x61, 0x61, 0x61, 0x61, 0x61, 0x61, 0x61, 0x61, 0x61, 0x61, 0x61, 0x61]


/-! ### 1. keys strictly increasing, without repetition (full strength) -/

/-- Every accepted list is in strictly increasing key order (so no key repeats). -/
theorem keys_strictly_increasing {t : Bytes} {l : List Param} (h : fromText t = .ok l) :
    l.Pairwise fun x y => x.key < y.key :=
  fromText_keys_lt h

/-- …and that is what a reader of the wire bytes sees: the §2.2 framing of `toWire l` decodes, to
exactly the parameters of `l`, with strictly increasing keys. `Fits`: every value is shorter than
2^16 bytes (the length field is a `uint16` conversion in the code; longer values — a parameter
text of more than 12 KiB — are silently truncated and cannot be carried in an RDATA anyway). -/
theorem keys_strictly_increasing_wire {t : Bytes} {l : List Param} (h : fromText t = .ok l)
    (hf : Fits l) :
    ∃ kvs, decodeRaw (toWire l).length (toWire l) = some kvs ∧
      kvs = l.map (fun p => (p.key, p.value)) ∧ strictlyIncreasing (kvs.map (·.1)) = true := by
  have hks : KeysSmall l := by
    obtain ⟨ps, hp, _, hl⟩ := fromText_ok h
    intro p hp'
    rw [hl] at hp'
    obtain ⟨s, _, hs⟩ := (parseSegs_forall2 _ _ _ hp).of_right ((sortBy_perm _ _).mem_iff.mp hp')
    obtain ⟨n, v, _, hk, _⟩ := paramFromText_ok hs
    have := keyOfName_le hk
    omega
  refine ⟨_, decodeRaw_toWire l hf hks _ (toWire_length_ge l), rfl, ?_⟩
  apply strictlyIncreasing_of_pairwise
  rw [List.map_map]
  exact List.pairwise_map.mpr (fromText_keys_lt h)

/-! ### 2. an independent decoder recovers exactly the declared keys and values -/

/-- Whatever the code accepts is a valid declaration (`Spec.declared`: syntax, RFC 9460 value
constraints of every key — in particular every alpn id has 1..255 octets —, no repeated key,
`mandatory` names only present keys), where *every* non-empty `;` segment of the text counts.

Before commits e9b4da5 and 368102c this was false: `alpn=h2||h3` (`wAlpnEmpty`) and an alpn id of
256 octets (`wLong`) were accepted although they are not valid declarations. -/
theorem accepted_is_valid_declaration {t : Bytes} {l : List Param} (h : fromText t = .ok l) :
    ∃ d, declared t = some d :=
  fromText_declared h

/-- Full strength: whatever the code accepts is a valid declaration and the RFC 9460 reader
recovers exactly that declaration from the emitted bytes: keys strictly increasing, every value in
the wire form of its key, `mandatory` consistent. (`Fits`: see `keys_strictly_increasing_wire`.)

Before commits e9b4da5 and 368102c this was false, and was proved only under the hypotheses
`NoDrop t` (no parameter after an empty segment) and `declared t = some d`. Witnesses then:
`;port=1` (`wDropped`) was accepted with empty wire data, the parameter after the empty segment
being dropped; `alpn=h2||h3` (`wAlpnEmpty`) was accepted and emitted as `02 h2 00 02 h3`, which is
malformed (RFC 9460 §7.1.1); a 256-octet alpn id (`wLong`) was emitted with length octet 0 and
`ToText` then indexed out of range. -/
theorem decode_recovers_declared {t : Bytes} {l : List Param}
    (h : fromText t = .ok l) (hf : Fits l) :
    ∃ d, declared t = some d ∧ decodeRFC (toWire l) = some d :=
  decode_recovers_declared' h hf

/-- the former witnesses, now: the parameter after the empty segment is kept … -/
example : fromText wDropped = .ok [⟨3, [0, 1]⟩] := by decide +kernel
example : declared wDropped = some [.port 1] ∧ decodeRFC (toWire [⟨3, [0, 1]⟩]) = some [.port 1] := by
  decide +kernel
/-- … and alpn ids of length 0 or 256 are rejected -/
example : fromText wAlpnEmpty = .error .alpnLen := by decide +kernel
example : fromText wLong = .error .alpnLen := by decide +kernel

/-! ### 3. `mandatory` naming a missing key, repeating a key or naming itself is rejected -/

/-- Full strength (contrapositive form of "… is rejected"): in an accepted text *every* segment
`mandatory=v` lists distinct names, not `mandatory`, and only names of parameters present in the
text.

Before commit e9b4da5 this was false, and was proved only for the segments before the first empty
one. Witness then: `;mandatory=mandatory` (`wMandDropped`) was accepted (as the empty list). -/
theorem mandatory_rejects {t : Bytes} {l : List Param} (h : fromText t = .ok l) :
    ∀ seg ∈ splitOn 0x3b t, ∀ v, cut 0x3d seg = some (mandName, v) →
      (splitOn 0x7c (trimQuotes v)).Nodup ∧ mandName ∉ splitOn 0x7c (trimQuotes v) ∧
      ∀ n ∈ splitOn 0x7c (trimQuotes v), ∃ seg' ∈ splitOn 0x3b t, ∃ v', cut 0x3d seg' = some (n, v') := by
  intro seg hseg v hcut
  have hne : (!seg.isEmpty) = true := by
    cases seg with
    | nil => simp [cut] at hcut
    | cons c cs => rfl
  have hlive : seg ∈ liveSegs t := List.mem_filter.mpr ⟨hseg, hne⟩
  obtain ⟨h1, h2, h3⟩ := mandatory_accepted h seg hlive v hcut
  refine ⟨h1, h2, ?_⟩
  intro n hn
  obtain ⟨seg', hs', v', hc'⟩ := h3 n hn
  exact ⟨seg', (List.mem_filter.mp hs').1, v', hc'⟩

/-- the former witness is rejected, like `mandatory=mandatory` -/
example : fromText wMandDropped = .error .mandSelf := by decide +kernel

/-! ### 4. printing the stored parameters and parsing the text again gives the same wire data -/

def text_wire_idempotent_full : Prop :=
  ∀ (t : Bytes) (l : List Param), fromText t = .ok l →
    ∃ s, toText l = .ok s ∧ ∃ l', fromText s = .ok l' ∧ toWire l' = toWire l

/-- Witness (`ipv6hint=::ffff:1.2.3.4`): stored as the 16-byte IPv4-mapped address, printed by
`net.IP.String` as `1.2.3.4`, which `ipv6hintMarshaller` rejects (no colon). Still open
(C18-ipv6hint-mapped): `svcb_test.go` pins the acceptance, the printed form and the rejection of
`ipv6hint=1.2.3.4`. -/
theorem text_wire_idempotent_full_fails : ¬ text_wire_idempotent_full := by
  intro hfull
  have hacc : fromText wMapped =
      .ok [⟨6, [0, 0, 0, 0, 0, 0, 0, 0, 0, 0, 0xff, 0xff, 1, 2, 3, 4]⟩] := by decide +kernel
  obtain ⟨s, h1, l', h2, _⟩ := hfull wMapped _ hacc
  have e1 : toText [⟨6, [0, 0, 0, 0, 0, 0, 0, 0, 0, 0, 0xff, 0xff, 1, 2, 3, 4]⟩] =
      .ok [0x69, 0x70, 0x76, 0x36, 0x68, 0x69, 0x6e, 0x74, 0x3d, 0x22, 0x31, 0x2e, 0x32, 0x2e,
           0x33, 0x2e, 0x34, 0x22] := by decide +kernel
  rw [e1] at h1
  have hs := (Except.ok.inj h1).symm
  subst hs
  have e2 : fromText [0x69, 0x70, 0x76, 0x36, 0x68, 0x69, 0x6e, 0x74, 0x3d, 0x22, 0x31, 0x2e, 0x32,
      0x2e, 0x33, 0x2e, 0x34, 0x22] = .error .ip6NoColon := by decide +kernel
  rw [e2] at h2
  simp at h2

/-- Proved part: for every accepted text whose list holds no IPv4-mapped `ipv6hint` address
(`NoMapped l`: `net.IP.To4()` is nil for each of them; trivially true without an `ipv6hint`), the
printed text is accepted again and yields the very same parameter list, hence the same wire data.
`ToText` does not panic. Covers the print → parse round trip of all seven value formats
(`IP.String`/`ParseIP` for both families incl. `::` compression, `FormatUint`/`ParseUint`, base64,
alpn lists with arbitrary octets, key names, quoting).

Before commits e9b4da5 and 368102c there was no such theorem: an alpn id of 256 octets (`wLong`) was
accepted and `ToText` then panicked; `alpn=h2||h3` printed as it was read but is not a valid list. -/
theorem text_wire_idempotent_partial {t : Bytes} {l : List Param} (h : fromText t = .ok l)
    (hnm : NoMapped l) :
    ∃ s, toText l = .ok s ∧ ∃ l', fromText s = .ok l' ∧ toWire l' = toWire l := by
  obtain ⟨s, h1, h2⟩ := text_roundtrip h hnm
  exact ⟨s, h1, l, h2, rfl⟩

/-- the hypothesis is exactly what the witness violates -/
example : ¬ NoMapped [⟨6, [0, 0, 0, 0, 0, 0, 0, 0, 0, 0, 0xff, 0xff, 1, 2, 3, 4]⟩] := by
  unfold NoMapped; decide +kernel

/-! ### non-vacuity: a text that satisfies every hypothesis above and exercises sorting, quotes,
the mandatory check, `::` expansion, an empty segment in the middle and a trailing `;` -/

def sampleList : List Param :=
  [⟨0, [0, 1, 0, 3]⟩, ⟨1, [2, 0x68, 0x32, 2, 0x68, 0x33]⟩, ⟨3, [1, 0xbb]⟩,
   ⟨6, [0x20, 0x01, 0x0d, 0xb8, 0, 0, 0, 0, 0, 0, 0, 0, 0, 0, 0, 1]⟩]

example : fromText sample = .ok sampleList := by decide +kernel
example : declared sample = some [.mandatory [1, 3], .alpn [[0x68, 0x32], [0x68, 0x33]], .port 443,
    .ipv6hint [[0x20, 0x01, 0x0d, 0xb8, 0, 0, 0, 0, 0, 0, 0, 0, 0, 0, 0, 1]]] := by decide +kernel
example : Fits sampleList := by unfold Fits; decide +kernel
example : NoMapped sampleList := by unfold NoMapped; decide +kernel
example : decodeRFC (toWire sampleList) = declared sample := by decide +kernel
/-- the idempotence statement does hold on the sample -/
example : (match toText sampleList with
    | .ok s => (match fromText s with | .ok l' => toWire l' == toWire sampleList | _ => false)
    | _ => false) = true := by decide +kernel
/-- and the rejections are real: missing key, repeated key, `mandatory` itself -/
example : fromText [0x6d, 0x61, 0x6e, 0x64, 0x61, 0x74, 0x6f, 0x72, 0x79, 0x3d, 0x70, 0x6f, 0x72, 0x74] =
    .error .mandMissing := by decide +kernel
example : fromText wSegMand = .error .mandSelf := by decide +kernel

end DnsVerif.Props.C18
