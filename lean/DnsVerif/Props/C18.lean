/-
C18 — SVCB/HTTPS parameters compile to conformant, faithful wire data.

Property theorems only; helper lemmas are in `Proofs/Svcb.lean`, the model of the Go code in
`Model/Svcb.lean`, the statement side (`declared`, `valid`) in `Spec/Svcb.lean`, and the
independent RFC 9460 reader `decodeRFC` at the end of `Model/Svcb.lean`.

The real code violates three of the four full-strength statements; following the recipe each of
those is kept as a `def …_full : Prop`, with a proved `…_partial` and a proved negation from a
concrete witness (these witnesses are also the replay lines for the implementation).
-/
import DnsVerif.Proofs.Svcb

namespace DnsVerif.Props.C18
open DnsVerif DnsVerif.Svcb DnsVerif.Spec.Svcb

/-- `;port=1` -/
def wDropped : Bytes := [0x3b, 0x70, 0x6f, 0x72, 0x74, 0x3d, 0x31]
/-- `alpn=h2||h3` -/
def wAlpnEmpty : Bytes := [0x61, 0x6c, 0x70, 0x6e, 0x3d, 0x68, 0x32, 0x7c, 0x7c, 0x68, 0x33]
/-- `ipv6hint=::ffff:1.2.3.4` -/
def wMapped : Bytes := [0x69, 0x70, 0x76, 0x36, 0x68, 0x69, 0x6e, 0x74, 0x3d, 0x3a, 0x3a, 0x66, 0x66, 0x66, 0x66, 0x3a, 0x31, 0x2e, 0x32, 0x2e, 0x33, 0x2e, 0x34]
/-- `;mandatory=mandatory` -/
def wMandDropped : Bytes := [0x3b, 0x6d, 0x61, 0x6e, 0x64, 0x61, 0x74, 0x6f, 0x72, 0x79, 0x3d, 0x6d, 0x61, 0x6e, 0x64, 0x61, 0x74, 0x6f, 0x72, 0x79]
/-- `port=443;alpn="h2|h3";mandatory=port|alpn;ipv6hint=2001:db8::1;` -/
def sample : Bytes := [0x70, 0x6f, 0x72, 0x74, 0x3d, 0x34, 0x34, 0x33, 0x3b, 0x61, 0x6c, 0x70, 0x6e, 0x3d, 0x22, 0x68, 0x32, 0x7c, 0x68, 0x33, 0x22, 0x3b, 0x6d, 0x61, 0x6e, 0x64, 0x61, 0x74, 0x6f, 0x72, 0x79, 0x3d, 0x70, 0x6f, 0x72, 0x74, 0x7c, 0x61, 0x6c, 0x70, 0x6e, 0x3b, 0x69, 0x70, 0x76, 0x36, 0x68, 0x69, 0x6e, 0x74, 0x3d, 0x32, 0x30, 0x30, 0x31, 0x3a, 0x64, 0x62, 0x38, 0x3a, 0x3a, 0x31, 0x3b]
/-- `mandatory=mandatory` -/
def wSegMand : Bytes := [0x6d, 0x61, 0x6e, 0x64, 0x61, 0x74, 0x6f, 0x72, 0x79, 0x3d, 0x6d, 0x61, 0x6e, 0x64, 0x61, 0x74, 0x6f, 0x72, 0x79]
/-- `alpn=aaaaaaaaaaaaaaa…` -/
def wLong : Bytes := [0x61, 0x6c, 0x70, 0x6e, 0x3d, 0x61, 0x61, 0x61, 0x61, 0x61, 0x61, 0x61, 0x61, 0x61, 0x61, 0x61, 0x61, 0x61, 0x61, 0x61, 0x61, 0x61, 0x61, 0x61, 0x61, 0x61, 0x61, 0x61, 0x61, 0x61, 0x61, 0x61, 0x61, 0x61, 0x61, 0x61, 0x61, 0x61, 0x61, 0x61, 0x61, 0x61, 0x61, 0x61, 0x61, 0x61, 0x61, 0x61, 0x61, 0x61, 0x61, 0x61, 0x61, 0x61, 0x61, 0x61, 0x61, 0x61, 0x61, 0x61, 0x61, 0x61, 0x61, 0x61, 0x61, 0x61, 0x61, 0x61, 0x61, 0x61, 0x61, 0x61, 0x61, 0x61, 0x61, 0x61, 0x61, 0x61, 0x61, 0x61, 0x61, 0x61, 0x61, 0x61, 0x61, 0x61, 0x61, 0x61, 0x61, 0x61, 0x61, 0x61, 0x61, 0x61, 0x61, 0x61, 0x61, 0x61, 0x61, 0x61, 0x61, 0x61, 0x61, 0x61, 0x61, 0x61, 0x61, 0x61, 0x61, 0x61, 0x61, 0x61, 0x61, 0x61, 0x61, 0x61, 0x61, 0x61, 0x61, 0x61, 0x61, 0x61, 0x61, 0x61, 0x61, 0x61, 0x61, 0x61, 0x61, 0x61, 0x61, 0x61, 0x61, 0x61, 0x61, 0x61, 0x61, 0x61, 0x61, 0x61, 0x61, 0x61, 0x61, 0x61, 0x61, 0x61, 0x61, 0x61, 0x61, 0x61, 0x61, 0x61, 0x61, 0x61, 0x61, 0x61, 0x61, 0x61, 0x61, 0x61, 0x61, 0x61, 0x61, 0x61, 0x61, 0x61, 0x61, 0x61, 0x61, 0x61, 0x61, 0x61, 0x61, 0x61, 0x61, 0x61, 0x61, 0x61, 0x61, 0x61, 0x61, 0x61, 0x61, 0x61, 0x61, 0x61, 0x61, 0x61, 0x61, 0x61, 0x61, 0x61, 0x61, 0x61, 0x61, 0x61, 0x61, 0x61, 0x61, 0x61, 0x61, 0x61, 0x61, 0x61, 0x61, 0x61, 0x61, 0x61, 0x61, 0x61, 0x61, 0x61, 0x61, 0x61, 0x61, 0x61, 0x61, 0x61, 0x61, 0x61, 0x61, 0x61, 0x61, 0x61, 0x61, 0x61, 0x61, 0x61, 0x61, 0x61, 0x61, 0x61, 0x61, 0x61, 0x61, 0x61, 0x61, 0x61, 0x61, 0x61, 0x61, 0x61, 0x61, 0x61, 0x61, 0x61, 0x61, 0x61, 0x61, 0x61, 0x61, 0x61, 0x61, 0x61, 0x61, 0x61, 0x61, 0x61, 0x61, 0x61, 0x61]


/-! ### 1. keys strictly increasing, without repetition (full strength) -/

/-- Every accepted list is in strictly increasing key order (so no key repeats). -/
theorem keys_strictly_increasing {t : Bytes} {l : List Param} (h : fromText t = .ok l) :
    l.Pairwise fun x y => x.key < y.key :=
  fromText_keys_lt h

/-- …and that is what a reader of the wire bytes sees: the §2.2 framing of `toWire l` decodes, to
exactly the parameters of `l`, with strictly increasing keys. `Fits`: every value is shorter than
2^16 bytes (the length field is a `uint16` conversion in the code; longer values — a parameter
text of more than 12 KiB — are silently truncated and cannot be carried in an RDATA anyway). -/
theorem keys_strictly_increasing_wire {t : Bytes} {l : List Param} (h : fromText t = .ok l)
    (hf : Fits l) :
    ∃ kvs, decodeRaw (toWire l).length (toWire l) = some kvs ∧
      kvs = l.map (fun p => (p.key, p.value)) ∧ strictlyIncreasing (kvs.map (·.1)) = true := by
  have hks : KeysSmall l := by
    obtain ⟨ps, hp, _, hl⟩ := fromText_ok h
    intro p hp'
    rw [hl] at hp'
    obtain ⟨s, _, hs⟩ := (parseSegs_forall2 _ _ _ hp).of_right ((sortBy_perm _ _).mem_iff.mp hp')
    obtain ⟨n, v, _, hk, _⟩ := paramFromText_ok hs
    have := keyOfName_le hk
    omega
  refine ⟨_, decodeRaw_toWire l hf hks _ (toWire_length_ge l), rfl, ?_⟩
  apply strictlyIncreasing_of_pairwise
  rw [List.map_map]
  exact List.pairwise_map.mpr (fromText_keys_lt h)

/-! ### 2. an independent decoder recovers exactly the declared keys and values -/

/-- Full strength: whatever the code accepts is a valid declaration and the RFC 9460 reader
recovers it from the emitted bytes. -/
def decode_recovers_declared_full : Prop :=
  ∀ (t : Bytes) (l : List Param), fromText t = .ok l →
    ∃ d, declared t = some d ∧ decodeRFC (toWire l) = some d

/-- Proved part: for a text without parameters after an empty `;` segment (`NoDrop`) that is a
valid declaration (`declared t = some d`: in particular every alpn id has 1..255 octets) and whose
values fit the 16-bit length field, the RFC 9460 reader recovers exactly the declaration: keys
strictly increasing, every value in the wire form of its key, `mandatory` consistent. -/
theorem decode_recovers_declared_partial {t : Bytes} {l : List Param} {d : List Value}
    (h : fromText t = .ok l) (hn : NoDrop t) (hd : declared t = some d) (hf : Fits l) :
    decodeRFC (toWire l) = some d :=
  decode_recovers_declared' h hn hd hf

/-- Witness 1 (`;port=1`): accepted, the parameter after the empty segment is silently dropped —
the declaration is `port=1`, the wire data is empty. -/
theorem decode_recovers_declared_fails_dropped : ¬ decode_recovers_declared_full := by
  intro hfull
  obtain ⟨d, h1, h2⟩ := hfull wDropped [] (by decide +kernel)
  have e1 : declared wDropped = some [.port 1] := by decide +kernel
  have e2 : decodeRFC (toWire []) = some [] := by decide +kernel
  rw [e1] at h1; rw [e2] at h2
  have := (Option.some.inj h1).trans (Option.some.inj h2).symm
  simp at this

/-- Witness 2 (`alpn=h2||h3`): accepted although it declares an empty alpn id; the emitted value
`02 h2 00 02 h3` is not a well-formed alpn value (RFC 9460 §7.1.1) and `decodeRFC` rejects it. -/
theorem decode_recovers_declared_fails_alpn : ¬ decode_recovers_declared_full := by
  intro hfull
  have hacc : fromText wAlpnEmpty =
      .ok [⟨1, [0x02, 0x68, 0x32, 0x00, 0x02, 0x68, 0x33]⟩] := by decide +kernel
  obtain ⟨d, h1, _⟩ := hfull wAlpnEmpty _ hacc
  have e1 : declared wAlpnEmpty = none := by decide +kernel
  rw [e1] at h1
  simp at h1

/-- The same witness against the wire format alone: the bytes emitted for `alpn=h2||h3` are
malformed for an RFC 9460 reader. -/
theorem alpn_empty_id_wire_malformed :
    ∃ l, fromText wAlpnEmpty = .ok l ∧ decodeRFC (toWire l) = none :=
  ⟨[⟨1, [0x02, 0x68, 0x32, 0x00, 0x02, 0x68, 0x33]⟩], by decide +kernel, by decide +kernel⟩

/-- An alpn id of 256 bytes is accepted, its length byte wraps to 0, the value is malformed and
`ToText` indexes out of range (a panic in the real code). -/
theorem alpn_long_id_malformed_and_totext_panics :
    ∃ l, fromText wLong = .ok l ∧ decodeRFC (toWire l) = none ∧ toText l = .error .panic := by
  refine ⟨[⟨1, 0 :: List.replicate 256 0x61⟩], by decide +kernel, by decide +kernel, by decide +kernel⟩

/-! ### 3. `mandatory` naming a missing key, repeating a key or naming itself is rejected -/

/-- Full strength: in an accepted text *every* segment `mandatory=v` lists distinct names, not
`mandatory`, and only names of parameters present in the text. -/
def mandatory_rejects_full : Prop :=
  ∀ (t : Bytes) (l : List Param), fromText t = .ok l →
    ∀ seg ∈ splitOn 0x3b t, ∀ v, cut 0x3d seg = some (mandName, v) →
      (splitOn 0x7c (trimQuotes v)).Nodup ∧ mandName ∉ splitOn 0x7c (trimQuotes v) ∧
      ∀ n ∈ splitOn 0x7c (trimQuotes v), ∃ seg' ∈ splitOn 0x3b t, ∃ v', cut 0x3d seg' = some (n, v')

/-- Proved part (contrapositive form of "… is rejected"): the statement holds for the segments
before the first empty one (`liveSegs`), which are all segments when `NoDrop t`. -/
theorem mandatory_rejects_partial {t : Bytes} {l : List Param} (h : fromText t = .ok l) :
    ∀ seg ∈ liveSegs t, ∀ v, cut 0x3d seg = some (mandName, v) →
      (splitOn 0x7c (trimQuotes v)).Nodup ∧ mandName ∉ splitOn 0x7c (trimQuotes v) ∧
      ∀ n ∈ splitOn 0x7c (trimQuotes v), ∃ seg' ∈ liveSegs t, ∃ v', cut 0x3d seg' = some (n, v') :=
  mandatory_accepted h

/-- Witness (`;mandatory=mandatory`): accepted (as the empty list). -/
theorem mandatory_rejects_full_fails : ¬ mandatory_rejects_full := by
  intro hfull
  have h := hfull wMandDropped [] (by decide +kernel) wSegMand (by decide +kernel)
    [0x6d, 0x61, 0x6e, 0x64, 0x61, 0x74, 0x6f, 0x72, 0x79] (by decide +kernel)
  exact h.2.1 (by decide +kernel)

/-! ### 4. printing the stored parameters and parsing the text again gives the same wire data -/

def text_wire_idempotent_full : Prop :=
  ∀ (t : Bytes) (l : List Param), fromText t = .ok l →
    ∃ s, toText l = .ok s ∧ ∃ l', fromText s = .ok l' ∧ toWire l' = toWire l

/-- Witness (`ipv6hint=::ffff:1.2.3.4`): stored as the 16-byte IPv4-mapped address, printed by
`net.IP.String` as `1.2.3.4`, which `ipv6hintMarshaller` rejects (no colon). -/
theorem text_wire_idempotent_full_fails : ¬ text_wire_idempotent_full := by
  intro hfull
  have hacc : fromText wMapped =
      .ok [⟨6, [0, 0, 0, 0, 0, 0, 0, 0, 0, 0, 0xff, 0xff, 1, 2, 3, 4]⟩] := by decide +kernel
  obtain ⟨s, h1, l', h2, _⟩ := hfull wMapped _ hacc
  have e1 : toText [⟨6, [0, 0, 0, 0, 0, 0, 0, 0, 0, 0, 0xff, 0xff, 1, 2, 3, 4]⟩] =
      .ok [0x69, 0x70, 0x76, 0x36, 0x68, 0x69, 0x6e, 0x74, 0x3d, 0x22, 0x31, 0x2e, 0x32, 0x2e,
           0x33, 0x2e, 0x34, 0x22] := by decide +kernel
  rw [e1] at h1
  have hs := (Except.ok.inj h1).symm
  subst hs
  have e2 : fromText [0x69, 0x70, 0x76, 0x36, 0x68, 0x69, 0x6e, 0x74, 0x3d, 0x22, 0x31, 0x2e, 0x32,
      0x2e, 0x33, 0x2e, 0x34, 0x22] = .error .ip6NoColon := by decide +kernel
  rw [e2] at h2
  simp at h2

/-! ### non-vacuity: a text that satisfies every hypothesis above and exercises sorting, quotes,
the mandatory check, `::` expansion and a trailing `;` -/

def sampleList : List Param :=
  [⟨0, [0, 1, 0, 3]⟩, ⟨1, [2, 0x68, 0x32, 2, 0x68, 0x33]⟩, ⟨3, [1, 0xbb]⟩,
   ⟨6, [0x20, 0x01, 0x0d, 0xb8, 0, 0, 0, 0, 0, 0, 0, 0, 0, 0, 0, 1]⟩]

example : fromText sample = .ok sampleList := by decide +kernel
example : NoDrop sample := by unfold NoDrop; decide +kernel
example : declared sample = some [.mandatory [1, 3], .alpn [[0x68, 0x32], [0x68, 0x33]], .port 443,
    .ipv6hint [[0x20, 0x01, 0x0d, 0xb8, 0, 0, 0, 0, 0, 0, 0, 0, 0, 0, 0, 1]]] := by decide +kernel
example : Fits sampleList := by unfold Fits; decide +kernel
example : decodeRFC (toWire sampleList) = declared sample := by decide +kernel
/-- the idempotence statement does hold on the sample -/
example : (match toText sampleList with
    | .ok s => (match fromText s with | .ok l' => toWire l' == toWire sampleList | _ => false)
    | _ => false) = true := by decide +kernel
/-- and the rejections are real: missing key, repeated key, `mandatory` itself -/
example : fromText [0x6d, 0x61, 0x6e, 0x64, 0x61, 0x74, 0x6f, 0x72, 0x79, 0x3d, 0x70, 0x6f, 0x72, 0x74] =
    .error .mandMissing := by decide +kernel
example : fromText wSegMand = .error .mandSelf := by decide +kernel

end DnsVerif.Props.C18
