/-
C11 — Weighted address selection is bounded, sound and proportional.

Property theorems only; helper lemmas are in `Proofs/Wrs.lean` (order part) and `Proofs/WrsEs.lean`
(the integral). The model is `Model/Wrs.lean`, a transcription of `db/wrs.go`.

Keys are elements of an ARBITRARY linear order `κ` with a least element `zero`; no floats occur in
any statement. What connects this to the float keys of the Go code is (a) the code only compares
keys (`<`, `>`, `> 0.0`), (b) non-NaN floats are linearly ordered with `0.0` least among the keys
produced (all keys are `≥ 0`), (c) the correspondence run, which executes the same model with
`Float` keys against the real code.

`m : Int` is `MaxAnswers` (a Go `int`; nothing is ever kept for `m ≤ 0`), `m.toNat` the bound it
imposes. `runFam m cands` is one family's slice after `Add` has seen `cands` in this order.
`emit zero` is the final filter `Key > 0.0` of `Wrs.record` (the preceding `Shuffle` permutes the
result and is not modelled: all statements are about the multiset of served records).
-/
import DnsVerif.Proofs.Wrs
import DnsVerif.Proofs.WrsEs

namespace DnsVerif.Props.C11
open DnsVerif DnsVerif.Wrs

variable {κ α : Type} [LinearOrder κ]

/-! ## wrs_topk -/

/-- After any sequence of `Add`s the slice holds exactly `min(max, n)` of the candidates, each
candidate at most once (`kept ++ dropped` is a permutation of the candidates), and every candidate
that is not kept has a key `≤` every kept key: the kept keys are the `min(max, n)` largest keys of
the sequence as a multiset. -/
theorem wrs_topk (m : Int) (cands : List (Item κ α)) :
    ∃ dropped : List (Item κ α),
      (runFam m cands ++ dropped).Perm cands ∧
      (runFam m cands).length = min m.toNat cands.length ∧
      ∀ d ∈ dropped, ∀ k ∈ runFam m cands, d.key ≤ k.key :=
  runFam_inv m cands

/-- Ties, part 1 (both branches): when the slice is full, a newcomer whose key is `≤` every kept
key changes nothing — it displaces only a STRICTLY smaller key. (When it does displace, the slot
overwritten is the lowest-numbered slot holding the minimal kept key: `scanMin_spec`.) -/
theorem wrs_tie_newcomer_loses (m : Int) (kept : List (Item κ α)) (c : Item κ α)
    (hfull : m.toNat ≤ kept.length) (hne : kept ≠ []) (hc : ∀ k ∈ kept, c.key ≤ k.key) :
    addFam m kept c = kept :=
  addFam_tie m kept c hfull hne hc

/-- Ties, part 2 (`MaxAnswers = 1`, the default and the additional section): the record served is
the FIRST candidate that carries the maximal key: everything before it is strictly smaller,
everything after it is `≤`. -/
theorem wrs_single_first_max (cands : List (Item κ α)) (hne : cands ≠ []) :
    ∃ pre y post, runFam 1 cands = [y] ∧ cands = pre ++ y :: post ∧
      (∀ p ∈ pre, p.key < y.key) ∧ ∀ q ∈ post, q.key ≤ y.key := by
  rcases single_first_max_rev cands.reverse with ⟨h, _⟩ | h
  · exact absurd (by simpa using h) hne
  · simpa using h

/-! ## wrs_sound -/

/-- The served records are a sub-multiset of the candidates: every served item is one of the added
candidates and no candidate is served twice. -/
theorem wrs_sound (zero : κ) (m : Int) (cands : List (Item κ α)) :
    ∃ rest : List (Item κ α), (emit zero (runFam m cands) ++ rest).Perm cands := by
  obtain ⟨dropped, hp, _, _⟩ := runFam_inv m cands
  refine ⟨(runFam m cands).filter (fun it => !decide (zero < it.key)) ++ dropped, ?_⟩
  rw [← List.append_assoc]
  exact ((List.filter_append_perm _ _).append_right dropped).trans hp

theorem wrs_sound_mem (zero : κ) (m : Int) (cands : List (Item κ α)) :
    ∀ it ∈ emit zero (runFam m cands), it ∈ cands := by
  obtain ⟨rest, hp⟩ := wrs_sound zero m cands
  intro it hit
  exact hp.mem_iff.1 (List.mem_append_left _ hit)

/-! ## wrs_count -/

/-- If, for the candidates at hand, the key is `zero` exactly for weight 0 (true of the Go key
`u^(1/w)` for every draw `0 < u < 2^32-1`; see `count_full_fails` for the two excluded draws),
the answer holds exactly `min(max, #positive-weight candidates)` records, none of weight 0. -/
theorem wrs_count (zero : κ) (hz : ∀ k : κ, zero ≤ k) (weight : α → Nat) (m : Int)
    (cands : List (Item κ α)) (hw : ∀ c ∈ cands, c.key = zero ↔ weight c.val = 0) :
    (emit zero (runFam m cands)).length
        = min m.toNat (cands.filter (fun c => decide (weight c.val ≠ 0))).length ∧
    ∀ it ∈ emit zero (runFam m cands), weight it.val ≠ 0 := by
  have hpos : ∀ c ∈ cands, (zero < c.key ↔ weight c.val ≠ 0) := by
    intro c hc
    constructor
    · intro h h0
      exact absurd ((hw c hc).2 h0) (ne_of_lt h).symm
    · intro h
      exact lt_of_le_of_ne (hz _) (fun e => h ((hw c hc).1 e.symm))
  have hcongr : emit zero cands = cands.filter (fun c => decide (weight c.val ≠ 0)) := by
    unfold emit
    apply List.filter_congr
    intro c hc
    exact decide_eq_decide.2 (hpos c hc)
  constructor
  · rw [emit_length (runFam_inv m cands) zero, hcongr]
  · intro it hit
    have hmem := wrs_sound_mem zero m cands it hit
    have : zero < it.key := of_decide_eq_true (List.mem_filter.1 hit).2
    exact (hpos it hmem).1 this

/-- at most `max` records whatever the keys are -/
theorem wrs_bounded (zero : κ) (m : Int) (cands : List (Item κ α)) :
    (emit zero (runFam m cands)).length ≤ m.toNat := by
  rw [emit_length (runFam_inv m cands) zero]
  exact Nat.min_le_left _ _

/-! ## zero_weight_only -/

/-- Only weight-0 candidates: nothing is served, although candidates were seen. -/
theorem zero_weight_only (zero : κ) (hz : ∀ k : κ, zero ≤ k) (weight : α → Nat) (m : Int)
    (cands : List (Item κ α)) (hw : ∀ c ∈ cands, c.key = zero ↔ weight c.val = 0)
    (h0 : ∀ c ∈ cands, weight c.val = 0) :
    emit zero (runFam m cands) = [] := by
  have := (wrs_count zero hz weight m cands hw).1
  have hnil : cands.filter (fun c => decide (weight c.val ≠ 0)) = [] := by
    rw [List.filter_eq_nil_iff]
    intro c hc
    simp [h0 c hc]
  rw [hnil] at this
  exact List.eq_nil_of_length_eq_zero (by simpa using this)

/-! ## the `Wrs` value as the callers use it (both families, counters, `WeightedAnswer`) -/

/-- `FindAnswer` / `AdditionalSectionForRecords`: after the loop over the rows, `ARecord` serves
from the A candidates and `AAAARecord` from the AAAA candidates, independently, every other type
being rejected by `Add` without effect; per family the count is `min(max, #positive weight)`, no
weight-0 record is served, the served records are a sub-multiset of that family's candidates. -/
theorem answer_spec (zero : κ) (hz : ∀ k : κ, zero ≤ k) (weight : α → Nat) (m : Int)
    (cands : List (Cand κ α)) (hw : ∀ c ∈ cands, c.item.key = zero ↔ weight c.item.val = 0) :
    let A := candsOf typeA cands
    let B := candsOf typeAAAA cands
    let w := run m cands
    ((w.aRecord zero).length = min m.toNat (A.filter (fun c => decide (weight c.val ≠ 0))).length ∧
     (∀ it ∈ w.aRecord zero, weight it.val ≠ 0) ∧
     (∃ rest, (w.aRecord zero ++ rest).Perm A)) ∧
    ((w.aaaaRecord zero).length = min m.toNat (B.filter (fun c => decide (weight c.val ≠ 0))).length ∧
     (∀ it ∈ w.aaaaRecord zero, weight it.val ≠ 0) ∧
     (∃ rest, (w.aaaaRecord zero ++ rest).Perm B)) := by
  intro A B w
  obtain ⟨h4, h6, _, _⟩ := run_spec m cands
  have hwA : ∀ t, ∀ c ∈ candsOf t cands, c.key = zero ↔ weight c.val = 0 := by
    intro t c hc
    obtain ⟨c', hc', rfl⟩ := List.mem_map.1 hc
    exact hw c' (List.mem_filter.1 hc').1
  constructor
  · show (emit zero w.v4).length = _ ∧ (∀ it ∈ emit zero w.v4, _) ∧ ∃ rest, (emit zero w.v4 ++ rest).Perm A
    rw [show w.v4 = runFam m A from h4]
    exact ⟨(wrs_count zero hz weight m A (hwA _)).1, (wrs_count zero hz weight m A (hwA _)).2,
      wrs_sound zero m A⟩
  · show (emit zero w.v6).length = _ ∧ (∀ it ∈ emit zero w.v6, _) ∧ ∃ rest, (emit zero w.v6 ++ rest).Perm B
    rw [show w.v6 = runFam m B from h6]
    exact ⟨(wrs_count zero hz weight m B (hwA _)).1, (wrs_count zero hz weight m B (hwA _)).2,
      wrs_sound zero m B⟩

/-- `zero_weight_only` for the caller: if every address candidate has weight 0 the answer section
gets no address, yet the counter shows that candidates were seen — in `FindAnswer` the flag
`recordFound` is set before `Add` for every row that parses, so the reply is NOERROR/NODATA
(name exists), not NXDOMAIN. -/
theorem zero_weight_name_exists (zero : κ) (hz : ∀ k : κ, zero ≤ k) (weight : α → Nat) (m : Int)
    (cands : List (Cand κ α)) (hw : ∀ c ∈ cands, c.item.key = zero ↔ weight c.item.val = 0)
    (h0 : ∀ c ∈ cands, weight c.item.val = 0)
    (hn : 0 < (candsOf typeA cands).length) (hlt : (candsOf typeA cands).length < 4294967296) :
    (run m cands).aRecord zero = [] ∧ (run m cands).aaaaRecord zero = [] ∧
    0 < (run m cands).v4Count := by
  obtain ⟨h4, h6, c4, _⟩ := run_spec m cands
  have hwA : ∀ t, ∀ c ∈ candsOf t cands, c.key = zero ↔ weight c.val = 0 := by
    intro t c hc
    obtain ⟨c', hc', rfl⟩ := List.mem_map.1 hc
    exact hw c' (List.mem_filter.1 hc').1
  have h0A : ∀ t, ∀ c ∈ candsOf t cands, weight c.val = 0 := by
    intro t c hc
    obtain ⟨c', hc', rfl⟩ := List.mem_map.1 hc
    exact h0 c' (List.mem_filter.1 hc').1
  refine ⟨?_, ?_, ?_⟩
  · show emit zero (run m cands).v4 = []
    rw [h4]; exact zero_weight_only zero hz weight m _ (hwA _) (h0A _)
  · show emit zero (run m cands).v6 = []
    rw [h6]; exact zero_weight_only zero hz weight m _ (hwA _) (h0A _)
  · rw [c4, Nat.mod_eq_of_lt hlt]; exact hn

/-- `WeightedAnswer` is true iff some family saw more than one candidate (of any weight). -/
theorem weighted_flag (m : Int) (cands : List (Cand κ α))
    (h4 : (candsOf typeA cands).length < 4294967296)
    (h6 : (candsOf typeAAAA cands).length < 4294967296) :
    (run m cands).weightedAnswer = true ↔
      1 < (candsOf typeA cands).length ∨ 1 < (candsOf typeAAAA cands).length := by
  obtain ⟨_, _, c4, c6⟩ := run_spec m cands
  unfold State.weightedAnswer
  rw [c4, c6, Nat.mod_eq_of_lt h4, Nat.mod_eq_of_lt h6]
  simp

/-- Additional section (`Wrs{MaxAnswers: 1}` per NS/MX target): at most one address per family. -/
theorem additional_max_one (zero : κ) (cands : List (Cand κ α)) :
    ((run 1 cands).aRecord zero).length ≤ 1 ∧ ((run 1 cands).aaaaRecord zero).length ≤ 1 := by
  obtain ⟨h4, h6, _, _⟩ := run_spec (1 : Int) cands
  constructor
  · show (emit zero (run 1 cands).v4).length ≤ 1
    rw [h4]; exact wrs_bounded zero 1 _
  · show (emit zero (run 1 cands).v6).length ≤ 1
    rw [h6]; exact wrs_bounded zero 1 _

/-! ## the two extreme draws: the full-strength count statement fails for the Go key function -/

/-- candidates given as (weight, 32-bit draw), keys computed by `key weight draw` -/
def mkCands (key : Nat → Nat → κ) (ws : List (Nat × Nat)) : List (Item κ (Nat × Nat)) :=
  ws.map fun p => ⟨key p.1 p.2, p⟩

/-- full strength: for EVERY weight and every 32-bit draw the count is `min(max, #positive)` and
no weight-0 record is served -/
def count_full (key : Nat → Nat → κ) (zero : κ) : Prop :=
  ∀ (m : Int) (ws : List (Nat × Nat)), (∀ p ∈ ws, p.2 < 4294967296) →
    (emit zero (runFam m (mkCands key ws))).length
        = min m.toNat (ws.filter (fun p => decide (p.1 ≠ 0))).length ∧
    ∀ it ∈ emit zero (runFam m (mkCands key ws)), it.val.1 ≠ 0

/-- What `math.Pow(float64(u)*float64(1.0/math.MaxUint32), 1.0/float64(w))` does at the extreme
draws (IEEE special cases of `Pow`, and `fl(4294967295 · fl(1/4294967295)) = 1.0`); validated
against the real code by the `wrsedge` correspondence cases:
`Pow(0, 1/w) = 0` for `w > 0`;  `Pow(1, +Inf) = 1 > 0` for `w = 0`. -/
structure PowEdge (key : Nat → Nat → κ) (zero : κ) : Prop where
  draw0 : ∀ w, 0 < w → key w 0 = zero
  drawMax : zero < key 0 4294967295

/-- witness 1: a single candidate of weight 5 with draw 0 gets key 0 and is not served
(`wrsedge 1 5:0:4` → empty answer, NODATA for a name that has an address) -/
theorem count_full_fails (key : Nat → Nat → κ) (zero : κ) (h : PowEdge key zero) :
    ¬ count_full key zero := by
  intro hf
  have := (hf 1 [(5, 0)] (by simp)).1
  simp [mkCands, runFam, addFam, checkAndReplace, emit, h.draw0 5 (by decide)] at this

/-- witness 2: a weight-0 candidate with draw 2^32-1 gets the largest possible key and IS served
(`wrsedge 1 0:4294967295:4`) -/
theorem weight0_served (key : Nat → Nat → κ) (zero : κ) (h : PowEdge key zero) :
    ∃ it ∈ emit zero (runFam 1 (mkCands key [(0, 4294967295)])), it.val.1 = 0 := by
  refine ⟨⟨key 0 4294967295, (0, 4294967295)⟩, ?_, rfl⟩
  simp [mkCands, runFam, addFam, checkAndReplace, emit, h.drawMax]

/-- the partial statement that does hold: away from the draws where the key function breaks
`key = zero ↔ weight = 0` -/
theorem count_partial (key : Nat → Nat → κ) (zero : κ) (hz : ∀ k : κ, zero ≤ k) (m : Int)
    (ws : List (Nat × Nat)) (hk : ∀ p ∈ ws, key p.1 p.2 = zero ↔ p.1 = 0) :
    (emit zero (runFam m (mkCands key ws))).length
        = min m.toNat (ws.filter (fun p => decide (p.1 ≠ 0))).length ∧
    ∀ it ∈ emit zero (runFam m (mkCands key ws)), it.val.1 ≠ 0 := by
  have h := wrs_count zero hz (fun p : Nat × Nat => p.1) m (mkCands key ws) (by
    intro c hc
    obtain ⟨p, hp, rfl⟩ := List.mem_map.1 hc
    exact hk p hp)
  refine ⟨?_, h.2⟩
  rw [h.1]
  congr 1
  unfold mkCands
  rw [List.filter_map, List.length_map]
  rfl

/-! ## es_single_winner -/

/-- Efraimidis–Spirakis: with keys `u^(1/a)` and `v^(1/b)` (`u, v` independent uniform on `[0,1]`)
the first candidate wins with probability `∫₀¹ u^(b/a) du = a/(a+b)`; with `b` the total weight of
the other candidates this is proportionality for a single slot. (The integral is proved; its
probabilistic reading is the standard argument, not formalised. The real generator's
proportionality is TESTED by the `wrsstat` op.) -/
theorem es_single_winner (a b : ℝ) (ha : 0 < a) (hb : 0 < b) :
    ∫ x in (0:ℝ)..1, x ^ (b / a) = a / (a + b) :=
  es_integral a b ha hb

/-! ## non-vacuity -/

/-- keys in `Nat` (zero least): 3 slots, 5 candidates, one of weight 0 -/
example : (emit 0 (runFam 3 [⟨5, 'a'⟩, ⟨0, 'z'⟩, ⟨7, 'b'⟩, ⟨5, 'c'⟩, ⟨9, 'd'⟩])).map (·.val)
    = ['d', 'c', 'b'] := by decide
/-- the hypotheses of `wrs_count` are satisfiable with a non-trivial candidate list -/
example : (emit 0 (runFam 2 [(⟨0, 0⟩ : Item Nat Nat), ⟨4, 4⟩, ⟨2, 2⟩, ⟨9, 9⟩])).length = 2 :=
  (wrs_count (κ := Nat) 0 Nat.zero_le id 2 _ (by simp)).1
/-- `PowEdge` is satisfiable (so `count_full_fails` is not vacuous) -/
example : PowEdge (κ := Nat) (fun w u => if u = 0 then 0 else if u = 4294967295 then 2 else
    if w = 0 then 0 else 1) 0 := ⟨by simp, by simp⟩
/-- only weight-0 candidates, two of them: empty answer, `WeightedAnswer` true, counter 2 -/
example : let w := run (κ := Nat) (α := Nat) 1 [⟨typeA, ⟨0, 0⟩⟩, ⟨typeA, ⟨0, 0⟩⟩, ⟨16, ⟨3, 3⟩⟩]
    (w.aRecord 0 = [] ∧ w.v4Count = 2 ∧ w.weightedAnswer = true) := by decide

end DnsVerif.Props.C11
