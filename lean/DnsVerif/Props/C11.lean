/-
C11 — Weighted address selection is bounded, sound and proportional.

Property theorems only; helper lemmas are in `Proofs/Wrs.lean` (order part) and `Proofs/WrsEs.lean`
(the integral). The model is `Model/Wrs.lean`, a transcription of `db/wrs.go`.

Keys are elements of an ARBITRARY linear order `κ`; no floats occur in any statement and NO
statement has a hypothesis about the keys: whatever `math.Pow` returns for a draw, the count and the
weight-0 exclusion hold. What connects this to the float keys of the Go code is (a) the code only
compares keys (`<`, `>`), (b) non-NaN floats are linearly ordered, (c) the correspondence run,
which executes the same model with `Float` keys against the real code.

`m : Int` is `MaxAnswers` (a Go `int`; nothing is ever kept for `m ≤ 0`), `m.toNat` the bound it
imposes. `runFam m cands` is one family's slice after `Add` has sampled the positive-weight
candidates `cands` in this order; `run m cands` is the whole `Wrs` value after the callers' loop over
candidates of any type and weight. `ARecord`/`AAAARecord` serve every item of the slice (the
preceding `Shuffle` permutes the result and is not modelled: all statements are about the multiset
of served records).

Since commit 6ed8b65 of /repo (`fix: weighted selection never serves weight 0 and never drops a
positive weight`) a weight-0 record is counted but not sampled and every sampled item is served;
before it, weight 0 was excluded only through its key `Pow(u, +Inf)` and the filter `Key > 0.0`,
and `count_full` was false at the draws `u = 0` and `u = 2^32-1` (see its docstring).
-/
import DnsVerif.Proofs.Wrs
import DnsVerif.Proofs.WrsEs

namespace DnsVerif.Props.C11
open DnsVerif DnsVerif.Wrs

variable {κ α : Type} [LinearOrder κ]

/-! ## wrs_topk -/

/-- After any sequence of `Add`s the slice holds exactly `min(max, n)` of the candidates, each
candidate at most once (`kept ++ dropped` is a permutation of the candidates), and every candidate
that is not kept has a key `≤` every kept key: the kept keys are the `min(max, n)` largest keys of
the sequence as a multiset. -/
theorem wrs_topk (m : Int) (cands : List (Item κ α)) :
    ∃ dropped : List (Item κ α),
      (runFam m cands ++ dropped).Perm cands ∧
      (runFam m cands).length = min m.toNat cands.length ∧
      ∀ d ∈ dropped, ∀ k ∈ runFam m cands, d.key ≤ k.key :=
  runFam_inv m cands

/-- Ties, part 1 (both branches): when the slice is full, a newcomer whose key is `≤` every kept
key changes nothing — it displaces only a STRICTLY smaller key. (When it does displace, the slot
overwritten is the lowest-numbered slot holding the minimal kept key: `scanMin_spec`.) -/
theorem wrs_tie_newcomer_loses (m : Int) (kept : List (Item κ α)) (c : Item κ α)
    (hfull : m.toNat ≤ kept.length) (hne : kept ≠ []) (hc : ∀ k ∈ kept, c.key ≤ k.key) :
    addFam m kept c = kept :=
  addFam_tie m kept c hfull hne hc

/-- Ties, part 2 (`MaxAnswers = 1`, the default and the additional section): the record served is
the FIRST candidate that carries the maximal key: everything before it is strictly smaller,
everything after it is `≤`. -/
theorem wrs_single_first_max (cands : List (Item κ α)) (hne : cands ≠ []) :
    ∃ pre y post, runFam 1 cands = [y] ∧ cands = pre ++ y :: post ∧
      (∀ p ∈ pre, p.key < y.key) ∧ ∀ q ∈ post, q.key ≤ y.key := by
  rcases single_first_max_rev cands.reverse with ⟨h, _⟩ | h
  · exact absurd (by simpa using h) hne
  · simpa using h

/-! ## wrs_sound -/

/-- One family's slice is a sub-multiset of the sampled candidates: every kept (= served) item is
one of the added candidates and no candidate is served twice. -/
theorem wrs_sound (m : Int) (cands : List (Item κ α)) :
    ∃ rest : List (Item κ α), (runFam m cands ++ rest).Perm cands := by
  obtain ⟨dropped, hp, _, _⟩ := runFam_inv m cands
  exact ⟨dropped, hp⟩

theorem wrs_sound_mem (m : Int) (cands : List (Item κ α)) :
    ∀ it ∈ runFam m cands, it ∈ cands := by
  obtain ⟨rest, hp⟩ := wrs_sound m cands
  intro it hit
  exact hp.mem_iff.1 (List.mem_append_left _ hit)

/-- at most `max` records whatever the keys are -/
theorem wrs_bounded (m : Int) (cands : List (Item κ α)) :
    (runFam m cands).length ≤ m.toNat := by
  rw [(runFam_inv m cands).choose_spec.2.1]
  exact Nat.min_le_left _ _

/-! ## wrs_count -/

/-- the candidates of record type `t` with a positive weight, in arrival order -/
def positives (t : Nat) (cands : List (Cand κ α)) : List (Cand κ α) :=
  (seenOf t cands).filter (fun c => decide (c.weight ≠ 0))

omit [LinearOrder κ] in
theorem mem_positives {t : Nat} {cands : List (Cand κ α)} {c : Cand κ α} :
    c ∈ positives t cands ↔ c ∈ cands ∧ c.qtype = t ∧ c.weight ≠ 0 := by
  simp only [positives, seenOf, List.mem_filter, decide_eq_true_eq]
  tauto

/-- what one family serves, for ANY keys: exactly `min(max, #positive-weight candidates)` records,
each of them the item of a positive-weight candidate of that family, no candidate twice -/
theorem fam_count (t : Nat) (m : Int) (cands : List (Cand κ α)) :
    (runFam m (candsOf t cands)).length = min m.toNat (positives t cands).length ∧
    (∀ it ∈ runFam m (candsOf t cands), ∃ c ∈ cands, c.qtype = t ∧ c.weight ≠ 0 ∧ c.item = it) ∧
    ∃ rest, (runFam m (candsOf t cands) ++ rest).Perm ((positives t cands).map (·.item)) := by
  refine ⟨?_, ?_, wrs_sound m _⟩
  · rw [(runFam_inv m _).choose_spec.2.1]
    simp [candsOf, positives]
  · intro it hit
    have hmem := wrs_sound_mem m _ it hit
    obtain ⟨c, hc, rfl⟩ := List.mem_map.1 hmem
    obtain ⟨h1, h2, h3⟩ := mem_positives.1 hc
    exact ⟨c, h1, h2, h3, rfl⟩

/-- FULL STRENGTH, no hypothesis on keys, draws or weights: after the callers' loop over candidates
of any type and weight (in any order), `ARecord` holds exactly `min(max, #A candidates of positive
weight)` records, each the item of an A candidate of positive weight; the same for `AAAARecord`. -/
theorem wrs_count (m : Int) (cands : List (Cand κ α)) :
    (((run m cands).aRecord).length = min m.toNat (positives typeA cands).length ∧
     ∀ it ∈ (run m cands).aRecord, ∃ c ∈ cands, c.qtype = typeA ∧ c.weight ≠ 0 ∧ c.item = it) ∧
    (((run m cands).aaaaRecord).length = min m.toNat (positives typeAAAA cands).length ∧
     ∀ it ∈ (run m cands).aaaaRecord, ∃ c ∈ cands, c.qtype = typeAAAA ∧ c.weight ≠ 0 ∧ c.item = it) := by
  obtain ⟨h4, h6, _, _⟩ := run_spec m cands
  constructor
  · show (run m cands).v4.length = _ ∧ ∀ it ∈ (run m cands).v4, _
    rw [h4]
    exact ⟨(fam_count typeA m cands).1, (fam_count typeA m cands).2.1⟩
  · show (run m cands).v6.length = _ ∧ ∀ it ∈ (run m cands).v6, _
    rw [h6]
    exact ⟨(fam_count typeAAAA m cands).1, (fam_count typeAAAA m cands).2.1⟩

/-- "An address with weight 0 is never served": if the weight is a function of the payload (in the
Go code the payload is the row, which contains the weight), no served payload has weight 0. -/
theorem weight0_never_served (weight : α → Nat) (m : Int) (cands : List (Cand κ α))
    (hw : ∀ c ∈ cands, c.weight = weight c.item.val) :
    (∀ it ∈ (run m cands).aRecord, weight it.val ≠ 0) ∧
    (∀ it ∈ (run m cands).aaaaRecord, weight it.val ≠ 0) := by
  obtain ⟨⟨_, hA⟩, ⟨_, hB⟩⟩ := wrs_count m cands
  constructor
  · intro it hit
    obtain ⟨c, hc, _, h0, rfl⟩ := hA it hit
    rw [← hw c hc]; exact h0
  · intro it hit
    obtain ⟨c, hc, _, h0, rfl⟩ := hB it hit
    rw [← hw c hc]; exact h0

/-! ## the `Wrs` value as the callers use it (both families, counters, `WeightedAnswer`) -/

/-- `FindAnswer` / `AdditionalSectionForRecords`: after the loop over the rows, `ARecord` serves
from the A candidates and `AAAARecord` from the AAAA candidates, independently, every other type
being rejected by `Add` without effect; per family the count is `min(max, #positive weight)`, the
served records are a sub-multiset of that family's positive-weight candidates (so no weight-0
record is served and none twice). No hypothesis on the keys. -/
theorem answer_spec (m : Int) (cands : List (Cand κ α)) :
    let w := run m cands
    ((w.aRecord).length = min m.toNat (positives typeA cands).length ∧
     (∃ rest, (w.aRecord ++ rest).Perm ((positives typeA cands).map (·.item)))) ∧
    ((w.aaaaRecord).length = min m.toNat (positives typeAAAA cands).length ∧
     (∃ rest, (w.aaaaRecord ++ rest).Perm ((positives typeAAAA cands).map (·.item)))) := by
  intro w
  obtain ⟨h4, h6, _, _⟩ := run_spec m cands
  constructor
  · show w.v4.length = _ ∧ ∃ rest, (w.v4 ++ rest).Perm _
    rw [show w.v4 = runFam m (candsOf typeA cands) from h4]
    exact ⟨(fam_count typeA m cands).1, (fam_count typeA m cands).2.2⟩
  · show w.v6.length = _ ∧ ∃ rest, (w.v6 ++ rest).Perm _
    rw [show w.v6 = runFam m (candsOf typeAAAA cands) from h6]
    exact ⟨(fam_count typeAAAA m cands).1, (fam_count typeAAAA m cands).2.2⟩

/-! ## zero_weight_only -/

/-- Only weight-0 candidates: nothing is served, whatever was drawn. -/
theorem zero_weight_only (m : Int) (cands : List (Cand κ α)) (h0 : ∀ c ∈ cands, c.weight = 0) :
    (run m cands).aRecord = [] ∧ (run m cands).aaaaRecord = [] := by
  obtain ⟨⟨hA, _⟩, ⟨hB, _⟩⟩ := wrs_count m cands
  have hnil : ∀ t, positives t cands = [] := by
    intro t
    rw [positives, List.filter_eq_nil_iff]
    intro c hc
    have := h0 c (List.mem_filter.1 hc).1
    simp [this]
  rw [hnil] at hA hB
  exact ⟨List.eq_nil_of_length_eq_zero (by simpa using hA),
    List.eq_nil_of_length_eq_zero (by simpa using hB)⟩

/-- `zero_weight_only` for the caller: if every address candidate has weight 0 the answer section
gets no address, yet the counter shows that candidates were seen — in `FindAnswer` the flag
`recordFound` is set before `Add` for every row that parses, so the reply is NOERROR/NODATA
(name exists), not NXDOMAIN. -/
theorem zero_weight_name_exists (m : Int) (cands : List (Cand κ α))
    (h0 : ∀ c ∈ cands, c.weight = 0)
    (hn : 0 < (seenOf typeA cands).length) (hlt : (seenOf typeA cands).length < 4294967296) :
    (run m cands).aRecord = [] ∧ (run m cands).aaaaRecord = [] ∧
    0 < (run m cands).v4Count := by
  obtain ⟨_, _, c4, _⟩ := run_spec m cands
  obtain ⟨hA, hB⟩ := zero_weight_only m cands h0
  refine ⟨hA, hB, ?_⟩
  rw [c4, Nat.mod_eq_of_lt hlt]; exact hn

/-- `WeightedAnswer` is true iff some family saw more than one candidate (of any weight). -/
theorem weighted_flag (m : Int) (cands : List (Cand κ α))
    (h4 : (seenOf typeA cands).length < 4294967296)
    (h6 : (seenOf typeAAAA cands).length < 4294967296) :
    (run m cands).weightedAnswer = true ↔
      1 < (seenOf typeA cands).length ∨ 1 < (seenOf typeAAAA cands).length := by
  obtain ⟨_, _, c4, c6⟩ := run_spec m cands
  unfold State.weightedAnswer
  rw [c4, c6, Nat.mod_eq_of_lt h4, Nat.mod_eq_of_lt h6]
  simp

/-- Additional section (`Wrs{MaxAnswers: 1}` per NS/MX target): at most one address per family. -/
theorem additional_max_one (cands : List (Cand κ α)) :
    ((run 1 cands).aRecord).length ≤ 1 ∧ ((run 1 cands).aaaaRecord).length ≤ 1 := by
  obtain ⟨h4, h6, _, _⟩ := run_spec (1 : Int) cands
  constructor
  · show (run 1 cands).v4.length ≤ 1
    rw [h4]; exact wrs_bounded 1 _
  · show (run 1 cands).v6.length ≤ 1
    rw [h6]; exact wrs_bounded 1 _

/-! ## every weight, every draw, every key function -/

/-- A candidates given as (weight, 32-bit draw), keys computed by `key weight draw` -/
def mkCands (key : Nat → Nat → κ) (ws : List (Nat × Nat)) : List (Cand κ (Nat × Nat)) :=
  ws.map fun p => ⟨typeA, p.1, ⟨key p.1 p.2, p⟩⟩

/-- Full strength: for EVERY key function (in particular whatever `math.Pow` returns at the extreme
draws), every weight (0 and 2^32-1 included) and every draw (0 and 2^32-1 included) the count is
`min(max, #positive)` and no weight-0 record is served.

Before commit 6ed8b65 false for the Go key `Pow(u/(2^32-1), 1/w)`, which has `key w 0 = 0` for
`w > 0` and `key 0 (2^32-1) = Pow(1, +Inf) = 1`:
`wrs 1 5:0:4` served nothing (NODATA for a name that has an address);
`wrs 1 0:4294967295:4` and `wrs 1 1000:4000000000:4;0:4294967295:4` served the weight-0 address.
(Then proved as `count_full_fails`; `wrs_count` carried the hypothesis `key = zero ↔ weight = 0`.) -/
theorem count_full (key : Nat → Nat → κ) (m : Int) (ws : List (Nat × Nat)) :
    ((run m (mkCands key ws)).aRecord).length
        = min m.toNat (ws.filter (fun p => decide (p.1 ≠ 0))).length ∧
    ∀ it ∈ (run m (mkCands key ws)).aRecord, it.val.1 ≠ 0 := by
  obtain ⟨⟨hl, hm⟩, _⟩ := wrs_count m (mkCands key ws)
  constructor
  · rw [hl]
    congr 1
    simp only [positives, seenOf, mkCands, List.filter_map, List.length_map, List.filter_filter]
    congr 1
    apply List.filter_congr
    intro p _
    simp [Function.comp]
  · intro it hit
    obtain ⟨c, hc, _, h0, rfl⟩ := hm it hit
    obtain ⟨p, _, rfl⟩ := List.mem_map.1 hc
    exact h0

/-! ## es_single_winner -/

/-- Efraimidis–Spirakis: with keys `u^(1/a)` and `v^(1/b)` (`u, v` independent uniform on `[0,1]`)
the first candidate wins with probability `∫₀¹ u^(b/a) du = a/(a+b)`; with `b` the total weight of
the other candidates this is proportionality for a single slot. (The integral is proved; its
probabilistic reading is the standard argument, not formalised. The real generator's
proportionality is TESTED by the `wrsstat` op.) -/
theorem es_single_winner (a b : ℝ) (ha : 0 < a) (hb : 0 < b) :
    ∫ x in (0:ℝ)..1, x ^ (b / a) = a / (a + b) :=
  es_integral a b ha hb

/-! ## non-vacuity -/

/-- keys in `Nat`: 3 slots, 5 sampled candidates -/
example : (runFam 3 [⟨5, 'a'⟩, ⟨0, 'z'⟩, ⟨7, 'b'⟩, ⟨5, 'c'⟩, ⟨9, 'd'⟩]).map (·.val)
    = ['d', 'c', 'b'] := by decide
/-- a non-trivial candidate list: one weight-0 A candidate (carrying the LARGEST key), three
positive ones, an AAAA candidate and an unsupported type; 2 slots -/
example : ((run (κ := Nat) (α := Nat) 2 [⟨typeA, 0, ⟨99, 0⟩⟩, ⟨typeA, 4, ⟨4, 1⟩⟩, ⟨typeA, 2, ⟨2, 2⟩⟩,
    ⟨typeAAAA, 1, ⟨0, 3⟩⟩, ⟨16, 1, ⟨50, 4⟩⟩, ⟨typeA, 9, ⟨9, 5⟩⟩]).aRecord).map (·.val) = [1, 5] := by
  decide
/-- the old key function at the extreme draws (`key w 0 = 0` for `w > 0`, `key 0 (2^32-1)` maximal):
the former witnesses now behave as the property demands -/
def edgeKey (w u : Nat) : Nat :=
  if u = 0 then 0 else if u = 4294967295 then 2 else if w = 0 then 0 else 1
/-- `wrs 1 5:0:4`: the only address is served although its key is 0 -/
example : ((run 1 (mkCands edgeKey [(5, 0)])).aRecord).map (·.val) = [(5, 0)] := by decide
/-- `wrs 1 0:4294967295:4`: the weight-0 address is not served -/
example : (run 1 (mkCands edgeKey [(0, 4294967295)])).aRecord = [] := by decide
/-- `wrs 1 1000:4000000000:4;0:4294967295:4`: the positive-weight address wins -/
example : ((run 1 (mkCands edgeKey [(1000, 4000000000), (0, 4294967295)])).aRecord).map (·.val)
    = [(1000, 4000000000)] := by decide
/-- only weight-0 candidates, two of them: empty answer, `WeightedAnswer` true, counter 2 -/
example : let w := run (κ := Nat) (α := Nat) 1 [⟨typeA, 0, ⟨7, 0⟩⟩, ⟨typeA, 0, ⟨8, 0⟩⟩, ⟨16, 1, ⟨3, 3⟩⟩]
    (w.aRecord = [] ∧ w.v4Count = 2 ∧ w.weightedAnswer = true) := by decide

end DnsVerif.Props.C11
