/-
C02 — Storage backend and key layout never change an answer (the v2 "closest key" searches are
observationally identical to the label-by-label searches).

Property theorems only; helper lemmas are in `Proofs/RevOrder.lean`.
Names are label lists; `enc ls = Name.pack ls` is the wire form of the REVERSED label list `ls`
and `Key ls loc = marker ++ enc ls ++ loc` a resource-record key of the v2 layout.
-/
import DnsVerif.Proofs.RevOrder
import DnsVerif.Proofs.ServeV2
import DnsVerif.Proofs.CtxCache

namespace DnsVerif.Props.C02
open DnsVerif DnsVerif.Rdb DnsVerif.Name DnsVerif.RevOrder DnsVerif.Serve DnsVerif.ServeV2

/-! ### 1. order lemmas for v2 keys -/

/-- (O1) an ancestor's key is below every key of a descendant, whatever the two locations -/
theorem O1_ancestor_below {a n : List Bytes} (hn : NameOK n) (h : a <+: n) (hne : a ≠ n) (l l' : Bytes) :
    bytesLt (Key a l') (Key n l) = true := by
  obtain ⟨x, t, rfl⟩ := proper_prefix_of h hne
  exact key_lt_of_proper_prefix _ a x t hn.of_append_right.head l l'

/-- (O2) keys of one name are ordered like their locations -/
theorem O2_same_name (n : List Bytes) (l l' : Bytes) :
    bytesLe (Key n l) (Key n l') = true ↔ bytesLe l l' = true := by
  unfold Key; rw [key_le_same_name]

/-- (O3) sandwich: a key between a key of `a` and a key of a descendant-or-self of `a` belongs to a
descendant-or-self of `a` -/
theorem O3_sandwich {a n m : List Bytes} (hn : NameOK n) (hm : NameOK m) (han : a <+: n)
    {l l' l'' : Bytes} (h1 : bytesLe (Key a l') (Key m l'') = true)
    (h2 : bytesLe (Key m l'') (Key n l) = true) : a <+: m :=
  key_sandwich _ hn hm han h1 h2

/-- (O4a) `findCommonLongestPrefix` of two different well-formed packed names is the byte length of
their longest common label prefix (never an index panic); for equal names it is the whole length -/
theorem O4_commonPrefix {n m : List Bytes} (hn : NameOK n) (hm : NameOK m) :
    Loc.commonPrefix (pack n) (pack m) ((pack n).length + 1) 0 =
      some (if n = m then (pack n).length else (flat (lcp n m)).length) := by
  have h := commonPrefix_spec n m [] [] ((pack n).length + 1) hn hm rfl
    (by have := length_le_flat_length n; rw [pack_length]; omega)
  simpa using h

/-- (O4b) `getLengthWithoutLastLabel` at a non-root name of at most 255 octets (256 with the final
zero would still do) is the packed length of the parent -/
theorem O4_lengthWithoutLastLabel {n : List Bytes} (hn : NameOK n) (hne : n ≠ [])
    (hlen : (pack n).length ≤ 255) :
    Loc.lengthWithoutLastLabel (pack n) (pack n).length 256 0 0 = some (pack n.dropLast).length := by
  have := lwl_prefix (t := []) hn hne (by omega)
  simpa using this

example : bytesLt (Key [[99, 111, 109]] [0, 9]) (Key [[99, 111, 109], [97]] [0, 0]) = true := by decide
example : Loc.commonPrefix (pack [[97], [98]]) (pack [[97], [97, 98]]) 7 0 = some 2 := by decide

/-! ### 2. name → map: the closest-key search equals the label-by-label search -/

/-- `findMapInSortedData` over a v2 store and `FindMap` over a v1 store that hold the same map
declarations `maps` (owner labels → wildcard? → map id) under the 2-byte map type `mtype` return the
same map for every well-formed query name of at most 255 octets; in particular the v2 search never
panics. The v2 store may hold arbitrary other keys that do not start with `mtype`; a key under
`mtype` holds a single value (`RepMapsV2.keys`), which makes "the stored bytes minus the 4-byte
chunk header" and "the first value" the same thing. Covers: wildcard map at the queried name itself
(not a match), root wildcard map, no maps at all, sibling labels that are byte-prefixes of each
other. No lower-case assumption is needed. -/
theorem findMapSorted_eq_findMapV1 {s₁ s₂ : Store} {mtype : Bytes} {maps : Maps}
    (h₁ : RepMapsV1 s₁ mtype maps) (h₂ : RepMapsV2 s₂ mtype maps) (hmt : mtype.length = 2)
    (q : List Bytes) (hq : NameOK q) (hlen : (pack q).length ≤ 255) :
    Loc.findMapSorted s₂ (pack q) mtype = .ok (Loc.findMapV1 s₁ (pack q) mtype) := by
  rw [findMapSorted_eq_spec h₂ hmt q hq (by omega), findMapV1_eq_spec h₁ q hq]

/-- both searches compute the declarative "exact map, else nearest enclosing wildcard map" -/
theorem findMapSorted_spec {s₂ : Store} {mtype : Bytes} {maps : Maps}
    (h₂ : RepMapsV2 s₂ mtype maps) (hmt : mtype.length = 2)
    (q : List Bytes) (hq : NameOK q) (hlen : (pack q).length ≤ 255) :
    Loc.findMapSorted s₂ (pack q) mtype = .ok (mapSpec maps q) :=
  findMapSorted_eq_spec h₂ hmt q hq (by omega)

-- non-vacuity: the empty declaration set is represented by the empty stores, and a concrete
-- neighbourhood (wildcard map at the queried name, root wildcard, sibling `a` / `ab`) evaluates equal
example : RepMapsV1 [] [0, 0x4d] (fun _ _ => none) ∧ RepMapsV2 [] [0, 0x4d] (fun _ _ => none) :=
  ⟨fun _ _ _ => rfl, ⟨fun _ h => by simp at h, fun _ _ _ => rfl⟩⟩

example :
    let s₁ : Store := [([0, 0x4d] ++ pack [[97]] ++ [0x2a], [[0, 1]]), ([0, 0x4d] ++ pack [] ++ [0x2a], [[0, 2]]),
      ([0, 0x4d] ++ pack [[97, 98]] ++ [0x3d], [[0, 3]])]
    let s₂ : Store := [([0, 0x4d] ++ pack [[97]] ++ [0x2a], [[0, 1]]), ([0, 0x4d] ++ pack [] ++ [0x2a], [[0, 2]]),
      ([0, 0x4d] ++ pack [[97, 98]] ++ [0x3d], [[0, 3]]), (Key [[97]] [0, 0], [[1]])]
    (match Loc.findMapSorted s₂ (pack [[97]]) [0, 0x4d] with | .ok r => r | _ => none) = some [0, 2] ∧
    Loc.findMapV1 s₁ (pack [[97]]) [0, 0x4d] = some [0, 2] ∧
    (match Loc.findMapSorted s₂ (pack [[98], [97]]) [0, 0x4d] with | .ok r => r | _ => none) = some [0, 1] ∧
    Loc.findMapV1 s₁ (pack [[98], [97]]) [0, 0x4d] = some [0, 1] := by decide

/-! ### 3. the walk: skip lemma and single-step lemma of `sortedDataReader.find`

`RepRRV1 s₁ rows` / `RepRRV2 s₂ rows`: the two stores hold the same rows (`rows owner loc`, owner as
labels in query order). In the v2 store every key that starts with the marker `\000o` is a
resource-record key of a well-formed owner with a 2-byte location, or has a byte `≥ 64` right after
the marker (the features key); all other keys are arbitrary. -/

/-- **Skip lemma.** With `Key m l''` the greatest key `≤ Key c L`: every name strictly between the
common label prefix of `c` and `m` and `c` itself owns no rows at all (any location), and if
`m ≠ c` then `c` owns no rows for a location `≤ L` — so none for `L` and none untagged. -/
theorem skip_lemma {rows : Rows} {c m : List Bytes} (hc : NameOK c) (hm : NameOK m) {L l'' : Bytes}
    (hle : bytesLe (Key m l'') (Key c L) = true)
    (hmax : ∀ a loc, NameOK a → loc.length = 2 → bytesLe (Key a loc) (Key c L) = true →
      rows a.reverse loc ≠ [] → bytesLe (Key a loc) (Key m l'') = true) :
    (∀ a, a <+: c → a ≠ c → ¬ a <+: lcp c m → ∀ loc, loc.length = 2 → rows a.reverse loc = []) ∧
    (m ≠ c → ∀ loc, loc.length = 2 → bytesLe loc L = true → rows c.reverse loc = []) :=
  RevOrder.skip_lemma hc hm hle hmax

/-- the hypothesis `hmax` of the skip lemma is what `SeekForPrev` delivers on a v2 store -/
theorem seek_delivers_skip_hypothesis {s : Store} {rows : Rows} (hrep : RepRRV2 s rows) {c : List Bytes}
    (hc : NameOK64 c) {L : Bytes} (hL : L.length = 2) {fk : Bytes} {vals : List Bytes}
    (hseek : s.seekForPrev (Key c L) = some (fk, vals)) (hpre : fk.take 2 = marker) :
    ∃ m l'', NameOK m ∧ l''.length = 2 ∧ fk = Key m l'' ∧ bytesLe (Key m l'') (Key c L) = true ∧
      ∀ a loc, NameOK a → loc.length = 2 → bytesLe (Key a loc) (Key c L) = true →
        rows a.reverse loc ≠ [] → bytesLe (Key a loc) (Key m l'') = true := by
  rcases rr_seek_cases hrep hc hL with ⟨hA, _⟩ | hB | ⟨m, l'', vals', hm, hl'', hC, _, hle, _, hmax⟩
  · rcases hA with h | ⟨fk', vals', h, _, hp⟩
    · rw [h] at hseek; cases hseek
    · rw [h] at hseek; cases hseek; exact absurd hpre hp
  · rw [hB] at hseek; cases hseek
    exact ⟨c, L, hc.ok, hL, rfl, bytesLe_refl _, fun a loc _ _ h _ => h⟩
  · rw [hC] at hseek; cases hseek
    exact ⟨m, l'', hm, hl'', rfl, hle, hmax⟩

/-- **Single-step lemma.** One iteration of `find` (generic callbacks `pre`/`onRows`/`post`, with
`onRows [] = id`) at the prefix `c` of the reversed query `n`, for a client location `v.loc`:
the row callbacks are exactly those of the label walk at `c` (`st3Of`: rows for the client's
location unless it is `[0,0]`, then the untagged rows); then either `post` stops the search, or
the search stops and no proper ancestor of `c` owns any row, or it continues at a proper ancestor
`c'` of `c` and every name strictly between `c'` and `c` owns no row — the names the label walk
visits in between contribute nothing. Never a panic for a well-formed query of ≤ 255 octets. -/
theorem findGo_single_step {σ : Type} {rows : Rows} (v : View) (hrep : RepRRV2 v.store rows)
    (hvl : v.loc.length = 2) (pre : Nat → σ → Option σ) (onRows : List Bytes → σ → σ)
    (post : σ → σ × Bool) (honil : ∀ st, onRows [] st = st) (fuel : Nat) (st st1 : σ)
    {n c : List Bytes} (hn : NameOK64 n) (hlen : (pack n).length ≤ 255) (hc : c <+: n)
    (hpre : pre (pack c).length st = some st1) :
    ((post (st3Of rows onRows v.loc c st1)).2 = false ∧
      findGo v (pack n) pre onRows post (fuel + 1) (pack c).length st = .ok (post (st3Of rows onRows v.loc c st1)).1) ∨
    ((post (st3Of rows onRows v.loc c st1)).2 = true ∧
      findGo v (pack n) pre onRows post (fuel + 1) (pack c).length st = .ok (post (st3Of rows onRows v.loc c st1)).1 ∧
      ∀ a, a <+: c → a ≠ c → NoRows rows a) ∨
    ((post (st3Of rows onRows v.loc c st1)).2 = true ∧
      ∃ c', c' <+: c ∧ c' ≠ c ∧ (∀ a, a <+: c → a ≠ c → ¬ a <+: c' → NoRows rows a) ∧
        findGo v (pack n) pre onRows post (fuel + 1) (pack c).length st =
          findGo v (pack n) pre onRows post fuel (pack c').length (post (st3Of rows onRows v.loc c st1)).1) :=
  findGo_step v hrep hvl pre onRows post honil fuel st st1 hn (by omega) hc hpre

/-- when `pre` refuses, the search returns the state unchanged -/
theorem findGo_pre_stop {σ : Type} (v : View) (rev : Bytes) (pre : Nat → σ → Option σ)
    (onRows : List Bytes → σ → σ) (post : σ → σ × Bool) (fuel qLength : Nat) (st : σ)
    (h : pre qLength st = none) : findGo v rev pre onRows post (fuel + 1) qLength st = .ok st :=
  findGo_pre_none v rev pre onRows post fuel qLength st h

example : RepRRV1 [] (fun _ _ => []) ∧ RepRRV2 [] (fun _ _ => []) :=
  ⟨fun _ _ _ _ => rfl, ⟨fun _ h => by simp at h, fun _ _ _ _ => rfl⟩⟩

/-- **`IsAuthoritative`, v2 = v1.** For stores holding the same rows in the two layouts, rows visible
to the client (its location's and the untagged ones, `RowsOKAt`) that never make `ExtractRRFromRow`
panic, a 2-byte client location, a query with labels of 1…63 bytes and
at most 255 octets: the closest-key search and the label walk return literally the same result
(never an error or a panic), with no side condition on whether an NS is found.

Before the commit "fix: v2 IsAuthoritative reports the root…" this was false: with no NS on the path
the label walk reported the root as `zoneCut` while the closest-key search reported the last name it
visited. Witness (old model): empty stores, `l = [0,0]`, `q = [[97]]`: v2 gave
`⟨false, false, [1,97,0]⟩`, v1 `⟨false, false, [0]⟩`; observable through `serve` for a store whose
only row is a location-tagged SOA at `a` (SOA in the authority section from v2 only). The former
theorems `isAuthoritativeV2_agrees_V1` (relation `CutAgree`) and `isAuthoritativeV2_eq_V1_literal_false`
recorded that state; both are subsumed/refuted by this one on the repaired model. -/
theorem isAuthoritativeV2_eq_V1 {s₁ s₂ : Store} {rows : Rows} (hrep1 : RepRRV1 s₁ rows)
    (hrep2 : RepRRV2 s₂ rows) {l : Bytes} (hok : RowsOKAt rows l) (hl : l.length = 2)
    (q : List Bytes) (hq : NameOK64 q) (hlen : (pack q).length ≤ 255) :
    isAuthoritativeV2 ⟨.rdbV2, s₂, l⟩ (pack q) =
      isAuthoritativeV1 ⟨.rdbV1, s₁, l⟩ ((pack q).length + 1) (pack q) false false :=
  isAuthoritativeV2_eq_V1' hrep1 hrep2 hok hl q hq (by omega)

/-- the same through the dispatcher `isAuthoritative` that `serve` calls -/
theorem isAuthoritative_v2_eq_v1 {s₁ s₂ : Store} {rows : Rows} (hrep1 : RepRRV1 s₁ rows)
    (hrep2 : RepRRV2 s₂ rows) {l : Bytes} (hok : RowsOKAt rows l) (hl : l.length = 2)
    (q : List Bytes) (hq : NameOK64 q) (hlen : (pack q).length ≤ 255) :
    isAuthoritative ⟨.rdbV2, s₂, l⟩ (pack q) = isAuthoritative ⟨.rdbV1, s₁, l⟩ (pack q) :=
  isAuthoritativeV2_eq_V1 hrep1 hrep2 hok hl q hq hlen

/-- the common result is `.ok` with the packed form of a suffix of the query as zone cut — the root
when no NS was found -/
theorem isAuthoritative_cut_shape {s₁ s₂ : Store} {rows : Rows} (hrep1 : RepRRV1 s₁ rows)
    (hrep2 : RepRRV2 s₂ rows) {l : Bytes} (hok : RowsOKAt rows l) (hl : l.length = 2)
    (q : List Bytes) (hq : NameOK64 q) (hlen : (pack q).length ≤ 255) :
    ∃ (ns auth : Bool) (z : List Bytes), z <:+ q ∧ (ns = false → z = []) ∧
      isAuthoritativeV2 ⟨.rdbV2, s₂, l⟩ (pack q) = .ok ⟨ns, auth, pack z⟩ ∧
      isAuthoritativeV1 ⟨.rdbV1, s₁, l⟩ ((pack q).length + 1) (pack q) false false = .ok ⟨ns, auth, pack z⟩ :=
  isAuthoritativeV2_eq_V1_cut hrep1 hrep2 hok hl q hq (by omega)

-- non-vacuity: the pre-fix witness (empty stores, query `a`) and a store with an SOA but no NS on the
-- path (the observable case) now agree, zone cut = root
example : isAuthoritativeV2 ⟨.rdbV2, [], [0, 0]⟩ (pack [[97]]) = .ok ⟨false, false, [0]⟩ ∧
    isAuthoritativeV1 ⟨.rdbV1, [], [0, 0]⟩ ((pack [[97]]).length + 1) (pack [[97]]) false false =
      .ok ⟨false, false, [0]⟩ := ⟨rfl, rfl⟩

/-- **`FindAnswer`, v2 vs v1.** Same stores, any client location, any query type and output name,
for every zone cut `zc` that is a suffix of the query (as `IsAuthoritative` returns): the
closest-key search never fails and returns exactly the `Ans` of the label-by-label walk (the
wild-safe check over all skipped labels equals the per-step check; the "walked above the zone cut"
stop equals the `q == zoneCut` stop). No hypothesis on the rows is needed. -/
theorem findAnswerV2_eq_V1 {s₁ s₂ : Store} {rows : Rows} (hrep1 : RepRRV1 s₁ rows)
    (hrep2 : RepRRV2 s₂ rows) {l : Bytes} (hl : l.length = 2) (q zc : List Bytes) (hq : NameOK64 q)
    (hlen : (pack q).length ≤ 255) (hzc : zc <:+ q) (qnameOut : Bytes) (qtype : Nat) :
    findAnswerV2 ⟨.rdbV2, s₂, l⟩ (pack q) (pack zc) qnameOut qtype =
      .ok (findAnswerV1 ⟨.rdbV1, s₁, l⟩ (pack zc) qnameOut qtype ((pack q).length + 1) (pack q) false {}) :=
  findAnswerV2_eq_V1' qnameOut qtype hrep1 hrep2 hl q zc hq (by omega) hzc

/-- `FindAnswer` at the zone cut that `IsAuthoritative` (label walk) returns: the cut is always the
packed form of a suffix of the query, so the two `FindAnswer`s agree there -/
theorem findAnswerV2_eq_V1_at_cut {s₁ s₂ : Store} {rows : Rows} (hrep1 : RepRRV1 s₁ rows)
    (hrep2 : RepRRV2 s₂ rows) {l : Bytes} (hok : RowsOKAt rows l) (hl : l.length = 2)
    (q : List Bytes) (hq : NameOK64 q) (hlen : (pack q).length ≤ 255) (qnameOut : Bytes) (qtype : Nat)
    (cut : Cut)
    (hcut : isAuthoritativeV1 ⟨.rdbV1, s₁, l⟩ ((pack q).length + 1) (pack q) false false = .ok cut) :
    findAnswerV2 ⟨.rdbV2, s₂, l⟩ (pack q) cut.zoneCut qnameOut qtype =
      .ok (findAnswerV1 ⟨.rdbV1, s₁, l⟩ cut.zoneCut qnameOut qtype ((pack q).length + 1) (pack q) false {}) := by
  obtain ⟨ns, auth, z1, hz1, _, _, h1⟩ := isAuthoritative_cut_shape hrep1 hrep2 hok hl q hq hlen
  rw [hcut] at h1
  cases h1
  exact findAnswerV2_eq_V1 hrep1 hrep2 hl q z1 hq hlen hz1 qnameOut qtype

/-- the rows of a well-formed name visible to a client are the same in the two layouts, hence so are
`FindSOA` and `GetNs` at any well-formed zone cut -/
theorem rowsOf_v2_eq_v1 {s₁ s₂ : Store} {rows : Rows} (hrep1 : RepRRV1 s₁ rows) (hrep2 : RepRRV2 s₂ rows)
    {l : Bytes} (hl : l.length = 2) (z : List Bytes) (hz : NameOK z) :
    rowsOf ⟨.rdbV2, s₂, l⟩ (pack z) = rowsOf ⟨.rdbV1, s₁, l⟩ (pack z) :=
  rowsOf_v2_eq_v1' hrep1 hrep2 hl z hz

theorem findSOA_v2_eq_v1 {s₁ s₂ : Store} {rows : Rows} (hrep1 : RepRRV1 s₁ rows) (hrep2 : RepRRV2 s₂ rows)
    {l : Bytes} (hl : l.length = 2) (z : List Bytes) (hz : NameOK z) :
    findSOA ⟨.rdbV2, s₂, l⟩ (pack z) = findSOA ⟨.rdbV1, s₁, l⟩ (pack z) := by
  unfold findSOA; rw [rowsOf_v2_eq_v1 hrep1 hrep2 hl z hz]

theorem getNs_v2_eq_v1 {s₁ s₂ : Store} {rows : Rows} (hrep1 : RepRRV1 s₁ rows) (hrep2 : RepRRV2 s₂ rows)
    {l : Bytes} (hl : l.length = 2) (z : List Bytes) (hz : NameOK z) (cls : Nat) :
    getNs ⟨.rdbV2, s₂, l⟩ (pack z) cls = getNs ⟨.rdbV1, s₁, l⟩ (pack z) cls := by
  unfold getNs; rw [rowsOf_v2_eq_v1 hrep1 hrep2 hl z hz]

/-! ### 3b. the whole handler: `serve` over the v2 layout = `serve` over the v1 layout -/

/-- **`serve`, v2 = v1.** For stores holding the same rows in the two layouts (`RepRRV1`, `RepRRV2`),
a 2-byte client location `l`, a request whose lower-cased name is `pack q` with labels of 1…63 bytes
and at most 255 octets, and whose name as asked lower-cases to it (`state.Name()` vs
`state.QName()`): the handler over the v2 layout produces literally the `Outcome` of the handler
over the v1 layout — rcode, AA, answer, address groups, authority and additional sections, DS
queries included. Hypotheses on the data, both on the rows the client can see only
(location `l` and untagged):
* `RowsOKAt`: no row makes `ExtractRRFromRow` panic (as for `IsAuthoritative`);
* `TargetsOKAt`: NS / MX targets lower-case *bytewise on the wire form* (what `bytes.ToLower` does
  in `AdditionalSectionForRecords`) to a well-formed wire name. Any target with labels ≤ 64 bytes
  satisfies it; it is forced relative to `RepRRV1` (`serve_v2_eq_v1_without_targets_false`). -/
theorem serve_v2_eq_v1 {s₁ s₂ : Store} {rows : Rows} (hrep1 : RepRRV1 s₁ rows) (hrep2 : RepRRV2 s₂ rows)
    {l : Bytes} (hl : l.length = 2) (hok : RowsOKAt rows l) (ht : TargetsOKAt rows l)
    (q : List Bytes) (hq : NameOK64 q) (hlen : (pack q).length ≤ 255) (rq : Query)
    (hqn : rq.qname = pack q) (hqo : toLower rq.qnameOut = rq.qname) :
    serve ⟨.rdbV2, s₂, l⟩ rq = serve ⟨.rdbV1, s₁, l⟩ rq :=
  serve_v2_eq_v1' hrep1 hrep2 hok hl ht q hq (by omega) rq hqn (lowerOK_of_eq hq.ok (hqo.trans hqn))

/-- every canonical v2 store (`V2Canonical`, decidable) has a v1 counterpart `v1Of s` holding the same
rows `rowsV2 s`; `StoreRowsOKAt` (decidable) is the two data hypotheses read off the store -/
theorem v2_store_represented (s : Store) (h : V2Canonical s) :
    RepRRV1 (v1Of s) (rowsV2 s) ∧ RepRRV2 s (rowsV2 s) :=
  ⟨repV1_v1Of s, repV2_rowsV2 h⟩

theorem serve_v2_eq_v1Of (s : Store) (hc : V2Canonical s) {l : Bytes} (hl : l.length = 2)
    (hr : StoreRowsOKAt s l) (q : List Bytes) (hq : NameOK64 q) (hlen : (pack q).length ≤ 255)
    (rq : Query) (hqn : rq.qname = pack q) (hqo : toLower rq.qnameOut = rq.qname) :
    serve ⟨.rdbV2, s, l⟩ rq = serve ⟨.rdbV1, v1Of s, l⟩ rq :=
  serve_v2_eq_v1 (repV1_v1Of s) (repV2_rowsV2 hc) hl (storeRows_at hl hr).1 (storeRows_at hl hr).2
    q hq hlen rq hqn hqo

/-! non-vacuity: zone `a.` (SOA, NS `n.a.`, MX `M.a.` — upper case in the rdata), addresses at
`n.a.`, `m.a.`, and at `b.a.` untagged / tagged `xx` / tagged `yy`; the `yy` key also holds a
malformed row, which a client at `xx` never parses -/

def z8 : Bytes := [0,0,0,0,0,0,0,0]
def nsRow : Bytes := [0,2,0x3d, 0,0,0,60] ++ z8 ++ [1,110,1,97,0]
def soaRow : Bytes := [0,6,0x3d, 0,0,0,60] ++ z8 ++
  [1,110,1,97,0, 1,104,1,97,0, 0,0,0,1, 0,0,0,2, 0,0,0,3, 0,0,0,4, 0,0,0,5]
def mxRow : Bytes := [0,15,0x3d, 0,0,0,60] ++ z8 ++ [0,10, 1,77,1,97,0]
def aRow (x : UInt8) : Bytes := [0,1,0x3d, 0,0,0,30] ++ z8 ++ [0,0,0,1, 10,0,0,x]
def aRowT (t x : UInt8) : Bytes := [0,1,62,t,t, 0,0,0,30] ++ z8 ++ [0,0,0,1, 10,0,0,x]
def sB : Store :=
  [(Key [[97]] [0,0], [soaRow, nsRow, mxRow]), (Key [[97],[110]] [0,0], [aRow 1]),
   (Key [[97],[109]] [0,0], [aRow 2]), (Key [[97],[98]] [120,120], [aRowT 120 3]),
   (Key [[97],[98]] [0,0], [aRow 4]), (Key [[97],[98]] [121,121], [aRowT 121 5, [1]]),
   (Generated.dnsdata_FeaturesKey, [[2,0,0,0]])]
/-- `A. MX` asked in upper case -/
def qMX : Query := ⟨[1,97,0], [1,65,0], 15, 1, 1⟩
def qB : Query := ⟨[1,98,1,97,0], [1,98,1,97,0], 1, 1, 2⟩

example : V2Canonical sB ∧ StoreRowsOKAt sB [120,120] ∧ ¬ StoreRowsOKAt sB [121,121] := by decide +kernel
example : serve ⟨.rdbV2, sB, [120,120]⟩ qMX = serve ⟨.rdbV1, v1Of sB, [120,120]⟩ qMX :=
  serve_v2_eq_v1Of sB (by decide +kernel) rfl (by decide +kernel) [[97]] (by decide) (by decide) qMX rfl rfl
example : serve ⟨.rdbV2, sB, [120,120]⟩ qB = serve ⟨.rdbV1, v1Of sB, [120,120]⟩ qB :=
  serve_v2_eq_v1Of sB (by decide +kernel) rfl (by decide +kernel) [[98],[97]] (by decide) (by decide) qB rfl rfl
/-- and these are real replies: the MX with the exchanger's address in the additional section … -/
example : serve ⟨.rdbV2, sB, [120,120]⟩ qMX = .reply
    { rcode := 0, aa := true, answer := [⟨[1,65,0], 15, 1, 60, [0,10,1,77,1,97,0]⟩], answerAddrs := [],
      ns := [], extra := [⟨[1,77,1,97,0], 1, 1, [⟨30, 1, [10,0,0,2]⟩], 1⟩] } := by decide +kernel
/-- … and the `xx` and untagged addresses of `b.a.`, not the `yy` one -/
example : serve ⟨.rdbV2, sB, [120,120]⟩ qB = .reply
    { rcode := 0, aa := true, answer := [],
      answerAddrs := [⟨[1,98,1,97,0], 1, 1, [⟨30, 1, [10,0,0,3]⟩, ⟨30, 1, [10,0,0,4]⟩], 2⟩],
      ns := [], extra := [] } := by decide +kernel

/-- `serve_v2_eq_v1` without `TargetsOKAt` -/
def serve_v2_eq_v1_without_targets : Prop :=
  ∀ (s₁ s₂ : Store) (rows : Rows) (l : Bytes) (q : List Bytes) (rq : Query),
    RepRRV1 s₁ rows → RepRRV2 s₂ rows → l.length = 2 → RowsOKAt rows l → NameOK64 q →
    (pack q).length ≤ 255 → rq.qname = pack q → toLower rq.qnameOut = rq.qname →
    serve ⟨.rdbV2, s₂, l⟩ rq = serve ⟨.rdbV1, s₁, l⟩ rq

/-! It is false, for a reason that lies in the abstraction `RepRRV1` (the v1 store may hold keys that
are not `loc ++ pack owner`; the compiler never writes such keys), not in the code: an NS target
with a label of 65 bytes — `bytes.ToLower` turns the length byte `65 = 'A'` into `97` — lower-cases
to a byte string `g` that is not a wire name. The v2 reader cannot reverse it and finds nothing;
the v1 reader looks up `loc ++ g` verbatim, and a v1 store is free to hold something there. -/

def longT : Bytes := [65] ++ List.replicate 65 120 ++ [0]
def nsRowT : Bytes := [0,2,0x3d, 0,0,0,60] ++ z8 ++ longT
def s2w : Store := [(Key [[97]] [0,0], [nsRowT])]
def s1w : Store := v1Of s2w ++ [([0,0] ++ toLower longT, [aRow 9])]
def qNS : Query := ⟨[1,97,0], [1,97,0], 2, 1, 1⟩

theorem serve_v2_eq_v1_without_targets_false : ¬ serve_v2_eq_v1_without_targets := by
  intro h
  have hne : serve ⟨.rdbV2, s2w, [0,0]⟩ qNS ≠ serve ⟨.rdbV1, s1w, [0,0]⟩ qNS := by decide +kernel
  apply hne
  refine h s1w s2w (rowsV2 s2w) [0,0] [[97]] qNS ?_ (repV2_rowsV2 (by decide +kernel)) rfl ?_
    (by decide) (by decide) rfl rfl
  · -- the extra key of `s1w` is not `loc ++ pack z`
    intro z loc hz hloc
    have hbase := repV1_v1Of s2w z loc hz hloc
    have hk : ¬ ([0,0] ++ toLower longT = loc ++ pack z) := by
      intro e
      have := (List.append_inj e (by rw [hloc]; rfl)).2
      have hu : unpack (pack z) = some z := by
        unfold unpack
        exact unpack_pack z _ hz (by have := length_le_flat_length z; rw [pack_length]; omega)
      rw [← this] at hu
      have hn : unpack (toLower longT) = none := by decide +kernel
      rw [hn] at hu; cases hu
    rw [← hbase]
    unfold s1w Store.get
    rw [List.find?_append]
    cases hf : List.find? (fun x => decide (x.1 = loc ++ pack z)) (v1Of s2w) with
    | some p => rfl
    | none =>
      simp only [Option.none_or, List.find?_cons, List.find?_nil]
      rw [show decide ([0, 0] ++ toLower longT = loc ++ pack z) = false from decide_eq_false hk]
  · intro z hz loc _ row hrow
    obtain ⟨e, he, _, hr⟩ := mem_get hrow
    simp only [s2w, List.mem_singleton] at he
    subst he
    simp only [List.mem_singleton] at hr
    subst hr
    decide +kernel

/-! ### 4. marker order facts, re-checked against the extracted constants -/

/-- map markers `"\000M"`, `"\0008"` sort below the resource-record marker `"\000o"`, the range-point
marker below all of them, and the features key above the key of every name whose first (reversed)
label is shorter than 95 = `'_'` bytes, in particular of every well-formed name (labels ≤ 63) -/
theorem marker_order_facts :
    bytesLt [0, 0x4d] Generated.dnsdata_ResourceRecordsKeyMarker = true ∧
    bytesLt [0, 0x38] [0, 0x4d] = true ∧
    bytesLt Generated.dnsdata_RangePointKeyMarker [0, 0x38] = true ∧
    Generated.dnsdata_ResourceRecordsKeyMarker = [0, 111] ∧
    Generated.dnsdata_FeaturesKey.take 2 = Generated.dnsdata_ResourceRecordsKeyMarker ∧
    Generated.dnsdata_FeaturesKey[2]? = some 95 ∧
    (63 : Nat) < 95 := by decide

/-- the features key is above every resource-record key of a name with labels shorter than 95 -/
theorem featuresKey_above (n : List Bytes) (hn : ∀ l ∈ n, l.length < 95) (loc : Bytes) :
    bytesLt (Key n loc) Generated.dnsdata_FeaturesKey = true := by
  cases n with
  | nil =>
    show bytesLt ([0, 111] ++ ([0] ++ loc)) ([0, 111] ++ [95, 102, 101, 97, 116, 117, 114, 101, 115]) = true
    rw [bytesLt_append_left]
    exact bytesLt_cons_of_lt (by decide) _ _
  | cons x n =>
    have hx : x.length < 95 := hn x (List.mem_cons_self ..)
    have h1 : (UInt8.ofNat x.length).toNat = x.length := by
      rw [UInt8.toNat_ofNat']; exact Nat.mod_eq_of_lt (by omega)
    show bytesLt ([0, 111] ++ pack (x :: n) ++ loc) [0, 111, 95, 102, 101, 97, 116, 117, 114, 101, 115] = true
    rw [pack_cons, List.append_assoc]
    show bytesLt ([0, 111] ++ (tok x ++ pack n ++ loc)) ([0, 111] ++ [95, 102, 101, 97, 116, 117, 114, 101, 115]) = true
    rw [bytesLt_append_left]
    exact bytesLt_cons_of_lt (by rw [h1]; exact hx) _ _

/-! ### 5. the per-request context cache of the RocksDB reader

`dnsdata/rdb/rdb.go`: `Context.cache`, `RDB.get`, `RDB.FindClosest`, `Context.update`, transcribed in
`Model/CtxCache.lean` over the abstract store; helper lemmas in `Proofs/CtxCache.lean`. A context
lives for one request. The cache is meant to be invisible: every lookup through it should return
what the same lookup returns through a fresh context. It is NOT (two defects of the code, both
reproduced on the real code by the `ctx` correspondence op):

* an exact lookup of a key that does not exist stores "found the key itself, no data" under that
  key, and a later closest-key lookup of the same key returns this entry instead of the greatest
  smaller key (`cache_transparent_false`);
* `get` stores the caller's key slice in the entry without copying it; a caller that reuses the
  buffer (`sortedDataReader.ForEachResourceRecord` does) changes the entry's key, and a later exact
  lookup of the same key is answered "no such key" (`get_ignores_callers_buffer_false`).

What is true: exact lookups by callers that leave their buffer alone are always right
(`cache_exact_lookups_right`); the whole run is right when no closest-key lookup of a key follows an
exact lookup of that same key while the key does not exist (`cache_transparent_partial`), exactly
when `safeFrom` holds (`cache_transparent_iff`); with the proposed repair always
(`cache_transparent_repaired`); one request's lookups have the safe shape (`request_shape_transparent`, `tryForEach_on_clean_cache`). -/

section ContextCache
open DnsVerif.CtxCache

/-- FULL STATEMENT (false for the code as it is): every lookup of every run through one fresh context,
by callers that leave their key buffers alone, returns the uncached result -/
def cache_transparent : Prop :=
  ∀ (s : Store) (ls : List Lookup), (∀ l ∈ ls, l.plain = true) → runCached s ls = runUncached s ls

/-- witness: the database holds the key `01`; exact lookup of `02` (absent), then closest-key lookup
of `02`: the cache answers "found `02`, no data", the database "found `01`" -/
theorem cache_transparent_false : ¬ cache_transparent := by
  intro h
  have := h [([1], [[5]])] [.exact [2], .closest [2]] (by decide)
  revert this
  decide +kernel

/-- no closest-key lookup of a key follows an exact lookup of that same key unless the key exists -/
def NoClosestAfterAbsentExact (s : Store) (ls : List Lookup) : Prop :=
  ∀ pre k post, ls = pre ++ Lookup.closest k :: post → Lookup.exact k ∈ pre → Present s k

/-- the strongest simple true version: for every store and every run of lookups (exact and closest,
any keys, any repetitions) in which no closest-key lookup follows an exact lookup of the same ABSENT
key, every result through one context equals the uncached result -/
theorem cache_transparent_partial (s : Store) (ls : List Lookup) (hplain : ∀ l ∈ ls, l.plain = true)
    (h : NoClosestAfterAbsentExact s ls) : runCached s ls = runUncached s ls :=
  runFrom_transparent s ls [] (fun _ => False) (inv_nil s _) hplain
    fun pre k post hls hk => h pre k post hls (hk.resolve_left id)

/-- the hypothesis is decidable: `okSeq` (a left-to-right scan remembering the absent keys looked up
exactly) -/
theorem noClosestAfterAbsentExact_of_check (s : Store) (ls : List Lookup) (h : okSeq s [] ls = true) :
    NoClosestAfterAbsentExact s ls :=
  fun pre k post hls hk => okSeq_sound s ls [] h pre k post hls (Or.inr hk)

/-- the hypothesis cannot be dropped for any absent key: exact, then closest lookup of an absent key
always differs from the uncached run -/
theorem cache_transparent_partial_sharp (s : Store) (k : Bytes) (hk : ¬ Present s k) :
    runCached s [.exact k, .closest k] ≠ runUncached s [.exact k, .closest k] := by
  intro h
  have h2 : (runCached s [.exact k, .closest k])[1]? = (runUncached s [.exact k, .closest k])[1]? := by rw [h]
  have hl : lookup (cget s [] k).1 k = some ⟨k, []⟩ := by
    unfold cget
    simp only [lookup_nil]
    rw [lookup_cupdate, if_pos (Or.inl rfl), get_eq_nil_of_absent hk]
  have hc : (cfindClosest s (cget s [] k).1 k).2 = some (k, []) := by
    unfold cfindClosest; rw [hl]
  have e1 : (runCached s [.exact k, .closest k])[1]? = some (Result.found k []) := by
    show some (Result.ofClosest (cfindClosest s (cget s [] k).1 k).2) = _
    rw [hc]; rfl
  have e2 : (runUncached s [.exact k, .closest k])[1]? = some (Result.ofClosest (s.seekForPrev k)) := by
    show some (uncached s (.closest k)) = _
    rw [uncached_closest]
  rw [e1, e2] at h2
  cases hs : s.seekForPrev k with
  | none => rw [hs] at h2; cases h2
  | some r =>
    obtain ⟨f, d⟩ := r
    rw [hs] at h2
    have : f = k := by
      have := Option.some.inj h2
      unfold Result.ofClosest at this
      cases this; rfl
    exact hk (this ▸ seekForPrev_key_mem hs)

/-- THE EXACT CONDITION. For an absent key `k`, what the cache holds under `k` after a run depends only
on the lookups of `k` itself, and only on the first that stores something (`kstate`: an exact
lookup stores the poisoned entry, a closest-key lookup that finds a key a clean one). A run is
transparent if and only if every closest-key lookup in it is of a key that exists or that the run
before it has not poisoned (`safeFrom`, decidable). -/
theorem cache_transparent_iff (s : Store) (ls : List Lookup) (hplain : ∀ l ∈ ls, l.plain = true) :
    runCached s ls = runUncached s ls ↔ safeFrom s [] ls = true :=
  runFrom_transparent_iff s ls [] [] ((inv_nil s _)) (fun _ _ => rfl) hplain

/-- the proposed repair (`FindClosest` ignores cached entries without data, `get` stores a copy of
the key): every run of lookups — any kinds, keys, repetitions, reused buffers — through one
context returns the uncached results -/
theorem cache_transparent_repaired (s : Store) (ls : List Lookup) :
    runCachedR s ls = runUncached s ls :=
  runFromR_transparent s ls [] (inv_nil s _)

/-- "must not make an absent key look present": exact lookups are answered correctly at every position
of every run, whatever was looked up before -/
theorem cache_exact_lookups_right (s : Store) (ls : List Lookup) (hplain : ∀ l ∈ ls, l.plain = true)
    (i : Nat) (k : Bytes) (h : ls[i]? = some (Lookup.exact k)) :
    (runCached s ls)[i]? = some (Result.data (s.get k)) :=
  runFrom_exact_right s ls [] (fun _ => False) (inv_nil s _) hplain i k h

/-- `sortedDataReader.TryForEach` (closest-key lookup, then the exact lookup of the key when it was
found): on a cache without poisoned entries it returns what `Serve.findGo`'s `tryForEach` computes
on the database and leaves the cache without poisoned entries. Every lookup of `find`
(`IsAuthoritative`, `FindAnswer`), of `findMapInSortedData` and of `GetLocationByMap` is such a
`TryForEach` or a bare closest-key lookup (`closest_on_clean_cache`). -/
theorem tryForEach_on_clean_cache (s : Store) (c : Cache) (h : Clean s c) (k : Bytes) :
    (ctryForEach s c k).2 = tryForEach s k ∧ Clean s (ctryForEach s c k).1 :=
  ctryForEach_clean h k

theorem closest_on_clean_cache (s : Store) (c : Cache) (h : Clean s c) (k : Bytes) :
    (cfindClosest s c k).2 = s.seekForPrev k ∧ Clean s (cfindClosest s c k).1 :=
  cfindClosest_clean h k

/-- one request: first the lookups of `FindLocation`, `IsAuthoritative` (twice for DS) and `FindAnswer`,
among which exact lookups are only of keys that exist; then exact lookups only (`FindSOA`, `GetNs`,
`AdditionalSectionForRecords`). Such a run is transparent. -/
theorem request_shape_transparent (s : Store) (A B : List Lookup)
    (hplain : ∀ l ∈ A ++ B, l.plain = true)
    (hA : ∀ k, Lookup.exact k ∈ A → Present s k) (hB : ∀ l ∈ B, ∃ k, l = Lookup.exact k) :
    runCached s (A ++ B) = runUncached s (A ++ B) :=
  cache_transparent_partial s (A ++ B) hplain (noClosestAfterAbsentExact_of_shape hA hB)

/-- FULL STATEMENT (false for the code as it is): what a caller does with its key buffer after `get`
has returned does not matter -/
def get_ignores_callers_buffer : Prop :=
  ∀ (s : Store) (k k' : Bytes),
    runCached s [.exactReused k k', .exact k] = runUncached s [.exactReused k k', .exact k]

/-- witness: the key `01 aa` exists; the caller looks it up, overwrites its buffer with `01 00` (the
untagged key, as `ForEachResourceRecord` does), and the next exact lookup of `01 aa` finds nothing -/
theorem get_ignores_callers_buffer_false : ¬ get_ignores_callers_buffer := by
  intro h
  have := h [([1, 0xaa], [[5]])] [1, 0xaa] [1, 0]
  revert this
  decide +kernel

/-! non-vacuity: a run with repeated keys, closest after exact of a PRESENT key, exact after closest
of an absent key, a closest-key lookup below every key; the hypothesis is decided by `okSeq` -/
example :
    let s : Store := [([1], [[5]]), ([3], [[6], [8]])]
    let ls : List Lookup := [.closest [2], .exact [2], .exact [3], .closest [3], .closest [0], .exact [9], .exact [2]]
    NoClosestAfterAbsentExact s ls ∧ (∀ l ∈ ls, l.plain = true) ∧
      runCached s ls = [.found [1] [[5]], .data [], .data [[6], [8]], .found [3] [[6], [8]], .invalid,
        .data [], .data []] :=
  ⟨noClosestAfterAbsentExact_of_check _ _ (by decide +kernel), by decide, by decide +kernel⟩

/-- the simple hypothesis is sufficient, not necessary: when the FIRST lookup of an absent key is a
closest-key lookup that finds something, its (clean) entry protects the key -/
example :
    let s : Store := [([1], [[5]])]
    let ls : List Lookup := [.closest [2], .exact [2], .closest [2]]
    ¬ NoClosestAfterAbsentExact s ls ∧ safeFrom s [] ls = true ∧ runCached s ls = runUncached s ls := by
  refine ⟨fun h => ?_, by decide +kernel, by decide +kernel⟩
  have := h [.closest [2], .exact [2]] [2] [] rfl (by simp)
  revert this
  decide +kernel

end ContextCache

end DnsVerif.Props.C02
