/-
C02 — Storage backend and key layout never change an answer (the v2 "closest key" searches are
observationally identical to the label-by-label searches).

Property theorems only; helper lemmas are in `Proofs/RevOrder.lean`.
Names are label lists; `enc ls = Name.pack ls` is the wire form of the REVERSED label list `ls`
and `Key ls loc = marker ++ enc ls ++ loc` a resource-record key of the v2 layout.
-/
import DnsVerif.Proofs.RevOrder

namespace DnsVerif.Props.C02
open DnsVerif DnsVerif.Rdb DnsVerif.Name DnsVerif.RevOrder DnsVerif.Serve

/-! ### 1. order lemmas for v2 keys -/

/-- (O1) an ancestor's key is below every key of a descendant, whatever the two locations -/
theorem O1_ancestor_below {a n : List Bytes} (hn : NameOK n) (h : a <+: n) (hne : a ≠ n) (l l' : Bytes) :
    bytesLt (Key a l') (Key n l) = true := by
  obtain ⟨x, t, rfl⟩ := proper_prefix_of h hne
  exact key_lt_of_proper_prefix _ a x t hn.of_append_right.head l l'

/-- (O2) keys of one name are ordered like their locations -/
theorem O2_same_name (n : List Bytes) (l l' : Bytes) :
    bytesLe (Key n l) (Key n l') = true ↔ bytesLe l l' = true := by
  unfold Key; rw [key_le_same_name]

/-- (O3) sandwich: a key between a key of `a` and a key of a descendant-or-self of `a` belongs to a
descendant-or-self of `a` -/
theorem O3_sandwich {a n m : List Bytes} (hn : NameOK n) (hm : NameOK m) (han : a <+: n)
    {l l' l'' : Bytes} (h1 : bytesLe (Key a l') (Key m l'') = true)
    (h2 : bytesLe (Key m l'') (Key n l) = true) : a <+: m :=
  key_sandwich _ hn hm han h1 h2

/-- (O4a) `findCommonLongestPrefix` of two different well-formed packed names is the byte length of
their longest common label prefix (never an index panic); for equal names it is the whole length -/
theorem O4_commonPrefix {n m : List Bytes} (hn : NameOK n) (hm : NameOK m) :
    Loc.commonPrefix (pack n) (pack m) ((pack n).length + 1) 0 =
      some (if n = m then (pack n).length else (flat (lcp n m)).length) := by
  have h := commonPrefix_spec n m [] [] ((pack n).length + 1) hn hm rfl
    (by have := length_le_flat_length n; rw [pack_length]; omega)
  simpa using h

/-- (O4b) `getLengthWithoutLastLabel` at a non-root name of at most 255 octets (256 with the final
zero would still do) is the packed length of the parent -/
theorem O4_lengthWithoutLastLabel {n : List Bytes} (hn : NameOK n) (hne : n ≠ [])
    (hlen : (pack n).length ≤ 255) :
    Loc.lengthWithoutLastLabel (pack n) (pack n).length 256 0 0 = some (pack n.dropLast).length := by
  have := lwl_prefix (t := []) hn hne (by omega)
  simpa using this

example : bytesLt (Key [[99, 111, 109]] [0, 9]) (Key [[99, 111, 109], [97]] [0, 0]) = true := by decide
example : Loc.commonPrefix (pack [[97], [98]]) (pack [[97], [97, 98]]) 7 0 = some 2 := by decide

/-! ### 2. name → map: the closest-key search equals the label-by-label search -/

/-- `findMapInSortedData` over a v2 store and `FindMap` over a v1 store that hold the same map
declarations `maps` (owner labels → wildcard? → map id) under the 2-byte map type `mtype` return the
same map for every well-formed query name of at most 255 octets; in particular the v2 search never
panics. The v2 store may hold arbitrary other keys that do not start with `mtype`; a key under
`mtype` holds a single value (`RepMapsV2.keys`), which makes "the stored bytes minus the 4-byte
chunk header" and "the first value" the same thing. Covers: wildcard map at the queried name itself
(not a match), root wildcard map, no maps at all, sibling labels that are byte-prefixes of each
other. No lower-case assumption is needed. -/
theorem findMapSorted_eq_findMapV1 {s₁ s₂ : Store} {mtype : Bytes} {maps : Maps}
    (h₁ : RepMapsV1 s₁ mtype maps) (h₂ : RepMapsV2 s₂ mtype maps) (hmt : mtype.length = 2)
    (q : List Bytes) (hq : NameOK q) (hlen : (pack q).length ≤ 255) :
    Loc.findMapSorted s₂ (pack q) mtype = .ok (Loc.findMapV1 s₁ (pack q) mtype) := by
  rw [findMapSorted_eq_spec h₂ hmt q hq (by omega), findMapV1_eq_spec h₁ q hq]

/-- both searches compute the declarative "exact map, else nearest enclosing wildcard map" -/
theorem findMapSorted_spec {s₂ : Store} {mtype : Bytes} {maps : Maps}
    (h₂ : RepMapsV2 s₂ mtype maps) (hmt : mtype.length = 2)
    (q : List Bytes) (hq : NameOK q) (hlen : (pack q).length ≤ 255) :
    Loc.findMapSorted s₂ (pack q) mtype = .ok (mapSpec maps q) :=
  findMapSorted_eq_spec h₂ hmt q hq (by omega)

-- non-vacuity: the empty declaration set is represented by the empty stores, and a concrete
-- neighbourhood (wildcard map at the queried name, root wildcard, sibling `a` / `ab`) evaluates equal
example : RepMapsV1 [] [0, 0x4d] (fun _ _ => none) ∧ RepMapsV2 [] [0, 0x4d] (fun _ _ => none) :=
  ⟨fun _ _ _ => rfl, ⟨fun _ h => by simp at h, fun _ _ _ => rfl⟩⟩

example :
    let s₁ : Store := [([0, 0x4d] ++ pack [[97]] ++ [0x2a], [[0, 1]]), ([0, 0x4d] ++ pack [] ++ [0x2a], [[0, 2]]),
      ([0, 0x4d] ++ pack [[97, 98]] ++ [0x3d], [[0, 3]])]
    let s₂ : Store := [([0, 0x4d] ++ pack [[97]] ++ [0x2a], [[0, 1]]), ([0, 0x4d] ++ pack [] ++ [0x2a], [[0, 2]]),
      ([0, 0x4d] ++ pack [[97, 98]] ++ [0x3d], [[0, 3]]), (Key [[97]] [0, 0], [[1]])]
    (match Loc.findMapSorted s₂ (pack [[97]]) [0, 0x4d] with | .ok r => r | _ => none) = some [0, 2] ∧
    Loc.findMapV1 s₁ (pack [[97]]) [0, 0x4d] = some [0, 2] ∧
    (match Loc.findMapSorted s₂ (pack [[98], [97]]) [0, 0x4d] with | .ok r => r | _ => none) = some [0, 1] ∧
    Loc.findMapV1 s₁ (pack [[98], [97]]) [0, 0x4d] = some [0, 1] := by decide

/-! ### 3. the walk: skip lemma and single-step lemma of `sortedDataReader.find`

`RepRRV1 s₁ rows` / `RepRRV2 s₂ rows`: the two stores hold the same rows (`rows owner loc`, owner as
labels in query order). In the v2 store every key that starts with the marker `\000o` is a
resource-record key of a well-formed owner with a 2-byte location, or has a byte `≥ 64` right after
the marker (the features key); all other keys are arbitrary. -/

/-- **Skip lemma.** With `Key m l''` the greatest key `≤ Key c L`: every name strictly between the
common label prefix of `c` and `m` and `c` itself owns no rows at all (any location), and if
`m ≠ c` then `c` owns no rows for a location `≤ L` — so none for `L` and none untagged. -/
theorem skip_lemma {rows : Rows} {c m : List Bytes} (hc : NameOK c) (hm : NameOK m) {L l'' : Bytes}
    (hle : bytesLe (Key m l'') (Key c L) = true)
    (hmax : ∀ a loc, NameOK a → loc.length = 2 → bytesLe (Key a loc) (Key c L) = true →
      rows a.reverse loc ≠ [] → bytesLe (Key a loc) (Key m l'') = true) :
    (∀ a, a <+: c → a ≠ c → ¬ a <+: lcp c m → ∀ loc, loc.length = 2 → rows a.reverse loc = []) ∧
    (m ≠ c → ∀ loc, loc.length = 2 → bytesLe loc L = true → rows c.reverse loc = []) :=
  RevOrder.skip_lemma hc hm hle hmax

/-- the hypothesis `hmax` of the skip lemma is what `SeekForPrev` delivers on a v2 store -/
theorem seek_delivers_skip_hypothesis {s : Store} {rows : Rows} (hrep : RepRRV2 s rows) {c : List Bytes}
    (hc : NameOK64 c) {L : Bytes} (hL : L.length = 2) {fk : Bytes} {vals : List Bytes}
    (hseek : s.seekForPrev (Key c L) = some (fk, vals)) (hpre : fk.take 2 = marker) :
    ∃ m l'', NameOK m ∧ l''.length = 2 ∧ fk = Key m l'' ∧ bytesLe (Key m l'') (Key c L) = true ∧
      ∀ a loc, NameOK a → loc.length = 2 → bytesLe (Key a loc) (Key c L) = true →
        rows a.reverse loc ≠ [] → bytesLe (Key a loc) (Key m l'') = true := by
  rcases rr_seek_cases hrep hc hL with ⟨hA, _⟩ | hB | ⟨m, l'', vals', hm, hl'', hC, _, hle, _, hmax⟩
  · rcases hA with h | ⟨fk', vals', h, _, hp⟩
    · rw [h] at hseek; cases hseek
    · rw [h] at hseek; cases hseek; exact absurd hpre hp
  · rw [hB] at hseek; cases hseek
    exact ⟨c, L, hc.ok, hL, rfl, bytesLe_refl _, fun a loc _ _ h _ => h⟩
  · rw [hC] at hseek; cases hseek
    exact ⟨m, l'', hm, hl'', rfl, hle, hmax⟩

/-- **Single-step lemma.** One iteration of `find` (generic callbacks `pre`/`onRows`/`post`, with
`onRows [] = id`) at the prefix `c` of the reversed query `n`, for a client location `v.loc`:
the row callbacks are exactly those of the label walk at `c` (`st3Of`: rows for the client's
location unless it is `[0,0]`, then the untagged rows); then either `post` stops the search, or
the search stops and no proper ancestor of `c` owns any row, or it continues at a proper ancestor
`c'` of `c` and every name strictly between `c'` and `c` owns no row — the names the label walk
visits in between contribute nothing. Never a panic for a well-formed query of ≤ 255 octets. -/
theorem findGo_single_step {σ : Type} {rows : Rows} (v : View) (hrep : RepRRV2 v.store rows)
    (hvl : v.loc.length = 2) (pre : Nat → σ → Option σ) (onRows : List Bytes → σ → σ)
    (post : σ → σ × Bool) (honil : ∀ st, onRows [] st = st) (fuel : Nat) (st st1 : σ)
    {n c : List Bytes} (hn : NameOK64 n) (hlen : (pack n).length ≤ 255) (hc : c <+: n)
    (hpre : pre (pack c).length st = some st1) :
    ((post (st3Of rows onRows v.loc c st1)).2 = false ∧
      findGo v (pack n) pre onRows post (fuel + 1) (pack c).length st = .ok (post (st3Of rows onRows v.loc c st1)).1) ∨
    ((post (st3Of rows onRows v.loc c st1)).2 = true ∧
      findGo v (pack n) pre onRows post (fuel + 1) (pack c).length st = .ok (post (st3Of rows onRows v.loc c st1)).1 ∧
      ∀ a, a <+: c → a ≠ c → NoRows rows a) ∨
    ((post (st3Of rows onRows v.loc c st1)).2 = true ∧
      ∃ c', c' <+: c ∧ c' ≠ c ∧ (∀ a, a <+: c → a ≠ c → ¬ a <+: c' → NoRows rows a) ∧
        findGo v (pack n) pre onRows post (fuel + 1) (pack c).length st =
          findGo v (pack n) pre onRows post fuel (pack c').length (post (st3Of rows onRows v.loc c st1)).1) :=
  findGo_step v hrep hvl pre onRows post honil fuel st st1 hn (by omega) hc hpre

/-- when `pre` refuses, the search returns the state unchanged -/
theorem findGo_pre_stop {σ : Type} (v : View) (rev : Bytes) (pre : Nat → σ → Option σ)
    (onRows : List Bytes → σ → σ) (post : σ → σ × Bool) (fuel qLength : Nat) (st : σ)
    (h : pre qLength st = none) : findGo v rev pre onRows post (fuel + 1) qLength st = .ok st :=
  findGo_pre_none v rev pre onRows post fuel qLength st h

example : RepRRV1 [] (fun _ _ => []) ∧ RepRRV2 [] (fun _ _ => []) :=
  ⟨fun _ _ _ _ => rfl, ⟨fun _ h => by simp at h, fun _ _ _ _ => rfl⟩⟩

/-- **`IsAuthoritative`, v2 vs v1.** For stores holding the same rows in the two layouts, rows that
never make `ExtractRRFromRow` panic, a 2-byte client location, a query with labels of 1…63 bytes and
at most 255 octets: both searches succeed with the same `ns` and `auth`; if an NS was found the zone
cut is the same; if not, the label walk reports the root while the closest-key search reports a
suffix `z0` of the query none of whose proper ancestors owns any row (`CutAgree`). -/
theorem isAuthoritativeV2_agrees_V1 {s₁ s₂ : Store} {rows : Rows} (hrep1 : RepRRV1 s₁ rows)
    (hrep2 : RepRRV2 s₂ rows) (hok : ∀ z loc, RowsOK (rows z loc)) {l : Bytes} (hl : l.length = 2)
    (q : List Bytes) (hq : NameOK64 q) (hlen : (pack q).length ≤ 255) :
    CutAgree rows q (isAuthoritativeV2 ⟨.rdbV2, s₂, l⟩ (pack q))
      (isAuthoritativeV1 ⟨.rdbV1, s₁, l⟩ ((pack q).length + 1) (pack q) false false) :=
  isAuthoritativeV2_agrees_V1' hrep1 hrep2 hok hl q hq (by omega)

/-- literal equality when the label walk finds an NS (a zone or a delegation encloses the query) -/
theorem isAuthoritativeV2_eq_V1_partial {s₁ s₂ : Store} {rows : Rows} (hrep1 : RepRRV1 s₁ rows)
    (hrep2 : RepRRV2 s₂ rows) (hok : ∀ z loc, RowsOK (rows z loc)) {l : Bytes} (hl : l.length = 2)
    (q : List Bytes) (hq : NameOK64 q) (hlen : (pack q).length ≤ 255)
    (hns : ∀ c, isAuthoritativeV1 ⟨.rdbV1, s₁, l⟩ ((pack q).length + 1) (pack q) false false = .ok c →
      c.ns = true) :
    isAuthoritativeV2 ⟨.rdbV2, s₂, l⟩ (pack q) =
      isAuthoritativeV1 ⟨.rdbV1, s₁, l⟩ ((pack q).length + 1) (pack q) false false :=
  (isAuthoritativeV2_agrees_V1 hrep1 hrep2 hok hl q hq hlen).eq_of_ns hns

/-- The literal statement "`IsAuthoritative` of the two layouts returns the same `Cut`" -/
def isAuthoritativeV2_eq_V1_literal : Prop :=
  ∀ (s₁ s₂ : Store) (rows : Rows) (l : Bytes) (q : List Bytes), RepRRV1 s₁ rows → RepRRV2 s₂ rows →
    l.length = 2 → NameOK64 q → (pack q).length ≤ 255 →
    isAuthoritativeV2 ⟨.rdbV2, s₂, l⟩ (pack q) =
      isAuthoritativeV1 ⟨.rdbV1, s₁, l⟩ ((pack q).length + 1) (pack q) false false

/-- … is false as it stands: when no NS is found on the way up, the label walk reports the root as
`zoneCut` while the closest-key search reports the last name it visited (here the query itself,
on an empty database). `ns`/`auth` agree, and `serve` answers REFUSED without looking at `zoneCut`
when both are false, so the difference is not observable there. -/
theorem isAuthoritativeV2_eq_V1_literal_false : ¬ isAuthoritativeV2_eq_V1_literal := by
  intro h
  have h1 := h [] [] (fun _ _ => []) [0, 0] [[97]] (fun _ _ _ _ => rfl)
    ⟨fun _ h => by simp at h, fun _ _ _ _ => rfl⟩ rfl (by decide) (by decide)
  have e2 : isAuthoritativeV2 ⟨.rdbV2, [], [0, 0]⟩ (pack [[97]]) = .ok ⟨false, false, [1, 97, 0]⟩ := by rfl
  have e1 : isAuthoritativeV1 ⟨.rdbV1, [], [0, 0]⟩ ((pack [[97]]).length + 1) (pack [[97]]) false false =
      .ok ⟨false, false, [0]⟩ := by rfl
  rw [e1, e2] at h1
  cases h1

/-! ### 4. marker order facts, re-checked against the extracted constants -/

/-- map markers `"\000M"`, `"\0008"` sort below the resource-record marker `"\000o"`, the range-point
marker below all of them, and the features key above the key of every name whose first (reversed)
label is shorter than 95 = `'_'` bytes, in particular of every well-formed name (labels ≤ 63) -/
theorem marker_order_facts :
    bytesLt [0, 0x4d] Generated.dnsdata_ResourceRecordsKeyMarker = true ∧
    bytesLt [0, 0x38] [0, 0x4d] = true ∧
    bytesLt Generated.dnsdata_RangePointKeyMarker [0, 0x38] = true ∧
    Generated.dnsdata_ResourceRecordsKeyMarker = [0, 111] ∧
    Generated.dnsdata_FeaturesKey.take 2 = Generated.dnsdata_ResourceRecordsKeyMarker ∧
    Generated.dnsdata_FeaturesKey[2]? = some 95 ∧
    (63 : Nat) < 95 := by decide

/-- the features key is above every resource-record key of a name with labels shorter than 95 -/
theorem featuresKey_above (n : List Bytes) (hn : ∀ l ∈ n, l.length < 95) (loc : Bytes) :
    bytesLt (Key n loc) Generated.dnsdata_FeaturesKey = true := by
  cases n with
  | nil =>
    show bytesLt ([0, 111] ++ ([0] ++ loc)) ([0, 111] ++ [95, 102, 101, 97, 116, 117, 114, 101, 115]) = true
    rw [bytesLt_append_left]
    exact bytesLt_cons_of_lt (by decide) _ _
  | cons x n =>
    have hx : x.length < 95 := hn x (List.mem_cons_self ..)
    have h1 : (UInt8.ofNat x.length).toNat = x.length := by
      rw [UInt8.toNat_ofNat']; exact Nat.mod_eq_of_lt (by omega)
    show bytesLt ([0, 111] ++ pack (x :: n) ++ loc) [0, 111, 95, 102, 101, 97, 116, 117, 114, 101, 115] = true
    rw [pack_cons, List.append_assoc]
    show bytesLt ([0, 111] ++ (tok x ++ pack n ++ loc)) ([0, 111] ++ [95, 102, 101, 97, 116, 117, 114, 101, 115]) = true
    rw [bytesLt_append_left]
    exact bytesLt_cons_of_lt (by rw [h1]; exact hx) _ _

end DnsVerif.Props.C02
