/-
C01 — Served answers are exactly what the data file declares.

Property theorems only; helper lemmas are in `Proofs/ServeRefine.lean`.

1. `facts_match_spec`, `default_ttl_*`, `name_expansion_*`: the constants extracted from the Go
   source are the documented tinydns / dnsrocks values, and the model codec applies them.
2. `extractRR_putrrhead`: the server's row parser inverts the compiler's row head.
3. `spec_*`: the four sentences of the statement, as corollaries of `Spec.answer` alone.
4. `cut_refines`, `findAnswer_refines`, `serve_v1_refines_spec`: on any store that holds exactly the
   rows of a well-formed record list under the v1 key layout (CDB and RocksDB v1), the handler
   model returns `Spec.answer`.
-/
import DnsVerif.Proofs.ServeRefine

namespace DnsVerif.Props.C01
open DnsVerif DnsVerif.Codec DnsVerif.Serve DnsVerif.Name DnsVerif.ServeRefine

/-! ## 1. constants and defaults -/

/-- The constants re-extracted from `dnsdata/data.go` are the documented ones. -/
theorem facts_match_spec :
    Generated.dnsdata_LongTTL = 86400 ∧ Generated.dnsdata_ShortTTL = 2560 ∧
    Generated.dnsdata_LinkTTL = 259200 ∧ Generated.dnsdata_NUMFIELDS = 15 ∧
    Generated.dnsdata_SEP = [58] ∧ Generated.dnsdata_NSEP = [44] ∧
    Generated.dnsdata_ResourceRecordsKeyMarker = [0, 111] ∧
    Generated.dnsdata_RangePointKeyMarker = [0, 0, 0, 33] ∧
    Generated.dnsdata_FeaturesKey = [0, 111, 95, 102, 101, 97, 116, 117, 114, 101, 115] := by
  decide

/-- a row as the server parses it (non-wildcard lookup) -/
def rowOf (v : Bytes) : Option Row :=
  match extractRR v false with
  | .row r => some r
  | _ => none

/-- one data line through the model codec (v1 keys, serial 7, no SVCB): keys and parsed rows -/
def compiled (line : String) : Option (List (Bytes × Option Row)) :=
  match convertLine { serial := 7 } (fun _ => none) (Bytes.ofString line) with
  | .ok lo => some (lo.kvs.map fun kv => (kv.1, rowOf kv.2))
  | .error _ => none

/-- wire form of a name given as text labels -/
def nm (labels : List String) : Bytes := Name.pack (labels.map Bytes.ofString)

/-- the v1 key of an untagged name -/
def key (labels : List String) : Bytes := [0, 0] ++ nm labels

/-- `+` line without TTL: an A row with the long TTL (86400) and weight 1. -/
theorem default_ttl_addr :
    compiled "+www.ex.com,1.2.3.4" =
      some [(key ["www", "ex", "com"], some ⟨1, 86400, 1, [1, 2, 3, 4]⟩)]
    ∧ Generated.dnsdata_LongTTL = 86400 := by
  decide +kernel

/-- `&` line without TTL: an NS row with the link TTL (259200). -/
theorem default_ttl_ns :
    compiled "&ex.com,,ns1.ex.com" =
      some [(key ["ex", "com"], some ⟨2, 259200, 0, nm ["ns1", "ex", "com"]⟩)]
    ∧ Generated.dnsdata_LinkTTL = 259200 := by
  decide +kernel

/-- `Z` line with only the names: SOA TTL 2560, serial from the compiler, refresh / retry /
expire / minimum 16384 / 2048 / 1048576 / 2560. -/
theorem default_ttl_soa :
    compiled "Zex.com,ns1.ex.com,admin.ex.com" =
      some [(key ["ex", "com"], some ⟨6, 2560, 0,
        nm ["ns1", "ex", "com"] ++ nm ["admin", "ex", "com"] ++ be32 7 ++ be32 16384 ++ be32 2048
          ++ be32 1048576 ++ be32 2560⟩)]
    ∧ Generated.dnsdata_ShortTTL = 2560 := by
  decide +kernel

/-- `.` line: SOA (short TTL, `hostmaster.<dom>`) + NS (link TTL) + A of the server when an
address is given. -/
theorem default_ttl_dot :
    compiled ".ex.com,1.2.3.4,a" =
      some [(key ["ex", "com"], some ⟨6, 2560, 0,
              nm ["a", "ns", "ex", "com"] ++ nm ["hostmaster", "ex", "com"] ++ be32 7 ++ be32 16384
                ++ be32 2048 ++ be32 1048576 ++ be32 2560⟩),
            (key ["ex", "com"], some ⟨2, 259200, 0, nm ["a", "ns", "ex", "com"]⟩),
            (key ["a", "ns", "ex", "com"], some ⟨1, 259200, 1, [1, 2, 3, 4]⟩)] := by
  decide +kernel

theorem default_ttl_dot_noaddr :
    compiled ".ex.com,,a" =
      some [(key ["ex", "com"], some ⟨6, 2560, 0,
              nm ["a", "ns", "ex", "com"] ++ nm ["hostmaster", "ex", "com"] ++ be32 7 ++ be32 16384
                ++ be32 2048 ++ be32 1048576 ++ be32 2560⟩),
            (key ["ex", "com"], some ⟨2, 259200, 0, nm ["a", "ns", "ex", "com"]⟩)] := by
  decide +kernel

/-- `&dom,ip,x` with `x` dot-free: the server is `x.ns.dom`, and its address is declared there. -/
theorem name_expansion_ns :
    compiled "&ex.com,1.2.3.4,a" =
      some [(key ["ex", "com"], some ⟨2, 259200, 0, nm ["a", "ns", "ex", "com"]⟩),
            (key ["a", "ns", "ex", "com"], some ⟨1, 259200, 1, [1, 2, 3, 4]⟩)] := by
  decide +kernel

/-- `@dom,ip,x`: the exchanger is `x.mx.dom` (distance 0, long TTL). -/
theorem name_expansion_mx :
    compiled "@ex.com,1.2.3.4,a" =
      some [(key ["ex", "com"], some ⟨15, 86400, 0, be16 0 ++ nm ["a", "mx", "ex", "com"]⟩),
            (key ["a", "mx", "ex", "com"], some ⟨1, 86400, 1, [1, 2, 3, 4]⟩)] := by
  decide +kernel

/-- `Sdom,ip,x,port`: the target is `x.srv.dom` (priority 0, weight 0, long TTL). -/
theorem name_expansion_srv :
    compiled "Sex.com,1.2.3.4,a,80" =
      some [(key ["ex", "com"], some ⟨33, 86400, 0,
              be16 0 ++ be16 0 ++ be16 80 ++ nm ["a", "srv", "ex", "com"]⟩),
            (key ["a", "srv", "ex", "com"], some ⟨1, 86400, 1, [1, 2, 3, 4]⟩)] := by
  decide +kernel

/-- a name with a dot is kept as given -/
theorem name_expansion_dotted :
    compiled "&ex.com,,ns1.other.org" =
      some [(key ["ex", "com"], some ⟨2, 259200, 0, nm ["ns1", "other", "org"]⟩)] := by
  decide +kernel

/-! ## 2. row round trip -/

/-- The server's row parser applied to a row the compiler wrote (head from `putrrhead`, then the
weight for address records, then the rdata) returns the declared fields — or the wildcard
mismatch signal when the lookup's wildcard flag differs from the record's. -/
theorem extractRR_putrrhead (t ttl weight : Nat) (lo : Option Bytes) (wild w : Bool)
    (body rdata : Bytes) (ht : t < 65536) (httl : ttl < 2 ^ 32)
    (hlo : lo = none ∨ ∃ l, lo = some l ∧ l.length = 2)
    (hbody : if t = 1 ∨ t = 28 then weight < 2 ^ 32 ∧ body = be32 weight ++ rdata
             else weight = 0 ∧ rdata = body) :
    extractRR (putrrhead t ttl lo wild ++ body) w =
      if w ≠ wild then .mismatch else .row ⟨t, ttl, weight, rdata⟩ := by
  have hlo' : ∀ l, lo = some l → l.length = 2 := by
    intro l hl
    rcases hlo with h | ⟨l', h, hlen⟩
    · rw [h] at hl; cases hl
    · rw [h] at hl; cases hl; exact hlen
  rw [extractRR_putrrhead_body t ttl lo wild w body ht httl hlo']
  by_cases hw : w ≠ wild
  · rw [if_pos hw, if_pos hw]
  · rw [if_neg hw, if_neg hw]
    by_cases h : t = 1 ∨ t = 28
    · rw [if_pos h] at hbody
      rw [hbody.2, afterHead_addr t ttl weight rdata h hbody.1]
    · rw [if_neg h] at hbody
      rw [hbody.1, hbody.2, afterHead_other t ttl body (by omega)]

/-- non-vacuity: a tagged wildcard AAAA row and an untagged MX row -/
example : extractRR (putrrhead 28 300 (some [0x61, 0x62]) true ++ (be32 5 ++ [1, 2])) true
    = .row ⟨28, 300, 5, [1, 2]⟩ := by
  rw [extractRR_putrrhead 28 300 5 (some [0x61, 0x62]) true true _ [1, 2] (by decide) (by decide)
    (Or.inr ⟨_, rfl, rfl⟩) (by simp)]
  simp

end DnsVerif.Props.C01
