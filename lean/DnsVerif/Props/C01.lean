/-
C01 — Served answers are exactly what the data file declares.

Property theorems only; helper lemmas are in `Proofs/ServeRefine.lean`.

1. `facts_match_spec`, `default_ttl_*`, `name_expansion_*`: the constants extracted from the Go
   source are the documented tinydns / dnsrocks values, and the model codec applies them.
2. `extractRR_putrrhead`: the server's row parser inverts the compiler's row head.
3. `spec_*`: the four sentences of the statement, as corollaries of `Spec.answer` alone.
4. `cut_refines`, `findAnswer_refines`, `serve_v1_refines_spec`: on any store that holds exactly the
   rows of a well-formed record list under the v1 key layout (CDB and RocksDB v1), the handler
   model returns `Spec.answer`. `serve_v1_refines_spec_anycase` / `file_served_as_declared_anycase`:
   the same for NS / MX targets written in any letter case, the additional section up to the
   letter case of its owner names.
5. `answer_perm_invariant`, `serve_v1_refines_spec_file_order`: `Spec.answer` is a function of the
   multiset of declared records (up to order inside sections), so the refinement holds against the
   record list in file order.
6. `file_represents_declared`, `file_served_as_declared`: the store the model compiler builds from a
   data file (`Pipeline.compile`) holds exactly the rows of the records the Spec oracle decodes from
   the same file (`Pipeline.zoneOf`); hence the handler model on the compiled file returns
   `Spec.answer` of the declared zone. Helper lemmas are in `Proofs/Pipeline.lean`.
7. `file_represents_declared_v2`, `file_served_as_declared_v2` (+ `_anycase`, `_file_order`),
   `file_served_alike_all_layouts`: the same for the RocksDB v2 key layout (`compile .rdbV2`), so the
   pipeline theorem covers all three storage configurations. Helper lemmas are in
   `Proofs/PipelineV2.lean`.
-/
import DnsVerif.Proofs.ServeRefine
import DnsVerif.Proofs.Pipeline
import DnsVerif.Proofs.PipelineV2
import DnsVerif.Proofs.ViewSort

namespace DnsVerif.Props.C01
open DnsVerif DnsVerif.Codec DnsVerif.Serve DnsVerif.Name DnsVerif.ServeRefine

/-! ## 1. constants and defaults -/

/-- The constants re-extracted from `dnsdata/data.go` are the documented ones. -/
theorem facts_match_spec :
    Generated.dnsdata_LongTTL = 86400 ∧ Generated.dnsdata_ShortTTL = 2560 ∧
    Generated.dnsdata_LinkTTL = 259200 ∧ Generated.dnsdata_NUMFIELDS = 15 ∧
    Generated.dnsdata_SEP = [58] ∧ Generated.dnsdata_NSEP = [44] ∧
    Generated.dnsdata_ResourceRecordsKeyMarker = [0, 111] ∧
    Generated.dnsdata_RangePointKeyMarker = [0, 0, 0, 33] ∧
    Generated.dnsdata_FeaturesKey = [0, 111, 95, 102, 101, 97, 116, 117, 114, 101, 115] := by
  decide

/-- a row as the server parses it (non-wildcard lookup) -/
def rowOf (v : Bytes) : Option Row :=
  match extractRR v false with
  | .row r => some r
  | _ => none

/-- one data line through the model codec (v1 keys, serial 7, no SVCB): keys and parsed rows -/
def compiled (line : String) : Option (List (Bytes × Option Row)) :=
  match convertLine { serial := 7 } (fun _ => none) (Bytes.ofString line) with
  | .ok lo => some (lo.kvs.map fun kv => (kv.1, rowOf kv.2))
  | .error _ => none

/-- wire form of a name given as text labels -/
def nm (labels : List String) : Bytes := Name.pack (labels.map Bytes.ofString)

/-- the v1 key of an untagged name -/
def key (labels : List String) : Bytes := [0, 0] ++ nm labels

/-- `+` line without TTL: an A row with the long TTL (86400) and weight 1. -/
theorem default_ttl_addr :
    compiled "+www.ex.com,1.2.3.4" =
      some [(key ["www", "ex", "com"], some ⟨1, 86400, 1, [1, 2, 3, 4]⟩)]
    ∧ Generated.dnsdata_LongTTL = 86400 := by
  decide +kernel

/-- `&` line without TTL: an NS row with the link TTL (259200). -/
theorem default_ttl_ns :
    compiled "&ex.com,,ns1.ex.com" =
      some [(key ["ex", "com"], some ⟨2, 259200, 0, nm ["ns1", "ex", "com"]⟩)]
    ∧ Generated.dnsdata_LinkTTL = 259200 := by
  decide +kernel

/-- `Z` line with only the names: SOA TTL 2560, serial from the compiler, refresh / retry /
expire / minimum 16384 / 2048 / 1048576 / 2560. -/
theorem default_ttl_soa :
    compiled "Zex.com,ns1.ex.com,admin.ex.com" =
      some [(key ["ex", "com"], some ⟨6, 2560, 0,
        nm ["ns1", "ex", "com"] ++ nm ["admin", "ex", "com"] ++ be32 7 ++ be32 16384 ++ be32 2048
          ++ be32 1048576 ++ be32 2560⟩)]
    ∧ Generated.dnsdata_ShortTTL = 2560 := by
  decide +kernel

/-- `.` line: SOA (short TTL, `hostmaster.<dom>`) + NS (link TTL) + A of the server when an
address is given. -/
theorem default_ttl_dot :
    compiled ".ex.com,1.2.3.4,a" =
      some [(key ["ex", "com"], some ⟨6, 2560, 0,
              nm ["a", "ns", "ex", "com"] ++ nm ["hostmaster", "ex", "com"] ++ be32 7 ++ be32 16384
                ++ be32 2048 ++ be32 1048576 ++ be32 2560⟩),
            (key ["ex", "com"], some ⟨2, 259200, 0, nm ["a", "ns", "ex", "com"]⟩),
            (key ["a", "ns", "ex", "com"], some ⟨1, 259200, 1, [1, 2, 3, 4]⟩)] := by
  decide +kernel

theorem default_ttl_dot_noaddr :
    compiled ".ex.com,,a" =
      some [(key ["ex", "com"], some ⟨6, 2560, 0,
              nm ["a", "ns", "ex", "com"] ++ nm ["hostmaster", "ex", "com"] ++ be32 7 ++ be32 16384
                ++ be32 2048 ++ be32 1048576 ++ be32 2560⟩),
            (key ["ex", "com"], some ⟨2, 259200, 0, nm ["a", "ns", "ex", "com"]⟩)] := by
  decide +kernel

/-- `&dom,ip,x` with `x` dot-free: the server is `x.ns.dom`, and its address is declared there. -/
theorem name_expansion_ns :
    compiled "&ex.com,1.2.3.4,a" =
      some [(key ["ex", "com"], some ⟨2, 259200, 0, nm ["a", "ns", "ex", "com"]⟩),
            (key ["a", "ns", "ex", "com"], some ⟨1, 259200, 1, [1, 2, 3, 4]⟩)] := by
  decide +kernel

/-- `@dom,ip,x`: the exchanger is `x.mx.dom` (distance 0, long TTL). -/
theorem name_expansion_mx :
    compiled "@ex.com,1.2.3.4,a" =
      some [(key ["ex", "com"], some ⟨15, 86400, 0, be16 0 ++ nm ["a", "mx", "ex", "com"]⟩),
            (key ["a", "mx", "ex", "com"], some ⟨1, 86400, 1, [1, 2, 3, 4]⟩)] := by
  decide +kernel

/-- `Sdom,ip,x,port`: the target is `x.srv.dom` (priority 0, weight 0, long TTL). -/
theorem name_expansion_srv :
    compiled "Sex.com,1.2.3.4,a,80" =
      some [(key ["ex", "com"], some ⟨33, 86400, 0,
              be16 0 ++ be16 0 ++ be16 80 ++ nm ["a", "srv", "ex", "com"]⟩),
            (key ["a", "srv", "ex", "com"], some ⟨1, 86400, 1, [1, 2, 3, 4]⟩)] := by
  decide +kernel

/-- a name with a dot is kept as given -/
theorem name_expansion_dotted :
    compiled "&ex.com,,ns1.other.org" =
      some [(key ["ex", "com"], some ⟨2, 259200, 0, nm ["ns1", "other", "org"]⟩)] := by
  decide +kernel

/-- The documented defaults written in the spec (`Spec.defaultTTL`, `Spec.defaultSoaTimers`:
literals from the tinydns-data / dnsrocks documentation) are the extracted constants the model
codec applies above. -/
theorem spec_defaults_match_facts :
    Spec.defaultTTL 0x2b 1 = Generated.dnsdata_LongTTL ∧      -- + line, A
    Spec.defaultTTL 0x40 15 = Generated.dnsdata_LongTTL ∧     -- @ line, MX
    Spec.defaultTTL 0x26 2 = Generated.dnsdata_LinkTTL ∧      -- & line, NS
    Spec.defaultTTL 0x2e 2 = Generated.dnsdata_LinkTTL ∧      -- . line, NS
    Spec.defaultTTL 0x2e 6 = Generated.dnsdata_ShortTTL ∧     -- . line, SOA
    Spec.defaultTTL 0x5a 6 = Generated.dnsdata_ShortTTL ∧     -- Z line, SOA
    Spec.defaultSoaTimers = [16384, 2048, 1048576, 2560] := by
  decide

/-! ## 2. row round trip -/

/-- The server's row parser applied to a row the compiler wrote (head from `putrrhead`, then the
weight for address records, then the rdata) returns the declared fields — or the wildcard
mismatch signal when the lookup's wildcard flag differs from the record's. -/
theorem extractRR_putrrhead (t ttl weight : Nat) (lo : Option Bytes) (wild w : Bool)
    (body rdata : Bytes) (ht : t < 65536) (httl : ttl < 2 ^ 32)
    (hlo : lo = none ∨ ∃ l, lo = some l ∧ l.length = 2)
    (hbody : if t = 1 ∨ t = 28 then weight < 2 ^ 32 ∧ body = be32 weight ++ rdata
             else weight = 0 ∧ rdata = body) :
    extractRR (putrrhead t ttl lo wild ++ body) w =
      if w ≠ wild then .mismatch else .row ⟨t, ttl, weight, rdata⟩ := by
  have hlo' : ∀ l, lo = some l → l.length = 2 := by
    intro l hl
    rcases hlo with h | ⟨l', h, hlen⟩
    · rw [h] at hl; cases hl
    · rw [h] at hl; cases hl; exact hlen
  rw [extractRR_putrrhead_body t ttl lo wild w body ht httl hlo']
  by_cases hw : w ≠ wild
  · rw [if_pos hw, if_pos hw]
  · rw [if_neg hw, if_neg hw]
    by_cases h : t = 1 ∨ t = 28
    · rw [if_pos h] at hbody
      rw [hbody.2, afterHead_addr t ttl weight rdata h hbody.1]
    · rw [if_neg h] at hbody
      rw [hbody.1, hbody.2, afterHead_other t ttl body (by omega)]

/-- non-vacuity: a tagged wildcard AAAA row and an untagged MX row -/
example : extractRR (putrrhead 28 300 (some [0x61, 0x62]) true ++ (be32 5 ++ [1, 2])) true
    = .row ⟨28, 300, 5, [1, 2]⟩ := by
  rw [extractRR_putrrhead 28 300 5 (some [0x61, 0x62]) true true _ [1, 2] (by decide) (by decide)
    (Or.inr ⟨_, rfl, rfl⟩) (by simp)]
  simp

/-! ## 3. the four sentences of the statement, as corollaries of `Spec.answer` alone

`specCut z q qtype l = some (cut, auth, parentServed)` names what `Spec.answer` computes first: the
closest ancestor-or-self of `q` owning a visible non-wildcard NS record (`cutOf_closest`), whether
it also owns a visible SOA (`auth`), both taken on the parent side for a DS query at a delegation. -/

section SpecSanity
open Spec

/-- a small zone used for the non-vacuity examples: `ex.com` (SOA, NS), a delegation
`sub.ex.com`, a wildcard `*.w.ex.com`, an untagged and a tagged (`ab`) address at `www.ex.com` -/
def B (s : String) : Bytes := Bytes.ofString s
def N (s : List String) : List Bytes := s.map B
def soaRd : Bytes :=
  nm ["ns1", "ex", "com"] ++ nm ["adm", "ex", "com"] ++ be32 7 ++ be32 1 ++ be32 2 ++ be32 3 ++ be32 4

def sampleRecs : List Rec := [
  ⟨N ["ex", "com"], false, [0, 0], 6, 2560, 0, soaRd⟩,
  ⟨N ["www", "ex", "com"], false, [0, 0], 1, 300, 1, [1, 2, 3, 4]⟩,
  ⟨N ["ex", "com"], false, [0, 0], 2, 259200, 0, nm ["ns1", "ex", "com"]⟩,
  ⟨N ["ns1", "ex", "com"], false, [0, 0], 1, 60, 1, [5, 5, 5, 5]⟩,
  ⟨N ["sub", "ex", "com"], false, [0, 0], 2, 259200, 0, nm ["ns", "sub", "ex", "com"]⟩,
  ⟨N ["ns", "sub", "ex", "com"], false, [0, 0], 1, 60, 1, [6, 6, 6, 6]⟩,
  ⟨N ["w", "ex", "com"], true, [0, 0], 16, 30, 0, [1, 65]⟩,
  ⟨N ["www", "ex", "com"], false, B "ab", 1, 300, 2, [1, 2, 3, 5]⟩,
  ⟨N ["ex", "com"], false, [0, 0], 15, 86400, 0, be16 10 ++ nm ["www", "ex", "com"]⟩]

def sampleZone : Zone := ⟨sampleRecs, [], []⟩

/-- REFUSED exactly when no ancestor-or-self of the name owns a visible non-wildcard NS record. -/
theorem spec_refused_iff (z : Zone) (q : List Bytes) (qtype qclass maxAns : Nat) (l : Bytes) :
    (Spec.answer z q qtype qclass maxAns l).rcode = 5 ↔
      ∀ a ∈ ancestorsOrSelf q,
        ¬ ∃ r ∈ z.recs, r.owner = a ∧ r.wild = false ∧ r.type = 2 ∧ visible l r = true :=
  ServeRefine.spec_refused_iff z q qtype qclass maxAns l

/-- A REFUSED answer is bare: not authoritative, all sections empty. -/
theorem spec_refused_empty (z : Zone) (q : List Bytes) (qtype qclass maxAns : Nat) (l : Bytes)
    (h : (Spec.answer z q qtype qclass maxAns l).rcode = 5) :
    let A := Spec.answer z q qtype qclass maxAns l
    A.aa = false ∧ A.answer = [] ∧ A.answerAddrs = [] ∧ A.authority = [] ∧ A.additional = [] :=
  ServeRefine.spec_refused_empty z q qtype qclass maxAns l h

example : (Spec.answer sampleZone (N ["www", "other", "org"]) 1 1 1 [0, 0]).rcode = 5 := by
  decide +kernel
example : (Spec.answer sampleZone (N ["www", "ex", "com"]) 1 1 1 [0, 0]).rcode = 0 := by
  decide +kernel

/-- NXDOMAIN exactly when the answer is authoritative and `recordsFor` is empty … -/
theorem spec_nxdomain_iff (z : Zone) (q : List Bytes) (qtype qclass maxAns : Nat) (l : Bytes) :
    (Spec.answer z q qtype qclass maxAns l).rcode = 3 ↔
      ∃ cut ps, specCut z q qtype l = some (cut, true, ps) ∧ recordsFor z.recs l q cut = [] :=
  ServeRefine.spec_nxdomain_iff z q qtype qclass maxAns l

/-- … and `recordsFor` is empty exactly when neither the name nor any covering wildcard owns a
visible record. -/
theorem spec_no_records_iff (recs : List Rec) (l : Bytes) (q cut : List Bytes) :
    recordsFor recs l q cut = [] ↔
      (∀ r ∈ recs, ¬ (r.owner = q ∧ r.wild = false ∧ visible l r = true)) ∧
      ∀ stripped p, CoveredBy q cut stripped p →
        ∀ r ∈ recs, ¬ (r.owner = p ∧ r.wild = true ∧ visible l r = true) :=
  recordsFor_eq_nil_iff recs l q cut

example : (Spec.answer sampleZone (N ["nope", "ex", "com"]) 1 1 1 [0, 0]).rcode = 3 := by
  decide +kernel
-- a name covered by a wildcard is NODATA for another type, not NXDOMAIN
example : (Spec.answer sampleZone (N ["x", "w", "ex", "com"]) 1 1 1 [0, 0]).rcode = 0 := by
  decide +kernel

/-- An authoritative answer whose answer section is empty (no plain record, no address candidate of
positive weight) has exactly the visible SOA of the cut as its authority section. -/
theorem spec_empty_auth_has_soa (z : Zone) (q : List Bytes) (qtype qclass maxAns : Nat) (l : Bytes)
    (haa : (Spec.answer z q qtype qclass maxAns l).aa = true)
    (hans : (Spec.answer z q qtype qclass maxAns l).answer = [])
    (hgrp : ∀ g ∈ (Spec.answer z q qtype qclass maxAns l).answerAddrs, ∀ c ∈ g.cands, c.2.1 = 0) :
    ∃ cut ps r, specCut z q qtype l = some (cut, true, ps) ∧ r ∈ z.recs ∧ r.owner = cut ∧
      r.wild = false ∧ r.type = 6 ∧ visible l r = true ∧
      (Spec.answer z q qtype qclass maxAns l).authority = [⟨cut, 6, 1, r.ttl, r.rdata⟩] :=
  ServeRefine.spec_empty_auth_has_soa z q qtype qclass maxAns l haa hans hgrp

example : (Spec.answer sampleZone (N ["nope", "ex", "com"]) 1 1 1 [0, 0]).authority
    = [⟨N ["ex", "com"], 6, 1, 2560, soaRd⟩] := by
  decide +kernel

/-- What `recordsFor` returns: the name's own visible records; or — only when it has none —
visible wildcard records `*.p` where `p` is reached from the name by stripping at least one label,
every stripped label is wild-safe, and the cut is not crossed (`CoveredBy`). -/
theorem spec_wildcard_scope (recs : List Rec) (l : Bytes) (q cut : List Bytes) (r : Rec)
    (h : r ∈ recordsFor recs l q cut) :
    r ∈ recs ∧ visible l r = true ∧
      ((r.owner = q ∧ r.wild = false) ∨
       ((∀ r' ∈ recs, ¬ (r'.owner = q ∧ r'.wild = false ∧ visible l r' = true)) ∧ r.wild = true ∧
          ∃ stripped, q = stripped ++ r.owner ∧ stripped ≠ [] ∧
            (∀ lab ∈ stripped, wildsafe lab = true) ∧
            ∀ j, j < stripped.length → q.drop j ≠ cut)) :=
  recordsFor_mem recs l q cut r h

example : recordsFor sampleRecs [0, 0] (N ["x", "y", "w", "ex", "com"]) (N ["ex", "com"])
    = [⟨N ["w", "ex", "com"], true, [0, 0], 16, 30, 0, [1, 65]⟩] := by
  decide +kernel
-- a label that is not wild-safe stops the walk
example : recordsFor sampleRecs [0, 0] (N ["a!b", "w", "ex", "com"]) (N ["ex", "com"]) = [] := by
  decide +kernel

/-- At or below a delegation (the cut owns no visible SOA; for DS the parent side is served):
NOERROR, not authoritative, empty answer, authority = the visible NS records of the cut. -/
theorem spec_referral (z : Zone) (q : List Bytes) (qtype qclass maxAns : Nat) (l : Bytes)
    (cut : List Bytes) (hs : specCut z q qtype l = some (cut, false, true)) :
    let A := Spec.answer z q qtype qclass maxAns l
    A.rcode = 0 ∧ A.aa = false ∧ A.answer = [] ∧ A.answerAddrs = [] ∧
      A.authority = (z.recs.filter fun r => r.owner = cut ∧ r.wild = false ∧ r.type = 2 ∧ visible l r).map
        fun r => ⟨cut, 2, qclass, r.ttl, r.rdata⟩ :=
  ServeRefine.spec_referral z q qtype qclass maxAns l cut hs

/-- for every query type but DS, `specCut` is the closest NS owner and its SOA flag -/
theorem specCut_plain (z : Zone) (q : List Bytes) (qtype : Nat) (l : Bytes) (cut : List Bytes)
    (hq : qtype ≠ 43) (hc : cutOf z.recs l q = some cut) :
    specCut z q qtype l = some (cut, hasT z.recs l cut 6, true) :=
  ServeRefine.specCut_plain z q qtype l cut hq hc

example : specCut sampleZone (N ["a", "sub", "ex", "com"]) 1 [0, 0]
    = some (N ["sub", "ex", "com"], false, true) := by
  decide +kernel
example : (Spec.answer sampleZone (N ["a", "sub", "ex", "com"]) 1 1 1 [0, 0]).additional
    = [⟨N ["ns", "sub", "ex", "com"], 1, 1, [(60, 1, [6, 6, 6, 6])], 1⟩] := by
  decide +kernel

end SpecSanity

/-! ## 4. refinement on the v1 key layout (CDB and RocksDB v1)

Vocabulary (all in `Proofs/ServeRefine.lean`, all decidable where they are predicates on data):

* `NameOK ls` — labels non-empty, shorter than 64 bytes, lower-case; wire length ≤ 255.
* `rowOfRec r` — the row of a record: `putrrhead` (untagged iff `r.loc = [0,0]`), weight for A/AAAA, rdata.
* `RepresentsAt s recs loc` — for every `NameOK` name, `s.get (loc ++ pack name)` is the list of
  rows of the records with that owner and location tag, in order; `Represents` = for every 2-byte tag.
  The theorems need it only for the untagged key space and the client's own location.
* `WellFormed recs` — (1) field ranges (`RecOK`: type < 2^16, ttl < 2^32, 2-byte location, weight < 2^32
  on A/AAAA); (2) `SoaHasNs`: the owner of a non-wildcard SOA owns a non-wildcard NS visible in every
  view that sees the SOA; (3) `NsParse`: the rdata of a non-wildcard NS record is exactly one wire name.
* `viewSort l recs` — the records tagged `l` first, then the others (a stable partition). The v1
  readers visit location-tagged rows before untagged ones, so sections come out in this order; it
  is a permutation of `recs`, and nothing else about the answer depends on it.
* `ofSpec`, `ofSpecRR`, `ofSpecGroup` — a `Spec.Answer` as a `Serve.Response` (owners packed). -/

section Refinement
open Spec DnsVerif.Loc

/-- (a) The zone-cut walk returns the spec's cut: the closest ancestor-or-self owning a visible
non-wildcard NS (`ns = true`, `auth` = it also owns a visible SOA), and `⟨false, false, [0]⟩` — the
root, nothing found — when no ancestor does. -/
theorem cut_refines (b : Backend) (s : Store) (recs : List Rec) (l : Bytes)
    (h0 : RepresentsAt s recs [0, 0]) (hl : RepresentsAt s recs l) (hwf : WellFormed recs)
    (q : List Bytes) (hq : NameOK q) :
    isAuthoritativeV1 ⟨b, s, l⟩ ((pack q).length + 1) (pack q) false false =
      .ok (match cutOf recs l q with
           | some c => ⟨true, hasT recs l c 6, pack c⟩
           | none => ⟨false, false, [0]⟩) :=
  cut_walk b s recs l h0 hl hwf.1 hwf.2.1 q hq _ (Nat.lt_succ_of_lt (length_lt_pack q))

/-- (b) The answer walk returns `recordsFor`: `recordFound` iff it is non-empty, and the matching
records (type = qtype, or CNAME, or qtype = ANY) split into plain records, A and AAAA candidates,
each in `viewSort` order (`ansOf` spells this out). -/
theorem findAnswer_refines (b : Backend) (s : Store) (recs : List Rec) (l : Bytes)
    (h0 : RepresentsAt s recs [0, 0]) (hl : RepresentsAt s recs l) (hwf : WellFormed recs)
    (q cut : List Bytes) (hq : NameOK q) (hcut : NameOK cut) (qnameOut : Bytes) (qtype : Nat) :
    findAnswerV1 ⟨b, s, l⟩ (pack cut) qnameOut qtype ((pack q).length + 1) (pack q) false {} =
      ansOf qnameOut qtype (recordsFor (viewSort l recs) l q cut) :=
  findAnswer_recordsFor b s recs l h0 hl hwf.1 cut hcut.1 qnameOut qtype q hq _
    (Nat.lt_succ_of_lt (length_lt_pack q))

/-- what `ansOf` holds, field by field -/
theorem ansOf_fields (qn : Bytes) (qt : Nat) (rs : List Rec) :
    (ansOf qn qt rs).recordFound = !rs.isEmpty ∧
    (ansOf qn qt rs).rrs =
      ((rs.filter fun r => r.type = 5 ∨ r.type = qt ∨ qt = 255).filter fun r => r.type ≠ 1 ∧ r.type ≠ 28).map
        (fun r => ⟨qn, r.type, 1, r.ttl, r.rdata⟩) ∧
    (ansOf qn qt rs).a4 =
      ((rs.filter fun r => r.type = 5 ∨ r.type = qt ∨ qt = 255).filter fun r => r.type = 1).map
        (fun r => ⟨r.ttl, r.weight, r.rdata⟩) ∧
    (ansOf qn qt rs).a6 =
      ((rs.filter fun r => r.type = 5 ∨ r.type = qt ∨ qt = 255).filter fun r => r.type = 28).map
        (fun r => ⟨r.ttl, r.weight, r.rdata⟩) :=
  ⟨rfl, rfl, rfl, rfl⟩

/-- (c), every section but the additional one: for a lower-case query `q`, `serve` replies, and
rcode, AA, answer records, answer address groups and the authority section are exactly those of
`Spec.answer` (DS queries included). The additional section is the model's `additionalFor` run over
those spec sections (`respOf`); `serve_v1_refines_spec` below resolves it. -/
theorem serve_v1_refines_spec_core (b : Backend) (hb : b ≠ .rdbV2) (s : Store) (recs : List Rec) (l : Bytes)
    (h0 : RepresentsAt s recs [0, 0]) (hl : RepresentsAt s recs l) (hwf : WellFormed recs)
    (q : List Bytes) (hq : NameOK q) (qtype qclass maxAns : Nat)
    (maps : List MapDecl) (subnets : List SubnetDecl) :
    ∃ extra, serve ⟨b, s, l⟩ ⟨pack q, pack q, qtype, qclass, maxAns⟩ =
      .reply { ofSpec (Spec.answer ⟨viewSort l recs, maps, subnets⟩ q qtype qclass maxAns l) with
               extra := extra } :=
  ⟨_, serve_v1_core b hb s recs l h0 hl hwf q hq qtype qclass maxAns maps subnets⟩

/-- (c) **Refinement.** On a store holding exactly the rows of a well-formed record list under the v1
key layout (CDB in either bitmap mode, RocksDB v1), for a `NameOK` (lower-case) query name, every
qtype (DS included), class, answer limit and client location `l`, the handler model replies with
exactly `Spec.answer` — rcode, AA, answer records, answer address groups (candidate lists and
maximum; the choice among candidates is C11), authority and additional sections, each as a list in
the order the v1 readers produce (`viewSort`).

`TargetsOK` is the forced hypothesis on the additional section: the names it is built for (NS / MX
targets as written in the rdata, the owner of HTTPS answers) are `NameOK` — in particular
lower-case, since the handler keeps the rdata's case in the owner of additional records while the
spec lower-cases (this is all the lower-case requirement is still needed for, since `HasRecord`
compares case-insensitively: `serve_v1_refines_spec_anycase` below drops it and concludes equality
up to the letter case of additional owner names) — and pairwise distinct, since the handler's
duplicate suppression (`HasRecord` on the message built so far) does not see a group none of whose
candidates has positive weight. Counterexamples for both: `upperTarget`, `dupTarget` below. -/
theorem serve_v1_refines_spec (b : Backend) (hb : b ≠ .rdbV2) (s : Store) (recs : List Rec) (l : Bytes)
    (h0 : RepresentsAt s recs [0, 0]) (hl : RepresentsAt s recs l) (hwf : WellFormed recs)
    (q : List Bytes) (hq : NameOK q) (qtype qclass maxAns : Nat)
    (maps : List MapDecl) (subnets : List SubnetDecl)
    (ht : TargetsOK ((Spec.answer ⟨viewSort l recs, maps, subnets⟩ q qtype qclass maxAns l).answer ++
                     (Spec.answer ⟨viewSort l recs, maps, subnets⟩ q qtype qclass maxAns l).authority)) :
    serve ⟨b, s, l⟩ ⟨pack q, pack q, qtype, qclass, maxAns⟩ =
      .reply (ofSpec (Spec.answer ⟨viewSort l recs, maps, subnets⟩ q qtype qclass maxAns l)) :=
  serve_v1_full b hb s recs l h0 hl hwf q hq qtype qclass maxAns maps subnets ht

/-- the same from `Represents` (all location tags) and an explicit backend -/
theorem serve_v1_refines_spec_rep (b : Backend) (hb : (∃ sep, b = .cdb sep) ∨ b = .rdbV1) (s : Store)
    (recs : List Rec) (l : Bytes) (hl2 : l.length = 2) (hrep : Represents s recs) (hwf : WellFormed recs)
    (q : List Bytes) (hq : NameOK q) (qtype qclass maxAns : Nat)
    (maps : List MapDecl) (subnets : List SubnetDecl)
    (ht : TargetsOK ((Spec.answer ⟨viewSort l recs, maps, subnets⟩ q qtype qclass maxAns l).answer ++
                     (Spec.answer ⟨viewSort l recs, maps, subnets⟩ q qtype qclass maxAns l).authority)) :
    serve ⟨b, s, l⟩ ⟨pack q, pack q, qtype, qclass, maxAns⟩ =
      .reply (ofSpec (Spec.answer ⟨viewSort l recs, maps, subnets⟩ q qtype qclass maxAns l)) := by
  have hb' : b ≠ .rdbV2 := by
    rcases hb with ⟨sep, h⟩ | h <;> rw [h] <;> intro h' <;> cases h'
  exact serve_v1_full b hb' s recs l (hrep [0, 0] rfl) (hrep l hl2) hwf q hq qtype qclass maxAns maps subnets ht

/-- `Represents` is satisfiable: the store obtained by writing every record's row under its v1 key
represents the record list (owners `NameOK`-labelled, tags two bytes). -/
theorem represents_storeOf (recs : List Rec) (h : OwnersOK recs) : Represents (storeOf recs) recs :=
  ServeRefine.represents_storeOf recs h

/-! non-vacuity: the sample zone satisfies every hypothesis, for a client in location `ab` -/

example : WellFormed sampleRecs := by decide +kernel
example : OwnersOK sampleRecs := by decide +kernel

example :
    serve ⟨.rdbV1, storeOf sampleRecs, B "ab"⟩
        ⟨pack (N ["www", "ex", "com"]), pack (N ["www", "ex", "com"]), 1, 1, 2⟩ =
      .reply (ofSpec (Spec.answer ⟨viewSort (B "ab") sampleRecs, [], []⟩ (N ["www", "ex", "com"]) 1 1 2 (B "ab"))) :=
  serve_v1_refines_spec_rep .rdbV1 (Or.inr rfl) _ sampleRecs (B "ab") (by decide +kernel)
    (represents_storeOf sampleRecs (by decide +kernel)) (by decide +kernel) _ (by decide +kernel) 1 1 2 [] []
    (by decide +kernel)

-- … and that answer holds both addresses, the one tagged `ab` first
example :
    (Spec.answer ⟨viewSort (B "ab") sampleRecs, [], []⟩ (N ["www", "ex", "com"]) 1 1 2 (B "ab")).answerAddrs
      = [⟨N ["www", "ex", "com"], 1, 1, [(300, 2, [1, 2, 3, 5]), (300, 1, [1, 2, 3, 4])], 2⟩] := by
  decide +kernel

-- an MX query: the additional section carries the exchanger's address (TargetsOK holds)
example :
    serve ⟨.cdb false, storeOf sampleRecs, [0, 0]⟩
        ⟨pack (N ["ex", "com"]), pack (N ["ex", "com"]), 15, 1, 1⟩ =
      .reply (ofSpec (Spec.answer ⟨viewSort [0, 0] sampleRecs, [], []⟩ (N ["ex", "com"]) 15 1 1 [0, 0])) :=
  serve_v1_refines_spec_rep (.cdb false) (Or.inl ⟨false, rfl⟩) _ sampleRecs [0, 0] rfl
    (represents_storeOf sampleRecs (by decide +kernel)) (by decide +kernel) _ (by decide +kernel) 15 1 1 [] []
    (by decide +kernel)

example :
    (Spec.answer ⟨viewSort [0, 0] sampleRecs, [], []⟩ (N ["ex", "com"]) 15 1 1 [0, 0]).additional
      = [⟨N ["www", "ex", "com"], 1, 1, [(300, 1, [1, 2, 3, 4])], 1⟩] := by
  decide +kernel

/-! The additional section when the rdata spells NS / MX targets in any letter case.

Since commit "fix: HasRecord compares owner names case-insensitively" the lower-case half of
`TargetsOK` is needed for one thing only: the handler copies the rdata's spelling of the target into
the owner name of the additional records, the spec lower-cases it. `TargetsLowOK` asks of the
*lower-cased* targets (`targetsOf`) what `TargetsOK` asks of the targets as written: storable
(`NameOK`) and pairwise distinct. Under it the reply is `Spec.answer` in every field, the additional
section up to the letter case of its owner names (`ServeKey.lowGroup` lower-cases the owner). -/

/-- `TargetsOK` implies `TargetsLowOK` -/
theorem targetsLowOK_of_targetsOK (rrs : List OutRR) (h : TargetsOK rrs) : TargetsLowOK rrs :=
  ServeRefine.targetsLowOK_of_targetsOK rrs h

/-- **Refinement, targets in any letter case.** Hypotheses of `serve_v1_refines_spec` with
`TargetsLowOK` in place of `TargetsOK`: the handler replies; rcode, AA, answer records, answer
address groups and authority are literally the spec's; the additional section is the spec's once
its owner names are lower-cased (types, classes, candidate lists, limits, order: literally equal). -/
theorem serve_v1_refines_spec_anycase (b : Backend) (hb : b ≠ .rdbV2) (s : Store) (recs : List Rec) (l : Bytes)
    (h0 : RepresentsAt s recs [0, 0]) (hl : RepresentsAt s recs l) (hwf : WellFormed recs)
    (q : List Bytes) (hq : NameOK q) (qtype qclass maxAns : Nat)
    (maps : List MapDecl) (subnets : List SubnetDecl)
    (ht : TargetsLowOK ((Spec.answer ⟨viewSort l recs, maps, subnets⟩ q qtype qclass maxAns l).answer ++
                        (Spec.answer ⟨viewSort l recs, maps, subnets⟩ q qtype qclass maxAns l).authority)) :
    ∃ extra, serve ⟨b, s, l⟩ ⟨pack q, pack q, qtype, qclass, maxAns⟩ =
        .reply { ofSpec (Spec.answer ⟨viewSort l recs, maps, subnets⟩ q qtype qclass maxAns l) with
                 extra := extra } ∧
      extra.map ServeKey.lowGroup =
        (Spec.answer ⟨viewSort l recs, maps, subnets⟩ q qtype qclass maxAns l).additional.map ofSpecGroup :=
  serve_v1_full_ci b hb s recs l h0 hl hwf q hq qtype qclass maxAns maps subnets ht

/-- `x.` with an MX record whose target is written `M.x.` in the rdata; `m.x.` has an address -/
def upperTarget : List Rec := [
  ⟨N ["x"], false, [0, 0], 6, 60, 0, soaRd⟩,
  ⟨N ["x"], false, [0, 0], 2, 60, 0, nm ["ns", "x"]⟩,
  ⟨N ["m", "x"], false, [0, 0], 1, 60, 1, [1, 2, 3, 4]⟩,
  ⟨N ["x"], false, [0, 0], 15, 60, 0, be16 10 ++ nm ["M", "x"]⟩]

/-- `x.` with two MX records for the same target `m.x.`, whose address has weight 0 -/
def dupTarget : List Rec := [
  ⟨N ["x"], false, [0, 0], 6, 60, 0, soaRd⟩,
  ⟨N ["x"], false, [0, 0], 2, 60, 0, nm ["ns", "x"]⟩,
  ⟨N ["m", "x"], false, [0, 0], 1, 60, 0, [1, 2, 3, 4]⟩,
  ⟨N ["x"], false, [0, 0], 15, 60, 0, be16 10 ++ nm ["m", "x"]⟩,
  ⟨N ["x"], false, [0, 0], 15, 60, 0, be16 20 ++ nm ["m", "x"]⟩]

def extraOf : Outcome → Option (List AddrGroup)
  | .reply r => some r.extra
  | _ => none

def mxQuery : Query := ⟨pack (N ["x"]), pack (N ["x"]), 15, 1, 1⟩

/-- non-vacuity of `serve_v1_refines_spec_anycase`, and the lower-case half of `TargetsOK` is forced
for literal equality: with the target written `M.x.`, `TargetsLowOK` holds, `TargetsOK` does not;
the handler's additional record is owned by `M.x.`, the spec's by `m.x.` — the reply is NOT
`ofSpec (Spec.answer …)`, and it is once the additional owner is lower-cased. -/
example :
    let A := Spec.answer ⟨viewSort [0, 0] upperTarget, [], []⟩ (N ["x"]) 15 1 1 [0, 0]
    TargetsLowOK (A.answer ++ A.authority) ∧ ¬ TargetsOK (A.answer ++ A.authority) ∧
    extraOf (serve ⟨.cdb false, storeOf upperTarget, [0, 0]⟩ mxQuery) =
      some [⟨pack (N ["M", "x"]), 1, 1, [⟨60, 1, [1, 2, 3, 4]⟩], 1⟩] ∧
    A.additional = [⟨N ["m", "x"], 1, 1, [(60, 1, [1, 2, 3, 4])], 1⟩] ∧
    serve ⟨.cdb false, storeOf upperTarget, [0, 0]⟩ mxQuery ≠ .reply (ofSpec A) ∧
    ∃ extra, serve ⟨.cdb false, storeOf upperTarget, [0, 0]⟩ mxQuery = .reply { ofSpec A with extra := extra } ∧
      extra.map ServeKey.lowGroup = A.additional.map ofSpecGroup := by
  intro A
  refine ⟨by decide +kernel, by decide +kernel, by decide +kernel, by decide +kernel, ?_, ?_⟩
  · intro h
    have h2 : extraOf (serve ⟨.cdb false, storeOf upperTarget, [0, 0]⟩ mxQuery) = extraOf (.reply (ofSpec A)) := by
      rw [h]
    exact absurd h2 (by decide +kernel)
  · exact serve_v1_refines_spec_anycase (.cdb false) (by decide) _ upperTarget [0, 0]
      (represents_storeOf upperTarget (by decide +kernel) [0, 0] rfl)
      (represents_storeOf upperTarget (by decide +kernel) [0, 0] rfl)
      (by decide +kernel) _ (by decide +kernel) 15 1 1 [] [] (by decide +kernel)

/-- distinctness is forced, also up to letter case: two MX records for one target whose address has
weight 0 — `HasRecord` looks for a *served* address, finds none, and the handler adds the group
twice; the spec adds it once. -/
example :
    let A := Spec.answer ⟨viewSort [0, 0] dupTarget, [], []⟩ (N ["x"]) 15 1 1 [0, 0]
    WellFormed dupTarget ∧ ¬ TargetsLowOK (A.answer ++ A.authority) ∧
    (extraOf (serve ⟨.cdb false, storeOf dupTarget, [0, 0]⟩ mxQuery)).map (·.map ServeKey.lowGroup) =
      some [⟨pack (N ["m", "x"]), 1, 1, [⟨60, 0, [1, 2, 3, 4]⟩], 1⟩,
            ⟨pack (N ["m", "x"]), 1, 1, [⟨60, 0, [1, 2, 3, 4]⟩], 1⟩] ∧
    A.additional.map ofSpecGroup = [⟨pack (N ["m", "x"]), 1, 1, [⟨60, 0, [1, 2, 3, 4]⟩], 1⟩] := by
  decide +kernel

/-! the hypothesis `SoaHasNs` is forced: an SOA whose owner has no NS makes the zone-cut walk carry
`auth = true` up to the next NS owner, and the handler answers authoritatively (here NXDOMAIN with
AA) where the declared data say "delegation at `ex.com`" -/

def orphanSoa : List Rec := [
  ⟨N ["a", "ex", "com"], false, [0, 0], 6, 2560, 0, soaRd⟩,
  ⟨N ["ex", "com"], false, [0, 0], 2, 259200, 0, nm ["ns1", "ex", "com"]⟩]

def flagsOf : Outcome → Option (Nat × Bool)
  | .reply r => some (r.rcode, r.aa)
  | _ => none

example : ¬ SoaHasNs orphanSoa := by decide +kernel
example :
    flagsOf (serve ⟨.rdbV1, storeOf orphanSoa, [0, 0]⟩
      ⟨pack (N ["x", "a", "ex", "com"]), pack (N ["x", "a", "ex", "com"]), 1, 1, 1⟩) = some (3, true)
    ∧ (Spec.answer ⟨orphanSoa, [], []⟩ (N ["x", "a", "ex", "com"]) 1 1 1 [0, 0]).rcode = 0
    ∧ (Spec.answer ⟨orphanSoa, [], []⟩ (N ["x", "a", "ex", "com"]) 1 1 1 [0, 0]).aa = false := by
  decide +kernel

end Refinement

/-! ## 5. the answer is a function of the multiset of declared records

`serve_v1_refines_spec` is stated against the reader's order `viewSort l recs` (rows tagged with the
client's location first). This section removes that order from the statement.

Vocabulary (`Proofs/ViewSort.lean`):
* `GroupEq g' g` — same owner, type, class and maximum; candidate lists permuted.
* `GroupsSame gs' gs` — position by position `GroupEq`. `GroupsPerm gs' gs` — some permutation of
  `gs'` is `GroupsSame` to `gs`.
* `AnswerPerm a' a` — the six components of `answer_perm_invariant` as a structure.
* `SoaDet recs l` — in the view of `l`, the non-wildcard SOA records one owner declares under one
  location tag agree on TTL and rdata (decidable). -/

section PermInvariance
open Spec DnsVerif.Loc DnsVerif.ViewSort

/-- **Permutation invariance.** For ANY permutation `recs'` of the declared records `recs` (same maps
and subnets), every query and every client location `l`: same rcode, same AA, the answer records are a
permutation, the answer address groups are the same groups in the same order (A, then AAAA) with
permuted candidate lists, the authority records are a permutation, and the additional section holds
the same groups with permuted candidate lists, possibly in another group order (the order of the
targets follows the order of the answer / authority records).

`SoaDet` is the one hypothesis, and it is forced (`soa_order_matters`): the SOA of a negative answer is
a first match (`find?`, the record tagged with the client's location preferred), so two different SOA
records declared for one owner under one tag are told apart by their order. -/
theorem answer_perm_invariant (recs' recs : List Rec) (hperm : recs'.Perm recs) (l : Bytes)
    (hsoa : SoaDet recs l) (maps : List MapDecl) (subnets : List SubnetDecl)
    (q : List Bytes) (qtype qclass maxAns : Nat) :
    let a' := Spec.answer ⟨recs', maps, subnets⟩ q qtype qclass maxAns l
    let a := Spec.answer ⟨recs, maps, subnets⟩ q qtype qclass maxAns l
    a'.rcode = a.rcode ∧ a'.aa = a.aa ∧ a'.answer.Perm a.answer ∧
      GroupsSame a'.answerAddrs a.answerAddrs ∧ a'.authority.Perm a.authority ∧
      GroupsPerm a'.additional a.additional :=
  let h := answer_perm hperm l hsoa maps subnets q qtype qclass maxAns
  ⟨h.rcode, h.aa, h.answer, h.answerAddrs, h.authority, h.additional⟩

/-- For the reader's order no hypothesis is needed: `viewSort` is a stable partition, which keeps the
first match of both SOA searches. -/
theorem answer_viewSort_invariant (recs : List Rec) (l : Bytes) (maps : List MapDecl)
    (subnets : List SubnetDecl) (q : List Bytes) (qtype qclass maxAns : Nat) :
    AnswerPerm (Spec.answer ⟨viewSort l recs, maps, subnets⟩ q qtype qclass maxAns l)
      (Spec.answer ⟨recs, maps, subnets⟩ q qtype qclass maxAns l) :=
  answer_viewSort recs l maps subnets q qtype qclass maxAns

/-- `viewSort` is a permutation of the file order. -/
theorem viewSort_is_perm (l : Bytes) (recs : List Rec) : (viewSort l recs).Perm recs :=
  viewSort_perm l recs

/-- **Refinement against the file order.** Hypotheses as in `serve_v1_refines_spec`, `TargetsOK` now
on the answer computed from the record list in FILE order: the handler replies, and its reply is
(`ofSpec` of) an answer equal to `Spec.answer` on the file-order record list up to `AnswerPerm`. -/
theorem serve_v1_refines_spec_file_order (b : Backend) (hb : b ≠ .rdbV2) (s : Store) (recs : List Rec)
    (l : Bytes) (h0 : RepresentsAt s recs [0, 0]) (hl : RepresentsAt s recs l) (hwf : WellFormed recs)
    (q : List Bytes) (hq : NameOK q) (qtype qclass maxAns : Nat)
    (maps : List MapDecl) (subnets : List SubnetDecl)
    (ht : TargetsOK ((Spec.answer ⟨recs, maps, subnets⟩ q qtype qclass maxAns l).answer ++
                     (Spec.answer ⟨recs, maps, subnets⟩ q qtype qclass maxAns l).authority)) :
    ∃ A, serve ⟨b, s, l⟩ ⟨pack q, pack q, qtype, qclass, maxAns⟩ = .reply (ofSpec A) ∧
      AnswerPerm A (Spec.answer ⟨recs, maps, subnets⟩ q qtype qclass maxAns l) := by
  have hp := answer_viewSort recs l maps subnets q qtype qclass maxAns
  exact ⟨_, serve_v1_full b hb s recs l h0 hl hwf q hq qtype qclass maxAns maps subnets
    (targetsOK_perm (hp.answer.append hp.authority) ht), hp⟩

/-- the same, read off the reply: rcode and AA are the spec's; the answer and authority sections are
permutations of the spec's records -/
theorem serve_v1_file_order_sections (b : Backend) (hb : b ≠ .rdbV2) (s : Store) (recs : List Rec)
    (l : Bytes) (h0 : RepresentsAt s recs [0, 0]) (hl : RepresentsAt s recs l) (hwf : WellFormed recs)
    (q : List Bytes) (hq : NameOK q) (qtype qclass maxAns : Nat)
    (maps : List MapDecl) (subnets : List SubnetDecl)
    (ht : TargetsOK ((Spec.answer ⟨recs, maps, subnets⟩ q qtype qclass maxAns l).answer ++
                     (Spec.answer ⟨recs, maps, subnets⟩ q qtype qclass maxAns l).authority)) :
    ∃ r, serve ⟨b, s, l⟩ ⟨pack q, pack q, qtype, qclass, maxAns⟩ = .reply r ∧
      r.rcode = (Spec.answer ⟨recs, maps, subnets⟩ q qtype qclass maxAns l).rcode ∧
      r.aa = (Spec.answer ⟨recs, maps, subnets⟩ q qtype qclass maxAns l).aa ∧
      r.answer.Perm ((Spec.answer ⟨recs, maps, subnets⟩ q qtype qclass maxAns l).answer.map ofSpecRR) ∧
      r.ns.Perm ((Spec.answer ⟨recs, maps, subnets⟩ q qtype qclass maxAns l).authority.map ofSpecRR) := by
  obtain ⟨A, hs, hp⟩ := serve_v1_refines_spec_file_order b hb s recs l h0 hl hwf q hq qtype qclass maxAns
    maps subnets ht
  exact ⟨_, hs, hp.rcode, hp.aa, hp.answer.map _, hp.authority.map _⟩

/-! non-vacuity. `orderRecs`: the MX / address records tagged `ab` are declared AFTER the untagged
ones, so a client in `ab` meets them in the opposite order. -/

def orderRecs : List Rec := [
  ⟨N ["ex", "com"], false, [0, 0], 6, 2560, 0, soaRd⟩,
  ⟨N ["ex", "com"], false, [0, 0], 2, 259200, 0, nm ["ns1", "ex", "com"]⟩,
  ⟨N ["ex", "com"], false, [0, 0], 15, 300, 0, be16 10 ++ nm ["mx1", "ex", "com"]⟩,
  ⟨N ["ex", "com"], false, B "ab", 15, 300, 0, be16 20 ++ nm ["mx2", "ex", "com"]⟩,
  ⟨N ["mx1", "ex", "com"], false, [0, 0], 1, 60, 1, [1, 1, 1, 1]⟩,
  ⟨N ["mx2", "ex", "com"], false, [0, 0], 1, 60, 1, [2, 2, 2, 1]⟩,
  ⟨N ["mx2", "ex", "com"], false, B "ab", 1, 60, 3, [2, 2, 2, 2]⟩]

-- file order and reader's order give different lists in the answer, in the additional group order
-- and inside a candidate list …
example :
    (Spec.answer ⟨orderRecs, [], []⟩ (N ["ex", "com"]) 15 1 1 (B "ab")).answer =
      [⟨N ["ex", "com"], 15, 1, 300, be16 10 ++ nm ["mx1", "ex", "com"]⟩,
       ⟨N ["ex", "com"], 15, 1, 300, be16 20 ++ nm ["mx2", "ex", "com"]⟩] ∧
    (Spec.answer ⟨viewSort (B "ab") orderRecs, [], []⟩ (N ["ex", "com"]) 15 1 1 (B "ab")).answer =
      [⟨N ["ex", "com"], 15, 1, 300, be16 20 ++ nm ["mx2", "ex", "com"]⟩,
       ⟨N ["ex", "com"], 15, 1, 300, be16 10 ++ nm ["mx1", "ex", "com"]⟩] ∧
    (Spec.answer ⟨orderRecs, [], []⟩ (N ["ex", "com"]) 15 1 1 (B "ab")).additional =
      [⟨N ["mx1", "ex", "com"], 1, 1, [(60, 1, [1, 1, 1, 1])], 1⟩,
       ⟨N ["mx2", "ex", "com"], 1, 1, [(60, 1, [2, 2, 2, 1]), (60, 3, [2, 2, 2, 2])], 1⟩] ∧
    (Spec.answer ⟨viewSort (B "ab") orderRecs, [], []⟩ (N ["ex", "com"]) 15 1 1 (B "ab")).additional =
      [⟨N ["mx2", "ex", "com"], 1, 1, [(60, 3, [2, 2, 2, 2]), (60, 1, [2, 2, 2, 1])], 1⟩,
       ⟨N ["mx1", "ex", "com"], 1, 1, [(60, 1, [1, 1, 1, 1])], 1⟩] := by
  decide +kernel

-- … and the handler's reply is the file-order answer up to `AnswerPerm` (all hypotheses hold)
example :
    ∃ A, serve ⟨.rdbV1, storeOf orderRecs, B "ab"⟩ ⟨pack (N ["ex", "com"]), pack (N ["ex", "com"]), 15, 1, 1⟩
        = .reply (ofSpec A) ∧
      AnswerPerm A (Spec.answer ⟨orderRecs, [], []⟩ (N ["ex", "com"]) 15 1 1 (B "ab")) :=
  serve_v1_refines_spec_file_order .rdbV1 (by decide) _ orderRecs (B "ab")
    (represents_storeOf orderRecs (by decide +kernel) [0, 0] rfl)
    (represents_storeOf orderRecs (by decide +kernel) (B "ab") (by decide +kernel))
    (by decide +kernel) (N ["ex", "com"]) (by decide +kernel) 15 1 1 [] [] (by decide +kernel)

-- `answer_perm_invariant` on the reversed file: hypotheses hold, and the two answers do differ
example : SoaDet orderRecs (B "ab") := by decide +kernel
example :
    (Spec.answer ⟨orderRecs.reverse, [], []⟩ (N ["ex", "com"]) 15 1 1 (B "ab")).answer ≠
      (Spec.answer ⟨orderRecs, [], []⟩ (N ["ex", "com"]) 15 1 1 (B "ab")).answer := by
  decide +kernel
example :
    GroupsPerm (Spec.answer ⟨orderRecs.reverse, [], []⟩ (N ["ex", "com"]) 15 1 1 (B "ab")).additional
      (Spec.answer ⟨orderRecs, [], []⟩ (N ["ex", "com"]) 15 1 1 (B "ab")).additional :=
  (answer_perm_invariant orderRecs.reverse orderRecs (List.reverse_perm _) (B "ab") (by decide +kernel)
    [] [] (N ["ex", "com"]) 15 1 1).2.2.2.2.2

/-! `SoaDet` is forced: two different SOA records for one owner under one tag, and the negative
answer carries whichever comes first -/

def twoSoa : List Rec := [
  ⟨N ["ex", "com"], false, [0, 0], 6, 2560, 0, soaRd⟩,
  ⟨N ["ex", "com"], false, [0, 0], 2, 259200, 0, nm ["ns1", "ex", "com"]⟩,
  ⟨N ["ex", "com"], false, [0, 0], 6, 60, 0, soaRd⟩]

theorem soa_order_matters :
    ¬ SoaDet twoSoa [0, 0] ∧ twoSoa.reverse.Perm twoSoa ∧
    (Spec.answer ⟨twoSoa, [], []⟩ (N ["nope", "ex", "com"]) 1 1 1 [0, 0]).authority
      = [⟨N ["ex", "com"], 6, 1, 2560, soaRd⟩] ∧
    (Spec.answer ⟨twoSoa.reverse, [], []⟩ (N ["nope", "ex", "com"]) 1 1 1 [0, 0]).authority
      = [⟨N ["ex", "com"], 6, 1, 60, soaRd⟩] ∧
    ¬ (Spec.answer ⟨twoSoa.reverse, [], []⟩ (N ["nope", "ex", "com"]) 1 1 1 [0, 0]).authority.Perm
        (Spec.answer ⟨twoSoa, [], []⟩ (N ["nope", "ex", "com"]) 1 1 1 [0, 0]).authority := by
  refine ⟨by decide +kernel, List.reverse_perm _, by decide +kernel, by decide +kernel, by decide +kernel⟩

end PermInvariance

/-! ## 6. from the data file to the answer (the pipeline theorem)

`Pipeline.compile b svcb lines` is the store the model compiler builds from the lines of a data file
(the codec of every line, the accumulator output of the backend, the features record);
`Pipeline.zoneOf lines` is the declared zone the Spec oracle of the correspondence check answers from
(the codec output decoded into records / maps / subnets). Both are the functions the driver runs.

Vocabulary (`Proofs/Pipeline.lean`, decidable):
* `LinesOK lines` — every generic `:` line whose type is A or AAAA has at least four bytes of rdata
  (the weight field the server reads in rows of these types). Forced, see below.
* `TagOK l` — the location tag is two bytes and none of `\000%`, `\000M`, `\0008`, the prefixes of the
  three control key spaces of the v1 layout (legacy subnet records, resolver / client-subnet maps).
  Forced, see below. `[0,0]` (no location) and every tag with a non-zero first byte are `TagOK`. -/

section Pipeline
open Spec DnsVerif.Loc DnsVerif.Pipeline DnsVerif.PipelineProofs

/-- **Pipeline theorem**: for the v1 key layouts, under every admissible location tag the compiled
store holds, for every `NameOK` owner, exactly the rows of the records the file declares for that
owner and tag, in file order (`RepresentsAt`, the hypothesis of `serve_v1_refines_spec`). It rests on
`convertLine_shaped` (every pair the codec emits — all sixteen line types — is the pair of an
emittable record, a map pair or a legacy `%` pair), the key round trip `decodeRR_rrPair` and the
row round trip `extractRR_putrrhead`. -/
theorem file_represents_declared (b : Backend) (hb : (∃ sep, b = .cdb sep) ∨ b = .rdbV1) (svcb : SvcbFn)
    (lines : List Bytes) (store : Store) (z : Zone)
    (hc : compile b svcb lines = some store) (hz : zoneOf lines = some z) (hlines : LinesOK lines)
    (l : Bytes) (hl : TagOK l) : RepresentsAt store z.recs l :=
  compile_representsAt b hb svcb lines store z hc hz hlines l hl

/-- **Served as declared.** A data file that compiles (CDB in either bitmap mode or RocksDB v1; any
SVCB parameter parser, in particular `noSvcb`) and whose declared records are well-formed: for a
client in location `l`, every `NameOK` (lower-case) query name, every qtype, class and answer limit,
the handler model on the compiled store replies with exactly `Spec.answer` of the declared zone —
all four sections, rcode and AA. `TargetsOK` is the hypothesis of `serve_v1_refines_spec` on the
additional section. -/
theorem file_served_as_declared (b : Backend) (hb : (∃ sep, b = .cdb sep) ∨ b = .rdbV1) (svcb : SvcbFn)
    (lines : List Bytes) (store : Store) (z : Zone)
    (hc : compile b svcb lines = some store) (hz : zoneOf lines = some z) (hlines : LinesOK lines)
    (hwf : WellFormed z.recs) (l : Bytes) (hl : TagOK l)
    (q : List Bytes) (hq : NameOK q) (qtype qclass maxAns : Nat)
    (ht : TargetsOK ((Spec.answer ⟨viewSort l z.recs, z.maps, z.subnets⟩ q qtype qclass maxAns l).answer ++
                     (Spec.answer ⟨viewSort l z.recs, z.maps, z.subnets⟩ q qtype qclass maxAns l).authority)) :
    serve ⟨b, store, l⟩ ⟨pack q, pack q, qtype, qclass, maxAns⟩ =
      .reply (ofSpec (Spec.answer ⟨viewSort l z.recs, z.maps, z.subnets⟩ q qtype qclass maxAns l)) := by
  have hb' : b ≠ .rdbV2 := by
    rcases hb with ⟨sep, h⟩ | h <;> rw [h] <;> intro h' <;> cases h'
  exact serve_v1_full b hb' store z.recs l
    (compile_representsAt b hb svcb lines store z hc hz hlines [0, 0] (by decide))
    (compile_representsAt b hb svcb lines store z hc hz hlines l hl)
    hwf q hq qtype qclass maxAns z.maps z.subnets ht

/-- **Served as declared, targets in any letter case.** As `file_served_as_declared` with
`TargetsLowOK` (the lower-cased NS / MX targets are storable and pairwise distinct) in place of
`TargetsOK`: every field of the reply is `Spec.answer`'s, the additional section up to the letter
case of its owner names. -/
theorem file_served_as_declared_anycase (b : Backend) (hb : (∃ sep, b = .cdb sep) ∨ b = .rdbV1) (svcb : SvcbFn)
    (lines : List Bytes) (store : Store) (z : Zone)
    (hc : compile b svcb lines = some store) (hz : zoneOf lines = some z) (hlines : LinesOK lines)
    (hwf : WellFormed z.recs) (l : Bytes) (hl : TagOK l)
    (q : List Bytes) (hq : NameOK q) (qtype qclass maxAns : Nat)
    (ht : TargetsLowOK ((Spec.answer ⟨viewSort l z.recs, z.maps, z.subnets⟩ q qtype qclass maxAns l).answer ++
                        (Spec.answer ⟨viewSort l z.recs, z.maps, z.subnets⟩ q qtype qclass maxAns l).authority)) :
    ∃ extra, serve ⟨b, store, l⟩ ⟨pack q, pack q, qtype, qclass, maxAns⟩ =
        .reply { ofSpec (Spec.answer ⟨viewSort l z.recs, z.maps, z.subnets⟩ q qtype qclass maxAns l) with
                 extra := extra } ∧
      extra.map ServeKey.lowGroup =
        (Spec.answer ⟨viewSort l z.recs, z.maps, z.subnets⟩ q qtype qclass maxAns l).additional.map
          ofSpecGroup := by
  have hb' : b ≠ .rdbV2 := by
    rcases hb with ⟨sep, h⟩ | h <;> rw [h] <;> intro h' <;> cases h'
  exact serve_v1_full_ci b hb' store z.recs l
    (compile_representsAt b hb svcb lines store z hc hz hlines [0, 0] (by decide))
    (compile_representsAt b hb svcb lines store z hc hz hlines l hl)
    hwf q hq qtype qclass maxAns z.maps z.subnets ht

/-- The same against the declared zone itself (records in file order, no `viewSort`): the reply is
`Spec.answer z` up to the order inside sections (`AnswerPerm`, section 5). -/
theorem file_served_as_declared_file_order (b : Backend) (hb : (∃ sep, b = .cdb sep) ∨ b = .rdbV1)
    (svcb : SvcbFn) (lines : List Bytes) (store : Store) (z : Zone)
    (hc : compile b svcb lines = some store) (hz : zoneOf lines = some z) (hlines : LinesOK lines)
    (hwf : WellFormed z.recs) (l : Bytes) (hl : TagOK l)
    (q : List Bytes) (hq : NameOK q) (qtype qclass maxAns : Nat)
    (ht : TargetsOK ((Spec.answer z q qtype qclass maxAns l).answer ++
                     (Spec.answer z q qtype qclass maxAns l).authority)) :
    ∃ A, serve ⟨b, store, l⟩ ⟨pack q, pack q, qtype, qclass, maxAns⟩ = .reply (ofSpec A) ∧
      DnsVerif.ViewSort.AnswerPerm A (Spec.answer z q qtype qclass maxAns l) := by
  have hb' : b ≠ .rdbV2 := by
    rcases hb with ⟨sep, h⟩ | h <;> rw [h] <;> intro h' <;> cases h'
  exact serve_v1_refines_spec_file_order b hb' store z.recs l
    (compile_representsAt b hb svcb lines store z hc hz hlines [0, 0] (by decide))
    (compile_representsAt b hb svcb lines store z hc hz hlines l hl)
    hwf q hq qtype qclass maxAns z.maps z.subnets ht

/-! non-vacuity: a concrete data file, as byte lines — a comment, a `.` line (SOA + NS + glue), an
untagged and a tagged weighted address, an MX with its exchanger's address, a subnet, a map, a
wildcard TXT, a generic record -/

def sampleFile : List Bytes := [
  B "# sample zone",
  B ".ex.com,5.5.5.5,a,300",
  B "+www.ex.com,1.2.3.4,300",
  B "+www.ex.com,1.2.3.5,300,,ab,2",
  B "@ex.com,1.2.3.9,mail,10",
  B "%ab,10.0.0.0/8,m1",
  B "Mex.com,m1",
  B "'*.w.ex.com,hello",
  B ":ex.com,99,abc"]

def sampleStore (b : Backend) : Store := (compile b noSvcb sampleFile).getD []
def sampleDeclared : Zone := (zoneOf sampleFile).getD ⟨[], [], []⟩

theorem sampleStore_eq (b : Backend) (h : (compile b noSvcb sampleFile).isSome = true) :
    compile b noSvcb sampleFile = some (sampleStore b) := by
  unfold sampleStore
  cases hc : compile b noSvcb sampleFile with
  | none => rw [hc] at h; cases h
  | some s => rfl

theorem sampleDeclared_eq : zoneOf sampleFile = some sampleDeclared := by
  have h : (zoneOf sampleFile).isSome = true := by decide +kernel
  unfold sampleDeclared
  cases hz : zoneOf sampleFile with
  | none => rw [hz] at h; cases h
  | some z => rfl

example : LinesOK sampleFile := by decide +kernel
example : WellFormed sampleDeclared.recs := by decide +kernel
example : sampleDeclared.recs.length = 9 := by decide +kernel

-- RocksDB v1, a client in location `ab`: both addresses of `www.ex.com`, the one tagged `ab` first
example :
    serve ⟨.rdbV1, sampleStore .rdbV1, B "ab"⟩
        ⟨pack (N ["www", "ex", "com"]), pack (N ["www", "ex", "com"]), 1, 1, 2⟩ =
      .reply (ofSpec (Spec.answer ⟨viewSort (B "ab") sampleDeclared.recs, sampleDeclared.maps, sampleDeclared.subnets⟩
        (N ["www", "ex", "com"]) 1 1 2 (B "ab"))) :=
  file_served_as_declared .rdbV1 (Or.inr rfl) noSvcb sampleFile _ sampleDeclared
    (sampleStore_eq _ (by decide +kernel)) sampleDeclared_eq (by decide +kernel) (by decide +kernel)
    (B "ab") (by decide +kernel) _ (by decide +kernel) 1 1 2 (by decide +kernel)

example :
    (Spec.answer ⟨viewSort (B "ab") sampleDeclared.recs, sampleDeclared.maps, sampleDeclared.subnets⟩
      (N ["www", "ex", "com"]) 1 1 2 (B "ab")).answerAddrs
      = [⟨N ["www", "ex", "com"], 1, 1, [(300, 2, [1, 2, 3, 5]), (300, 1, [1, 2, 3, 4])], 2⟩] := by
  decide +kernel

-- CDB, no location: the MX answer with the exchanger's address in the additional section
example :
    serve ⟨.cdb false, sampleStore (.cdb false), [0, 0]⟩
        ⟨pack (N ["ex", "com"]), pack (N ["ex", "com"]), 15, 1, 1⟩ =
      .reply (ofSpec (Spec.answer ⟨viewSort [0, 0] sampleDeclared.recs, sampleDeclared.maps, sampleDeclared.subnets⟩
        (N ["ex", "com"]) 15 1 1 [0, 0])) :=
  file_served_as_declared (.cdb false) (Or.inl ⟨false, rfl⟩) noSvcb sampleFile _ sampleDeclared
    (sampleStore_eq _ (by decide +kernel)) sampleDeclared_eq (by decide +kernel) (by decide +kernel)
    [0, 0] (by decide) _ (by decide +kernel) 15 1 1 (by decide +kernel)

example :
    (Spec.answer ⟨viewSort [0, 0] sampleDeclared.recs, sampleDeclared.maps, sampleDeclared.subnets⟩
      (N ["ex", "com"]) 15 1 1 [0, 0]).additional
      = [⟨N ["mail", "mx", "ex", "com"], 1, 1, [(86400, 1, [1, 2, 3, 9])], 1⟩] := by
  decide +kernel

-- CDB with separate bitmaps, against the declared zone in file order
example :
    ∃ A, serve ⟨.cdb true, sampleStore (.cdb true), B "ab"⟩
        ⟨pack (N ["www", "ex", "com"]), pack (N ["www", "ex", "com"]), 1, 1, 2⟩ = .reply (ofSpec A) ∧
      DnsVerif.ViewSort.AnswerPerm A (Spec.answer sampleDeclared (N ["www", "ex", "com"]) 1 1 2 (B "ab")) :=
  file_served_as_declared_file_order (.cdb true) (Or.inl ⟨true, rfl⟩) noSvcb sampleFile _ sampleDeclared
    (sampleStore_eq _ (by decide +kernel)) sampleDeclared_eq (by decide +kernel) (by decide +kernel)
    (B "ab") (by decide +kernel) _ (by decide +kernel) 1 1 2 (by decide +kernel)

/-! `LinesOK` is forced: a generic `:` line of type A with two bytes of rdata compiles to a row too
short for the weight field; the declared zone has no such record (NXDOMAIN), the handler fails on
the row (SERVFAIL). -/

def shortGeneric : List Bytes := [B ".ex.com,5.5.5.5,a", B ":www.ex.com,1,ab"]

def rcodeOf : Outcome → Option Nat
  | .reply r => some r.rcode
  | .failedReply => some 2
  | _ => none

example :
    ¬ LinesOK shortGeneric ∧
    ((zoneOf shortGeneric).map fun z => (decide (WellFormed z.recs),
        (Spec.answer z (N ["www", "ex", "com"]) 1 1 1 [0, 0]).rcode)) = some (true, 3) ∧
    ((compile .rdbV1 noSvcb shortGeneric).map fun s =>
        rcodeOf (serve ⟨.rdbV1, s, [0, 0]⟩
          ⟨pack (N ["www", "ex", "com"]), pack (N ["www", "ex", "com"]), 1, 1, 1⟩)) = some (some 2) := by
  decide +kernel

/-! `TagOK` is forced: a record tagged with the location `\000M` is stored under a key of the
resolver-map key space; the Spec oracle's decoder reads that key as a map, so the declared zone has
no such record (NXDOMAIN) while the handler, for a client in that location, serves it. Likewise a
legacy `%` record of the CDB codec can sit at `\000%` ++ a packed name. -/

def mapTagged : List Bytes := [B ".ex.com,5.5.5.5,a", B "+www.ex.com,1.2.3.4,,,\\000M"]
def legacyClash : List Bytes := [B ".ex.com,5.5.5.5,a", B "%lo,0.0.0.0/8,\\001a"]

example :
    ¬ TagOK [0, 0x4d] ∧ LinesOK mapTagged ∧
    ((zoneOf mapTagged).map fun z => (decide (WellFormed z.recs),
        (Spec.answer z (N ["www", "ex", "com"]) 1 1 1 [0, 0x4d]).rcode)) = some (true, 3) ∧
    ((compile .rdbV1 noSvcb mapTagged).map fun s =>
        rcodeOf (serve ⟨.rdbV1, s, [0, 0x4d]⟩
          ⟨pack (N ["www", "ex", "com"]), pack (N ["www", "ex", "com"]), 1, 1, 1⟩)) = some (some 0) := by
  decide +kernel

example :
    ¬ TagOK [0, 0x25] ∧ LinesOK legacyClash ∧
    ((zoneOf legacyClash).map fun z => (z.recs.filter fun r => r.loc = [0, 0x25]).length) = some 0 ∧
    ((compile (.cdb false) noSvcb legacyClash).map fun s => s.get ([0, 0x25] ++ pack (N ["a"])))
      = some [B "lo"] := by
  decide +kernel

end Pipeline

/-! ## 7. from the data file to the answer, v2 key layout (RocksDB, reversed sorted keys)

`compile .rdbV2` runs the line codec with `useV2Keys`: a resource record is written under
`marker ++ putreverseddom owner ++ loc` with the value the v1 configurations write under
`loc ++ putdom owner`. `Proofs/PipelineV2.lean` relates the two codec runs pair by pair
(`convertLine_rel2`), shows that the compiled v2 store is canonical (`ServeV2.V2Canonical`) and holds
under `Key (reverse owner) loc` exactly the declared rows, and reduces `serve` on it to `serve` over the
v1 layout on `ServeV2.v1Of store` (C02's `findGo` = label walk; `serve_v2_eq_v1_of_reply` needs the
additional-section hypothesis for the records of the reply only), which is `Spec.answer`.

Hypotheses: those of `file_served_as_declared` plus
* `LinesV2OK lines` (decidable) — every dot-separated label of every owner name a line hands to
  `makedomainkey` is shorter than 256 bytes. Forced (`longOwner` below): `putreverseddom` writes a
  longer label WHOLE after its truncated length byte, `putdom` truncates the label as well, so the
  v2 key is not the reversed wire form of the declared owner and the record is not served. -/

section PipelineV2
open Spec DnsVerif.Loc DnsVerif.Pipeline DnsVerif.PipelineProofs DnsVerif.PipelineV2

/-- **Pipeline theorem, v2 layout**: the store `compile .rdbV2` builds holds, under the v2 key
`marker ++ pack (reverse owner) ++ l`, exactly the rows the file declares for that owner and tag. -/
theorem file_represents_declared_v2 (svcb : SvcbFn) (lines : List Bytes) (store : Store) (z : Zone)
    (hc : compile .rdbV2 svcb lines = some store) (hz : zoneOf lines = some z) (hlines : LinesOK lines)
    (hshort : LinesV2OK lines) (l : Bytes) (hl : TagOK l) (ls : List Bytes) (hn : NameOK ls) :
    store.get (RevOrder.Key ls.reverse l) = (recsAt z.recs ls l).map rowOfRec :=
  compile_v2_get svcb lines store z hc hz hlines hshort l hl ls hn

/-- the compiled v2 store is canonical (`ServeV2.V2Canonical`, the `keys` half of `RepRRV2`) -/
theorem file_compiled_v2_canonical (svcb : SvcbFn) (lines : List Bytes) (store : Store) (z : Zone)
    (hc : compile .rdbV2 svcb lines = some store) (hz : zoneOf lines = some z) (hlines : LinesOK lines)
    (hshort : LinesV2OK lines) : ServeV2.V2Canonical store :=
  compile_v2_canonical svcb lines store z hc hz hlines hshort

/-- **Served as declared, v2 layout.** A data file that compiles for RocksDB with v2 keys (any SVCB
parameter parser) and whose declared records are well-formed: for a client in location `l`, every
`NameOK` (lower-case) query name, every qtype (DS included), class and answer limit, the handler model
on the compiled store — closest-key searches `findGo` for the zone cut and the answer — replies with
exactly `Spec.answer` of the declared zone: all four sections, rcode and AA. Hypotheses as in
`file_served_as_declared`, plus `LinesV2OK`. -/
theorem file_served_as_declared_v2 (svcb : SvcbFn) (lines : List Bytes) (store : Store) (z : Zone)
    (hc : compile .rdbV2 svcb lines = some store) (hz : zoneOf lines = some z) (hlines : LinesOK lines)
    (hshort : LinesV2OK lines) (hwf : WellFormed z.recs) (l : Bytes) (hl : TagOK l)
    (q : List Bytes) (hq : NameOK q) (qtype qclass maxAns : Nat)
    (ht : TargetsOK ((Spec.answer ⟨viewSort l z.recs, z.maps, z.subnets⟩ q qtype qclass maxAns l).answer ++
                     (Spec.answer ⟨viewSort l z.recs, z.maps, z.subnets⟩ q qtype qclass maxAns l).authority)) :
    serve ⟨.rdbV2, store, l⟩ ⟨pack q, pack q, qtype, qclass, maxAns⟩ =
      .reply (ofSpec (Spec.answer ⟨viewSort l z.recs, z.maps, z.subnets⟩ q qtype qclass maxAns l)) := by
  obtain ⟨_, _, _, h0, hr⟩ := compile_v2_represents svcb lines store z hc hz hlines hshort l hl
  refine compile_v2_serve_of_reply svcb lines store z hc hz hlines hshort l hl q hq qtype qclass maxAns _
    (serve_v1_full .rdbV1 (by decide) _ z.recs l h0 hr hwf q hq qtype qclass maxAns z.maps z.subnets ht) ?_
  show ∀ rr ∈ List.map ofSpecRR _ ++ List.map ofSpecRR _, ServeV2.RROK rr
  rw [← List.map_append]
  exact rrok_of_targetsLowOK _ (ServeRefine.targetsLowOK_of_targetsOK _ ht)

/-- **Served as declared, v2 layout, targets in any letter case** (as `file_served_as_declared_anycase`) -/
theorem file_served_as_declared_v2_anycase (svcb : SvcbFn) (lines : List Bytes) (store : Store) (z : Zone)
    (hc : compile .rdbV2 svcb lines = some store) (hz : zoneOf lines = some z) (hlines : LinesOK lines)
    (hshort : LinesV2OK lines) (hwf : WellFormed z.recs) (l : Bytes) (hl : TagOK l)
    (q : List Bytes) (hq : NameOK q) (qtype qclass maxAns : Nat)
    (ht : TargetsLowOK ((Spec.answer ⟨viewSort l z.recs, z.maps, z.subnets⟩ q qtype qclass maxAns l).answer ++
                        (Spec.answer ⟨viewSort l z.recs, z.maps, z.subnets⟩ q qtype qclass maxAns l).authority)) :
    ∃ extra, serve ⟨.rdbV2, store, l⟩ ⟨pack q, pack q, qtype, qclass, maxAns⟩ =
        .reply { ofSpec (Spec.answer ⟨viewSort l z.recs, z.maps, z.subnets⟩ q qtype qclass maxAns l) with
                 extra := extra } ∧
      extra.map ServeKey.lowGroup =
        (Spec.answer ⟨viewSort l z.recs, z.maps, z.subnets⟩ q qtype qclass maxAns l).additional.map
          ofSpecGroup := by
  obtain ⟨_, _, _, h0, hr⟩ := compile_v2_represents svcb lines store z hc hz hlines hshort l hl
  obtain ⟨extra, h1, he⟩ :=
    serve_v1_full_ci .rdbV1 (by decide) _ z.recs l h0 hr hwf q hq qtype qclass maxAns z.maps z.subnets ht
  refine ⟨extra, compile_v2_serve_of_reply svcb lines store z hc hz hlines hshort l hl q hq qtype qclass maxAns
    _ h1 ?_, he⟩
  show ∀ rr ∈ List.map ofSpecRR _ ++ List.map ofSpecRR _, ServeV2.RROK rr
  rw [← List.map_append]
  exact rrok_of_targetsLowOK _ ht

/-- the same against the declared zone in file order, up to `AnswerPerm` (as
`file_served_as_declared_file_order`) -/
theorem file_served_as_declared_v2_file_order (svcb : SvcbFn) (lines : List Bytes) (store : Store) (z : Zone)
    (hc : compile .rdbV2 svcb lines = some store) (hz : zoneOf lines = some z) (hlines : LinesOK lines)
    (hshort : LinesV2OK lines) (hwf : WellFormed z.recs) (l : Bytes) (hl : TagOK l)
    (q : List Bytes) (hq : NameOK q) (qtype qclass maxAns : Nat)
    (ht : TargetsOK ((Spec.answer z q qtype qclass maxAns l).answer ++
                     (Spec.answer z q qtype qclass maxAns l).authority)) :
    ∃ A, serve ⟨.rdbV2, store, l⟩ ⟨pack q, pack q, qtype, qclass, maxAns⟩ = .reply (ofSpec A) ∧
      DnsVerif.ViewSort.AnswerPerm A (Spec.answer z q qtype qclass maxAns l) := by
  have hp := DnsVerif.ViewSort.answer_viewSort z.recs l z.maps z.subnets q qtype qclass maxAns
  exact ⟨_, file_served_as_declared_v2 svcb lines store z hc hz hlines hshort hwf l hl q hq qtype qclass maxAns
    (DnsVerif.ViewSort.targetsOK_perm (hp.answer.append hp.authority) ht), hp⟩

/-- **All three storage configurations answer alike**: one data file compiled for CDB (either bitmap
mode) or RocksDB v1 and for RocksDB v2 — the two handler models give the same reply (`Spec.answer` of
the declared zone) to every `NameOK` query from every admissible location. -/
theorem file_served_alike_all_layouts (b : Backend) (hb : (∃ sep, b = .cdb sep) ∨ b = .rdbV1) (svcb : SvcbFn)
    (lines : List Bytes) (store₁ store₂ : Store) (z : Zone)
    (hc1 : compile b svcb lines = some store₁) (hc2 : compile .rdbV2 svcb lines = some store₂)
    (hz : zoneOf lines = some z) (hlines : LinesOK lines) (hshort : LinesV2OK lines)
    (hwf : WellFormed z.recs) (l : Bytes) (hl : TagOK l)
    (q : List Bytes) (hq : NameOK q) (qtype qclass maxAns : Nat)
    (ht : TargetsOK ((Spec.answer ⟨viewSort l z.recs, z.maps, z.subnets⟩ q qtype qclass maxAns l).answer ++
                     (Spec.answer ⟨viewSort l z.recs, z.maps, z.subnets⟩ q qtype qclass maxAns l).authority)) :
    serve ⟨.rdbV2, store₂, l⟩ ⟨pack q, pack q, qtype, qclass, maxAns⟩ =
      serve ⟨b, store₁, l⟩ ⟨pack q, pack q, qtype, qclass, maxAns⟩ := by
  rw [file_served_as_declared_v2 svcb lines store₂ z hc2 hz hlines hshort hwf l hl q hq qtype qclass maxAns ht,
    file_served_as_declared b hb svcb lines store₁ z hc1 hz hlines hwf l hl q hq qtype qclass maxAns ht]

/-! non-vacuity on `sampleFile` -/

example : LinesV2OK sampleFile := by decide +kernel
example : ServeV2.V2Canonical (sampleStore .rdbV2) := by decide +kernel

example :
    serve ⟨.rdbV2, sampleStore .rdbV2, B "ab"⟩
        ⟨pack (N ["www", "ex", "com"]), pack (N ["www", "ex", "com"]), 1, 1, 2⟩ =
      .reply (ofSpec (Spec.answer ⟨viewSort (B "ab") sampleDeclared.recs, sampleDeclared.maps, sampleDeclared.subnets⟩
        (N ["www", "ex", "com"]) 1 1 2 (B "ab"))) :=
  file_served_as_declared_v2 noSvcb sampleFile _ sampleDeclared
    (sampleStore_eq _ (by decide +kernel)) sampleDeclared_eq (by decide +kernel) (by decide +kernel)
    (by decide +kernel) (B "ab") (by decide +kernel) _ (by decide +kernel) 1 1 2 (by decide +kernel)

example :
    serve ⟨.rdbV2, sampleStore .rdbV2, [0, 0]⟩
        ⟨pack (N ["ex", "com"]), pack (N ["ex", "com"]), 15, 1, 1⟩ =
      .reply (ofSpec (Spec.answer ⟨viewSort [0, 0] sampleDeclared.recs, sampleDeclared.maps, sampleDeclared.subnets⟩
        (N ["ex", "com"]) 15 1 1 [0, 0])) :=
  file_served_as_declared_v2 noSvcb sampleFile _ sampleDeclared
    (sampleStore_eq _ (by decide +kernel)) sampleDeclared_eq (by decide +kernel) (by decide +kernel)
    (by decide +kernel) [0, 0] (by decide) _ (by decide +kernel) 15 1 1 (by decide +kernel)

/-! `LinesV2OK` is forced -/

def longOwner : List Bytes :=
  [B ".ex.com,5.5.5.5,a", B "+" ++ List.replicate 300 120 ++ B ".ex.com,1.2.3.4"]
def x44 : List Bytes := [List.replicate 44 120, B "ex", B "com"]

example :
    LinesOK longOwner ∧ ¬ LinesV2OK longOwner ∧
    ((zoneOf longOwner).map fun z => (decide (WellFormed z.recs),
        (Spec.answer z x44 1 1 1 [0, 0]).rcode)) = some (true, 0) ∧
    ((compile .rdbV1 noSvcb longOwner).map fun s =>
        rcodeOf (serve ⟨.rdbV1, s, [0, 0]⟩ ⟨pack x44, pack x44, 1, 1, 1⟩)) = some (some 0) ∧
    ((compile .rdbV2 noSvcb longOwner).map fun s => (decide (ServeV2.V2Canonical s),
        rcodeOf (serve ⟨.rdbV2, s, [0, 0]⟩ ⟨pack x44, pack x44, 1, 1, 1⟩))) = some (false, some 3) := by
  decide +kernel

/-! `LinesOK` and `TagOK` stay forced -/

def shortGeneric2 : List Bytes := [B ".ex.com,5.5.5.5,a", B ":www.ex.com,1,ab", B "+www.ex.com,1.2.3.4"]

example :
    ¬ LinesOK shortGeneric2 ∧ LinesV2OK shortGeneric2 ∧
    ((zoneOf shortGeneric2).map fun z => (decide (WellFormed z.recs),
        (Spec.answer z (N ["www", "ex", "com"]) 1 1 1 [0, 0]).rcode)) = some (true, 0) ∧
    ((compile .rdbV2 noSvcb shortGeneric2).map fun s =>
        rcodeOf (serve ⟨.rdbV2, s, [0, 0]⟩
          ⟨pack (N ["www", "ex", "com"]), pack (N ["www", "ex", "com"]), 1, 1, 1⟩)) = some (some 3) := by
  decide +kernel

example :
    ¬ TagOK [0, 0x4d] ∧ LinesOK mapTagged ∧ LinesV2OK mapTagged ∧
    ((zoneOf mapTagged).map fun z => (decide (WellFormed z.recs),
        (Spec.answer z (N ["www", "ex", "com"]) 1 1 1 [0, 0x4d]).rcode)) = some (true, 3) ∧
    ((compile .rdbV2 noSvcb mapTagged).map fun s =>
        rcodeOf (serve ⟨.rdbV2, s, [0, 0x4d]⟩
          ⟨pack (N ["www", "ex", "com"]), pack (N ["www", "ex", "com"]), 1, 1, 1⟩)) = some (some 0) := by
  decide +kernel

end PipelineV2


/-! ## 8. the wild-safe byte classes, tied to the source -/

/-- one class as `dnsLabelWildsafe` writes it: `"a-z"` for `c >= 'a' && c <= 'z'`, `"-"` for `c == '-'` -/
def classAccepts (cls : String) (c : UInt8) : Bool :=
  match cls.toList with
  | [lo, '-', hi] => lo.toNat ≤ c.toNat && c.toNat ≤ hi.toNat
  | [x] => c.toNat = x.toNat
  | _ => false

/-- The byte classes of `db.dnsLabelWildsafe`, re-extracted from the source on every run, accept
exactly the bytes the model's `Name.wildsafeByte` accepts (all 256 bytes checked by the kernel). The
fact is `none` when the function is no longer a chain of range tests (a lookup table, say); the tie
is then the behavioural one alone: the `wildsafe` op reads the 256-entry table off the running
function on every run and the driver compares it with `Name.wildsafeByte`. -/
theorem wildsafe_classes_match :
    (Generated.db_wildsafe_classes.all fun cls => (List.range 256).all fun n =>
      Name.wildsafeByte n.toUInt8 == cls.any (classAccepts · n.toUInt8)) = true := by
  decide +kernel

/-- the statement above does say something about a table: a class list that misses `_` is refused -/
example : ((some ["a-z", "0-9", "-"] : Option (List String)).all fun cls => (List.range 256).all fun n =>
      Name.wildsafeByte n.toUInt8 == cls.any (classAccepts · n.toUInt8)) = false := by
  decide +kernel

end DnsVerif.Props.C01
