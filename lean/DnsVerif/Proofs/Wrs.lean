/-
Helper lemmas for C11 (weighted random sample). Keys live in an arbitrary linear order; no floats.
-/
import DnsVerif.Model.Wrs
import Mathlib.Order.Defs.LinearOrder

namespace DnsVerif.Wrs

variable {κ α : Type} [LinearOrder κ]

/-- what `Add` leaves in one family's slice after the candidates `cands` (in arrival order) -/
def runFam (m : Int) (cands : List (Item κ α)) : List (Item κ α) := cands.foldl (addFam m) []

/-! ### the scan for the first minimal key below the new key -/

theorem scanMin_spec (vs : List (Item κ α)) : ∀ (mk : κ) (idx : Option Nat) (i : Nat),
    (scanMin mk idx i vs = idx ∧ ∀ v ∈ vs, mk ≤ v.key) ∨
    (∃ j, ∃ h : j < vs.length, scanMin mk idx i vs = some (i + j) ∧ vs[j].key < mk ∧
      (∀ v ∈ vs, vs[j].key ≤ v.key) ∧ ∀ j' (h' : j' < j), vs[j].key < (vs[j']'(by omega)).key) := by
  induction vs with
  | nil => intro mk idx i; left; exact ⟨rfl, by simp⟩
  | cons v vs ih =>
    intro mk idx i
    unfold scanMin
    by_cases hv : v.key < mk
    · rw [if_pos hv]
      right
      rcases ih v.key (some i) (i + 1) with ⟨h1, h2⟩ | ⟨j, hj, h1, h2, h3, h4⟩
      · refine ⟨0, by simp, by simpa using h1, by simpa using hv, ?_, ?_⟩
        · intro w hw
          rcases List.mem_cons.1 hw with rfl | hw
          · exact le_refl _
          · exact h2 w hw
        · intro j' h'; omega
      · refine ⟨j + 1, by simpa using hj, ?_, ?_, ?_, ?_⟩
        · rw [h1]; congr 1; omega
        · simpa using lt_trans h2 hv
        · intro w hw
          simp only [List.getElem_cons_succ]
          rcases List.mem_cons.1 hw with rfl | hw
          · exact le_of_lt h2
          · exact h3 w hw
        · intro j' h'
          simp only [List.getElem_cons_succ]
          cases j' with
          | zero => simpa using h2
          | succ k => simpa using h4 k (by omega)
    · rw [if_neg hv]
      have hv' : mk ≤ v.key := not_lt.1 hv
      rcases ih mk idx (i + 1) with ⟨h1, h2⟩ | ⟨j, hj, h1, h2, h3, h4⟩
      · left
        refine ⟨h1, ?_⟩
        intro w hw
        rcases List.mem_cons.1 hw with rfl | hw
        · exact hv'
        · exact h2 w hw
      · right
        refine ⟨j + 1, by simpa using hj, ?_, ?_, ?_, ?_⟩
        · rw [h1]; congr 1; omega
        · simpa using h2
        · intro w hw
          simp only [List.getElem_cons_succ]
          rcases List.mem_cons.1 hw with rfl | hw
          · exact le_of_lt (lt_of_lt_of_le h2 hv')
          · exact h3 w hw
        · intro j' h'
          simp only [List.getElem_cons_succ]
          cases j' with
          | zero => simpa using lt_of_lt_of_le h2 hv'
          | succ k => simpa using h4 k (by omega)

/-! ### permutation bookkeeping -/

theorem set_perm {β : Type} (l : List β) (j : Nat) (h : j < l.length) (x : β) :
    (l.set j x ++ [l[j]]).Perm (l ++ [x]) := by
  induction l generalizing j with
  | nil => simp at h
  | cons a l ih =>
    cases j with
    | zero =>
      simp only [List.set_cons_zero, List.getElem_cons_zero, List.cons_append]
      exact ((List.perm_append_singleton a l).cons x).trans
        ((List.Perm.swap a x l).trans ((List.perm_append_singleton x l).symm.cons a))
    | succ j =>
      simp only [List.set_cons_succ, List.getElem_cons_succ, List.cons_append]
      exact (ih j (by simpa using h)).cons a

/-- The invariant: with bound `b` on the slice length, after the candidates `pre` the slice `kept`
together with some multiset `dropped` is exactly `pre`, `kept` has `min b |pre|` elements, and no
dropped key exceeds a kept key. -/
def Inv (b : Nat) (pre kept : List (Item κ α)) : Prop :=
  ∃ dropped : List (Item κ α), (kept ++ dropped).Perm pre ∧ kept.length = min b pre.length ∧
    ∀ d ∈ dropped, ∀ k ∈ kept, d.key ≤ k.key

theorem Inv.nil (b : Nat) : Inv b ([] : List (Item κ α)) [] :=
  ⟨[], by simp, by simp, by simp⟩

theorem Inv.append {b : Nat} {pre kept : List (Item κ α)} (h : Inv b pre kept) (c : Item κ α)
    (hlt : kept.length < b) : Inv b (pre ++ [c]) (kept ++ [c]) := by
  obtain ⟨dropped, hp, hl, _⟩ := h
  have hlen := hp.length_eq
  simp only [List.length_append] at hlen
  have hd : dropped = [] := List.eq_nil_of_length_eq_zero (by omega)
  subst hd
  refine ⟨[], ?_, ?_, by simp⟩
  · simp only [List.append_nil] at hp ⊢
    exact hp.append_right [c]
  · simp only [List.length_append, List.length_singleton]; omega

theorem Inv.keep {b : Nat} {pre kept : List (Item κ α)} (h : Inv b pre kept) (c : Item κ α)
    (hfull : b ≤ kept.length) (hc : ∀ k ∈ kept, c.key ≤ k.key) : Inv b (pre ++ [c]) kept := by
  obtain ⟨dropped, hp, hl, ho⟩ := h
  refine ⟨dropped ++ [c], ?_, ?_, ?_⟩
  · rw [← List.append_assoc]; exact hp.append_right [c]
  · simp only [List.length_append, List.length_singleton]; omega
  · intro d hd k hk
    rcases List.mem_append.1 hd with hd | hd
    · exact ho d hd k hk
    · rw [List.mem_singleton.1 hd]; exact hc k hk

theorem Inv.replace {b : Nat} {pre kept : List (Item κ α)} (h : Inv b pre kept) (c : Item κ α)
    (hfull : b ≤ kept.length) (j : Nat) (hj : j < kept.length) (hlt : kept[j].key < c.key)
    (hmin : ∀ k ∈ kept, kept[j].key ≤ k.key) : Inv b (pre ++ [c]) (kept.set j c) := by
  obtain ⟨dropped, hp, hl, ho⟩ := h
  refine ⟨kept[j] :: dropped, ?_, ?_, ?_⟩
  · have e : kept.set j c ++ kept[j] :: dropped = (kept.set j c ++ [kept[j]]) ++ dropped := by simp
    rw [e]
    refine ((set_perm kept j hj c).append_right dropped).trans ?_
    rw [List.append_assoc]
    refine (List.perm_append_comm.append_left kept).trans ?_
    rw [← List.append_assoc]
    exact hp.append_right [c]
  · simp only [List.length_set, List.length_append, List.length_singleton]; omega
  · intro d hd k hk
    have hk' : k = c ∨ k ∈ kept := by
      rcases List.mem_or_eq_of_mem_set hk with hk | hk
      · exact Or.inr hk
      · exact Or.inl hk
    rcases List.mem_cons.1 hd with rfl | hd
    · rcases hk' with rfl | hk'
      · exact le_of_lt hlt
      · exact hmin k hk'
    · have hdj : d.key ≤ kept[j].key := ho d hd _ (List.getElem_mem hj)
      rcases hk' with rfl | hk'
      · exact le_of_lt (lt_of_le_of_lt hdj hlt)
      · exact ho d hd k hk'

/-- one `Add` keeps the invariant (both branches of the Go code) -/
theorem Inv.step (m : Int) {pre kept : List (Item κ α)} (h : Inv m.toNat pre kept) (c : Item κ α) :
    Inv m.toNat (pre ++ [c]) (addFam m kept c) := by
  unfold addFam
  by_cases h1 : m = 1
  · rw [if_pos h1]
    subst h1
    have hl := h.choose_spec.2.1
    unfold checkAndReplace
    cases kept with
    | nil => exact h.append c (by simp)
    | cons x rest =>
      have hr : rest = [] := by
        apply List.eq_nil_of_length_eq_zero
        simp only [List.length_cons] at hl
        have : (1 : Int).toNat = 1 := rfl
        omega
      subst hr
      simp only
      by_cases hx : x.key < c.key
      · rw [if_pos hx]
        exact h.replace c (by simp) 0 (by simp) (by simpa using hx) (by simp)
      · rw [if_neg hx]
        exact h.keep c (by simp) (by simpa using hx)
  · rw [if_neg h1]
    unfold addRecord
    by_cases hlen : (kept.length : Int) < m
    · rw [if_pos hlen]
      exact h.append c (by omega)
    · rw [if_neg hlen]
      have hfull : m.toNat ≤ kept.length := by omega
      rcases scanMin_spec kept c.key none 0 with ⟨h1, h2⟩ | ⟨j, hj, h1, h2, h3, _⟩
      · rw [h1]
        exact h.keep c hfull h2
      · rw [h1]
        simp only [Nat.zero_add]
        exact h.replace c hfull j hj h2 h3

theorem Inv.foldl (m : Int) (rest : List (Item κ α)) : ∀ (pre kept : List (Item κ α)),
    Inv m.toNat pre kept → Inv m.toNat (pre ++ rest) (rest.foldl (addFam m) kept) := by
  induction rest with
  | nil => intro pre kept h; simpa using h
  | cons c rest ih =>
    intro pre kept h
    have := ih (pre ++ [c]) (addFam m kept c) (h.step m c)
    simpa using this

theorem runFam_inv (m : Int) (cands : List (Item κ α)) : Inv m.toNat cands (runFam m cands) := by
  have := Inv.foldl m cands [] [] (Inv.nil _)
  simpa [runFam] using this

/-! ### ties: a newcomer never displaces an equal key; for a single slot the first maximum wins -/

theorem addFam_tie (m : Int) (kept : List (Item κ α)) (c : Item κ α)
    (hfull : m.toNat ≤ kept.length) (hne : kept ≠ []) (hc : ∀ k ∈ kept, c.key ≤ k.key) :
    addFam m kept c = kept := by
  unfold addFam
  by_cases h1 : m = 1
  · rw [if_pos h1]
    unfold checkAndReplace
    cases kept with
    | nil => exact absurd rfl hne
    | cons x rest =>
      simp only
      rw [if_neg (not_lt.2 (hc x (by simp)))]
  · rw [if_neg h1]
    unfold addRecord
    rw [if_neg (by omega)]
    rcases scanMin_spec kept c.key none 0 with ⟨h1, _⟩ | ⟨j, hj, _, h2, _, _⟩
    · rw [h1]
    · exact absurd (hc _ (List.getElem_mem hj)) (not_le.2 h2)

theorem runFam_snoc (m : Int) (cs : List (Item κ α)) (c : Item κ α) :
    runFam m (cs ++ [c]) = addFam m (runFam m cs) c := by
  simp [runFam, List.foldl_append]

/-- `MaxAnswers = 1`: the slot holds the FIRST candidate carrying the maximal key -/
theorem single_first_max_rev (l : List (Item κ α)) :
    (l = [] ∧ runFam 1 l.reverse = []) ∨
    ∃ pre y post, runFam 1 l.reverse = [y] ∧ l.reverse = pre ++ y :: post ∧
      (∀ p ∈ pre, p.key < y.key) ∧ ∀ q ∈ post, q.key ≤ y.key := by
  induction l with
  | nil => left; exact ⟨rfl, rfl⟩
  | cons c l ih =>
    right
    rw [List.reverse_cons, runFam_snoc]
    rcases ih with ⟨hl, hr⟩ | ⟨pre, y, post, hr, hs, hp, hq⟩
    · subst hl
      have hr' : runFam (1 : Int) ([] : List (Item κ α)) = [] := rfl
      exact ⟨[], c, [], by simp [hr', addFam, checkAndReplace], by simp, by simp, by simp⟩
    · rw [hr]
      have e : addFam (1 : Int) [y] c = if y.key < c.key then [c] else [y] := by
        simp [addFam, checkAndReplace]
      rw [e]
      by_cases hy : y.key < c.key
      · rw [if_pos hy]
        refine ⟨l.reverse, c, [], rfl, rfl, ?_, by simp⟩
        intro p hpm
        rw [hs] at hpm
        rcases List.mem_append.1 hpm with hpm | hpm
        · exact lt_trans (hp p hpm) hy
        · rcases List.mem_cons.1 hpm with rfl | hpm
          · exact hy
          · exact lt_of_le_of_lt (hq p hpm) hy
      · rw [if_neg hy]
        refine ⟨pre, y, post ++ [c], rfl, by rw [hs]; simp, hp, ?_⟩
        intro q hqm
        rcases List.mem_append.1 hqm with hqm | hqm
        · exact hq q hqm
        · rw [List.mem_singleton.1 hqm]; exact not_lt.1 hy

/-! ### the whole `Wrs` value: both families and the counters -/

/-- the candidates of record type `t` (any weight), in arrival order: what the counter counts -/
def seenOf (t : Nat) (cands : List (Cand κ α)) : List (Cand κ α) :=
  cands.filter (fun c => decide (c.qtype = t))

/-- the items of the positive-weight candidates of record type `t`, in arrival order: what `Add`
samples -/
def candsOf (t : Nat) (cands : List (Cand κ α)) : List (Item κ α) :=
  ((seenOf t cands).filter (fun c => decide (c.weight ≠ 0))).map (·.item)

def stepC (w : State κ α) (c : Cand κ α) : State κ α :=
  match w.add c.qtype c.weight c.item with
  | .ok w' => w'
  | .error _ => w

theorem run_eq (m : Int) (cands : List (Cand κ α)) :
    run m cands = cands.foldl stepC { maxAnswers := m } := rfl

theorem foldl_stepC (cands : List (Cand κ α)) : ∀ w : State κ α,
    w.v4Count < 4294967296 → w.v6Count < 4294967296 →
    (cands.foldl stepC w).maxAnswers = w.maxAnswers ∧
    (cands.foldl stepC w).v4 = (candsOf typeA cands).foldl (addFam w.maxAnswers) w.v4 ∧
    (cands.foldl stepC w).v6 = (candsOf typeAAAA cands).foldl (addFam w.maxAnswers) w.v6 ∧
    (cands.foldl stepC w).v4Count = (w.v4Count + (seenOf typeA cands).length) % 4294967296 ∧
    (cands.foldl stepC w).v6Count = (w.v6Count + (seenOf typeAAAA cands).length) % 4294967296 := by
  induction cands with
  | nil =>
    intro w h4 h6
    simp only [List.foldl_nil, candsOf, seenOf, List.filter_nil, List.map_nil, List.length_nil,
      Nat.add_zero]
    and_intros <;> first | trivial | rfl | omega
  | cons c cands ih =>
    intro w h4 h6
    simp only [List.foldl_cons]
    by_cases hA : c.qtype = typeA
    · have hne : ¬ c.qtype = typeAAAA := by rw [hA]; decide
      by_cases hw : c.weight = 0
      · have hs : stepC w c = { w with v4Count := (w.v4Count + 1) % 4294967296 } := by
          simp [stepC, State.add, hA, hw, typeA, typeAAAA]
        obtain ⟨i1, i2, i3, i4, i5⟩ :=
          ih (stepC w c) (by rw [hs]; simp only; omega) (by rw [hs]; exact h6)
        rw [i1, i2, i3, i4, i5, hs]
        simp only [candsOf, seenOf, List.filter_cons, hA, hw, decide_true, decide_false,
          ne_eq, not_true_eq_false, if_true, Bool.false_eq_true, if_false, List.length_cons]
        and_intros <;> first | trivial | rfl | omega
      · have hs : stepC w c = { w with v4Count := (w.v4Count + 1) % 4294967296,
                                       v4 := addFam w.maxAnswers w.v4 c.item } := by
          simp [stepC, State.add, hA, hw, typeA, typeAAAA]
        obtain ⟨i1, i2, i3, i4, i5⟩ :=
          ih (stepC w c) (by rw [hs]; simp only; omega) (by rw [hs]; exact h6)
        rw [i1, i2, i3, i4, i5, hs]
        simp only [candsOf, seenOf, List.filter_cons, hA, hw, decide_true,
          ne_eq, not_false_eq_true, if_true,
          List.map_cons, List.foldl_cons, List.length_cons]
        and_intros <;> first | trivial | rfl | omega
    · by_cases hB : c.qtype = typeAAAA
      · by_cases hw : c.weight = 0
        · have hs : stepC w c = { w with v6Count := (w.v6Count + 1) % 4294967296 } := by
            simp [stepC, State.add, hB, hw, typeA, typeAAAA]
          obtain ⟨i1, i2, i3, i4, i5⟩ :=
            ih (stepC w c) (by rw [hs]; exact h4) (by rw [hs]; simp only; omega)
          rw [i1, i2, i3, i4, i5, hs]
          simp only [candsOf, seenOf, List.filter_cons, hB, hw, decide_true, decide_false,
            ne_eq, not_true_eq_false, if_true, Bool.false_eq_true, if_false, List.length_cons]
          and_intros <;> first | trivial | rfl | omega
        · have hs : stepC w c = { w with v6Count := (w.v6Count + 1) % 4294967296,
                                         v6 := addFam w.maxAnswers w.v6 c.item } := by
            simp [stepC, State.add, hB, hw, typeA, typeAAAA]
          obtain ⟨i1, i2, i3, i4, i5⟩ :=
            ih (stepC w c) (by rw [hs]; exact h4) (by rw [hs]; simp only; omega)
          rw [i1, i2, i3, i4, i5, hs]
          simp only [candsOf, seenOf, List.filter_cons, hB, hw, decide_true,
            ne_eq, not_false_eq_true, if_true,
            List.map_cons, List.foldl_cons, List.length_cons]
          and_intros <;> first | trivial | rfl | omega
      · have hs : stepC w c = w := by
          simp [stepC, State.add, hA, hB]
        obtain ⟨i1, i2, i3, i4, i5⟩ := ih (stepC w c) (by rw [hs]; exact h4) (by rw [hs]; exact h6)
        rw [i1, i2, i3, i4, i5, hs]
        simp only [candsOf, seenOf, List.filter_cons, hA, hB, decide_false, Bool.false_eq_true,
          if_false]
        and_intros <;> trivial

/-- the state after the callers' loop, family by family: the slice is what the sampling leaves of
the positive-weight candidates, the counter counts the candidates of any weight -/
theorem run_spec (m : Int) (cands : List (Cand κ α)) :
    (run m cands).v4 = runFam m (candsOf typeA cands) ∧
    (run m cands).v6 = runFam m (candsOf typeAAAA cands) ∧
    (run m cands).v4Count = (seenOf typeA cands).length % 4294967296 ∧
    (run m cands).v6Count = (seenOf typeAAAA cands).length % 4294967296 := by
  obtain ⟨_, i2, i3, i4, i5⟩ := foldl_stepC cands ({ maxAnswers := m } : State κ α) (by simp) (by simp)
  rw [run_eq]
  refine ⟨i2, i3, ?_, ?_⟩
  · rw [i4]; simp
  · rw [i5]; simp

end DnsVerif.Wrs
